# sourced by every script: offline Go environment for the harness
export GOFLAGS=-mod=mod GOPROXY=off GOSUMDB=off GOTOOLCHAIN=local
export VERIF_ROOT="${VERIF_ROOT:-$(cd "$(dirname "${BASH_SOURCE[0]}")" && pwd)}"
export VERIF_CACHE="$VERIF_ROOT/.cache"
export GOCACHE="${VERIF_GOCACHE:-/verif/.cache/gocache}"
export GO=go1.26.8
export PATH=/opt/veriftools/go1.26.8/bin:$PATH

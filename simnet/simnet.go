// Package simnet is the simulated network: Listen/Dial by "host:port", in-memory
// full-duplex byte streams whose delivery (fragmentation, latency, stalls,
// resets, black holes) is decided by the run's fault tape, deadlines on the fake
// clock. TCP semantics: bytes of one connection are never lost, duplicated or
// reordered — a connection either delivers a prefix of what was written or is
// torn. Std + simrt only. Not instrumented: code here runs atomically between
// the explicit simrt scheduling points.
package simnet

import (
	"context"
	"errors"
	"io"
	"net"
	"os"
	"sort"
	"strings"
	"syscall"
	"time"

	"github.com/tochemey/goakt/v4/zzverif/simrt"
)

// Config selects which fault kinds a run may inject (probabilities are per
// mille, drawn from the fault tape, so 0 on the tape = no fault).
type Config struct {
	Fragment    bool          // deliver writes in arbitrary fragments (short reads)
	LatencyMax  time.Duration // per-connection constant latency in [0, LatencyMax] (reorders requests across pooled connections)
	ResetPerm   int           // per connection: probability that it is torn after a drawn number of bytes
	StallPerm   int           // per connection: probability that delivery stalls once for StallFor
	StallFor    time.Duration
	RefusePerm  int // per dial: connection refused
	MaxResetAt  int // upper bound for the reset byte offset
}

type Network struct {
	F         *simrt.Tape
	Cfg       Config
	listeners map[string]*Listener
	conns     []*Conn
	Stats     map[string]int
	nextPort  int
	start     time.Time
	blackhole map[string]bool // listener addresses whose traffic is dropped (crashed / partitioned node)
	nodes     map[string]string // thread-id prefix -> node address (who is dialing)
	cut       map[string]bool   // "a|b" pairs of node addresses that cannot talk
}

var current *Network

// Enable installs a fresh network for the run.
func Enable(f *simrt.Tape, cfg Config) *Network {
	current = &Network{F: f, Cfg: cfg, listeners: map[string]*Listener{}, Stats: map[string]int{}, nextPort: 40000, start: time.Now(),
		blackhole: map[string]bool{}, nodes: map[string]string{}, cut: map[string]bool{}}
	return current
}

func Disable()      { current = nil }
func Enabled() bool { return current != nil }
func Cur() *Network { return current }

func (n *Network) stat(k string) { n.Stats[k]++ }

// RegisterNode declares that every goroutine descending from the calling
// thread belongs to the node listening on addr (used to attribute dials).
func (n *Network) RegisterNode(addr string) { n.nodes[simrt.ThreadID()+"."] = addr }

func (n *Network) nodeOfCaller() string {
	id := simrt.ThreadID() + "."
	best, bestLen := "", 0
	for p, a := range n.nodes {
		if strings.HasPrefix(id, p) && len(p) > bestLen {
			best, bestLen = a, len(p)
		}
	}
	return best
}

func pairKey(a, b string) string {
	if a > b {
		a, b = b, a
	}
	return a + "|" + b
}

// Partition cuts (or heals) the link between two node addresses: new dials time
// out, bytes written on existing connections are silently dropped.
func (n *Network) Partition(a, b string, cut bool) {
	if cut {
		n.cut[pairKey(a, b)] = true
		n.stat("fault:partition")
	} else {
		delete(n.cut, pairKey(a, b))
		n.stat("fault:heal")
	}
}

// Blackhole makes a node unreachable in both directions (a crashed or frozen node).
func (n *Network) Blackhole(addr string, on bool) {
	if on {
		n.blackhole[addr] = true
		n.stat("fault:blackhole")
	} else {
		delete(n.blackhole, addr)
	}
}

func (n *Network) blocked(a, b string) bool {
	return n.blackhole[a] || n.blackhole[b] || (a != "" && b != "" && n.cut[pairKey(a, b)])
}

type Listener struct {
	n      *Network
	addr   *net.TCPAddr
	accept chan net.Conn
	closed chan struct{}
	isDown bool
}

func Listen(addr string) (*Listener, error) {
	n := current
	ta, err := net.ResolveTCPAddr("tcp", addr)
	if err != nil {
		return nil, err
	}
	key := ta.String()
	if _, ok := n.listeners[key]; ok {
		return nil, &net.OpError{Op: "listen", Net: "tcp", Addr: ta, Err: syscall.EADDRINUSE}
	}
	l := &Listener{n: n, addr: ta, accept: make(chan net.Conn, 256), closed: make(chan struct{})}
	n.listeners[key] = l
	return l, nil
}

func (l *Listener) Accept() (net.Conn, error) {
	simrt.Yield(-110)
	select {
	case c := <-l.accept:
		simrt.Yield(-110)
		return c, nil
	case <-l.closed:
		simrt.Yield(-110)
		return nil, net.ErrClosed
	}
}

func (l *Listener) Close() error {
	if !l.isDown {
		l.isDown = true
		close(l.closed)
		delete(l.n.listeners, l.addr.String())
	}
	return nil
}

func (l *Listener) Addr() net.Addr { return l.addr }

func refused(ta *net.TCPAddr) error {
	return &net.OpError{Op: "dial", Net: "tcp", Addr: ta, Err: syscall.ECONNREFUSED}
}

// Dial connects to a simulated listener.
func Dial(ctx context.Context, addr string) (net.Conn, error) {
	n := current
	ta, err := net.ResolveTCPAddr("tcp", addr)
	if err != nil {
		return nil, err
	}
	simrt.Yield(-111)
	from := n.nodeOfCaller()
	to := ta.String()
	n.stat("dial")
	if n.blocked(from, to) {
		// packets vanish: the dial hangs until the caller gives up
		n.stat("fault:dial-blackholed")
		t := time.NewTimer(30 * time.Second)
		defer t.Stop()
		select {
		case <-ctx.Done():
			simrt.Yield(-111)
			return nil, &net.OpError{Op: "dial", Net: "tcp", Addr: ta, Err: ctx.Err()}
		case <-t.C:
			simrt.Yield(-111)
			return nil, &net.OpError{Op: "dial", Net: "tcp", Addr: ta, Err: os.ErrDeadlineExceeded}
		}
	}
	l := n.listeners[to]
	if l == nil {
		return nil, refused(ta)
	}
	if n.Cfg.RefusePerm > 0 && n.F.Draw(1000) < n.Cfg.RefusePerm {
		n.stat("fault:dial-refused")
		return nil, refused(ta)
	}
	n.nextPort++
	local := &net.TCPAddr{IP: net.IPv4(127, 0, 0, 1), Port: n.nextPort}
	st := &connState{n: n, from: from, to: to, resetAt: -1}
	if n.Cfg.LatencyMax > 0 {
		st.latency = time.Duration(n.F.Draw(8)) * n.Cfg.LatencyMax / 7
	}
	if n.Cfg.ResetPerm > 0 && n.F.Draw(1000) < n.Cfg.ResetPerm {
		st.resetAt = n.F.Draw(max(n.Cfg.MaxResetAt, 2))
	}
	if n.Cfg.StallPerm > 0 && n.F.Draw(1000) < n.Cfg.StallPerm {
		st.stallAt = 1 + n.F.Draw(max(n.Cfg.MaxResetAt, 2))
	}
	a2b, b2a := newHalf(), newHalf()
	cl := &Conn{st: st, rd: b2a, wr: a2b, local: local, remote: ta, done: make(chan struct{})}
	sv := &Conn{st: st, rd: a2b, wr: b2a, local: ta, remote: local, done: make(chan struct{}), server: true}
	cl.peer, sv.peer = sv, cl
	n.conns = append(n.conns, cl)
	select {
	case l.accept <- sv:
		simrt.Yield(-111)
		return cl, nil
	case <-l.closed:
		simrt.Yield(-111)
		return nil, refused(ta)
	case <-ctx.Done():
		simrt.Yield(-111)
		return nil, ctx.Err()
	}
}

// connState is shared by the two ends of a connection.
type connState struct {
	n        *Network
	from, to string
	latency  time.Duration
	resetAt  int // total bytes (both directions) after which the connection is torn; -1 never
	stallAt  int // byte count at which delivery stalls once
	stalled  bool
	written  int
	reset    bool
}

type segment struct {
	b     []byte
	ready time.Duration // simulated instant from which it may be read
}

type half struct {
	q      []segment
	sig    chan struct{} // capacity 1: data or state change
	closed bool          // writer closed: EOF after the queue drains
}

func newHalf() *half { return &half{sig: make(chan struct{}, 1)} }

func (h *half) notify() {
	select {
	case h.sig <- struct{}{}:
	default:
	}
}

type Conn struct {
	st            *connState
	peer          *Conn
	rd, wr        *half
	local, remote *net.TCPAddr
	left          []byte
	rdl, wdl      time.Time
	closed        bool
	done          chan struct{}
	server        bool
}

var errReset = &net.OpError{Op: "read", Net: "tcp", Err: syscall.ECONNRESET}

func (c *Conn) now() time.Duration { return time.Since(c.st.n.start) }

func (c *Conn) Read(p []byte) (int, error) {
	simrt.Yield(-112)
	for len(c.left) == 0 {
		if c.closed {
			return 0, net.ErrClosed
		}
		if c.st.reset {
			return 0, errReset
		}
		var wait time.Duration = -1
		if len(c.rd.q) > 0 {
			if d := c.rd.q[0].ready - c.now(); d <= 0 {
				c.left = c.rd.q[0].b
				c.rd.q = c.rd.q[1:]
				break
			} else {
				wait = d
			}
		} else if c.rd.closed {
			return 0, io.EOF
		}
		var tc <-chan time.Time
		var t *time.Timer
		if !c.rdl.IsZero() {
			d := time.Until(c.rdl)
			if d <= 0 {
				return 0, os.ErrDeadlineExceeded
			}
			if wait < 0 || d < wait {
				wait = d
			}
		}
		if wait >= 0 {
			t = time.NewTimer(wait)
			tc = t.C
		}
		select {
		case <-c.rd.sig:
		case <-c.done:
		case <-tc:
		}
		if t != nil {
			t.Stop()
		}
		simrt.Yield(-112)
		if !c.rdl.IsZero() && time.Until(c.rdl) <= 0 && (len(c.rd.q) == 0 || c.rd.q[0].ready > c.now()) {
			return 0, os.ErrDeadlineExceeded
		}
	}
	n := copy(p, c.left)
	c.left = c.left[n:]
	return n, nil
}

func (c *Conn) Write(p []byte) (int, error) {
	simrt.Yield(-113)
	if c.closed {
		return 0, net.ErrClosed
	}
	st := c.st
	n := st.n
	if st.reset || (c.peer != nil && c.peer.closed) {
		return 0, &net.OpError{Op: "write", Net: "tcp", Err: syscall.EPIPE}
	}
	if !c.wdl.IsZero() && time.Until(c.wdl) <= 0 {
		return 0, os.ErrDeadlineExceeded
	}
	total := 0
	for len(p) > 0 {
		k := len(p)
		if n.Cfg.Fragment && k > 1 {
			k = 1 + n.F.Draw(k)
			if k < len(p) {
				n.stat("fault:fragment")
			}
		}
		if st.resetAt >= 0 && st.written+k > st.resetAt {
			// torn connection: only the bytes before the reset point get through
			k = max(st.resetAt-st.written, 0)
			if k > 0 {
				c.deliver(p[:k])
				total += k
			}
			st.reset = true
			n.stat("fault:reset")
			c.rd.notify()
			c.wr.notify()
			return total, &net.OpError{Op: "write", Net: "tcp", Err: syscall.ECONNRESET}
		}
		c.deliver(p[:k])
		total += k
		p = p[k:]
	}
	return total, nil
}

func (c *Conn) deliver(b []byte) {
	st := c.st
	st.written += len(b)
	if st.n.blocked(st.from, st.to) {
		st.n.stat("fault:bytes-blackholed")
		return
	}
	ready := c.now() + st.latency
	if st.stallAt > 0 && !st.stalled && st.written >= st.stallAt {
		st.stalled = true
		ready += st.n.Cfg.StallFor
		st.n.stat("fault:stall")
	}
	if q := c.wr.q; len(q) > 0 && q[len(q)-1].ready > ready {
		ready = q[len(q)-1].ready // never overtake earlier bytes
	}
	c.wr.q = append(c.wr.q, segment{append([]byte(nil), b...), ready})
	c.wr.notify()
}

func (c *Conn) Close() error {
	if c.closed {
		return nil
	}
	c.closed = true
	close(c.done)
	c.wr.closed = true
	c.wr.notify()
	return nil
}

// Abort tears the connection from outside (fault injection by the scenario).
func (c *Conn) Abort() {
	c.st.reset = true
	c.rd.notify()
	c.wr.notify()
	c.st.n.stat("fault:reset")
}

func (c *Conn) LocalAddr() net.Addr                { return c.local }
func (c *Conn) RemoteAddr() net.Addr               { return c.remote }
func (c *Conn) SetDeadline(t time.Time) error      { c.rdl, c.wdl = t, t; c.rd.notify(); return nil }
func (c *Conn) SetReadDeadline(t time.Time) error  { c.rdl = t; c.rd.notify(); return nil }
func (c *Conn) SetWriteDeadline(t time.Time) error { c.wdl = t; return nil }

// Conns returns the client ends of all connections dialled so far, oldest first.
func (n *Network) Conns() []*Conn { return n.conns }

// Pipe returns a connected pair without a listener (byte-stream scenarios).
func (n *Network) Pipe() (client, server *Conn) {
	st := &connState{n: n, resetAt: -1}
	a2b, b2a := newHalf(), newHalf()
	cl := &Conn{st: st, rd: b2a, wr: a2b, local: &net.TCPAddr{IP: net.IPv4(127, 0, 0, 1), Port: 1}, remote: &net.TCPAddr{IP: net.IPv4(127, 0, 0, 1), Port: 2}, done: make(chan struct{})}
	sv := &Conn{st: st, rd: a2b, wr: b2a, local: cl.remote, remote: cl.local, done: make(chan struct{}), server: true}
	cl.peer, sv.peer = sv, cl
	return cl, sv
}

// SetReset arms a reset after k more bytes on this connection.
func (c *Conn) SetReset(k int) { c.st.resetAt = c.st.written + k }

// SortedStats returns the counters in a stable order.
func (n *Network) SortedStats() []string {
	var l []string
	for k := range n.Stats {
		l = append(l, k)
	}
	sort.Strings(l)
	return l
}

var _ = errors.New

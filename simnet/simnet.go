// Package simnet is an in-memory network of buffered byte pipes for simulated
// runs: Listen/Dial by "host:port", deadlines on the (fake) clock, fragmentation
// and connection faults decided by a seeded PRNG. Std + simrt only.
package simnet

import (
	"context"
	"errors"
	"io"
	"math/rand/v2"
	"net"
	"os"
	"sync"
	"time"

	"github.com/tochemey/goakt/v4/zzverif/simrt"
)

type Network struct {
	mu        sync.Mutex
	listeners map[string]*Listener
	rng       *rand.Rand
	Fragment  bool
	Stats     map[string]int
	nextPort  int
}

var (
	current *Network
)

// Enable installs a fresh network for the run; Disable removes it.
func Enable(seed uint64) *Network {
	current = &Network{listeners: map[string]*Listener{}, rng: rand.New(rand.NewPCG(seed, 0x6e65)), Stats: map[string]int{}, nextPort: 40000}
	return current
}
func Disable()      { current = nil }
func Enabled() bool { return current != nil }

type Listener struct {
	n      *Network
	addr   *net.TCPAddr
	accept chan net.Conn
	closed chan struct{}
	once   sync.Once
}

func Listen(addr string) (*Listener, error) {
	n := current
	ta, err := net.ResolveTCPAddr("tcp", addr)
	if err != nil {
		return nil, err
	}
	simrt.Lock(-100, &n.mu)
	defer simrt.Unlock(&n.mu)
	key := ta.String()
	if _, ok := n.listeners[key]; ok {
		return nil, errors.New("simnet: address already in use " + key)
	}
	l := &Listener{n: n, addr: ta, accept: make(chan net.Conn, 64), closed: make(chan struct{})}
	n.listeners[key] = l
	return l, nil
}

func (l *Listener) Accept() (net.Conn, error) {
	simrt.Yield(-101)
	select {
	case c := <-l.accept:
		return c, nil
	case <-l.closed:
		return nil, net.ErrClosed
	}
}

func (l *Listener) Close() error {
	l.once.Do(func() {
		close(l.closed)
		simrt.Lock(-102, &l.n.mu)
		delete(l.n.listeners, l.addr.String())
		simrt.Unlock(&l.n.mu)
	})
	return nil
}

func (l *Listener) Addr() net.Addr { return l.addr }

func Dial(ctx context.Context, addr string) (net.Conn, error) {
	n := current
	ta, err := net.ResolveTCPAddr("tcp", addr)
	if err != nil {
		return nil, err
	}
	simrt.Lock(-103, &n.mu)
	l := n.listeners[ta.String()]
	n.nextPort++
	local := &net.TCPAddr{IP: net.IPv4(127, 0, 0, 1), Port: n.nextPort}
	n.Stats["dial"]++
	simrt.Unlock(&n.mu)
	if l == nil {
		return nil, &net.OpError{Op: "dial", Net: "tcp", Addr: ta, Err: errors.New("connection refused")}
	}
	a2b, b2a := newHalf(n), newHalf(n)
	cl := &Conn{n: n, rd: b2a, wr: a2b, local: local, remote: ta}
	sv := &Conn{n: n, rd: a2b, wr: b2a, local: ta, remote: local}
	simrt.Yield(-104)
	select {
	case l.accept <- sv:
		return cl, nil
	case <-l.closed:
		return nil, &net.OpError{Op: "dial", Net: "tcp", Addr: ta, Err: errors.New("connection refused")}
	case <-ctx.Done():
		return nil, ctx.Err()
	}
}

type half struct {
	ch     chan []byte
	closed chan struct{} // writer side closed
	once   sync.Once
}

func newHalf(n *Network) *half {
	return &half{ch: make(chan []byte, 4096), closed: make(chan struct{})}
}

type Conn struct {
	n             *Network
	rd, wr        *half
	local, remote *net.TCPAddr
	left          []byte
	rdl, wdl      time.Time
	once          sync.Once
	done          chan struct{}
	mu            sync.Mutex
}

func (c *Conn) doneCh() chan struct{} {
	c.mu.Lock()
	defer c.mu.Unlock()
	if c.done == nil {
		c.done = make(chan struct{})
	}
	return c.done
}

func (c *Conn) Read(p []byte) (int, error) {
	if len(c.left) == 0 {
		var tc <-chan time.Time
		if !c.rdl.IsZero() {
			d := time.Until(c.rdl)
			if d <= 0 {
				return 0, os.ErrDeadlineExceeded
			}
			t := time.NewTimer(d)
			defer t.Stop()
			tc = t.C
		}
		simrt.Yield(-105)
		select {
		case b := <-c.rd.ch:
			c.left = b
		case <-c.doneCh():
			return 0, net.ErrClosed
		case <-tc:
			return 0, os.ErrDeadlineExceeded
		default:
			select {
			case b := <-c.rd.ch:
				c.left = b
			case <-c.rd.closed:
				// drain anything still buffered before EOF
				select {
				case b := <-c.rd.ch:
					c.left = b
				default:
					return 0, io.EOF
				}
			case <-c.doneCh():
				return 0, net.ErrClosed
			case <-tc:
				return 0, os.ErrDeadlineExceeded
			}
		}
	}
	n := copy(p, c.left)
	c.left = c.left[n:]
	return n, nil
}

func (c *Conn) Write(p []byte) (int, error) {
	select {
	case <-c.doneCh():
		return 0, net.ErrClosed
	default:
	}
	total := 0
	for len(p) > 0 {
		k := len(p)
		if c.n.Fragment && k > 1 {
			c.n.mu.Lock()
			k = 1 + c.n.rng.IntN(k)
			c.n.mu.Unlock()
		}
		chunk := append([]byte(nil), p[:k]...)
		simrt.Yield(-106)
		select {
		case c.wr.ch <- chunk:
		case <-c.doneCh():
			return total, net.ErrClosed
		}
		total += k
		p = p[k:]
	}
	return total, nil
}

func (c *Conn) Close() error {
	c.once.Do(func() {
		close(c.doneCh())
		c.wr.once.Do(func() { close(c.wr.closed) })
	})
	return nil
}

func (c *Conn) LocalAddr() net.Addr                { return c.local }
func (c *Conn) RemoteAddr() net.Addr               { return c.remote }
func (c *Conn) SetDeadline(t time.Time) error      { c.rdl, c.wdl = t, t; return nil }
func (c *Conn) SetReadDeadline(t time.Time) error  { c.rdl = t; return nil }
func (c *Conn) SetWriteDeadline(t time.Time) error { c.wdl = t; return nil }

module verif

go 1.26.0

require (
	github.com/anishathalye/porcupine v1.3.0
	github.com/google/uuid v1.6.0
	github.com/tochemey/goakt/v4 v4.0.0-00010101000000-000000000000
	golang.org/x/tools v0.50.0
	google.golang.org/protobuf v1.36.12-0.20260120151049-f2248ac996af
)

require (
	github.com/RoaringBitmap/roaring/v2 v2.24.0 // indirect
	github.com/Workiva/go-datastructures v1.1.7 // indirect
	github.com/andybalholm/brotli v1.2.2 // indirect
	github.com/armon/go-metrics v0.4.1 // indirect
	github.com/bits-and-blooms/bitset v1.24.6 // indirect
	github.com/bytedance/gopkg v0.1.4 // indirect
	github.com/bytedance/sonic v1.15.2 // indirect
	github.com/bytedance/sonic/loader v0.5.2 // indirect
	github.com/cespare/xxhash/v2 v2.3.0 // indirect
	github.com/cloudwego/base64x v0.1.7 // indirect
	github.com/deckarep/golang-set/v2 v2.9.0 // indirect
	github.com/flowchartsman/retry v1.2.0 // indirect
	github.com/fxamacker/cbor/v2 v2.9.2 // indirect
	github.com/go-logr/logr v1.4.4 // indirect
	github.com/go-logr/stdr v1.2.2 // indirect
	github.com/google/btree v1.1.3 // indirect
	github.com/hashicorp/errwrap v1.1.0 // indirect
	github.com/hashicorp/go-immutable-radix v1.3.1 // indirect
	github.com/hashicorp/go-metrics v0.6.1 // indirect
	github.com/hashicorp/go-msgpack/v2 v2.1.5 // indirect
	github.com/hashicorp/go-multierror v1.1.1 // indirect
	github.com/hashicorp/go-sockaddr v1.0.7 // indirect
	github.com/hashicorp/golang-lru v1.0.2 // indirect
	github.com/hashicorp/logutils v1.0.0 // indirect
	github.com/hashicorp/memberlist v0.6.0 // indirect
	github.com/klauspost/compress v1.19.2 // indirect
	github.com/klauspost/cpuid/v2 v2.4.0 // indirect
	github.com/miekg/dns v1.1.72 // indirect
	github.com/mschoch/smat v0.2.0 // indirect
	github.com/pkg/errors v0.9.1 // indirect
	github.com/redis/go-redis/v9 v9.22.0 // indirect
	github.com/reugn/go-quartz v0.15.2 // indirect
	github.com/sean-/seed v0.0.0-20170313163322-e2103e2c3529 // indirect
	github.com/tidwall/btree v1.8.1 // indirect
	github.com/tidwall/match v1.2.0 // indirect
	github.com/tidwall/redcon v1.6.4 // indirect
	github.com/tochemey/olric v0.3.18 // indirect
	github.com/twitchyliquid64/golang-asm v0.15.1 // indirect
	github.com/vmihailenco/msgpack/v5 v5.4.1 // indirect
	github.com/vmihailenco/tagparser/v2 v2.0.0 // indirect
	github.com/x448/float16 v0.8.4 // indirect
	github.com/zeebo/xxh3 v1.1.0 // indirect
	go.etcd.io/bbolt v1.5.0 // indirect
	go.mongodb.org/mongo-driver v1.17.9 // indirect
	go.opentelemetry.io/auto/sdk v1.2.1 // indirect
	go.opentelemetry.io/otel v1.45.0 // indirect
	go.opentelemetry.io/otel/metric v1.45.0 // indirect
	go.opentelemetry.io/otel/trace v1.45.0 // indirect
	go.uber.org/atomic v1.11.0 // indirect
	go.uber.org/multierr v1.11.0 // indirect
	go.uber.org/zap v1.28.0 // indirect
	golang.org/x/arch v0.29.0 // indirect
	golang.org/x/mod v0.41.0 // indirect
	golang.org/x/net v0.59.0 // indirect
	golang.org/x/sync v0.23.0 // indirect
	golang.org/x/sys v0.48.0 // indirect
)

replace github.com/tochemey/goakt/v4 => /repo

replace golang.org/x/sync => /verif/.cache/deps/xsync

replace github.com/Workiva/go-datastructures => /verif/.cache/deps/workiva

replace github.com/reugn/go-quartz => /verif/.cache/deps/quartz

replace github.com/flowchartsman/retry => /verif/.cache/deps/retry

#!/bin/bash
# Builds the framework from files on disk only (offline). Idempotent.
set -euo pipefail
cd "$(dirname "$0")"
. ./env.sh
mkdir -p "$VERIF_CACHE"/{bin,rt,build} /verif/.cache/deps /verif/.cache/gocache
MC=$(go env GOMODCACHE)
# 1. scratch copies of the dependency modules that get instrumented (overlay may not touch GOMODCACHE)
copydep() { # name modpath@ver goline
  local dst="/verif/.cache/deps/$1"
  if [ ! -f "$dst/.ok" ]; then
    rm -rf "$dst"; mkdir -p "$dst"
    cp -r "$MC/$2/." "$dst/"
    chmod -R u+w "$dst"
    sed -i -E "s/^go [0-9.]+$/go $3/" "$dst/go.mod"
    touch "$dst/.ok"
  fi
}
copydep xsync   golang.org/x/sync@v0.23.0 1.25.0
copydep workiva 'github.com/!workiva/go-datastructures@v1.1.7' 1.24
copydep quartz  github.com/reugn/go-quartz@v0.15.2 1.24
copydep retry   github.com/flowchartsman/retry@v1.2.0 1.24
# 2. runtime overlay for the pinned toolchain
./mkrt.sh "$VERIF_CACHE/rt"
# 3. tools
cp /repo/go.sum go.sum.repo 2>/dev/null || true
$GO build -o "$VERIF_CACHE/bin/vinstr" ./cmd/vinstr
$GO build -o "$VERIF_CACHE/bin/vcheck" ./cmd/vcheck
# 4. warm build for the current tree so the first check does not pay for it
"$VERIF_CACHE/bin/vcheck" build
echo "setup ok"

#!/bin/bash
# Builds the framework from files on disk only (offline). Idempotent.
set -euo pipefail
cd "$(dirname "$0")"
. ./env.sh
mkdir -p "$VERIF_CACHE"/{bin,rt,build} /verif/.cache/deps /verif/.cache/gocache
MC=$(go env GOMODCACHE)
# 1. scratch copies of the dependency modules that get instrumented (overlay may not touch GOMODCACHE)
copydep() { # name modpath@ver goline
  local dst="/verif/.cache/deps/$1"
  if [ ! -f "$dst/.ok" ]; then
    rm -rf "$dst"; mkdir -p "$dst"
    cp -r "$MC/$2/." "$dst/"
    chmod -R u+w "$dst"
    sed -i -E "s/^go [0-9.]+$/go $3/" "$dst/go.mod"
    touch "$dst/.ok"
  fi
}
copydep xsync   golang.org/x/sync@v0.23.0 1.25.0
copydep workiva 'github.com/!workiva/go-datastructures@v1.1.7' 1.24
copydep quartz  github.com/reugn/go-quartz@v0.15.2 1.24
copydep retry   github.com/flowchartsman/retry@v1.2.0 1.24
# 1b. determinism patch of the quartz copy: a tick that is already due is taken directly instead of
# through `timer.Reset(0); select {timer.C | interrupt | ctx.Done}` -- whether an already-expired timer's
# channel is ready at that select is decided by the Go runtime's timer delivery, not by the simulator
# (two interval jobs due at the same simulated instant made runs diverge). Every behaviour of the patched
# loop is a behaviour of the original (select may always pick the ready timer case).
python3 - <<'PYEOF'
p='/verif/.cache/deps/quartz/quartz/scheduler.go'
s=open(p).read()
if 'verif: due tick' not in s:
    old="""		default:
			timer.Reset(sched.calculateNextTick())
		}
		select {"""
    new="""		default:
			d := sched.calculateNextTick()
			if d <= 0 { // verif: due tick taken directly (determinism)
				if ctx.Err() != nil {
					timer.Stop()
					return
				}
				sched.executeAndReschedule(ctx)
				continue
			}
			timer.Reset(d)
		}
		select {"""
    if old not in s:
        raise SystemExit("quartz anchor missing")
    open(p,'w').write(s.replace(old,new,1))
PYEOF
# 2. runtime overlay for the pinned toolchain
./mkrt.sh "$VERIF_CACHE/rt"
# 3. tools
cp /repo/go.sum go.sum.repo 2>/dev/null || true
$GO build -o "$VERIF_CACHE/bin/vinstr" ./cmd/vinstr
$GO build -o "$VERIF_CACHE/bin/vcheck" ./cmd/vcheck
# 4. warm build for the current tree so the first check does not pay for it
"$VERIF_CACHE/bin/vcheck" build
echo "setup ok"

#!/bin/bash
# integrate.sh <ws-name>: copy new scenario/harness/bridge files of a workspace into /verif; show diffs of files that exist in both
W=/root/w/$1
cd $W
for f in $(find scen harness simglue simfab simnet simcluster simstream simrt cmd -type f -name '*.go' 2>/dev/null); do
  if [ ! -f /verif/$f ]; then mkdir -p /verif/$(dirname $f); cp $f /verif/$f; echo "NEW  $f"
  elif ! cmp -s $f /verif/$f; then echo "DIFF $f"; fi
done
echo "--- findings added:"; diff <(cat /verif/known_findings.jsonl) <(cat $W/known_findings.jsonl) | grep '^>' | cut -c1-200
echo "--- replays:"; ls $W/replays | grep -v "^C0[1-6]-\|^C34-membership-events-[27].json" 

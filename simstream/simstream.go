// Package simstream exposes the byte-stream layer of goakt's internal/net
// (frame codec, metadata, proto client/server, compression wrappers) to the
// scenario package, which cannot import internal packages. Overlay only.
package simstream

import (
	"context"
	"fmt"
	"net"
	"time"

	"google.golang.org/protobuf/proto"
	"google.golang.org/protobuf/reflect/protoreflect"
	"google.golang.org/protobuf/types/known/durationpb"

	"github.com/tochemey/goakt/v4/internal/internalpb"
	inet "github.com/tochemey/goakt/v4/internal/net"
)

// Received is what the echo server saw for one request.
type Received struct {
	Msg      proto.Message
	Type     string
	Headers  map[string]string
	Deadline time.Time
	HasDL    bool
}

// Server is a real ProtoServer whose fallback handler records and echoes every request.
type Server struct {
	PS     *inet.ProtoServer
	Got    []Received
	Panics []string
	done   chan error
}

// NewEchoServer listens on addr (through the simulated network when enabled).
func NewEchoServer(addr string, maxFrame uint32, idle time.Duration, wrapper Wrapper) (*Server, error) {
	s := &Server{done: make(chan error, 1)}
	handler := func(ctx context.Context, _ inet.Connection, req proto.Message) (proto.Message, error) {
		r := Received{Msg: proto.Clone(req), Type: string(proto.MessageName(req)), Headers: map[string]string{}}
		if md, ok := inet.FromContext(ctx); ok && md != nil {
			md.IterateHeaders(func(k, v string) { r.Headers[k] = v })
			r.Deadline, r.HasDL = md.GetDeadline()
		}
		s.Got = append(s.Got, r)
		return req, nil
	}
	opts := []inet.ProtoServerOption{
		inet.WithFallbackProtoHandler(handler),
		inet.WithProtoServerMaxFrameSize(maxFrame),
		inet.WithProtoServerPanicHandler(func(t protoreflect.FullName, r any) { s.Panics = append(s.Panics, fmt.Sprintf("%s: %v", t, r)) }),
	}
	if idle > 0 {
		opts = append(opts, inet.WithProtoServerIdleTimeout(idle))
	}
	if wrapper != nil {
		opts = append(opts, inet.WithProtoServerConnWrapper(wrapper))
	}
	ps, err := inet.NewProtoServer(addr, opts...)
	if err != nil {
		return nil, err
	}
	if err := ps.Listen(); err != nil {
		return nil, err
	}
	s.PS = ps
	return s, nil
}

// Serve blocks until the server is shut down.
func (s *Server) Serve() error { return s.PS.Serve() }

func (s *Server) Shutdown() error { return s.PS.Shutdown(time.Second) }

// Wrapper is a connection wrapper (compression).
type Wrapper = inet.ConnWrapper

// NewWrapper builds the compression wrapper of the given kind (none, gzip, zstd, brotli).
func NewWrapper(kind string) (Wrapper, error) {
	switch kind {
	case "gzip":
		return inet.NewGzipConnWrapper()
	case "zstd":
		return inet.NewZstdConnWrapper()
	case "brotli":
		return inet.NewBrotliConnWrapper(), nil
	}
	return nil, nil
}

// Client wraps the real pooled client.
type Client struct{ C *inet.Client }

func NewClient(addr string, maxIdle int, maxFrame uint32, wrapper Wrapper) *Client {
	opts := []inet.ClientOption{inet.WithMaxIdleConns(maxIdle), inet.WithMaxFrameSize(maxFrame)}
	if wrapper != nil {
		opts = append(opts, inet.WithClientConnWrapper(wrapper))
	}
	return &Client{inet.NewClient(addr, opts...)}
}

// WithMeta attaches headers and an optional deadline to the context the client marshals from.
func WithMeta(ctx context.Context, headers map[string]string, order []string, deadline time.Time) context.Context {
	md := inet.NewMetadata()
	for _, k := range order {
		md.Set(k, headers[k])
	}
	if !deadline.IsZero() {
		md.SetDeadline(deadline)
	}
	return inet.ContextWithMetadata(ctx, md)
}

func (c *Client) Send(ctx context.Context, m proto.Message) (proto.Message, error) {
	return c.C.SendProto(ctx, m)
}

func (c *Client) SendBatch(ctx context.Context, ms []proto.Message) ([]proto.Message, error) {
	return c.C.SendBatchProto(ctx, ms)
}

func (c *Client) Close() error { return c.C.Close() }

// Marshal encodes one frame exactly as the client would (for the robustness half).
func Marshal(m proto.Message) ([]byte, error) {
	return inet.NewProtoSerializer().MarshalBinary(m)
}

// MarshalMeta encodes one frame that carries a metadata block (headers + deadline).
// Layout: [4 totalLen][4 nameLen][4 metaLen][name][meta][proto];
// meta = [2 count]{[2 keyLen][key][2 valLen][val]}*[8 remaining ns].
func MarshalMeta(m proto.Message, headers map[string]string) ([]byte, error) {
	md := inet.NewMetadata()
	for k, v := range headers {
		md.Set(k, v)
	}
	return inet.NewProtoSerializer().MarshalBinaryWithMetadata(m, md)
}

// Unmarshal decodes one frame (robustness half: must return an error, never panic).
func Unmarshal(b []byte) (proto.Message, string, error) {
	m, n, err := inet.NewProtoSerializer().UnmarshalBinary(b)
	return m, string(n), err
}

// UnmarshalMeta decodes a frame that may carry metadata.
func UnmarshalMeta(b []byte) (proto.Message, map[string]string, error) {
	m, md, _, err := inet.NewProtoSerializer().UnmarshalBinaryWithMetadata(b)
	h := map[string]string{}
	if md != nil {
		md.IterateHeaders(func(k, v string) { h[k] = v })
	}
	return m, h, err
}

// GenMessage builds a message of the internal wire schema from small generated values.
func GenMessage(kind, n int, s string) proto.Message {
	switch kind % 6 {
	case 0:
		return &internalpb.RemoteLookupRequest{Host: "h" + s, Port: int32(n), Name: s}
	case 1:
		var ms []*internalpb.RemoteMessage
		for i := 0; i < n%4; i++ {
			ms = append(ms, &internalpb.RemoteMessage{Sender: fmt.Sprintf("s%d", i), Receiver: s, Message: []byte(fmt.Sprintf("%s-%d", s, i)), Metadata: map[string]string{"k": s}})
		}
		return &internalpb.RemoteTellRequest{RemoteMessages: ms}
	case 2:
		return &internalpb.RemoteAskRequest{RemoteMessages: []*internalpb.RemoteMessage{{Sender: s, Receiver: "r", Message: []byte(s)}}, Timeout: durationpb.New(time.Duration(n) * time.Millisecond)}
	case 3:
		return &internalpb.RemoteStopRequest{Host: s, Port: int32(n), Name: s + s}
	case 4:
		return &internalpb.RemoteWatchRequest{Host: "w", Port: int32(n), Name: s, WatcherAddress: s + "@w"}
	default:
		return &internalpb.RemoteReSpawnRequest{Host: s, Port: int32(-n), Name: ""}
	}
}

var _ net.Conn

#!/bin/bash
# seedtest.sh <seeded-id> [check args...]: runs the check of the property a kept seeded change breaks against
# a scratch worktree of /repo with the change applied (never touches /repo's working tree). Exit code = the check's.
set -u
cd "$(dirname "$0")"
ID=$1; shift
D=seeded/$ID
PROP=$(python3 -c "import json;print(json.load(open('$D/meta.json'))['property'])")
# seedtest.sh <id> --prop <Cnn> ...: run another property's check against the same change
if [ "${1:-}" = "--prop" ]; then PROP=$2; shift 2; fi
WT=/tmp/seedwt-$ID-$$
git -C /repo worktree add --detach "$WT" HEAD -q || exit 2
trap 'git -C /repo worktree remove --force "$WT" >/dev/null 2>&1; rm -rf "$WT"' EXIT
git -C "$WT" apply "$PWD/$D/patch.diff" || { echo "patch does not apply" >&2; exit 2; }
if [ $# -eq 0 ]; then set -- --tier quick; fi
VERIF_REPO="$WT" ./check "$PROP" "$@"
rc=$?
echo "seedtest $ID property=$PROP exit=$rc"
exit $rc

// vinstr rewrites the synchronisation operations of the given packages so that
// the simrt scheduler controls them, writes the rewritten files to an output
// directory and emits a go build -overlay file. The source tree is not modified.
package main

import (
	"bytes"
	"encoding/json"
	"flag"
	"fmt"
	"go/ast"
	"go/format"
	"go/token"
	"go/types"
	"os"
	"path/filepath"
	"strconv"
	"strings"

	"golang.org/x/tools/go/ast/astutil"
	"golang.org/x/tools/go/packages"
)

const simrtPath = "github.com/tochemey/goakt/v4/zzverif/simrt"
const simrtName = "__simrt"

type site struct {
	ID   int    `json:"id"`
	Pos  string `json:"pos"`
	Kind string `json:"kind"`
}

var siteBase int

var (
	sites   []site
	overlay = map[string]string{}
	knobs   = map[string]string{}
	stats   = map[string]int{}
)

func newSite(fset *token.FileSet, pos token.Pos, kind string) ast.Expr {
	p := fset.Position(pos)
	id := siteBase + len(sites)
	sites = append(sites, site{id, fmt.Sprintf("%s:%d:%d", shortPath(p.Filename), p.Line, p.Column), kind})
	stats[kind]++
	return &ast.BasicLit{Kind: token.INT, Value: strconv.Itoa(id)}
}

func shortPath(f string) string {
	if i := strings.Index(f, "/repo/"); i >= 0 {
		return f[i+6:]
	}
	if i := strings.Index(f, "/.cache/deps/"); i >= 0 {
		return "dep:" + f[i+13:]
	}
	if i := strings.Index(f, "/pkg/mod/"); i >= 0 {
		return f[i+9:]
	}
	return f
}

func sel(name string) ast.Expr {
	return &ast.SelectorExpr{X: ast.NewIdent(simrtName), Sel: ast.NewIdent(name)}
}

func call(name string, args ...ast.Expr) *ast.CallExpr {
	return &ast.CallExpr{Fun: sel(name), Args: args}
}

func namedOf(t types.Type) (pkg, name string, ptr bool) {
	if p, ok := t.(*types.Pointer); ok {
		t = p.Elem()
		ptr = true
	}
	t = types.Unalias(t)
	if n, ok := t.(*types.Named); ok && n.Obj().Pkg() != nil {
		return n.Obj().Pkg().Path(), n.Obj().Name(), ptr
	}
	return "", "", ptr
}

func addrOf(x ast.Expr, isPtr bool) ast.Expr {
	if isPtr {
		return x
	}
	return &ast.UnaryExpr{Op: token.AND, X: x}
}

type rewriter struct {
	fset    *token.FileSet
	info    *types.Info
	changed bool
	knob    bool // a knob constant was replaced (file rewritten, but simrt is not necessarily used)
	inComm  map[ast.Node]bool // comm statements of select clauses (and their sub-exprs we must not rewrite)
}

func (r *rewriter) typeOf(e ast.Expr) types.Type { return r.info.TypeOf(e) }

func (r *rewriter) pre(pos token.Pos, kind string, x ast.Expr) ast.Expr {
	r.changed = true
	return call("Pre", newSite(r.fset, pos, kind), x)
}

// rewriteCall handles method and package-function calls.
func (r *rewriter) rewriteCall(c *astutil.Cursor, ce *ast.CallExpr, deferred bool) {
	se, ok := ce.Fun.(*ast.SelectorExpr)
	if !ok {
		if id, ok := ce.Fun.(*ast.Ident); ok && id.Name == "close" && len(ce.Args) == 1 {
			if _, isBuiltin := r.info.Uses[id].(*types.Builtin); isBuiltin {
				ce.Args[0] = r.pre(ce.Pos(), "chan-close", ce.Args[0])
			}
		}
		return
	}
	if s := r.info.Selections[se]; s != nil && s.Kind() == types.MethodVal {
		recvT := s.Recv()
		promotedSync := false
		if fn, isFn := s.Obj().(*types.Func); isFn {
			if sig, isSig := fn.Type().(*types.Signature); isSig && sig.Recv() != nil {
				switch p, _, _ := namedOf(sig.Recv().Type()); p {
				case "sync", "sync/atomic", "go.uber.org/atomic":
					promotedSync = true
				}
			}
		}
		if idx := s.Index(); len(idx) > 1 && promotedSync {
			// promoted method of an embedded field (e.g. a struct that embeds sync.Mutex and
			// calls x.Lock()): make the field path explicit, x.Lock() -> x.Mutex.Lock(), so that
			// the rewrite below sees the real receiver
			t, x := recvT, se.X
			ok := true
			for _, i := range idx[:len(idx)-1] {
				if p, isP := types.Unalias(t).(*types.Pointer); isP {
					t = p.Elem()
				}
				st, isS := types.Unalias(t).Underlying().(*types.Struct)
				if !isS || i >= st.NumFields() {
					ok = false
					break
				}
				f := st.Field(i)
				x = &ast.SelectorExpr{X: x, Sel: ast.NewIdent(f.Name())}
				t = f.Type()
			}
			if ok {
				se.X, recvT = x, t
				stats["promoted"]++
			}
		}
		pkg, name, isPtr := namedOf(recvT)
		if _, isIface := types.Unalias(recvT).Underlying().(*types.Interface); isIface && pkg == "sync" && name == "Locker" {
			switch se.Sel.Name {
			case "Lock":
				r.replaceCall(c, ce, call("LockLocker", newSite(r.fset, ce.Pos(), "locker-lock"), se.X))
			case "Unlock":
				r.replaceCall(c, ce, call("UnlockLocker", se.X))
			}
			return
		}
		m := se.Sel.Name
		switch {
		case pkg == "sync/atomic" || pkg == "go.uber.org/atomic":
			se.X = r.pre(ce.Pos(), "atomic", addrOf(se.X, isPtr))
		case pkg == "sync" && name == "Pool":
			x := addrOf(se.X, isPtr)
			switch m {
			case "Get":
				stats["pool"]++
				r.replaceCall(c, ce, call("PoolGet", x))
			case "Put":
				stats["pool"]++
				r.replaceCall(c, ce, call("PoolPut", x, ce.Args[0]))
			}
		case pkg == "sync" && name == "Map":
			se.X = r.pre(ce.Pos(), "syncmap", addrOf(se.X, isPtr))
		case pkg == "sync" && name == "Mutex":
			x := addrOf(se.X, isPtr)
			switch m {
			case "Lock":
				r.replaceCall(c, ce, call("Lock", newSite(r.fset, ce.Pos(), "mutex-lock"), x))
			case "Unlock":
				r.replaceCall(c, ce, call("Unlock", x))
			case "TryLock":
				r.replaceCall(c, ce, call("TryLock", newSite(r.fset, ce.Pos(), "mutex-trylock"), x))
			}
		case pkg == "sync" && name == "RWMutex":
			x := addrOf(se.X, isPtr)
			switch m {
			case "Lock":
				r.replaceCall(c, ce, call("LockRW", newSite(r.fset, ce.Pos(), "rw-lock"), x))
			case "Unlock":
				r.replaceCall(c, ce, call("UnlockRW", x))
			case "RLock":
				r.replaceCall(c, ce, call("RLockRW", newSite(r.fset, ce.Pos(), "rw-rlock"), x))
			case "RUnlock":
				r.replaceCall(c, ce, call("RUnlockRW", x))
			case "TryLock":
				r.replaceCall(c, ce, call("TryLockRW", newSite(r.fset, ce.Pos(), "rw-trylock"), x))
			case "TryRLock":
				r.replaceCall(c, ce, call("TryRLockRW", newSite(r.fset, ce.Pos(), "rw-tryrlock"), x))
			}
		case pkg == "sync" && name == "Cond":
			x := addrOf(se.X, isPtr)
			switch m {
			case "Wait":
				r.replaceCall(c, ce, call("CondWait", newSite(r.fset, ce.Pos(), "cond-wait"), x))
			case "Signal":
				r.replaceCall(c, ce, call("CondSignal", x))
			case "Broadcast":
				r.replaceCall(c, ce, call("CondBroadcast", x))
			}
		case pkg == "sync" && name == "Once" && m == "Do":
			r.replaceCall(c, ce, call("OnceDo", newSite(r.fset, ce.Pos(), "once"), addrOf(se.X, isPtr), ce.Args[0]))
		case pkg == "sync" && name == "WaitGroup":
			x := addrOf(se.X, isPtr)
			switch m {
			case "Wait":
				r.replaceCall(c, ce, call("WgWait", newSite(r.fset, ce.Pos(), "wg-wait"), x))
			case "Go":
				r.replaceCall(c, ce, call("WgGo", newSite(r.fset, ce.Pos(), "wg-go"), x, ce.Args[0]))
			}
		}
		return
	}
	// package-level functions
	if id, ok := se.X.(*ast.Ident); ok {
		if pn, ok := r.info.Uses[id].(*types.PkgName); ok {
			switch pn.Imported().Path() {
			case "sync/atomic":
				if len(ce.Args) > 0 {
					ce.Args[0] = r.pre(ce.Pos(), "atomic", ce.Args[0])
				}
			case "runtime":
				if se.Sel.Name == "Gosched" {
					r.replaceCall(c, ce, call("SpinYield", newSite(r.fset, ce.Pos(), "gosched")))
				}
			case "time":
				switch se.Sel.Name {
				case "Sleep":
					r.replaceCall(c, ce, call("Sleep", newSite(r.fset, ce.Pos(), "sleep"), ce.Args[0]))
				case "AfterFunc":
					r.replaceCall(c, ce, call("AfterFunc", newSite(r.fset, ce.Pos(), "afterfunc"), ce.Args[0], ce.Args[1]))
				}
			case "math/rand/v2":
				switch se.Sel.Name {
				case "IntN":
					r.replaceCall(c, ce, call("RandIntN", ce.Args[0]))
				case "Shuffle":
					r.replaceCall(c, ce, call("RandShuffle", ce.Args[0], ce.Args[1]))
				case "Uint64":
					r.replaceCall(c, ce, call("RandUint64"))
				case "Float64":
					r.replaceCall(c, ce, call("RandFloat64"))
				case "Perm", "Int", "Int64", "Int64N", "Uint32", "N", "Int32", "Int32N", "Uint64N", "Uint32N":
					stats["rand-uncontrolled:"+se.Sel.Name]++
				}
			}
		}
	}
}

func (r *rewriter) replaceCall(c *astutil.Cursor, old *ast.CallExpr, nw *ast.CallExpr) {
	r.changed = true
	// mutate in place so that defer/go/expr statements holding the call keep working
	old.Fun = nw.Fun
	old.Args = nw.Args
	old.Ellipsis = token.NoPos
}

func (r *rewriter) goStmt(c *astutil.Cursor, g *ast.GoStmt) {
	r.changed = true
	siteLit := newSite(r.fset, g.Pos(), "go")
	ce := g.Call
	var thunk ast.Expr
	if fl, ok := ce.Fun.(*ast.FuncLit); ok && len(ce.Args) == 0 && fl.Type.Results == nil {
		thunk = fl
	} else {
		// func() func() { fn := F; a0 := A0; ...; return func() { fn(a0, ...) } }()
		var body []ast.Stmt
		var fn ast.Expr = ast.NewIdent("__fn")
		isBuiltin := false
		if id, ok := ce.Fun.(*ast.Ident); ok {
			if _, b := r.info.Uses[id].(*types.Builtin); b {
				isBuiltin = true
				fn = id
			}
		}
		if !isBuiltin {
			body = append(body, &ast.AssignStmt{Lhs: []ast.Expr{fn}, Tok: token.DEFINE, Rhs: []ast.Expr{ce.Fun}})
		}
		var args []ast.Expr
		for i, a := range ce.Args {
			id := ast.NewIdent("__a" + strconv.Itoa(i))
			body = append(body, &ast.AssignStmt{Lhs: []ast.Expr{id}, Tok: token.DEFINE, Rhs: []ast.Expr{a}})
			args = append(args, id)
		}
		inner := &ast.CallExpr{Fun: fn, Args: args, Ellipsis: ce.Ellipsis}
		body = append(body, &ast.ReturnStmt{Results: []ast.Expr{
			&ast.FuncLit{Type: &ast.FuncType{Params: &ast.FieldList{}}, Body: &ast.BlockStmt{List: []ast.Stmt{&ast.ExprStmt{X: inner}}}},
		}})
		maker := &ast.FuncLit{
			Type: &ast.FuncType{Params: &ast.FieldList{}, Results: &ast.FieldList{List: []*ast.Field{{Type: &ast.FuncType{Params: &ast.FieldList{}}}}}},
			Body: &ast.BlockStmt{List: body},
		}
		thunk = &ast.CallExpr{Fun: maker}
	}
	c.Replace(&ast.ExprStmt{X: call("Go", siteLit, thunk)})
}

func isOrdered(t types.Type) bool {
	b, ok := types.Unalias(t).Underlying().(*types.Basic)
	if !ok {
		return false
	}
	return b.Info()&(types.IsInteger|types.IsString|types.IsFloat) != 0
}

func (r *rewriter) rangeStmt(c *astutil.Cursor, rs *ast.RangeStmt) {
	t := r.typeOf(rs.X)
	if t == nil {
		return
	}
	switch u := types.Unalias(t).Underlying().(type) {
	case *types.Chan:
		r.changed = true
		// for __ch := X; ; { v, __ok := Recv2(site, __ch); if !__ok { break }; body }
		chID := ast.NewIdent("__ch")
		okID := ast.NewIdent("__ok")
		var lhs ast.Expr = ast.NewIdent("_")
		tok := token.DEFINE
		var pre []ast.Stmt
		if rs.Key != nil {
			lhs = rs.Key
			if rs.Tok == token.ASSIGN {
				tok = token.ASSIGN
				pre = append(pre, &ast.DeclStmt{Decl: &ast.GenDecl{Tok: token.VAR, Specs: []ast.Spec{&ast.ValueSpec{Names: []*ast.Ident{okID}, Type: ast.NewIdent("bool")}}}})
			}
		}
		recv := &ast.AssignStmt{Lhs: []ast.Expr{lhs, okID}, Tok: tok, Rhs: []ast.Expr{call("Recv2", newSite(r.fset, rs.Pos(), "range-chan"), chID)}}
		brk := &ast.IfStmt{Cond: &ast.UnaryExpr{Op: token.NOT, X: okID}, Body: &ast.BlockStmt{List: []ast.Stmt{&ast.BranchStmt{Tok: token.BREAK}}}}
		body := append(append(pre, recv, brk), rs.Body.List...)
		c.Replace(&ast.ForStmt{
			Init: &ast.AssignStmt{Lhs: []ast.Expr{chID}, Tok: token.DEFINE, Rhs: []ast.Expr{rs.X}},
			Body: &ast.BlockStmt{List: body},
		})
	case *types.Map:
		keysFn := "MapKeys"
		if _, isTP := types.Unalias(u.Key()).(*types.TypeParam); isTP || !isOrdered(u.Key()) {
			keysFn = "MapKeysAny"
			stats["range-map-anykey"]++
		}
		if rs.Key == nil && rs.Value == nil {
			return // for range m {}: order is unobservable
		}
		if rs.Tok == token.ASSIGN {
			stats["range-map-assign-skipped"]++
			return
		}
		r.changed = true
		stats["range-map"]++
		mID := ast.NewIdent("__m")
		keyID := ast.NewIdent("__k")
		if id, ok := rs.Key.(*ast.Ident); ok && id.Name != "_" {
			keyID = id
		}
		var pre []ast.Stmt
		okID := ast.NewIdent("__mok")
		var vLHS ast.Expr = ast.NewIdent("_")
		if rs.Value != nil {
			vLHS = rs.Value
		}
		pre = append(pre,
			&ast.AssignStmt{Lhs: []ast.Expr{vLHS, okID}, Tok: token.DEFINE, Rhs: []ast.Expr{&ast.IndexExpr{X: mID, Index: keyID}}},
			&ast.IfStmt{Cond: &ast.UnaryExpr{Op: token.NOT, X: okID}, Body: &ast.BlockStmt{List: []ast.Stmt{&ast.BranchStmt{Tok: token.CONTINUE}}}},
		)
		inner := &ast.RangeStmt{
			Key: ast.NewIdent("_"), Value: keyID, Tok: token.DEFINE,
			X:    call(keysFn, mID),
			Body: &ast.BlockStmt{List: append(pre, rs.Body.List...)},
		}
		// { __m := X; for _, k := range MapKeys(__m) { ... } }  -- labels: keep the for as the labeled stmt when possible
		if _, labeled := c.Parent().(*ast.LabeledStmt); labeled {
			// cannot introduce a block under a label targeted by continue; evaluate X twice instead
			inner.X = call(keysFn, rs.X)
			pre[0].(*ast.AssignStmt).Rhs[0].(*ast.IndexExpr).X = rs.X
			c.Replace(inner)
			return
		}
		c.Replace(&ast.BlockStmt{List: []ast.Stmt{
			&ast.AssignStmt{Lhs: []ast.Expr{mID}, Tok: token.DEFINE, Rhs: []ast.Expr{rs.X}},
			inner,
		}})
	}
}

func (r *rewriter) selectStmt(ss *ast.SelectStmt) {
	// put the scheduling point into the first channel expression evaluated
	for _, cl := range ss.Body.List {
		cc := cl.(*ast.CommClause)
		if cc.Comm == nil {
			continue
		}
		r.markComm(cc.Comm)
		// a scheduling point as the first statement of every case body: several goroutines can be woken
		// by one event (close, broadcast, timers with equal deadlines) and would otherwise run truly in
		// parallel up to their next synchronisation operation
		cc.Body = append([]ast.Stmt{&ast.ExprStmt{X: call("Yield", newSite(r.fset, cc.Pos(), "select-case"))}}, cc.Body...)
	}
	for _, cl := range ss.Body.List {
		cc := cl.(*ast.CommClause)
		switch s := cc.Comm.(type) {
		case *ast.SendStmt:
			s.Chan = r.pre(ss.Pos(), "select", s.Chan)
			return
		case *ast.ExprStmt:
			if u, ok := ast.Unparen(s.X).(*ast.UnaryExpr); ok {
				u.X = r.pre(ss.Pos(), "select", u.X)
				return
			}
		case *ast.AssignStmt:
			if u, ok := ast.Unparen(s.Rhs[0]).(*ast.UnaryExpr); ok {
				u.X = r.pre(ss.Pos(), "select", u.X)
				return
			}
		}
	}
}

func (r *rewriter) markComm(s ast.Stmt) {
	r.inComm[s] = true
	switch s := s.(type) {
	case *ast.ExprStmt:
		r.inComm[ast.Unparen(s.X)] = true
	case *ast.AssignStmt:
		r.inComm[ast.Unparen(s.Rhs[0])] = true
	}
}

func (r *rewriter) apply(f *ast.File) {
	astutil.Apply(f, func(c *astutil.Cursor) bool {
		switch n := c.Node().(type) {
		case *ast.SelectStmt:
			r.selectStmt(n)
		case *ast.GoStmt:
			// rewritten in post so inner constructs are handled first
		}
		return true
	}, func(c *astutil.Cursor) bool {
		switch n := c.Node().(type) {
		case *ast.CallExpr:
			r.rewriteCall(c, n, false)
		case *ast.SendStmt:
			if !r.inComm[n] {
				n.Chan = r.pre(n.Pos(), "chan-send", n.Chan)
			}
		case *ast.UnaryExpr:
			if n.Op == token.ARROW && !r.inComm[n] {
				// v, ok := <-ch handled at the assign level
				if as, ok := c.Parent().(*ast.AssignStmt); ok && len(as.Lhs) == 2 && len(as.Rhs) == 1 {
					r.changed = true
					c.Replace(call("Recv2", newSite(r.fset, n.Pos(), "chan-recv"), n.X))
				} else if vs, ok := c.Parent().(*ast.ValueSpec); ok && len(vs.Names) == 2 {
					r.changed = true
					c.Replace(call("Recv2", newSite(r.fset, n.Pos(), "chan-recv"), n.X))
				} else {
					r.changed = true
					c.Replace(call("Recv", newSite(r.fset, n.Pos(), "chan-recv"), n.X))
				}
			}
		case *ast.GoStmt:
			r.goStmt(c, n)
		case *ast.RangeStmt:
			r.rangeStmt(c, n)
		case *ast.ValueSpec:
			for i, name := range n.Names {
				if v, ok := knobs[name.Name]; ok && i < len(n.Values) {
					if _, isConst := r.info.Defs[name].(*types.Const); isConst {
						n.Values[i] = &ast.BasicLit{Kind: token.INT, Value: v}
						r.knob = true
						stats["knob:"+name.Name]++
					}
				}
			}
		}
		return true
	})
}

func main() {
	dir := flag.String("dir", "/repo", "module directory")
	out := flag.String("out", "", "output directory")
	simrtSrc := flag.String("simrt", "", "directory holding the simrt sources to map under the goakt module")
	extra := flag.String("overlay-extra", "", "JSON file with additional overlay entries to merge")
	knobFlag := flag.String("knobs", "", "comma separated const=value")
	flag.IntVar(&siteBase, "site-base", 0, "first site id")
	preOverlay := flag.String("pre-overlay", "", "JSON overlay applied before instrumentation (hook patches, added packages)")
	flag.Parse()
	if *out == "" {
		fmt.Fprintln(os.Stderr, "need -out")
		os.Exit(2)
	}
	for _, kv := range strings.Split(*knobFlag, ",") {
		if k, v, ok := strings.Cut(kv, "="); ok {
			knobs[k] = v
		}
	}
	cfg := &packages.Config{
		Mode:       packages.NeedName | packages.NeedFiles | packages.NeedCompiledGoFiles | packages.NeedSyntax | packages.NeedTypes | packages.NeedTypesInfo | packages.NeedImports | packages.NeedDeps,
		Dir:        *dir,
		BuildFlags: []string{"-tags=verif"},
	}
	preFiles := map[string]string{}
	if *preOverlay != "" {
		b, err := os.ReadFile(*preOverlay)
		if err != nil {
			panic(err)
		}
		var ex struct{ Replace map[string]string }
		if err := json.Unmarshal(b, &ex); err != nil {
			panic(err)
		}
		cfg.Overlay = map[string][]byte{}
		for k, v := range ex.Replace {
			data, err := os.ReadFile(v)
			if err != nil {
				panic(err)
			}
			cfg.Overlay[k] = data
			preFiles[k] = v
			overlay[k] = v
		}
	}
	pkgs, err := packages.Load(cfg, flag.Args()...)
	if err != nil {
		fmt.Fprintln(os.Stderr, err)
		os.Exit(2)
	}
	bad := false
	for _, p := range pkgs {
		for _, e := range p.Errors {
			fmt.Fprintln(os.Stderr, "load error:", p.PkgPath, e)
			bad = true
		}
	}
	if bad {
		os.Exit(2)
	}
	for _, p := range pkgs {
		for i, f := range p.Syntax {
			path := p.CompiledGoFiles[i]
			if !strings.HasSuffix(path, ".go") || strings.HasPrefix(filepath.Base(path), "zz_verif") || strings.Contains(path, "/zzverif/") {
				continue
			}
			r := &rewriter{fset: p.Fset, info: p.TypesInfo, inComm: map[ast.Node]bool{}}
			r.apply(f)
			if !r.changed && !r.knob {
				continue
			}
			if r.changed {
				astutil.AddNamedImport(p.Fset, f, simrtName, simrtPath)
			}
			used := map[types.Object]bool{}
			ast.Inspect(f, func(n ast.Node) bool {
				if id, ok := n.(*ast.Ident); ok {
					if pn, ok := p.TypesInfo.Uses[id].(*types.PkgName); ok {
						used[pn] = true
					}
				}
				return true
			})
			for _, imp := range append([]*ast.ImportSpec(nil), f.Imports...) {
				if imp == nil || imp.Path == nil {
					continue
				}
				path, _ := strconv.Unquote(imp.Path.Value)
				if path == simrtPath || (imp.Name != nil && (imp.Name.Name == "_" || imp.Name.Name == ".")) {
					continue
				}
				var obj types.Object
				if imp.Name != nil {
					obj = p.TypesInfo.Defs[imp.Name]
				} else {
					obj = p.TypesInfo.Implicits[imp]
				}
				if obj != nil && !used[obj] {
					if imp.Name != nil {
						astutil.DeleteNamedImport(p.Fset, f, imp.Name.Name, path)
					} else {
						astutil.DeleteImport(p.Fset, f, path)
					}
				}
			}
			var buf bytes.Buffer
			if err := format.Node(&buf, p.Fset, f); err != nil {
				fmt.Fprintln(os.Stderr, "format:", path, err)
				os.Exit(2)
			}
			rel := strings.ReplaceAll(strings.TrimPrefix(path, "/"), "/", "__")
			dst := filepath.Join(*out, "src", rel)
			os.MkdirAll(filepath.Dir(dst), 0o755)
			if err := os.WriteFile(dst, buf.Bytes(), 0o644); err != nil {
				panic(err)
			}
			overlay[path] = dst
		}
	}
	if *simrtSrc != "" {
		ents, _ := os.ReadDir(*simrtSrc)
		for _, e := range ents {
			if strings.HasSuffix(e.Name(), ".go") {
				overlay[filepath.Join(*dir, "zzverif", "simrt", e.Name())] = filepath.Join(*simrtSrc, e.Name())
			}
		}
	}
	if *extra != "" {
		b, err := os.ReadFile(*extra)
		if err == nil {
			var ex struct{ Replace map[string]string }
			if json.Unmarshal(b, &ex) == nil {
				for k, v := range ex.Replace {
					overlay[k] = v
				}
			}
		}
	}
	b, _ := json.MarshalIndent(map[string]any{"Replace": overlay}, "", " ")
	os.WriteFile(filepath.Join(*out, "overlay.json"), b, 0o644)
	sb, _ := json.Marshal(sites)
	os.WriteFile(filepath.Join(*out, "sites.json"), sb, 0o644)
	stb, _ := json.Marshal(stats)
	os.WriteFile(filepath.Join(*out, "stats.json"), stb, 0o644)
	fmt.Printf("instrumented %d files, %d sites\n", len(overlay), len(sites))
	for k, v := range stats {
		fmt.Printf("  %-28s %d\n", k, v)
	}
}

// vcheck is the driver of the deterministic-simulation checks:
//
//	vcheck build                         instrument + compile for /repo's current working tree
//	vcheck check <ID> [--tier quick|thorough] [--replay file] [--runs N] [--scen name]
//	vcheck list
//
// Exit codes: 0 property held on everything explored; 1 violation (a line
// "VIOLATION property=<id> replay=<path>" is printed); 2 build / harness trouble.
package main

import (
	"bufio"
	"bytes"
	"crypto/sha256"
	"encoding/json"
	"errors"
	"fmt"
	"io"
	"os"
	"os/exec"
	"path/filepath"
	"sort"
	"strconv"
	"strings"
	"sync"
	"syscall"
	"time"
)

var (
	root  = envOr("VERIF_ROOT", "/verif")
	repo  = envOr("VERIF_REPO", "/repo")
	cache = filepath.Join(root, ".cache")
	goBin = envOr("GO", "go1.26.8")
	// the dependency copies are referenced by absolute path from go.mod's replace lines
	depsDir = envOr("VERIF_DEPS", "/verif/.cache/deps")
)

// par is the number of worker processes run at a time (VERIF_PAR, default 16).
func par() int {
	if v, err := strconv.Atoi(os.Getenv("VERIF_PAR")); err == nil && v > 0 {
		return v
	}
	return 16
}

// outDir is where evidence and replay files go: /verif/<kind> for the real repository, a scratch
// directory under .cache for runs against a scratch copy (VERIF_REPO), so that runs against seeded
// changes never overwrite the committed evidence.
func outDir(kind string) string {
	if repo != "/repo" {
		return filepath.Join(cache, "scratch", kind)
	}
	return filepath.Join(root, kind)
}

// quickScale reads the calibration factor of a property's quick tier from quick_scale.json (1 if absent).
func quickScale(prop string) float64 {
	b, err := os.ReadFile(filepath.Join(root, "quick_scale.json"))
	if err != nil {
		return 1
	}
	m := map[string]float64{}
	if json.Unmarshal(b, &m) != nil {
		return 1
	}
	if f, ok := m[prop]; ok && f > 0 {
		return f
	}
	return 1
}

func envOr(k, d string) string {
	if v := os.Getenv(k); v != "" {
		return v
	}
	return d
}

func die(code int, format string, args ...any) {
	fmt.Fprintf(os.Stderr, "vcheck: "+format+"\n", args...)
	os.Exit(code)
}

// ---------------------------------------------------------------- build

var variants = map[string]string{
	"stock": "",
	"small": "segmentSize=4,localQueueCap=4,globalQueueInitialCap=2,contextPoolSize=2,remoteSendCoalescingMaxBatch=4,defaultInitialDemand=8,defaultRefillThreshold=2",
}

var goaktPkgs = []string{
	"./actor", "./eventstream", "./stream", "./breaker", "./crdt", "./supervisor", "./passivation", "./reentrancy",
	"./remote", "./hash", "./extension", "./discovery", "./client",
	"./internal/...",
}

type depUnit struct {
	name string
	pkgs []string
	base int
}

var depUnits = []depUnit{
	{"xsync", []string{"./singleflight", "./errgroup", "./semaphore"}, 100000},
	{"workiva", []string{"./queue"}, 200000},
	{"quartz", []string{"./quartz", "./job", "./matcher", "./logger", "./internal/..."}, 300000},
	{"retry", []string{"."}, 400000},
}

func goEnv() []string {
	env := os.Environ()
	env = append(env, "PATH=/opt/veriftools/go1.26.8/bin:"+os.Getenv("PATH"), "GOFLAGS=-mod=mod", "GOPROXY=off", "GOSUMDB=off", "GOTOOLCHAIN=local", "GOCACHE="+envOr("VERIF_GOCACHE", "/verif/.cache/gocache"))
	return env
}

func hashFiles(h io.Writer, dir string, files []string) {
	sort.Strings(files)
	for _, f := range files {
		b, err := os.ReadFile(filepath.Join(dir, f))
		if err != nil {
			continue
		}
		fmt.Fprintf(h, "%s %d\n", f, len(b))
		h.Write(b)
	}
}

func listGo(dir string) []string {
	var out []string
	filepath.WalkDir(dir, func(p string, d os.DirEntry, err error) error {
		if err != nil {
			return nil
		}
		if d.IsDir() {
			if n := d.Name(); n == ".cache" || n == ".git" || n == "evidence" || n == "replays" || n == "seeded" {
				return filepath.SkipDir
			}
			return nil
		}
		if strings.HasSuffix(p, ".go") || strings.HasSuffix(p, "go.mod") || strings.HasSuffix(p, ".sh") {
			r, _ := filepath.Rel(dir, p)
			out = append(out, r)
		}
		return nil
	})
	return out
}

func treeHash(variant string) string {
	h := sha256.New()
	cmd := exec.Command("git", "-C", repo, "ls-files", "-co", "--exclude-standard", "--", "*.go", "go.mod", "go.sum")
	b, err := cmd.Output()
	var files []string
	if err == nil {
		for _, f := range strings.Split(strings.TrimSpace(string(b)), "\n") {
			if f != "" && !strings.HasSuffix(f, "_test.go") {
				files = append(files, f)
			}
		}
	} else {
		for _, f := range listGo(repo) {
			if !strings.HasSuffix(f, "_test.go") {
				files = append(files, f)
			}
		}
	}
	hashFiles(h, repo, files)
	hashFiles(h, root, listGo(root))
	fmt.Fprintf(h, "variant=%s knobs=%s go=%s repo=%s", variant, variants[variant], goBin, repo)
	return fmt.Sprintf("%x", h.Sum(nil))[:20]
}

func run(dir string, env []string, name string, args ...string) (string, error) {
	cmd := exec.Command(name, args...)
	cmd.Dir = dir
	cmd.Env = env
	var buf bytes.Buffer
	cmd.Stdout, cmd.Stderr = &buf, &buf
	err := cmd.Run()
	return buf.String(), err
}

type overlayFile struct {
	Replace map[string]string
}

func readOverlay(p string) map[string]string {
	var o overlayFile
	b, err := os.ReadFile(p)
	if err != nil {
		return nil
	}
	_ = json.Unmarshal(b, &o)
	return o.Replace
}

// ensureBuild returns the test binary for the current tree and variant.
func ensureBuild(variant string) (string, error) {
	if _, ok := variants[variant]; !ok {
		return "", fmt.Errorf("unknown build variant %q", variant)
	}
	h := treeHash(variant)
	dir := filepath.Join(cache, "build", h+"-"+variant)
	bin := filepath.Join(dir, "scen.test")
	if _, err := os.Stat(filepath.Join(dir, "ok")); err == nil {
		os.Chtimes(dir, time.Now(), time.Now())
		return bin, nil
	}
	os.MkdirAll(dir, 0o755)
	// serialise concurrent builders of the same tree
	lf, err := os.OpenFile(filepath.Join(dir, "lock"), os.O_CREATE|os.O_RDWR, 0o644)
	if err == nil {
		defer lf.Close()
		syscall.Flock(int(lf.Fd()), syscall.LOCK_EX)
		defer syscall.Flock(int(lf.Fd()), syscall.LOCK_UN)
		if _, err := os.Stat(filepath.Join(dir, "ok")); err == nil {
			return bin, nil
		}
	}
	t0 := time.Now()
	env := goEnv()
	vinstr := filepath.Join(cache, "bin", "vinstr")
	// 1. pre-overlay: runtime library + in-package harness files
	pre := map[string]string{}
	for _, lib := range []string{"simrt", "simnet", "simcluster", "simfab", "simglue", "simstream"} {
		ents, _ := os.ReadDir(filepath.Join(root, lib))
		for _, e := range ents {
			if strings.HasSuffix(e.Name(), ".go") && !strings.HasSuffix(e.Name(), "_test.go") {
				pre[filepath.Join(repo, "zzverif", lib, e.Name())] = filepath.Join(root, lib, e.Name())
			}
		}
	}
	hroot := filepath.Join(root, "harness")
	filepath.WalkDir(hroot, func(p string, d os.DirEntry, err error) error {
		if err == nil && !d.IsDir() && strings.HasSuffix(p, ".go") {
			rel, _ := filepath.Rel(hroot, p)
			pre[filepath.Join(repo, rel)] = p
		}
		return nil
	})
	preJSON := filepath.Join(dir, "pre.json")
	writeJSON(preJSON, overlayFile{pre})
	merged := map[string]string{}
	for k, v := range pre {
		merged[k] = v
	}
	// 2. instrument goakt
	args := []string{"-dir", repo, "-out", filepath.Join(dir, "i-goakt"), "-pre-overlay", preJSON, "-site-base", "0"}
	if k := variants[variant]; k != "" {
		args = append(args, "-knobs", k)
	}
	args = append(args, goaktPkgs...)
	if out, err := run(root, env, vinstr, args...); err != nil {
		return "", fmt.Errorf("instrumenting goakt failed: %v\n%s", err, out)
	}
	for k, v := range readOverlay(filepath.Join(dir, "i-goakt", "overlay.json")) {
		merged[k] = v
	}
	// 3. instrument the dependency copies
	for _, u := range depUnits {
		ddir := filepath.Join(depsDir, u.name)
		a := []string{"-dir", ddir, "-out", filepath.Join(dir, "i-"+u.name), "-site-base", strconv.Itoa(u.base)}
		a = append(a, u.pkgs...)
		if out, err := run(root, env, vinstr, a...); err != nil {
			return "", fmt.Errorf("instrumenting %s failed: %v\n%s", u.name, err, out)
		}
		for k, v := range readOverlay(filepath.Join(dir, "i-"+u.name, "overlay.json")) {
			merged[k] = v
		}
	}
	// 4. runtime overlay
	for k, v := range readOverlay(filepath.Join(cache, "rt", "overlay.json")) {
		merged[k] = v
	}
	ov := filepath.Join(dir, "overlay.json")
	writeJSON(ov, overlayFile{merged})
	// 5. compile the worker binary
	targs := []string{"test", "-tags", "verif", "-vet=off", "-overlay", ov}
	if repo != "/repo" {
		// a scratch copy of the repository: same harness module, replace directive redirected
		mod, _ := os.ReadFile(filepath.Join(root, "go.mod"))
		sum, _ := os.ReadFile(filepath.Join(root, "go.sum"))
		mf := filepath.Join(dir, "go.mod")
		os.WriteFile(mf, bytes.ReplaceAll(mod, []byte("=> /repo\n"), []byte("=> "+repo+"\n")), 0o644)
		os.WriteFile(filepath.Join(dir, "go.sum"), sum, 0o644)
		targs = append(targs, "-modfile", mf)
	}
	targs = append(targs, "-c", "-o", bin, "./scen")
	out, err := run(root, env, goBin, targs...)
	if err != nil {
		return "", fmt.Errorf("compiling the instrumented tree failed: %v\n%s", err, out)
	}
	os.WriteFile(filepath.Join(dir, "ok"), []byte(time.Since(t0).String()), 0o644)
	fmt.Fprintf(os.Stderr, "vcheck: built %s in %v\n", filepath.Base(dir), time.Since(t0).Round(time.Second))
	pruneBuilds(dir)
	return bin, nil
}

// pruneBuilds keeps the most recent build directories only (disk is limited).
func pruneBuilds(keep string) {
	ents, _ := os.ReadDir(filepath.Join(cache, "build"))
	type de struct {
		p string
		t time.Time
	}
	var l []de
	for _, e := range ents {
		p := filepath.Join(cache, "build", e.Name())
		if fi, err := os.Stat(p); err == nil && p != keep {
			l = append(l, de{p, fi.ModTime()})
		}
	}
	sort.Slice(l, func(i, j int) bool { return l[i].t.After(l[j].t) })
	for i, d := range l {
		if i >= 5 {
			os.RemoveAll(d.p)
		}
	}
}

func writeJSON(p string, v any) {
	b, _ := json.MarshalIndent(v, "", " ")
	os.WriteFile(p, b, 0o644)
}

// ---------------------------------------------------------------- worker protocol

type Violation struct {
	Class     string `json:"class"`
	Component string `json:"component"`
	Detail    string `json:"detail"`
}

func (v *Violation) Sig() string { return v.Class + "|" + v.Component }

type SchedRun struct {
	T string `json:"t"`
	N int    `json:"n"`
}

type RunResult struct {
	Prop      string         `json:"prop"`
	Scen      string         `json:"scen"`
	Variant   string         `json:"variant"`
	Seed      uint64         `json:"seed"`
	Strategy  string         `json:"strategy"`
	Steps     int            `json:"steps"`
	SimNs     int64          `json:"sim_ns"`
	Switches  int            `json:"switches"`
	Ops       int            `json:"ops"`
	SchedHash string         `json:"sched_hash"`
	WorkHash  string         `json:"work_hash"`
	FaultHash string         `json:"fault_hash"`
	Faults    map[string]int `json:"faults,omitempty"`
	Probes    map[string]int `json:"probes,omitempty"`
	Stats     map[string]int `json:"stats,omitempty"`
	Viol      *Violation     `json:"viol,omitempty"`
	Inconcl   string         `json:"inconclusive,omitempty"`
	Harness   string         `json:"harness_err,omitempty"`
	Sample    map[string]any `json:"sample,omitempty"`
	Work      []uint32       `json:"work,omitempty"`
	Fault     []uint32       `json:"fault,omitempty"`
	Sched     []SchedRun     `json:"sched,omitempty"`
	WallUs    int64          `json:"wall_us"`
	Dirty     bool           `json:"dirty,omitempty"`
}

type Replay struct {
	Property  string         `json:"property"`
	Scenario  string         `json:"scenario"`
	Variant   string         `json:"build_variant"`
	Seed      uint64         `json:"seed"`
	Strategy  string         `json:"strategy,omitempty"`
	Work      []uint32       `json:"workload_tape"`
	Fault     []uint32       `json:"fault_tape"`
	Sched     []SchedRun     `json:"schedule"`
	Expect    *Violation     `json:"expect,omitempty"`
	Workload  map[string]any `json:"workload_description,omitempty"`
	Minimised bool           `json:"minimised"`
	Note      string         `json:"note,omitempty"`
}

type scenRow struct {
	Prop, Name         string
	Variants           []string
	Quick, Thorough    int
	Real, Stub         []string
	StuckClass         string
	EstSteps, MaxSteps int
}

type workerOut struct {
	results []RunResult
	pairs   []uint64
	exit    string // reason of the X line ("" = crashed)
	next    int
	stderr  string
}

// runWorker starts one worker process and parses its output.
func runWorker(bin string, env map[string]string, timeout time.Duration) workerOut {
	cmd := exec.Command(bin, "-test.run", "^TestWorker$", "-test.timeout", "0", "-test.count", "1")
	cmd.Env = append(os.Environ(), "GOMAXPROCS=2", "GOTRACEBACK=single")
	for k, v := range env {
		cmd.Env = append(cmd.Env, k+"="+v)
	}
	var errBuf bytes.Buffer
	cmd.Stderr = &errBuf
	stdout, _ := cmd.StdoutPipe()
	var wo workerOut
	if err := cmd.Start(); err != nil {
		wo.stderr = err.Error()
		return wo
	}
	timer := time.AfterFunc(timeout, func() { cmd.Process.Kill() })
	defer timer.Stop()
	sc := bufio.NewScanner(stdout)
	sc.Buffer(make([]byte, 1<<20), 256<<20)
	warm := false
	var stray []string
	for sc.Scan() {
		line := sc.Text()
		switch {
		case strings.HasPrefix(line, "W "):
			warm = true
		case strings.HasPrefix(line, "R "):
			if !warm {
				continue
			}
			var r RunResult
			if json.Unmarshal([]byte(line[2:]), &r) == nil {
				wo.results = append(wo.results, r)
			}
		case strings.HasPrefix(line, "P "):
			_ = json.Unmarshal([]byte(line[2:]), &wo.pairs)
		case strings.HasPrefix(line, "X "):
			var x struct {
				Reason string `json:"reason"`
				Next   int    `json:"next"`
			}
			_ = json.Unmarshal([]byte(line[2:]), &x)
			wo.exit, wo.next = x.Reason, x.Next
		case strings.HasPrefix(line, "L "):
			wo.stderr = line[2:]
			wo.exit = "list"
		default:
			if len(stray) < 50 {
				stray = append(stray, line)
			}
		}
	}
	cmd.Wait()
	if wo.exit == "" {
		s := errBuf.String()
		if len(s) > 60000 {
			s = s[:30000] + "\n...\n" + s[len(s)-30000:]
		}
		wo.stderr = strings.Join(stray, "\n") + "\n" + s
	}
	return wo
}

func listScenarios(bin string) ([]scenRow, error) {
	wo := runWorker(bin, map[string]string{"VERIF_LIST": "1"}, time.Minute)
	if wo.exit != "list" {
		return nil, fmt.Errorf("cannot list scenarios: %s", wo.stderr)
	}
	var rows []scenRow
	if err := json.Unmarshal([]byte(wo.stderr), &rows); err != nil {
		return nil, err
	}
	return rows, nil
}

// ---------------------------------------------------------------- findings

type finding struct {
	Property    string `json:"property"`
	Status      string `json:"status"` // known | fixed
	Signature   string `json:"signature"`
	Description string `json:"description"`
	Commit      string `json:"commit,omitempty"`
}

func loadFindings() []finding {
	var l []finding
	b, err := os.ReadFile(filepath.Join(root, "known_findings.jsonl"))
	if err != nil {
		return nil
	}
	for _, line := range strings.Split(string(b), "\n") {
		line = strings.TrimSpace(line)
		if line == "" || strings.HasPrefix(line, "#") {
			continue
		}
		var f finding
		if json.Unmarshal([]byte(line), &f) == nil {
			l = append(l, f)
		}
	}
	return l
}

func knownFinding(fs []finding, prop string, v *Violation) *finding {
	for i := range fs {
		if fs[i].Status == "known" && fs[i].Property == prop && fs[i].Signature == v.Sig() {
			return &fs[i]
		}
	}
	return nil
}

// ---------------------------------------------------------------- replay & shrink

var tmpSeq int
var tmpMu sync.Mutex

func replayOnce(bin string, rep *Replay, wantTapes bool) (*RunResult, string) {
	tmpMu.Lock()
	tmpSeq++
	f := filepath.Join(cache, "tmp", fmt.Sprintf("rep-%d-%d.json", os.Getpid(), tmpSeq))
	tmpMu.Unlock()
	os.MkdirAll(filepath.Dir(f), 0o755)
	writeJSON(f, rep)
	defer os.Remove(f)
	env := map[string]string{"VERIF_REPLAY": f, "VERIF_VARIANT": rep.Variant}
	if wantTapes {
		env["VERIF_TAPES"] = "1"
	}
	wo := runWorker(bin, env, 5*time.Minute)
	if len(wo.results) == 0 {
		return nil, "replay produced no result: " + wo.exit + " " + wo.stderr
	}
	return &wo.results[len(wo.results)-1], ""
}

func sameViolation(r *RunResult, want *Violation) bool {
	return r != nil && r.Viol != nil && r.Viol.Sig() == want.Sig()
}

// shrink minimises the tapes of a failing run while the same violation class persists.
func shrink(bin string, rep Replay, budget time.Duration) Replay {
	deadline := time.Now().Add(budget)
	want := rep.Expect
	try := func(cands []Replay) int { // returns index of the first candidate that still fails, -1 if none
		res := make([]bool, len(cands))
		var wg sync.WaitGroup
		sem := make(chan struct{}, par())
		for i := range cands {
			if time.Now().After(deadline) {
				break
			}
			wg.Add(1)
			sem <- struct{}{}
			go func() {
				defer wg.Done()
				defer func() { <-sem }()
				r, _ := replayOnce(bin, &cands[i], false)
				res[i] = sameViolation(r, want)
			}()
		}
		wg.Wait()
		for i, ok := range res {
			if ok {
				return i
			}
		}
		return -1
	}
	cur := rep
	// 1. schedule: drop the tail, then drop chunks ("continue the current thread" takes over)
	for n := len(cur.Sched); n > 0 && time.Now().Before(deadline); {
		var cands []Replay
		var cuts []int
		for _, keep := range []int{0, n / 8, n / 4, n / 2, n * 3 / 4, n - 1} {
			if keep < n && keep >= 0 {
				c := cur
				c.Sched = append([]SchedRun(nil), cur.Sched[:keep]...)
				cands = append(cands, c)
				cuts = append(cuts, keep)
			}
		}
		i := try(cands)
		if i < 0 || cuts[i] == n {
			break
		}
		cur = cands[i]
		if len(cur.Sched) == n {
			break
		}
		n = len(cur.Sched)
	}
	for chunk := max(len(cur.Sched)/2, 1); chunk >= 1 && time.Now().Before(deadline); chunk /= 2 {
		for start := 0; start < len(cur.Sched) && time.Now().Before(deadline); {
			var cands []Replay
			var starts []int
			for s := start; s < len(cur.Sched) && len(cands) < 16; s += chunk {
				c := cur
				c.Sched = append(append([]SchedRun(nil), cur.Sched[:s]...), cur.Sched[min(s+chunk, len(cur.Sched)):]...)
				cands = append(cands, c)
				starts = append(starts, s)
			}
			i := try(cands)
			if i < 0 {
				start += chunk * len(cands)
				continue
			}
			cur = cands[i]
			start = starts[i]
		}
		if chunk == 1 {
			break
		}
	}
	// 2. fault tape, then workload tape: zero entries (0 = the simplest choice), drop the tail
	shrinkTape := func(get func(*Replay) *[]uint32) {
		for pass := 0; pass < 2 && time.Now().Before(deadline); pass++ {
			t := *get(&cur)
			// tail
			for n := len(t); n > 0 && time.Now().Before(deadline); {
				var cands []Replay
				for _, keep := range []int{0, n / 4, n / 2, n * 3 / 4} {
					c := cur
					*get(&c) = append([]uint32(nil), t[:keep]...)
					cands = append(cands, c)
				}
				i := try(cands)
				if i < 0 {
					break
				}
				cur = cands[i]
				t = *get(&cur)
				if len(t) == n {
					break
				}
				n = len(t)
			}
			// zero single entries, 16 at a time
			for start := 0; start < len(t) && time.Now().Before(deadline); {
				var cands []Replay
				var idxs []int
				for j := start; j < len(t) && len(cands) < 16; j++ {
					if t[j] == 0 {
						continue
					}
					c := cur
					nt := append([]uint32(nil), t...)
					nt[j] = 0
					*get(&c) = nt
					cands = append(cands, c)
					idxs = append(idxs, j)
				}
				if len(cands) == 0 {
					break
				}
				i := try(cands)
				if i < 0 {
					start = idxs[len(idxs)-1] + 1
					continue
				}
				cur = cands[i]
				t = *get(&cur)
				start = idxs[i] + 1
			}
		}
	}
	shrinkTape(func(r *Replay) *[]uint32 { return &r.Fault })
	shrinkTape(func(r *Replay) *[]uint32 { return &r.Work })
	cur.Minimised = true
	return cur
}

// ---------------------------------------------------------------- check

type chunk struct {
	sc      scenRow
	variant string
	seeds   []uint64
}

func seedsCSV(s []uint64) string {
	var b strings.Builder
	for i, v := range s {
		if i > 0 {
			b.WriteByte(',')
		}
		b.WriteString(strconv.FormatUint(v, 10))
	}
	return b.String()
}

func check(prop, tier, replayFile, onlyScen string, runsOverride int) int {
	t0 := time.Now()
	baseSeed := uint64(1)
	if v, err := strconv.ParseUint(os.Getenv("VERIF_SEED"), 10, 64); err == nil {
		baseSeed = v
	}
	bins := map[string]string{}
	getBin := func(variant string) string {
		if b, ok := bins[variant]; ok {
			return b
		}
		b, err := ensureBuild(variant)
		if err != nil {
			die(2, "%v", err)
		}
		bins[variant] = b
		return b
	}
	if replayFile != "" {
		b, err := os.ReadFile(replayFile)
		if err != nil {
			die(2, "cannot read %s: %v", replayFile, err)
		}
		var rep Replay
		if err := json.Unmarshal(b, &rep); err != nil {
			die(2, "bad replay file: %v", err)
		}
		r, msg := replayOnce(getBin(rep.Variant), &rep, false)
		if r == nil {
			die(2, "%s", msg)
		}
		if r.Viol != nil {
			fmt.Printf("replayed seed=%d steps=%d: %s [%s] %s\n", r.Seed, r.Steps, r.Viol.Class, r.Viol.Component, r.Viol.Detail)
			fmt.Printf("VIOLATION property=%s replay=%s\n", rep.Property, replayFile)
			return 1
		}
		fmt.Printf("replayed seed=%d steps=%d: no violation (harness=%q)\n", r.Seed, r.Steps, r.Harness)
		return 0
	}
	rows, err := listScenarios(getBin("stock"))
	if err != nil {
		die(2, "%v", err)
	}
	var scs []scenRow
	for _, r := range rows {
		if r.Prop == prop && (onlyScen == "" || r.Name == onlyScen) {
			scs = append(scs, r)
		}
	}
	if len(scs) == 0 {
		die(2, "no scenario registered for property %s", prop)
	}
	budget := 8 * time.Minute
	if tier == "thorough" {
		budget = 3 * time.Hour
	}
	if v, err := strconv.Atoi(os.Getenv("VERIF_BUDGET_S")); err == nil && v > 0 {
		budget = time.Duration(v) * time.Second
	}
	// work list
	var queue []chunk
	for _, sc := range scs {
		n := sc.Quick
		if tier == "thorough" {
			n = sc.Thorough
		} else if f := quickScale(prop); f > 0 {
			// quick_scale.json: per-property multiplier of the scenarios' Quick counts, calibrated so
			// that a quick tier takes about 30-45 s on 16 idle cores
			n = int(float64(n) * f)
		}
		if runsOverride > 0 {
			n = runsOverride
		}
		per := (n + len(sc.Variants) - 1) / len(sc.Variants)
		for vi, variant := range sc.Variants {
			getBin(variant)
			csize := max(1, min(250, (per+15)/16))
			for off := 0; off < per; off += csize {
				var seeds []uint64
				for i := off; i < min(off+csize, per); i++ {
					seeds = append(seeds, baseSeed+uint64(vi*per+i))
				}
				queue = append(queue, chunk{sc, variant, seeds})
			}
		}
	}
	// the run budget starts once the binaries exist: a slow (cold or contended) build must not eat it
	deadline := time.Now().Add(budget)
	var (
		mu        sync.Mutex
		results   []RunResult
		pairs     = map[uint64]struct{}{}
		harness   []string
		restarts  int
		cut       bool
		wg        sync.WaitGroup
		sem       = make(chan struct{}, par())
		pending   = queue
		crashSeen = map[string]int{}
	)
	pop := func() (chunk, bool) {
		mu.Lock()
		defer mu.Unlock()
		if len(pending) == 0 {
			return chunk{}, false
		}
		c := pending[0]
		pending = pending[1:]
		return c, true
	}
	for {
		if time.Now().After(deadline) {
			mu.Lock()
			if len(pending) > 0 {
				cut = true
				pending = nil
			}
			mu.Unlock()
		}
		c, ok := pop()
		if !ok {
			wg.Wait()
			mu.Lock()
			more := len(pending) > 0
			mu.Unlock()
			if !more {
				break
			}
			continue
		}
		sem <- struct{}{}
		wg.Add(1)
		go func() {
			defer wg.Done()
			defer func() { <-sem }()
			env := map[string]string{"VERIF_PROP": prop, "VERIF_SCEN": c.sc.Name, "VERIF_VARIANT": c.variant, "VERIF_TIER": tier, "VERIF_SEEDS": seedsCSV(c.seeds)}
			wo := runWorker(bins[c.variant], env, time.Duration(len(c.seeds))*150*time.Second+2*time.Minute)
			mu.Lock()
			defer mu.Unlock()
			results = append(results, wo.results...)
			for _, p := range wo.pairs {
				pairs[p] = struct{}{}
			}
			done := len(wo.results)
			switch wo.exit {
			case "done":
			case "dirty", "watchdog", "budget":
				restarts++
				if wo.exit == "budget" {
					done = wo.next
				}
				if done < len(c.seeds) {
					pending = append(pending, chunk{c.sc, c.variant, c.seeds[done:]})
				}
			default:
				// crashed: blame the first seed without a result, requeue the rest
				if done < len(c.seeds) {
					key := fmt.Sprintf("%s/%s", c.sc.Name, c.variant)
					crashSeen[key]++
					cf := filepath.Join(cache, "crash", fmt.Sprintf("%s-%s-%s-%d.txt", prop, c.sc.Name, c.variant, c.seeds[done]))
					os.MkdirAll(filepath.Dir(cf), 0o755)
					os.WriteFile(cf, []byte(wo.stderr), 0o644)
					harness = append(harness, fmt.Sprintf("worker crashed in %s/%s variant=%s seed=%d (stderr in %s): %s", prop, c.sc.Name, c.variant, c.seeds[done], cf, tail(wo.stderr, 600)))
					if done+1 < len(c.seeds) && crashSeen[key] < 5 {
						pending = append(pending, chunk{c.sc, c.variant, c.seeds[done+1:]})
					}
				} else if wo.exit == "" {
					harness = append(harness, fmt.Sprintf("worker ended abnormally after its last seed in %s/%s: %s", prop, c.sc.Name, tail(wo.stderr, 800)))
				}
			}
		}()
	}
	wg.Wait()

	// ------------- triage
	findings := loadFindings()
	type vgroup struct {
		first RunResult
		count int
	}
	groups := map[string]*vgroup{}
	var order []string
	sort.Slice(results, func(i, j int) bool {
		if results[i].Scen != results[j].Scen {
			return results[i].Scen < results[j].Scen
		}
		if results[i].Variant != results[j].Variant {
			return results[i].Variant < results[j].Variant
		}
		return results[i].Seed < results[j].Seed
	})
	for _, r := range results {
		if r.Harness != "" {
			harness = append(harness, fmt.Sprintf("%s/%s variant=%s seed=%d: %s", prop, r.Scen, r.Variant, r.Seed, tail(r.Harness, 1500)))
		}
		if r.Viol == nil {
			continue
		}
		key := r.Scen + "|" + r.Viol.Sig()
		if g, ok := groups[key]; ok {
			g.count++
		} else {
			groups[key] = &vgroup{r, 1}
			order = append(order, key)
		}
	}
	exit := 0
	unlisted := 0
	knownMatched := map[string]int{}
	os.MkdirAll(outDir("replays"), 0o755)
	for _, key := range order {
		g := groups[key]
		r := g.first
		if f := knownFinding(findings, prop, r.Viol); f != nil {
			knownMatched[f.Signature] += g.count
			fmt.Printf("KNOWN-FINDING: property=%s %s [signature %s; %d of this batch's runs, first seed %d, scenario %s/%s]\n", prop, f.Description, f.Signature, g.count, r.Seed, r.Scen, r.Variant)
			continue
		}
		rep := Replay{Property: prop, Scenario: r.Scen, Variant: r.Variant, Seed: r.Seed, Strategy: r.Strategy, Work: r.Work, Fault: r.Fault, Sched: r.Sched, Expect: r.Viol, Workload: r.Sample}
		bin := bins[r.Variant]
		rr, msg := replayOnce(bin, &rep, false)
		if !sameViolation(rr, r.Viol) {
			got := "no violation"
			if rr != nil && rr.Viol != nil {
				got = rr.Viol.Sig() + ": " + rr.Viol.Detail
			}
			harness = append(harness, fmt.Sprintf("violation of %s/%s seed=%d (%s: %s) did not reproduce on replay (%s %s) — harness determinism error, not reported as a violation", prop, r.Scen, r.Seed, r.Viol.Sig(), r.Viol.Detail, got, msg))
			continue
		}
		small := shrink(bin, rep, 90*time.Second)
		path := filepath.Join(outDir("replays"), fmt.Sprintf("%s-%s-%d.json", prop, r.Scen, r.Seed))
		final := rep
		if r2, _ := replayOnce(bin, &small, true); sameViolation(r2, r.Viol) {
			final = small
			final.Expect = r2.Viol
			final.Workload = r2.Sample
			final.Note = fmt.Sprintf("minimised from %d schedule segments / %d workload draws / %d fault draws", len(rep.Sched), len(rep.Work), len(rep.Fault))
		}
		writeJSON(path, final)
		// the file must reproduce in a fresh process
		if r3, _ := replayOnce(bin, &final, false); !sameViolation(r3, r.Viol) {
			harness = append(harness, fmt.Sprintf("replay file %s did not reproduce in a fresh process", path))
			continue
		}
		unlisted++
		exit = 1
		fmt.Printf("violation: property=%s scenario=%s variant=%s seed=%d class=%s component=%s (%d run(s) of this batch)\n  %s\n", prop, r.Scen, r.Variant, r.Seed, final.Expect.Class, final.Expect.Component, g.count, final.Expect.Detail)
		fmt.Printf("VIOLATION property=%s replay=%s\n", prop, path)
	}

	if len(results) == 0 {
		harness = append(harness, "no simulated run completed (budget exhausted or every worker failed): nothing was checked")
	}
	writeEvidence(prop, tier, baseSeed, scs, results, pairs, knownMatched, unlisted, harness, restarts, cut, time.Since(t0))
	if len(harness) > 0 {
		for i, h := range harness {
			if i < 8 {
				fmt.Fprintf(os.Stderr, "vcheck: harness error: %s\n", h)
			}
		}
		if exit == 0 {
			exit = 2
		}
	}
	fmt.Printf("%s %s: %d runs, %d unlisted violation group(s), %d known-finding signature(s), %d harness error(s), %.1fs\n", prop, tier, len(results), unlisted, len(knownMatched), len(harness), time.Since(t0).Seconds())
	return exit
}

func tail(s string, n int) string {
	s = strings.TrimSpace(s)
	if len(s) > n {
		return "…" + s[len(s)-n:]
	}
	return s
}

// ---------------------------------------------------------------- evidence

func writeEvidence(prop, tier string, baseSeed uint64, scs []scenRow, results []RunResult, pairs map[uint64]struct{}, known map[string]int, unlisted int, harness []string, restarts int, cut bool, wall time.Duration) {
	distinct := map[string]struct{}{}
	schedHashes := map[string]struct{}{}
	faults := map[string]int{}
	probes := map[string]int{}
	strategies := map[string]int{}
	variantsUsed := map[string]int{}
	perScen := map[string]int{}
	var steps, simNs, switches int64
	inconclusive := 0
	var samples []any
	sampleSeen := map[string]int{}
	for _, r := range results {
		steps += int64(r.Steps)
		simNs += r.SimNs
		switches += int64(r.Switches)
		strategies[r.Strategy]++
		variantsUsed[r.Variant]++
		perScen[r.Scen]++
		schedHashes[r.SchedHash] = struct{}{}
		nfaults := 0
		for k, v := range r.Faults {
			faults[k] += v
			nfaults += v
		}
		for k, v := range r.Probes {
			probes[k] += v
		}
		if r.Inconcl != "" {
			inconclusive++
		}
		if r.Switches >= 1 || nfaults >= 1 {
			distinct[r.Scen+"/"+r.Variant+"/"+r.WorkHash+"/"+r.SchedHash+"/"+r.FaultHash] = struct{}{}
		}
		if sampleSeen[r.Scen] < 2 && r.Harness == "" {
			sampleSeen[r.Scen]++
			verdict := "ok"
			if r.Viol != nil {
				verdict = "violation " + r.Viol.Sig()
			}
			samples = append(samples, map[string]any{"scenario": r.Scen, "variant": r.Variant, "seed": r.Seed, "strategy": r.Strategy, "steps": r.Steps,
				"context_switches": r.Switches, "sim_time_ms": float64(r.SimNs) / 1e6, "workload": r.Sample, "faults_fired": r.Faults, "verdict": verdict})
		}
	}
	real, stub := map[string]struct{}{}, map[string]struct{}{}
	var scenNames []string
	for _, s := range scs {
		scenNames = append(scenNames, s.Name)
		for _, x := range s.Real {
			real[x] = struct{}{}
		}
		for _, x := range s.Stub {
			stub[x] = struct{}{}
		}
	}
	keys := func(m map[string]struct{}) []string {
		var l []string
		for k := range m {
			l = append(l, k)
		}
		sort.Strings(l)
		return l
	}
	n := len(results)
	if len(samples) == 0 {
		samples = append(samples, "no run completed")
	}
	lastSeed := baseSeed
	for _, r := range results {
		if r.Seed > lastSeed {
			lastSeed = r.Seed
		}
	}
	ev := map[string]any{
		"property_id": prop,
		"tier":        tier,
		"seed":        baseSeed,
		"level":       "exploration",
		"wall_s":      wall.Seconds(),
		"violations":  unlisted,
		"coverage": map[string]any{
			"evaluations":         n,
			"distinct_nontrivial": len(distinct),
			"rule": "each evaluation is one simulated run (seed -> workload tape, fault tape, schedule tape) of a scenario of this property under the deterministic scheduler; " +
				"a run counts as non-trivial when the scheduler forced at least one context switch between controlled goroutines or at least one injected fault fired, and two runs are the same case " +
				"when scenario, build variant, workload-tape hash, schedule-trace hash and fault-tape hash all coincide (counted with a set over this run's results)",
			"samples":                  samples,
			"scenarios":                scenNames,
			"runs_per_scenario":        perScen,
			"runs_per_hour":            float64(n) / wall.Hours(),
			"seeds":                    map[string]any{"base": baseSeed, "last": lastSeed},
			"sim_time_total_s":         float64(simNs) / 1e9,
			"steps_total":              steps,
			"context_switches_total":   switches,
			"faults_fired":             faults,
			"probes":                   probes,
			"interleaving_measure":     map[string]any{"distinct_site_pairs_at_context_switches": len(pairs), "distinct_schedule_hashes": len(schedHashes)},
			"build_variants":           variantsUsed,
			"strategies":               strategies,
			"inconclusive":             inconclusive,
			"worker_restarts":          restarts,
			"budget_cut":               cut,
			"harness_errors":           len(harness),
			"components_real":          keys(real),
			"components_stub":          keys(stub),
			"known_findings_matched":   known,
			"exhaustive":               false,
		},
		"assumptions": []string{
			"interleaving happens at synchronisation operations only (instrumented atomics, mutexes, channels, conds, selects); product code is assumed data-race free between them",
			"the fake clock of testing/synctest stands for the wall clock; all simulated nodes share it",
			"a clean batch is sampled evidence, not proof",
		},
	}
	os.MkdirAll(outDir("evidence"), 0o755)
	writeJSON(filepath.Join(outDir("evidence"), prop+".json"), ev)
}

func detTest(prop string, n int) int {
	bin, err := ensureBuild("stock")
	if err != nil {
		die(2, "%v", err)
	}
	rows, err := listScenarios(bin)
	if err != nil {
		die(2, "%v", err)
	}
	bad := 0
	for _, sc := range rows {
		if sc.Prop != prop {
			continue
		}
		for _, variant := range sc.Variants {
			b, err := ensureBuild(variant)
			if err != nil {
				die(2, "%v", err)
			}
			var seeds []uint64
			for i := 0; i < n; i++ {
				seeds = append(seeds, uint64(1000+i))
			}
			type key struct{ seed uint64 }
			ref := map[uint64]string{}
			var mu sync.Mutex
			var wg sync.WaitGroup
			sem := make(chan struct{}, par())
			runSet := func(label string, ss []uint64) {
				defer wg.Done()
				defer func() { <-sem }()
				rest := ss
				for len(rest) > 0 {
					wo := runWorker(b, map[string]string{"VERIF_PROP": prop, "VERIF_SCEN": sc.Name, "VERIF_VARIANT": variant, "VERIF_SEEDS": seedsCSV(rest)}, 20*time.Minute)
					mu.Lock()
					for _, r := range wo.results {
						v := ""
						if r.Viol != nil {
							v = r.Viol.Sig()
						}
						sig := fmt.Sprintf("steps=%d sched=%s work=%s viol=%s harness=%v", r.Steps, r.SchedHash, r.WorkHash, v, r.Harness != "")
						if old, ok := ref[r.Seed]; !ok {
							ref[r.Seed] = sig
						} else if old != sig {
							bad++
							fmt.Printf("DIVERGENCE %s/%s variant=%s seed=%d (%s):\n   %s\n   %s\n", prop, sc.Name, variant, r.Seed, label, old, sig)
						}
					}
					mu.Unlock()
					done := len(wo.results)
					if wo.exit == "" {
						done++
					}
					if done >= len(rest) || done == 0 {
						break
					}
					rest = rest[done:]
				}
			}
			// batch forward, batch reversed, singles
			rev := append([]uint64(nil), seeds...)
			for i, j := 0, len(rev)-1; i < j; i, j = i+1, j-1 {
				rev[i], rev[j] = rev[j], rev[i]
			}
			for _, set := range []struct {
				l string
				s []uint64
			}{{"batch", seeds}, {"reversed-batch", rev}} {
				wg.Add(1)
				sem <- struct{}{}
				go runSet(set.l, set.s)
			}
			wg.Wait()
			for _, sd := range seeds {
				wg.Add(1)
				sem <- struct{}{}
				go runSet("single", []uint64{sd})
			}
			wg.Wait()
			fmt.Printf("det %s/%s variant=%s: %d seeds x 3 executions, divergences so far %d\n", prop, sc.Name, variant, len(seeds), bad)
		}
	}
	if bad > 0 {
		return 1
	}
	return 0
}

func main() {
	if len(os.Args) < 2 {
		die(2, "usage: vcheck build|list|check <ID> [--tier quick|thorough] [--replay f] [--runs n] [--scen name]")
	}
	os.MkdirAll(filepath.Join(cache, "tmp"), 0o755)
	switch os.Args[1] {
	case "build":
		var wg sync.WaitGroup
		var errs []error
		var mu sync.Mutex
		for v := range variants {
			wg.Add(1)
			go func() {
				defer wg.Done()
				if _, err := ensureBuild(v); err != nil {
					mu.Lock()
					errs = append(errs, err)
					mu.Unlock()
				}
			}()
		}
		wg.Wait()
		if len(errs) > 0 {
			die(2, "%v", errors.Join(errs...))
		}
	case "list":
		bin, err := ensureBuild("stock")
		if err != nil {
			die(2, "%v", err)
		}
		rows, err := listScenarios(bin)
		if err != nil {
			die(2, "%v", err)
		}
		for _, r := range rows {
			fmt.Printf("%s %-24s variants=%v quick=%d thorough=%d\n", r.Prop, r.Name, r.Variants, r.Quick, r.Thorough)
		}
	case "det":
		// determinism self-test: every seed is executed in several fresh processes, alone and inside
		// batches, at different GOMAXPROCS; schedule hash, step count and verdict must coincide.
		if len(os.Args) < 3 {
			die(2, "det needs a property id")
		}
		prop := os.Args[2]
		n := 40
		if len(os.Args) > 3 {
			n, _ = strconv.Atoi(os.Args[3])
		}
		os.Exit(detTest(prop, n))
	case "check":
		if len(os.Args) < 3 {
			die(2, "check needs a property id")
		}
		prop := os.Args[2]
		tier := envOr("VERIF_TIER", "quick")
		replay, scen := "", ""
		runs := 0
		for i := 3; i < len(os.Args); i++ {
			switch os.Args[i] {
			case "--tier":
				i++
				tier = os.Args[i]
			case "--replay":
				i++
				replay = os.Args[i]
			case "--scen":
				i++
				scen = os.Args[i]
			case "--runs":
				i++
				runs, _ = strconv.Atoi(os.Args[i])
			}
		}
		os.Exit(check(prop, tier, replay, scen, runs))
	default:
		die(2, "unknown command %s", os.Args[1])
	}
}

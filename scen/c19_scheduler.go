package scen

// C19 (single-node part): the message scheduler. The real scheduler of the
// actor system (go-quartz, instrumented copy) runs on the fake clock; 1-3
// driver threads issue at most 12 ScheduleOnce / Schedule / ScheduleWithCron /
// PauseSchedule / ResumeSchedule / CancelSchedule calls with delays from a grid
// and waits that aim at the fire instants (-1 ns, 0, +1 ns). Target probes have
// instantaneous handlers, so the fake time at which a probe sees a scheduled
// message is the instant the job fired.
//
// Every reference is operated by the thread that created it (the scheduler
// serialises all calls behind one mutex anyway; what is explored is the order
// of calls against the quartz execution loop and the job goroutines).
//
// The cluster-wide clause of C19 (a cron tick claimed by one node only) is not
// part of this scenario.

import (
	"fmt"
	"sort"
	"time"

	"github.com/tochemey/goakt/v4/actor"
)

// schedMsg is the scheduled payload: ID names the schedule instance.
type schedMsg struct{ ID int }

type c19Op struct {
	Idx     int
	Thread  int
	API     string // ScheduleOnce, Schedule, ScheduleWithCron, PauseSchedule, ResumeSchedule, CancelSchedule
	Ref     string
	Inst    int // schedule instance the call creates / targets; -1 = reference that was never scheduled
	CallSeq int
	RetSeq  int
	CallT   time.Duration
	RetT    time.Duration
	Err     error
}

func (o *c19Op) String() string {
	return fmt.Sprintf("[%d thr%d %s(%s) call@%v ret@%v err=%v]", o.Idx, o.Thread, o.API, o.Ref, o.CallT, o.RetT, o.Err)
}

type c19Del struct {
	Seq int
	T   time.Duration
}

type c19Inst struct {
	ID     int
	Kind   string // once, every, cron
	Ref    string
	D      time.Duration // delay, interval or cron period
	Target string
	Ops    []*c19Op // first is the creating call; then the control calls in the owner's program order
	Dels   []c19Del
	// harness-side prediction of the fire grid (only used to aim waits)
	anchor time.Duration
	live   bool
	paused bool
}

type c19State struct {
	s      *Sys
	insts  []*c19Inst
	ops    []*c19Op
	endSeq int
	endT   time.Duration
	base   int64 // wall-clock nanoseconds at simulated time 0
}

func (st *c19State) call(o *c19Op, f func() error) error {
	o.Idx = len(st.ops)
	st.ops = append(st.ops, o)
	st.s.C.Ops++
	o.CallSeq = st.s.Ev(Ev{Kind: "op-call", Tag: o.Idx, From: o.Thread, Aux: o.API + ":" + o.Ref})
	o.CallT = Now()
	err := f()
	o.Err = err
	o.RetT = Now()
	o.RetSeq = st.s.Ev(Ev{Kind: "op-ret", Tag: o.Idx, From: o.Thread, Aux: err})
	return err
}

func c19Run(c *Ctx) {
	s := StartSys(c, "c19", sysOpts(c)...)
	st := &c19State{s: s}
	st.base = time.Now().UnixNano() - int64(Now())
	c.state = st
	withCron := c.W.Draw(4) == 3
	unit := time.Millisecond
	if withCron {
		// cron ticks are whole seconds: stretch everything else so that a run of a
		// few simulated seconds does not carry thousands of interval deliveries
		unit = 250 * time.Millisecond
	}
	c.Note("cron", withCron)
	ntarget := 1 + c.W.Draw(2)
	var pids []*actor.PID
	for i := 0; i < ntarget; i++ {
		name := fmt.Sprintf("t%d", i)
		p := s.NewProbe(name)
		p.OnUnknown = func(rc *actor.ReceiveContext, p *Probe) {
			if m, ok := rc.Message().(*schedMsg); ok {
				seq := s.Ev(Ev{Actor: p.Name, Inc: p.Inc, Kind: "sched-recv", Tag: m.ID})
				if m.ID >= 0 && m.ID < len(st.insts) {
					in := st.insts[m.ID]
					in.Dels = append(in.Dels, c19Del{Seq: seq, T: s.Log[seq].T})
				}
				return
			}
			rc.Unhandled()
		}
		pid, err := s.Sys.Spawn(s.Ctx, name, p, actor.WithLongLived())
		if err != nil {
			c.Fail("spawn-failed", name, "%v", err)
			return
		}
		pids = append(pids, pid)
	}
	nthr := 1 + c.W.Draw(3)
	c.Note("threads", nthr)
	refSeq := 0
	var fns []func()
	for t := 0; t < nthr; t++ {
		nops := 1 + c.W.Draw(4)
		fns = append(fns, func() {
			var mine []*c19Inst
			var freeRefs []string // cancelled references of this thread (may be scheduled again)
			newInst := func(kind string) *c19Inst {
				in := &c19Inst{ID: len(st.insts), Kind: kind}
				if len(freeRefs) > 0 && c.W.Draw(4) == 3 {
					in.Ref = freeRefs[0]
					freeRefs = freeRefs[1:]
					c.Probe("reference-reused-after-cancel")
				} else {
					in.Ref = fmt.Sprintf("r%d", refSeq)
					refSeq++
				}
				ti := c.W.Draw(len(pids))
				in.Target = pids[ti].Name()
				st.insts = append(st.insts, in)
				mine = append(mine, in)
				msg := &schedMsg{ID: in.ID}
				op := &c19Op{Thread: t, Ref: in.Ref, Inst: in.ID}
				in.Ops = append(in.Ops, op)
				extra := time.Duration(0)
				if c.W.Draw(6) == 5 {
					extra = time.Duration(1 + c.W.Draw(2)) // delays that are not a multiple of the wait grid
				}
				switch kind {
				case "once":
					in.D = time.Duration([]int{1, 2, 5, 3}[c.W.Draw(4)])*unit + extra
					op.API = "ScheduleOnce"
					st.call(op, func() error {
						return s.Sys.ScheduleOnce(s.Ctx, msg, pids[ti], in.D, actor.WithReference(in.Ref))
					})
				case "every":
					in.D = time.Duration([]int{2, 1, 3, 5}[c.W.Draw(4)])*unit + extra
					op.API = "Schedule"
					st.call(op, func() error {
						return s.Sys.Schedule(s.Ctx, msg, pids[ti], in.D, actor.WithReference(in.Ref))
					})
				case "cron":
					in.D = time.Second
					op.API = "ScheduleWithCron"
					st.call(op, func() error {
						return s.Sys.ScheduleWithCron(s.Ctx, msg, pids[ti], "* * * * * *", actor.WithReference(in.Ref))
					})
				}
				in.anchor, in.live = op.RetT, op.Err == nil
				if in.live && kind != "once" && c.W.Draw(6) == 5 {
					// the same call again while the reference is live: it must be rejected, and the
					// rejection must leave the live schedule and its reference untouched (everything
					// that follows - deliveries, pause, resume, cancel - is judged as if it had not
					// been made)
					c.Probe("duplicate-reference-call")
					dup := &c19Op{Thread: t, API: op.API, Ref: in.Ref, Inst: -2}
					st.call(dup, func() error {
						if kind == "cron" {
							return s.Sys.ScheduleWithCron(s.Ctx, msg, pids[ti], "* * * * * *", actor.WithReference(in.Ref))
						}
						return s.Sys.Schedule(s.Ctx, msg, pids[ti], in.D, actor.WithReference(in.Ref))
					})
					if dup.Err == nil {
						c.Fail("duplicate-reference-accepted", op.API, "%s with reference %q returned nil while a schedule with that reference was live", op.API, in.Ref)
					}
				}
				return in
			}
			control := func(api string, in *c19Inst, ref string) *c19Op {
				op := &c19Op{Thread: t, API: api, Ref: ref, Inst: -1}
				if in != nil {
					op.Inst = in.ID
					in.Ops = append(in.Ops, op)
				}
				st.call(op, func() error {
					switch api {
					case "PauseSchedule":
						return s.Sys.PauseSchedule(ref)
					case "ResumeSchedule":
						return s.Sys.ResumeSchedule(ref)
					default:
						return s.Sys.CancelSchedule(ref)
					}
				})
				return op
			}
			for k := 0; k < nops; k++ {
				choice := c.W.Draw(9)
				if len(mine) == 0 && choice >= 3 && choice <= 5 {
					choice = 0
				}
				switch choice {
				case 0:
					newInst("every")
				case 1:
					if withCron {
						newInst("cron")
					} else {
						newInst("every")
					}
				case 2:
					newInst("once")
				case 3, 4, 5:
					api := []string{"PauseSchedule", "ResumeSchedule", "CancelSchedule"}[choice-3]
					// most of the time the call fits the state the harness believes the schedule is in
					// (pause a live one, resume a paused one); otherwise any schedule of this thread
					var fit []*c19Inst
					for _, x := range mine {
						if (api == "ResumeSchedule" && x.paused) || (api != "ResumeSchedule" && x.live) {
							fit = append(fit, x)
						}
					}
					if len(fit) == 0 || c.W.Draw(4) == 3 {
						fit = mine
					}
					in := fit[len(fit)-1-c.W.Draw(len(fit))]
					for _, x := range mine {
						if x.Ref == in.Ref {
							in = x // a cancelled reference that was scheduled again names the newer schedule
						}
					}
					op := control(api, in, in.Ref)
					if op.Err == nil {
						switch api {
						case "PauseSchedule":
							in.live, in.paused = false, true
						case "ResumeSchedule":
							in.live, in.paused, in.anchor = true, false, op.RetT
						case "CancelSchedule":
							in.live, in.paused = false, false
							freeRefs = append(freeRefs, in.Ref)
						}
					}
				case 6:
					if withCron {
						newInst("cron")
					} else {
						newInst("every")
					}
				case 7:
					// a reference nobody ever scheduled
					api := []string{"CancelSchedule", "PauseSchedule", "ResumeSchedule"}[c.W.Draw(3)]
					control(api, nil, fmt.Sprintf("unknown-%d-%d", t, k))
				case 8:
					// second cancel / pause / resume of a reference this thread cancelled
					if len(freeRefs) == 0 {
						newInst("once")
						break
					}
					var in *c19Inst
					for _, x := range mine {
						if x.Ref == freeRefs[0] {
							in = x // the latest instance of that reference
						}
					}
					api := []string{"CancelSchedule", "PauseSchedule", "ResumeSchedule"}[c.W.Draw(3)]
					control(api, in, freeRefs[0])
				}
				// wait before the next call
				switch c.W.Draw(5) {
				case 0:
				case 1:
					Sleep(time.Duration(1+c.W.Draw(4)) * unit)
				case 2, 3:
					// aim at the next predicted fire instant of one of this thread's schedules
					var cand []*c19Inst
					for _, in := range mine {
						if in.live {
							cand = append(cand, in)
						}
					}
					if len(cand) == 0 {
						Sleep(unit)
						break
					}
					in := cand[c.W.Draw(len(cand))]
					now := Now()
					var target time.Duration
					switch in.Kind {
					case "cron":
						w := st.base + int64(now)
						target = now + time.Duration(int64(time.Second)-w%int64(time.Second))
					case "once":
						target = in.anchor + in.D
					default:
						n := (now-in.anchor)/in.D + 1
						target = in.anchor + n*in.D
					}
					target += time.Duration(c.W.Draw(3) - 1)
					if target > now {
						c.Probe("wait-aimed-at-fire-instant")
						Sleep(target - now)
					} else {
						Sleep(unit)
					}
				case 4:
					Sleep(time.Duration(1 + c.W.Draw(2)))
				}
			}
		})
	}
	Join(fns...)
	// let every pending fire happen: the longest delay is 5 units (+2 ns)
	Sleep(6*unit + time.Duration(c.W.Draw(3))*unit)
	st.endT = Now()
	st.endSeq = s.Ev(Ev{Kind: "end"})
	// Stop the system at an instant at which no schedule fires, so that the quartz
	// loop is blocked in its select when the scheduler is cleared and cancelled.
	// (Harness limit: with the loop busy, its next select finds both the interrupt
	// and the cancelled context ready, and which of two ready cases a select takes
	// turned out not to be reproducible across executions. What happens after the
	// end marker is not evaluated by the oracle.)
	for d := time.Duration(1); d < 64; d++ {
		t := Now() + d
		clash := false
		for _, in := range st.insts {
			if !in.live {
				continue
			}
			switch in.Kind {
			case "cron":
				clash = clash || (st.base+int64(t))%int64(time.Second) == 0
			case "once":
				clash = clash || t == in.anchor+in.D
			default:
				clash = clash || (t > in.anchor && (t-in.anchor)%in.D == 0)
			}
		}
		if !clash {
			Sleep(d)
			break
		}
	}
	_ = s.Stop()
}

// ---- oracle

type c19Period struct {
	start   *c19Op
	resumed bool
	end     *c19Op // nil: open until the end of the run
	dels    []c19Del
}

func (st *c19State) apiOf(in *c19Inst) string { return in.Ops[0].API }

func c19Finish(c *Ctx) {
	st, _ := c.state.(*c19State)
	if st == nil || st.endSeq == 0 {
		return
	}
	hist := func(in *c19Inst) string {
		s := fmt.Sprintf("schedule #%d %s ref=%s d=%v target=%s ops:", in.ID, in.Kind, in.Ref, in.D, in.Target)
		for _, o := range in.Ops {
			s += " " + o.String()
		}
		s += " deliveries:"
		for _, d := range in.Dels {
			s += fmt.Sprintf(" #%d@%v", d.Seq, d.T)
		}
		return s + fmt.Sprintf(" end@%v(#%d)", st.endT, st.endSeq)
	}
	// calls on references that were never scheduled must fail
	for _, o := range st.ops {
		if o.Inst == -1 && o.Err == nil {
			c.Fail("unknown-reference-accepted", o.API, "%s returned nil for reference %q which was never scheduled", o.API, o.Ref)
			return
		}
	}
	for _, in := range st.insts {
		create := in.Ops[0]
		api := st.apiOf(in)
		if create.Err != nil {
			c.Probe("schedule-call-error")
			continue
		}
		// deliveries after the run's end marker belong to system stop, not to this property
		var dels []c19Del
		for _, d := range in.Dels {
			if d.Seq < st.endSeq {
				dels = append(dels, d)
			}
		}
		sort.Slice(dels, func(i, j int) bool { return dels[i].Seq < dels[j].Seq })
		// walk the owner's calls: active periods and the reference's state
		state := "active"
		periods := []*c19Period{{start: create}}
		cur := periods[0]
		var pauseOK, resumeOK, cancelOK *c19Op
		for _, o := range in.Ops[1:] {
			switch o.API {
			case "PauseSchedule":
				if o.Err == nil {
					switch state {
					case "cancelled":
						c.Fail("cancelled-reference-accepted", o.API, "%s returned nil for a reference whose CancelSchedule had succeeded; %s", o.API, hist(in))
						return
					case "active":
						cur.end, cur, state = o, nil, "paused"
						if pauseOK == nil {
							pauseOK = o
						}
					}
				}
			case "ResumeSchedule":
				if o.Err == nil {
					switch state {
					case "cancelled":
						c.Fail("cancelled-reference-accepted", o.API, "%s returned nil for a reference whose CancelSchedule had succeeded; %s", o.API, hist(in))
						return
					case "paused":
						cur = &c19Period{start: o, resumed: true}
						periods = append(periods, cur)
						state = "active"
						if resumeOK == nil {
							resumeOK = o
						}
					}
				} else if state == "paused" {
					c.Fail("resume-of-paused-failed", api, "ResumeSchedule of a paused, not cancelled schedule returned %v; %s", o.Err, hist(in))
					return
				}
			case "CancelSchedule":
				if o.Err == nil {
					if state == "cancelled" {
						c.Fail("cancelled-reference-accepted", o.API, "%s returned nil for a reference whose CancelSchedule had already succeeded; %s", o.API, hist(in))
						return
					}
					if cur != nil {
						cur.end = o
					}
					cur, state = nil, "cancelled"
					if cancelOK == nil {
						cancelOK = o
					}
				} else if in.Kind != "once" && state != "cancelled" {
					// a one-shot schedule that has fired is gone (documented: "already delivered")
					c.Fail("cancel-failed", api, "CancelSchedule of a live recurring schedule returned %v; %s", o.Err, hist(in))
					return
				}
			}
		}
		// attribute deliveries to periods: the last period whose start call precedes the delivery
		for _, d := range dels {
			var p *c19Period
			for _, q := range periods {
				if q.start.CallSeq < d.Seq {
					p = q
				}
			}
			if p == nil {
				c.Fail("delivery-before-schedule", api, "delivery #%d precedes the scheduling call; %s", d.Seq, hist(in))
				return
			}
			p.dels = append(p.dels, d)
		}
		if in.Kind == "once" && len(dels) > 1 {
			c.Fail("once-delivered-twice", api, "a ScheduleOnce message was delivered %d times; %s", len(dels), hist(in))
			return
		}
		for _, p := range periods {
			// after the call that ended the period returned: only a delivery that was already in flight
			if p.end != nil {
				late := 0
				for _, d := range p.dels {
					if d.Seq > p.end.RetSeq {
						late++
						class := "delivery-after-cancel"
						if p.end.API == "PauseSchedule" {
							class = "delivery-while-paused"
						}
						if d.T > p.end.RetT {
							c.Fail(class, api, "delivery #%d at %v: its fire instant is later than the return of %s (%v), it was not in flight; %s", d.Seq, d.T, p.end.API, p.end.RetT, hist(in))
							return
						}
						if late > 1 {
							c.Fail(class, api, "%d deliveries after %s returned; %s", late, p.end.API, hist(in))
							return
						}
						c.Probe("in-flight-delivery-after-" + p.end.API)
					}
				}
			}
			endCallT := st.endT
			if p.end != nil {
				endCallT = p.end.CallT
			}
			switch in.Kind {
			case "once":
				if len(p.dels) > 0 {
					d := p.dels[0]
					if d.T < create.CallT+in.D {
						c.Fail("once-early", api, "delivered at %v, before the delay %v counted from the call (%v) had elapsed; %s", d.T, in.D, create.CallT, hist(in))
						return
					}
				}
				if !p.resumed && len(dels) == 0 && create.RetT+in.D < endCallT && pauseOK == nil && cancelOK == nil {
					c.Fail("once-not-delivered", api, "never delivered although neither paused nor cancelled and %v remained after the delay; %s", st.endT-create.RetT-in.D, hist(in))
					return
				}
				if !p.resumed && len(dels) == 0 && create.RetT+in.D < endCallT && (pauseOK == nil || pauseOK.CallT > create.RetT+in.D) && (cancelOK == nil || cancelOK.CallT > create.RetT+in.D) {
					c.Fail("once-not-delivered", api, "never delivered although the delay had elapsed before the first successful pause/cancel call began; %s", hist(in))
					return
				}
				if p.resumed && len(dels) == 0 && p.start.RetT+in.D < endCallT {
					c.Fail("once-not-delivered", api, "a paused one-shot schedule was resumed successfully and still not delivered %v later; %s", endCallT-p.start.RetT, hist(in))
					return
				}
			case "every":
				for j, d := range p.dels {
					switch {
					case j == 0 && !p.resumed:
						if t0 := d.T - in.D; t0 < p.start.CallT || t0 > p.start.RetT {
							c.Fail("first-delivery-off-interval", api, "first delivery at %v, the call was made at %v..%v and the interval is %v; %s", d.T, p.start.CallT, p.start.RetT, in.D, hist(in))
							return
						}
					case j == 0:
						if d.T < p.start.CallT || d.T > p.start.RetT+in.D {
							c.Fail("resume-first-delivery-off", api, "first delivery after ResumeSchedule (%v..%v) at %v, interval %v; %s", p.start.CallT, p.start.RetT, d.T, in.D, hist(in))
							return
						}
					default:
						if gap := d.T - p.dels[j-1].T; gap != in.D {
							c.Fail("interval-violated", api, "consecutive deliveries %v apart, interval %v; %s", gap, in.D, hist(in))
							return
						}
					}
				}
				next := p.start.RetT + in.D
				if n := len(p.dels); n > 0 {
					next = p.dels[n-1].T + in.D
				}
				if next < endCallT {
					c.Fail("delivery-missing", api, "schedule active until %v but no delivery at %v; %s", endCallT, next, hist(in))
					return
				}
				c.Probes["interval-deliveries"] += len(p.dels)
			case "cron":
				seen := map[int64]bool{}
				for _, d := range p.dels {
					w := st.base + int64(d.T)
					if w%int64(in.D) != 0 {
						c.Fail("cron-off-tick", api, "delivery at %v is not on a tick of the expression; %s", d.T, hist(in))
						return
					}
					if seen[w] {
						c.Fail("cron-tick-twice", api, "tick at %v delivered twice on one node; %s", d.T, hist(in))
						return
					}
					seen[w] = true
				}
				// ticks strictly inside the active period are due
				first := st.base + int64(p.start.RetT)
				first += int64(in.D) - first%int64(in.D)
				for w := first; w < st.base+int64(endCallT); w += int64(in.D) {
					if !seen[w] {
						c.Fail("cron-tick-missing", api, "no delivery for the tick at %v although the schedule was active from %v to %v; %s", time.Duration(w-st.base), p.start.RetT, endCallT, hist(in))
						return
					}
				}
				c.Probes["cron-deliveries"] += len(p.dels)
			}
		}
		if in.Kind == "once" && len(dels) == 1 {
			c.Probe("once-delivered")
		}
	}
}

func init() {
	Register(&Scenario{Prop: "C19", Name: "sched-local", Variants: []string{"stock"}, Quick: 3000, Thorough: 300000,
		EstSteps: 4000, MaxSteps: 600000, MaxIdle: time.Hour, Real: sysReal, Stub: sysStub, Run: c19Run, Finish: c19Finish})
}

package scen

import (
	"time"

	"github.com/tochemey/goakt/v4/actor"
)

// C05 — the dispatcher ready queue neither loses nor duplicates a scheduled
// actor, parks no worker while work is queued, and lets every worker exit on
// close (engine B: the real readyQueue driven by harness worker threads).

func c05Run(c *Ctx) {
	p := actor.VerifRQParams{Workers: 2 + c.W.Draw(2), Producers: 1 + c.W.Draw(3), PerProducer: 1 + c.W.Draw(5)}
	n := p.Producers * p.PerProducer
	for i := 0; i < n; i++ {
		p.Repush = append(p.Repush, c.W.Draw(3))
		p.Long = append(p.Long, c.W.Draw(3) == 2)
	}
	lcap := actor.VerifLocalQueueCap()
	for w := 0; w < p.Workers; w++ {
		b := 0
		switch c.W.Draw(4) {
		case 2:
			b = 1 + c.W.Draw(3)
		case 3:
			if lcap <= 8 {
				b = lcap + c.W.Draw(4) // overflows the local ring into the global ring
			} else {
				b = 2 + c.W.Draw(6)
			}
		}
		p.Burst = append(p.Burst, b)
	}
	p.CloseEarly = c.W.Draw(8) == 7
	// ring cursors start at a drawn offset, biased towards the physical end of the buffer
	// (index 0 = the fresh ring, the simplest choice)
	for w := 0; w <= p.Workers; w++ {
		off := 0
		switch c.W.Draw(4) {
		case 1:
			off = lcap - 1 - c.W.Draw(min(lcap, 6))
		case 2:
			off = c.W.Draw(lcap)
		case 3:
			off = lcap - 1
		}
		p.Rotate = append(p.Rotate, off)
	}
	c.Note("params", p)
	c.Note("local_queue_cap", lcap)
	c.Note("global_queue_initial_cap", actor.VerifGlobalQueueInitCap())
	v := &actor.VerifRQ{}
	c.state = v
	v.Run(p)
	c.Ops = v.Pushed
	if class, detail := v.Check(p.CloseEarly); class != "" {
		c.Fail(class, "readyQueue", "%s", detail)
	}
}

func init() {
	Register(&Scenario{
		Prop: "C05", Name: "ready-queue", Variants: []string{"stock", "small"},
		Quick: 30000, Thorough: 1500000, EstSteps: 300, MaxSteps: 200000, MaxIdle: 10 * time.Second,
		StuckClass: "workers-stuck",
		Real:       []string{"actor.readyQueue (local rings, global ring, steal, park/wake, close)"},
		Stub:       []string{"schedulables are numbered dummy items; workers are harness threads running the real take loop"},
		Run:        c05Run,
		OnIdle: func(c *Ctx) {
			if v, ok := c.state.(*actor.VerifRQ); ok && v != nil {
				if class, detail := v.Idle(); class != "" {
					c.Fail(class, "readyQueue", "%s", detail)
				}
			}
		},
	})
}

package scen

// C16 (actor requester whose default mode is Off) — stash-mode exclusion holds for
// a blocking request admitted through a per-call WithReentrancyMode override, and
// across a DisableReentrancy() issued while a blocking request is in flight
// ("requests already in flight keep the mode they were admitted with").
//
// One requester probe spawned WithReentrancy(Off) (or StashNonReentrant and later
// disabled from a handler), one replying target (reply after 1–3 ms of work, or
// never: the request timeout completes it), 2–3 driver threads telling ordinary
// commands meanwhile. Oracle: no command is handled between the admission of a
// blocking request and its continuation (stash-exclusion-violated); at quiescence
// every request has completed, every accepted command was handled and both
// counters are zero.

import (
	"fmt"
	"time"

	"github.com/tochemey/goakt/v4/actor"
	"github.com/tochemey/goakt/v4/reentrancy"
)

type c16oReq struct {
	tag               int
	admitSeq, doneSeq int
	done              int
}

type c16oState struct {
	s    *Sys
	reqs []*c16oReq
	q    *actor.PID
}

func c16oRun(c *Ctx) {
	s := StartSys(c, "c16o", sysOpts(c)...)
	st := &c16oState{s: s}
	c.state = st
	Sleep(time.Millisecond)
	_, tpid, err := s.Spawn("t0", actor.WithLongLived())
	if err != nil {
		c.Fail("spawn-failed", "t0", "%v", err)
		return
	}
	startMode := reentrancy.Off
	if c.W.Draw(2) == 1 {
		startMode = reentrancy.StashNonReentrant // disabled mid-flight below
	}
	c.Comp = "default-" + c16Mode(startMode)
	_, qpid, err := s.Spawn("q0", actor.WithLongLived(), actor.WithReentrancy(reentrancy.New(reentrancy.WithMode(startMode))))
	if err != nil {
		c.Fail("spawn-failed", "q0", "%v", err)
		return
	}
	st.q = qpid
	issue := func(work, timeout time.Duration, reply, disable bool) Op {
		tag := c.Seq()
		return Op{K: OpFunc, F: func(rc *actor.ReceiveContext, p *Probe) {
			ops := []Op{{K: OpWork, D: work}}
			if reply {
				ops = append(ops, Op{K: OpRespond})
			}
			r := &c16oReq{tag: tag, admitSeq: -1}
			s.Ev(Ev{Actor: "q0", Kind: "req-issue", Tag: tag, Aux: fmt.Sprintf("work=%v timeout=%v reply=%v", work, timeout, reply)})
			call := rc.Request(tpid, &Cmd{Tag: tag, From: 100, Ops: ops}, actor.WithReentrancyMode(reentrancy.StashNonReentrant), actor.WithRequestTimeout(timeout))
			rc.Err(nil)
			if call == nil {
				s.Ev(Ev{Actor: "q0", Kind: "req-rejected", Tag: tag})
				return
			}
			st.reqs = append(st.reqs, r)
			r.admitSeq = s.Ev(Ev{Actor: "q0", Kind: "req-admitted", Tag: tag})
			call.Then(func(any, error) {
				r.done++
				r.doneSeq = s.Ev(Ev{Actor: "q0", Kind: "req-done", Tag: tag})
			})
			if disable {
				c.Fault("disable-reentrancy")
				s.Ev(Ev{Actor: "q0", Kind: "disable-reentrancy", Tag: tag})
				rc.DisableReentrancy()
			}
		}}
	}
	nthreads := 2 + c.W.Draw(2)
	var fns []func()
	for t := 0; t < nthreads; t++ {
		n := 3 + c.W.Draw(4)
		fns = append(fns, func() {
			for k := 0; k < n; k++ {
				cmd := &Cmd{Tag: c.Seq(), From: t, Seq: k}
				if c.W.Draw(3) == 0 {
					work := c15Grid[c.W.Draw(len(c15Grid))]
					timeout := work + time.Duration(c.W.Draw(3)-1) + time.Duration(c.W.Draw(2))*time.Millisecond
					cmd.Ops = []Op{issue(work, timeout, c.W.Draw(4) != 1, startMode != reentrancy.Off && c.W.Draw(2) == 1)}
				}
				_ = s.Tell(qpid, cmd)
				if c.W.Draw(3) == 1 {
					Sleep(time.Millisecond + time.Duration(c.W.Draw(3)-1))
				}
			}
		})
	}
	Join(fns...)
	last := -1
	WaitUntil(25*time.Millisecond, 2*time.Second, func() bool {
		n := len(s.Log)
		quiet := n == last
		last = n
		return quiet
	})
	handled := map[int]bool{}
	for _, e := range s.Log {
		if e.Kind == "recv-enter" {
			handled[e.Tag] = true
		}
	}
	for _, r := range st.reqs {
		if r.done != 1 {
			c.Fail("request-completions", c.Comp, "request tag %d completed %d times by quiescence; log tail: %s", r.tag, r.done, s.Tail(14))
			return
		}
	}
	for _, e := range s.Log {
		if e.Kind == "tell-ok" && e.Actor == "q0" && !handled[e.Tag] {
			c.Fail("request-held-message-lost", c.Comp, "command tag %d accepted by q0 (event #%d) was never handled; log tail: %s", e.Tag, e.Seq, s.Tail(14))
			return
		}
	}
	if in, bl, ok := actor.VerifReentrancyCounters(qpid); ok && (in != 0 || bl != 0) {
		c.Fail("inflight-counters-wrong", c.Comp, "q0 has inFlightCount=%d blockingCount=%d at quiescence; log tail: %s", in, bl, s.Tail(14))
	}
	_ = s.Stop()
}

func c16oFinish(c *Ctx) {
	st, _ := c.state.(*c16oState)
	if st == nil {
		return
	}
	log := st.s.Log
	for _, r := range st.reqs {
		to := len(log)
		if r.done > 0 {
			to = r.doneSeq
		}
		for _, e := range log[r.admitSeq:to] {
			if e.Kind == "recv-enter" && e.Actor == "q0" {
				c.Fail("stash-exclusion-violated", c.Comp, "q0 handled command tag %d (event #%d) while its blocking request tag %d was outstanding (admitted #%d, done #%d); log: %s", e.Tag, e.Seq, r.tag, r.admitSeq, r.doneSeq, c16Around(log, e.Seq))
				return
			}
		}
	}
}

func init() {
	Register(&Scenario{Prop: "C16", Name: "off-override", Variants: []string{"stock"}, Quick: 1000, Thorough: 100000,
		EstSteps: 2500, MaxSteps: 400000, MaxIdle: time.Hour, Real: sysReal, Stub: sysStub, Run: c16oRun, Finish: c16oFinish})
}

package scen

// Engine C: a real single-node actor system driven by scripted probe actors.
// Probes interpret command messages and append to one event log; oracles are
// functions over that log plus online checks made by the probes themselves.

import (
	"context"
	"errors"
	"fmt"
	"strings"
	"time"

	"github.com/tochemey/goakt/v4/actor"
	"github.com/tochemey/goakt/v4/log"
	"github.com/tochemey/goakt/v4/zzverif/simrt"
)

// OpKind is an instruction a probe executes while handling a Cmd.
type OpKind int

const (
	OpWork           OpKind = iota // sleep D of simulated time inside the handler
	OpYield                        // N scheduling points inside the handler
	OpPanic                        // panic(errors of kind N)
	OpErr                          // ctx.Err(error of kind N)
	OpRespond                      // ctx.Response(&Reply{Tag})
	OpStash                        // ctx.Stash()
	OpUnstash                      // ctx.Unstash()
	OpUnstashAll                   // ctx.UnstashAll()
	OpBecome                       // ctx.Become(behaviour N)
	OpBecomeStacked                // ctx.BecomeStacked(behaviour N)
	OpUnBecome                     // ctx.UnBecome()
	OpUnBecomeStacked              // ctx.UnBecomeStacked()
	OpUnhandled                    // ctx.Unhandled()
	OpShutdown                     // ctx.Shutdown()
	OpTell                         // ctx.Tell(To, Msg)
	OpStopChild                    // ctx.Stop(child S)
	OpWatch                        // ctx.Watch(To)
	OpUnwatch                      // ctx.UnWatch(To)
	OpFunc                         // F(ctx, probe): anything else
)

type Op struct {
	K   OpKind
	N   int
	D   time.Duration
	S   string
	To  *actor.PID
	Msg any
	F   func(rc *actor.ReceiveContext, p *Probe)
}

// Cmd is the message probes understand.
type Cmd struct {
	Tag  int // unique per run
	From int // sending driver thread
	Seq  int // per (From, receiver) sequence number
	Ops  []Op
}

// Reply is what OpRespond answers with.
type Reply struct {
	Tag  int
	From string // responding probe
	Inc  int
}

// error kinds for supervision scenarios
type ErrA struct{ N int }
type ErrB struct{ N int }
type ErrC struct{ N int }

func (e *ErrA) Error() string { return fmt.Sprintf("ErrA(%d)", e.N) }
func (e *ErrB) Error() string { return fmt.Sprintf("ErrB(%d)", e.N) }
func (e *ErrC) Error() string { return fmt.Sprintf("ErrC(%d)", e.N) }

func mkErr(kind, n int) error {
	switch kind {
	case 0:
		return &ErrA{n}
	case 1:
		return &ErrB{n}
	default:
		return &ErrC{n}
	}
}

// Ev is one entry of the event log.
type Ev struct {
	Seq   int
	T     time.Duration // simulated time
	G     string        // deterministic id of the goroutine that produced it
	Actor string
	Inc   int // incarnation (number of PreStart runs of that probe instance)
	Kind  string
	Tag   int
	From  int
	MSeq  int
	Beh   int
	Aux   any
}

func (e Ev) String() string {
	return fmt.Sprintf("#%d t=%v g=%s %s/%d %s tag=%d from=%d seq=%d beh=%d %v", e.Seq, e.T, e.G, e.Actor, e.Inc, e.Kind, e.Tag, e.From, e.MSeq, e.Beh, e.Aux)
}

// Sys wraps the actor system of a run.
type Sys struct {
	C      *Ctx
	Ctx    context.Context
	Sys    actor.ActorSystem
	Log    []Ev
	Probes map[string]*Probe
	Stopped bool
	// CheckLifecycle enables the probes' online PostStop/Receive overlap check
	// (only the lifecycle scenarios own that property).
	CheckLifecycle bool
	shared         *Sys // when set, events go to that system's log (multi-node runs share one totally ordered log)
}

// StartSys creates and starts an actor system with the discard logger.
func StartSys(c *Ctx, name string, opts ...actor.Option) *Sys {
	s := &Sys{C: c, Ctx: context.Background(), Probes: map[string]*Probe{}}
	actor.VerifDrainGrainContexts() // process-level pool: a run must not depend on what ran before it in the worker
	all := append([]actor.Option{actor.WithLogger(log.DiscardLogger)}, opts...)
	sys, err := actor.NewActorSystem(name, all...)
	if err != nil {
		panic("NewActorSystem: " + err.Error())
	}
	actor.VerifSortLocalQueues(sys) // lock order of work stealing must not depend on heap addresses (determinism)
	if err := sys.Start(s.Ctx); err != nil {
		panic("ActorSystem.Start: " + err.Error())
	}
	s.Sys = sys
	return s
}

// Stop stops the system (idempotent).
func (s *Sys) Stop() error {
	if s.Stopped {
		return nil
	}
	s.Stopped = true
	return s.Sys.Stop(s.Ctx)
}

func (s *Sys) Ev(e Ev) int {
	if s.shared != nil {
		return s.shared.Ev(e)
	}
	e.Seq = len(s.Log)
	e.T = simrt.Now()
	e.G = simrt.ThreadID()
	s.Log = append(s.Log, e)
	return e.Seq
}

// Tail renders the last n log entries (for violation details).
func (s *Sys) Tail(n int) string {
	if s.shared != nil {
		return s.shared.Tail(n)
	}
	from := max(0, len(s.Log)-n)
	var b strings.Builder
	for _, e := range s.Log[from:] {
		b.WriteString(e.String())
		b.WriteString(" | ")
	}
	return b.String()
}

// Probe is the scripted actor.
type Probe struct {
	S    *Sys
	Name string
	Inc  int
	// online single-threadedness check (C01)
	inHandler string
	inStop    string
	// state that Restart must reset and Resume must keep
	Counter int
	// behaviours: index 0 is Receive itself
	PreStartErr  func(inc int) error
	PostStopErr  func(inc int) error
	OnUnknown    func(rc *actor.ReceiveContext, p *Probe) // non-Cmd user messages
	NoOverlapChk bool
	Stopped      bool
	Handled      []int // tags handled, in order (all incarnations)
}

func (s *Sys) NewProbe(name string) *Probe {
	p := &Probe{S: s, Name: name}
	s.Probes[name] = p
	return p
}

// comp names the component a probe-level violation is attributed to: the
// scenario's component (stop path, mailbox ...) when set, else the probe name.
func (p *Probe) comp() string {
	if p.S.C.Comp != "" {
		return p.S.C.Comp
	}
	return p.Name
}

func (p *Probe) PreStart(*actor.Context) error {
	p.Inc++
	p.Counter = 0
	p.Stopped = false
	p.S.Ev(Ev{Actor: p.Name, Inc: p.Inc, Kind: "prestart-enter"})
	simrt.Yield(-200)
	var err error
	if p.PreStartErr != nil {
		err = p.PreStartErr(p.Inc)
	}
	p.S.Ev(Ev{Actor: p.Name, Inc: p.Inc, Kind: "prestart-exit", Aux: err})
	return err
}

func (p *Probe) PostStop(*actor.Context) error {
	g := simrt.ThreadID()
	p.S.Ev(Ev{Actor: p.Name, Inc: p.Inc, Kind: "poststop-enter"})
	if p.S.CheckLifecycle && p.inHandler != "" && p.inHandler != g {
		p.S.C.Fail("poststop-overlaps-receive", p.comp(), "PostStop of %s/%d entered on goroutine %s while Receive is in progress on goroutine %s; log tail: %s", p.Name, p.Inc, g, p.inHandler, p.S.Tail(12))
	}
	p.inStop = g
	simrt.Yield(-201)
	simrt.Yield(-201)
	p.inStop = ""
	p.Stopped = true
	var err error
	if p.PostStopErr != nil {
		err = p.PostStopErr(p.Inc)
	}
	p.S.Ev(Ev{Actor: p.Name, Inc: p.Inc, Kind: "poststop-exit", Aux: err})
	return err
}

func (p *Probe) Receive(rc *actor.ReceiveContext) { p.handle(rc, 0) }

// Behavior returns behaviour i (i>0) of the probe.
func (p *Probe) Behavior(i int) actor.Behavior {
	return func(rc *actor.ReceiveContext) { p.handle(rc, i) }
}

func (p *Probe) handle(rc *actor.ReceiveContext, beh int) {
	g := simrt.ThreadID()
	switch m := rc.Message().(type) {
	case *actor.PostStart:
		p.S.Ev(Ev{Actor: p.Name, Inc: p.Inc, Kind: "poststart", Beh: beh})
		return
	case *actor.Terminated:
		p.S.Ev(Ev{Actor: p.Name, Inc: p.Inc, Kind: "terminated", Beh: beh, Aux: m.ActorPath().String()})
		return
	case *Cmd:
		if p.inHandler != "" {
			p.S.C.Fail("handler-overlap", p.comp(), "handler of %s/%d entered on goroutine %s (tag %d) while another invocation is in progress on goroutine %s; log tail: %s", p.Name, p.Inc, g, m.Tag, p.inHandler, p.S.Tail(12))
		}
		if p.S.CheckLifecycle && p.inStop != "" && p.inStop != g {
			p.S.C.Fail("poststop-overlaps-receive", p.comp(), "Receive of %s/%d entered on goroutine %s (tag %d) while PostStop is in progress on goroutine %s; log tail: %s", p.Name, p.Inc, g, m.Tag, p.inStop, p.S.Tail(12))
		}
		p.inHandler = g
		inc := p.Inc
		p.S.Ev(Ev{Actor: p.Name, Inc: inc, Kind: "recv-enter", Tag: m.Tag, From: m.From, MSeq: m.Seq, Beh: beh})
		p.Handled = append(p.Handled, m.Tag)
		p.Counter++
		defer func() {
			// runs also when an op panics: the handler invocation is over
			p.inHandler = ""
			p.S.Ev(Ev{Actor: p.Name, Inc: inc, Kind: "recv-exit", Tag: m.Tag, From: m.From, MSeq: m.Seq, Beh: beh})
		}()
		simrt.Yield(-202)
		for _, op := range m.Ops {
			p.exec(rc, m, op)
		}
	default:
		if p.OnUnknown != nil {
			p.OnUnknown(rc, p)
		} else {
			rc.Unhandled()
		}
	}
}

func (p *Probe) exec(rc *actor.ReceiveContext, m *Cmd, op Op) {
	switch op.K {
	case OpWork:
		simrt.Sleep(-203, op.D)
	case OpYield:
		for i := 0; i < max(op.N, 1); i++ {
			simrt.Yield(-204)
		}
	case OpPanic:
		p.S.Ev(Ev{Actor: p.Name, Inc: p.Inc, Kind: "fail", Tag: m.Tag, Aux: fmt.Sprintf("panic:%d", op.N)})
		panic(mkErr(op.N, m.Tag))
	case OpErr:
		p.S.Ev(Ev{Actor: p.Name, Inc: p.Inc, Kind: "fail", Tag: m.Tag, Aux: fmt.Sprintf("err:%d", op.N)})
		rc.Err(mkErr(op.N, m.Tag))
	case OpRespond:
		p.S.Ev(Ev{Actor: p.Name, Inc: p.Inc, Kind: "respond", Tag: m.Tag})
		rc.Response(&Reply{Tag: m.Tag, From: p.Name, Inc: p.Inc})
	case OpStash:
		p.S.Ev(Ev{Actor: p.Name, Inc: p.Inc, Kind: "stash", Tag: m.Tag})
		rc.Stash()
	case OpUnstash:
		p.S.Ev(Ev{Actor: p.Name, Inc: p.Inc, Kind: "unstash", Tag: m.Tag})
		rc.Unstash()
	case OpUnstashAll:
		p.S.Ev(Ev{Actor: p.Name, Inc: p.Inc, Kind: "unstashall", Tag: m.Tag})
		rc.UnstashAll()
	case OpBecome:
		p.S.Ev(Ev{Actor: p.Name, Inc: p.Inc, Kind: "become", Tag: m.Tag, Aux: op.N})
		rc.Become(p.Behavior(op.N))
	case OpBecomeStacked:
		p.S.Ev(Ev{Actor: p.Name, Inc: p.Inc, Kind: "becomestacked", Tag: m.Tag, Aux: op.N})
		rc.BecomeStacked(p.Behavior(op.N))
	case OpUnBecome:
		p.S.Ev(Ev{Actor: p.Name, Inc: p.Inc, Kind: "unbecome", Tag: m.Tag})
		rc.UnBecome()
	case OpUnBecomeStacked:
		p.S.Ev(Ev{Actor: p.Name, Inc: p.Inc, Kind: "unbecomestacked", Tag: m.Tag})
		rc.UnBecomeStacked()
	case OpUnhandled:
		rc.Unhandled()
	case OpShutdown:
		rc.Shutdown()
	case OpTell:
		rc.Tell(op.To, op.Msg)
	case OpStopChild:
		if ch := rc.Child(op.S); ch != nil {
			rc.Stop(ch)
		}
	case OpWatch:
		rc.Watch(op.To)
	case OpUnwatch:
		rc.UnWatch(op.To)
	case OpFunc:
		op.F(rc, p)
	}
}

// Spawn spawns a probe as a top-level actor.
func (s *Sys) Spawn(name string, opts ...actor.SpawnOption) (*Probe, *actor.PID, error) {
	p := s.NewProbe(name)
	pid, err := s.Sys.Spawn(s.Ctx, name, p, opts...)
	return p, pid, err
}

// Tell sends a Cmd from a driver thread and logs whether it was accepted.
func (s *Sys) Tell(to *actor.PID, cmd *Cmd) error {
	err := actor.Tell(s.Ctx, to, cmd)
	s.C.Ops++
	kind := "tell-ok"
	if err != nil {
		kind = "tell-err"
	}
	s.Ev(Ev{Actor: to.Name(), Kind: kind, Tag: cmd.Tag, From: cmd.From, MSeq: cmd.Seq, Aux: err})
	return err
}

// Ask sends a Cmd with actor.Ask and returns the reply.
func (s *Sys) Ask(to *actor.PID, cmd *Cmd, timeout time.Duration) (*Reply, error) {
	s.C.Ops++
	s.Ev(Ev{Actor: to.Name(), Kind: "ask-call", Tag: cmd.Tag, From: cmd.From, MSeq: cmd.Seq, Aux: timeout})
	resp, err := actor.Ask(s.Ctx, to, cmd, timeout)
	var r *Reply
	if err == nil {
		var ok bool
		if r, ok = resp.(*Reply); !ok {
			err = fmt.Errorf("unexpected reply type %T", resp)
		}
	}
	s.Ev(Ev{Actor: to.Name(), Kind: "ask-ret", Tag: cmd.Tag, From: cmd.From, MSeq: cmd.Seq, Aux: err})
	return r, err
}

// mailbox kinds usable with WithMailbox in system scenarios
type sysMailbox struct {
	Name string
	FIFO bool
	Mk   func() actor.Mailbox // nil = default
}

var sysMailboxes = []sysMailbox{
	{"default", true, nil},
	{"UnboundedMailbox", true, func() actor.Mailbox { return actor.NewUnboundedMailbox() }},
	{"UnboundedSegmentedMailbox", true, func() actor.Mailbox { return actor.NewUnboundedSegmentedMailbox() }},
	{"UnboundedFairMailbox", true, func() actor.Mailbox { return actor.NewUnboundedFairMailbox() }},
	{"NonBlockingBoundedMailbox", true, func() actor.Mailbox { return actor.NewNonBlockingBoundedMailbox(64) }},
	{"BoundedMailbox", true, func() actor.Mailbox { return actor.NewBoundedMailbox(8) }},
	{"UnboundedPriorityMailBox", false, func() actor.Mailbox {
		return actor.NewUnboundedPriorityMailBox(func(a, b any) bool { return prioOf(a) > prioOf(b) })
	}},
	{"UnboundedStablePriorityMailbox", false, func() actor.Mailbox {
		return actor.NewUnboundedStablePriorityMailbox(func(a, b any) bool { return prioOf(a) > prioOf(b) })
	}},
	{"BoundedPriorityMailbox", false, func() actor.Mailbox {
		return actor.NewBoundedPriorityMailbox(64, func(a, b any) bool { return prioOf(a) > prioOf(b) })
	}},
	{"BoundedStablePriorityMailbox", false, func() actor.Mailbox {
		return actor.NewBoundedStablePriorityMailbox(64, func(a, b any) bool { return prioOf(a) > prioOf(b) })
	}},
}

func prioOf(m any) int {
	if c, ok := m.(*Cmd); ok {
		return c.Tag % 3
	}
	return 3 // system messages first
}

// sysMailboxesStoppable leaves out BoundedMailbox: stopping or restarting an
// actor whose disposed ring buffer still holds messages leaves a dispatcher
// worker spinning on it (DESIGN.md, observations outside the listed properties).
func sysMailboxesStoppable() []sysMailbox {
	var l []sysMailbox
	for _, m := range sysMailboxes {
		if m.Name != "BoundedMailbox" {
			l = append(l, m)
		}
	}
	return l
}

func (mb sysMailbox) Opt() []actor.SpawnOption {
	if mb.Mk == nil {
		return nil
	}
	return []actor.SpawnOption{actor.WithMailbox(mb.Mk())}
}

var errTimeout = errors.New("timeout")

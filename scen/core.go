// Package scen holds the simulated scenarios (one or more per property) and the
// worker that runs them inside synctest bubbles under the simrt scheduler.
//
// Rules for scenario code (this package is NOT instrumented):
//   - start goroutines with Go, sleep with Sleep, receive with Recv / send with
//     Send, never block on a real mutex or channel directly: a goroutine the
//     scheduler does not know is blocked hangs the run;
//   - between two calls into goakt or simrt the code runs atomically with
//     respect to every other controlled goroutine, so harness state needs no
//     locks;
//   - draw every random choice from c.W (workload) or c.F (faults): 0 must be
//     the simplest choice (shrinking replaces tape entries by 0).
package scen

import (
	"encoding/json"
	"fmt"
	"hash/fnv"
	"sort"
	"time"

	"github.com/tochemey/goakt/v4/zzverif/simrt"
)

// Violation is a property violation found by an oracle.
type Violation struct {
	Class     string `json:"class"`     // stable, narrow name of what failed (used for findings and shrinking)
	Component string `json:"component"` // mailbox type, stop path, API ...
	Detail    string `json:"detail"`
}

func (v *Violation) Sig() string { return v.Class + "|" + v.Component }

// Scenario is one simulated workload + oracle for a property.
type Scenario struct {
	Prop     string
	Name     string
	Variants []string // build variants it runs under ("stock", "small"); default stock
	Quick    int      // runs in the quick tier
	Thorough int      // runs in the thorough tier
	EstSteps int
	MaxSteps int
	MaxIdle  time.Duration
	// StuckClass, when set, makes a run in which nothing is runnable for MaxIdle
	// of simulated time (or the step cap is hit) a violation of that class: the
	// property has a liveness clause. Otherwise such a run is a harness error.
	StuckClass string
	// PanicClass, when set, makes an unrecovered panic in a controlled goroutine of the
	// system under test a violation of that class (the property says "never panics");
	// otherwise such a panic is a harness error.
	PanicClass string
	Real, Stub []string
	Run        func(c *Ctx)
	OnStep     func(c *Ctx) // online invariant, evaluated at every scheduler step (scheduler goroutine: must not call goakt APIs that synchronise)
	OnIdle     func(c *Ctx) // evaluated whenever no thread is eligible
	Finish     func(c *Ctx) // oracles over the recorded history, after the run
}

var registry []*Scenario

func Register(s *Scenario) {
	if len(s.Variants) == 0 {
		s.Variants = []string{"stock"}
	}
	registry = append(registry, s)
}

// Ctx is handed to a scenario run.
type Ctx struct {
	Seed    uint64
	Variant string
	Tier    string
	W, F    *simrt.Tape
	Sim     *simrt.Sim
	Viol    *Violation
	Faults  map[string]int
	Probes  map[string]int
	Sample  map[string]any
	Ops     int // workload operations issued (for the non-triviality rule)
	seq     int
	Abort   bool
	Comp    string // component blamed when the run gets stuck
	state   any
}

// Fail records the first violation of the run.
func (c *Ctx) Fail(class, component, format string, args ...any) {
	if c.Viol == nil {
		c.Viol = &Violation{Class: class, Component: component, Detail: fmt.Sprintf(format, args...)}
	}
}

func (c *Ctx) Failed() bool { return c.Viol != nil }

// Fault counts a fault that actually fired.
func (c *Ctx) Fault(kind string) { c.Faults[kind]++ }

// Probe counts a rare branch that was reached.
func (c *Ctx) Probe(name string) { c.Probes[name]++ }

// Note stores a description of the generated case (kept in evidence samples).
func (c *Ctx) Note(k string, v any) { c.Sample[k] = v }

// Seq returns the next value of a run-global sequence (unique message tags).
func (c *Ctx) Seq() int { c.seq++; return c.seq }

// Stamp is the global event sequence number used for history timestamps: it
// is strictly increasing across calls, consistent with real-time order.
func (c *Ctx) Stamp() int64 {
	c.seq++
	return int64(c.seq)
}

// --- helpers for scenario goroutines (see the package comment)

func Go(f func())               { simrt.Go(-100, f) }
func Sleep(d time.Duration)     { simrt.Sleep(-101, d) }
func Yield()                    { simrt.Yield(-102) }
func Now() time.Duration        { return simrt.Now() }
func Recv[T any](ch <-chan T) T { return simrt.Recv(-103, ch) }
func Send[T any](ch chan<- T, v T) {
	simrt.Yield(-104)
	ch <- v
	simrt.Yield(-104)
}

// Join runs fs as controlled threads and waits for all of them.
func Join(fs ...func()) {
	done := make(chan struct{}, len(fs))
	for _, f := range fs {
		Go(func() { f(); done <- struct{}{} })
	}
	for range fs {
		Recv(done)
	}
}

// CallTimeout runs f on its own controlled thread and waits at most d of
// simulated time for it; false means f has not returned (it keeps running).
func CallTimeout(d time.Duration, f func()) bool {
	done := false
	Go(func() { f(); done = true })
	return WaitUntil(time.Millisecond, d, func() bool { return done })
}

// WaitUntil polls cond every step of simulated time until it holds or max elapses.
func WaitUntil(step, max time.Duration, cond func() bool) bool {
	for waited := time.Duration(0); ; waited += step {
		if cond() {
			return true
		}
		if waited >= max {
			return false
		}
		Sleep(step)
	}
}

// RunResult is what the worker reports for one run.
type RunResult struct {
	Prop      string           `json:"prop"`
	Scen      string           `json:"scen"`
	Variant   string           `json:"variant"`
	Seed      uint64           `json:"seed"`
	Strategy  string           `json:"strategy"`
	Steps     int              `json:"steps"`
	SimNs     int64            `json:"sim_ns"`
	Switches  int              `json:"switches"`
	Ops       int              `json:"ops"`
	SchedHash string           `json:"sched_hash"`
	WorkHash  string           `json:"work_hash"`
	FaultHash string           `json:"fault_hash"`
	Faults    map[string]int   `json:"faults,omitempty"`
	Probes    map[string]int   `json:"probes,omitempty"`
	Stats     map[string]int   `json:"stats,omitempty"`
	Viol      *Violation       `json:"viol,omitempty"`
	Inconcl   string           `json:"inconclusive,omitempty"`
	Harness   string           `json:"harness_err,omitempty"`
	Sample    map[string]any   `json:"sample,omitempty"`
	Work      []uint32         `json:"work,omitempty"`
	Fault     []uint32         `json:"fault,omitempty"`
	Sched     []simrt.SchedRun `json:"sched,omitempty"`
	WallUs    int64            `json:"wall_us"`
	Dirty     bool             `json:"dirty,omitempty"`
}

// Replay is the replay file format (also the shrinker's candidate format).
type Replay struct {
	Property  string           `json:"property"`
	Scenario  string           `json:"scenario"`
	Variant   string           `json:"build_variant"`
	Seed      uint64           `json:"seed"`
	Strategy  string           `json:"strategy,omitempty"`
	Work      []uint32         `json:"workload_tape"`
	Fault     []uint32         `json:"fault_tape"`
	Sched     []simrt.SchedRun `json:"schedule"`
	Expect    *Violation       `json:"expect,omitempty"`
	Workload  map[string]any   `json:"workload_description,omitempty"`
	Minimised bool             `json:"minimised"`
	Note      string           `json:"note,omitempty"`
}

func hashU32(v []uint32) string {
	h := fnv.New64a()
	var b [4]byte
	for _, x := range v {
		b[0], b[1], b[2], b[3] = byte(x), byte(x>>8), byte(x>>16), byte(x>>24)
		h.Write(b[:])
	}
	return fmt.Sprintf("%016x", h.Sum64())
}

func sortedKeys[V any](m map[string]V) []string {
	ks := make([]string, 0, len(m))
	for k := range m {
		ks = append(ks, k)
	}
	sort.Strings(ks)
	return ks
}

func mustJSON(v any) string {
	b, err := json.Marshal(v)
	if err != nil {
		return fmt.Sprintf("{\"marshal_error\":%q}", err.Error())
	}
	return string(b)
}

// --- work that must not run inside a bubble (real-time timeouts, CPU-bound checkers)

var (
	offCh   chan func()
	offDone chan struct{}
)

// StartOffBubble starts the service goroutine; must be called outside any bubble.
func StartOffBubble() {
	if offCh != nil {
		return
	}
	offCh, offDone = make(chan func()), make(chan struct{})
	go func() {
		for f := range offCh {
			f()
			offDone <- struct{}{}
		}
	}()
}

// OffBubble runs f on a goroutine that does not belong to the bubble, so that
// time.After in f is real time. Call it only when the simulation is over
// (from Finish): the caller blocks on a non-bubble channel.
func OffBubble(f func()) {
	if offCh == nil {
		f()
		return
	}
	offCh <- f
	<-offDone
}

package scen

// Engine S: the byte-stream layer (frame codec, metadata, proto client/server,
// compression wrappers) over simulated connections that fragment, truncate and
// reset. No actor system.

import (
	"bytes"
	"context"
	"encoding/binary"
	"fmt"
	"io"
	"runtime"
	"sort"
	"strings"
	"time"

	"google.golang.org/protobuf/proto"

	"github.com/tochemey/goakt/v4/zzverif/simglue"
	"github.com/tochemey/goakt/v4/zzverif/simnet"
	"github.com/tochemey/goakt/v4/zzverif/simstream"
)

var strReal = []string{"internal/net: ProtoSerializer (frames, metadata), Client (pool, SendProto, SendBatchProto, readProtoFrame), ProtoServer.handleConn, TCPServer worker pool, FramePool, gzip/zstd/brotli connection wrappers", "internal/internalpb message types"}
var strStub = []string{"sockets: simnet in-memory byte streams (fragmenting, stalling, resetting)", "no actor system", "wall clock: fake"}

func mergeNet(c *Ctx, n *simnet.Network) {
	for _, k := range n.SortedStats() {
		if strings.HasPrefix(k, "fault:") {
			c.Faults[strings.TrimPrefix(k, "fault:")] += n.Stats[k]
		}
	}
}

func genStr(c *Ctx, max int) string {
	n := []int{0, 1, 7, max}[c.W.Draw(4)]
	if n > 0 && c.W.Draw(2) == 0 {
		n = 1 + c.W.Draw(n)
	}
	b := make([]byte, n)
	for i := range b {
		b[i] = byte('a' + (i+n)%26)
	}
	return string(b)
}

// ------------------------------------------------------------------ C23

func c23Run(c *Ctx) {
	const maxFrame = 256 << 10
	// The serializer caches resolved message types per process. Resolve every kind
	// the generator can produce first, so that the cache is in the same (warm) state
	// in every run after the worker's discarded warm-up run, wherever the run sits in
	// a batch: otherwise the first use of a kind in a process takes a longer path and
	// a run's schedule depends on what earlier runs of the process happened to send.
	for k := 0; k < 6; k++ {
		if b, err := simstream.Marshal(simstream.GenMessage(k, 0, "")); err == nil {
			_, _, _ = simstream.Unmarshal(b)
		}
	}
	cfg := simnet.Config{Fragment: c.F.Draw(4) != 0, LatencyMax: time.Duration(c.F.Draw(3)) * time.Millisecond}
	nw := simglue.EnableNet(c.F, cfg)
	defer simglue.DisableNet()
	c.Comp = "server-or-client-goroutine"
	srv, err := simstream.NewEchoServer("127.0.0.1:7100", maxFrame, 0, nil)
	if err != nil {
		c.Fail("server-start-failed", "ProtoServer", "%v", err)
		return
	}
	Go(func() { _ = srv.Serve() })
	Sleep(time.Millisecond)
	cl := simstream.NewClient("127.0.0.1:7100", 1+c.W.Draw(2), maxFrame, nil)
	mode := c.W.Draw(4) // 0 round trips, 1 batch, 2 robustness (raw bytes), 3 concurrent callers on several connections
	c.Note("mode", []string{"roundtrip", "batch", "malformed", "concurrent"}[mode])
	c.Note("net", fmt.Sprintf("%+v", cfg))
	type sent struct {
		m       proto.Message
		headers map[string]string
		dl      time.Time
	}
	var all []sent
	mk := func() sent {
		s := sent{m: simstream.GenMessage(c.W.Draw(6), c.W.Draw(1000), genStr(c, 300))}
		if c.W.Draw(2) == 1 {
			s.headers = map[string]string{}
			for i := 0; i < c.W.Draw(6); i++ {
				s.headers[fmt.Sprintf("k%d-%s", i, genStr(c, 40))] = genStr(c, 2000)
			}
			if c.W.Draw(6) == 5 {
				// the wire limit: a value (and a key) of exactly 65535 bytes
				s.headers[strings.Repeat("K", []int{1, 65535}[c.W.Draw(2)])] = strings.Repeat("v", 65535)
				c.Probe("header-at-wire-limit")
			}
			if c.W.Draw(2) == 1 {
				s.dl = time.Now().Add(time.Duration(1+c.W.Draw(5000)) * time.Millisecond)
			}
		}
		return s
	}
	ctxOf := func(s sent) context.Context {
		ctx, cancel := context.WithTimeout(context.Background(), 10*time.Second)
		_ = cancel
		if s.headers == nil {
			return ctx
		}
		var order []string
		for k := range s.headers {
			order = append(order, k)
		}
		sort.Strings(order)
		return simstream.WithMeta(ctx, s.headers, order, s.dl)
	}
	check := func(i int, s sent, resp proto.Message) {
		if !proto.Equal(resp, s.m) {
			c.Fail("frame-roundtrip-mismatch", "client-response", "request %d (%T): response differs from the echoed request", i, s.m)
		}
	}
	switch mode {
	case 0:
		n := 1 + c.W.Draw(6)
		for i := 0; i < n && !c.Failed(); i++ {
			s := mk()
			all = append(all, s)
			c.Ops++
			resp, err := cl.Send(ctxOf(s), s.m)
			if err != nil {
				c.Fail("frame-roundtrip-error", "client", "request %d (%T, %d headers) failed on a fault-free connection: %v", i, s.m, len(s.headers), err)
				break
			}
			check(i, s, resp)
		}
	case 1:
		n := 2 + c.W.Draw(5)
		var ms []proto.Message
		for i := 0; i < n; i++ {
			s := mk()
			s.headers, s.dl = nil, time.Time{} // the batch API attaches no per-request metadata
			all = append(all, s)
			ms = append(ms, s.m)
		}
		c.Ops += n
		ctx, cancel := context.WithTimeout(context.Background(), 10*time.Second)
		resps, err := cl.SendBatch(ctx, ms)
		cancel()
		if err != nil {
			c.Fail("frame-roundtrip-error", "client-batch", "batch of %d failed on a fault-free connection: %v", n, err)
		} else if len(resps) != n {
			c.Fail("frame-batch-count", "client-batch", "batch of %d returned %d responses", n, len(resps))
		} else {
			for i := range resps {
				check(i, all[i], resps[i])
			}
		}
	case 2:
		c23Malformed(c, nw, srv, maxFrame)
	case 3:
		// 2-3 callers share the client, so several pooled connections are served by the
		// server at the same time and their frames come from one frame pool: every caller
		// must get back exactly the bytes of its own request (same payload size class for
		// all, so that pooled buffers are interchangeable)
		ncall := 2 + c.W.Draw(2)
		size := []int{40, 700, 3000, 20000}[c.W.Draw(4)]
		var fns []func()
		for t := 0; t < ncall; t++ {
			n := 1 + c.W.Draw(4)
			var mine []sent
			for i := 0; i < n; i++ {
				mine = append(mine, sent{m: simstream.GenMessage(c.W.Draw(6), 1000*t+i, strings.Repeat(string(rune('A'+t)), size)+genStr(c, 8))})
			}
			fns = append(fns, func() {
				for i, s := range mine {
					c.Ops++
					resp, err := cl.Send(ctxOf(s), s.m)
					if err != nil {
						c.Fail("frame-roundtrip-error", "client-concurrent", "caller %d request %d failed on a fault-free connection: %v", t, i, err)
						return
					}
					if !proto.Equal(resp, s.m) {
						c.Fail("frame-roundtrip-mismatch", "client-response-concurrent", "caller %d request %d (%T): the response is not the echo of its own request (another connection's bytes?)", t, i, s.m)
						return
					}
				}
			})
		}
		Join(fns...)
	}
	if mode < 2 && !c.Failed() {
		// what the server decoded: same messages, same type names, equal headers, deadline within tolerance, same order
		if len(srv.Got) != len(all) {
			c.Fail("frame-count-mismatch", "server", "%d frames sent, server decoded %d", len(all), len(srv.Got))
		}
		for i := 0; i < len(all) && i < len(srv.Got) && !c.Failed(); i++ {
			g, s := srv.Got[i], all[i]
			if !proto.Equal(g.Msg, s.m) || g.Type != string(proto.MessageName(s.m)) {
				c.Fail("frame-roundtrip-mismatch", "server-request", "frame %d decoded as %s %v, sent %s", i, g.Type, g.Msg, proto.MessageName(s.m))
			}
			if len(g.Headers) != len(s.headers) {
				c.Fail("metadata-roundtrip-mismatch", "server-request", "frame %d: %d headers sent, %d decoded", i, len(s.headers), len(g.Headers))
			}
			for k, v := range s.headers {
				if g.Headers[k] != v {
					c.Fail("metadata-roundtrip-mismatch", "server-request", "frame %d: header %q decoded as %d bytes, sent %d bytes", i, k, len(g.Headers[k]), len(v))
				}
			}
			if !s.dl.IsZero() {
				// the wire carries the remaining time and the receiver re-bases it on its own
				// clock, so the decoded deadline is later by exactly the (simulated) transit time
				if d := g.Deadline.Sub(s.dl); !g.HasDL || d < 0 || d > cfg.LatencyMax+time.Millisecond {
					c.Fail("deadline-roundtrip-mismatch", "server-request", "frame %d: deadline %v decoded as %v (present=%v)", i, s.dl, g.Deadline, g.HasDL)
				}
			} else if g.HasDL {
				c.Fail("deadline-roundtrip-mismatch", "server-request", "frame %d: no deadline sent, %v decoded", i, g.Deadline)
			}
		}
	}
	if len(srv.Panics) > 0 {
		c.Fail("decode-panic", "server", "server handler path panicked: %v", srv.Panics)
	}
	_ = cl.Close()
	_ = srv.Shutdown()
	Sleep(10 * time.Millisecond)
	mergeNet(c, nw)
}

// c23Malformed writes truncated, length-corrupted and oversized frames on a raw
// connection: the server must close the connection or keep serving, never panic,
// never allocate beyond the frame limit, and never hang past its deadline.
func c23Malformed(c *Ctx, nw *simnet.Network, srv *simstream.Server, maxFrame int) {
	good, err := simstream.Marshal(simstream.GenMessage(c.W.Draw(6), c.W.Draw(100), genStr(c, 50)))
	if err != nil {
		c.Fail("marshal-error", "serializer", "%v", err)
		return
	}
	var ms runtime.MemStats
	runtime.ReadMemStats(&ms)
	before := ms.TotalAlloc
	ntries := 1 + c.W.Draw(4)
	// a second well-formed frame that carries a metadata block (1-3 headers): the
	// nested block has length fields of its own that can lie independently of the
	// outer frame length
	hdrs := map[string]string{}
	for i, n := 0, 1+c.W.Draw(3); i < n; i++ {
		hdrs[fmt.Sprintf("k%d%s", i, genStr(c, 6))] = genStr(c, 8)
	}
	goodMeta, err := simstream.MarshalMeta(simstream.GenMessage(c.W.Draw(6), c.W.Draw(100), genStr(c, 20)), hdrs)
	if err != nil {
		c.Fail("marshal-error", "serializer", "%v", err)
		return
	}
	for t := 0; t < ntries && !c.Failed(); t++ {
		frame := append([]byte(nil), good...)
		kind := c.W.Draw(10)
		if kind >= 6 {
			frame = append([]byte(nil), goodMeta...)
		}
		// metadata block boundaries inside goodMeta-shaped frames
		metaStart, metaLen := 0, 0
		if kind >= 6 && len(frame) >= 12 {
			nameLen := int(binary.BigEndian.Uint32(frame[4:8]))
			metaLen = int(binary.BigEndian.Uint32(frame[8:12]))
			metaStart = 12 + nameLen
		}
		switch kind {
		case 6: // the metadata block is cut short at an arbitrary inner byte; outer lengths stay consistent
			if metaLen > 0 {
				keep := c.W.Draw(metaLen)
				if c.W.Draw(3) == 0 && metaLen > 10 {
					keep = 10 + c.W.Draw(metaLen-10) // past the minimum size the decoder checks first
				}
				cut := metaLen - keep
				frame = append(frame[:metaStart+keep:metaStart+keep], frame[metaStart+metaLen:]...)
				binary.BigEndian.PutUint32(frame[8:12], uint32(keep))
				binary.BigEndian.PutUint32(frame[:4], uint32(len(goodMeta)-cut))
			}
			c.Fault("metadata-block-truncated")
		case 7: // a key/value length inside the metadata block lies
			if metaLen >= 4 {
				off := metaStart + 2 // first key length
				if c.W.Draw(2) == 1 {
					kl := int(binary.BigEndian.Uint16(frame[off:]))
					if off+2+kl+2 <= metaStart+metaLen {
						off += 2 + kl // first value length
					}
				}
				rest := metaStart + metaLen - off - 2
				binary.BigEndian.PutUint16(frame[off:], []uint16{uint16(rest), uint16(rest + 1), uint16(max(rest-1, 0)), 0xffff, uint16(max(rest-8, 0)), uint16(max(rest-7, 0))}[c.W.Draw(6)])
			}
			c.Fault("metadata-inner-length-corrupt")
		case 8: // the header count lies
			if metaLen >= 2 {
				binary.BigEndian.PutUint16(frame[metaStart:], []uint16{0, 1, 2, 9, 0xffff}[c.W.Draw(5)])
			}
			c.Fault("metadata-count-corrupt")
		case 9: // the metadata length field of the frame lies
			if len(frame) >= 12 {
				binary.BigEndian.PutUint32(frame[8:12], []uint32{0, 1, 9, 10, uint32(metaLen + 1), uint32(max(metaLen-1, 0)), uint32(len(frame)), 0x7fffffff, 0xffffffff}[c.W.Draw(9)])
			}
			c.Fault("metadata-length-corrupt")
		case 0: // truncate at an arbitrary byte boundary, then close
			frame = frame[:c.W.Draw(len(frame))]
			c.Fault("frame-truncated")
		case 1: // total length says more than is sent
			binary.BigEndian.PutUint32(frame[:4], uint32(len(frame)+1+c.W.Draw(1000)))
			c.Fault("length-too-long")
		case 2: // total length far beyond the frame limit
			binary.BigEndian.PutUint32(frame[:4], []uint32{uint32(maxFrame) + 1, 1 << 30, 0xffffffff}[c.W.Draw(3)])
			c.Fault("length-oversized")
		case 3: // tiny total length
			binary.BigEndian.PutUint32(frame[:4], uint32(c.W.Draw(8)))
			c.Fault("length-too-short")
		case 4: // corrupt the inner name length
			if len(frame) >= 8 {
				binary.BigEndian.PutUint32(frame[4:8], []uint32{0, uint32(len(frame)), 0x7fffffff, 0xffffffff}[c.W.Draw(4)])
			}
			c.Fault("name-length-corrupt")
		case 5: // flip a byte somewhere
			frame[c.W.Draw(len(frame))] ^= byte(1 + c.W.Draw(255))
			c.Fault("byte-flipped")
		}
		// decode in memory too: error or success, never a panic
		func() {
			defer func() {
				if r := recover(); r != nil {
					c.Fail("decode-panic", "UnmarshalBinary", "malformed frame kind %d panicked the decoder: %v", kind, r)
				}
			}()
			_, _, _ = simstream.Unmarshal(frame)
			_, _, _ = simstream.UnmarshalMeta(frame)
		}()
		ctx, cancel := context.WithTimeout(context.Background(), time.Second)
		conn, err := simnet.Dial(ctx, "127.0.0.1:7100")
		cancel()
		if err != nil {
			c.Fail("dial-failed", "server", "%v", err)
			return
		}
		c.Ops++
		_, _ = conn.Write(frame)
		// the peer closes or answers; we wait at most 2 s of simulated time
		_ = conn.SetReadDeadline(time.Now().Add(2 * time.Second))
		buf := make([]byte, 4096)
		_, rerr := io.ReadFull(conn, buf[:4])
		_ = rerr
		_ = conn.Close()
	}
	runtime.ReadMemStats(&ms)
	if grew := ms.TotalAlloc - before; grew > 64<<20 {
		c.Fail("allocation-beyond-frame-limit", "server", "%d MiB allocated while handling malformed frames with a %d KiB frame limit", grew>>20, maxFrame>>10)
	}
}

// ------------------------------------------------------------------ C24

func c24Run(c *Ctx) {
	kind := []string{"gzip", "zstd", "brotli", "none"}[c.W.Draw(4)]
	c.Comp = kind
	c.Note("compression", kind)
	cfg := simnet.Config{Fragment: c.F.Draw(3) != 0}
	nw := simnet.Enable(c.F, cfg)
	defer simnet.Disable()
	wr, err := simstream.NewWrapper(kind)
	if err != nil {
		c.Fail("wrapper-init-failed", kind, "%v", err)
		return
	}
	nconn := 1 + c.W.Draw(3) // consecutive connections reuse the pooled encoder/decoder
	for ci := 0; ci < nconn && !c.Failed(); ci++ {
		a, b := nw.Pipe()
		var ca, cb interface {
			io.ReadWriteCloser
		} = a, b
		if wr != nil {
			wa, e1 := wr.Wrap(a)
			wb, e2 := wr.Wrap(b)
			if e1 != nil || e2 != nil {
				c.Fail("wrap-failed", kind, "%v %v", e1, e2)
				return
			}
			ca, cb = wa, wb
		}
		nw := 1 + c.W.Draw(6)
		var want bytes.Buffer
		var chunks [][]byte
		for i := 0; i < nw; i++ {
			n := []int{0, 1, 13, 4096, 70000, 262144}[c.W.Draw(6)]
			if n > 13 {
				n = 1 + c.W.Draw(n)
			}
			p := make([]byte, n)
			if c.W.Draw(2) == 0 {
				for j := range p {
					p[j] = byte(j * 7) // compressible
				}
			} else {
				x := uint32(c.Seq()*2654435761 + 12345)
				for j := range p {
					x = x*1664525 + 1013904223
					p[j] = byte(x >> 24)
				}
			}
			chunks = append(chunks, p)
			want.Write(p)
		}
		ending := c.W.Draw(3) // 0 clean close, 1 reset mid-stream, 2 close with unread data
		if ending == 1 {
			a.SetReset(c.W.Draw(max(want.Len()/2, 1)))
			c.Fault("reset-mid-stream")
		}
		var got bytes.Buffer
		var werr, rerr error
		readAll := ending != 2
		Join(func() {
			for _, p := range chunks {
				c.Ops++
				if _, werr = ca.Write(p); werr != nil {
					break
				}
			}
			_ = ca.Close()
		}, func() {
			buf := make([]byte, 1+c.W.Draw(9000))
			for {
				if !readAll && got.Len() > want.Len()/2 {
					c.Fault("close-with-unread-data")
					break
				}
				n, err := cb.Read(buf)
				got.Write(buf[:n])
				if err != nil {
					if err != io.EOF {
						rerr = err
					}
					break
				}
			}
			_ = cb.Close()
		})
		w := want.Bytes()
		g := got.Bytes()
		if !bytes.HasPrefix(w, g) {
			c.Fail("compressed-stream-corrupt", kind, "connection %d: the %d bytes read are not a prefix of the %d bytes written (ending %d, write err %v, read err %v)", ci, len(g), len(w), ending, werr, rerr)
		} else if ending == 0 && len(g) != len(w) {
			c.Fail("compressed-stream-truncated", kind, "connection %d closed cleanly: %d bytes written, %d read (write err %v, read err %v)", ci, len(w), len(g), werr, rerr)
		}
	}
	mergeNet(c, nw)
}

func init() {
	Register(&Scenario{Prop: "C23", Name: "frames-over-stream", Quick: 3000, Thorough: 300000, PanicClass: "decode-panic",
		EstSteps: 1500, MaxSteps: 400000, MaxIdle: time.Hour, Real: strReal, Stub: strStub, Run: c23Run})
	Register(&Scenario{Prop: "C24", Name: "compression-transparent", Quick: 1500, Thorough: 150000,
		EstSteps: 1500, MaxSteps: 400000, MaxIdle: time.Hour, Real: strReal, Stub: strStub, Run: c24Run})
}

package scen

// C36 — a cluster singleton runs at most once cluster-wide.
//
// Engine E (scen/cluster.go): 2–3 real cluster-enabled actor systems. Driver
// threads on every node call SpawnSingleton(name) concurrently (1–2 names, the
// default and shortened retry budgets) while the leadership changes: the oldest
// member leaves gracefully (its singleton is then also re-created by the real
// relocation machinery on the new coordinator, concurrently with the callers),
// the oldest member crashes, one node keeps a stale member view (it still
// believes in the old coordinator), and registry operations are slow or fail.
// The singleton kind is ClusActor (zero-value constructible, registered on
// every node).
//
// Oracle (online, at every PreStart of the singleton kind and at every
// scheduler step): the number of ClusActor instances of one singleton name that
// are between a successful PreStart and the start of PostStop, summed over all
// nodes that have not crashed, is ≤ 1. Class singleton-runs-twice, component =
// same-node | two-nodes, plus how the latest instance was created (call path).
//
// Instances count on every node that has not crashed and whose ActorSystem.Stop
// has not returned. A crashed node is a process that is gone in reality; in the
// simulator it lives on as an isolated zombie. On the unchanged tree a
// SpawnSingleton admitted while its node is shutting down (SpawnSingleton checks
// Running(), not isStopping()) can start an instance after the shutdown has
// stopped all actors; while Stop is still running that instance counts
// (component …,instance-started-on-stopping-node), after Stop has returned it is
// a leaked actor on a stopped system outside the cluster (probe
// instance-leaked-on-departed-node).

import (
	"context"
	"fmt"
	"os"
	"runtime"
	"strings"
	"time"

	"github.com/tochemey/goakt/v4/actor"
	"github.com/tochemey/goakt/v4/zzverif/simcluster"
)

type c36State struct {
	cl    *simCluster
	names []string
	// spawnVia[name] = call path of the most recent PreStart of that name
	spawnVia map[string]string
	// startedStopping[name][node]: the latest instance on that node started after the node's Leave began
	startedStopping map[string][]bool
}

// c36SpawnPath names how the actor whose PreStart is running was created.
func c36SpawnPath() string {
	pcs := make([]uintptr, 48)
	n := runtime.Callers(2, pcs)
	fr := runtime.CallersFrames(pcs[:n])
	found := "other"
	for {
		f, more := fr.Next()
		for _, k := range []string{"recreateSingletonFromWire", "recreateActorFromWire", "spawnSingletonOnLocal", "remoteSpawnHandler", "relocat", "Relocat"} {
			if strings.Contains(f.Function, k) {
				fn := f.Function
				if i := strings.Index(fn, ".func"); i >= 0 {
					fn = fn[:i]
				}
				if i := strings.LastIndex(fn, "."); i >= 0 {
					fn = fn[i+1:]
				}
				found = fn // keep the outermost match: who asked for the spawn
			}
		}
		if !more {
			return found
		}
	}
}

// c36Count sums the running instances of name over the nodes that belong to the
// cluster at this instant: not crashed, and their ActorSystem.Stop has not
// returned yet (a node that is shutting down still counts). gone = instances on
// nodes whose Stop has returned: a spawn admitted while the node was shutting
// down can start an actor after the shutdown stopped everything — a leaked
// actor on a stopped system, counted as a probe.
func c36Count(st *c36State, name string) (total int, per []int, gone int) {
	r := st.cl.Running[name]
	per = make([]int, len(st.cl.Nodes))
	for i, n := range st.cl.Nodes {
		if i >= len(r) || n.Crashed {
			continue
		}
		if _, _, isGone := c36NodeState(n); isGone {
			gone += r[i]
			continue
		}
		per[i] = r[i]
		total += r[i]
	}
	return
}

// c36NodeState: stopping = the node's shutdown has begun (cl.Leave, cl.Stop, or
// the system guardian shutting the node down after a system actor failed);
// gone = the shutdown has completed.
func c36NodeState(n *clusterNode) (started, stopping, gone bool) {
	started, stopping = actor.VerifSysState(n.Sys.Sys)
	gone = n.Gone || !started
	stopping = stopping || n.Left || n.Stopped
	return
}

func c36Check(c *Ctx, st *c36State) {
	if st == nil || st.cl == nil || st.cl.Failed() {
		return
	}
	for _, name := range st.names {
		total, per, _ := c36Count(st, name)
		if total <= 1 {
			continue
		}
		// component: a small closed set
		where := "two-nodes"
		lateStart, oldOnStopping := false, false
		for i, k := range per {
			if k > 1 {
				where = "same-node"
			}
			if _, stopping, _ := c36NodeState(st.cl.Nodes[i]); k > 0 && stopping {
				// one of them sits on a node that is shutting down: did it start
				// during the shutdown, or is it an old instance not stopped yet?
				if st.startedStopping[name] != nil && st.startedStopping[name][i] {
					lateStart = true
				} else {
					oldOnStopping = true
				}
			}
		}
		// an earlier instance of the name was stopped again on a node that is not
		// shutting down: a spawn was rolled back (failed registry publication)
		rollback := false
		for _, e := range st.cl.Log() {
			if e.Kind == "poststop" && e.Actor == name && e.Inc < len(per) && per[e.Inc] > 0 {
				if _, stopping, _ := c36NodeState(st.cl.Nodes[e.Inc]); !stopping {
					rollback = true
				}
			}
		}
		switch {
		case lateStart:
			where = "instance-started-on-stopping-node"
		case oldOnStopping:
			where += ",old-instance-on-stopping-node"
		case rollback:
			where += ",after-spawn-rollback"
		}
		st.cl.Fail("singleton-runs-twice", where, "singleton %q has %d running instances at the same time (per node %v; crashed and stopped nodes not counted; latest instance created via %s); membership now %v; registry faults fired %v; log tail: %s",
			name, total, per, st.spawnVia[name], st.cl.Reg.MemberAddrs(), st.cl.Reg.Faults, st.cl.Tail(40))
		return
	}
}

func c36OnStep(c *Ctx) {
	st, _ := c.state.(*c36State)
	c36Check(c, st)
}

func c36Run(c *Ctx) {
	n := 2 + c.W.Draw(2)
	st := &c36State{spawnVia: map[string]string{}, startedStopping: map[string][]bool{}}
	st.names = []string{"single"}
	if c.W.Draw(4) == 3 {
		st.names = append(st.names, "single2")
	}
	c.state = st
	c.Comp = "singleton"
	cl := startCluster(c, n, clusterOpts{})
	if cl == nil {
		return
	}
	st.cl = cl
	cl.LogRegOps = true
	cl.OnActorStart = func(name string, node *clusterNode) {
		for _, s := range st.names {
			if s == name {
				st.spawnVia[name] = c36SpawnPath()
				if st.startedStopping[name] == nil {
					st.startedStopping[name] = make([]bool, len(cl.Nodes))
				}
				_, stopping, _ := c36NodeState(node)
				st.startedStopping[name][node.Idx] = stopping
				c.Probe("instance-via:" + st.spawnVia[name])
				c36Check(c, st)
			}
		}
	}

	// ---- what happens to the leadership / registry in this run
	chaos := c.F.Draw(7) // 0 nothing, 1 oldest leaves, 2 oldest crashes, 3 stale view + oldest leaves, 4 registry faults, 5 leave + registry faults, 6 stale view only
	var reg simcluster.Config
	if chaos == 4 || chaos == 5 {
		switch c.F.Draw(3) {
		case 0:
			reg.ErrPerm = 100
		case 1:
			reg.SlowPerm, reg.SlowFor = 250, time.Duration(1+c.F.Draw(50))*time.Millisecond
		case 2:
			reg.ErrPerm, reg.SlowPerm, reg.SlowFor = 60, 100, 1500*time.Millisecond
		}
	}
	c.Note("nodes", n)
	c.Note("names", st.names)
	c.Note("chaos", []string{"none", "oldest-leaves", "oldest-crashes", "stale-view+oldest-leaves", "registry-faults", "oldest-leaves+registry-faults", "stale-view"}[chaos])
	c.Note("registry_faults", fmt.Sprintf("%+v", reg))
	grid := []time.Duration{0, time.Millisecond, 5 * time.Millisecond, 50 * time.Millisecond, 500 * time.Millisecond, 2 * time.Second}

	// sometimes an ordinary actor on the oldest node takes a while to stop, so
	// that a shutdown of that node is in progress for some simulated time (the
	// singletons are stopped after the user actors)
	if d := []time.Duration{0, 0, 300 * time.Millisecond, 3 * time.Second}[c.W.Draw(4)]; d > 0 {
		cl.SlowStop = map[string]time.Duration{"slowstop": d}
		if _, err := cl.Nodes[0].Sys.Sys.Spawn(cl.Nodes[0].Ctx, "slowstop", &ClusActor{}, actor.WithLongLived(), actor.WithRelocationDisabled()); err != nil {
			c.Probe("slowstop-spawn-error")
		}
		c.Note("slow_user_actor_stop", d.String())
	}

	// sometimes the singleton already runs on the old coordinator before anything changes
	if c.W.Draw(2) == 1 {
		from := cl.Nodes[c.W.Draw(n)]
		Join(cl.On(from.Idx, func(nd *clusterNode) {
			_, err := nd.Sys.Sys.SpawnSingleton(nd.Ctx, st.names[0], &ClusActor{})
			cl.Ev(Ev{Actor: st.names[0], Inc: nd.Idx, Kind: "pre-spawn-ret", Aux: err})
		}))
		c.Ops++
	}
	if reg.ErrPerm+reg.SlowPerm > 0 {
		cl.RegistryFaults(reg)
	}

	var fns []func()
	for i := 0; i < n; i++ {
		nthreads := 1 + c.W.Draw(2)
		for t := 0; t < nthreads; t++ {
			ncalls := 1 + c.W.Draw(3)
			thread := i*10 + t
			fns = append(fns, cl.On(i, func(nd *clusterNode) {
				for k := 0; k < ncalls && !cl.Failed(); k++ {
					Sleep(grid[c.W.Draw(len(grid))])
					name := st.names[c.W.Draw(len(st.names))]
					var opts []actor.ClusterSingletonOption
					switch c.W.Draw(3) {
					case 1:
						opts = append(opts, actor.WithSingletonSpawnRetries(1), actor.WithSingletonSpawnTimeout(2*time.Second))
					case 2:
						opts = append(opts, actor.WithSingletonSpawnWaitInterval(20*time.Millisecond))
					}
					ctx, cancel := context.WithTimeout(nd.Ctx, 90*time.Second)
					tag := c.Seq()
					c.Ops++
					cl.Ev(Ev{Actor: name, Inc: nd.Idx, Kind: "spawnsingleton-call", Tag: tag, From: thread})
					pid, err := nd.Sys.Sys.SpawnSingleton(ctx, name, &ClusActor{}, opts...)
					cancel()
					where := ""
					if err == nil && pid != nil {
						where = pid.ID()
						c.Probe("spawnsingleton-ok")
					} else {
						c.Probe("spawnsingleton-error")
					}
					cl.Ev(Ev{Actor: name, Inc: nd.Idx, Kind: "spawnsingleton-ret", Tag: tag, From: thread, Aux: fmt.Sprintf("%s %v", where, err)})
				}
			}))
		}
	}
	// the leadership change
	fns = append(fns, func() {
		lag := 1 + c.F.Draw(n-1) // the node whose member view lags (never the oldest)
		if chaos == 3 || chaos == 6 {
			cl.FreezeView(lag, true)
			cl.Ev(Ev{Actor: cl.Nodes[lag].Sys.Sys.Name(), Inc: lag, Kind: "view-frozen"})
		}
		Sleep(grid[c.F.Draw(len(grid))])
		switch chaos {
		case 1, 3, 5:
			c.Fault("oldest-member-leaves")
			_ = cl.Leave(0)
		case 2:
			cl.Crash(0, c.F.Draw(2) == 0)
		}
		if chaos == 3 || chaos == 6 {
			Sleep(grid[c.F.Draw(len(grid))])
			cl.FreezeView(lag, false)
			cl.Ev(Ev{Actor: cl.Nodes[lag].Sys.Sys.Name(), Inc: lag, Kind: "view-current"})
		}
	})
	Join(fns...)
	cl.RegistryFaultsOff()
	// let relocation and retries finish; the online oracle keeps watching
	Sleep(5 * time.Second)
	for _, name := range st.names {
		total, _, departed := c36Count(st, name)
		if total == 1 {
			c.Probe("one-instance-at-end")
		} else if total == 0 {
			c.Probe("no-instance-at-end")
		}
		if departed > 0 {
			c.Probe("instance-leaked-on-departed-node")
		}
	}
	if os.Getenv("VERIF_C36_DEBUG") != "" {
		c.Note("log", cl.Tail(80))
	}
	cl.Stop()
}

func init() {
	Register(&Scenario{Prop: "C36", Name: "singleton-once", Quick: 600, Thorough: 60000,
		EstSteps: 40000, MaxSteps: 8000000, MaxIdle: time.Hour, Real: clusReal, Stub: clusStub,
		Run: c36Run, OnStep: c36OnStep, Finish: clusterFinish})
}

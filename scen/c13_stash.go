package scen

// C13 — stash: "Messages stashed by an actor are delivered again exactly once
// when unstashed; UnstashAll re-delivers all of them in stash order and Unstash
// re-delivers the oldest. Stashing without a stash buffer reports an error
// instead of dropping silently."
//
// Two scenarios:
//   stash-queue     a stash-enabled probe, 1–3 concurrent senders, ≤ 30 messages;
//                   every delivery of a message runs its own little script of
//                   Stash / Unstash / UnstashAll calls. A queue model replayed
//                   over the handler's own event order predicts which messages
//                   must come back, how often and in which relative order.
//                   Nothing is assumed about where a re-delivered message lands
//                   relative to messages that arrive meanwhile.
//   stash-nobuffer  a probe spawned without WithStashing calls Stash: the
//                   documented ErrStashBufferNotSet must surface (ctx.Err →
//                   supervision → ActorSuspended event carrying the reason).
//
// Domain restrictions (documented behaviour is silent there, so nothing is checked):
//   * FIFO mailboxes only, capacities above the message volume (a full bounded
//     mailbox rejects the re-enqueue, priority mailboxes reorder by design).
//   * all senders are external threads (one sender identity), so the fair
//     mailbox's per-sender rotation cannot legitimately reorder re-deliveries.
//   * Unstash on an empty stash records an (undocumented) error; it is driven in
//     some runs under a Resume-any supervisor and only counted.
//   * no restarts: the statement says nothing about a stash across restarts.

import (
	"fmt"
	"sort"
	"time"

	"github.com/tochemey/goakt/v4/actor"
	gerrors "github.com/tochemey/goakt/v4/errors"
	"github.com/tochemey/goakt/v4/supervisor"
)

var c13Mailboxes = []sysMailbox{
	{"default", true, nil},
	{"UnboundedMailbox", true, func() actor.Mailbox { return actor.NewUnboundedMailbox() }},
	{"UnboundedSegmentedMailbox", true, func() actor.Mailbox { return actor.NewUnboundedSegmentedMailbox() }},
	{"UnboundedFairMailbox", true, func() actor.Mailbox { return actor.NewUnboundedFairMailbox() }},
	{"NonBlockingBoundedMailbox", true, func() actor.Mailbox { return actor.NewNonBlockingBoundedMailbox(256) }},
	{"BoundedMailbox", true, func() actor.Mailbox { return actor.NewBoundedMailbox(256) }},
}

const c13MaxStashes = 3 // a message stashes itself at most this many times

type c13Ask struct {
	tag   int
	done  bool
	reply *Reply
	err   error
}

type c13State struct {
	s       *Sys
	mailbox string
	probe   *Probe
	// online model (handler side; the handler is single threaded)
	scripts    map[int][][]Op // tag -> script per delivery
	deliveries map[int]int    // tag -> deliveries so far
	qlen       int            // messages the model holds in the stash
	released   int            // messages the model has released so far
	emptyOK    bool           // run drives Unstash on an empty stash
	// driver side
	accepted      map[int]bool
	naccepted     int
	asks          []*c13Ask
	pendingAsks   int
	flushed       bool
	poolResponded bool
}

// c13Script draws the ops of one delivery; the bool tells whether it stashes.
func c13Script(c *Ctx, mayStash bool) ([]Op, bool) {
	var ops []Op
	if c.W.Draw(4) == 1 {
		ops = append(ops, Op{K: OpYield, N: 1 + c.W.Draw(3)})
	}
	stash := false
	kind := c.W.Draw(12)
	if !mayStash {
		switch kind {
		case 2, 3, 4, 8:
			kind = 0
		case 7:
			kind = 5
		case 9:
			kind = 6
		}
	}
	switch kind {
	case 0, 1:
	case 2, 3, 4:
		ops = append(ops, Op{K: OpStash})
		stash = true
	case 5:
		ops = append(ops, Op{K: OpUnstash})
	case 6:
		ops = append(ops, Op{K: OpUnstashAll})
	case 7:
		ops = append(ops, Op{K: OpStash}, Op{K: OpUnstash}) // may release itself
		stash = true
	case 8:
		ops = append(ops, Op{K: OpUnstash}, Op{K: OpYield, N: 1}, Op{K: OpStash})
		stash = true
	case 9:
		ops = append(ops, Op{K: OpStash}, Op{K: OpUnstashAll})
		stash = true
	case 10:
		ops = append(ops, Op{K: OpUnstash}, Op{K: OpUnstash})
	case 11:
		ops = append(ops, Op{K: OpWork, D: time.Duration(1+c.W.Draw(2)) * time.Millisecond}, Op{K: OpUnstashAll})
	}
	return ops, stash
}

// newCmd builds a message whose handler runs script k at its k-th delivery.
func (st *c13State) newCmd(c *Ctx, from, seq int, ask bool) *Cmd {
	cmd := &Cmd{Tag: c.Seq(), From: from, Seq: seq}
	var scripts [][]Op
	for k := 0; ; k++ {
		ops, stash := c13Script(c, k < c13MaxStashes)
		if !stash && ask {
			ops = append(ops, Op{K: OpRespond}) // the delivery that does not stash answers the Ask
		}
		scripts = append(scripts, ops)
		if !stash {
			break
		}
	}
	st.install(cmd, scripts)
	return cmd
}

func (st *c13State) install(cmd *Cmd, scripts [][]Op) {
	st.scripts[cmd.Tag] = scripts
	cmd.Ops = []Op{{K: OpFunc, F: func(rc *actor.ReceiveContext, p *Probe) {
		k := st.deliveries[cmd.Tag]
		st.deliveries[cmd.Tag] = k + 1
		sc := st.scripts[cmd.Tag]
		for _, op := range sc[min(k, len(sc)-1)] {
			switch op.K {
			case OpStash:
				st.qlen++
			case OpUnstash:
				if st.qlen == 0 {
					if !st.emptyOK {
						continue // keep the run inside the documented domain
					}
					st.s.C.Probe("unstash-on-empty-stash")
				} else {
					st.qlen--
					st.released++
				}
			case OpUnstashAll:
				if st.qlen == 0 {
					st.s.C.Probe("unstashall-on-empty-stash")
				}
				st.released += st.qlen
				st.qlen = 0
			}
			p.exec(rc, cmd, op) // logs "stash"/"unstash"/"unstashall"/"respond" and calls the API
		}
	}}}
}

// c13Wait polls finely at first, then coarsely: a wait that fails must not
// cost thousands of scheduling steps.
func c13Wait(max time.Duration, cond func() bool) bool {
	return WaitUntil(time.Millisecond, 50*time.Millisecond, cond) || WaitUntil(25*time.Millisecond, max, cond)
}

// quiet: everything accepted or released so far has been handled and no handler
// is in progress (Handled grows when a handler starts; its ops come after).
func (st *c13State) quiet() bool {
	return st.probe.inHandler == "" && len(st.probe.Handled) >= st.naccepted+st.released
}

func c13Run(c *Ctx) {
	st := &c13State{scripts: map[int][][]Op{}, deliveries: map[int]int{}, accepted: map[int]bool{}}
	st.poolResponded = c.W.Draw(2) == 1
	actor.VerifResetContextPool(st.poolResponded)
	c.Note("context_pool", map[bool]string{false: "blank", true: "as after many answered Asks"}[st.poolResponded])
	s := StartSys(c, "c13", sysOpts(c)...)
	st.s = s
	c.state = st
	mb := c13Mailboxes[c.W.Draw(len(c13Mailboxes))]
	st.mailbox = mb.Name
	c.Comp = mb.Name
	c.Note("mailbox", mb.Name)
	opts := append(mb.Opt(), actor.WithLongLived(), actor.WithStashing())
	if c.W.Draw(4) == 1 {
		st.emptyOK = true
		opts = append(opts, actor.WithSupervisor(supervisor.NewSupervisor(supervisor.WithAnyErrorDirective(supervisor.ResumeDirective))))
	}
	c.Note("unstash_on_empty", st.emptyOK)
	p, pid, err := s.Spawn("st", opts...)
	if err != nil {
		c.Fail("spawn-failed", "st", "%v", err)
		return
	}
	st.probe = p
	withAsks := c.W.Draw(2) == 1
	nsend := 1 + c.W.Draw(3)
	var fns []func()
	for t := 0; t < nsend; t++ {
		n := 1 + c.W.Draw(10)
		fns = append(fns, func() {
			for k := 0; k < n; k++ {
				ask := withAsks && c.W.Draw(4) == 1
				cm := st.newCmd(c, t, k, ask)
				if ask {
					a := &c13Ask{tag: cm.Tag}
					st.asks = append(st.asks, a)
					st.accepted[cm.Tag] = true
					st.naccepted++
					st.pendingAsks++
					c.Probe("ask-message")
					Go(func() {
						a.reply, a.err = s.Ask(pid, cm, 20*time.Second)
						a.done = true
						st.pendingAsks--
					})
				} else if s.Tell(pid, cm) == nil {
					st.accepted[cm.Tag] = true
					st.naccepted++
				}
				switch c.W.Draw(6) {
				case 1:
					Yield()
				case 2:
					Sleep(time.Duration(c.W.Draw(3)) * time.Millisecond)
				}
			}
		})
	}
	Join(fns...)
	c13Wait(5*time.Second, st.quiet)
	// flush: UnstashAll until the model's stash is empty (a flushed message may stash itself again)
	if c.W.Draw(8) != 1 {
		st.flushed = true
		for i := 0; i < c13MaxStashes+2 && st.qlen > 0; i++ {
			cm := &Cmd{Tag: c.Seq(), From: 9, Seq: i}
			st.install(cm, [][]Op{{{K: OpUnstashAll}}})
			if s.Tell(pid, cm) == nil {
				st.accepted[cm.Tag] = true
				st.naccepted++
			}
			c13Wait(5*time.Second, func() bool { return st.quiet() && st.deliveries[cm.Tag] > 0 })
		}
	}
	c.Note("flushed", st.flushed)
	// a message left in the stash keeps its Ask waiting until the timeout: simulated time is free
	WaitUntil(50*time.Millisecond, 25*time.Second, func() bool { return st.pendingAsks == 0 })
	Sleep(20 * time.Millisecond) // room for a spurious late re-delivery
	_ = s.Stop()
}

func c13Finish(c *Ctx) {
	st, _ := c.state.(*c13State)
	if st == nil || st.probe == nil {
		return
	}
	comp := st.mailbox
	var q, rel []int // model stash; released messages in the order they must come back
	next := 0        // rel[:next] have come back
	seen := map[int]int{}
	respondAt := map[int]int{} // tag -> delivery index at which the handler answered
	hist := func() string {
		return fmt.Sprintf("model: stash=%v released=%v (first %d re-delivered); log tail: %s", q, rel, next, st.s.Tail(16))
	}
	for _, e := range st.s.Log {
		if e.Actor != "st" {
			continue
		}
		switch e.Kind {
		case "stash":
			q = append(q, e.Tag)
		case "unstash":
			if len(q) > 0 {
				rel = append(rel, q[0])
				q = q[1:]
				c.Probe("unstash-released")
			}
		case "unstashall":
			if len(q) > 1 {
				c.Probe("unstashall-released-several")
			}
			rel = append(rel, q...)
			q = nil
		case "respond":
			respondAt[e.Tag] = seen[e.Tag] - 1
		case "recv-enter":
			seen[e.Tag]++
			if !st.accepted[e.Tag] {
				c.Fail("delivered-unaccepted", comp, "event #%d: tag %d handled although it was never accepted; %s", e.Seq, e.Tag, hist())
				return
			}
			if seen[e.Tag] == 1 {
				continue // first delivery: ordinary mailbox delivery (C02/C03)
			}
			c.Probe("re-delivery")
			if next < len(rel) && rel[next] == e.Tag {
				next++
				continue
			}
			pending := false
			for _, t := range rel[next:] {
				pending = pending || t == e.Tag
			}
			if pending {
				c.Fail("stash-redelivery-order", comp, "event #%d: tag %d was re-delivered before tag %d which was unstashed earlier (stash order not kept); %s", e.Seq, e.Tag, rel[next], hist())
			} else {
				c.Fail("stash-redelivery-duplicated", comp, "event #%d: tag %d was delivered again (delivery %d) although no unstash of it is outstanding; %s", e.Seq, e.Tag, seen[e.Tag], hist())
			}
			return
		}
	}
	var tags []int
	for tag := range st.accepted {
		tags = append(tags, tag)
	}
	sort.Ints(tags)
	for _, tag := range tags {
		if seen[tag] == 0 {
			c.Fail("accepted-not-delivered", comp, "tag %d was accepted but never handled (stash scenario, first delivery); %s", tag, hist())
			return
		}
	}
	if next < len(rel) {
		c.Fail("stash-redelivery-lost", comp, "tag %d was unstashed but not delivered again within 5s (simulated) of quiescence; %d of %d released messages came back; %s", rel[next], next, len(rel), hist())
		return
	}
	if st.flushed && len(q) > 0 {
		c.Fail("stash-flush-incomplete", comp, "harness: model stash not empty after the flush: %v; %s", q, hist())
		return
	}
	// the re-delivered message is the same message: an Ask answered on a re-delivery reaches its caller
	for _, a := range st.asks {
		k, answered := respondAt[a.tag]
		if !answered || k == 0 {
			continue // never answered (left in the stash) or answered on the first delivery (plain Ask: C15)
		}
		c.Probe("ask-answered-on-re-delivery")
		pool := "pool-blank"
		if st.poolResponded {
			pool = "pool-used-by-answered-asks"
		}
		if !a.done || a.err != nil {
			c.Fail("stashed-ask-reply-dropped", pool, "Ask tag %d was stashed, re-delivered (delivery %d) and answered with ctx.Response well inside its 20s timeout, yet the caller got err=%v (done=%v); mailbox %s; %s", a.tag, k+1, a.err, a.done, comp, hist())
			return
		}
		if a.reply == nil || a.reply.Tag != a.tag {
			c.Fail("stashed-ask-wrong-reply", pool, "Ask tag %d answered on re-delivery got reply %+v; mailbox %s", a.tag, a.reply, comp)
			return
		}
	}
}

// ------------------------------------------------------------------ no stash buffer

type c13nbState struct {
	s         *Sys
	sup       string
	suspended []string // reasons of ActorSuspended events for the probe
	events    []string
}

func c13nbRun(c *Ctx) {
	actor.VerifResetContextPool(false)
	s := StartSys(c, "c13nb", sysOpts(c)...)
	st := &c13nbState{s: s}
	c.state = st
	sub, err := s.Sys.Subscribe()
	if err != nil {
		c.Fail("subscribe-failed", "nb", "%v", err)
		return
	}
	sups := []struct {
		name string
		sup  *supervisor.Supervisor
	}{
		{"default", nil},
		{"any-restart", supervisor.NewSupervisor(supervisor.WithAnyErrorDirective(supervisor.RestartDirective))},
		{"any-stop", supervisor.NewSupervisor(supervisor.WithAnyErrorDirective(supervisor.StopDirective))},
		{"errtype-restart", supervisor.NewSupervisor(supervisor.WithDirective(gerrors.ErrStashBufferNotSet, supervisor.RestartDirective))},
	}
	sc := sups[c.W.Draw(len(sups))]
	st.sup = sc.name
	c.Comp = sc.name
	c.Note("supervisor", sc.name)
	opts := []actor.SpawnOption{actor.WithLongLived()}
	if sc.sup != nil {
		opts = append(opts, actor.WithSupervisor(sc.sup))
	}
	var pid *actor.PID
	if c.W.Draw(2) == 1 {
		_, ppid, err := s.Spawn("parent", actor.WithLongLived())
		if err != nil {
			c.Fail("spawn-failed", "parent", "%v", err)
			return
		}
		pid, err = ppid.SpawnChild(s.Ctx, "nb", s.NewProbe("nb"), opts...)
		if err != nil {
			c.Fail("spawn-failed", "nb", "%v", err)
			return
		}
		c.Note("parent", "user actor")
	} else {
		_, pid, err = s.Spawn("nb", opts...)
		if err != nil {
			c.Fail("spawn-failed", "nb", "%v", err)
			return
		}
		c.Note("parent", "user guardian")
	}
	nsend := 1 + c.W.Draw(2)
	stashAt := c.W.Draw(4)
	var fns []func()
	for t := 0; t < nsend; t++ {
		n := 1 + c.W.Draw(4)
		fns = append(fns, func() {
			for k := 0; k < n; k++ {
				cm := &Cmd{Tag: c.Seq(), From: t, Seq: k}
				if c.W.Draw(3) == 1 {
					cm.Ops = append(cm.Ops, Op{K: OpYield, N: 1 + c.W.Draw(2)})
				}
				if (t == 0 && k == min(stashAt, n-1)) || c.W.Draw(3) == 1 {
					cm.Ops = append(cm.Ops, Op{K: OpStash})
				}
				_ = s.Tell(pid, cm) // fails once the actor is suspended: expected
				if c.W.Draw(4) == 1 {
					Sleep(time.Duration(c.W.Draw(3)) * time.Millisecond)
				}
			}
		})
	}
	Join(fns...)
	drain := func() {
		for m := range sub.Iterator() {
			switch ev := m.Payload().(type) {
			case *actor.ActorSuspended:
				st.events = append(st.events, "suspended:"+ev.ActorPath().Name())
				if ev.ActorPath().Name() == "nb" {
					st.suspended = append(st.suspended, ev.Reason())
				}
			case *actor.ActorRestarted:
				st.events = append(st.events, "restarted:"+ev.ActorPath().Name())
			case *actor.ActorStopped:
				st.events = append(st.events, "stopped:"+ev.ActorPath().Name())
			}
		}
	}
	c13Wait(5*time.Second, func() bool { drain(); return len(st.suspended) > 0 })
	Sleep(20 * time.Millisecond)
	drain()
	_ = s.Sys.Unsubscribe(sub)
	_ = s.Stop()
}

func c13nbFinish(c *Ctx) {
	st, _ := c.state.(*c13nbState)
	if st == nil {
		return
	}
	first := -1
	for _, e := range st.s.Log {
		if e.Actor == "nb" && e.Kind == "stash" {
			first = e.Seq
			break
		}
	}
	if first < 0 {
		c.Probe("no-stash-call-handled") // cannot happen: sender 0 always sends one
		return
	}
	want := gerrors.ErrStashBufferNotSet.Error()
	for _, r := range st.suspended {
		if r == want {
			return
		}
	}
	c.Fail("stash-without-buffer-silent", st.sup, "Stash() on an actor spawned without WithStashing (event #%d) did not surface ErrStashBufferNotSet: no ActorSuspended event with reason %q for the actor within 5s (simulated); suspension reasons seen: %q; lifecycle events: %v; log tail: %s", first, want, st.suspended, st.events, st.s.Tail(12))
}

func init() {
	Register(&Scenario{Prop: "C13", Name: "stash-queue", Variants: []string{"stock", "small"}, Quick: 2000, Thorough: 200000,
		EstSteps: 8000, MaxSteps: 600000, MaxIdle: time.Hour, Real: sysReal, Stub: sysStub, Run: c13Run, Finish: c13Finish})
	Register(&Scenario{Prop: "C13", Name: "stash-nobuffer", Variants: []string{"stock"}, Quick: 600, Thorough: 60000,
		EstSteps: 3000, MaxSteps: 400000, MaxIdle: time.Hour, Real: sysReal, Stub: sysStub, Run: c13nbRun, Finish: c13nbFinish})
}

package scen

// C14 — behaviour stack: "For any sequence of Become, BecomeStacked,
// UnBecomeStacked and UnBecome calls made while handling messages, the handler
// used for each later message is the one a stack model predicts: Become
// replaces all behaviors with one, BecomeStacked pushes, UnBecomeStacked pops,
// and UnBecome restores only the default behavior, clearing stacked ones. The
// message being handled always finishes under the behavior that started it."
//
// Every message carries 0–3 behaviour commands (several per message included);
// each behaviour of the probe records its index when it handles a message
// (recv-enter.Beh). A stack model replayed over the handler's own event order
// predicts the handler of every later message.
//
// Two scenarios over the same generator:
//   behavior-stack  UnBecomeStacked is only executed while the model holds a
//                   stacked behaviour (the decision is taken in the handler,
//                   from the model) — the well-formed use of the API.
//   behavior-edge   no guard: UnBecomeStacked with nothing stacked (documented:
//                   "No effect if there is no stack"; the model keeps the
//                   current behaviour) and UnBecomeStacked after UnBecome
//                   (documented: UnBecome "clears the stack").
//
// Restarts: the statement does not say what a restart does to the behaviours,
// so a restart (external PID.Restart or a supervisor restart after a panic,
// always issued while no message is in flight) only makes the model's bottom
// "unknown" (-1): handlers are not checked until a Become or UnBecome defines
// the state again; what is pushed on top of the unknown bottom is still checked.
// That every accepted message is handled by *some* behaviour is checked throughout.

import (
	"fmt"
	"time"

	"github.com/tochemey/goakt/v4/actor"
	gerrors "github.com/tochemey/goakt/v4/errors"
	"github.com/tochemey/goakt/v4/supervisor"
)

const c14Unknown = -1

var c14Kinds = map[OpKind]string{OpBecome: "become", OpBecomeStacked: "becomestacked", OpUnBecome: "unbecome", OpUnBecomeStacked: "unbecomestacked"}

// c14Apply is the stack model. The bottom entry is the behaviour installed by
// the last Become / UnBecome (or the default); nothing stacked = length 1.
func c14Apply(m []int, kind string, n int) []int {
	switch kind {
	case "become":
		return []int{n}
	case "becomestacked":
		return append(append([]int{}, m...), n)
	case "unbecome":
		return []int{0}
	case "unbecomestacked":
		if len(m) > 1 {
			return append([]int{}, m[:len(m)-1]...)
		}
		return m // documented: no effect if there is no stack
	}
	return m
}

type c14State struct {
	s       *Sys
	p       *Probe
	guarded bool
	// online (handler side)
	model     []int
	popAtBase bool // since the last Become / UnBecome / restart an UnBecomeStacked ran with nothing stacked
	lastOp    string
	// driver side
	naccepted int
	accepted  map[int]bool
}

func c14GenOps(c *Ctx, mix int) []Op {
	var ops []Op
	n := c.W.Draw(4)
	for i := 0; i < n; i++ {
		if c.W.Draw(5) == 1 {
			ops = append(ops, Op{K: OpYield, N: 1 + c.W.Draw(2)})
		}
		var k OpKind
		switch mix {
		case 1: // no UnBecome
			k = []OpKind{OpBecomeStacked, OpUnBecomeStacked, OpBecome, OpBecomeStacked}[c.W.Draw(4)]
		case 2: // no Become
			k = []OpKind{OpBecomeStacked, OpUnBecomeStacked, OpUnBecome, OpBecomeStacked}[c.W.Draw(4)]
		case 3: // deep stacks
			k = []OpKind{OpBecomeStacked, OpBecomeStacked, OpUnBecomeStacked, OpBecomeStacked, OpUnBecomeStacked, OpUnBecome, OpBecome}[c.W.Draw(7)]
		default:
			k = []OpKind{OpBecome, OpBecomeStacked, OpUnBecomeStacked, OpUnBecome}[c.W.Draw(4)]
		}
		ops = append(ops, Op{K: k, N: 1 + c.W.Draw(4)})
	}
	if c.W.Draw(8) == 1 {
		ops = append(ops, Op{K: OpWork, D: time.Millisecond})
	}
	return ops
}

func (st *c14State) newCmd(c *Ctx, from, seq int, ops []Op) *Cmd {
	cmd := &Cmd{Tag: c.Seq(), From: from, Seq: seq}
	cmd.Ops = []Op{{K: OpFunc, F: func(rc *actor.ReceiveContext, p *Probe) {
		for _, op := range ops {
			if kind, ok := c14Kinds[op.K]; ok {
				if op.K == OpUnBecomeStacked && len(st.model) <= 1 {
					if st.guarded {
						continue
					}
					st.popAtBase = true
					st.s.C.Probe("unbecomestacked-with-nothing-stacked")
				}
				if op.K == OpUnBecome && len(st.model) > 1 {
					st.s.C.Probe("unbecome-clears-stacked")
				}
				if op.K == OpBecome || op.K == OpUnBecome {
					st.popAtBase = false // both define the whole stack anew
				}
				st.model = c14Apply(st.model, kind, op.N)
				st.lastOp = kind
				if len(st.model) >= 3 {
					st.s.C.Probe("stack-depth>=3")
				}
			}
			p.exec(rc, cmd, op) // logs the op, then calls the API
		}
	}}}
	return cmd
}

// quiet: every accepted message has been handled and no handler is in progress
// (Handled grows when a handler starts; its behaviour ops come after).
func (st *c14State) quiet() bool { return st.p.inHandler == "" && len(st.p.Handled) >= st.naccepted }

func (st *c14State) notHandled(c *Ctx, phase int) {
	comp := "after-" + st.lastOp
	if st.lastOp == "" {
		comp = "no-behavior-op"
	}
	if st.popAtBase {
		comp = "UnBecomeStacked-with-nothing-stacked"
	}
	seen := map[int]bool{}
	for _, t := range st.p.Handled {
		seen[t] = true
	}
	missing := []int{}
	for _, e := range st.s.Log {
		if e.Kind == "tell-ok" && st.accepted[e.Tag] && !seen[e.Tag] {
			missing = append(missing, e.Tag)
		}
	}
	c.Fail("message-not-handled", comp, "phase %d: %d accepted message(s) %v were not handled by any behaviour within 3s (simulated) although the actor is alive; model stack (bottom first, -1 = unknown after restart): %v; log tail: %s", phase, len(missing), missing, st.model, st.s.Tail(16))
}

func c14Run(c *Ctx, guarded bool) {
	s := StartSys(c, "c14", sysOpts(c)...)
	st := &c14State{s: s, guarded: guarded, model: []int{0}, accepted: map[int]bool{}}
	c.state = st
	mbs := sysMailboxesStoppable()
	mb := mbs[c.W.Draw(5)] // FIFO kinds only: handler order = the order the model is replayed in anyway, priority adds nothing
	c.Note("mailbox", mb.Name)
	sup := supervisor.NewSupervisor(supervisor.WithDirective(&gerrors.PanicError{}, supervisor.RestartDirective))
	p, pid, err := s.Spawn("bh", append(mb.Opt(), actor.WithLongLived(), actor.WithSupervisor(sup))...)
	if err != nil {
		c.Fail("spawn-failed", "bh", "%v", err)
		return
	}
	st.p = p
	mix := c.W.Draw(4)
	c.Note("op_mix", []string{"all", "no-UnBecome", "no-Become", "deep-stacks"}[mix])
	nphase := 1 + c.W.Draw(3)
	c.Note("phases", nphase)
	for ph := 0; ph < nphase; ph++ {
		if ph > 0 {
			inc := p.Inc
			kind := c.W.Draw(2)
			st.model = []int{c14Unknown}
			st.lastOp = "restart"
			s.Ev(Ev{Actor: "bh", Kind: "restart-issued", Aux: kind})
			if kind == 0 {
				c.Fault("restart:external")
				if !CallTimeout(10*time.Second, func() { _ = pid.Restart(s.Ctx) }) {
					c.Probe("restart-call-hung")
					break
				}
			} else {
				c.Fault("restart:supervisor")
				cm := &Cmd{Tag: c.Seq(), From: 8, Seq: ph, Ops: []Op{{K: OpPanic, N: 0}}}
				if s.Tell(pid, cm) == nil {
					st.accepted[cm.Tag] = true
					st.naccepted++
				}
			}
			if !c13Wait(5*time.Second, func() bool { return p.Inc > inc && pid.IsRunning() && !pid.IsSuspended() }) {
				if kind == 1 && p.Inc == inc && !st.quiet() {
					st.notHandled(c, ph) // the panic message itself was never handled
				} else {
					c.Probe("restart-not-completed")
				}
				break
			}
			st.popAtBase = false
			s.Ev(Ev{Actor: "bh", Kind: "restart-done", Aux: kind})
		}
		nsend := 1 + c.W.Draw(3)
		var fns []func()
		for t := 0; t < nsend; t++ {
			n := 1 + c.W.Draw(8)
			fns = append(fns, func() {
				for k := 0; k < n; k++ {
					cm := st.newCmd(c, t, ph*100+k, c14GenOps(c, mix))
					st.accepted[cm.Tag] = true // marked before the call; un-marked if rejected
					if s.Tell(pid, cm) == nil {
						st.naccepted++
					} else {
						st.accepted[cm.Tag] = false
					}
					if c.W.Draw(6) == 1 {
						Sleep(time.Duration(c.W.Draw(3)) * time.Millisecond)
					}
				}
			})
		}
		Join(fns...)
		if !c13Wait(3*time.Second, st.quiet) {
			st.notHandled(c, ph)
			break
		}
	}
	Sleep(10 * time.Millisecond)
	_ = s.Stop()
}

func c14Finish(c *Ctx) {
	st, _ := c.state.(*c14State)
	if st == nil || st.p == nil {
		return
	}
	model := []int{0}
	lastOp := "none"
	unbecomeCleared := false  // an UnBecome had something to clear since the last Become
	opsOf := map[int]string{} // tag -> ops it executed (for the detail)
	enter := map[int]int{}
	count := map[int]int{}
	var hist []string
	for _, e := range st.s.Log {
		if e.Actor != "bh" {
			continue
		}
		switch e.Kind {
		case "prestart-enter":
			if e.Inc > 1 {
				model, lastOp, unbecomeCleared = []int{c14Unknown}, "restart", false
				hist = append(hist, "RESTART")
			}
		case "become", "becomestacked", "unbecome", "unbecomestacked":
			n, _ := e.Aux.(int)
			if e.Kind == "unbecome" && !(len(model) == 1 && model[0] == 0) {
				unbecomeCleared = true
			}
			if e.Kind == "become" {
				unbecomeCleared = false
			}
			model = c14Apply(model, e.Kind, n)
			lastOp = e.Kind
			opsOf[e.Tag] += fmt.Sprintf(" %s(%d)", e.Kind, n)
		case "recv-enter":
			count[e.Tag]++
			enter[e.Tag] = e.Beh
			hist = append(hist, fmt.Sprintf("m%d@b%d", e.Tag, e.Beh))
			if count[e.Tag] > 1 {
				c.Fail("handled-twice", "after-"+lastOp, "message tag %d was handled %d times (a behaviour switch must not re-dispatch the current message); log tail: %s", e.Tag, count[e.Tag], st.s.Tail(14))
				return
			}
			want := model[len(model)-1]
			if want == c14Unknown {
				if e.Beh == 0 {
					c.Probe("handler-on-unknown-bottom:default")
				} else {
					c.Probe("handler-on-unknown-bottom:non-default")
				}
				continue
			}
			if e.Beh != want {
				comp := "after-" + lastOp
				if lastOp == "unbecomestacked" && unbecomeCleared {
					comp = "UnBecomeStacked-after-UnBecome"
				}
				h := hist
				if len(h) > 24 {
					h = h[len(h)-24:]
				}
				var trail []string
				for _, x := range h {
					var t int
					if _, err := fmt.Sscanf(x, "m%d@", &t); err == nil && opsOf[t] != "" {
						x += "{" + opsOf[t][1:] + "}"
					}
					trail = append(trail, x)
				}
				c.Fail("wrong-behavior", comp, "message tag %d (event #%d) was handled by behaviour %d, the stack model predicts %d (model stack bottom first: %v; 0 = Receive, -1 = unknown after restart); handled messages with the ops they executed: %v", e.Tag, e.Seq, e.Beh, want, model, trail)
				return
			}
		case "recv-exit":
			if b, ok := enter[e.Tag]; ok && b != e.Beh {
				c.Fail("behavior-changed-mid-message", "after-"+lastOp, "message tag %d entered under behaviour %d and finished under %d", e.Tag, b, e.Beh)
				return
			}
		}
	}
}

func init() {
	Register(&Scenario{Prop: "C14", Name: "behavior-stack", Variants: []string{"stock"}, Quick: 2000, Thorough: 200000,
		EstSteps: 6000, MaxSteps: 600000, MaxIdle: time.Hour, Real: sysReal, Stub: sysStub,
		Run: func(c *Ctx) { c14Run(c, true) }, Finish: c14Finish})
	Register(&Scenario{Prop: "C14", Name: "behavior-edge", Variants: []string{"stock"}, Quick: 1000, Thorough: 100000,
		EstSteps: 6000, MaxSteps: 600000, MaxIdle: time.Hour, Real: sysReal, Stub: sysStub,
		Run: func(c *Ctx) { c14Run(c, false) }, Finish: c14Finish})
}

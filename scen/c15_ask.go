package scen

// C15 — an Ask returns its own reply or an error, and an in-time reply is never lost.
//
// Statement (properties.jsonl): every Ask (PID.Ask, the package-level Ask,
// SendSync, ReceiveContext.Ask, BatchAsk) returns either the reply the target
// gave to that particular message or an error; a reply is never delivered to a
// different Ask call, and a reply the target gives before the caller's deadline
// is not lost.
//
// Workload: 2–6 driver threads issue sequences of requests through every Ask
// flavour against 1–2 responder probes (any mailbox type). Every request carries a
// unique tag which the responder echoes (Reply.Tag). Responders reply at once,
// after simulated work, after the caller's timeout, or never. Timeouts are drawn
// on the same millisecond grid as the work durations, ±1 ns, so that "reply" and
// "timeout" regularly fall on the same fake instant; timed-out callers immediately
// issue their next request, which is what recycles pooled response channels and
// (variant "small": contextPoolSize=2) pooled ReceiveContexts into a new Ask while
// the previous responder may still be about to answer. Some responders are spawned
// WithStashing: they stash a request when it first arrives and answer it when it is
// re-delivered after Unstash/UnstashAll (the reply travels through the stash copy of
// the context while the original goes back to the pool); plain Tells, whose
// handlers may call Response too (a documented no-op), are mixed among the asks.
//
// Oracle (over the recorded calls and the responders' "respond" events):
//  1. a call returns an error or a non-nil reply, never (nil, nil);
//  2. a returned reply carries the tag of the request of that very call, and the
//     responder did issue it (BatchAsk: n replies, i-th reply for i-th message);
//  3. a reply issued at fake time r < (call time + timeout) — the caller cannot
//     have timed out yet — is returned by that call, not an error. r == deadline
//     exactly is left open (both outcomes are legal). BatchAsk is a sequence of
//     Asks: the i-th deadline is at least (respond time of message i-1 + timeout).

import (
	"fmt"
	"strings"
	"time"

	"github.com/tochemey/goakt/v4/actor"
)

var c15APIs = []string{"actor.Ask", "PID.Ask", "PID.SendSync", "rc.Ask", "PID.BatchAsk", "rc.SendSync", "rc.BatchAsk"}

type c15Call struct {
	ID      int
	API     string
	Thread  int
	To      string
	Tags    []int
	CallT   time.Duration
	Timeout time.Duration
	Done    bool
	RetT    time.Duration
	Got     []any
	Err     error
}

func (k *c15Call) String() string {
	return fmt.Sprintf("call#%d{%s thread=%d to=%s tags=%v called=%v timeout=%v returned=%v got=%s err=%v}", k.ID, k.API, k.Thread, k.To, k.Tags, k.CallT, k.Timeout, k.RetT, c15Render(k.Got), k.Err)
}

func c15Render(got []any) string {
	var b strings.Builder
	b.WriteByte('[')
	for i, v := range got {
		if i > 0 {
			b.WriteByte(' ')
		}
		if r, ok := v.(*Reply); ok && r != nil {
			fmt.Fprintf(&b, "Reply{tag=%d from=%s}", r.Tag, r.From)
		} else {
			fmt.Fprintf(&b, "%v", v)
		}
	}
	b.WriteByte(']')
	return b.String()
}

type c15Target struct {
	name string
	pid  *actor.PID
}

type c15State struct {
	c       *Ctx
	s       *Sys
	resp    []c15Target
	callers []c15Target
	calls   []*c15Call
	stasher map[string]bool // responders spawned WithStashing
	seen    map[int]bool    // stash-first requests already stashed once
}

// stashScript: the responder stashes the request when it first sees it and answers
// it when it is delivered again after an Unstash/UnstashAll (the reply then goes
// through the stash copy of the ReceiveContext, the original returns to the pool).
func (st *c15State) stashScript(tag int) []Op {
	return []Op{{K: OpFunc, F: func(rc *actor.ReceiveContext, p *Probe) {
		if !st.seen[tag] {
			st.seen[tag] = true
			p.S.Ev(Ev{Actor: p.Name, Inc: p.Inc, Kind: "stash", Tag: tag})
			rc.Stash()
			return
		}
		p.S.Ev(Ev{Actor: p.Name, Inc: p.Inc, Kind: "respond", Tag: tag, Aux: "after-unstash"})
		rc.Response(&Reply{Tag: tag, From: p.Name, Inc: p.Inc})
	}}}
}

// noiseTell sends a plain Tell; its handler may call Response too (documented
// no-op for a Tell) and may release the responder's stash.
func (st *c15State) noiseTell(t, k int) {
	c := st.c
	to := st.resp[c.W.Draw(len(st.resp))]
	cmd := &Cmd{Tag: c.Seq(), From: t, Seq: 1000 + k}
	switch c.W.Draw(3) {
	case 1:
		cmd.Ops = []Op{{K: OpRespond}}
	case 2:
		if st.stasher[to.name] {
			cmd.Ops = []Op{{K: OpUnstashAll}, {K: OpRespond}}
		} else {
			cmd.Ops = []Op{{K: OpYield, N: 1}, {K: OpRespond}}
		}
	}
	_ = actor.Tell(st.s.Ctx, to.pid, cmd)
}

var c15Grid = []time.Duration{time.Millisecond, 2 * time.Millisecond, 3 * time.Millisecond}

// c15Script draws what the responder does with one request; d is the simulated
// work it performs before it answers (or before it returns without answering).
func c15Script(c *Ctx) (ops []Op, d time.Duration) {
	switch c.W.Draw(8) {
	case 0, 1:
		ops = []Op{{K: OpRespond}}
	case 2, 3:
		d = c15Grid[c.W.Draw(len(c15Grid))]
		ops = []Op{{K: OpWork, D: d}, {K: OpRespond}}
	case 4:
		ops = []Op{{K: OpYield, N: 1 + c.W.Draw(3)}, {K: OpRespond}}
	case 5:
		d = c15Grid[c.W.Draw(len(c15Grid))]
		ops = []Op{{K: OpWork, D: d}, {K: OpYield, N: 1 + c.W.Draw(2)}, {K: OpRespond}}
	case 6:
		// never answers: the caller must time out, and its context/channel go back to the pools
	case 7:
		d = c15Grid[c.W.Draw(len(c15Grid))]
		ops = []Op{{K: OpWork, D: d}}
	}
	return ops, d
}

// c15Timeout draws the caller's timeout around the responder's work duration.
func c15Timeout(c *Ctx, d time.Duration) time.Duration {
	base := d
	if base == 0 {
		base = time.Millisecond
	}
	switch sel := c.W.Draw(9); sel {
	case 0:
		return 50 * time.Millisecond
	case 8:
		return 20 * time.Millisecond
	case 1, 2, 3:
		return base + time.Duration(sel-2) // d-1ns, d, d+1ns
	case 4, 5, 6:
		return base + time.Duration(1+c.W.Draw(2))*time.Millisecond + time.Duration(sel-5)
	default:
		return time.Nanosecond
	}
}

func (k *c15Call) finish(got []any, err error) {
	k.Got, k.Err, k.RetT, k.Done = got, err, Now(), true
}

func c15Drain(ch chan any, err error) ([]any, error) {
	if err != nil || ch == nil {
		return nil, err
	}
	var got []any
	for v := range ch { // BatchAsk returns a closed, fully buffered channel: never blocks
		got = append(got, v)
	}
	return got, nil
}

func (st *c15State) doCall(t, k int) {
	c, s := st.c, st.s
	api := c15APIs[c.W.Draw(len(c15APIs))]
	to := st.resp[c.W.Draw(len(st.resp))]
	from := st.callers[c.W.Draw(len(st.callers))]
	n := 1
	if strings.HasSuffix(api, "BatchAsk") {
		n = 2 + c.W.Draw(2)
	}
	var msgs []any
	var tags []int
	var d0 time.Duration
	for i := 0; i < n; i++ {
		ops, d := c15Script(c)
		cmd := &Cmd{Tag: c.Seq(), From: t, Seq: k, Ops: ops}
		if st.stasher[to.name] && c.W.Draw(3) == 1 {
			cmd.Ops, d = st.stashScript(cmd.Tag), time.Millisecond
			c.Probe("ask-stash-first")
		}
		if i == 0 {
			d0 = d
		}
		msgs = append(msgs, cmd)
		tags = append(tags, cmd.Tag)
	}
	timeout := c15Timeout(c, d0)
	call := &c15Call{ID: len(st.calls), API: api, Thread: t, To: to.name, Tags: tags, Timeout: timeout}
	st.calls = append(st.calls, call)
	c.Ops++
	begin := func() {
		s.Ev(Ev{Actor: to.name, Kind: "ask-call:" + api, Tag: tags[0], From: t, MSeq: k, Aux: timeout})
		call.CallT = Now()
	}
	end := func(got []any, err error) {
		call.finish(got, err)
		s.Ev(Ev{Actor: to.name, Kind: "ask-ret:" + api, Tag: tags[0], From: t, MSeq: k, Aux: fmt.Sprintf("%s err=%v", c15Render(got), err)})
	}
	switch api {
	case "actor.Ask":
		begin()
		resp, err := actor.Ask(s.Ctx, to.pid, msgs[0], timeout)
		end([]any{resp}, err)
	case "PID.Ask":
		begin()
		resp, err := from.pid.Ask(s.Ctx, to.pid, msgs[0], timeout)
		end([]any{resp}, err)
	case "PID.SendSync":
		begin()
		resp, err := from.pid.SendSync(s.Ctx, to.name, msgs[0], timeout)
		end([]any{resp}, err)
	case "PID.BatchAsk":
		begin()
		ch, err := from.pid.BatchAsk(s.Ctx, to.pid, msgs, timeout)
		end(c15Drain(ch, err))
	default:
		// the ReceiveContext flavours run inside the handler of a caller probe
		done := make(chan struct{}, 1)
		f := func(rc *actor.ReceiveContext, _ *Probe) {
			begin()
			switch api {
			case "rc.Ask":
				resp := rc.Ask(to.pid, msgs[0], timeout)
				end([]any{resp}, actor.VerifRCErr(rc))
			case "rc.SendSync":
				resp := rc.SendSync(to.name, msgs[0], timeout)
				end([]any{resp}, actor.VerifRCErr(rc))
			case "rc.BatchAsk":
				ch := rc.BatchAsk(to.pid, msgs, timeout)
				end(c15Drain(ch, actor.VerifRCErr(rc)))
			}
			rc.Err(nil) // the error has been observed; keep the supervisor out of this scenario
			done <- struct{}{}
		}
		if err := actor.Tell(s.Ctx, from.pid, &Cmd{Tag: c.Seq(), From: t, Seq: k, Ops: []Op{{K: OpFunc, F: f}}}); err != nil {
			call.CallT = Now()
			end(nil, fmt.Errorf("caller probe not reachable: %w", err))
			return
		}
		Recv(done)
	}
}

func c15Run(c *Ctx) {
	s := StartSys(c, "c15", sysOpts(c)...)
	st := &c15State{c: c, s: s, stasher: map[string]bool{}, seen: map[int]bool{}}
	c.state = st
	// defined pool state at the start of a run (the pool is a package variable and
	// outlives runs): blank, or looking as after ~contextPoolSize answered Asks
	actor.VerifResetContextPool(c.W.Draw(2) == 1)
	nresp := 1 + c.W.Draw(2)
	var names []string
	// The blocking BoundedMailbox is left out: callers that Ask from inside a
	// handler block a dispatcher worker while the full ring makes them spin, and
	// with every worker taken the responder is never scheduled again (an
	// application-level deadlock of blocking calls on a bounded pool, not C15).
	mbs := sysMailboxesStoppable()
	for i := 0; i < nresp; i++ {
		mb := mbs[c.W.Draw(len(mbs))]
		name := fmt.Sprintf("r%d", i)
		opts := append(mb.Opt(), actor.WithLongLived())
		if c.W.Draw(3) == 1 {
			opts = append(opts, actor.WithStashing())
			st.stasher[name] = true
			name2 := name + ":" + mb.Name + "+stash"
			names = append(names, name2)
		} else {
			names = append(names, name+":"+mb.Name)
		}
		_, pid, err := s.Spawn(name, opts...)
		if err != nil {
			c.Fail("spawn-failed", name, "%v", err)
			return
		}
		st.resp = append(st.resp, c15Target{name, pid})
	}
	ncall := 1 + c.W.Draw(2)
	for i := 0; i < ncall; i++ {
		name := fmt.Sprintf("c%d", i)
		_, pid, err := s.Spawn(name, actor.WithLongLived())
		if err != nil {
			c.Fail("spawn-failed", name, "%v", err)
			return
		}
		st.callers = append(st.callers, c15Target{name, pid})
	}
	c.Note("responders", names)
	nthreads := 2 + c.W.Draw(5)
	c.Note("threads", nthreads)
	var fns []func()
	for t := 0; t < nthreads; t++ {
		n := 2 + c.W.Draw(4)
		fns = append(fns, func() {
			for k := 0; k < n; k++ {
				st.doCall(t, k)
				switch c.W.Draw(6) {
				case 1:
					Sleep(time.Duration(1+c.W.Draw(2)) * time.Millisecond)
				case 2, 3:
					// plain tells recycle pooled contexts too
					st.noiseTell(t, k)
				}
			}
		})
	}
	if len(st.stasher) > 0 {
		// releases the stashes on the time grid (stashed asks are answered on re-delivery)
		nun := 4 + c.W.Draw(6)
		fns = append(fns, func() {
			for k := 0; k < nun; k++ {
				Sleep(time.Millisecond + time.Duration(c.W.Draw(3)-1))
				for _, r := range st.resp {
					if st.stasher[r.name] {
						// UnstashAll only: Unstash on an empty stash records an error and hands the responder to its supervisor
						_ = actor.Tell(s.Ctx, r.pid, &Cmd{Tag: c.Seq(), From: 99, Seq: k, Ops: []Op{{K: OpUnstashAll}}})
					}
				}
			}
		})
	}
	Join(fns...)
	// let late responders finish (their replies go nowhere, but the log entries
	// matter): a busy responder logs at least every 3 ms, so two polls 5 ms apart
	// with no new log entry mean the system is quiet.
	last := -1
	WaitUntil(5*time.Millisecond, time.Second, func() bool {
		n := len(s.Log)
		quiet := n == last
		last = n
		return quiet
	})
	_ = s.Stop()
}

func c15Finish(c *Ctx) {
	st, _ := c.state.(*c15State)
	if st == nil {
		return
	}
	respT := map[int]time.Duration{}
	for _, e := range st.s.Log {
		if e.Kind == "respond" {
			if _, dup := respT[e.Tag]; !dup {
				respT[e.Tag] = e.T
			}
		}
	}
	owner := map[int]*c15Call{}
	for _, k := range st.calls {
		for _, t := range k.Tags {
			owner[t] = k
		}
	}
	for _, k := range st.calls {
		if !k.Done {
			c.Fail("ask-never-returned", k.API, "%s did not return", k)
			return
		}
		if k.Err == nil {
			c.Probe("returned-reply")
			if len(k.Got) != len(k.Tags) {
				c.Fail("ask-reply-count", k.API, "%s returned %d replies for %d requests without an error", k, len(k.Got), len(k.Tags))
				return
			}
			for i, v := range k.Got {
				if v == nil {
					c.Fail("ask-nil-reply-nil-error", k.API, "%s returned neither a reply nor an error for request tag %d", k, k.Tags[i])
					return
				}
				r, ok := v.(*Reply)
				if !ok {
					c.Fail("ask-wrong-reply", k.API, "%s returned %T %v, which no responder sent", k, v, v)
					return
				}
				if r.Tag != k.Tags[i] {
					other := "no call"
					if o := owner[r.Tag]; o != nil {
						other = o.String()
					}
					c.Fail("ask-wrong-reply", k.API, "%s returned the reply to request tag %d instead of the reply to its own request tag %d; that reply belongs to %s; it was issued at %v", k, r.Tag, k.Tags[i], other, respT[r.Tag])
					return
				}
				if _, issued := respT[r.Tag]; !issued {
					c.Fail("ask-phantom-reply", k.API, "%s returned a reply for tag %d that no responder issued", k, r.Tag)
					return
				}
			}
			continue
		}
		c.Probe("returned-error")
		// an error: legal unless every reply of the call was given while the caller
		// was certainly still waiting for it
		lb := k.CallT + k.Timeout
		inTime := true
		var hist []string
		for _, tag := range k.Tags {
			r, ok := respT[tag]
			if !ok {
				inTime = false
				break
			}
			switch {
			case r == lb:
				c.Probe("respond-at-deadline")
			case r == lb-1:
				c.Probe("respond-1ns-before-deadline")
			case r > lb:
				c.Probe("respond-after-deadline")
			}
			if r >= lb {
				inTime = false
				break
			}
			hist = append(hist, fmt.Sprintf("tag %d answered at %v, deadline not before %v", tag, r, lb))
			lb = r + k.Timeout
		}
		if inTime {
			c.Fail("ask-intime-reply-lost", k.API, "%s returned an error although the responder answered in time (%s); log tail: %s", k, strings.Join(hist, "; "), st.s.Tail(16))
			return
		}
	}
}

func init() {
	Register(&Scenario{Prop: "C15", Name: "ask-own-reply", Variants: []string{"stock", "small"}, Quick: 3000, Thorough: 250000,
		EstSteps: 4000, MaxSteps: 400000, MaxIdle: time.Hour, Real: sysReal, Stub: sysStub, Run: c15Run, Finish: c15Finish})
}

package scen

// C11 — within one actor system a name (path) maps to at most one running actor:
// for any interleaving of concurrent Spawn / SpawnNamedFromFunc / SpawnFromFunc /
// SpawnChild calls with the same name (some racing Kill(name), some with
// cancelled / expiring contexts) at most one actor with that path runs at any
// time, every successful caller receives that same PID, and NumActors() equals
// the number of running user actors once the calls have settled.
//
// Engine C. Every spawn call brings its own actor instance (c11Inst); an instance
// is "running" from the moment its PreStart returned nil (goakt marks the PID
// running right after, unconditionally) until its PostStop is entered. PreStart
// honours the spawn context (returns ctx.Err() when it is done after its
// simulated work), which is what makes the winner of the per-name single flight
// fail with a context error that the coalesced waiters must not inherit.
//
// Oracle (from the statement):
//  1. online, at every scheduler step: per name at most one running instance;
//  2. two nil-error spawn results for one name with different PIDs need a stop of
//     that name somewhere between the start of the earlier call and the return of
//     the later one; two results with the same PID must not have a completed
//     Kill(name) between them (the caller would have been handed a stopped actor);
//  3. at quiescence NumActors() = number of running user actors.

import (
	"context"
	"fmt"
	"runtime"
	"strings"
	"time"

	"github.com/tochemey/goakt/v4/actor"
	"github.com/tochemey/goakt/v4/passivation"
	"github.com/tochemey/goakt/v4/supervisor"
	"github.com/tochemey/goakt/v4/zzverif/simrt"
)

type c11Inst struct {
	st       *c11State
	id       int
	name     string // logical name: n0.., c0.. (children of par), anon
	api      string
	work     time.Duration // simulated work inside PreStart
	running  bool          // PreStart returned nil and PostStop not entered
	stopped  bool
	started  bool // PreStart returned nil at least once
	prestart int
}

type c11State struct {
	s        *Sys
	insts    []*c11Inst
	live     map[string][]int // name -> ids of running instances
	over     string           // set by the lifecycle hooks when a name has two running instances
	overAPI  string
	overName string
	pidIDs   map[*actor.PID]int // PID -> ordinal (pointer values must not reach the log)
	// stopIssued[name]: a stop of that name (Kill(name), Kill(parent), passivation) has been
	// requested at some point of the run so far. It only qualifies the signature: duplicates that
	// need a stop of the name are a different defect than duplicates among plain concurrent spawns.
	stopIssued map[string]bool
	failIssued bool
}

func (st *c11State) newInst(name, api string, work time.Duration) *c11Inst {
	in := &c11Inst{st: st, id: len(st.insts), name: name, api: api, work: work}
	st.insts = append(st.insts, in)
	return in
}

func (st *c11State) qual(name string) string {
	if st.stopIssued[name] {
		return ":after-stop"
	}
	return ":no-stop"
}

func (in *c11Inst) preStart(ctx context.Context) error {
	st := in.st
	in.prestart++
	st.s.Ev(Ev{Actor: in.name, Inc: in.id, Kind: "prestart-enter", Aux: in.api})
	simrt.Yield(-210)
	if in.work > 0 {
		simrt.Sleep(-211, in.work)
	}
	simrt.Yield(-210)
	if err := ctx.Err(); err != nil {
		st.s.Ev(Ev{Actor: in.name, Inc: in.id, Kind: "prestart-exit", Aux: err})
		st.s.C.Probe("prestart-saw-done-context")
		return err
	}
	in.running = true
	in.started = true
	st.live[in.name] = append(st.live[in.name], in.id)
	st.s.Ev(Ev{Actor: in.name, Inc: in.id, Kind: "prestart-exit"})
	if len(st.live[in.name]) > 1 && st.over == "" {
		st.over = fmt.Sprintf("name %s has %d running instances %v (PreStart completed, PostStop not entered) after PreStart of instance %d (%s) returned nil", in.name, len(st.live[in.name]), st.live[in.name], in.id, in.api)
		st.overAPI, st.overName = in.api+st.qual(in.name), in.name
	}
	return nil
}

func (in *c11Inst) postStop(context.Context) error {
	st := in.st
	st.s.Ev(Ev{Actor: in.name, Inc: in.id, Kind: "poststop-enter"})
	if in.running {
		in.running = false
		l := st.live[in.name][:0:0]
		for _, id := range st.live[in.name] {
			if id != in.id {
				l = append(l, id)
			}
		}
		st.live[in.name] = l
	}
	in.stopped = true
	simrt.Yield(-212)
	st.s.Ev(Ev{Actor: in.name, Inc: in.id, Kind: "poststop-exit"})
	return nil
}

// c11Actor is the Actor-interface flavour (Spawn, SpawnChild).
type c11Actor struct{ in *c11Inst }

func (a *c11Actor) PreStart(ctx *actor.Context) error { return a.in.preStart(ctx.Context()) }
func (a *c11Actor) PostStop(ctx *actor.Context) error { return a.in.postStop(ctx.Context()) }
func (a *c11Actor) Receive(rc *actor.ReceiveContext) {
	switch rc.Message().(type) {
	case *actor.PostStart, *actor.Terminated:
	case *c11Boom:
		panic(&ErrA{a.in.id}) // the spawn options carry a supervisor with StopDirective
	default:
		rc.Unhandled()
	}
}

type c11Boom struct{}

type c11Call struct {
	kind      string // spawn | kill
	name, api string
	call, ret int
	pid       *actor.PID
	err       error
	inst      *c11Inst // spawn calls: the instance the caller brought
}

type c11OpPlan struct {
	kill    bool
	fail    bool // make the actor registered under name panic: its supervisor stops it
	name    string
	api     int // 0 Spawn, 1 SpawnNamedFromFunc, 2 SpawnChild (c-names), 3 SpawnFromFunc
	ctxKind int // 0 background, 1 already cancelled, 2 expiring
	ctxD    time.Duration
	work    time.Duration
	wait    int
	waitD   time.Duration
	passT   time.Duration
}

var c11APIs = []string{"Spawn", "SpawnNamedFromFunc", "SpawnChild", "SpawnFromFunc"}

func c11Run(c *Ctx, withStops bool) {
	lg := newCapLogger()
	s := StartSys(c, "c11", append(sysOpts(c), actor.WithLogger(lg))...)
	st := &c11State{s: s, live: map[string][]int{}, pidIDs: map[*actor.PID]int{}, stopIssued: map[string]bool{}}
	pidID := func(p *actor.PID) int {
		if _, ok := st.pidIDs[p]; !ok {
			st.pidIDs[p] = len(st.pidIDs) + 1
		}
		return st.pidIDs[p]
	}
	c.state = st
	par, ppid, err := s.Spawn("par", actor.WithLongLived())
	if err != nil {
		c.Fail("spawn-failed", "par", "%v", err)
		return
	}
	nTop := 1 + c.W.Draw(2)
	nChild := c.W.Draw(2)
	var names []string
	for i := 0; i < nTop; i++ {
		names = append(names, fmt.Sprintf("n%d", i))
	}
	for i := 0; i < nChild; i++ {
		names = append(names, fmt.Sprintf("c%d", i))
	}
	nthreads := 2 + c.W.Draw(7)
	c.Note("names", names)
	c.Note("threads", nthreads)
	// one name may carry a short passivation timeout (its actors stop by themselves)
	passName, passT := "", time.Duration(0)
	if withStops && c.W.Draw(4) == 3 {
		passName = names[c.W.Draw(len(names))]
		st.stopIssued[passName] = true
		passT = time.Duration(1+c.W.Draw(3)) * time.Millisecond
		c.Note("passivating", fmt.Sprintf("%s:%v", passName, passT))
	}
	works := []time.Duration{0, 0, time.Millisecond, 2 * time.Millisecond}
	plans := make([][]c11OpPlan, nthreads)
	for t := range plans {
		n := 1 + c.W.Draw(3)
		for k := 0; k < n; k++ {
			p := c11OpPlan{name: names[c.W.Draw(len(names))]}
			p.kill = withStops && c.W.Draw(4) == 3
			p.fail = withStops && p.kill && c.W.Draw(4) == 3
			p.api = c.W.Draw(2)
			if p.name[0] == 'c' {
				p.api = 2
			} else if !p.kill && c.W.Draw(8) == 7 {
				p.api = 3
			}
			p.work = works[c.W.Draw(len(works))]
			p.ctxKind = []int{0, 0, 0, 2, 1, 2}[c.W.Draw(6)]
			if p.ctxKind == 2 {
				// expiry on a grid around the end of PreStart's simulated work
				p.ctxD = p.work + []time.Duration{0, -1, 1, time.Millisecond, -time.Millisecond}[c.W.Draw(5)]
				if p.ctxD <= 0 {
					p.ctxD = 1
				}
			}
			p.wait = c.W.Draw(4)
			p.waitD = []time.Duration{0, time.Millisecond, 2 * time.Millisecond, 5 * time.Millisecond}[c.W.Draw(4)]
			if p.name == passName {
				p.passT = passT
			}
			plans[t] = append(plans[t], p)
		}
	}
	supStop := supervisor.NewSupervisor(supervisor.WithAnyErrorDirective(supervisor.StopDirective))
	killPar := withStops && c.W.Draw(10) == 9
	var calls []*c11Call
	var cancels []context.CancelFunc
	recv := func(context.Context, any) error { return nil }
	doOp := func(t int, p c11OpPlan) {
		switch p.wait {
		case 1:
			Yield()
			Yield()
		case 2, 3:
			Sleep(p.waitD)
		}
		c.Ops++
		if p.fail {
			// supervisor stop: asynchronous, so the stop never "completes" as far as clause 2 is concerned
			cl := &c11Call{kind: "kill", name: p.name, ret: c10Inf, err: errTimeout}
			calls = append(calls, cl)
			st.stopIssued[p.name] = true
			st.failIssued = true
			cl.call = s.Ev(Ev{Actor: p.name, Kind: "fail-call", From: t})
			c.Fault("supervisor-stop")
			func() {
				defer func() {
					if r := recover(); r != nil {
						c.Fail("api-panicked", "ActorOf"+st.qual(p.name), "ActorOf(%s) panicked on the caller's goroutine: %v; stack: %s; log: %s", p.name, r, c11Stack(), c11History(st, p.name))
					}
				}()
				if pid, err := s.Sys.ActorOf(s.Ctx, p.name); err == nil {
					_ = actor.Tell(s.Ctx, pid, &c11Boom{})
				}
			}()
			return
		}
		if p.kill {
			cl := &c11Call{kind: "kill", name: p.name, ret: c10Inf}
			calls = append(calls, cl)
			st.stopIssued[p.name] = true
			cl.call = s.Ev(Ev{Actor: p.name, Kind: "kill-call", From: t})
			c.Fault("kill-racing-spawn")
			var err error
			func() {
				defer func() {
					if r := recover(); r != nil {
						err = fmt.Errorf("PANIC: %v", r)
						c.Fail("api-panicked", "Kill"+st.qual(p.name), "Kill(%s) panicked on the caller's goroutine: %v; stack: %s; log: %s", p.name, r, c11Stack(), c11History(st, p.name))
					}
				}()
				err = s.Sys.Kill(s.Ctx, p.name)
			}()
			cl.err = err
			cl.ret = s.Ev(Ev{Actor: p.name, Kind: "kill-ret", From: t, Aux: err})
			return
		}
		ctx := s.Ctx
		switch p.ctxKind {
		case 1:
			cctx, cancel := context.WithCancel(s.Ctx)
			cancel()
			ctx = cctx
			c.Fault("ctx-cancelled")
		case 2:
			cctx, cancel := context.WithTimeout(s.Ctx, p.ctxD)
			cancels = append(cancels, cancel)
			ctx = cctx
			c.Fault("ctx-expiring")
		}
		api := c11APIs[p.api]
		name := p.name
		if p.api == 3 {
			name = "anon"
		}
		in := st.newInst(name, api, p.work)
		if p.api == 3 {
			in.name = fmt.Sprintf("anon%d", in.id) // every SpawnFromFunc has its own generated name
		}
		cl := &c11Call{kind: "spawn", name: in.name, api: api, ret: c10Inf, inst: in}
		calls = append(calls, cl)
		cl.call = s.Ev(Ev{Actor: in.name, Inc: in.id, Kind: "spawn-call", From: t, Aux: fmt.Sprintf("%s ctx=%d/%v work=%v", api, p.ctxKind, p.ctxD, p.work)})
		var pid *actor.PID
		var err error
		var sopts []actor.SpawnOption
		sopts = append(sopts, actor.WithSupervisor(supStop))
		if p.passT > 0 {
			sopts = append(sopts, actor.WithPassivationStrategy(passivation.NewTimeBasedStrategy(p.passT)))
		} else {
			sopts = append(sopts, actor.WithLongLived())
		}
		func() {
			// a runtime panic inside the API call would take the caller's goroutine (the process) down
			defer func() {
				if r := recover(); r != nil {
					err = fmt.Errorf("PANIC: %v", r)
					c.Fail("api-panicked", api+st.qual(p.name), "%s(%s) panicked on the caller's goroutine: %v; stack: %s; log: %s", api, p.name, r, c11Stack(), c11History(st, p.name))
				}
			}()
			switch p.api {
			case 0:
				pid, err = s.Sys.Spawn(ctx, p.name, &c11Actor{in}, sopts...)
			case 1:
				pid, err = s.Sys.SpawnNamedFromFunc(ctx, p.name, recv, actor.WithPreStart(in.preStart), actor.WithPostStop(in.postStop))
			case 2:
				pid, err = ppid.SpawnChild(ctx, p.name, &c11Actor{in}, sopts...)
			case 3:
				pid, err = s.Sys.SpawnFromFunc(ctx, recv, actor.WithPreStart(in.preStart), actor.WithPostStop(in.postStop))
			}
		}()
		cl.pid, cl.err = pid, err
		aux := any(err)
		if err == nil {
			aux = fmt.Sprintf("pid=P%d", pidID(pid))
		}
		cl.ret = s.Ev(Ev{Actor: in.name, Inc: in.id, Kind: "spawn-ret", From: t, Aux: aux})
	}
	var fns []func()
	for t := range plans {
		fns = append(fns, func() {
			for _, p := range plans[t] {
				doOp(t, p)
			}
		})
	}
	if killPar {
		fns = append(fns, func() {
			Sleep(time.Millisecond)
			for _, n := range names {
				if n[0] == 'c' {
					cl := &c11Call{kind: "kill", name: n, ret: c10Inf}
					calls = append(calls, cl)
					st.stopIssued[n] = true
					cl.call = s.Ev(Ev{Actor: n, Kind: "kill-call", Aux: "par"})
					defer func() { cl.ret = s.Ev(Ev{Actor: n, Kind: "kill-ret", Aux: "par"}) }()
				}
			}
			c.Fault("kill-parent")
			_ = s.Sys.Kill(s.Ctx, "par")
		})
	}
	Join(fns...)
	for _, cancel := range cancels {
		cancel()
	}
	// let passivation, the death watch and any in-flight single-flight execution settle
	c.Note("steps_before_settle", simrt.Step())
	Sleep(300 * time.Millisecond)
	if c.Failed() {
		_ = s.Stop()
		return
	}

	if !s.Sys.Running() || par.Stopped && !killPar {
		// premise broken: the scenario never stops the system or "par" (unless killPar)
		c.Fail("stopped-without-request", lg.cause(), "the actor system (Running=%v) or the parent probe (stopped=%v) went down although the scenario only stops named actors; goakt warnings/errors: %q; log tail: %s", s.Sys.Running(), par.Stopped, lg.lines, s.Tail(30))
		_ = s.Stop()
		return
	}
	// --- clause 2: PIDs handed out
	stopBetween := func(name string, from, to int, completed bool) *c11Call {
		for _, k := range calls {
			if k.kind != "kill" || k.name != name {
				continue
			}
			if completed {
				if k.call > from && k.ret < to && k.err == nil {
					return k
				}
			} else if k.call < to && k.ret > from {
				return k
			}
		}
		return nil
	}
	var ok []*c11Call
	for _, cl := range calls {
		if cl.kind == "spawn" && cl.err == nil && cl.ret != c10Inf {
			ok = append(ok, cl)
			c.Probe("spawn-ok:" + cl.api)
		} else if cl.kind == "spawn" {
			c.Probe("spawn-err:" + cl.api)
		}
	}
	for i, a := range ok {
		for _, b := range ok[i+1:] {
			if a.name != b.name {
				continue
			}
			first, second := a, b
			if b.ret < a.ret {
				first, second = b, a
			}
			if a.pid != b.pid {
				if a.name == passName {
					continue // the passivation manager may have stopped it in between
				}
				if stopBetween(a.name, min(a.call, b.call), max(a.ret, b.ret), false) == nil {
					c.Fail("spawn-different-pids", a.api+"+"+b.api+st.qual(a.name), "two successful spawns of %s returned different PIDs (P%d at #%d..#%d via %s, P%d at #%d..#%d via %s) with no stop of that name in between; log: %s", a.name, pidID(a.pid), a.call, a.ret, a.api, pidID(b.pid), b.call, b.ret, b.api, c11History(st, a.name))
				}
			} else if k := stopBetween(a.name, first.ret, second.call, true); k != nil {
				c.Fail("spawn-returned-stopped-pid", second.api, "spawn of %s via %s (#%d..#%d) succeeded with PID P%d, the actor returned by an earlier spawn (#%d..#%d) that Kill(%s) (#%d..#%d, nil error) had stopped before this call began; log: %s", a.name, second.api, second.call, second.ret, pidID(second.pid), first.call, first.ret, a.name, k.call, k.ret, c11History(st, a.name))
			}
		}
	}
	// --- clause 3: the counter at quiescence
	running := 0
	var who []string
	for _, in := range st.insts {
		if in.running {
			running++
			who = append(who, fmt.Sprintf("%s#%d", in.name, in.id))
		}
	}
	if par.Inc > 0 && !par.Stopped {
		running++
		who = append(who, "par")
	}
	if n := s.Sys.NumActors(); int(n) != running {
		// Say what kind of mismatch it is, so that different defects can never share a signature:
		// direction (counter too high / too low) and whether some running instance of a name is an
		// "orphan", i.e. not the running PID registered under that name in the actors tree (the
		// effect of a spawn that met the not-yet-reaped tree node of a stopped actor).
		dir := "too-high"
		if int(n) < running {
			dir = "too-low"
		}
		perName := map[string]int{}
		for _, in := range st.insts {
			if in.running && !strings.HasPrefix(in.name, "anon") {
				perName[in.name]++
			}
		}
		orph := "no-orphans"
		var orphans, unreaped []string
		for _, name := range names {
			exists, isRunning := actor.VerifNameRegistered(s.Sys, name)
			if exists && !isRunning {
				// 300 ms after the last operation the death watch has had every chance: this node of a
				// stopped actor will never be reaped (and never be uncounted)
				unreaped = append(unreaped, name)
			}
			reg := 0
			if exists && isRunning {
				reg = 1
			}
			if perName[name] > reg {
				orph = "orphans"
				orphans = append(orphans, fmt.Sprintf("%s: %d running, tree node exists=%v running=%v", name, perName[name], exists, isRunning))
			}
		}
		// spawns that goakt rolled back itself: the caller's instance was started (PreStart nil) and
		// stopped again and the call returned an error (e.g. SpawnChild under a parent that stopped)
		rolledBack := 0
		for _, cl := range calls {
			if cl.kind == "spawn" && cl.err != nil && cl.inst != nil && cl.inst.started && cl.inst.stopped {
				rolledBack++
			}
		}
		if orph == "no-orphans" && dir == "too-high" && rolledBack >= int(n)-running {
			orph = "rolled-back-spawns"
			orphans = append(orphans, fmt.Sprintf("%d spawn(s) were started and rolled back by goakt", rolledBack))
		}
		if orph == "no-orphans" && dir == "too-high" && len(unreaped) >= int(n)-running {
			orph = "unreaped-nodes"
			orphans = append(orphans, fmt.Sprintf("tree nodes of stopped actors never reaped: %v", unreaped))
		}
		q := ":no-stop"
		if len(st.stopIssued) > 0 {
			q = ":after-stop" // some name was stopped (Kill, parent stop, passivation, supervisor stop) during the run
		}
		c.Fail("actor-count-mismatch", "NumActors:"+dir+":"+orph+q, "at quiescence NumActors()=%d but %d user actors are running %v; running instances not registered in the tree: %v; log tail: %s", n, running, who, orphans, s.Tail(90))
	}
	_ = s.Stop()
}

// c11Stack returns the goakt frames of the panicking goroutine (called from a deferred recover).
func c11Stack() string {
	buf := make([]byte, 8192)
	buf = buf[:runtime.Stack(buf, false)]
	var out []string
	for _, ln := range strings.Split(string(buf), "\n") {
		if strings.Contains(ln, "/repo/actor/") {
			out = append(out, strings.TrimSpace(ln))
		}
	}
	if len(out) > 6 {
		out = out[:6]
	}
	return strings.Join(out, " < ")
}

func c11History(st *c11State, name string) string {
	out := ""
	for _, e := range st.s.Log {
		if e.Actor == name {
			out += fmt.Sprintf("#%d t=%v g=%s %s/%d %s from=%d %v | ", e.Seq, e.T, e.G, e.Actor, e.Inc, e.Kind, e.From, e.Aux)
		}
	}
	return out
}

// c11OnStep is the online invariant; it runs on the scheduler goroutine and
// reads harness state only.
func c11OnStep(c *Ctx) {
	st, _ := c.state.(*c11State)
	if st == nil || st.over == "" {
		return
	}
	c.Fail("two-running-instances", st.overAPI, "%s; log: %s", st.over, c11History(st, st.overName))
}

func init() {
	// spawn-names: concurrent spawns only, nothing ever stops: the pure single-flight / canonical-instance clause.
	Register(&Scenario{Prop: "C11", Name: "spawn-names", Variants: []string{"stock"}, Quick: 500, Thorough: 50000,
		EstSteps: 5000, MaxSteps: 400000, MaxIdle: time.Hour, Real: sysReal, Stub: sysStub, Run: func(c *Ctx) { c11Run(c, false) }, OnStep: c11OnStep})
	// spawn-vs-stop: the same spawns racing Kill(name), Kill(parent) and passivation of the name.
	Register(&Scenario{Prop: "C11", Name: "spawn-vs-stop", Variants: []string{"stock"}, Quick: 500, Thorough: 50000,
		EstSteps: 5000, MaxSteps: 400000, MaxIdle: time.Hour, Real: sysReal, Stub: sysStub, Run: func(c *Ctx) { c11Run(c, true) }, OnStep: c11OnStep})
}

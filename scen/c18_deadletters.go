package scen

// C18: every message the runtime accepts and then drops is published exactly
// once as a dead letter carrying the original message, sender and receiver, and
// the dead-letter count the system reports equals the number published.
//
// deadletters-local (engine C): bounded non-blocking / bounded priority
// mailboxes of capacity 2-4 under bursts from 2-4 threads (driver Tell,
// BatchTell, actor-to-actor Tell, Ask), handlers that call Unhandled(), an actor
// that is stopped while traffic flows, Asks that time out. One subscriber of the
// system event stream records every Deadletter event; one thread drains it and
// compares the published number with ActorSystem.Metric().DeadlettersCount()
// while traffic flows and after it has settled.
//
// deadletters-remote (engine D): two systems over simnet; remote tells to an
// actor that is killed meanwhile ("actor gone when a remote tell arrives", dead
// letter on the receiving system) and coalesced batches that fail on transport
// faults (dead letter on the sending system). C27 already checks "accepted and
// not delivered implies dead-lettered at the sender"; here only what C18 adds:
// exactly once per system, the three fields, and the count on both systems.
//
// Domain restrictions (documented behaviour, not guessed):
//   - Tell/Ask that return ErrDead are not "accepted": nothing is demanded.
//   - Messages still queued in the mailbox of an actor that stops are discarded
//     without a dead letter; the statement does not list that cause, so for the
//     stopped actor only "at most once" and the fields are checked.
//   - An Ask that times out publishes a dead letter of its own (reason "request
//     timed out") although the request may well be processed: the statement
//     does not list it as a drop, so these events are told apart by their
//     reason, never counted as the drop's dead letter, and only counted in the
//     total. (An Ask whose request was dropped by a full mailbox therefore has
//     two events: the drop and, later, the timeout.)

import (
	"fmt"
	"os"
	"sort"
	"strings"
	"time"

	"github.com/tochemey/goakt/v4/actor"
	gerrors "github.com/tochemey/goakt/v4/errors"
	"github.com/tochemey/goakt/v4/eventstream"
	"github.com/tochemey/goakt/v4/test/data/testpb"
	"github.com/tochemey/goakt/v4/zzverif/simnet"
)

// dlRec is one Deadletter event seen by the subscriber.
type dlRec struct {
	Seq      int // position in the run's log when it was drained
	Tag      int // -1: not a test message
	Msg      any
	Sender   string
	Receiver string
	Reason   string
	Timeout  bool // published by an Ask that timed out
}

func (d dlRec) String() string {
	return fmt.Sprintf("{tag=%d %T sender=%s receiver=%s reason=%q}", d.Tag, d.Msg, d.Sender, d.Receiver, d.Reason)
}

// dlCollector owns one subscriber; exactly one thread at a time drains it.
type dlCollector struct {
	s    *Sys
	sub  eventstream.Subscriber
	Dead []dlRec
	done bool
	gone bool // the draining thread has left
}

func newDLCollector(s *Sys) *dlCollector {
	sub, err := s.Sys.Subscribe()
	if err != nil {
		return nil
	}
	return &dlCollector{s: s, sub: sub}
}

func (dc *dlCollector) drain() {
	for m := range dc.sub.Iterator() {
		dl, ok := m.Payload().(*actor.Deadletter)
		if !ok {
			continue
		}
		r := dlRec{Seq: len(dc.s.Log), Tag: -1, Msg: dl.Message(), Reason: dl.Reason()}
		if dc.s.shared != nil {
			r.Seq = len(dc.s.shared.Log)
		}
		if p := dl.Sender(); p != nil {
			r.Sender = p.String()
		}
		if p := dl.Receiver(); p != nil {
			r.Receiver = p.String()
		}
		r.Timeout = strings.Contains(r.Reason, gerrors.ErrRequestTimeout.Error())
		switch m := dl.Message().(type) {
		case *Cmd:
			r.Tag = m.Tag
		case *testpb.Reply:
			if tag, _, _, _, ok := parseRmsg(m.GetContent()); ok {
				r.Tag = tag
			}
		}
		dc.Dead = append(dc.Dead, r)
	}
}

// checkCount compares the system's dead-letter count with the number of
// published events: what was published before the query began is included,
// nothing is counted that has not been published when the query returned.
func (dc *dlCollector) checkCount(c *Ctx, when string) {
	dc.drain()
	p1 := len(dc.Dead)
	var n int64 = -1
	ok := CallTimeout(20*time.Second, func() {
		if m := dc.s.Sys.Metric(dc.s.Ctx); m != nil {
			n = m.DeadlettersCount()
		}
	})
	dc.drain()
	p2 := len(dc.Dead)
	if !ok || n < 0 {
		c.Probe("count-query-unavailable")
		return
	}
	c.Probe("count-query-" + when)
	if n < int64(p1) || n > int64(p2) {
		c.Fail("deadletter-count-mismatch", "system-metric:"+when, "Metric().DeadlettersCount()=%d, but %d dead letters had been published before the query began and %d when it had returned; last events: %v", n, p1, p2, tailDL(dc.Dead, 6))
	}
}

func tailDL(d []dlRec, n int) []dlRec {
	if len(d) > n {
		return d[len(d)-n:]
	}
	return d
}

// run drains every few milliseconds until done; queries the count in between when asked to.
func (dc *dlCollector) run(c *Ctx, midCount bool) {
	Go(func() {
		for i := 0; !dc.done; i++ {
			if midCount && i%3 == 1 {
				dc.checkCount(c, "during-traffic")
			} else {
				dc.drain()
			}
			if i < 30 {
				Sleep(2 * time.Millisecond)
			} else {
				Sleep(50 * time.Millisecond) // long settle phases (stalled connections) must not cost steps
			}
		}
		dc.gone = true
	})
}

func (dc *dlCollector) stop() {
	dc.done = true
	WaitUntil(time.Millisecond, 60*time.Second, func() bool { return dc.gone })
}

// ------------------------------------------------------------------ local

type c18Sent struct {
	Tag      int
	Cmd      *Cmd
	To       string // receiver name
	ToPath   string
	Sender   string // expected sender path
	Via      string
	Mailbox  string
	Accepted bool
	Unh      bool // the handler script calls Unhandled()
	Victim   bool
	CallSeq  int
	AskErr   error
	IsAsk    bool
	// the dead-letter actor had not handled its PostStart when the message was sent /
	// when its handler called Unhandled (known finding: such dead letters are lost)
	EarlySend bool
	EarlyUnh  bool
}

type c18State struct {
	s        *Sys
	dc       *dlCollector
	sent     map[int]*c18Sent
	perActor map[string]int64 // receiver path -> ActorMetric.DeadlettersCount at the end
	settled  bool
}

var c18Mailboxes = []struct {
	Name string
	Mk   func(n int) actor.Mailbox
}{
	{"NonBlockingBoundedMailbox", func(n int) actor.Mailbox { return actor.NewNonBlockingBoundedMailbox(n) }},
	{"BoundedPriorityMailbox", func(n int) actor.Mailbox {
		return actor.NewBoundedPriorityMailbox(n, func(a, b any) bool { return prioOf(a) > prioOf(b) })
	}},
	{"BoundedStablePriorityMailbox", func(n int) actor.Mailbox {
		return actor.NewBoundedStablePriorityMailbox(n, func(a, b any) bool { return prioOf(a) > prioOf(b) })
	}},
	{"UnboundedMailbox", func(int) actor.Mailbox { return actor.NewUnboundedMailbox() }},
}

func c18Run(c *Ctx) {
	s := StartSys(c, "c18", sysOpts(c)...)
	st := &c18State{s: s, sent: map[int]*c18Sent{}, perActor: map[string]int64{}}
	c.state = st
	st.dc = newDLCollector(s)
	if st.dc == nil {
		c.Fail("subscribe-failed", "eventstream", "Subscribe failed on a started system")
		return
	}
	noSender := s.Sys.NoSender().Path().String()
	type sink struct {
		pid  *actor.PID
		mb   string
		path string
	}
	var sinks []sink
	var names []string
	nsink := 1 + c.W.Draw(3)
	for i := 0; i < nsink; i++ {
		mb := c18Mailboxes[c.W.Draw(len(c18Mailboxes))]
		capa := 2 + c.W.Draw(3)
		name := fmt.Sprintf("s%d", i)
		_, pid, err := s.Spawn(name, actor.WithMailbox(mb.Mk(capa)), actor.WithLongLived())
		if err != nil {
			c.Fail("spawn-failed", name, "%v", err)
			return
		}
		sinks = append(sinks, sink{pid, mb.Name, pid.Path().String()})
		names = append(names, fmt.Sprintf("%s:%s(%d)", name, mb.Name, capa))
	}
	c.Comp = sinks[0].mb
	// the actor that stops while traffic flows
	var victim *sink
	if c.W.Draw(3) == 2 {
		mb := c18Mailboxes[[]int{3, 0, 1}[c.W.Draw(3)]]
		_, pid, err := s.Spawn("victim", actor.WithMailbox(mb.Mk(4)), actor.WithLongLived())
		if err != nil {
			c.Fail("spawn-failed", "victim", "%v", err)
			return
		}
		victim = &sink{pid, mb.Name, pid.Path().String()}
		names = append(names, "victim:"+mb.Name)
	}
	// the actor other messages are sent from
	_, epid, err := s.Spawn("emitter", actor.WithLongLived())
	if err != nil {
		c.Fail("spawn-failed", "emitter", "%v", err)
		return
	}
	epath := epid.Path().String()
	c.Note("actors", names)
	// Most runs start their traffic once the dead-letter actor has handled its
	// PostStart; one in eight starts at once (ActorSystem.Start has returned, so
	// the API may be used) and exercises that window.
	early := c.W.Draw(8) == 7
	c.Note("traffic_before_deadletter_actor_started", early)
	if !early {
		WaitUntil(time.Millisecond, 5*time.Second, func() bool { return actor.VerifDeadletterStarted(s.Sys) })
	}
	st.dc.run(c, c.W.Draw(2) == 1)

	unh := func(rec *c18Sent) Op {
		return Op{K: OpFunc, F: func(rc *actor.ReceiveContext, p *Probe) {
			rec.EarlyUnh = !actor.VerifDeadletterStarted(s.Sys)
			rc.Unhandled()
		}}
	}
	script := func(cm *Cmd, rec *c18Sent) {
		switch c.W.Draw(6) {
		case 0, 1:
			cm.Ops = append(cm.Ops, Op{K: OpWork, D: time.Duration(1+c.W.Draw(3)) * time.Millisecond})
		case 2:
			cm.Ops = append(cm.Ops, unh(rec))
			rec.Unh = true
		case 3:
			cm.Ops = append(cm.Ops, Op{K: OpWork, D: time.Millisecond}, unh(rec))
			rec.Unh = true
		case 4:
			cm.Ops = append(cm.Ops, Op{K: OpYield, N: 1 + c.W.Draw(3)})
		}
	}
	nthr := 2 + c.W.Draw(3)
	c.Note("threads", nthr)
	var fns []func()
	for t := 0; t < nthr; t++ {
		n := 3 + c.W.Draw(8)
		fns = append(fns, func() {
			for k := 0; k < n; k++ {
				to := sinks[c.W.Draw(len(sinks))]
				isVictim := false
				if victim != nil && c.W.Draw(3) == 2 {
					to, isVictim = *victim, true
				}
				mk := func(via string) (*Cmd, *c18Sent) {
					cm := &Cmd{Tag: c.Seq(), From: t, Seq: k}
					rec := &c18Sent{Tag: cm.Tag, Cmd: cm, To: to.pid.Name(), ToPath: to.path, Sender: noSender, Via: via, Mailbox: to.mb, Victim: isVictim}
					script(cm, rec)
					rec.EarlySend = !actor.VerifDeadletterStarted(s.Sys)
					st.sent[cm.Tag] = rec
					return cm, rec
				}
				via := c.W.Draw(8)
				if isVictim && via >= 4 {
					via = 0 // the stopping actor is only told by drivers: an actor's Tell to a dead PID escalates to its supervisor
				}
				switch via {
				case 0, 1, 2, 3:
					cm, rec := mk("tell")
					rec.CallSeq = len(s.Log)
					rec.Accepted = s.Tell(to.pid, cm) == nil
				case 4:
					// BatchTell from NoSender: every message of the batch is accepted or the call fails at the first
					nb := 2 + c.W.Draw(3)
					var batch []any
					var recs []*c18Sent
					for b := 0; b < nb; b++ {
						cm, rec := mk("batch-tell")
						batch = append(batch, cm)
						recs = append(recs, rec)
					}
					c.Ops++
					if err := s.Sys.NoSender().BatchTell(s.Ctx, to.pid, batch...); err == nil {
						for _, r := range recs {
							r.Accepted = true
						}
					}
				case 5, 6:
					// the emitter actor tells the sink from inside its handler: the sender is an actor
					inner, rec := mk("actor-tell")
					rec.Sender = epath
					outer := &Cmd{Tag: c.Seq(), From: t, Seq: k, Ops: []Op{{K: OpFunc, F: func(rc *actor.ReceiveContext, p *Probe) {
						rec.Accepted = rc.Self().Tell(rc.Context(), to.pid, inner) == nil
					}}}}
					// the command to the emitter is a test message as well (it is dropped when the system stops itself)
					orec := &c18Sent{Tag: outer.Tag, Cmd: outer, To: "emitter", ToPath: epath, Sender: noSender, Via: "tell", Mailbox: "default", CallSeq: len(s.Log)}
					orec.EarlySend = !actor.VerifDeadletterStarted(s.Sys)
					st.sent[outer.Tag] = orec
					orec.Accepted = s.Tell(epid, outer) == nil
				case 7:
					// Ask with a timeout around the handler's working time
					cm := &Cmd{Tag: c.Seq(), From: t, Seq: k}
					rec := &c18Sent{Tag: cm.Tag, Cmd: cm, To: to.pid.Name(), ToPath: to.path, Sender: noSender, Via: "ask", Mailbox: to.mb, Victim: isVictim, IsAsk: true}
					work := time.Duration(c.W.Draw(3)) * time.Millisecond
					if work > 0 {
						cm.Ops = append(cm.Ops, Op{K: OpWork, D: work})
					}
					cm.Ops = append(cm.Ops, Op{K: OpRespond})
					rec.EarlySend = !actor.VerifDeadletterStarted(s.Sys)
					st.sent[cm.Tag] = rec
					timeout := work + time.Duration(c.W.Draw(3)-1)*time.Millisecond + time.Duration(c.W.Draw(3)-1)
					if timeout <= 0 {
						timeout = time.Millisecond
					}
					_, err := s.Ask(to.pid, cm, timeout)
					rec.AskErr = err
					rec.Accepted = err == nil || strings.Contains(err.Error(), gerrors.ErrRequestTimeout.Error())
				}
				if c.W.Draw(4) == 0 {
					Sleep(time.Duration(c.W.Draw(3)) * time.Millisecond)
				}
			}
		})
	}
	if victim != nil {
		fns = append(fns, func() {
			Sleep(time.Duration(c.W.Draw(6)) * time.Millisecond)
			for i := c.W.Draw(4); i > 0; i-- {
				Yield()
			}
			c.Fault("actor-stopped-during-traffic")
			s.Ev(Ev{Actor: "victim", Kind: "stop-issued"})
			if c.W.Draw(2) == 0 {
				_ = s.Sys.Kill(s.Ctx, "victim")
			} else {
				_ = actor.Tell(s.Ctx, victim.pid, new(actor.PoisonPill))
			}
			s.Ev(Ev{Actor: "victim", Kind: "stop-returned"})
		})
	}
	Join(fns...)
	// settle: every accepted message to a live actor has been handled or dead-lettered
	settled := func() bool {
		handled := map[int]bool{}
		for _, p := range s.Probes {
			for _, t := range p.Handled {
				handled[t] = true
			}
		}
		dead := map[int]bool{}
		for _, d := range st.dc.Dead {
			if !d.Timeout {
				dead[d.Tag] = true
			}
		}
		victimGone := false
		if p := s.Probes["victim"]; p != nil {
			victimGone = p.Stopped
		}
		for tag, r := range st.sent {
			if !r.Accepted {
				continue
			}
			if !handled[tag] && !dead[tag] && !(r.Victim && victimGone) {
				return false
			}
			if handled[tag] && r.Unh && !dead[tag] {
				return false
			}
		}
		return true
	}
	st.settled = WaitUntil(time.Millisecond, 5*time.Second, settled)
	Sleep(10 * time.Millisecond)
	st.dc.stop()
	st.dc.checkCount(c, "settled")
	// per-actor count: dead letters whose receiver is that actor
	for _, sk := range sinks {
		if m := sk.pid.Metric(s.Ctx); m != nil {
			st.perActor[sk.path] = int64(m.DeadlettersCount())
		}
	}
	st.dc.drain()
	_ = s.Sys.Unsubscribe(st.dc.sub)
	_ = s.Stop()
}

func c18Finish(c *Ctx) {
	st, _ := c.state.(*c18State)
	if st == nil || st.dc == nil {
		return
	}
	s := st.s
	handled := map[int]int{}
	for _, e := range s.Log {
		if e.Kind == "recv-enter" {
			handled[e.Tag]++
		}
	}
	if os.Getenv("VERIF_DUMP_LOG") != "" {
		for _, e := range s.Log {
			fmt.Fprintln(os.Stderr, "LOG", e.String())
		}
		for _, d := range st.dc.Dead {
			fmt.Fprintln(os.Stderr, "DEAD", d.Seq, d.String())
		}
	}
	drops := map[int][]dlRec{}
	timeouts := map[int][]dlRec{}
	for _, d := range st.dc.Dead {
		if d.Tag < 0 {
			c.Probe("deadletter-of-non-test-message")
			continue
		}
		if st.sent[d.Tag] == nil {
			// the outer commands to the emitter are test messages too, but are never dropped
			c.Fail("deadletter-unknown-message", "local", "dead letter %v carries a message that was never sent to a test actor", d)
			return
		}
		if d.Timeout {
			timeouts[d.Tag] = append(timeouts[d.Tag], d)
		} else {
			drops[d.Tag] = append(drops[d.Tag], d)
		}
	}
	var tags []int
	for t := range st.sent {
		tags = append(tags, t)
	}
	sort.Ints(tags)
	for _, t := range tags {
		r := st.sent[t]
		h, d := handled[t], len(drops[t])
		if !r.Accepted {
			continue
		}
		cause, comp := "handled", r.Via
		switch {
		case h == 0:
			cause, comp = "not-handled", r.Mailbox
			if r.Victim {
				comp = "stopped-actor"
			}
		case r.Unh:
			cause, comp = "unhandled", "Unhandled"
			if r.Victim {
				comp = "Unhandled:stopping-actor"
			}
		}
		want := 0
		if h == 0 || r.Unh {
			want = 1
		}
		desc := fmt.Sprintf("message tag %d (%s to %s, mailbox %s, accepted, handled %d times, script unhandled=%v): %d dead letters %v; log tail: %s", t, r.Via, r.To, r.Mailbox, h, r.Unh, d, drops[t], s.Tail(12))
		switch {
		case d > want && want == 0:
			c.Fail("deadletter-without-drop", comp, "%s", desc)
			return
		case d > want:
			c.Fail("deadletter-twice", comp, "%s", desc)
			return
		case d < want && (!r.Victim || h > 0):
			if (h == 0 && r.EarlySend) || (h > 0 && r.EarlyUnh) {
				comp = "deadletter-actor-not-started"
				desc += "; the dead-letter actor had not handled its PostStart when the drop happened"
			}
			c.Fail("drop-not-deadlettered", comp, "%s (cause: %s; settled within 5s: %v)", desc, cause, st.settled)
			return
		}
		if d > 0 {
			c.Probe("drop:" + cause + ":" + comp)
		}
		for _, x := range drops[t] {
			if x.Msg != any(r.Cmd) {
				c.Fail("deadletter-wrong-message", comp, "dead letter of tag %d carries another message object than the one sent: %v", t, x)
				return
			}
			if x.Receiver != r.ToPath {
				c.Fail("deadletter-wrong-receiver", comp+":"+r.Via, "dead letter of tag %d names receiver %s, the message was sent to %s; %v", t, x.Receiver, r.ToPath, x)
				return
			}
			if x.Sender != r.Sender {
				c.Fail("deadletter-wrong-sender", comp+":"+r.Via, "dead letter of tag %d names sender %s, the message was sent by %s; %v", t, x.Sender, r.Sender, x)
				return
			}
		}
		// the timeout events of Asks: none for an Ask that got its reply, at most one otherwise
		if r.IsAsk {
			nt := len(timeouts[t])
			if r.AskErr == nil && nt > 0 {
				c.Fail("deadletter-without-drop", "ask-replied", "Ask tag %d returned its reply, yet a timeout dead letter was published: %v", t, timeouts[t])
				return
			}
			if nt > 1 {
				c.Fail("deadletter-twice", "ask-timeout", "Ask tag %d: %d timeout dead letters %v", t, nt, timeouts[t])
				return
			}
			if nt == 1 {
				c.Probe("ask-timeout-deadletter")
				if d == 1 {
					c.Probe("ask-dropped-and-timed-out:two-events")
				}
			}
		} else if len(timeouts[t]) > 0 {
			c.Fail("deadletter-without-drop", "timeout-reason-on-tell", "tag %d was sent with Tell but has a request-timeout dead letter %v", t, timeouts[t])
			return
		}
	}
	// per-actor count = published dead letters naming that actor as receiver
	for _, path := range sortedKeys(st.perActor) {
		n := 0
		for _, d := range st.dc.Dead {
			if d.Receiver == path {
				n++
			}
		}
		if int64(n) != st.perActor[path] {
			c.Fail("deadletter-count-mismatch", "actor-metric", "PID.Metric().DeadlettersCount() of %s = %d, %d dead letters naming it as receiver were published", path, st.perActor[path], n)
			return
		}
	}
}

// ------------------------------------------------------------------ remote

type c18rSent struct {
	Tag       int
	To        string
	ToPath    string
	Content   string
	Unh       bool
	Accepted  bool
	CallSeq   int
	AfterStop bool // the Tell call began after the kill of the target had returned
}

type c18rState struct {
	rp     *remotePair
	dcA    *dlCollector
	dcB    *dlCollector
	sent   map[int]*c18rSent
	fpath  string
	faulty bool
	cutT   time.Duration // handler runs that began later may publish after the collectors have stopped
}

func c18rRun(c *Ctx) {
	cfg := simnet.Config{Fragment: c.F.Draw(2) == 1, MaxResetAt: 600}
	switch c.F.Draw(5) {
	case 1:
		cfg.ResetPerm = 300
	case 2:
		cfg.StallPerm, cfg.StallFor = 300, 7*time.Second // past the coalescer's flush timeout
	case 3:
		cfg.RefusePerm = 200
	case 4:
		cfg.ResetPerm, cfg.LatencyMax = 200, 3*time.Millisecond
	}
	c.Note("net", fmt.Sprintf("%+v", cfg))
	rp := startRemotePair(c, cfg)
	st := &c18rState{rp: rp, sent: map[int]*c18rSent{}}
	c.state = st
	st.dcA, st.dcB = newDLCollector(rp.A), newDLCollector(rp.B)
	if st.dcA == nil || st.dcB == nil {
		c.Fail("subscribe-failed", "eventstream", "Subscribe failed on a started system")
		return
	}
	// the window before the dead-letter actors have started belongs to deadletters-local
	WaitUntil(time.Millisecond, 5*time.Second, func() bool {
		return actor.VerifDeadletterStarted(rp.A.Sys) && actor.VerifDeadletterStarted(rp.B.Sys)
	})
	st.dcA.run(c, false)
	st.dcB.run(c, c.W.Draw(2) == 1)
	finish := func() {
		st.dcA.stop()
		st.dcB.stop()
		rp.stop(c)
	}
	for _, name := range []string{"sink", "victim"} {
		p := rp.B.NewProbe(name)
		p.OnUnknown = remoteHandler
		if _, err := rp.B.Sys.Spawn(rp.B.Ctx, name, p, actor.WithLongLived()); err != nil {
			c.Fail("spawn-failed", name, "%v", err)
			return
		}
	}
	from := rp.A.NewProbe("from")
	fpid, err := rp.A.Sys.Spawn(rp.A.Ctx, "from", from, actor.WithLongLived())
	if err != nil {
		c.Fail("spawn-failed", "from", "%v", err)
		return
	}
	st.fpath = fpid.Path().String()
	targets := map[string]*actor.PID{}
	for _, name := range []string{"sink", "victim"} {
		for i := 0; i < 5 && targets[name] == nil; i++ {
			targets[name], _ = fpid.RemoteLookup(rp.A.Ctx, "127.0.0.1", rp.PortB, name)
		}
		if targets[name] == nil {
			c.Probe("lookup-failed-under-faults")
			finish()
			return
		}
	}
	killed := false
	ncall := 1 + c.W.Draw(3)
	c.Note("callers", ncall)
	var fns []func()
	for t := 0; t < ncall; t++ {
		n := 2 + c.W.Draw(8)
		fns = append(fns, func() {
			for k := 0; k < n; k++ {
				name := []string{"victim", "sink"}[c.W.Draw(2)]
				ops := ""
				if c.W.Draw(4) == 3 {
					ops = "u"
				}
				tag := c.Seq()
				m := rmsg(tag, t, k, ops)
				rec := &c18rSent{Tag: tag, To: name, ToPath: targets[name].Path().String(), Content: m.GetContent(), Unh: ops == "u", AfterStop: killed && name == "victim"}
				st.sent[tag] = rec
				c.Ops++
				rec.CallSeq = rp.A.Ev(Ev{Actor: name, Kind: "tell-call", Tag: tag, From: t, MSeq: k})
				rec.Accepted = fpid.Tell(rp.A.Ctx, targets[name], m) == nil
				if c.W.Draw(5) == 0 {
					Sleep(time.Duration(c.W.Draw(4)) * time.Millisecond)
				}
			}
		})
	}
	fns = append(fns, func() {
		Sleep(time.Duration(c.W.Draw(5)) * time.Millisecond)
		for i := c.W.Draw(4); i > 0; i-- {
			Yield()
		}
		c.Fault("remote-target-killed")
		rp.A.Ev(Ev{Actor: "victim", Kind: "stop-issued"})
		if rp.B.Sys.Kill(rp.B.Ctx, "victim") == nil {
			killed = true
		}
		rp.A.Ev(Ev{Actor: "victim", Kind: "stop-returned"})
	})
	Join(fns...)
	handledOrDead := func() bool {
		seen := map[int]bool{}
		for _, name := range []string{"sink", "victim"} {
			for _, t := range rp.B.Probes[name].Handled {
				seen[t] = true
			}
		}
		for _, d := range st.dcA.Dead {
			seen[d.Tag] = true
		}
		for _, d := range st.dcB.Dead {
			seen[d.Tag] = true
		}
		for t, r := range st.sent {
			if r.Accepted && (r.To == "sink" || r.AfterStop) && !seen[t] {
				return false
			}
		}
		return true
	}
	WaitUntil(10*time.Millisecond, 30*time.Second, handledOrDead)
	Sleep(20 * time.Millisecond)
	st.cutT = Now() - 10*time.Millisecond
	st.dcA.stop()
	st.dcB.stop()
	st.dcA.checkCount(c, "settled:sender-system")
	st.dcB.checkCount(c, "settled:receiver-system")
	for _, k := range rp.Net.SortedStats() {
		if strings.HasPrefix(k, "fault:") && rp.Net.Stats[k] > 0 {
			st.faulty = true
		}
	}
	rp.stop(c)
}

func c18rFinish(c *Ctx) {
	st, _ := c.state.(*c18rState)
	if st == nil || st.dcA == nil || st.dcB == nil {
		return
	}
	log := st.rp.A.Log
	handled := map[int]int{}
	lateHandled := map[int]bool{} // delivered by a stalled connection after the collectors had stopped
	for _, e := range log {
		if e.Kind == "recv-enter" {
			handled[e.Tag]++
			if e.T > st.cutT {
				lateHandled[e.Tag] = true
			}
		}
	}
	group := func(dead []dlRec, where string) map[int][]dlRec {
		g := map[int][]dlRec{}
		for _, d := range dead {
			if d.Tag < 0 {
				c.Probe("deadletter-of-non-test-message")
				continue
			}
			if st.sent[d.Tag] == nil {
				c.Fail("deadletter-unknown-message", where, "dead letter %v carries a message that was never sent", d)
				continue
			}
			g[d.Tag] = append(g[d.Tag], d)
		}
		return g
	}
	deadA, deadB := group(st.dcA.Dead, "sender-system"), group(st.dcB.Dead, "receiver-system")
	if c.Failed() {
		return
	}
	var tags []int
	for t := range st.sent {
		tags = append(tags, t)
	}
	sort.Ints(tags)
	for _, t := range tags {
		r := st.sent[t]
		if !r.Accepted {
			continue
		}
		h, a, b := handled[t], len(deadA[t]), len(deadB[t])
		desc := fmt.Sprintf("remote tell tag %d to %s (unhandled script=%v, sent after the target was killed=%v): handled %d times, dead letters at the sender %v, at the receiver %v; net faults fired=%v %v; log tail: %s", t, r.To, r.Unh, r.AfterStop, h, deadA[t], deadB[t], st.faulty, st.rp.Net.Stats, st.rp.A.Tail(12))
		// exactly once per system
		if a > 1 {
			c.Fail("deadletter-twice", "failed-coalesced-batch", "%s", desc)
			return
		}
		wantB := 0
		if h == 0 || r.Unh {
			wantB = 1
		}
		if b > wantB {
			class, comp := "deadletter-twice", "remote-actor-gone"
			if wantB == 0 {
				class, comp = "deadletter-without-drop", "remote-tell"
			} else if h > 0 {
				comp = "Unhandled"
			}
			c.Fail(class, comp, "%s", desc)
			return
		}
		if h > 0 && r.Unh && b == 0 && !lateHandled[t] {
			c.Fail("drop-not-deadlettered", "Unhandled:remote", "%s", desc)
			return
		}
		if !st.faulty {
			// healthy transport: nothing fails at the sender, and a tell that arrives when the actor is gone is published at the receiver
			if a > 0 {
				c.Fail("deadletter-without-drop", "failed-coalesced-batch", "%s", desc)
				return
			}
			if r.AfterStop && b != 1 {
				c.Fail("drop-not-deadlettered", "remote-actor-gone", "%s", desc)
				return
			}
		}
		if r.AfterStop && b == 1 {
			c.Probe("drop:remote-actor-gone")
		}
		if a == 1 {
			c.Probe("drop:failed-coalesced-batch")
		}
		for _, x := range append(append([]dlRec{}, deadA[t]...), deadB[t]...) {
			m, ok := x.Msg.(*testpb.Reply)
			if !ok || m.GetContent() != r.Content {
				c.Fail("deadletter-wrong-message", "remote", "dead letter of tag %d does not carry the payload that was sent (%q): %v", t, r.Content, x)
				return
			}
			if x.Receiver != r.ToPath {
				c.Fail("deadletter-wrong-receiver", "remote", "dead letter of tag %d names receiver %s, sent to %s; %v", t, x.Receiver, r.ToPath, x)
				return
			}
			if x.Sender != st.fpath {
				c.Fail("deadletter-wrong-sender", "remote", "dead letter of tag %d names sender %s, sent by %s; %v", t, x.Sender, st.fpath, x)
				return
			}
		}
	}
}

func init() {
	Register(&Scenario{Prop: "C18", Name: "deadletters-local", Variants: []string{"stock", "small"}, Quick: 2400, Thorough: 200000,
		EstSteps: 6000, MaxSteps: 800000, MaxIdle: time.Hour, Real: sysReal, Stub: sysStub, Run: c18Run, Finish: c18Finish})
	Register(&Scenario{Prop: "C18", Name: "deadletters-remote", Variants: []string{"stock"}, Quick: 300, Thorough: 30000,
		EstSteps: 8000, MaxSteps: 3000000, MaxIdle: time.Hour, Real: remReal, Stub: remStub, Run: c18rRun, Finish: c18rFinish})
}

package scen

// C07 (supervision directives) and C08 (restart backoff arithmetic and the
// fault-counter reset window), engine C.
//
// A run builds a small actor family  gp -> parent -> c0..c2  of scripted probes.
// The children share one generated supervisor configuration, the parent has its
// own (it is the configuration the grandparent applies when the parent fails).
// One injector thread sends failing messages (panic / ctx.Err of a generated
// error kind) singly, doubled to one child, or to two siblings back to back,
// spaced by delays drawn on a grid around the configured window and backoff;
// noise threads keep ordinary traffic flowing. Everything that happened is in
// the event log (probe events + "panic-signal", "reinstate", "obs" snapshots).
//
// The oracle is a reference supervisor written from the property statement and
// the documentation (docs/actor/supervision.mdx, doc comments of package
// supervisor and of PanicSignal / Restart / Reinstate): it replays the log,
// consumes every observed failure, and predicts for every actor the PreStart
// runs (with their simulated instants), the final status, the restart count,
// the PanicSignals a parent must receive and the number of system events.
// Where the documentation leaves the outcome open (a failure of an actor that
// is already suspended and waiting for its restart, or that is being restarted
// at this very instant, may be ignored or acted upon) the model forks; a run is
// a violation when no path of the model explains the observations.

import (
	"fmt"
	"math"
	"math/big"
	"os"
	"strings"
	"time"

	"github.com/tochemey/goakt/v4/actor"
	gerrors "github.com/tochemey/goakt/v4/errors"
	"github.com/tochemey/goakt/v4/log"
	"github.com/tochemey/goakt/v4/supervisor"
)

// supDebugOpts: VERIF_SUPLOG=<file> makes a replay write goakt's debug log to that file (triage only).
func supDebugOpts() []actor.Option {
	if fn := os.Getenv("VERIF_SUPLOG"); fn != "" {
		if w, err := os.OpenFile(fn, os.O_CREATE|os.O_WRONLY|os.O_APPEND, 0o644); err == nil {
			return []actor.Option{actor.WithLogger(log.NewSlog(log.DebugLevel, w))}
		}
	}
	return nil
}

// ------------------------------------------------------------------ configuration

const (
	dNone     = -1
	dStop     = 0
	dResume   = 1
	dRestart  = 2
	dEscalate = 3
)

var dirNames = map[int]string{dNone: "none", dStop: "stop", dResume: "resume", dRestart: "restart", dEscalate: "escalate"}

const kPanic = 3 // index of the PanicError rule in supCfg.Dir (0..2 = ErrA/ErrB/ErrC reported with ctx.Err)

type supCfg struct {
	OneForAll  bool
	Dir        [4]int // directive per error kind, dNone = no rule
	Any        int    // any-error directive, dNone = not configured
	HasRetry   bool
	MaxRetries uint32
	Timeout    time.Duration
	HasBackoff bool
	Initial    time.Duration
	Max        time.Duration
	Reset      time.Duration
}

func (g *supCfg) String() string {
	st := "one-for-one"
	if g.OneForAll {
		st = "one-for-all"
	}
	s := fmt.Sprintf("%s A=%s B=%s C=%s panic=%s any=%s", st, dirNames[g.Dir[0]], dirNames[g.Dir[1]], dirNames[g.Dir[2]], dirNames[g.Dir[3]], dirNames[g.Any])
	if g.HasRetry {
		s += fmt.Sprintf(" retry(%d,%v)", g.MaxRetries, g.Timeout)
	}
	if g.HasBackoff {
		s += fmt.Sprintf(" backoff(%d,%d,%d)", int64(g.Initial), int64(g.Max), int64(g.Reset))
	}
	return s
}

func toDirective(d int) supervisor.Directive {
	switch d {
	case dStop:
		return supervisor.StopDirective
	case dResume:
		return supervisor.ResumeDirective
	case dRestart:
		return supervisor.RestartDirective
	}
	return supervisor.EscalateDirective
}

func (g *supCfg) mk() *supervisor.Supervisor {
	var opts []supervisor.SupervisorOption
	if g.OneForAll {
		opts = append(opts, supervisor.WithStrategy(supervisor.OneForAllStrategy))
	}
	for k := 0; k < 3; k++ {
		if g.Dir[k] != dNone {
			opts = append(opts, supervisor.WithDirective(mkErr(k, 0), toDirective(g.Dir[k])))
		}
	}
	if g.Dir[kPanic] != dNone {
		opts = append(opts, supervisor.WithDirective(&gerrors.PanicError{}, toDirective(g.Dir[kPanic])))
	}
	if g.Any != dNone {
		opts = append(opts, supervisor.WithAnyErrorDirective(toDirective(g.Any)))
	}
	if g.HasRetry {
		opts = append(opts, supervisor.WithRetry(g.MaxRetries, g.Timeout))
	}
	if g.HasBackoff {
		opts = append(opts, supervisor.WithExponentialBackoff(g.Initial, g.Max, g.Reset))
	}
	return supervisor.NewSupervisor(opts...)
}

// --- the reference semantics of one configuration (from the documentation)

// refDirective: the any-error directive, when configured, is the sole rule;
// otherwise the rule of the error's type; a panic is reported as PanicError whose
// default rule is Stop; no rule => the actor is suspended.
func (g *supCfg) refDirective(kind int) int {
	if g.Any != dNone {
		return g.Any
	}
	if g.Dir[kind] != dNone {
		return g.Dir[kind]
	}
	if kind == kPanic {
		return dStop
	}
	return dNone
}

func (g *supCfg) backoffOn() bool { return g.HasBackoff && g.Initial > 0 }

func (g *supCfg) effMax() time.Duration {
	if g.Max < g.Initial {
		return g.Initial
	}
	return g.Max
}

// refWindow: backoff's resetAfter (default: the maximum delay) when backoff is
// configured, otherwise the WithRetry timeout; non-positive = no window.
func (g *supCfg) refWindow() time.Duration {
	if g.backoffOn() {
		if g.Reset > 0 {
			return g.Reset
		}
		return g.effMax()
	}
	if g.HasRetry {
		return g.Timeout
	}
	return -1
}

// refBackoff = min(initial * 2^(n-1), max) in unbounded integer arithmetic.
func (g *supCfg) refBackoff(n int64) time.Duration {
	if !g.backoffOn() || n < 1 {
		return 0
	}
	v := new(big.Int).Lsh(big.NewInt(int64(g.Initial)), uint(n-1))
	mx := big.NewInt(int64(g.effMax()))
	if v.Cmp(mx) > 0 {
		return time.Duration(mx.Int64())
	}
	return time.Duration(v.Int64())
}

func (g *supCfg) maxDelay() time.Duration {
	if !g.backoffOn() {
		return 0
	}
	return g.effMax()
}

// ------------------------------------------------------------------ the family

const (
	stRun = iota
	stSusp
	stStop
)

var stNames = []string{"running", "suspended", "stopped"}

type supActor struct {
	name   string
	parent int // index of the parent in supFam.acts, -1 for the grandparent
	cfg    *supCfg
	probe  *Probe
	pid    *actor.PID
}

type supFam struct {
	c     *Ctx
	s     *Sys
	acts  []*supActor
	exact bool // C08: the restart of a suspended actor must happen at fault + delay (never earlier, at most tol later)
	slack time.Duration
	tol   time.Duration // C08: simulated time a restart may lose to spin-waits (the scheduler lets the fake clock advance by up to 1 ms per step while only polling goroutines are runnable)
	// reaction of the parent to a PanicSignal: 0 ignore, 1 ctx.Err(kind), 2 panic(kind)
	react, reactKind int
	events           map[string]map[string]int // actor name -> event type -> count (system event stream)
	eventsOK         bool
	t0               time.Time
	now0             time.Duration
	childSup         *supervisor.Supervisor // the instance shared by the children (also by a sibling spawned later)
	childCfg         *supCfg
}

type obsAct struct {
	St       int
	Restarts int
	Inc      int
	PingOK   bool
	PingInc  int
}

type supObs struct {
	Final   bool
	SysDown bool // the actor system is no longer running although nobody stopped it
	Acts    []obsAct
}

func (o *supObs) String() string {
	var b strings.Builder
	for i, a := range o.Acts {
		fmt.Fprintf(&b, "[%d:%s inc=%d restarts=%d ping=%v]", i, stNames[a.St], a.Inc, a.Restarts, a.PingOK)
	}
	return b.String()
}

func (f *supFam) idx(name string) int {
	for i, a := range f.acts {
		if a.name == name {
			return i
		}
	}
	return -1
}

func (f *supFam) children(x int) []int {
	var l []int
	for i, a := range f.acts {
		if a.parent == x {
			l = append(l, i)
		}
	}
	return l
}

func unwrapTag(m any) int {
	for i := 0; i < 4; i++ {
		switch v := m.(type) {
		case *Cmd:
			return v.Tag
		case *actor.PanicSignal:
			m = v.Message()
		default:
			return -1
		}
	}
	return -1
}

// onSignal is the OnUnknown hook of the grandparent and the parent: it logs a
// received PanicSignal and lets the parent react as generated.
func (f *supFam) onSignal(rc *actor.ReceiveContext, p *Probe) {
	ps, ok := rc.Message().(*actor.PanicSignal)
	if !ok {
		rc.Unhandled()
		return
	}
	tag := unwrapTag(ps.Message())
	f.s.Ev(Ev{Actor: p.Name, Inc: p.Inc, Kind: "panic-signal", Tag: tag, Aux: ps.Reason()})
	if p.Name != "parent" || f.react == 0 {
		return
	}
	if f.react == 1 {
		f.s.Ev(Ev{Actor: p.Name, Inc: p.Inc, Kind: "fail", Tag: tag, Aux: fmt.Sprintf("err:%d", f.reactKind)})
		rc.Err(mkErr(f.reactKind, tag))
		return
	}
	f.s.Ev(Ev{Actor: p.Name, Inc: p.Inc, Kind: "fail", Tag: tag, Aux: fmt.Sprintf("panic:%d", f.reactKind)})
	panic(mkErr(f.reactKind, tag))
}

// build spawns gp -> parent -> children. Returns false when spawning failed.
func (f *supFam) build(nch int, parentCfg, childCfg *supCfg, mbs []sysMailbox) bool {
	c, s := f.c, f.s
	f.t0, f.now0 = time.Now(), Now()
	gp, gpid, err := s.Spawn("gp", actor.WithLongLived())
	if err != nil {
		c.Fail("spawn-failed", "gp", "%v", err)
		return false
	}
	gp.OnUnknown = f.onSignal
	f.acts = append(f.acts, &supActor{name: "gp", parent: -1, probe: gp, pid: gpid})
	pp := s.NewProbe("parent")
	pp.OnUnknown = f.onSignal
	ppid, err := gpid.SpawnChild(s.Ctx, "parent", pp, actor.WithLongLived(), actor.WithSupervisor(parentCfg.mk()))
	if err != nil {
		c.Fail("spawn-failed", "parent", "%v", err)
		return false
	}
	f.acts = append(f.acts, &supActor{name: "parent", parent: 0, cfg: parentCfg, probe: pp, pid: ppid})
	sup := childCfg.mk() // one shared instance, as users typically do
	f.childSup, f.childCfg = sup, childCfg
	for i := 0; i < nch; i++ {
		name := fmt.Sprintf("c%d", i)
		cp := s.NewProbe(name)
		opts := []actor.SpawnOption{actor.WithLongLived(), actor.WithSupervisor(sup)}
		if len(mbs) > 0 {
			opts = append(opts, mbs[c.W.Draw(len(mbs))].Opt()...)
		}
		cpid, err := ppid.SpawnChild(s.Ctx, name, cp, opts...)
		if err != nil {
			c.Fail("spawn-failed", name, "%v", err)
			return false
		}
		f.acts = append(f.acts, &supActor{name: name, parent: 1, cfg: childCfg, probe: cp, pid: cpid})
	}
	return true
}

// spawnLate adds one more child under the same parent and supervisor while the run is under way: its
// consecutive-fault counter starts at zero while its siblings already carry faults.
func (f *supFam) spawnLate() bool {
	name := fmt.Sprintf("c%d", len(f.acts)-2)
	cp := f.s.NewProbe(name)
	cpid, err := f.acts[1].pid.SpawnChild(f.s.Ctx, name, cp, actor.WithLongLived(), actor.WithSupervisor(f.childSup))
	if err != nil {
		return false
	}
	f.acts = append(f.acts, &supActor{name: name, parent: 1, cfg: f.childCfg, probe: cp, pid: cpid})
	return true
}

func (f *supFam) status(i int) int {
	pid := f.acts[i].pid
	if pid.IsRunning() {
		return stRun
	}
	if f.acts[i].probe.Stopped {
		// PostStop ran for the current incarnation: stopped, whatever flags a racing suspension left behind
		return stStop
	}
	if pid.IsSuspended() {
		return stSusp
	}
	return stStop
}

// observe records what the public API shows for every actor (status, restart
// count, a ping). Called by the injector at points where it has waited out every
// delay it caused.
func (f *supFam) observe(final bool) {
	o := &supObs{Final: final, SysDown: !f.s.Sys.Running()}
	for i, a := range f.acts {
		oa := obsAct{St: f.status(i), Restarts: a.pid.RestartCount(), Inc: a.probe.Inc}
		r, err := f.s.Ask(a.pid, &Cmd{Tag: f.c.Seq(), From: 9, Ops: []Op{{K: OpRespond}}}, time.Second)
		oa.PingOK = err == nil
		if r != nil {
			oa.PingInc = r.Inc
		}
		o.Acts = append(o.Acts, oa)
	}
	f.s.Ev(Ev{Kind: "obs", Aux: o})
}

func (f *supFam) fault(target, kind, sub int, from, seq int) bool {
	cm := &Cmd{Tag: f.c.Seq(), From: from, Seq: seq}
	if f.c.W.Draw(3) == 2 {
		cm.Ops = append(cm.Ops, Op{K: OpYield, N: 1 + f.c.W.Draw(2)})
	}
	if kind == kPanic {
		cm.Ops = append(cm.Ops, Op{K: OpPanic, N: sub})
		f.c.Fault("handler-panic")
	} else {
		cm.Ops = append(cm.Ops, Op{K: OpErr, N: kind})
		f.c.Fault("handler-err")
	}
	return f.s.Tell(f.acts[target].pid, cm) == nil
}

func (f *supFam) reinstate(x int) {
	a := f.acts[x]
	by := f.acts[a.parent].pid
	if !by.IsRunning() {
		by = f.s.Sys.NoSender()
	}
	err := by.Reinstate(a.pid)
	f.c.Fault("reinstate")
	f.s.Ev(Ev{Actor: a.name, Kind: "reinstate", Aux: err})
}

// ------------------------------------------------------------------ the reference model

type mAct struct {
	st        int
	inc       int
	restarts  int
	faults    int64
	lastFault time.Duration
	hasFault  bool
	nSusp     int
	nRestEv   int
	nReinst   int
	deferred  [][2]int // (kind, tag) of failures that may be acted upon once the pending restart is done
	expSig    []int    // tags of PanicSignals this actor still has to receive
	comp      string   // directive/strategy that last touched this actor (violation component)
	stopAt    time.Duration
	nSuspOpt  int           // suspensions that may or may not have happened (sibling caught in the middle of a restart)
	lastRe    time.Duration // instant of the last observed restart, -1 = none
	suspAt    time.Duration // instant at which a group budget suspended it, -1 = never
	// restarting: PreStart of a restart has run, the PostStart that ends the restart has not been handled yet.
	// goakt keeps the suspended flag of the previous failure until the very end of the restart, and the
	// supervision consumer drops failure signals of an actor that carries it.
	restarting bool
	stopping   bool // stopped by the model, PostStop not observed yet
}

type mPend struct {
	a       int
	due     time.Duration
	n       int64
	subtree bool
}

type supPath struct {
	a        []mAct
	pend     []mPend
	trace    []string
	final    bool      // the final snapshot has been taken: what follows is the shutdown of the system
	overlap  bool      // two restarts of one actor were due within 15 ms of each other
	lastComp string    // directive/strategy of the last failure acted upon
	soft     *supDeath // a mismatch that does not stop the replay (restart counter)
}

func (p *supPath) clone() *supPath {
	q := &supPath{a: make([]mAct, len(p.a)), pend: append([]mPend(nil), p.pend...), trace: append([]string(nil), p.trace...), overlap: p.overlap, lastComp: p.lastComp, soft: p.soft, final: p.final}
	for i := range p.a {
		q.a[i] = p.a[i]
		q.a[i].deferred = append([][2]int(nil), p.a[i].deferred...)
		q.a[i].expSig = append([]int(nil), p.a[i].expSig...)
	}
	return q
}

func (p *supPath) key() string {
	var b strings.Builder
	for _, a := range p.a {
		fmt.Fprintf(&b, "%d,%d,%d,%d,%d,%v,%d,%d,%d,%v,%v;", a.st, a.inc, a.restarts, a.faults, a.lastFault, a.hasFault, a.nSusp, a.nRestEv, a.nReinst, a.deferred, a.expSig)
		fmt.Fprintf(&b, "%d,%d;", a.nSuspOpt, a.lastRe)
		fmt.Fprintf(&b, "%v,%v;", a.restarting, a.stopping)
	}
	for _, q := range p.pend {
		fmt.Fprintf(&b, "%d@%d/%v|", q.a, q.due, q.subtree)
	}
	fmt.Fprintf(&b, "%v,%v", p.overlap, p.soft != nil)
	return b.String()
}

type supDeath struct {
	class, comp, detail string
	at                  int
	trace               []string
	flagged             bool // died on a path on which restarts overlapped
}

type supOracle struct {
	f      *supFam
	paths  []*supPath
	best   *supDeath
	deaths []*supDeath
}

func (o *supOracle) timeOf(at int) time.Duration {
	log := o.f.s.Log
	if len(log) == 0 {
		return 0
	}
	if at >= len(log) {
		at = len(log) - 1
	}
	return log[at].T
}

// choose picks the death that is reported when no path of the model explains the run: the one that got
// furthest - unless that one lies on a path without overlapping restarts while an alternative path of the
// same fork, on which restarts do overlap, died at the same simulated instant (the clean alternative was simply
// the wrong guess), or it is only the end-of-run event count that differs.
func (o *supOracle) choose() *supDeath {
	best := o.best
	if best == nil || best.flagged {
		return best
	}
	var alt *supDeath
	for _, d := range o.deaths {
		if !d.flagged {
			continue
		}
		dt := o.timeOf(best.at) - o.timeOf(d.at)
		if best.class == "system-event-count-mismatch" || (dt <= 20*time.Millisecond && dt >= -20*time.Millisecond) {
			if alt == nil || d.at > alt.at {
				alt = d
			}
		}
	}
	if alt != nil {
		return alt
	}
	return best
}

func (o *supOracle) die(p *supPath, at int, class, comp, format string, args ...any) {
	d := &supDeath{class: class, comp: comp, detail: fmt.Sprintf(format, args...), at: at, trace: p.trace}
	if p.overlap {
		// restarts of one actor overlapped (each runs on its own goroutine): whatever goes wrong afterwards is
		// reported under one signature
		st := "one-for-one"
		if strings.Contains(comp, "one-for-all") || strings.Contains(p.lastComp, "one-for-all") {
			st = "one-for-all"
		}
		d.class, d.comp, d.detail = "overlapping-restarts", st, class+"/"+comp+": "+d.detail
		d.flagged = true
	}
	o.deaths = append(o.deaths, d)
	// ties: a path on which restarts overlapped and that explains the run equally far wins (known family)
	if o.best == nil || d.at > o.best.at || (d.at == o.best.at && d.class == "overlapping-restarts" && o.best.class != "overlapping-restarts") {
		o.best = d
	}
}

func (o *supOracle) compOf(x int, d int) string {
	g := o.f.acts[x].cfg
	st := "one-for-one"
	if g != nil && g.OneForAll {
		st = "one-for-all"
	}
	return dirNames[d] + "/" + st
}

func (a *mAct) recordFault(window, t time.Duration) {
	// the counter restarts from one when the previous fault is older than a positive window
	if window > 0 && a.hasFault && t-a.lastFault > window {
		a.faults = 0
	}
	a.lastFault, a.hasFault = t, true
	a.faults++
}

func (p *supPath) addPend(q mPend) {
	for _, x := range p.pend {
		if d := x.due - q.due; x.a == q.a && d < 15*time.Millisecond && d > -15*time.Millisecond {
			p.overlap = true
		}
	}
	p.pend = append(p.pend, q)
}

func (o *supOracle) stopSubtree(p *supPath, m int, comp string, t time.Duration) {
	p.a[m].stopping = p.a[m].st != stStop
	p.a[m].st = stStop
	p.a[m].stopAt = t
	p.a[m].comp = comp
	p.a[m].deferred = nil
	kept := p.pend[:0]
	for _, q := range p.pend {
		if q.a != m {
			kept = append(kept, q)
		}
	}
	p.pend = kept
	for _, ch := range o.f.children(m) {
		if p.a[ch].st != stStop {
			o.stopSubtree(p, ch, comp, t)
		}
	}
}

// effective applies one failure of actor x that the supervisor acts upon.
func (o *supOracle) effective(p *supPath, x, kind, tag int, t time.Duration) {
	ax := &p.a[x]
	g := o.f.acts[x].cfg
	par := o.f.acts[x].parent
	d := g.refDirective(kind)
	comp := o.compOf(x, d)
	p.trace = append(p.trace, fmt.Sprintf("t=%v %s fails (kind %d, tag %d) => %s", t, o.f.acts[x].name, kind, tag, comp))
	p.lastComp = comp
	if d == dResume {
		// state kept, no suspension, nothing else happens
		ax.comp = comp
		return
	}
	ax.st = stSusp
	ax.nSusp++
	ax.comp = comp
	if d == dNone {
		return
	}
	if p.a[par].st != stRun {
		// nobody to apply the directive: the child just stays suspended (outside the generated domain)
		ax.comp = "parent-not-running"
		return
	}
	group := []int{x}
	if g.OneForAll {
		for _, sb := range o.f.children(par) {
			if sb != x && p.a[sb].st != stStop {
				group = append(group, sb)
			}
		}
	}
	switch d {
	case dStop:
		for _, m := range group {
			if m != x && p.inProgress(m, t) {
				// a sibling in the middle of a restart is out of the actor tree: the group stop may miss it
				p.overlap = true
			}
		}
		for _, m := range group {
			o.stopSubtree(p, m, comp, t)
		}
	case dEscalate:
		p.a[par].expSig = append(p.a[par].expSig, tag)
	case dRestart:
		window := g.refWindow()
		for _, m := range group {
			p.a[m].recordFault(window, t)
			p.a[m].comp = comp
		}
		n := ax.faults
		if g.MaxRetries > 0 && window > 0 && n > int64(g.MaxRetries) {
			comp = "budget/" + strings.SplitN(comp, "/", 2)[1]
			p.trace = append(p.trace, fmt.Sprintf("  fault %d > budget %d within %v: group suspended", n, g.MaxRetries, window))
			for _, m := range group {
				if m != x && (p.inProgress(m, t) || (p.a[m].restarting && p.a[m].lastRe == t)) {
					// the group is suspended while a restart of one of its members is in progress:
					// whether that member ends up suspended or restarted is decided by goroutine order
					p.overlap = true
				}
			}
			for _, m := range group {
				p.a[m].comp = comp
				if m != x && p.a[m].st == stRun {
					if p.inProgress(m, t) {
						// caught in the middle of a restart: it may or may not count as running
						p.a[m].nSuspOpt++
						continue
					}
					p.a[m].st = stSusp
					p.a[m].suspAt = t
					p.a[m].nSusp++
				}
			}
			return
		}
		delay := g.refBackoff(n)
		p.trace = append(p.trace, fmt.Sprintf("  fault %d: restart of %v due at %v (delay %d ns)", n, group, t+delay, int64(delay)))
		for _, m := range group {
			if m != x && (p.inProgress(m, t) || (p.a[m].lastRe >= 0 && t-p.a[m].lastRe < 15*time.Millisecond)) {
				// the sibling's previous restart is barely over (it leaves the actor tree while it restarts)
				p.overlap = true
			}
			p.addPend(mPend{a: m, due: t + delay, n: n, subtree: true})
		}
	}
}

func (p *supPath) inProgress(x int, t time.Duration) bool {
	for _, q := range p.pend {
		if q.a == x && q.due <= t {
			return true
		}
	}
	return false
}

func parseFail(aux any) (kind, sub int, ok bool) {
	s, _ := aux.(string)
	var n int
	if _, err := fmt.Sscanf(s, "panic:%d", &n); err == nil {
		return kPanic, n, true
	}
	if _, err := fmt.Sscanf(s, "err:%d", &n); err == nil {
		if n > 2 {
			n = 2
		}
		return n, 0, true
	}
	return 0, 0, false
}

// step feeds one log event to one path; it returns the successor paths (none when the path died).
func (o *supOracle) step(p *supPath, e Ev) []*supPath {
	f := o.f
	t := e.T
	switch e.Kind {
	case "prestart-enter":
		x := f.idx(e.Actor)
		if x < 0 {
			return []*supPath{p}
		}
		a := &p.a[x]
		if e.Inc == 1 {
			a.st, a.inc = stRun, 1
			return []*supPath{p}
		}
		best := -1
		for i, q := range p.pend {
			if q.a == x && (best < 0 || q.due < p.pend[best].due) {
				best = i
			}
		}
		if best < 0 {
			if a.st == stStop {
				o.die(p, e.Seq, "stopped-actor-restarted", a.comp, "%s was stopped by the supervisor but its PreStart ran again (run %d) at t=%v", e.Actor, e.Inc, t)
			} else {
				o.die(p, e.Seq, "unexpected-prestart", a.comp, "PreStart of %s ran again (run %d) at t=%v although no restart is due (model status %s)", e.Actor, e.Inc, t, stNames[a.st])
			}
			return nil
		}
		q := p.pend[best]
		g := f.acts[x].cfg
		cfgStr := ""
		if g != nil {
			cfgStr = g.String()
		}
		if t < q.due {
			o.die(p, e.Seq, "restart-before-delay-elapsed", a.comp, "%s restarted at t=%v, %d ns before its restart was due (consecutive fault %d, due t=%v) [%s]", e.Actor, t, int64(q.due-t), q.n, q.due, cfgStr)
			return nil
		}
		late := t - q.due
		if late > 0 {
			f.c.Probe("restart-after-due-instant")
		}
		if f.exact && a.st == stSusp && late > f.tol {
			o.die(p, e.Seq, "restart-delay-mismatch", a.comp, "%s: PreStart re-ran %d ns after the moment fault+delay (consecutive fault %d, expected delay such that restart at t=%d ns, observed t=%d ns) [%s]", e.Actor, int64(late), q.n, int64(q.due), int64(t), cfgStr)
			return nil
		}
		if late > f.slack {
			o.die(p, e.Seq, "restart-late", a.comp, "%s restarted %v after its restart was due (consecutive fault %d) [%s]", e.Actor, late, q.n, cfgStr)
			return nil
		}
		if e.Inc != a.inc+1 {
			o.die(p, e.Seq, "prestart-count-mismatch", a.comp, "%s PreStart run %d observed, model expected run %d", e.Actor, e.Inc, a.inc+1)
			return nil
		}
		p.pend = append(p.pend[:best:best], p.pend[best+1:]...)
		a.st, a.inc = stRun, e.Inc
		a.restarting = true
		a.lastRe = t
		a.restarts++
		a.nRestEv++
		if q.subtree {
			for _, ch := range f.children(x) {
				if p.a[ch].st != stStop {
					p.addPend(mPend{a: ch, due: q.due, n: q.n, subtree: true})
				}
			}
		}
		def := a.deferred
		a.deferred = nil
		for _, d := range def {
			o.effective(p, x, d[0], d[1], t)
		}
		return []*supPath{p}

	case "poststop-enter":
		if x := f.idx(e.Actor); x >= 0 {
			a := &p.a[x]
			a.stopping = false
			hasPend := false
			for _, q := range p.pend {
				if q.a == x || q.a == f.acts[x].parent {
					hasPend = true
				}
			}
			if !p.final && x >= 1 && a.st == stRun && !hasPend && p.a[f.acts[x].parent].st == stRun {
				// neither a stop nor the shutdown half of a restart is due for it
				comp := a.comp
				if comp == "" {
					comp = "untouched"
				}
				o.die(p, e.Seq, "unexpected-stop", comp, "PostStop of %s (PreStart run %d) ran at t=%v although the reference supervisor has it running with no restart due", e.Actor, e.Inc, t)
				return nil
			}
		}
		return []*supPath{p}

	case "poststart":
		if x := f.idx(e.Actor); x >= 0 && e.Inc == p.a[x].inc {
			p.a[x].restarting = false
		}
		return []*supPath{p}

	case "fail":
		x := f.idx(e.Actor)
		kind, _, ok := parseFail(e.Aux)
		if x < 1 || !ok {
			return []*supPath{p}
		}
		a := &p.a[x]
		inProg := p.inProgress(x, t)
		switch {
		case a.st == stRun && !inProg && a.restarting:
			// the new incarnation fails before its restart has completed: either the supervisor acts, or the
			// failure is swallowed (no directive applied to a failed handler) - the latter is reported under
			// its own class when nothing else explains the run
			p2 := p.clone()
			o.effective(p, x, kind, e.Tag, t)
			st := "one-for-one"
			if f.acts[x].cfg.OneForAll {
				st = "one-for-all"
			}
			p2.trace = append(p2.trace, fmt.Sprintf("t=%v failure of re-initialised %s (PreStart run %d, tag %d) before its restart completed: dropped", t, e.Actor, e.Inc, e.Tag))
			if p2.soft == nil || p2.soft.class == "restart-count-mismatch" {
				p2.soft = &supDeath{class: "failure-dropped-while-restart-completes", comp: st, at: e.Seq, trace: p2.trace,
					detail: fmt.Sprintf("%s (PreStart run %d) failed handling message tag %d at t=%v, after its PreStart had re-run but before the restart had completed; no directive was applied (%s expected): the failure was swallowed", e.Actor, e.Inc, e.Tag, t, dirNames[f.acts[x].cfg.refDirective(kind)])}
			}
			// third possibility: the supervisor acts and leaves the actor suspended (no rule, escalation, budget
			// exhausted), then the end of the still running restart clears that suspension
			p3 := p.clone()
			if p3.a[x].st == stSusp && !p3.inProgress(x, 1<<62) {
				p3.a[x].st = stRun
				p3.trace = append(p3.trace, fmt.Sprintf("t=%v ... and the completing restart of %s erased the suspension", t, e.Actor))
				if p3.soft == nil || p3.soft.class == "restart-count-mismatch" {
					p3.soft = &supDeath{class: "suspension-erased-by-completing-restart", comp: st, at: e.Seq, trace: p3.trace,
						detail: fmt.Sprintf("%s (PreStart run %d) failed handling message tag %d at t=%v before its restart had completed; the supervisor left it suspended (%s) but it is running again: the end of restartSubtree cleared the new suspension", e.Actor, e.Inc, e.Tag, t, p3.a[x].comp)}
				}
				return []*supPath{p, p2, p3}
			}
			return []*supPath{p, p2}
		case a.st == stRun && !inProg:
			o.effective(p, x, kind, e.Tag, t)
			return []*supPath{p}
		case a.st == stRun && inProg:
			// the actor is being restarted at this very instant: the failure may be
			// dropped with the old incarnation, acted upon now, or acted upon right
			// after the restart
			p.overlap = true // a failure handled while a restart of the same actor is in progress
			p1, p2 := p.clone(), p.clone()
			p.trace = append(p.trace, fmt.Sprintf("t=%v failure of %s (tag %d) during its restart: ignored", t, e.Actor, e.Tag))
			o.effective(p1, x, kind, e.Tag, t)
			p2.a[x].deferred = append(p2.a[x].deferred, [2]int{kind, e.Tag})
			p2.trace = append(p2.trace, fmt.Sprintf("t=%v failure of %s (tag %d) during its restart: deferred", t, e.Actor, e.Tag))
			return []*supPath{p, p1, p2}
		case a.st == stSusp && inProg:
			p2 := p.clone()
			p2.overlap = true // acted upon right after the restart: the two restarts run back to back
			p.trace = append(p.trace, fmt.Sprintf("t=%v failure of suspended %s (tag %d): ignored", t, e.Actor, e.Tag))
			p2.a[x].deferred = append(p2.a[x].deferred, [2]int{kind, e.Tag})
			p2.trace = append(p2.trace, fmt.Sprintf("t=%v failure of suspended %s (tag %d): deferred until its restart completes", t, e.Actor, e.Tag))
			return []*supPath{p, p2}
		case a.st == stStop && (a.stopAt == t || a.stopping) && a.inc > 0:
			// the actor is being stopped at this very instant: its failure may still be picked up (it is
			// suspended, then stopped anyway) or dropped
			p2 := p.clone()
			p.trace = append(p.trace, fmt.Sprintf("t=%v failure of %s (tag %d) while it is being stopped: ignored", t, e.Actor, e.Tag))
			if f.acts[x].cfg.refDirective(kind) != dResume {
				p2.a[x].nSusp++
			}
			p2.trace = append(p2.trace, fmt.Sprintf("t=%v failure of %s (tag %d) while it is being stopped: suspended first", t, e.Actor, e.Tag))
			return []*supPath{p, p2}
		case a.st == stSusp && a.suspAt == t && !inProg:
			// suspended with its group at this very instant: it may still have been running when it failed; then
			// its own failure is served as well, with its own consecutive-fault count
			p2 := p.clone()
			if f.acts[x].cfg.refDirective(kind) != dResume {
				a.nSuspOpt++
			}
			p.trace = append(p.trace, fmt.Sprintf("t=%v failure of %s (tag %d), suspended with its group at this instant: ignored", t, e.Actor, e.Tag))
			p2.a[x].st = stRun
			p2.a[x].nSusp--
			p2.a[x].nSuspOpt++
			o.effective(p2, x, kind, e.Tag, t)
			return []*supPath{p, p2}
		default:
			p.trace = append(p.trace, fmt.Sprintf("t=%v failure of %s %s (tag %d): ignored", t, stNames[a.st], e.Actor, e.Tag))
			return []*supPath{p}
		}

	case "panic-signal":
		x := f.idx(e.Actor)
		if x < 0 {
			return []*supPath{p}
		}
		a := &p.a[x]
		for i, tg := range a.expSig {
			if tg == e.Tag {
				a.expSig = append(a.expSig[:i:i], a.expSig[i+1:]...)
				return []*supPath{p}
			}
		}
		o.die(p, e.Seq, "unexpected-panic-signal", "escalate", "%s received a PanicSignal for message tag %d that no child escalated (expected tags %v)", e.Actor, e.Tag, a.expSig)
		return nil

	case "reinstate":
		x := f.idx(e.Actor)
		if x < 0 || e.Aux != nil {
			return []*supPath{p}
		}
		a := &p.a[x]
		if a.st == stSusp {
			a.st = stRun
			a.nReinst++
			p.trace = append(p.trace, fmt.Sprintf("t=%v %s reinstated", t, e.Actor))
		}
		return []*supPath{p}

	case "obs":
		ob, _ := e.Aux.(*supObs)
		if ob == nil {
			return []*supPath{p}
		}
		if ob.Final {
			p.final = true
		}
		if ob.SysDown {
			comp := p.lastComp
			if comp == "" {
				comp = "untouched"
			}
			if strings.HasPrefix(comp, "stop/") {
				comp = "stop-directive"
			}
			o.die(p, e.Seq, "actor-system-went-down", comp, "the whole actor system stopped by itself after a supervised failure of a user actor; observed %s", ob)
			return nil
		}
		for _, q := range p.pend {
			if q.due+f.slack < t {
				a := &p.a[q.a]
				cfgStr := ""
				if g := f.acts[q.a].cfg; g != nil {
					cfgStr = g.String()
				}
				o.die(p, e.Seq, "restart-missing", a.comp, "%s: the restart due at t=%v (consecutive fault %d) has not happened by t=%v; observed %s [%s]", f.acts[q.a].name, q.due, q.n, t, ob, cfgStr)
				return nil
			}
		}
		if len(p.pend) > 0 {
			return []*supPath{p}
		}
		for i := range p.a {
			if len(p.a[i].deferred) > 0 {
				// "acted upon once the pending restart completes", but no restart is pending any more: not a possible history
				return nil
			}
		}
		for i := range p.a {
			if i >= len(ob.Acts) {
				break // spawned after this snapshot
			}
			a, oa := &p.a[i], ob.Acts[i]
			name := f.acts[i].name
			comp := a.comp
			if comp == "" {
				comp = "untouched"
			}
			if oa.St != a.st {
				o.die(p, e.Seq, "wrong-status", comp, "%s is %s, the reference supervisor says %s; observed %s", name, stNames[oa.St], stNames[a.st], ob)
				return nil
			}
			if oa.Inc != a.inc {
				o.die(p, e.Seq, "prestart-count-mismatch", comp, "%s ran PreStart %d times, the reference supervisor says %d", name, oa.Inc, a.inc)
				return nil
			}
			if a.st == stRun && (!oa.PingOK || oa.PingInc != a.inc) {
				o.die(p, e.Seq, "running-actor-does-not-process", comp, "%s should be running (PreStart run %d) but a ping got ok=%v from run %d", name, a.inc, oa.PingOK, oa.PingInc)
				return nil
			}
			if a.st != stRun && oa.PingOK {
				o.die(p, e.Seq, "non-running-actor-processes", comp, "%s should be %s but answered a ping", name, stNames[a.st])
				return nil
			}
			if len(a.expSig) > 0 {
				o.die(p, e.Seq, "panic-signal-missing", "escalate", "%s never received the PanicSignal for escalated failure(s) of message tag(s) %v", name, a.expSig)
				return nil
			}
		}
		// restart counts last and without ending the replay: a separate, narrower class
		for i := range p.a {
			if i >= len(ob.Acts) {
				break
			}
			a, oa := &p.a[i], ob.Acts[i]
			if p.soft == nil && a.st != stStop && oa.Restarts != a.restarts {
				how := "count-high"
				if oa.Restarts < a.restarts {
					how = "count-lost"
				}
				p.soft = &supDeath{class: "restart-count-mismatch", comp: how, at: e.Seq, trace: p.trace,
					detail: fmt.Sprintf("%s reports RestartCount()=%d after %d restarts (PreStart ran %d times); last directive %s; observed %s", f.acts[i].name, oa.Restarts, a.restarts, a.inc, a.comp, ob)}
			}
		}
		return []*supPath{p}
	}
	return []*supPath{p}
}

func supRelevant(k string) bool {
	switch k {
	case "prestart-enter", "fail", "panic-signal", "reinstate", "obs", "poststop-enter", "poststart":
		return true
	}
	return false
}

// supFinish runs the reference model over the log.
func supFinish(c *Ctx) {
	f, _ := c.state.(*supFam)
	if f == nil || c.Failed() {
		return
	}
	o := &supOracle{f: f}
	o.paths = []*supPath{{a: make([]mAct, len(f.acts))}}
	for i := range o.paths[0].a {
		o.paths[0].a[i].st = stStop
		o.paths[0].a[i].lastRe = -1
		o.paths[0].a[i].suspAt = -1
	}
	maxPaths := 1
	for _, e := range f.s.Log {
		if !supRelevant(e.Kind) {
			continue
		}
		var next []*supPath
		seen := map[string]bool{}
		for _, p := range o.paths {
			for _, q := range o.step(p, e) {
				k := q.key()
				if !seen[k] {
					seen[k] = true
					next = append(next, q)
				}
			}
		}
		o.paths = next
		if len(next) > maxPaths {
			maxPaths = len(next)
		}
		if len(next) == 0 {
			break
		}
		if len(next) > 4096 {
			c.Probe("model-path-cap")
			return
		}
	}
	if maxPaths > 1 {
		c.Probe("model-forked")
	}
	// system events, on the surviving paths
	if len(o.paths) > 0 && f.eventsOK {
		var next []*supPath
		for _, p := range o.paths {
			ok := true
			for i := 1; i < len(p.a) && ok; i++ {
				a, name := &p.a[i], f.acts[i].name
				ev := f.events[name]
				for _, chk := range []struct {
					typ  string
					want int
					opt  int
				}{{"suspended", a.nSusp, a.nSuspOpt}, {"restarted", a.nRestEv, 0}, {"reinstated", a.nReinst, 0}} {
					if ev[chk.typ] < chk.want || ev[chk.typ] > chk.want+chk.opt {
						o.die(p, len(f.s.Log), "system-event-count-mismatch", chk.typ, "event stream carried %d Actor%s events for %s, the reference supervisor says %d (all events for it: %v)", ev[chk.typ], chk.typ, name, chk.want, ev)
						ok = false
						break
					}
				}
			}
			if ok {
				next = append(next, p)
			}
		}
		o.paths = next
	}
	d := o.choose()
	if len(o.paths) > 0 {
		for _, p := range o.paths {
			if p.soft == nil {
				return
			}
		}
		d = o.paths[0].soft
	}
	hist := f.hist(d.at)
	cfgs := fmt.Sprintf("parent-reaction=%d/%d ", f.react, f.reactKind)
	for _, a := range f.acts {
		if a.cfg != nil {
			cfgs += a.name + "{" + a.cfg.String() + "} "
		}
	}
	c.Fail(d.class, d.comp, "%s || configs: %s|| model: %s || history: %s", d.detail, cfgs, strings.Join(d.trace, "; "), strings.Join(hist, " | "))
}

// hist renders the supervision-relevant part of the log up to event #at.
func (f *supFam) hist(at int) []string {
	var hist []string
	for _, e := range f.s.Log {
		if supRelevant(e.Kind) && e.Seq <= at {
			hist = append(hist, fmt.Sprintf("#%d t=%d g=%s %s/%d %s tag=%d %v", e.Seq, int64(e.T), e.G, e.Actor, e.Inc, e.Kind, e.Tag, e.Aux))
		}
	}
	if len(hist) > 40 {
		hist = hist[len(hist)-40:]
	}
	return hist
}

// collectEvents drains the system event stream into per-actor counters.
func (f *supFam) collectEvents(msgs []any) {
	f.events = map[string]map[string]int{}
	add := func(name, typ string) {
		if f.events[name] == nil {
			f.events[name] = map[string]int{}
		}
		f.events[name][typ]++
	}
	for _, m := range msgs {
		switch ev := m.(type) {
		case *actor.ActorSuspended:
			add(ev.ActorPath().Name(), "suspended")
		case *actor.ActorRestarted:
			add(ev.ActorPath().Name(), "restarted")
		case *actor.ActorReinstated:
			add(ev.ActorPath().Name(), "reinstated")
		case *actor.ActorStopped:
			add(ev.ActorPath().Name(), "stopped")
		}
	}
	f.eventsOK = true
}

// ------------------------------------------------------------------ C07 workloads

func genDirective(c *Ctx) int {
	switch c.W.Draw(7) {
	case 1:
		return dStop
	case 2:
		return dResume
	case 3:
		return dNone
	case 4:
		return dEscalate
	}
	return dRestart
}

func genSupCfg(c *Ctx, allowEscalate, allowBackoff bool) *supCfg {
	g := &supCfg{Any: dNone}
	g.OneForAll = c.W.Draw(2) == 1
	for k := range g.Dir {
		g.Dir[k] = genDirective(c)
	}
	if c.W.Draw(4) == 3 {
		g.Any = []int{dRestart, dStop, dResume, dEscalate}[c.W.Draw(4)]
	}
	if !allowEscalate {
		for k := range g.Dir {
			if g.Dir[k] == dEscalate {
				g.Dir[k] = dStop
			}
		}
		if g.Any == dEscalate {
			g.Any = dStop
		}
	}
	switch c.W.Draw(3) {
	case 1:
		g.HasRetry, g.MaxRetries = true, uint32(1+c.W.Draw(3))
		g.Timeout = []time.Duration{20 * time.Millisecond, 100 * time.Millisecond, time.Second}[c.W.Draw(3)]
	case 2:
		// a non-positive timeout disables the budget
		g.HasRetry, g.MaxRetries = true, uint32(1+c.W.Draw(2))
		g.Timeout = []time.Duration{0, -1}[c.W.Draw(2)]
	}
	if allowBackoff && c.W.Draw(3) == 1 {
		g.HasBackoff = true
		g.Initial = []time.Duration{time.Millisecond, 5 * time.Millisecond, 10 * time.Millisecond}[c.W.Draw(3)]
		g.Max = []time.Duration{4 * g.Initial, 50 * time.Millisecond, g.Initial - 1, 3*g.Initial + 1}[c.W.Draw(4)]
		g.Reset = []time.Duration{0, 30 * time.Millisecond, time.Second}[c.W.Draw(3)]
		if g.HasRetry && g.Timeout <= 0 {
			// WithRetry documents a non-positive timeout as "no budget", WithExponentialBackoff
			// documents its resetAfter as taking precedence: the combination is not generated
			g.Timeout = time.Second
		}
	}
	return g
}

func sleepUntil(t time.Duration) {
	if d := t - Now(); d > 0 {
		Sleep(d)
	}
}

func c07Run(mode int) func(c *Ctx) {
	return func(c *Ctx) {
		s := StartSys(c, "c07", append(sysOpts(c), supDebugOpts()...)...)
		f := &supFam{c: c, s: s, slack: 300 * time.Millisecond}
		c.state = f
		sub, subErr := s.Sys.Subscribe()
		nch := 1 + c.W.Draw(3)
		var childCfg *supCfg
		if mode == 0 {
			childCfg = genSupCfg(c, true, true)
			if childCfg.OneForAll && nch > 1 {
				// what Escalate means for the siblings of a one-for-all group is not documented: not generated
				for k := range childCfg.Dir {
					if childCfg.Dir[k] == dEscalate {
						childCfg.Dir[k] = dStop
					}
				}
				if childCfg.Any == dEscalate {
					childCfg.Any = dStop
				}
			}
		} else {
			// budget / window: every failure restarts, a budget of 1-3 within a positive window
			childCfg = &supCfg{Any: dNone, Dir: [4]int{dRestart, dRestart, dRestart, dRestart}}
			childCfg.OneForAll = c.W.Draw(2) == 1
			if c.W.Draw(3) == 2 {
				childCfg.Any = dRestart
			}
			childCfg.HasRetry, childCfg.MaxRetries = true, uint32(1+c.W.Draw(3))
			childCfg.Timeout = []time.Duration{50 * time.Millisecond, 5 * time.Millisecond, time.Second}[c.W.Draw(3)]
			group := childCfg.OneForAll && nch > 1
			if group && childCfg.Timeout < 50*time.Millisecond && c.W.Draw(4) != 0 {
				// restarting a running sibling takes 10 ms; closer group faults make restarts overlap (kept, but rare)
				childCfg.Timeout = 50 * time.Millisecond
			}
			if c.W.Draw(3) == 1 {
				childCfg.HasBackoff = true
				childCfg.Initial = []time.Duration{time.Millisecond, 3 * time.Millisecond}[c.W.Draw(2)]
				childCfg.Max = []time.Duration{4 * childCfg.Initial, 20 * time.Millisecond}[c.W.Draw(2)]
				childCfg.Reset = []time.Duration{0, 40 * time.Millisecond, 2 * time.Millisecond}[c.W.Draw(3)]
				if group && c.W.Draw(4) != 0 {
					childCfg.Reset = 40 * time.Millisecond
				}
			}
		}
		// budget-window: in half of the one-for-all runs one more sibling joins the group after its first
		// fault(s), so the members' consecutive-fault counters differ; a 1 s window keeps the old counts alive
		late, lateStep := false, 0
		if mode == 1 && childCfg.OneForAll && c.W.Draw(2) == 1 {
			late, lateStep = true, 1+c.W.Draw(3)
			childCfg.Timeout = time.Second
			if childCfg.HasBackoff {
				childCfg.Reset = time.Second
			}
		}
		parentCfg := genSupCfg(c, true, false)
		parentCfg.OneForAll = false
		// the parent reacts to an escalated failure by failing itself only when no child restart can be
		// sleeping out a backoff at that moment (a restart whose parent is gone is skipped: outside the statement)
		chain := false
		if !childCfg.backoffOn() && mode == 0 {
			f.react = c.W.Draw(3)
			f.reactKind = c.W.Draw(3)
			chain = f.react != 0
		}
		c.Note("children", nch)
		c.Note("late_sibling", late)
		c.Note("child_supervisor", childCfg.String())
		c.Note("parent_supervisor", parentCfg.String())
		c.Note("parent_reaction", []string{"ignore", "ctx.Err", "panic"}[f.react])
		c.Comp = "supervision"
		if !f.build(nch, parentCfg, childCfg, sysMailboxesStoppable()[:5]) {
			_ = s.Stop()
			return
		}
		window := childCfg.refWindow()
		settle := childCfg.maxDelay() + parentCfg.maxDelay() + 400*time.Millisecond
		lastFault := time.Duration(-1)
		lastKind := -1
		mixed := false // the previous step queued failures of different kinds at one instant
		group := childCfg.OneForAll && (nch > 1 || late)
		nchNow := nch
		nsteps := 2 + c.W.Draw(7)
		if late {
			nsteps += 2
		}
		done := false
		injector := func() {
			seq := 0
			for k := 0; k < nsteps && !c.Failed(); k++ {
				if late && k == lateStep && lastFault >= 0 && f.status(1) == stRun {
					Sleep(childCfg.maxDelay() + 40*time.Millisecond + 300*time.Microsecond) // no restart in progress
					if f.spawnLate() {
						nchNow++
						c.Probe("late-sibling")
					}
				}
				// --- spacing
				gapKind := c.W.Draw(6)
				if late && gapKind == 0 {
					gapKind = 2 // stay inside the window
				}
				if chain {
					gapKind = 0
				}
				if mode == 1 && gapKind == 1 {
					gapKind = 3
				}
				if mixed && gapKind == 1 {
					gapKind = 2
				}
				mixed = false
				switch gapKind {
				case 0:
					Sleep(settle)
					if c.W.Draw(2) == 0 {
						f.observe(false)
					}
				case 1:
					// back to back
				case 2:
					if group && c.W.Draw(5) != 0 {
						Sleep(time.Duration(25+c.W.Draw(3))*time.Millisecond + 300*time.Microsecond) // clear of a sibling restart in progress
					} else {
						Sleep(time.Duration(1+c.W.Draw(3))*time.Millisecond + 300*time.Microsecond) // off the millisecond grid of the backoff delays
					}
				case 3:
					if window > 0 && lastFault >= 0 {
						// on the edge of the window, measured from the previous fault
						sleepUntil(lastFault + window + time.Duration(c.W.Draw(3)-1))
						c.Probe("fault-on-window-edge")
					} else {
						Sleep(time.Millisecond)
					}
				case 4:
					if childCfg.backoffOn() {
						Sleep(childCfg.Initial / 2) // while a restart is sleeping out its backoff
						c.Probe("fault-during-backoff")
					} else {
						Sleep(settle)
					}
				case 5:
					if window > 0 {
						Sleep(2*window + settle)
					} else {
						Sleep(settle)
					}
				}
				// --- the parent must be there to apply directives
				if f.status(1) != stRun {
					if f.status(1) == stSusp && c.W.Draw(2) == 0 {
						f.reinstate(1)
						Sleep(time.Millisecond)
					}
					if f.status(1) != stRun {
						break
					}
				}
				// --- action
				target := 2 + c.W.Draw(nchNow)
				kind := c.W.Draw(4)
				if gapKind == 1 && lastKind >= 0 {
					// failures at one instant that call for different directives: the order in which the
					// parent serves them is open, not generated
					kind = lastKind
				}
				lastKind = kind
				subk := c.W.Draw(3)
				act := c.W.Draw(9)
				if late && act == 6 {
					act = 0 // members' counters differ: which of two simultaneous failures the parent serves first decides the outcome
				}
				if chain && (act == 5 || act == 6) {
					act = 0 // two escalations at one instant: the second finds the parent suspended by its own reaction
				}
				switch act {
				case 5:
					// two failing messages queued to one child
					lastFault = Now()
					f.fault(target, kind, subk, 0, seq)
					seq++
					k2 := c.W.Draw(4)
					mixed = k2 != kind
					f.fault(target, k2, subk, 0, seq)
					seq++
					c.Probe("double-fault")
				case 6:
					// two siblings fail at the same time
					lastFault = Now()
					f.fault(target, kind, subk, 0, seq)
					seq++
					if nchNow > 1 {
						other := 2 + (target-2+1+c.W.Draw(nchNow-1))%nchNow
						f.fault(other, kind, subk, 0, seq)
						seq++
						c.Probe("sibling-faults")
					}
				case 7:
					// reinstate a suspended actor, if any (not in the middle of the supervisor's reaction to a failure)
					Sleep(2*time.Millisecond + 300*time.Microsecond)
					did := false
					for i := 1; i < len(f.acts); i++ {
						if f.status(i) == stSusp {
							f.reinstate(i)
							did = true
							break
						}
					}
					if !did {
						lastFault = Now()
						f.fault(target, kind, subk, 0, seq)
						seq++
					}
				case 8:
					Sleep(settle)
					f.observe(false)
				default:
					lastFault = Now()
					f.fault(target, kind, subk, 0, seq)
					seq++
				}
			}
			done = true
		}
		fns := []func(){injector}
		nnoise := c.W.Draw(3)
		for th := 1; th <= nnoise; th++ {
			n := 4 + c.W.Draw(8)
			fns = append(fns, func() {
				for k := 0; k < n && !done; k++ {
					to := f.acts[2+c.W.Draw(nch)].pid
					cm := &Cmd{Tag: c.Seq(), From: th, Seq: k}
					switch c.W.Draw(4) {
					case 1:
						cm.Ops = []Op{{K: OpYield, N: 1 + c.W.Draw(3)}}
					case 2:
						cm.Ops = []Op{{K: OpWork, D: time.Duration(1+c.W.Draw(2)) * time.Millisecond}}
					case 3:
						cm.Ops = []Op{{K: OpRespond}}
						_, _ = s.Ask(to, cm, 50*time.Millisecond)
						continue
					}
					_ = s.Tell(to, cm)
					Sleep(time.Duration(c.W.Draw(4)) * time.Millisecond)
				}
			})
		}
		Join(fns...)
		Sleep(settle)
		f.observe(true)
		if subErr == nil {
			var msgs []any
			for m := range sub.Iterator() {
				msgs = append(msgs, m.Payload())
			}
			f.collectEvents(msgs)
			_ = s.Sys.Unsubscribe(sub)
		}
		_ = s.Stop()
	}
}

// ------------------------------------------------------------------ C08 workload

var c08Pow = []uint{0, 1, 10, 20, 30, 31, 32, 33, 40, 50, 55, 56, 60, 61}

func c08Value(c *Ctx) time.Duration {
	switch c.W.Draw(8) {
	case 0:
		return time.Millisecond
	case 1:
		return 1
	case 2:
		return time.Duration(1) << c08Pow[c.W.Draw(len(c08Pow))]
	case 3:
		return time.Duration(1)<<c08Pow[1+c.W.Draw(len(c08Pow)-1)] + time.Duration(c.W.Draw(3)-1)
	case 4:
		return time.Duration(1)<<40 + 1 // shifted products of this wrap to small positive numbers
	case 5:
		return []time.Duration{3, 100 * time.Millisecond, time.Second, 7 * time.Second, time.Hour}[c.W.Draw(5)]
	case 6:
		return []time.Duration{0, -1, math.MinInt64}[c.W.Draw(3)]
	}
	return time.Duration(3) << c08Pow[c.W.Draw(len(c08Pow)-2)]
}

const c08Horizon = time.Duration(200 * 365 * 24 * int64(time.Hour)) // goakt stores instants as UnixNano (overflows in 2262); the bubble starts in 2000

func c08Run(c *Ctx) {
	s := StartSys(c, "c08", sysOpts(c)...)
	f := &supFam{c: c, s: s, exact: true, slack: 300 * time.Millisecond, tol: 20 * time.Millisecond}
	c.state = f
	c.Comp = "backoff"
	g := &supCfg{Any: dNone, Dir: [4]int{dRestart, dNone, dNone, dRestart}}
	g.HasBackoff = true
	g.Initial = c08Value(c)
	switch c.W.Draw(6) {
	case 0:
		g.Max = g.Initial * 8
	case 1:
		g.Max = c08Value(c)
	case 2:
		g.Max = g.Initial + time.Duration(c.W.Draw(3)-1)
	case 3:
		g.Max = time.Duration(1) << 56
	case 4:
		g.Max = []time.Duration{math.MaxInt64, time.Duration(1) << 62, time.Duration(1)<<61 + 1}[c.W.Draw(3)]
	case 5:
		sh := uint(c.W.Draw(20))
		if g.Initial > 0 && g.Initial < time.Duration(1)<<40 {
			g.Max = g.Initial<<sh + time.Duration(c.W.Draw(3)-1)
		} else {
			g.Max = g.Initial
		}
	}
	switch c.W.Draw(4) {
	case 1:
		g.Reset = g.Initial
	case 2:
		g.Reset = time.Second
	case 3:
		g.Reset = time.Duration(1) << 57
	}
	if c.W.Draw(2) == 1 {
		// a generous budget that is never reached
		g.HasRetry, g.MaxRetries, g.Timeout = true, 1000, time.Hour
	}
	if c.W.Draw(8) == 7 {
		g.HasBackoff = false // disabled: every delay is zero
	}
	c.Note("supervisor", g.String())
	parentCfg := &supCfg{Any: dNone, Dir: [4]int{dNone, dNone, dNone, dNone}}
	if !f.build(1, parentCfg, g, nil) {
		_ = s.Stop()
		return
	}
	sub, subErr := s.Sys.Subscribe()
	_ = subErr
	nfaults := 3 + c.W.Draw(10)
	if c.W.Draw(6) == 5 {
		nfaults = 64 + c.W.Draw(8) // beyond every shift width
	}
	usePanic := c.W.Draw(3) == 2
	window := g.refWindow()
	var count int64
	lastFault := time.Duration(-1)
	child := f.acts[2]
	sent := 0
	for k := 0; k < nfaults && !c.Failed(); k++ {
		// the delay the next fault will cause, by the reference arithmetic (pacing only)
		target := Now()
		if lastFault >= 0 {
			gapKind := c.W.Draw(6)
			switch {
			case gapKind == 3 && window > 0:
				target = lastFault + window + time.Duration(c.W.Draw(3)-1)
				c.Probe("fault-on-window-edge")
			case gapKind == 4 && window > 0 && window < c08Horizon/8:
				target = lastFault + 2*window
				c.Probe("quiet-period")
			case gapKind == 5:
				target = Now() + time.Duration(c.W.Draw(3))*time.Millisecond
			}
			if target < Now() {
				target = Now()
			}
		}
		n := count + 1
		if window > 0 && lastFault >= 0 && target-lastFault > window {
			n = 1
		}
		delay := g.refBackoff(n)
		if target > c08Horizon || delay > c08Horizon-target {
			c.Probe("horizon-reached")
			break
		}
		sleepUntil(target)
		if !child.pid.IsRunning() {
			break // the oracle will say why
		}
		if n == 1 && count > 0 {
			c.Probe("counter-reset")
		}
		count, lastFault = n, Now()
		kind := 0
		if usePanic {
			kind = kPanic
		}
		cm := &Cmd{Tag: c.Seq(), From: 0, Seq: k}
		if kind == kPanic {
			cm.Ops = []Op{{K: OpPanic, N: 0}}
			c.Fault("handler-panic")
		} else {
			cm.Ops = []Op{{K: OpErr, N: 0}}
			c.Fault("handler-err")
		}
		_ = s.Tell(child.pid, cm)
		sent++
		if n >= 63 {
			c.Probe("fault-count-beyond-shift-width")
		}
		if delay > 0 {
			Sleep(delay)
		}
		// the restart is due now; give it a moment of simulated time
		Sleep(time.Duration(1+c.W.Draw(2)) * time.Microsecond)
		WaitUntil(time.Millisecond, 100*time.Millisecond, child.pid.IsRunning)
	}
	c.Note("faults_sent", sent)
	Sleep(f.slack + 100*time.Millisecond)
	f.observe(true)
	if subErr == nil {
		var msgs []any
		for m := range sub.Iterator() {
			msgs = append(msgs, m.Payload())
		}
		f.collectEvents(msgs)
		_ = s.Sys.Unsubscribe(sub)
	}
	_ = s.Stop()
}

// c08Finish adds the direct clauses of the statement (never negative, never above the
// maximum, never decreasing while faults accumulate, zero when disabled) over the observed delays,
// then runs the reference model.
func c08Finish(c *Ctx) {
	f, _ := c.state.(*supFam)
	if f == nil || c.Failed() {
		return
	}
	g := f.acts[2].cfg
	var lastFail, prevDelay time.Duration = -1, -1
	var prevFail time.Duration = -1
	for _, e := range f.s.Log {
		if e.Actor != "c0" {
			continue
		}
		switch e.Kind {
		case "fail":
			if lastFail < 0 {
				lastFail = e.T
			}
		case "prestart-enter":
			if e.Inc == 1 || lastFail < 0 {
				continue
			}
			d := e.T - lastFail
			switch {
			case d < 0:
				c.Fail("backoff-negative", "backoff", "restart %v before the fault [%s]", d, g)
			case !g.backoffOn() && d > f.tol:
				c.Fail("backoff-not-zero-when-disabled", "backoff", "backoff disabled but PreStart re-ran %d ns after the fault [%s]", int64(d), g)
			case g.backoffOn() && d-f.tol > g.effMax():
				c.Fail("backoff-above-maximum", "backoff", "PreStart re-ran %d ns after the fault, maximum delay is %d ns [%s]", int64(d), int64(g.effMax()), g)
			case g.backoffOn() && prevDelay >= 0 && prevFail >= 0 && lastFail-prevFail <= g.refWindow() && d < prevDelay-f.tol:
				c.Fail("backoff-decreased", "backoff", "delay went from %d ns to %d ns although the faults were %d ns apart (window %d ns) [%s]", int64(prevDelay), int64(d), int64(lastFail-prevFail), int64(g.refWindow()), g)
			}
			if c.Failed() {
				c.Viol.Detail += " || history: " + strings.Join(f.hist(e.Seq), " | ")
				return
			}
			prevDelay, prevFail, lastFail = d, lastFail, -1
		}
	}
	supFinish(c)
}

func init() {
	Register(&Scenario{Prop: "C07", Name: "directives", Variants: []string{"stock"}, Quick: 900, Thorough: 90000,
		EstSteps: 8000, MaxSteps: 400000, MaxIdle: time.Hour, Real: sysReal, Stub: sysStub, Run: c07Run(0), Finish: supFinish})
	Register(&Scenario{Prop: "C07", Name: "budget-window", Variants: []string{"stock"}, Quick: 450, Thorough: 45000,
		EstSteps: 8000, MaxSteps: 400000, MaxIdle: time.Hour, Real: sysReal, Stub: sysStub, Run: c07Run(1), Finish: supFinish})
	Register(&Scenario{Prop: "C08", Name: "backoff-clock", Variants: []string{"stock"}, Quick: 1400, Thorough: 140000,
		EstSteps: 6000, MaxSteps: 400000, MaxIdle: time.Duration(math.MaxInt64), Real: sysReal, Stub: sysStub, Run: c08Run, Finish: c08Finish})
}

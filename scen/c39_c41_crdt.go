package scen

// C39 (replica convergence) and C41 (tombstones).
//
// Engine C with 2-3 REAL replicatorActor instances in one actor system. Their
// topicActor is a harness fabric actor (one per replica, standing in for that
// node's TopicActor): it receives the *actor.Publish messages the replicator
// emits and forwards the protobuf payload (CRDTDelta / CRDTTombstone, the very
// message a topic subscriber receives) to every peer with a fate drawn from
// c.F: now, late (fake-clock delay => reordering), twice, or never. Anti-entropy
// is driven by the harness with the real message types: a digest (built by the
// real buildDigest, or the empty digest of a peer that knows nothing) is sent
// to b in a's name, b's real handleDigest answers with a CRDTFullState, which
// the fabric hands to a's real handleFullState.
//
// A tiny in-package wrapper (harness/actor/zz_verif_c39_replicator.go) calls a
// hook after every message a replicator handled; the hook appends to one
// totally ordered event log and records what Get would answer at that instant.
//
// Restricted domain (deliberate, see comments at the generators):
//   - WriteTo/ReadFrom coordination is never set (needs cluster + remoting);
//   - set elements / register values are strings (CBOR round trip of other Go
//     scalars changes their dynamic type, which is a codec matter, C40);
//   - every replica uses its own node id in mutations, as the docs prescribe;
//   - LWW timestamps are globally monotone in application order (a perfectly
//     synchronised clock); clock skew between writers is outside the domain.

import (
	"fmt"
	"os"
	"sort"
	"strconv"
	"strings"
	"time"

	"github.com/tochemey/goakt/v4/actor"
	"github.com/tochemey/goakt/v4/crdt"
)

var crReal = []string{"actor.replicatorActor (handleUpdate/handleGet/handleDelete/handleDelta/handleProtoTombstone/handleDigest/handleFullState/handlePrune, encode/decode)", "crdt (all seven data types: mutation, Delta/ResetDelta, Merge, Compact)", "internal/ddata (CRDT codec + value serializer), internal/codec (CRDT keys)", "actor (actor system, dispatcher, mailboxes, Ask/Tell) as in engine C"}
var crStub = []string{"TopicActor / cluster pub-sub: harness fabric actor per replica (receives the real Publish, forwards the real protobuf payload to peers; loss, duplication, delay drawn per message and peer)", "anti-entropy peer selection over cluster+remoting: harness sends the real digest / full-state messages between the replicators of one system", "prune / anti-entropy schedules: ticks sent by the harness at drawn fake-clock times", "all replicators live in one non-clustered actor system; WriteTo/ReadFrom coordination not exercised", "logger: discard", "wall clock: testing/synctest fake clock (shared by all replicas: no skew)"}

func init() {
	Register(&Scenario{Prop: "C39", Name: "crdt-converge", Variants: []string{"stock"},
		Quick: 1000, Thorough: 100000, EstSteps: 6000, MaxSteps: 600000, MaxIdle: time.Hour,
		Real: crReal, Stub: crStub, Run: c39Run, Finish: c39Finish})
	Register(&Scenario{Prop: "C41", Name: "crdt-tombstone", Variants: []string{"stock"},
		Quick: 1000, Thorough: 100000, EstSteps: 4000, MaxSteps: 600000, MaxIdle: time.Hour,
		Real: crReal, Stub: crStub, Run: c41Run, Finish: c41Finish})
}

// ------------------------------------------------------------------ data

var crTypes = []string{"orset", "gcounter", "pncounter", "mvreg", "lww", "flag", "ormap"}
var crElems = []string{"x", "y", "z"}
var crVals = []string{"p", "q", "r"}

type crKeyDef struct {
	id  string
	typ string
	key crdt.Key
}

func crMkKey(typ, id string) crdt.Key {
	switch typ {
	case "gcounter":
		return crdt.GCounterKey(id)
	case "pncounter":
		return crdt.PNCounterKey(id)
	case "flag":
		return crdt.FlagKey(id)
	case "lww":
		return crdt.LWWRegisterKey(id)
	case "mvreg":
		return crdt.MVRegisterKey(id)
	case "orset":
		return crdt.ORSetKey(id)
	default:
		return crdt.ORMapKey(id)
	}
}

func crInitial(typ string) crdt.ReplicatedData {
	switch typ {
	case "gcounter":
		return crdt.NewGCounter()
	case "pncounter":
		return crdt.NewPNCounter()
	case "flag":
		return crdt.NewFlag()
	case "lww":
		return crdt.NewLWWRegister()
	case "mvreg":
		return crdt.NewMVRegister()
	case "orset":
		return crdt.NewORSet()
	default:
		return crdt.NewORMap()
	}
}

// crOp is one client operation (an Update or a Delete).
type crOp struct {
	id      int
	thread  int
	rep     int
	key     int
	kind    string // inc dec enable lset vset add rem mset mrem delete
	elem    string // element / map key / register value
	amt     uint64
	on      bool // ormap: value flag enabled
	ts      int64
	ask     bool
	msg     any
	applied bool // Modify ran (updates) / handled (deletes)
	evIdx   int
	pubSeq  uint64 // sequence number of the publish it caused at its origin (0 = none)
	delAt   time.Duration
	next    *crOp // compound update: the next operation done inside the same Modify function
	repeat  bool  // an add / map set of an element this replica added before (second dot of one node)
	// reference model (filled by the replay in Finish)
	carries map[int]bool
	covers  map[int]bool
	past    map[int]bool
	snap    *crKM
}

func (o *crOp) String() string {
	s := fmt.Sprintf("op%d@r%d:%s", o.id, o.rep, o.kind)
	switch o.kind {
	case "inc", "dec":
		s += fmt.Sprintf("(%d)", o.amt)
	case "enable", "delete":
	case "mset":
		s += fmt.Sprintf("(%s=%v)", o.elem, o.on)
	default:
		s += "(" + o.elem + ")"
	}
	return s
}

// crFab is one message a replicator published.
type crFab struct {
	origin  int
	seq     uint64
	id      string
	kind    string // delta | tombstone
	key     string
	payload any
	sent    []int // per peer: number of copies handed to its mailbox
	op      *crOp
}

// crExch is one anti-entropy exchange: digest of a handled by b, full state back to a.
type crExch struct {
	a, b    int
	forced  bool
	handled bool
	full    any
	keys    []string
	applied int
	snap    []*crKM // model of b when it handled the digest
}

type crGet struct {
	msg   *crdt.Get
	rep   int
	key   int
	stage string
	val   string
	err   error
}

// crEv is one entry of the global event log (appended by the replicator hook
// and by the Modify closures, i.e. in the real order of handling).
type crEv struct {
	idx      int
	rep      int
	t        time.Duration
	kind     string // update update-rejected delete get delta tombstone digest fullstate prune
	op       *crOp
	fm       *crFab
	ex       *crExch
	get      *crdt.Get
	pubFrom  uint64
	pubTo    uint64
	val      []string // what Get(k) would answer right after this message, per key
	tomb     []bool   // replicator holds a tombstone for k right after this message
	patched  bool
}

type crState struct {
	c       *Ctx
	s       *Sys
	n       int
	keys    []crKeyDef
	keyIdx  map[string]int
	pids    []*actor.PID
	tpids   []*actor.PID
	reps    []*actor.VerifReplicator
	nodeIDs []string
	started int
	ops     []*crOp
	opByMsg map[any]*crOp
	fabs    []*crFab
	byMsg   map[any]*crFab
	exByMsg map[any]*crExch
	cur     *crExch
	exBusy  bool
	evs     []*crEv
	gets    []*crGet
	getBy   map[*crdt.Get]*crGet
	pending int
	fates   []int
	echo    bool
	ttl     time.Duration
	lwwSeq  int64
	tomb    bool // C41 run
	compact bool
	dels    []*crOp
	lastAdd map[[2]int]string // (replica, key) -> element that replica added last
	lastEl  map[int]string    // key -> element added last by anybody
	repeats []*crOp           // repeated adds issued so far
	remHint map[int]crHint    // key -> element some replica just added a second time
}

type crHint struct {
	elem string
	rep  int
}

type crSync struct{}

// crTopic stands in for the TopicActor of replica idx and is the sender of its digests.
type crTopic struct {
	st  *crState
	idx int
}

func (t *crTopic) PreStart(*actor.Context) error { return nil }
func (t *crTopic) PostStop(*actor.Context) error { return nil }
func (t *crTopic) Receive(rc *actor.ReceiveContext) {
	st := t.st
	switch m := rc.Message().(type) {
	case *actor.PostStart:
	case *crSync:
		rc.Response(&crSync{})
	case *actor.Publish:
		st.publish(t.idx, m)
	default:
		kind, keys, _ := actor.VerifCRDTMsg(m)
		if kind == "fullstate" && st.cur != nil && st.cur.a == t.idx {
			st.cur.full = m
			st.cur.keys = keys
			st.exByMsg[m] = st.cur
			return
		}
		st.c.Probe("topic-unexpected-message")
	}
}

// publish is the fabric: runs on the topic actor's goroutine.
func (st *crState) publish(origin int, p *actor.Publish) {
	payload := p.Message()
	kind, keys, _ := actor.VerifCRDTMsg(payload)
	fm := &crFab{origin: origin, id: p.ID(), kind: kind, payload: payload, sent: make([]int, st.n)}
	if len(keys) > 0 {
		fm.key = keys[0]
	}
	if i := strings.LastIndexByte(fm.id, ':'); i >= 0 {
		fm.seq, _ = strconv.ParseUint(fm.id[i+1:], 10, 64)
	}
	st.fabs = append(st.fabs, fm)
	st.byMsg[payload] = fm
	for b := 0; b < st.n; b++ {
		if b == origin {
			if st.echo && st.c.F.Draw(3) == 1 {
				st.c.Fault("echo-to-origin")
				st.send(fm, b)
			}
			continue
		}
		switch st.fate() {
		case 0:
			st.send(fm, b)
		case 1:
			st.c.Fault("delay")
			st.later(st.shortDelay(), fm, b)
		case 2:
			st.c.Fault("duplicate")
			st.send(fm, b)
			st.later(st.shortDelay(), fm, b)
		case 3:
			st.c.Fault("drop")
		case 4:
			st.c.Fault("long-delay")
			st.later(st.longDelay(), fm, b)
		}
	}
}

func (st *crState) fate() int {
	if len(st.fates) == 0 {
		return 0
	}
	x := st.c.F.Draw(len(st.fates) + 2)
	if x < 2 {
		return 0
	}
	return st.fates[x-2]
}

func (st *crState) shortDelay() time.Duration {
	return time.Duration(1+st.c.F.Draw(4)) * time.Millisecond
}

func (st *crState) longDelay() time.Duration {
	if st.tomb {
		// around the tombstone TTL: a delta sent before the delete lands just
		// before / at / after the expiry of the tombstone
		return []time.Duration{st.ttl / 2, st.ttl - time.Nanosecond, st.ttl, st.ttl + time.Nanosecond, st.ttl + 2*time.Millisecond}[st.c.F.Draw(5)]
	}
	return time.Duration(5+st.c.F.Draw(20)) * time.Millisecond
}

func (st *crState) send(fm *crFab, to int) {
	fm.sent[to]++
	_ = actor.Tell(st.s.Ctx, st.pids[to], fm.payload)
}

func (st *crState) later(d time.Duration, fm *crFab, to int) {
	st.pending++
	Go(func() {
		Sleep(d)
		st.send(fm, to)
		st.pending--
	})
}

// hook runs on the replicator's goroutine right after the real Receive.
func (st *crState) hook(h *actor.VerifReplicator, msg any, pf, pt uint64) {
	var ev *crEv
	var chain *crOp // further parts of a compound update: their events get the same completion
	switch m := msg.(type) {
	case *actor.PostStart:
		st.nodeIDs[h.Idx] = h.VerifNodeID()
		st.started++
		return
	case *crdt.Update:
		op := st.opByMsg[m]
		if op == nil {
			return
		}
		if op.applied {
			ev = st.evs[op.evIdx] // appended by the Modify closure, completed here
		} else {
			ev = st.newEv(h.Idx, "update-rejected")
			ev.op = op
		}
		if pt > pf {
			for p := op; p != nil; p = p.next {
				p.pubSeq = pt
			}
		}
		chain = op.next
	case *crdt.Delete:
		op := st.opByMsg[m]
		if op == nil {
			return
		}
		ev = st.newEv(h.Idx, "delete")
		ev.op = op
		op.applied = true
		op.delAt = ev.t
		op.evIdx = ev.idx
		if pt > pf {
			op.pubSeq = pt
		}
		st.dels = append(st.dels, op)
	case *crdt.Get:
		ev = st.newEv(h.Idx, "get")
		ev.get = m
	default:
		kind, _, _ := actor.VerifCRDTMsg(msg)
		switch kind {
		case "delta", "tombstone":
			ev = st.newEv(h.Idx, kind)
			ev.fm = st.byMsg[msg]
		case "digest":
			ev = st.newEv(h.Idx, kind)
			if ex := st.exByMsg[msg]; ex != nil {
				ev.ex = ex
				ex.handled = true
			}
		case "fullstate":
			ev = st.newEv(h.Idx, kind)
			if ex := st.exByMsg[msg]; ex != nil {
				ev.ex = ex
				ex.applied++
			}
		case "prune":
			ev = st.newEv(h.Idx, kind)
		default:
			return
		}
	}
	ev.pubFrom, ev.pubTo = pf, pt
	ev.val = make([]string, len(st.keys))
	ev.tomb = make([]bool, len(st.keys))
	for i, k := range st.keys {
		ev.val[i] = crRender(h.VerifStoreGet(k.id))
		ev.tomb[i], _ = h.VerifTombstoned(k.id)
	}
	ev.patched = true
	for p := chain; p != nil && p.applied; p = p.next {
		pe := st.evs[p.evIdx]
		pe.pubFrom, pe.pubTo, pe.val, pe.tomb, pe.patched = pf, pt, ev.val, ev.tomb, true
	}
}

func (st *crState) newEv(rep int, kind string) *crEv {
	ev := &crEv{idx: len(st.evs), rep: rep, t: Now(), kind: kind}
	st.evs = append(st.evs, ev)
	return ev
}

// crRender is the logical value a client sees.
func crRender(d crdt.ReplicatedData) string {
	switch v := d.(type) {
	case nil:
		return "<nil>"
	case *crdt.GCounter:
		return fmt.Sprint(v.Value())
	case *crdt.PNCounter:
		return fmt.Sprint(v.Value())
	case *crdt.Flag:
		return fmt.Sprint(v.Enabled())
	case *crdt.LWWRegister:
		return fmt.Sprint(v.Value())
	case *crdt.MVRegister:
		var l []string
		for _, x := range v.Values() {
			l = append(l, fmt.Sprint(x))
		}
		sort.Strings(l)
		return "[" + strings.Join(l, ",") + "]"
	case *crdt.ORSet:
		var l []string
		for _, x := range v.Elements() {
			l = append(l, fmt.Sprint(x))
		}
		sort.Strings(l)
		return "{" + strings.Join(l, ",") + "}"
	case *crdt.ORMap:
		var l []string
		for _, k := range v.Keys() {
			val, _ := v.Get(k)
			l = append(l, fmt.Sprint(k)+"="+crRender(val))
		}
		sort.Strings(l)
		return "{" + strings.Join(l, ",") + "}"
	}
	return fmt.Sprintf("?%T", d)
}

// crMapKeys strips the values of a rendered ORMap ("{x=true,y=false}" -> "{x,y}").
func crMapKeys(s string) string {
	if len(s) < 2 || s[0] != '{' {
		return s
	}
	var l []string
	for _, kv := range strings.Split(s[1:len(s)-1], ",") {
		if kv == "" {
			continue
		}
		l = append(l, strings.SplitN(kv, "=", 2)[0])
	}
	return "{" + strings.Join(l, ",") + "}"
}

// ------------------------------------------------------------------ set-up and drivers

func crSetup(c *Ctx, name string, tomb bool) *crState {
	s := StartSys(c, name, sysOpts(c)...)
	st := &crState{c: c, s: s, tomb: tomb, keyIdx: map[string]int{}, opByMsg: map[any]*crOp{}, byMsg: map[any]*crFab{}, exByMsg: map[any]*crExch{}, getBy: map[*crdt.Get]*crGet{}, lastAdd: map[[2]int]string{}, lastEl: map[int]string{}, remHint: map[int]crHint{}}
	c.state = st
	st.n = 2 + c.W.Draw(2)
	st.nodeIDs = make([]string, st.n)
	// keys and their types
	nk := 1 + c.W.Draw(3)
	if tomb {
		nk = 1 + c.W.Draw(2)
	}
	var desc []string
	for i := 0; i < nk; i++ {
		typ := crTypes[c.W.Draw(len(crTypes))]
		id := fmt.Sprintf("k%d", i)
		st.keys = append(st.keys, crKeyDef{id: id, typ: typ, key: crMkKey(typ, id)})
		st.keyIdx[id] = i
		desc = append(desc, id+":"+typ)
	}
	c.Note("replicas", st.n)
	c.Note("keys", desc)
	// fault kinds enabled in this run (swarm)
	mask := c.F.Draw(32)
	for k := 1; k <= 4; k++ {
		if mask&(1<<(k-1)) != 0 {
			st.fates = append(st.fates, k)
		}
	}
	st.echo = mask&16 != 0
	c.Note("fates", fmt.Sprint(st.fates, " echo=", st.echo))
	st.ttl = time.Hour
	if tomb {
		st.ttl = []time.Duration{8 * time.Millisecond, 20 * time.Millisecond, 5 * time.Millisecond}[c.W.Draw(3)]
		c.Note("tombstone_ttl", st.ttl.String())
	}
	cfg := crdt.NewConfig(crdt.WithAntiEntropyInterval(0), crdt.WithPruneInterval(0), crdt.WithTombstoneTTL(st.ttl))
	for i := 0; i < st.n; i++ {
		tp, err := s.Sys.Spawn(s.Ctx, fmt.Sprintf("topic%d", i), &crTopic{st: st, idx: i}, actor.WithLongLived())
		if err != nil {
			c.Fail("spawn-failed", "topic", "%v", err)
			return nil
		}
		st.tpids = append(st.tpids, tp)
	}
	for i := 0; i < st.n; i++ {
		idx := i
		h, pid, err := actor.VerifSpawnReplicator(s.Ctx, s.Sys, fmt.Sprintf("replicator%d", i), i, cfg, func() *actor.PID { return st.tpids[idx] }, st.hook)
		if err != nil {
			c.Fail("spawn-failed", "replicator", "%v", err)
			return nil
		}
		st.reps = append(st.reps, h)
		st.pids = append(st.pids, pid)
	}
	if !WaitUntil(time.Millisecond, time.Second, func() bool { return st.started == st.n }) {
		c.Fail("replicator-not-started", "harness", "only %d of %d replicators handled PostStart", st.started, st.n)
		return nil
	}
	return st
}

// genOp draws one mutation of key ki issued at replica rep.
func (st *crState) genOp(thread, rep, ki int) *crOp {
	c := st.c
	k := st.keys[ki]
	op := st.genPart(thread, rep, ki, nil)
	// compound update: 2-3 operations inside one Modify function (one delta for
	// all of them), e.g. Decrement then Increment, Add-Remove-Add of one element
	if c.W.Draw(4) == 3 {
		last := op
		for i := 0; i < 1+c.W.Draw(2); i++ {
			last.next = st.genPart(thread, rep, ki, last)
			last = last.next
		}
		c.Probe("compound-update")
	}
	op.ask = c.W.Draw(3) == 0
	node := fmt.Sprintf("n%d", rep)
	op.msg = &crdt.Update{Key: k.key, Initial: crInitial(k.typ), Modify: func(cur crdt.ReplicatedData) crdt.ReplicatedData {
		// runs inside the real handleUpdate on the replicator's goroutine
		for p := op; p != nil; p = p.next {
			ev := st.newEv(rep, "update")
			ev.op = p
			p.applied = true
			p.evIdx = ev.idx
			cur = st.mutate(p, node, cur)
		}
		return cur
	}}
	st.opByMsg[op.msg] = op
	return op
}

// genPart draws one mutation; prev is the preceding operation of the same
// compound update (nil for the first).
func (st *crState) genPart(thread, rep, ki int, prev *crOp) *crOp {
	c := st.c
	k := st.keys[ki]
	op := &crOp{id: len(st.ops), thread: thread, rep: rep, key: ki}
	st.ops = append(st.ops, op)
	setElem := func(addKind, remKind string) {
		op.kind, op.elem = []string{addKind, addKind, remKind}[c.W.Draw(3)], crElems[c.W.Draw(len(crElems))]
		switch c.W.Draw(6) {
		case 4, 5:
			// remove the element another replica has just added for the second
			// time: likely handled here before that second add arrives, so the
			// remove has seen only the first dot
			if h, ok := st.remHint[ki]; ok && h.rep != rep {
				op.kind, op.elem = remKind, h.elem
				delete(st.remHint, ki)
				c.Probe("remove-racing-second-add")
			}
		case 1:
			// the element of the preceding part / the element added last by anybody
			if prev != nil {
				op.elem = prev.elem
			} else if e, ok := st.lastEl[ki]; ok {
				op.elem = e
			}
		case 2, 3:
			// the same node adds an element it added before: a second dot of that node
			if e, ok := st.lastAdd[[2]int{rep, ki}]; ok {
				op.kind, op.elem, op.repeat = addKind, e, true
				st.remHint[ki] = crHint{e, rep}
				c.Probe("repeated-add-by-same-node")
			}
		}
		if op.kind == addKind {
			st.lastAdd[[2]int{rep, ki}] = op.elem
			st.lastEl[ki] = op.elem
		}
	}
	switch k.typ {
	case "gcounter":
		op.kind, op.amt = "inc", uint64(1+c.W.Draw(3))
	case "pncounter":
		op.kind, op.amt = []string{"inc", "dec"}[c.W.Draw(2)], uint64(1+c.W.Draw(3))
		if prev != nil && prev.kind == "dec" && c.W.Draw(2) == 1 {
			op.kind = "inc" // Decrement then Increment inside one update
		}
	case "flag":
		op.kind = "enable"
	case "lww":
		op.kind, op.elem = "lset", crVals[c.W.Draw(len(crVals))]
	case "mvreg":
		op.kind, op.elem = "vset", crVals[c.W.Draw(len(crVals))]
	case "orset":
		setElem("add", "rem")
	default:
		setElem("mset", "mrem")
		op.on = c.W.Draw(2) == 0
	}
	if op.repeat {
		st.repeats = append(st.repeats, op)
	}
	return op
}

func (st *crState) mutate(op *crOp, node string, cur crdt.ReplicatedData) crdt.ReplicatedData {
	switch v := cur.(type) {
	case *crdt.GCounter:
		if op.kind == "inc" {
			return v.Increment(node, op.amt)
		}
	case *crdt.PNCounter:
		if op.kind == "inc" {
			return v.Increment(node, op.amt)
		} else if op.kind == "dec" {
			return v.Decrement(node, op.amt)
		}
	case *crdt.Flag:
		if op.kind == "enable" {
			return v.Enable()
		}
	case *crdt.LWWRegister:
		if op.kind == "lset" {
			st.lwwSeq++ // monotone in application order: the "perfect clock" domain
			op.ts = st.lwwSeq
			return v.Set(op.elem, time.Unix(1000, op.ts), node)
		}
	case *crdt.MVRegister:
		if op.kind == "vset" {
			return v.Set(node, op.elem)
		}
	case *crdt.ORSet:
		if op.kind == "add" {
			return v.Add(node, op.elem)
		} else if op.kind == "rem" {
			return v.Remove(op.elem)
		}
	case *crdt.ORMap:
		if op.kind == "mset" {
			f := crdt.NewFlag()
			if op.on {
				f = f.Enable()
			}
			return v.Set(node, op.elem, f)
		} else if op.kind == "mrem" {
			return v.Remove(op.elem)
		}
	}
	st.c.Fail("stored-type-mismatch", st.keys[op.key].typ, "%v found a %T in the store of replica %d", op, cur, op.rep)
	return cur
}

func (st *crState) issue(op *crOp) {
	st.c.Ops++
	if op.ask {
		if _, err := actor.Ask(st.s.Ctx, st.pids[op.rep], op.msg, 2*time.Second); err != nil {
			st.c.Probe("op-ask-error")
		}
		return
	}
	_ = actor.Tell(st.s.Ctx, st.pids[op.rep], op.msg)
}

func (st *crState) doGet(rep, ki int, stage string) *crGet {
	g := &crGet{msg: &crdt.Get{Key: st.keys[ki].key}, rep: rep, key: ki, stage: stage}
	st.gets = append(st.gets, g)
	st.getBy[g.msg] = g
	resp, err := actor.Ask(st.s.Ctx, st.pids[rep], g.msg, 2*time.Second)
	if err != nil {
		g.err = err
		return g
	}
	if r, ok := resp.(*crdt.GetResponse); ok {
		g.val = crRender(r.Data)
	} else {
		g.err = fmt.Errorf("unexpected reply %T", resp)
	}
	return g
}

func (st *crState) getAll(stage string) {
	for r := 0; r < st.n; r++ {
		for k := range st.keys {
			st.doGet(r, k, stage)
		}
	}
}

// exchange runs one anti-entropy exchange: b handles a's digest (the real one
// or the empty one), the resulting full state goes to a with the given fate.
func (st *crState) exchange(a, b int, forced bool, fate int) *crExch {
	ex := &crExch{a: a, b: b, forced: forced}
	// one exchange at a time: the topic actor attributes the reply to st.cur
	if !WaitUntil(time.Millisecond, 5*time.Second, func() bool { return !st.exBusy }) {
		st.c.Probe("exchange-skipped-busy")
		return ex
	}
	st.exBusy = true
	defer func() { st.exBusy = false }()
	var digest any
	if forced {
		digest = actor.VerifEmptyDigest()
	} else {
		resp, err := actor.Ask(st.s.Ctx, st.pids[a], actor.VerifDigestRequest(), 2*time.Second)
		if err != nil {
			st.c.Probe("digest-request-error")
			return ex
		}
		digest = resp
	}
	st.exByMsg[digest] = ex
	st.cur = ex
	_ = st.tpids[a].Tell(st.s.Ctx, st.pids[b], digest)
	ok := WaitUntil(time.Millisecond, 2*time.Second, func() bool { return ex.handled })
	if ok {
		// the reply (if any) was enqueued at a's topic actor before b's hook ran
		_, _ = actor.Ask(st.s.Ctx, st.tpids[a], &crSync{}, 2*time.Second)
	} else {
		st.c.Probe("digest-not-handled")
	}
	st.cur = nil
	if ex.full == nil {
		st.c.Probe("exchange-without-reply")
		return ex
	}
	st.c.Probe("exchange-fullstate")
	deliver := func() { _ = actor.Tell(st.s.Ctx, st.pids[a], ex.full) }
	switch fate {
	case 0:
		deliver()
	case 1, 4:
		st.c.Fault("fullstate-delay")
		d := st.shortDelay()
		if fate == 4 {
			d = st.longDelay()
		}
		st.pending++
		Go(func() { Sleep(d); deliver(); st.pending-- })
	case 2:
		st.c.Fault("fullstate-duplicate")
		deliver()
		deliver()
	case 3:
		st.c.Fault("fullstate-drop")
	}
	return ex
}

func (st *crState) quiesce() bool {
	return WaitUntil(time.Millisecond, 10*time.Second, func() bool { return st.pending == 0 })
}

// ------------------------------------------------------------------ C39 run

func c39Run(c *Ctx) {
	st := crSetup(c, "c39", false)
	if st == nil {
		return
	}
	s := st.s
	defer func() { _ = s.Stop() }()
	nthreads := 2 + c.W.Draw(2)
	total := 3 + c.W.Draw(10) // <= 12 operations
	c.Note("ops", total)
	st.compact = c.W.Draw(2) == 1
	nexch := c.W.Draw(3)
	issued := 0
	var fns []func()
	for t := 0; t < nthreads; t++ {
		home := t % st.n
		fns = append(fns, func() {
			for issued < total {
				issued++
				rep := home
				if c.W.Draw(4) == 3 {
					rep = c.W.Draw(st.n)
				}
				op := st.genOp(t, rep, c.W.Draw(len(st.keys)))
				st.issue(op)
				if st.compact {
					// compaction right after the same node added an element a second
					// time (the replica holds two dots of one node), i.e. before a
					// concurrent remove that saw only the first add can arrive
					for p := op; p != nil; p = p.next {
						if p.repeat {
							c.Fault("prune-after-second-add")
							_ = actor.Tell(s.Ctx, st.pids[rep], actor.VerifPruneTick())
							break
						}
					}
				}
				switch c.W.Draw(6) {
				case 1:
					Sleep(time.Duration(1+c.W.Draw(3)) * time.Millisecond)
				case 2:
					st.doGet(rep, op.key, "mid")
				}
			}
		})
	}
	// anti-entropy / compaction while traffic flows
	fns = append(fns, func() {
		for i := 0; i < nexch; i++ {
			Sleep(time.Duration(c.W.Draw(4)) * time.Millisecond)
			a := c.W.Draw(st.n)
			b := (a + 1 + c.W.Draw(st.n-1)) % st.n
			st.exchange(a, b, c.W.Draw(2) == 1, st.fate())
		}
		if st.compact {
			for i := 0; i < 1+c.W.Draw(2); i++ {
				Sleep(time.Duration(c.W.Draw(4)) * time.Millisecond)
				c.Fault("prune-compaction")
				to := c.W.Draw(st.n)
				if n := len(st.repeats); n > 0 && c.W.Draw(2) == 1 {
					to = st.repeats[n-1].rep
				}
				_ = actor.Tell(s.Ctx, st.pids[to], actor.VerifPruneTick())
			}
		}
	})
	Join(fns...)
	if !st.quiesce() {
		c.Fail("fabric-not-drained", "harness", "pending=%d", st.pending)
		return
	}
	// messages the fabric never delivered: either delivered now (every replica
	// then saw every update through deltas alone) or left to anti-entropy
	if c.F.Draw(3) != 2 {
		for _, fm := range st.fabs {
			for b := 0; b < st.n; b++ {
				if b != fm.origin && fm.sent[b] == 0 {
					c.Probe("late-flush-of-dropped")
					st.send(fm, b)
				}
			}
		}
	}
	st.getAll("deltas")
	if c.W.Draw(3) == 1 {
		// one round of the real version-digest exchange between all pairs
		for a := 0; a < st.n; a++ {
			for b := 0; b < st.n; b++ {
				if a != b {
					st.exchange(a, b, false, 0)
				}
			}
		}
		st.getAll("real-digests")
	}
	// forced full-state exchange: every replica merges every other replica's full state
	for a := 0; a < st.n; a++ {
		for b := 0; b < st.n; b++ {
			if a != b {
				ex := st.exchange(a, b, true, 0)
				if ex.full != nil {
					WaitUntil(time.Millisecond, 2*time.Second, func() bool { return ex.applied > 0 })
				}
			}
		}
	}
	st.getAll("full-state")
}

// ------------------------------------------------------------------ reference model

// crORSetFullDelta tells the reference model that an ORSet delta carries the
// originator's full state, as ORMap and MVRegister deltas do. That is the design
// of the repository since the repair of the add-lost|orset defect (known_findings:
// fixed 9a3083d); before it an ORSet delta listed only the operation that
// produced it, which VERIF_CRDT_ORSET_OPDELTA=1 still models (experiments only).
var crORSetFullDelta = os.Getenv("VERIF_CRDT_ORSET_OPDELTA") == ""

// crKM is the reference state of one key at one replica: which updates it has
// incorporated, and for the causal types which add/write operations it knows
// and which of them are still alive.
type crKM struct {
	seen  map[int]bool
	known map[int]bool
	alive map[string]map[int]bool
}

func newCrKM() *crKM {
	return &crKM{seen: map[int]bool{}, known: map[int]bool{}, alive: map[string]map[int]bool{}}
}

func copySet(m map[int]bool) map[int]bool {
	o := make(map[int]bool, len(m))
	for k := range m {
		o[k] = true
	}
	return o
}

func (m *crKM) clone() *crKM {
	o := &crKM{seen: copySet(m.seen), known: copySet(m.known), alive: map[string]map[int]bool{}}
	for e, s := range m.alive {
		o.alive[e] = copySet(s)
	}
	return o
}

func (m *crKM) addAlive(e string, id int) {
	if m.alive[e] == nil {
		m.alive[e] = map[int]bool{}
	}
	m.alive[e][id] = true
}

// mergeFull incorporates a peer's full state.
func (m *crKM) mergeFull(s *crKM, ops []*crOp) {
	for a := range s.known {
		e := ops[a].elem
		if s.alive[e][a] {
			if !m.known[a] {
				m.addAlive(e, a)
			}
		} else {
			delete(m.alive[e], a)
		}
	}
	for a := range s.known {
		m.known[a] = true
	}
	for a := range s.seen {
		m.seen[a] = true
	}
}

// applyLocal: the operation is applied at its own replica.
func (m *crKM) applyLocal(op *crOp, own []*crOp) {
	m.seen[op.id] = true
	switch op.kind {
	case "inc", "dec":
		// a counter delta carries the accumulated slot of its node: all earlier
		// operations of the same kind by the same replica
		op.carries = map[int]bool{op.id: true}
		for _, q := range own {
			if q.kind == op.kind {
				op.carries[q.id] = true
			}
		}
	case "enable", "lset":
		op.carries = copySet(m.seen)
	case "vset":
		op.past = copySet(m.known)
		m.known[op.id] = true
		op.carries = copySet(m.seen)
	case "add":
		m.addAlive(op.elem, op.id)
		m.known[op.id] = true
		op.carries = map[int]bool{op.id: true}
		if crORSetFullDelta {
			op.carries = copySet(m.seen)
		}
	case "rem":
		op.covers = copySet(m.alive[op.elem])
		delete(m.alive, op.elem)
		op.carries = map[int]bool{op.id: true}
		if crORSetFullDelta {
			op.carries = copySet(m.seen)
		}
	case "mset":
		m.addAlive(op.elem, op.id)
		m.known[op.id] = true
		op.carries = copySet(m.seen)
	case "mrem":
		op.covers = copySet(m.alive[op.elem])
		delete(m.alive, op.elem)
		op.carries = copySet(m.seen)
	}
	op.snap = m.clone()
}

// applyDelta: the delta of op arrives at another replica.
func (m *crKM) applyDelta(op *crOp, ops []*crOp) {
	for q := range op.carries {
		m.seen[q] = true
	}
	kind := op.kind
	if crORSetFullDelta && (kind == "add" || kind == "rem") {
		kind = "mset"
	}
	switch kind {
	case "add":
		if !m.known[op.id] {
			m.addAlive(op.elem, op.id)
			m.known[op.id] = true
		}
	case "rem":
		for a := range op.covers {
			delete(m.alive[op.elem], a)
			m.known[a] = true
		}
	case "vset":
		for a := range op.snap.known {
			m.known[a] = true
		}
	case "mset", "mrem":
		m.mergeFull(op.snap, ops)
	}
}

// value is what a replica in this state must expose.
func (m *crKM) value(typ string, ops []*crOp) string {
	if len(m.seen) == 0 {
		return "<nil>"
	}
	switch typ {
	case "gcounter", "pncounter":
		var v int64
		for id := range m.seen {
			if ops[id].kind == "inc" {
				v += int64(ops[id].amt)
			} else {
				v -= int64(ops[id].amt)
			}
		}
		return fmt.Sprint(v)
	case "flag":
		return "true"
	case "lww":
		best := -1
		for id := range m.seen {
			if best < 0 || ops[id].ts > ops[best].ts {
				best = id
			}
		}
		return ops[best].elem
	case "mvreg":
		var l []string
		for w := range m.known {
			superseded := false
			for w2 := range m.known {
				if ops[w2].past[w] {
					superseded = true
					break
				}
			}
			if !superseded {
				l = append(l, ops[w].elem)
			}
		}
		sort.Strings(l)
		return "[" + strings.Join(l, ",") + "]"
	default: // orset, ormap (keys)
		var l []string
		for e, s := range m.alive {
			if len(s) > 0 {
				l = append(l, e)
			}
		}
		sort.Strings(l)
		return "{" + strings.Join(l, ",") + "}"
	}
}

func crCanon(m map[int]bool, keep func(int) bool) string {
	var l []int
	for id := range m {
		if keep(id) {
			l = append(l, id)
		}
	}
	sort.Ints(l)
	return fmt.Sprint(l)
}

// link resolves which operation each published message carries.
func (st *crState) link() {
	bySeq := make([]map[uint64]*crOp, st.n)
	for i := range bySeq {
		bySeq[i] = map[uint64]*crOp{}
	}
	for _, op := range st.ops {
		if op.pubSeq > 0 && bySeq[op.rep][op.pubSeq] == nil {
			bySeq[op.rep][op.pubSeq] = op // first part of a compound update (ids ascend along the chain)
		}
	}
	for _, fm := range st.fabs {
		fm.op = bySeq[fm.origin][fm.seq]
	}
}

// history renders the run for a violation detail: the operations, then what
// each replica handled in order with the value of key ki after each step.
func (st *crState) history(ki int) string {
	var b strings.Builder
	fmt.Fprintf(&b, "key %s:%s; ", st.keys[ki].id, st.keys[ki].typ)
	for r := 0; r < st.n; r++ {
		fmt.Fprintf(&b, "r%d:", r)
		for _, e := range st.evs {
			if e.rep != r || !e.patched {
				continue
			}
			var what string
			switch e.kind {
			case "update", "update-rejected", "delete":
				if e.op.key != ki {
					continue
				}
				what = e.op.String()
				if e.kind == "update-rejected" {
					what += "(rejected)"
				}
			case "delta", "tombstone":
				if e.fm == nil || e.fm.key != st.keys[ki].id {
					continue
				}
				what = e.kind + "("
				if e.fm.op != nil {
					what += e.fm.op.String()
					for p := e.fm.op.next; p != nil; p = p.next {
						what += "+" + p.String()
					}
				} else {
					what += e.fm.id
				}
				what += ")"
			case "fullstate":
				if e.ex == nil {
					continue
				}
				what = fmt.Sprintf("fullstate(from r%d: %s)", e.ex.b, strings.Join(e.ex.keys, "+"))
			case "digest":
				if e.ex == nil {
					continue
				}
				what = fmt.Sprintf("digest(of r%d)", e.ex.a)
			case "prune":
				what = "prune"
			case "get":
				continue
			}
			fmt.Fprintf(&b, " %s@%v->%s", what, e.t, e.val[ki])
			if e.tomb[ki] {
				b.WriteString("(T)")
			}
		}
		b.WriteString("; ")
	}
	return b.String()
}

func c39Finish(c *Ctx) {
	st, _ := c.state.(*crState)
	if st == nil || c.Failed() {
		return
	}
	st.link()
	ops := st.ops
	// effective operations: applied and published (an update without a delta
	// changed nothing, by the Delta contract)
	all := make([][]int, len(st.keys))
	effective := func(id int) bool { return ops[id].applied && ops[id].pubSeq > 0 }
	for _, op := range ops {
		if effective(op.id) {
			all[op.key] = append(all[op.key], op.id)
		}
	}
	model := make([][]*crKM, st.n)
	own := make([][][]*crOp, st.n)
	for r := range model {
		model[r] = make([]*crKM, len(st.keys))
		own[r] = make([][]*crOp, len(st.keys))
		for k := range model[r] {
			model[r][k] = newCrKM()
		}
	}
	type seenVal struct {
		val string
		g   *crGet
	}
	bySet := map[string]seenVal{}
	for _, e := range st.evs {
		switch e.kind {
		case "update":
			op := e.op
			model[e.rep][op.key].applyLocal(op, own[e.rep][op.key])
			own[e.rep][op.key] = append(own[e.rep][op.key], op)
		case "delta":
			if e.fm == nil || e.fm.origin == e.rep {
				continue // echo of an own delta: must be ignored
			}
			if e.fm.op == nil {
				c.Fail("unlinked-delta", "harness", "delta %s has no operation", e.fm.id)
				return
			}
			if e.fm.op.snap == nil {
				c.Fail("delta-before-apply", "harness", "delta of %v handled before its update event", e.fm.op)
				return
			}
			for p := e.fm.op; p != nil; p = p.next {
				if p.snap == nil {
					c.Fail("delta-before-apply", "harness", "delta of %v handled before its update event", p)
					return
				}
				model[e.rep][p.key].applyDelta(p, ops)
			}
		case "digest":
			if e.ex != nil {
				for k := range st.keys {
					e.ex.snap = append(e.ex.snap, model[e.rep][k].clone())
				}
			}
		case "fullstate":
			if e.ex == nil || e.ex.snap == nil {
				c.Fail("unlinked-fullstate", "harness", "full state without exchange")
				return
			}
			for _, id := range e.ex.keys {
				k := st.keyIdx[id]
				model[e.rep][k].mergeFull(e.ex.snap[k], ops)
			}
		case "get":
			g := st.getBy[e.get]
			if g == nil || g.err != nil {
				continue
			}
			k, typ := g.key, st.keys[g.key].typ
			m := model[e.rep][k]
			// a key that was never written and a key holding the type's initial
			// value are the same logical value
			want := crNorm(m.value(typ, ops), typ)
			got := crNorm(g.val, typ)
			gotCmp := got
			if typ == "ormap" {
				gotCmp = crMapKeys(got)
			}
			complete := true
			for _, id := range all[k] {
				if !m.seen[id] {
					complete = false
				}
			}
			note := ""
			if st.compact {
				note = " (prune/compaction ticks were sent in this run)"
			}
			// (1) a replica that has seen every update exposes the merge of all
			// originators' states
			if complete {
				c.Probe("complete-read-" + g.stage)
				if gotCmp != want {
					class := "value-mismatch"
					switch typ {
					case "orset", "ormap":
						class = "removed-element-present"
						w, gq := crSetOf(want), crSetOf(gotCmp)
						for el := range w {
							if !gq[el] {
								class = "add-lost"
							}
						}
					case "gcounter", "pncounter":
						class = "counter-mismatch"
					}
					c.Fail(class, typ, "replica %d exposes %s at stage %s but the merge of all updates is %s%s. %s", g.rep, g.val, g.stage, want, note, st.history(k))
					return
				}
			} else {
				if gotCmp != want {
					c.Probe("partial-state-differs-from-model")
				}
				if g.stage == "full-state" {
					c.Fail("incomplete-after-full-exchange", "harness", "replica %d has not seen all of %v after the forced exchange", g.rep, all[k])
					return
				}
				if g.stage == "real-digests" {
					c.Probe("version-digest-exchange-left-replica-behind")
				}
			}
			// (2) replicas that have seen the same set of updates expose the same value
			canon := fmt.Sprintf("%d|%s", k, crCanon(m.seen, effective))
			if prev, ok := bySet[canon]; ok {
				if prev.val != got {
					c.Fail("same-updates-different-value", typ, "replica %d (%s) exposes %s, replica %d (%s) exposes %s, both have incorporated exactly the updates %s%s. %s", prev.g.rep, prev.g.stage, prev.val, g.rep, g.stage, got, canon, note, st.history(k))
					return
				}
			} else {
				bySet[canon] = seenVal{got, g}
			}
		}
	}
	for _, g := range st.gets {
		if g.err != nil {
			c.Fail("get-failed", "replicator", "Get(%s) on replica %d at stage %s: %v", st.keys[g.key].id, g.rep, g.stage, g.err)
			return
		}
	}
}

// crNorm maps "no such key" to the rendered initial value of the type.
func crNorm(s, typ string) string {
	if s != "<nil>" {
		return s
	}
	return crRender(crInitial(typ))
}

func crSetOf(s string) map[string]bool {
	m := map[string]bool{}
	if len(s) >= 2 {
		for _, e := range strings.Split(s[1:len(s)-1], ",") {
			if e != "" {
				m[e] = true
			}
		}
	}
	return m
}

// ------------------------------------------------------------------ C41

func c41Run(c *Ctx) {
	st := crSetup(c, "c41", true)
	if st == nil {
		return
	}
	s := st.s
	defer func() { _ = s.Stop() }()
	ttl := st.ttl
	nthreads := 2 + c.W.Draw(2)
	total := 4 + c.W.Draw(9) // <= 12 operations
	c.Note("ops", total)
	issued := 0
	gaps := []time.Duration{0, time.Millisecond, ttl / 2, ttl - time.Nanosecond, ttl, ttl + time.Nanosecond, 3 * time.Millisecond}
	var fns []func()
	for t := 0; t < nthreads; t++ {
		home := t % st.n
		fns = append(fns, func() {
			for issued < total {
				issued++
				rep := home
				if c.W.Draw(4) == 3 {
					rep = c.W.Draw(st.n)
				}
				ki := c.W.Draw(len(st.keys))
				var op *crOp
				if c.W.Draw(4) == 1 {
					op = &crOp{id: len(st.ops), thread: t, rep: rep, key: ki, kind: "delete", ask: c.W.Draw(2) == 0}
					op.msg = &crdt.Delete{Key: st.keys[ki].key}
					st.ops = append(st.ops, op)
					st.opByMsg[op.msg] = op
				} else {
					op = st.genOp(t, rep, ki)
				}
				st.issue(op)
				switch c.W.Draw(6) {
				case 1, 2:
					Sleep(gaps[c.W.Draw(len(gaps))])
				case 3:
					st.doGet(rep, ki, "mid")
				case 4:
					// anti-entropy towards the replica that just handled the operation
					// (a full state from a peer that may not have seen the delete)
					st.exchange(rep, (rep+1+c.W.Draw(st.n-1))%st.n, true, st.fate())
				}
			}
		})
	}
	// prune ticks on a grid around the expiry of known tombstones, each followed
	// by an attempt to recreate the key; full-state exchanges in between
	nprune := 1 + c.W.Draw(4)
	fns = append(fns, func() {
		for i := 0; i < nprune; i++ {
			if len(st.dels) == 0 {
				Sleep(time.Duration(1+c.W.Draw(3)) * time.Millisecond)
				if len(st.dels) == 0 {
					continue
				}
			}
			d := st.dels[c.W.Draw(len(st.dels))]
			target := d.delAt + ttl + []time.Duration{time.Nanosecond, 0, -time.Nanosecond, time.Millisecond, -time.Millisecond}[c.W.Draw(5)]
			if now := Now(); target > now {
				Sleep(target - now)
			}
			r := c.W.Draw(st.n)
			if c.W.Draw(2) == 1 {
				// a replica that deleted the same key itself (possibly at another time)
				var same []*crOp
				for _, o := range st.dels {
					if o.key == d.key {
						same = append(same, o)
					}
				}
				r = same[c.W.Draw(len(same))].rep
			}
			c.Fault("prune-tick")
			_ = actor.Tell(s.Ctx, st.pids[r], actor.VerifPruneTick())
			switch c.W.Draw(3) {
			case 0:
				op := st.genOp(99, r, d.key)
				op.ask = true
				st.issue(op)
			case 1:
				b := (r + 1 + c.W.Draw(st.n-1)) % st.n
				st.exchange(r, b, true, st.fate())
			}
			st.doGet(r, d.key, "after-prune")
		}
	})
	Join(fns...)
	if !st.quiesce() {
		c.Fail("fabric-not-drained", "harness", "pending=%d", st.pending)
		return
	}
	st.getAll("end")
}

func c41Finish(c *Ctx) {
	st, _ := c.state.(*crState)
	if st == nil || c.Failed() {
		return
	}
	st.link()
	ttl := st.ttl
	// tombstones each replica has received, per key: deletion times
	recv := make([][][]time.Duration, st.n)
	for r := range recv {
		recv[r] = make([][]time.Duration, len(st.keys))
	}
	// stale[r][k]: r handled a tombstone older than one it already held (the
	// schedule in which the replicator replaces the newer deletion time)
	stale := make([][]bool, st.n)
	for r := range stale {
		stale[r] = make([]bool, len(st.keys))
	}
	noteTomb := func(r, k int, d time.Duration) {
		for _, x := range recv[r][k] {
			if d < x {
				stale[r][k] = true
			}
		}
		recv[r][k] = append(recv[r][k], d)
	}
	blockedUntil := func(r, k int, t time.Duration) (bool, time.Duration) {
		for _, d := range recv[r][k] {
			if t < d+ttl {
				return true, d
			}
		}
		return false, 0
	}
	for _, e := range st.evs {
		if !e.patched {
			continue
		}
		switch e.kind {
		case "delete":
			noteTomb(e.rep, e.op.key, e.op.delAt)
		case "tombstone":
			if e.fm == nil || e.fm.origin == e.rep {
				break
			}
			if e.fm.op == nil || e.fm.op.kind != "delete" {
				c.Fail("unlinked-tombstone", "harness", "tombstone %s has no delete operation", e.fm.id)
				return
			}
			k := e.fm.op.key
			noteTomb(e.rep, k, e.fm.op.delAt)
			c.Probe("tombstone-received")
			if stale[e.rep][k] {
				c.Probe("older-tombstone-after-newer")
			}
		}
		path := e.kind
		if e.kind == "update-rejected" {
			c.Probe("update-rejected-by-tombstone")
		}
		for k := range st.keys {
			blocked, d := blockedUntil(e.rep, k, e.t)
			if !blocked {
				if e.val[k] != "<nil>" && len(recv[e.rep][k]) > 0 && (e.kind == "update" || e.kind == "delta" || e.kind == "fullstate") {
					c.Probe("key-recreated-after-expiry")
				}
				continue
			}
			if e.kind == "delta" || e.kind == "fullstate" || e.kind == "update-rejected" {
				c.Probe("blocked-" + e.kind)
			}
			if e.val[k] != "<nil>" {
				class := "tombstoned-key-accepted"
				if !e.tomb[k] {
					class = "tombstone-dropped-early"
					if stale[e.rep][k] {
						path = "older-tombstone-replaced-newer"
					}
				}
				c.Fail(class, path, "replica %d exposes %s=%s after handling %s at t=%v although it received the delete made at t=%v (tombstone TTL %v, expires at %v). %s", e.rep, st.keys[k].id, e.val[k], e.kind, e.t, d, ttl, d+ttl, st.history(k))
				return
			}
			if e.kind == "update" && e.op.key == k && e.pubTo > e.pubFrom {
				c.Fail("tombstoned-update-published", "update", "replica %d published a delta for %s at t=%v although it holds the delete made at t=%v (TTL %v). %s", e.rep, st.keys[k].id, e.t, d, ttl, st.history(k))
				return
			}
		}
		if e.kind == "get" {
			g := st.getBy[e.get]
			if g == nil || g.err != nil {
				continue
			}
			blocked, d := blockedUntil(e.rep, g.key, e.t)
			if blocked && g.val != "<nil>" {
				c.Fail("tombstoned-key-accepted", "get", "Get(%s) on replica %d at t=%v answered %s although the replica received the delete made at t=%v (TTL %v). %s", st.keys[g.key].id, e.rep, e.t, g.val, d, ttl, st.history(g.key))
				return
			}
			if blocked {
				c.Probe("get-while-tombstoned")
			}
		}
	}
	for _, g := range st.gets {
		if g.err != nil {
			c.Fail("get-failed", "replicator", "Get(%s) on replica %d at stage %s: %v", st.keys[g.key].id, g.rep, g.stage, g.err)
			return
		}
	}
}

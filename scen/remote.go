package scen

// Engine D: two real actor systems with remoting over the simulated network
// (hook H1). Real: internal/remoteclient (serializer dispatch, coalescer,
// context propagation), internal/net (client pool, frames, server), the
// remoting handlers of package actor. Stub: sockets.

import (
	"context"
	"fmt"
	nethttp "net/http"
	"sort"
	"strconv"
	"strings"
	"time"

	"github.com/tochemey/goakt/v4/actor"
	"github.com/tochemey/goakt/v4/log"
	"github.com/tochemey/goakt/v4/remote"
	"github.com/tochemey/goakt/v4/test/data/testpb"
	"github.com/tochemey/goakt/v4/zzverif/simglue"
	"github.com/tochemey/goakt/v4/zzverif/simnet"
)

var remReal = []string{"actor (two actor systems incl. remoting server handlers)", "internal/remoteclient (client, coalescer, serializer dispatch, context propagation)", "internal/net (connection pool, frame codec, metadata, TCP server worker pool, proto server)", "remote (config, serializers)"}
var remStub = []string{"sockets: simnet in-memory byte streams behind the guarded dial/listen seam H1 (accept loop, socket options and TLS not exercised)", "clustering off", "logger: discard", "wall clock: testing/synctest fake clock"}

// rmsg encodes a remote test message: "tag|from|seq|ops" in a testpb.Reply.
// ops: r = respond (echo), wN = work N milliseconds, u = Unhandled.
func rmsg(tag, from, seq int, ops string) *testpb.Reply {
	return &testpb.Reply{Content: fmt.Sprintf("%d|%d|%d|%s", tag, from, seq, ops)}
}

func parseRmsg(s string) (tag, from, seq int, ops string, ok bool) {
	p := strings.SplitN(s, "|", 4)
	if len(p) != 4 {
		return
	}
	tag, e1 := strconv.Atoi(p[0])
	from, e2 := strconv.Atoi(p[1])
	seq, e3 := strconv.Atoi(p[2])
	return tag, from, seq, p[3], e1 == nil && e2 == nil && e3 == nil
}

type ctxKey struct{}

// tagPropagator carries one header per call: the value stored in the context.
type tagPropagator struct{}

// leakKey marks a call whose Inject fails AFTER it has written headers: nothing of
// what it wrote may ever show up on another call's message.
type leakKey struct{}

var errInjectFailed = fmt.Errorf("verif: injected propagator failure")

func (tagPropagator) Inject(ctx context.Context, h nethttp.Header) error {
	if v, ok := ctx.Value(ctxKey{}).(string); ok {
		h.Set("x-verif-tag", v)
	}
	if v, ok := ctx.Value(leakKey{}).(string); ok {
		h.Set("x-verif-leak", v)
		return errInjectFailed
	}
	return nil
}

func (tagPropagator) Extract(ctx context.Context, h nethttp.Header) (context.Context, error) {
	if v := h.Get("x-verif-leak"); v != "" {
		ctx = context.WithValue(ctx, leakKey{}, v)
	}
	if v := h.Get("x-verif-tag"); v != "" {
		return context.WithValue(ctx, ctxKey{}, v), nil
	}
	return ctx, nil
}

// remoteHandler makes a probe understand rmsg messages.
func remoteHandler(rc *actor.ReceiveContext, p *Probe) {
	m, ok := rc.Message().(*testpb.Reply)
	if !ok {
		rc.Unhandled()
		return
	}
	tag, from, seq, ops, ok := parseRmsg(m.GetContent())
	if !ok {
		rc.Unhandled()
		return
	}
	hdr, _ := rc.Context().Value(ctxKey{}).(string)
	if leak, ok := rc.Context().Value(leakKey{}).(string); ok {
		p.S.Ev(Ev{Actor: p.Name, Inc: p.Inc, Kind: "foreign-header", Tag: tag, From: from, MSeq: seq, Aux: leak})
	}
	p.S.Ev(Ev{Actor: p.Name, Inc: p.Inc, Kind: "recv-enter", Tag: tag, From: from, MSeq: seq, Aux: hdr})
	p.Handled = append(p.Handled, tag)
	for i := 0; i < len(ops); i++ {
		switch ops[i] {
		case 'w':
			j := i + 1
			for j < len(ops) && ops[j] >= '0' && ops[j] <= '9' {
				j++
			}
			n, _ := strconv.Atoi(ops[i+1 : j])
			Sleep(time.Duration(n) * time.Millisecond)
			i = j - 1
		case 'r':
			p.S.Ev(Ev{Actor: p.Name, Inc: p.Inc, Kind: "respond", Tag: tag})
			rc.Response(&testpb.Reply{Content: m.GetContent()})
		case 'u':
			rc.Unhandled()
		}
	}
	p.S.Ev(Ev{Actor: p.Name, Inc: p.Inc, Kind: "recv-exit", Tag: tag, From: from, MSeq: seq})
}

type remotePair struct {
	A, B  *Sys
	Net   *simnet.Network
	PortA int
	PortB int
	// Warn holds what the two systems logged at warn/error level ("sysA: ..."),
	// only for pairs started with startRemotePairLogged.
	Warn []string
}

// warnLog is a goakt logger that keeps the warn- and error-level lines of the
// product and discards the rest. LogLevel/Enabled stay those of the discard
// logger, so no level-guarded branch of goakt changes; package scen is not
// instrumented, so recording adds no scheduling point.
type warnLog struct {
	log.Logger
	node string
	into *[]string
}

func (l warnLog) rec(s string)                             { *l.into = append(*l.into, l.node+": "+s) }
func (l warnLog) Warn(v ...any)                            { l.rec(fmt.Sprint(v...)) }
func (l warnLog) Warnf(f string, v ...any)                 { l.rec(fmt.Sprintf(f, v...)) }
func (l warnLog) Error(v ...any)                           { l.rec(fmt.Sprint(v...)) }
func (l warnLog) Errorf(f string, v ...any)                { l.rec(fmt.Sprintf(f, v...)) }
func (l warnLog) With(keyValues ...any) log.Logger         { return l }
func (l warnLog) WarnContext(_ context.Context, v ...any)  { l.rec(fmt.Sprint(v...)) }
func (l warnLog) ErrorContext(_ context.Context, v ...any) { l.rec(fmt.Sprint(v...)) }
func (l warnLog) WarnfContext(_ context.Context, f string, v ...any) {
	l.rec(fmt.Sprintf(f, v...))
}
func (l warnLog) ErrorfContext(_ context.Context, f string, v ...any) {
	l.rec(fmt.Sprintf(f, v...))
}

// startRemotePair starts two systems A (port 9001) and B (9002) over simnet.
func startRemotePair(c *Ctx, cfg simnet.Config, ropts ...remote.Option) *remotePair {
	return startRemotePairOpt(c, cfg, false, ropts...)
}

// startRemotePairLogged is startRemotePair with the product's warnings kept in rp.Warn.
func startRemotePairLogged(c *Ctx, cfg simnet.Config, ropts ...remote.Option) *remotePair {
	return startRemotePairOpt(c, cfg, true, ropts...)
}

func startRemotePairOpt(c *Ctx, cfg simnet.Config, logged bool, ropts ...remote.Option) *remotePair {
	rp := &remotePair{PortA: 9001, PortB: 9002}
	rp.Net = simglue.EnableNet(c.F, cfg)
	opts := sysOpts(c)
	mk := func(name string, port int) *Sys {
		o := append([]actor.Option{actor.WithRemote(remote.NewConfig("127.0.0.1", port, ropts...))}, opts...)
		if logged {
			o = append(o, actor.WithLogger(warnLog{Logger: log.DiscardLogger, node: name, into: &rp.Warn}))
		}
		return StartSys(c, name, o...)
	}
	rp.A = mk("sysA", rp.PortA)
	rp.B = mk("sysB", rp.PortB)
	// one shared log so that events of both nodes are totally ordered
	rp.B.Log = nil
	rp.B.shared = rp.A
	return rp
}

func (rp *remotePair) stop(c *Ctx) {
	_ = rp.A.Stop()
	_ = rp.B.Stop()
	for _, k := range rp.Net.SortedStats() {
		if strings.HasPrefix(k, "fault:") {
			c.Faults[strings.TrimPrefix(k, "fault:")] += rp.Net.Stats[k]
		}
	}
	simglue.DisableNet()
}

// collectDeadLetters drains a system's event stream and records dead letters carrying rmsg payloads.
func collectDeadLetters(s *Sys, into *[]int, done *bool) {
	sub, err := s.Sys.Subscribe()
	if err != nil {
		return
	}
	Go(func() {
		for !*done {
			for m := range sub.Iterator() {
				if dl, ok := m.Payload().(*actor.Deadletter); ok {
					if r, ok := dl.Message().(*testpb.Reply); ok {
						if tag, _, _, _, ok := parseRmsg(r.GetContent()); ok {
							*into = append(*into, tag)
						}
					}
				}
			}
			Sleep(5 * time.Millisecond)
		}
		_ = s.Sys.Unsubscribe(sub)
	})
}

// ------------------------------------------------------------------ C27

type c27State struct {
	rp       *remotePair
	accepted map[int][2]int // tag -> (caller, seq)
	dead     []int
}

func c27Run(c *Ctx) {
	cfg := simnet.Config{Fragment: c.F.Draw(2) == 1, MaxResetAt: 600}
	switch c.F.Draw(5) {
	case 1:
		cfg.ResetPerm = 300
	case 2:
		cfg.StallPerm, cfg.StallFor = 300, 7*time.Second // past the coalescer's flush timeout
	case 3:
		cfg.RefusePerm = 200
	case 4:
		cfg.ResetPerm, cfg.LatencyMax = 200, 3*time.Millisecond
	}
	closeEarly := c.W.Draw(4) == 3
	if closeEarly {
		// The sender's whole system stops with messages pending. goakt flushes the
		// coalescers before its system actors stop, but deliberately does not
		// dead-letter batch failures once shutdown has begun (nobody is left to
		// read them), so these runs keep the network healthy: everything accepted
		// must then be flushed and delivered.
		cfg = simnet.Config{Fragment: cfg.Fragment}
	}
	c.Note("net", fmt.Sprintf("%+v", cfg))
	rp := startRemotePairLogged(c, cfg)
	st := &c27State{rp: rp, accepted: map[int][2]int{}}
	c.state = st
	done := false
	collectDeadLetters(rp.A, &st.dead, &done)
	recv := rp.B.NewProbe("sink")
	recv.OnUnknown = remoteHandler
	if _, err := rp.B.Sys.Spawn(rp.B.Ctx, "sink", recv, actor.WithLongLived()); err != nil {
		c.Fail("spawn-failed", "sink", "%v", err)
		return
	}
	from := rp.A.NewProbe("from")
	fpid, err := rp.A.Sys.Spawn(rp.A.Ctx, "from", from, actor.WithLongLived())
	if err != nil {
		c.Fail("spawn-failed", "from", "%v", err)
		return
	}
	var target *actor.PID
	for i := 0; i < 5 && target == nil; i++ {
		target, _ = fpid.RemoteLookup(rp.A.Ctx, "127.0.0.1", rp.PortB, "sink")
	}
	if target == nil {
		c.Probe("lookup-failed-under-faults")
		done = true
		rp.stop(c)
		return
	}
	ncall := 1 + c.W.Draw(4)
	c.Note("callers", ncall)
	c.Note("close_with_pending", closeEarly)
	var fns []func()
	for t := 0; t < ncall; t++ {
		n := 2 + c.W.Draw(10)
		// When the sender's system stops mid-traffic, some callers tell through the
		// package-level actor.Tell: for a remote PID it goes straight to the remoting
		// client without asking whether a local sender actor is still alive, so these
		// callers keep submitting while (and after) the client closes its coalescers.
		viaAPI := closeEarly && c.W.Draw(2) == 1
		if viaAPI {
			c.Probe("caller-tells-through-package-api-during-stop")
		}
		fns = append(fns, func() {
			for k := 0; k < n; k++ {
				tag := c.Seq()
				c.Ops++
				var err error
				if viaAPI {
					err = actor.Tell(rp.A.Ctx, target, rmsg(tag, t, k, ""))
				} else {
					err = fpid.Tell(rp.A.Ctx, target, rmsg(tag, t, k, ""))
				}
				if err == nil {
					st.accepted[tag] = [2]int{t, k}
					rp.A.Ev(Ev{Actor: "sink", Kind: "tell-ok", Tag: tag, From: t, MSeq: k})
				} else {
					rp.A.Ev(Ev{Actor: "sink", Kind: "tell-err", Tag: tag, From: t, MSeq: k, Aux: err.Error()})
				}
				if c.W.Draw(6) == 0 {
					Sleep(time.Duration(c.W.Draw(4)) * time.Millisecond)
				}
			}
		})
	}
	if closeEarly {
		// the sending system stops while messages may still sit in the coalescer
		fns = append(fns, func() {
			Sleep(time.Duration(c.W.Draw(3)) * time.Millisecond)
			c.Fault("sender-system-stop-with-pending")
			// dead letters published during stop are still collected: stop the collector afterwards
			_ = rp.A.Stop()
		})
	}
	Join(fns...)
	// settle: everything accepted is handled or dead-lettered within the budget
	settled := func() bool {
		seen := map[int]bool{}
		for _, t := range recv.Handled {
			seen[t] = true
		}
		for _, t := range st.dead {
			seen[t] = true
		}
		for t := range st.accepted {
			if !seen[t] {
				return false
			}
		}
		return true
	}
	WaitUntil(10*time.Millisecond, 30*time.Second, settled)
	done = true
	Sleep(20 * time.Millisecond)
	rp.stop(c)
}

func c27Finish(c *Ctx) {
	st, _ := c.state.(*c27State)
	if st == nil {
		return
	}
	recv := st.rp.B.Probes["sink"]
	if recv == nil {
		return
	}
	count := map[int]int{}
	last := map[int]int{}
	for _, e := range st.rp.A.Log {
		if e.Kind != "recv-enter" || e.Actor != "sink" {
			continue
		}
		count[e.Tag]++
		if count[e.Tag] > 1 {
			c.Fail("remote-tell-delivered-twice", "RemoteTell", "message tag %d (caller %d seq %d) delivered %d times", e.Tag, e.From, e.MSeq, count[e.Tag])
			return
		}
		if prev, ok := last[e.From]; ok && e.MSeq <= prev {
			comp := "RemoteTell"
			for _, x := range st.rp.A.Log {
				if x.Kind == "tell-ok" && x.Tag == e.Tag && e.T-x.T >= 5*time.Second {
					// the overtaken message sat in a batch whose flush had already timed out at the sender
					comp = "RemoteTell:stalled-batch-delivered-after-flush-timeout"
				}
			}
			c.Fail("remote-tell-order", comp, "caller %d: message seq %d delivered after seq %d; log tail: %s", e.From, e.MSeq, prev, st.rp.A.Tail(12))
			return
		}
		last[e.From] = e.MSeq
	}
	deadCount := map[int]int{}
	for _, t := range st.dead {
		deadCount[t]++
	}
	var tags []int
	for t := range st.accepted {
		tags = append(tags, t)
	}
	sort.Ints(tags)
	for _, t := range tags {
		if count[t] == 0 && deadCount[t] == 0 {
			cs := st.accepted[t]
			// Where was it lost? If the sender's own dead-letter actor failed while
			// handling a letter, the remoting layer did report the batch and the
			// letter was lost one stage later: a different defect, a different signature.
			comp := "RemoteTell"
			var warn []string
			for _, l := range st.rp.Warn {
				if strings.HasPrefix(l, "sysA: ") && strings.Contains(l, "child=GoAktDeadletter failing") {
					comp = "RemoteTell:sender-dead-letter-actor-panicked"
				}
				if len(warn) < 6 {
					warn = append(warn, l[:min(len(l), 160)])
				}
			}
			c.Fail("remote-tell-silently-dropped", comp, "message tag %d (caller %d seq %d) was accepted (Tell returned nil) but was neither delivered nor published to the sender's dead letters within 30s (simulated); net stats %v; dead letters %v; product warnings %q; log tail: %s", t, cs[0], cs[1], st.rp.Net.Stats, st.dead, warn, st.rp.A.Tail(16))
			return
		}
		if deadCount[t] > 1 {
			c.Fail("remote-tell-deadletter-twice", "RemoteTell", "message tag %d appears %d times in the sender's dead letters", t, deadCount[t])
			return
		}
	}
}

// ------------------------------------------------------------------ C28 / C29

type c28State struct {
	rp       *remotePair
	noHeader map[int]bool // tags sent with a context that carries no header at all
}

func c28Run(c *Ctx) {
	cfg := simnet.Config{Fragment: c.F.Draw(2) == 1, MaxResetAt: 400}
	switch c.F.Draw(4) {
	case 1:
		cfg.LatencyMax = 5 * time.Millisecond
	case 2:
		cfg.ResetPerm = 200
	case 3:
		cfg.StallPerm, cfg.StallFor = 200, 300*time.Millisecond
	}
	c.Note("net", fmt.Sprintf("%+v", cfg))
	rp := startRemotePair(c, cfg, remote.WithContextPropagator(tagPropagator{}))
	st28 := &c28State{rp: rp, noHeader: map[int]bool{}}
	c.state = st28
	nresp := 1 + c.W.Draw(2)
	for i := 0; i < nresp; i++ {
		p := rp.B.NewProbe(fmt.Sprintf("resp%d", i))
		p.OnUnknown = remoteHandler
		if _, err := rp.B.Sys.Spawn(rp.B.Ctx, p.Name, p, actor.WithLongLived()); err != nil {
			c.Fail("spawn-failed", p.Name, "%v", err)
			return
		}
	}
	from := rp.A.NewProbe("from")
	fpid, err := rp.A.Sys.Spawn(rp.A.Ctx, "from", from, actor.WithLongLived())
	if err != nil {
		c.Fail("spawn-failed", "from", "%v", err)
		return
	}
	targets := make([]*actor.PID, nresp)
	for i := range targets {
		for k := 0; k < 5 && targets[i] == nil; k++ {
			targets[i], _ = fpid.RemoteLookup(rp.A.Ctx, "127.0.0.1", rp.PortB, fmt.Sprintf("resp%d", i))
		}
		if targets[i] == nil {
			c.Probe("lookup-failed-under-faults")
			rp.stop(c)
			return
		}
	}
	ncall := 2 + c.W.Draw(5)
	c.Note("callers", ncall)
	var fns []func()
	for t := 0; t < ncall; t++ {
		n := 1 + c.W.Draw(4)
		fns = append(fns, func() {
			for k := 0; k < n; k++ {
				to := targets[c.W.Draw(len(targets))]
				tag := c.Seq()
				work := c.W.Draw(4) * 2 // responder latency in ms
				timeout := time.Duration([]int{50, 1000, work, work + 1, 2*work + 3}[c.W.Draw(5)]) * time.Millisecond
				if timeout <= 0 {
					timeout = time.Millisecond
				}
				ops := "r"
				if work > 0 {
					ops = fmt.Sprintf("w%dr", work)
				}
				hv := fmt.Sprintf("h%d", tag)
				ctx := context.WithValue(rp.A.Ctx, ctxKey{}, hv)
				if c.W.Draw(8) == 7 {
					// this caller's Inject writes a header and then fails: the call is not sent, and the
					// header it wrote must not travel with anybody else's message (pooled carriers)
					c.Fault("propagator-inject-fails-after-writing")
					lctx := context.WithValue(ctx, leakKey{}, fmt.Sprintf("leak-of-%d", tag))
					if c.W.Draw(2) == 0 {
						_ = fpid.Tell(lctx, to, rmsg(c.Seq(), t, -1, ""))
					} else {
						_, _ = fpid.Ask(lctx, to, rmsg(c.Seq(), t, -1, "r"), 50*time.Millisecond)
					}
				}
				c.Ops++
				switch c.W.Draw(4) {
				case 3:
					// RemoteBatchAsk: responses must come back in request order
					nb := 2 + c.W.Draw(3)
					var msgs []any
					var tags []int
					for b := 0; b < nb; b++ {
						bt := tag
						if b > 0 {
							bt = c.Seq()
						}
						tags = append(tags, bt)
						msgs = append(msgs, rmsg(bt, t, k, "r"))
					}
					rp.A.Ev(Ev{Actor: to.Name(), Kind: "batchask-call", Tag: tag, From: t, Aux: tags})
					ch, err := fpid.BatchAsk(context.WithValue(rp.A.Ctx, ctxKey{}, "batch"), to, msgs, time.Second)
					if err != nil {
						c.Probe("batch-ask-error")
						break
					}
					i := 0
					for resp := range ch {
						r, ok := resp.(*testpb.Reply)
						got := -1
						if ok {
							got, _, _, _, _ = parseRmsg(r.GetContent())
						}
						if i >= len(tags) || got != tags[i] {
							c.Fail("remote-batch-ask-order", "RemoteBatchAsk", "batch ask %v: response %d carries tag %d", tags, i, got)
							break
						}
						i++
					}
					if i != len(tags) && !c.Failed() {
						c.Fail("remote-batch-ask-count", "RemoteBatchAsk", "batch ask %v returned %d responses without an error", tags, i)
					}
					c.Probe("batch-ask-ok")
				case 0, 1:
					rp.A.Ev(Ev{Actor: to.Name(), Kind: "ask-call", Tag: tag, From: t, Aux: hv})
					resp, err := fpid.Ask(ctx, to, rmsg(tag, t, k, ops), timeout)
					c28Check(c, rp, tag, resp, err)
				case 2:
					// RemoteTell with a header: checked by the receiver-side log (C29). Some tells
					// carry no header at all: in a coalesced batch that mixes callers, the message
					// must then be handled without any header - not with its batch neighbour's.
					if c.W.Draw(3) == 2 {
						st28.noHeader[tag] = true
						ctx = rp.A.Ctx
						hv = ""
						c.Probe("tell-without-header")
					}
					rp.A.Ev(Ev{Actor: to.Name(), Kind: "tell-call", Tag: tag, From: t, Aux: hv})
					_ = fpid.Tell(ctx, to, rmsg(tag, t, k, ""))
				}
			}
		})
	}
	Join(fns...)
	Sleep(500 * time.Millisecond)
	rp.stop(c)
}

func c28Check(c *Ctx, rp *remotePair, tag int, resp any, err error) {
	if err != nil {
		rp.A.Ev(Ev{Kind: "ask-ret", Tag: tag, Aux: err.Error()})
		c.Probe("ask-error")
		return
	}
	r, ok := resp.(*testpb.Reply)
	if !ok {
		c.Fail("remote-ask-garbage-reply", "RemoteAsk", "ask tag %d returned %T", tag, resp)
		return
	}
	got, _, _, _, ok := parseRmsg(r.GetContent())
	rp.A.Ev(Ev{Kind: "ask-ret", Tag: tag, Aux: got})
	if !ok || got != tag {
		c.Fail("remote-ask-wrong-reply", "RemoteAsk", "ask tag %d received the reply to request %q; log tail: %s", tag, r.GetContent(), rp.A.Tail(14))
	}
}

func c28Finish(c *Ctx) {}

// c29Finish: the header restored on the receiver for message tag t is the one injected for t.
func c29Finish(c *Ctx) {
	st, _ := c.state.(*c28State)
	if st == nil {
		return
	}
	for _, e := range st.rp.A.Log {
		if e.Kind == "foreign-header" && e.MSeq != -1 {
			c.Fail("metadata-foreign-header", "ContextPropagator", "message tag %d was handled with header x-verif-leak=%q, which another caller's failed Inject had written: headers of one call travelled with another call's message", e.Tag, e.Aux)
			return
		}
		if e.Kind != "recv-enter" {
			continue
		}
		if e.MSeq == -1 {
			continue // the message of a call whose Inject failed (if it was sent at all, its own header is not judged)
		}
		want := fmt.Sprintf("h%d", e.Tag)
		if st.noHeader[e.Tag] {
			want = ""
		}
		if got, _ := e.Aux.(string); got != want && got != "batch" {
			c.Fail("metadata-mismatch", "ContextPropagator", "message tag %d was handled with header %q restored, %q was injected at send time", e.Tag, e.Aux, want)
			return
		}
		c.Probe("header-verified")
	}
}

func init() {
	Register(&Scenario{Prop: "C27", Name: "remote-tell", Variants: []string{"stock", "small"}, Quick: 600, Thorough: 60000,
		EstSteps: 20000, MaxSteps: 3000000, MaxIdle: time.Hour, Real: remReal, Stub: remStub, Run: c27Run, Finish: c27Finish})
	Register(&Scenario{Prop: "C28", Name: "remote-ask", Variants: []string{"stock", "small"}, Quick: 1200, Thorough: 60000,
		EstSteps: 20000, MaxSteps: 3000000, MaxIdle: time.Hour, Real: remReal, Stub: remStub, Run: c28Run, Finish: c28Finish})
	Register(&Scenario{Prop: "C29", Name: "remote-metadata", Variants: []string{"stock", "small"}, Quick: 600, Thorough: 60000,
		EstSteps: 20000, MaxSteps: 3000000, MaxIdle: time.Hour, Real: remReal, Stub: remStub, Run: c28Run, Finish: c29Finish})
}

package scen

import (
	"fmt"
	"strings"
	"runtime"
	"time"

	"github.com/tochemey/goakt/v4/actor"
	"github.com/tochemey/goakt/v4/passivation"
	"github.com/tochemey/goakt/v4/supervisor"
)

var sysReal = []string{"actor (actor system, dispatcher, workers, ready queue, mailboxes, supervision, death watch, passivation manager, scheduler, dead letters)", "eventstream", "internal/queue, internal/ticker, internal/timer, internal/xsync", "github.com/reugn/go-quartz (instrumented copy)", "golang.org/x/sync singleflight/errgroup (instrumented copy)"}
var sysStub = []string{"remoting and clustering off (no sockets, no olric/memberlist)", "logger: discard", "OpenTelemetry: not enabled", "wall clock: testing/synctest fake clock"}

// sysOpts draws the per-run system knobs: dispatcher workers and throughput budget.
func sysOpts(c *Ctx) []actor.Option {
	workers := 2 + c.W.Draw(3)
	runtime.GOMAXPROCS(workers) // the dispatcher sizes its worker pool from GOMAXPROCS
	budget := []int{1, 2, 4, 32}[c.W.Draw(4)]
	c.Note("workers", workers)
	c.Note("throughput_budget", budget)
	return []actor.Option{actor.WithThroughputBudget(budget)}
}

// genCmd draws the handler script of an ordinary message.
func genCmd(c *Ctx, from, seq int, allowPanic bool) *Cmd {
	cmd := &Cmd{Tag: c.Seq(), From: from, Seq: seq}
	switch c.W.Draw(8) {
	case 0, 1, 2:
	case 3, 4:
		cmd.Ops = append(cmd.Ops, Op{K: OpYield, N: 1 + c.W.Draw(3)})
	case 5:
		cmd.Ops = append(cmd.Ops, Op{K: OpWork, D: time.Duration(1+c.W.Draw(3)) * time.Millisecond})
	case 6:
		cmd.Ops = append(cmd.Ops, Op{K: OpYield, N: 2}, Op{K: OpWork, D: time.Microsecond})
	case 7:
		if allowPanic {
			if c.W.Draw(2) == 0 {
				cmd.Ops = append(cmd.Ops, Op{K: OpPanic, N: c.W.Draw(2)})
			} else {
				cmd.Ops = append(cmd.Ops, Op{K: OpErr, N: c.W.Draw(2)})
			}
		}
	}
	return cmd
}

// ------------------------------------------------------------------ C01

func c01Run(c *Ctx) {
	s := StartSys(c, "c01", sysOpts(c)...)
	nact := 1 + c.W.Draw(3)
	var pids []*actor.PID
	var names []string
	sup := supervisor.NewSupervisor(
		supervisor.WithStrategy(supervisor.OneForOneStrategy),
		supervisor.WithDirective(&ErrA{}, supervisor.RestartDirective),
		supervisor.WithDirective(&ErrB{}, supervisor.ResumeDirective),
	)
	mbs := sysMailboxesStoppable()
	for i := 0; i < nact; i++ {
		mb := mbs[c.W.Draw(len(mbs))]
		opts := append(mb.Opt(), actor.WithSupervisor(sup))
		if c.W.Draw(3) == 0 {
			opts = append(opts, actor.WithPassivationStrategy(passivation.NewTimeBasedStrategy(time.Duration(2+c.W.Draw(6))*time.Millisecond)))
			c.Probe("actor-with-short-passivation")
		} else {
			opts = append(opts, actor.WithLongLived())
		}
		name := fmt.Sprintf("a%d", i)
		_, pid, err := s.Spawn(name, opts...)
		if err != nil {
			c.Fail("spawn-failed", name, "%v", err)
			return
		}
		pids = append(pids, pid)
		names = append(names, name+":"+mb.Name)
	}
	c.Note("actors", names)
	nsend := 2 + c.W.Draw(3)
	var fns []func()
	for t := 0; t < nsend; t++ {
		n := 3 + c.W.Draw(6)
		fns = append(fns, func() {
			for k := 0; k < n; k++ {
				to := pids[c.W.Draw(len(pids))]
				_ = s.Tell(to, genCmd(c, t, k, true))
				if c.W.Draw(4) == 0 {
					Sleep(time.Duration(c.W.Draw(3)) * time.Millisecond)
				}
			}
		})
	}
	// a chaos thread: restarts / reinstates while traffic flows
	nchaos := c.W.Draw(4)
	fns = append(fns, func() {
		for k := 0; k < nchaos; k++ {
			pid := pids[c.W.Draw(len(pids))]
			Sleep(time.Duration(c.W.Draw(3)) * time.Millisecond)
			switch c.W.Draw(3) {
			case 0, 1:
				c.Fault("restart-during-traffic")
				if !CallTimeout(3*time.Second, func() { _ = pid.Restart(s.Ctx) }) {
					c.Probe("restart-call-hung") // Restart racing a supervisor restart can wait forever (DESIGN.md, observations)
				}
			case 2:
				if pid.IsSuspended() {
					c.Fault("reinstate")
					_ = s.Sys.NoSender().Reinstate(pid)
				}
			}
		}
	})
	Join(fns...)
	Sleep(30 * time.Millisecond)
	_ = s.Stop()
}

// ------------------------------------------------------------------ C02 / C03

type c02State struct {
	s        *Sys
	accepted map[int]string // tag -> receiver
	strict   bool
}

func c02Run(c *Ctx) {
	s := StartSys(c, "c02", sysOpts(c)...)
	st := &c02State{s: s, accepted: map[int]string{}, strict: true}
	c.state = st
	nact := 1 + c.W.Draw(3)
	var pids []*actor.PID
	var names []string
	for i := 0; i < nact; i++ {
		mb := sysMailboxes[c.W.Draw(len(sysMailboxes))]
		name := fmt.Sprintf("a%d", i)
		_, pid, err := s.Spawn(name, append(mb.Opt(), actor.WithLongLived())...)
		if err != nil {
			c.Fail("spawn-failed", name, "%v", err)
			return
		}
		pids = append(pids, pid)
		names = append(names, name+":"+mb.Name)
	}
	c.Note("actors", names)
	nsend := 2 + c.W.Draw(3)
	var fns []func()
	for t := 0; t < nsend; t++ {
		n := 2 + c.W.Draw(8)
		seqs := make([]int, nact)
		fns = append(fns, func() {
			for k := 0; k < n; k++ {
				ti := c.W.Draw(len(pids))
				to := pids[ti]
				if c.W.Draw(5) == 0 && k+1 < n {
					// BatchTell from the same goroutine keeps its place in the per-sender order
					var batch []any
					var cmds []*Cmd
					for b := 0; b < 2+c.W.Draw(2); b++ {
						cm := genCmd(c, t, seqs[ti], false)
						seqs[ti]++
						batch = append(batch, cm)
						cmds = append(cmds, cm)
					}
					c.Ops++
					if err := s.Sys.NoSender().BatchTell(s.Ctx, to, batch...); err == nil {
						for _, cm := range cmds {
							st.accepted[cm.Tag] = to.Name()
							s.Ev(Ev{Actor: to.Name(), Kind: "tell-ok", Tag: cm.Tag, From: t, MSeq: cm.Seq})
						}
					}
					c.Probe("batch-tell")
					continue
				}
				cm := genCmd(c, t, seqs[ti], false)
				seqs[ti]++
				if s.Tell(to, cm) == nil {
					st.accepted[cm.Tag] = to.Name()
				} else {
					c.Probe("tell-rejected")
				}
				if c.W.Draw(5) == 0 {
					Sleep(time.Duration(c.W.Draw(3)) * time.Millisecond)
				}
			}
		})
	}
	Join(fns...)
	// bounded liveness: every accepted message is handled within 5 s of simulated time
	handled := func() bool {
		n := 0
		for _, p := range s.Probes {
			n += len(p.Handled)
		}
		return n >= len(st.accepted)
	}
	if !WaitUntil(time.Millisecond, 5*time.Second, handled) {
		seen := map[int]bool{}
		for _, p := range s.Probes {
			for _, t := range p.Handled {
				seen[t] = true
			}
		}
		for tag, to := range st.accepted {
			if !seen[tag] {
				c.Fail("message-not-processed", "local-tell", "message tag %d accepted by Tell to live actor %s was not handled within 5s (simulated) after traffic stopped: lost message or lost wake-up; log tail: %s", tag, to, s.Tail(10))
				break
			}
		}
	}
	_ = s.Stop()
}

func c02Finish(c *Ctx) {
	st, _ := c.state.(*c02State)
	if st == nil {
		return
	}
	count := map[int]int{}
	last := map[string]int{} // (actor, inc, from) -> last seq
	for _, e := range st.s.Log {
		if e.Kind != "recv-enter" {
			continue
		}
		count[e.Tag]++
		if count[e.Tag] > 1 {
			c.Fail("processed-twice", "local-tell", "message tag %d handled %d times by %s", e.Tag, count[e.Tag], e.Actor)
			return
		}
		if _, ok := st.accepted[e.Tag]; !ok {
			c.Fail("processed-unaccepted", "local-tell", "message tag %d was handled by %s although its Tell returned an error", e.Tag, e.Actor)
			return
		}
		if c.Failed() {
			return
		}
	}
	_ = last
}

// C03: per-sender FIFO over the same runs, FIFO mailboxes only.
func c03Run(c *Ctx) {
	s := StartSys(c, "c03", sysOpts(c)...)
	st := &c02State{s: s, accepted: map[int]string{}}
	c.state = st
	var fifo []sysMailbox
	for _, m := range sysMailboxes {
		if m.FIFO {
			fifo = append(fifo, m)
		}
	}
	nact := 1 + c.W.Draw(2)
	var pids []*actor.PID
	var names []string
	for i := 0; i < nact; i++ {
		mb := fifo[c.W.Draw(len(fifo))]
		name := fmt.Sprintf("a%d", i)
		_, pid, err := s.Spawn(name, append(mb.Opt(), actor.WithLongLived())...)
		if err != nil {
			c.Fail("spawn-failed", name, "%v", err)
			return
		}
		pids = append(pids, pid)
		names = append(names, name+":"+mb.Name)
	}
	c.Note("actors", names)
	c.Comp = names[0]
	nsend := 2 + c.W.Draw(3)
	// some senders are real actors' PIDs, some share NoSender (stress for the fair mailbox)
	var fns []func()
	for t := 0; t < nsend; t++ {
		n := 3 + c.W.Draw(8)
		seqs := make([]int, nact)
		fns = append(fns, func() {
			for k := 0; k < n; k++ {
				ti := c.W.Draw(len(pids))
				to := pids[ti]
				if c.W.Draw(4) == 0 {
					var batch []any
					for b := 0; b < 2+c.W.Draw(3); b++ {
						batch = append(batch, genCmd(c, t, seqs[ti], false))
						seqs[ti]++
					}
					c.Ops++
					_ = s.Sys.NoSender().BatchTell(s.Ctx, to, batch...)
					c.Probe("batch-tell")
					continue
				}
				cm := genCmd(c, t, seqs[ti], false)
				seqs[ti]++
				_ = s.Tell(to, cm)
			}
		})
	}
	Join(fns...)
	Sleep(200 * time.Millisecond)
	_ = s.Stop()
}

func c03Finish(c *Ctx) {
	st, _ := c.state.(*c02State)
	if st == nil {
		return
	}
	last := map[string]int{}
	for _, e := range st.s.Log {
		if e.Kind != "recv-enter" {
			continue
		}
		k := fmt.Sprintf("%s/%d<-%d", e.Actor, e.Inc, e.From)
		if prev, ok := last[k]; ok && e.MSeq <= prev {
			c.Fail("sender-order-violated", c.Comp, "actor %s handled message seq %d of sender thread %d after seq %d of the same sender", e.Actor, e.MSeq, e.From, prev)
			return
		}
		last[k] = e.MSeq
	}
}

// ------------------------------------------------------------------ C06

var c06Paths = []string{"poison-pill", "kill-external", "stop-by-parent-external", "stop-from-other-actor-turn", "parent-stop", "supervisor-stop", "passivation", "restart", "self-shutdown", "supervisor-restart"}

type c06State struct {
	s      *Sys
	path   string
	second bool // a second, overlapping stop request of another kind was issued
}

func c06Run(c *Ctx) {
	s := StartSys(c, "c06", sysOpts(c)...)
	s.CheckLifecycle = true
	path := c06Paths[c.W.Draw(len(c06Paths))]
	c.Comp = path
	c.Note("stop_path", path)
	st06 := &c06State{s: s, path: path}
	c.state = st06
	sup := supervisor.NewSupervisor(supervisor.WithAnyErrorDirective(supervisor.StopDirective))
	if path == "supervisor-restart" {
		// the failing child is restarted by its supervisor while traffic goes on:
		// PreStart of the new incarnation must finish before it handles anything
		sup = supervisor.NewSupervisor(supervisor.WithAnyErrorDirective(supervisor.RestartDirective))
	}
	parent, ppid, err := s.Spawn("parent", actor.WithLongLived())
	if err != nil {
		c.Fail("spawn-failed", "parent", "%v", err)
		return
	}
	_ = parent
	child := s.NewProbe("child")
	if path == "supervisor-restart" || path == "restart" {
		// PreStart of a re-incarnation takes simulated time, and the sender keeps
		// sending meanwhile: a Receive that starts before it is over is visible
		pre := time.Duration(c.W.Draw(3)) * time.Millisecond
		child.PreStartErr = func(inc int) error {
			if inc > 1 && pre > 0 {
				Sleep(pre)
			}
			return nil
		}
	}
	copts := []actor.SpawnOption{actor.WithSupervisor(sup)}
	mb := sysMailboxes[c.W.Draw(5)] // BoundedMailbox is left out: stopping an actor whose disposed ring still holds messages makes a worker spin (reported in DESIGN.md, outside C06)
	copts = append(copts, mb.Opt()...)
	c.Note("mailbox", mb.Name)
	if path == "passivation" {
		copts = append(copts, actor.WithPassivationStrategy(passivation.NewTimeBasedStrategy(time.Duration(1+c.W.Draw(4))*time.Millisecond)))
	} else {
		copts = append(copts, actor.WithLongLived())
	}
	cpid, err := ppid.SpawnChild(s.Ctx, "child", child, copts...)
	if err != nil {
		c.Fail("spawn-failed", "child", "%v", err)
		return
	}
	helper, hpid, _ := s.Spawn("helper", actor.WithLongLived())
	_ = helper
	nmsg := 3 + c.W.Draw(6)
	stopAfter := c.W.Draw(nmsg + 1)
	second := c.W.Draw(4) == 3 && path != "passivation" && path != "supervisor-restart" && path != "restart"
	secondKind, secondLag := c.W.Draw(3), c.W.Draw(6)
	c.Note("second_stop", second)
	if second {
		// Runs with two overlapping stop requests only decide "PostStop at most once"
		// (and PreStart before Receive): which of the two stops ran PostStop, and
		// with it the attribution of the overlap clauses to a stop path, is not
		// known, and those clauses are decided by the runs with a single stop.
		st06.second = true
		s.CheckLifecycle = false
	}
	Join(func() {
		for k := 0; k < nmsg; k++ {
			cm := &Cmd{Tag: c.Seq(), From: 0, Seq: k}
			switch c.W.Draw(3) {
			case 0:
				cm.Ops = []Op{{K: OpWork, D: time.Duration(1+c.W.Draw(2)) * time.Millisecond}}
			case 1:
				cm.Ops = []Op{{K: OpYield, N: 1 + c.W.Draw(4)}}
			}
			s.Ev(Ev{Actor: "child", Kind: "tell-call", Tag: cm.Tag})
			_ = s.Tell(cpid, cm)
			if c.W.Draw(3) == 0 {
				Sleep(time.Duration(c.W.Draw(3)) * time.Millisecond)
			}
		}
	}, func() {
		for i := 0; i < stopAfter; i++ {
			Yield()
		}
		if c.W.Draw(2) == 0 {
			Sleep(time.Duration(c.W.Draw(3)) * time.Millisecond)
		}
		s.Ev(Ev{Actor: "child", Kind: "stop-issued", Aux: path})
		c.Fault("stop:" + path)
		switch path {
		case "poison-pill":
			_ = actor.Tell(s.Ctx, cpid, new(actor.PoisonPill))
		case "kill-external":
			_ = s.Sys.Kill(s.Ctx, "child")
		case "stop-by-parent-external":
			_ = ppid.Stop(s.Ctx, cpid)
		case "stop-from-other-actor-turn":
			_ = s.Tell(hpid, &Cmd{Tag: c.Seq(), From: 1, Ops: []Op{{K: OpFunc, F: func(rc *actor.ReceiveContext, p *Probe) {
				_ = cpid.Shutdown(rc.Context())
			}}}})
		case "parent-stop":
			_ = s.Sys.Kill(s.Ctx, "parent")
		case "supervisor-stop", "supervisor-restart":
			_ = s.Tell(cpid, &Cmd{Tag: c.Seq(), From: 1, Ops: []Op{{K: OpPanic, N: 0}}})
		case "passivation":
			// nothing to do: the passivation manager stops it when idle
		case "restart":
			_ = cpid.Restart(s.Ctx)
		case "self-shutdown":
			_ = s.Tell(cpid, &Cmd{Tag: c.Seq(), From: 1, Ops: []Op{{K: OpShutdown}}})
		}
		s.Ev(Ev{Actor: "child", Kind: "stop-returned", Aux: path})
	}, func() {
		// in some runs a second stop request of another kind overlaps the first
		// one: whatever the combination, PostStop runs at most once
		if !second {
			return
		}
		for i := 0; i < stopAfter+secondLag; i++ {
			Yield()
		}
		c.Fault("second-overlapping-stop")
		switch secondKind {
		case 0:
			_ = s.Sys.Kill(s.Ctx, "child")
		case 1:
			_ = cpid.Shutdown(s.Ctx)
		case 2:
			_ = actor.Tell(s.Ctx, cpid, new(actor.PoisonPill))
		}
	})
	Sleep(50 * time.Millisecond)
	_ = s.Stop()
}

// tailAt renders the n log entries up to and including event seq.
func (s *Sys) tailAt(seq, n int) string {
	var b strings.Builder
	for i := max(0, seq-n+1); i <= seq && i < len(s.Log); i++ {
		b.WriteString(s.Log[i].String())
		b.WriteString(" | ")
	}
	return b.String()
}

func c06Finish(c *Ctx) {
	st, _ := c.state.(*c06State)
	if st == nil {
		return
	}
	type inc struct {
		preExit, firstRecv, stopEnter int
		stops                         int
	}
	incs := map[string]*inc{}
	get := func(e Ev) *inc {
		k := fmt.Sprintf("%s/%d", e.Actor, e.Inc)
		if incs[k] == nil {
			incs[k] = &inc{preExit: -1, firstRecv: -1, stopEnter: -1}
		}
		return incs[k]
	}
	for _, e := range st.s.Log {
		if e.Actor != "child" {
			continue
		}
		switch e.Kind {
		case "prestart-exit":
			get(e).preExit = e.Seq
		case "recv-enter", "poststart":
			i := get(e)
			if i.firstRecv < 0 {
				i.firstRecv = e.Seq
			}
			if i.preExit < 0 {
				// Was the Tell of this message invoked before the re-incarnation began
				// (it passed the liveness check of the old incarnation and was enqueued
				// late: a listed finding) or after it (the restarting actor accepted it)?
				comp := st.path
				preEnter, tellCall := -1, -1
				for _, x := range st.s.Log {
					if x.Actor == "child" && x.Kind == "prestart-enter" && x.Inc == e.Inc {
						preEnter = x.Seq
					}
					if x.Kind == "tell-call" && x.Tag == e.Tag {
						tellCall = x.Seq
					}
				}
				if e.Inc > 1 && tellCall >= 0 && preEnter >= 0 {
					if tellCall < preEnter {
						comp += ":tell-began-before-restart"
					} else {
						comp += ":tell-accepted-during-restart"
					}
				}
				c.Fail("receive-before-prestart", comp, "%s/%d handled a message (event #%d, tag %d, goroutine %s) before PreStart of that incarnation completed; log up to there: %s", e.Actor, e.Inc, e.Seq, e.Tag, e.G, st.s.tailAt(e.Seq, 14))
				return
			}
			if i.stopEnter >= 0 && e.Kind == "recv-enter" && !st.second {
				qual := "accepted-after-stop-returned"
				stopRet := -1
				for _, x := range st.s.Log {
					if x.Kind == "stop-returned" {
						stopRet = x.Seq
					}
					if x.Kind == "tell-ok" && x.Tag == e.Tag && (stopRet < 0 || x.Seq < stopRet) {
						qual = "queued-before-stop-returned"
					}
				}
				comp := st.path
				switch st.path {
				case "kill-external", "stop-by-parent-external", "parent-stop", "restart":
					comp += ":" + qual // the stop call is synchronous: what was accepted after it returned must never run
				}
				c.Fail("receive-after-poststop", comp, "%s/%d: Receive (tag %d, event #%d, goroutine %s) started after PostStop had started (event #%d); log tail: %s", e.Actor, e.Inc, e.Tag, e.Seq, e.G, i.stopEnter, st.s.Tail(14))
				return
			}
		case "poststop-enter":
			i := get(e)
			i.stops++
			if i.stops > 1 {
				c.Fail("poststop-twice", st.path, "%s/%d: PostStop ran %d times", e.Actor, e.Inc, i.stops)
				return
			}
			i.stopEnter = e.Seq
		}
	}
}

func init() {
	Register(&Scenario{Prop: "C01", Name: "handler-single", Variants: []string{"stock", "small"}, Quick: 2400, Thorough: 200000,
		EstSteps: 6000, MaxSteps: 400000, MaxIdle: time.Hour, Real: sysReal, Stub: sysStub, Run: c01Run})
	Register(&Scenario{Prop: "C02", Name: "exactly-once", Variants: []string{"stock", "small"}, Quick: 2400, Thorough: 200000,
		EstSteps: 5000, MaxSteps: 400000, MaxIdle: time.Hour, StuckClass: "system-stuck", Real: sysReal, Stub: sysStub, Run: c02Run, Finish: c02Finish})
	Register(&Scenario{Prop: "C03", Name: "sender-fifo", Variants: []string{"stock", "small"}, Quick: 2400, Thorough: 200000,
		EstSteps: 5000, MaxSteps: 400000, MaxIdle: time.Hour, Real: sysReal, Stub: sysStub, Run: c03Run, Finish: c03Finish})
	Register(&Scenario{Prop: "C06", Name: "lifecycle", Variants: []string{"stock"}, Quick: 2400, Thorough: 200000,
		EstSteps: 5000, MaxSteps: 400000, MaxIdle: time.Hour, Real: sysReal, Stub: sysStub, Run: c06Run, Finish: c06Finish})
}

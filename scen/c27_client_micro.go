package scen

// C27 micro-sim (engine S style, no actor system): the real
// internal/remoteclient.Client with send coalescing, driven directly by 2-4
// caller threads, against a real internal/net ProtoServer whose RemoteTellRequest
// handler records every message of every batch; a closer thread calls
// Client.Close() while callers are in the middle of RemoteTell. One run costs a
// few hundred scheduling steps, so the quick tier affords tens of thousands of
// schedules of the submit/close/drain race and of the racing first use of the
// destination's coalescer.

import (
	"context"
	"fmt"
	"sort"
	"strings"
	"time"

	"github.com/tochemey/goakt/v4/actor"
	"github.com/tochemey/goakt/v4/test/data/testpb"
	"github.com/tochemey/goakt/v4/zzverif/simglue"
	"github.com/tochemey/goakt/v4/zzverif/simnet"
)

var c27mReal = []string{"internal/remoteclient: client.RemoteTell (coalesced path), getCoalescer, NetClient cache, Close; coalescer submit/close/run (writer goroutine, flush, error handler); serializer dispatch", "internal/net: Client (connection pool, SendProto, frame codec), ProtoServer.handleConn, TCPServer worker pool", "internal/internalpb RemoteTellRequest/RemoteMessage/Error"}
var c27mStub = []string{"no actor system: callers are harness threads, the receiving actor is a recording RemoteTellRequest handler, the sender's dead letters are the recording CoalescingErrorHandler", "sockets: simnet in-memory byte streams (optional reset / latency / fragmentation)", "wall clock: fake"}

const c27mComp = "client-close-race"

type c27mRec struct{ tag, caller, seq int }

type c27mEv struct {
	kind string // ok err D R close> <close
	recs []c27mRec
	note string
}

type c27mState struct {
	sent      map[int]c27mRec // every tag handed to RemoteTell
	accepted  map[int]bool    // RemoteTell returned nil
	delivered []c27mRec       // in arrival order at the receiving handler
	reported  []c27mRec       // handed to the CoalescingErrorHandler
	seen      map[int]bool    // delivered or reported
	log       []c27mEv
	closing   bool         // Close has been called
	closed    bool         // Close has returned
	inClose   map[int]bool // accepted tags whose RemoteTell returned after Close had been called
	settled   bool
}

func (st *c27mState) ev(kind, note string, recs ...c27mRec) {
	st.log = append(st.log, c27mEv{kind, recs, note})
}

func (st *c27mState) history() string {
	var b strings.Builder
	for i, e := range st.log {
		if i > 0 {
			b.WriteByte(' ')
		}
		b.WriteString(e.kind)
		if len(e.recs) > 0 {
			b.WriteByte('[')
			for j, r := range e.recs {
				if j > 0 {
					b.WriteByte(' ')
				}
				fmt.Fprintf(&b, "c%d#%d", r.caller, r.seq)
			}
			b.WriteByte(']')
		}
		if e.note != "" {
			b.WriteString("(" + e.note + ")")
		}
	}
	return b.String()
}

func c27mRun(c *Ctx) {
	c.Comp = c27mComp
	simglue.WarmTellTypes("testpb.Reply")
	// network: most runs fault-free so that the close race is the star
	var cfg simnet.Config
	switch c.F.Draw(8) {
	case 5:
		cfg.ResetPerm, cfg.MaxResetAt = 400, 300
	case 6:
		cfg.LatencyMax = 2 * time.Millisecond
	case 7:
		cfg.Fragment = true
	}
	// receiving side: 0-3 healthy; 4 rejects some batches with a protocol error; 5 hangs up on some batches
	peer := c.F.Draw(6)
	nw := simglue.EnableNet(c.F, cfg)
	defer simglue.DisableNet()

	st := &c27mState{sent: map[int]c27mRec{}, accepted: map[int]bool{}, seen: map[int]bool{}, inClose: map[int]bool{}}
	c.state = st

	base := actor.VerifRemoteSendCoalescingMaxBatch() // 256 stock, 4 small
	maxBatch := []int{base, 1, 2}[c.W.Draw(3)]
	c.Note("max_batch", maxBatch)
	c.Note("net", fmt.Sprintf("%+v peer=%d", cfg, peer))

	var cl *simglue.TellClient
	decode := func(ms []simglue.TellMsg) []c27mRec {
		out := make([]c27mRec, 0, len(ms))
		for _, m := range ms {
			v, err := cl.Decode(m.Payload)
			r, ok := v.(*testpb.Reply)
			if err != nil || !ok {
				c.Fail("remote-tell-payload-corrupt", c27mComp, "payload of a message from %s to %s does not decode: %v %T", m.Sender, m.Receiver, err, v)
				continue
			}
			tag, from, seq, _, ok := parseRmsg(r.GetContent())
			if !ok {
				c.Fail("remote-tell-payload-corrupt", c27mComp, "payload %q", r.GetContent())
				continue
			}
			out = append(out, c27mRec{tag, from, seq})
		}
		return out
	}
	cl = simglue.NewTellClient(maxBatch, func(dest string, ms []simglue.TellMsg, err error) {
		recs := decode(ms)
		st.reported = append(st.reported, recs...)
		for _, r := range recs {
			st.seen[r.tag] = true
		}
		c.Probe("batch-reported")
		st.ev("R", fmt.Sprint(err), recs...)
	})
	srv, err := simglue.NewTellServer("127.0.0.1:7300", func(ms []simglue.TellMsg) simglue.TellVerdict {
		recs := decode(ms)
		if len(recs) > 1 {
			c.Probe("batch-of-several")
		}
		verdict := simglue.TellOK
		if peer >= 4 {
			switch k := c.F.Draw(4); {
			case peer == 4 && k == 3:
				// rejected as a whole: nothing of it is delivered
				c.Fault("batch-rejected")
				st.ev("reject", "", recs...)
				return simglue.TellReject
			case peer == 5 && k == 3:
				c.Fault("hang-up-before-handling")
				st.ev("hangup", "", recs...)
				return simglue.TellHangUp
			case peer == 5 && k == 2:
				// handled, but the reply never makes it: delivered AND reported is the sender's only honest answer
				c.Fault("hang-up-after-handling")
				verdict = simglue.TellHangUp
			}
		}
		st.delivered = append(st.delivered, recs...)
		for _, r := range recs {
			st.seen[r.tag] = true
		}
		st.ev("D", "", recs...)
		return verdict
	})
	if err != nil {
		c.Fail("server-start-failed", "ProtoServer", "%v", err)
		return
	}
	Go(func() { _ = srv.Serve() })
	Sleep(time.Millisecond)

	to := simglue.NewTellAddr("sink", "sysB", "127.0.0.1", 7300)
	ncall := 2 + c.W.Draw(3)
	c.Note("callers", ncall)
	var fns []func()
	for t := 0; t < ncall; t++ {
		from := simglue.NewTellAddr(fmt.Sprintf("from%d", t), "sysA", "127.0.0.1", 7299)
		n := 2 + c.W.Draw(7)
		// a caller with a deadline gives up on a full queue (backpressure error) instead of waiting for room
		var dl time.Duration
		if c.W.Draw(5) == 4 {
			dl = []time.Duration{time.Microsecond, time.Millisecond}[c.W.Draw(2)]
		}
		pause := -1 // one optional pause (a yield) inside the burst
		if c.W.Draw(4) == 3 {
			pause = c.W.Draw(n)
		}
		fns = append(fns, func() {
			for k := 0; k < n; k++ {
				if st.closed {
					// "After calling Close, the client should not be used for new requests":
					// only calls that overlap Close are in the documented domain
					c.Probe("caller-stopped-after-close")
					return
				}
				if k == pause {
					Yield()
				}
				rec := c27mRec{c.Seq(), t, k}
				st.sent[rec.tag] = rec
				c.Ops++
				ctx, cancel := context.Background(), context.CancelFunc(func() {})
				if dl > 0 {
					ctx, cancel = context.WithTimeout(ctx, dl)
				}
				err := cl.Tell(ctx, from, to, rmsg(rec.tag, t, k, ""))
				// A caller that was parked in submit's blocking select (queue full) is woken by
				// the writer, by close(done) or by its deadline and returns without passing a
				// scheduling point (select case bodies get no post-yield): several callers woken
				// by one close(done) would run the harness code below truly in parallel. Re-enter
				// scheduler control before touching harness state.
				Yield()
				cancel()
				if err == nil {
					st.accepted[rec.tag] = true
					if st.closing {
						st.inClose[rec.tag] = true
					}
					st.ev("ok", "", rec)
				} else {
					c.Probe("tell-error")
					st.ev("err", err.Error(), rec)
				}
			}
		})
	}
	// the closer: Close lands after a drawn number of yields (inside the burst) or a drawn
	// simulated delay (0 = when every caller is parked or done, messages still pending)
	mode := c.W.Draw(4)
	ny := c.W.Draw(40)
	c.Note("close", fmt.Sprintf("mode=%d yields=%d", mode, ny))
	fns = append(fns, func() {
		switch mode {
		case 0, 1:
			for i := 0; i < ny; i++ {
				Yield()
			}
		case 2:
			Sleep(time.Microsecond)
		case 3:
			Sleep(time.Millisecond)
		}
		st.ev("close>", "")
		st.closing = true
		cl.Close()
		st.closed = true
		st.ev("<close", "")
	})
	Join(fns...)

	// quiescence: everything accepted is delivered or reported. Without stalls the
	// slowest legitimate path is a dial timeout (5 s) or a flush timeout (5 s).
	settled := func() bool {
		for tag := range st.accepted {
			if !st.seen[tag] {
				return false
			}
		}
		return true
	}
	var waited time.Duration
	for d := time.Millisecond; !settled() && waited < 12*time.Second; d *= 2 {
		Sleep(d)
		waited += d
	}
	st.settled = settled()
	_ = srv.Shutdown()
	Sleep(time.Millisecond)
	mergeNet(c, nw)
}

func c27mFinish(c *Ctx) {
	st, _ := c.state.(*c27mState)
	if st == nil || c.Failed() {
		return
	}
	// at most once
	count := map[int]int{}
	last := map[int]int{}
	for _, r := range st.delivered {
		count[r.tag]++
		if count[r.tag] > 1 {
			c.Fail("remote-tell-delivered-twice", c27mComp, "message c%d#%d (tag %d) reached the receiving handler %d times; history: %s", r.caller, r.seq, r.tag, count[r.tag], st.history())
			return
		}
	}
	// per-caller order among the delivered messages (no stall faults are generated, so a
	// failed batch is never delivered late: the known flush-timeout exception cannot occur here)
	for _, r := range st.delivered {
		if prev, ok := last[r.caller]; ok && r.seq <= prev {
			comp := c27mComp
			if st.inClose[r.tag] {
				// The overtaken message was accepted while Close was already running: it can sit in a
				// coalescer that was registered between Close's Range over the coalescer map and its
				// Reset, which drops that coalescer from the map without closing it; the caller's next
				// tell then creates a second coalescer (second writer) for the destination. Known
				// finding, see known_findings.jsonl. A message accepted before Close was called can
				// never be in such a coalescer, so everything else keeps the plain signature.
				comp = c27mComp + ":first-use-during-close"
			}
			c.Fail("remote-tell-order", comp, "caller %d: message #%d reached the receiving handler after its message #%d; history: %s", r.caller, r.seq, prev, st.history())
			return
		}
		last[r.caller] = r.seq
	}
	rep := map[int]int{}
	for _, r := range st.reported {
		rep[r.tag]++
	}
	var tags []int
	for t := range st.accepted {
		tags = append(tags, t)
	}
	sort.Ints(tags)
	for _, t := range tags {
		r := st.sent[t]
		if count[t] == 0 && rep[t] == 0 {
			c.Fail("remote-tell-silently-dropped", c27mComp, "message c%d#%d (tag %d): RemoteTell returned nil, but after Close returned and 12 s of quiet (simulated) it was neither delivered to the receiving handler nor handed to the coalescing error handler; history: %s", r.caller, r.seq, t, st.history())
			return
		}
		if rep[t] > 1 {
			c.Fail("remote-tell-reported-twice", c27mComp, "message c%d#%d (tag %d) was handed to the coalescing error handler %d times; history: %s", r.caller, r.seq, t, rep[t], st.history())
			return
		}
		if count[t] > 0 && rep[t] > 0 {
			c.Probe("delivered-and-reported") // allowed: the reply was lost, the sender cannot know
		}
	}
	for _, r := range st.delivered {
		if !st.accepted[r.tag] {
			c.Probe("delivered-though-tell-returned-error")
		}
	}
}

func init() {
	Register(&Scenario{Prop: "C27", Name: "client-close-race", Variants: []string{"stock", "small"}, Quick: 20000, Thorough: 2000000,
		EstSteps: 350, MaxSteps: 200000, MaxIdle: time.Hour, Real: c27mReal, Stub: c27mStub, Run: c27mRun, Finish: c27mFinish})
}

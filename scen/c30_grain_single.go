package scen

// C30 — a grain is active on at most one node at a time, and once activity
// settles the registry names the node that holds it.
//
// Engine E (scen/cluster.go): 2–3 real cluster-enabled actor systems share the
// simulated single-copy registry. Driver threads on every node send to one or
// two grain identities concurrently (TellGrain, AskGrain, GrainOf with the four
// activation strategies, explicit deactivation with PoisonPill, idle periods
// drawn on a grid around the passivation deadline) while OnActivate fails or
// takes time and registry operations (get / put-if-absent / put / delete …)
// fail or are slow. The network is healthy and no node crashes: the statement
// quantifies over interleavings of registry operations and activation failures,
// not over message loss (a remote owner that cannot be reached is, by design,
// treated as gone).
//
// Two scenarios share the code: grain-single-activation (the full workload
// above; on the unchanged tree it violates the property through several
// non-atomic registry manipulations, all reported under the one component
// "full-workload" per class, with the fine attribution in the detail text) and
// grain-single-activation-core (the same senders, OnActivate failures and
// registry faults, but GrainOf / PoisonPill / passivation only one at a time at
// the quiescent points between rounds; the unchanged tree holds the property
// there, and violations carry the fine attribution as component "core:…").
//
// Oracles
//  1. online (at every activation/deactivation and at every scheduler step): the
//     number of NODES holding an instance of identity g that is between a
//     successful OnActivate and the end of OnDeactivate is ≤ 1.
//     class grain-active-on-two-nodes, component = how the later activation
//     came about (call path) and whether the earlier instance was already
//     inside OnDeactivate.
//  2. at quiescence (after every round of the workload, registry faults off,
//     polled for up to 30 s of simulated time so that operations in flight
//     finish): if a node holds g, the registry record of g names that node
//     (class grain-registry-owner-mismatch, component absent | names-other-node).
//     When no node holds g the statement demands nothing: a left-over record
//     names a live node that activates the grain on the next send (seen on the
//     unchanged tree when passivation races a GrainOf on the owner); it is only
//     counted (probe stale-record-without-holder).
//
// Not injected: OnDeactivate errors (the statement does not speak about failed
// deactivations; goakt then keeps record and process by design).

import (
	"context"
	"errors"
	"fmt"
	"runtime"
	"strings"
	"time"

	"github.com/tochemey/goakt/v4/actor"
	"github.com/tochemey/goakt/v4/test/data/testpb"
	"github.com/tochemey/goakt/v4/zzverif/simcluster"
	"github.com/tochemey/goakt/v4/zzverif/simrt"
)

type c30State struct {
	cl  *simCluster
	ids []string
	// per identity name, per node: instances between OnActivate success and
	// OnDeactivate entry / inside OnDeactivate. Plain counters (OnStep reads them).
	active  map[string][]int
	closing map[string][]int
	lastVia map[string][]string // call path of the latest activation per node
	failPerm   int           // OnActivate failure probability (per mille)
	actWork    time.Duration // simulated time OnActivate takes
	deactWork  time.Duration // simulated time OnDeactivate takes
	errInjected error
	// core: the restricted workload (see c30RunCore). Its violations carry the
	// fine attribution as component ("core:…"); the full workload reports one
	// component per class ("full-workload") with the attribution in the detail.
	core bool
}

// c30Comp turns the fine attribution into the signature component.
func c30Comp(st *c30State, fine string) string {
	if st.core {
		return "core:" + fine
	}
	return "full-workload"
}

func c30st() *c30State {
	cl := curCluster
	if cl == nil {
		return nil
	}
	st, _ := cl.C.state.(*c30State)
	return st
}

// ClusGrain is the probe grain: goakt constructs it as a zero value on
// whichever node activates the identity.
type ClusGrain struct {
	node *clusterNode
	name string
	up   bool
}

// activationPath names the goakt function that called pid.activate.
func activationPath() string {
	pcs := make([]uintptr, 24)
	n := runtime.Callers(2, pcs)
	fr := runtime.CallersFrames(pcs[:n])
	for {
		f, more := fr.Next()
		for _, k := range []string{"recreateGrainOnce", "ensureNewGrainProcess", "ensureExistingGrainProcess", "activateGrainLocally"} {
			if strings.Contains(f.Function, k) {
				return k
			}
		}
		if !more {
			return "unknown"
		}
	}
}

func (g *ClusGrain) OnActivate(_ context.Context, props *actor.GrainProps) error {
	st := c30st()
	if st == nil {
		return nil
	}
	c := st.cl.C
	g.node = st.cl.NodeOf(props.ActorSystem())
	g.name = props.Identity().Name()
	if g.node == nil || st.active[g.name] == nil {
		return nil
	}
	via := activationPath()
	st.cl.Ev(Ev{Actor: g.name, Inc: g.node.Idx, Kind: "onactivate-enter", Aux: via})
	simrt.Yield(-300)
	if st.actWork > 0 {
		simrt.Sleep(-301, st.actWork)
	}
	if st.failPerm > 0 && c.F.Draw(1000) < st.failPerm {
		c.Fault("onactivate-error")
		st.cl.Ev(Ev{Actor: g.name, Inc: g.node.Idx, Kind: "onactivate-fail"})
		return st.errInjected
	}
	g.up = true
	st.active[g.name][g.node.Idx]++
	st.lastVia[g.name][g.node.Idx] = via
	st.cl.Ev(Ev{Actor: g.name, Inc: g.node.Idx, Kind: "activated", Aux: via})
	c.Probe("activation:" + via)
	c30Check(c, st, g.name, g.node.Idx)
	return nil
}

func (g *ClusGrain) OnDeactivate(context.Context, *actor.GrainProps) error {
	st := c30st()
	if st == nil || g.node == nil || !g.up {
		return nil
	}
	g.up = false
	st.active[g.name][g.node.Idx]--
	st.closing[g.name][g.node.Idx]++
	st.cl.Ev(Ev{Actor: g.name, Inc: g.node.Idx, Kind: "ondeactivate-enter"})
	simrt.Yield(-302)
	if st.deactWork > 0 {
		simrt.Sleep(-303, st.deactWork)
	}
	st.closing[g.name][g.node.Idx]--
	st.cl.Ev(Ev{Actor: g.name, Inc: g.node.Idx, Kind: "deactivated"})
	st.cl.C.Probe("deactivation")
	return nil
}

func (g *ClusGrain) OnReceive(gc *actor.GrainContext) {
	m, ok := gc.Message().(*testpb.Reply)
	if !ok {
		gc.Unhandled()
		return
	}
	tag, from, seq, ops, ok := parseRmsg(m.GetContent())
	st := c30st()
	if !ok || st == nil || g.node == nil {
		gc.Unhandled()
		return
	}
	st.cl.Ev(Ev{Actor: g.name, Inc: g.node.Idx, Kind: "recv", Tag: tag, From: from, MSeq: seq})
	if !g.up {
		// never seen on the unchanged tree; belongs to the grain lifecycle (C31), so only counted
		st.cl.C.Probe("recv-while-not-active")
	}
	if strings.Contains(ops, "r") {
		gc.Response(&testpb.Reply{Content: m.GetContent()})
		return
	}
	gc.NoErr()
}

// c30Holders lists the nodes holding an instance of name (active, or still
// inside OnDeactivate).
func c30Holders(st *c30State, name string) (holders []int, closingOnly bool) {
	closingOnly = true
	for i := range st.cl.Nodes {
		a, d := st.active[name][i], st.closing[name][i]
		if a+d > 0 {
			holders = append(holders, i)
		}
	}
	if len(holders) >= 2 {
		// is it an overlap of two active instances, or does every earlier one sit in OnDeactivate?
		n := 0
		for _, i := range holders {
			if st.active[name][i] > 0 {
				n++
			}
		}
		closingOnly = n < 2
	}
	return
}

// c30Check is the online oracle. newest = node index that just activated (-1 when called from OnStep).
func c30Check(c *Ctx, st *c30State, name string, newest int) {
	holders, closingOnly := c30Holders(st, name)
	if len(holders) < 2 || st.cl.Failed() {
		return
	}
	via := "unknown"
	if newest >= 0 {
		via = st.lastVia[name][newest]
	} else {
		// called from OnStep: the newest activation is the last "activated" event of that identity
		log := st.cl.Log()
		for i := len(log) - 1; i >= 0; i-- {
			if log[i].Kind == "activated" && log[i].Actor == name {
				via, _ = log[i].Aux.(string)
				newest = log[i].Inc
				break
			}
		}
	}
	// what made the later activation possible: the last removal of g's registry
	// record before it (who deleted it, on which node relative to the holders)
	comp := "no-record-removal,second-activation-via:" + via
	log := st.cl.Log()
	// (1) a removal after the EARLIER holder became active took the record from
	// under it; (2) otherwise, if the earlier holder's own node removed the record
	// right before activating (without claiming again), that removal is the cause
	isKey := func(e Ev) bool { return strings.HasSuffix(e.Actor, "/"+name) && strings.HasPrefix(e.Kind, "reg:") }
	first := -1 // "activated" event of the earlier holder
	for i := len(log) - 1; i >= 0; i-- {
		if e := log[i]; e.Kind == "activated" && e.Actor == name && e.Inc != newest {
			first = i
			break
		}
	}
	found := false
	for i := len(log) - 1; i > first && first >= 0; i-- {
		if e := log[i]; e.Kind == "reg:delete" && isKey(e) {
			comp, found = fmt.Sprintf("record-removed-by:%v", e.Aux), true
			break
		}
	}
	if !found && first >= 0 {
		for i := first; i >= 0; i-- {
			e := log[i]
			if e.Inc != log[first].Inc || !isKey(e) {
				continue
			}
			if e.Kind == "reg:delete" {
				comp = fmt.Sprintf("record-removed-by:%v", e.Aux)
			}
			break // the last registry operation of that node on the key before it activated
		}
	}
	// (3) one of the holders activated right after LOSING the put-if-absent race:
	// its goroutine's last registry operations on the key before OnActivate were
	// putnx (refused) and the follow-up get that found the winner gone again
	for _, h := range holders {
		enter := -1
		for i := len(log) - 1; i >= 0; i-- {
			if e := log[i]; e.Kind == "onactivate-enter" && e.Actor == name && e.Inc == h {
				enter = i
				break
			}
		}
		var ops []string
		for i := enter - 1; i >= 0 && enter >= 0 && len(ops) < 2; i-- {
			if e := log[i]; e.G == log[enter].G && isKey(e) {
				ops = append(ops, e.Kind)
			}
		}
		if len(ops) == 2 && ops[0] == "reg:get" && ops[1] == "reg:putnx" {
			comp = "activated-after-lost-claim"
		}
	}
	if closingOnly {
		comp += ",first-still-in-OnDeactivate"
	}
	st.cl.Fail("grain-active-on-two-nodes", c30Comp(st, comp), "identity %s is held by nodes %v at the same time (active per node %v, inside OnDeactivate per node %v; latest activation on node %d via %s; attribution: %s); registry faults fired %v; log tail: %s",
		name, holders, st.active[name], st.closing[name], newest, via, comp, st.cl.Reg.Faults, st.cl.Tail(40))
}

func c30OnStep(c *Ctx) {
	st, _ := c.state.(*c30State)
	if st == nil || st.cl == nil {
		return
	}
	for _, name := range st.ids {
		c30Check(c, st, name, -1)
	}
}

// c30LastWriter names the goakt function behind the last registry operation of
// one of the given kinds on name's record ("none" when there was none).
func c30LastWriter(st *c30State, name string, kinds ...string) string {
	log := st.cl.Log()
	for i := len(log) - 1; i >= 0; i-- {
		e := log[i]
		if !strings.HasSuffix(e.Actor, "/"+name) {
			continue
		}
		for _, k := range kinds {
			if e.Kind == k {
				return fmt.Sprint(e.Aux)
			}
		}
	}
	return "none"
}

// c30Quiesce polls until the registry agrees with the holders (or 30 s pass).
func c30Quiesce(c *Ctx, st *c30State, round int) {
	cl := st.cl
	var reader *clusterNode
	for _, n := range cl.Nodes {
		if n.Up() {
			reader = n
			break
		}
	}
	if reader == nil || cl.Failed() {
		return
	}
	kind := &ClusGrain{}
	type view struct {
		holders []int
		found   bool
		owner   int
		host    string
		port    int
		err     error
	}
	look := func(name string) view {
		id := actor.VerifGrainIdentity(kind, name)
		var v view
		cl.LogRegOps = false // the oracle's own reads stay out of the log
		v.host, v.port, v.found, v.err = actor.VerifGrainOwner(reader.Ctx, reader.Sys.Sys, id.String())
		cl.LogRegOps = true
		v.holders, _ = c30Holders(st, name) // read AFTER the registry read: no scheduling point in between
		v.owner = -1
		if nd := cl.NodeAt(v.host, v.port); nd != nil {
			v.owner = nd.Idx
		}
		return v
	}
	for _, name := range st.ids {
		var v view
		staleOK := false
		ok := WaitUntil(20*time.Millisecond, 30*time.Second, func() bool {
			v = look(name)
			if v.err != nil {
				return false
			}
			switch {
			case len(v.holders) == 1 && v.found && v.owner == v.holders[0]:
				return true
			case len(v.holders) == 0 && !v.found:
				return true
			case len(v.holders) == 0 && v.found:
				// a record without a holder names a live node that activates the grain on
				// the next send; the statement demands nothing here, so it is only counted
				staleOK = true
				return true
			}
			return false
		})
		if staleOK {
			c.Probe("stale-record-without-holder")
		}
		if ok || cl.Failed() {
			if ok && len(v.holders) == 1 {
				c.Probe("quiescent-with-holder")
			} else if ok {
				c.Probe("quiescent-without-holder")
			}
			continue
		}
		switch {
		case v.err != nil:
			cl.Fail("grain-registry-unreadable", "quiescence", "round %d: registry read for %s keeps failing with faults off: %v", round, name, v.err)
		case len(v.holders) == 1 && !v.found:
			cl.Fail("grain-registry-owner-mismatch", c30Comp(st, "absent,record-removed-by:"+c30LastWriter(st, name, "reg:delete")), "round %d: 30s after activity stopped (registry faults off) node %d holds an active instance of %s but the registry has no record for it (last removal by %s); registry faults fired %v; log tail: %s", round, v.holders[0], name, c30LastWriter(st, name, "reg:delete"), cl.Reg.Faults, cl.Tail(60))
		case len(v.holders) == 1:
			cl.Fail("grain-registry-owner-mismatch", c30Comp(st, "names-other-node,record-written-by:"+c30LastWriter(st, name, "reg:put", "reg:putnx")), "round %d: 30s after activity stopped (registry faults off) node %d holds an active instance of %s but the registry record names %s:%d (node %d); registry faults fired %v; log tail: %s", round, v.holders[0], name, v.host, v.port, v.owner, cl.Reg.Faults, cl.Tail(60))
		}
		return
	}
}

func c30RunFull(c *Ctx) { c30Run(c, false) }
func c30RunCore(c *Ctx) { c30Run(c, true) }

// c30Run drives one run. core = the restricted workload: concurrent TellGrain /
// AskGrain from all nodes (activation through ensureNewGrainProcess /
// ensureExistingGrainProcess with the atomic claim), OnActivate failures and
// registry faults at any step, but GrainOf (owner forwarding, peer placement),
// explicit deactivation and passivation happen only at the quiescent points
// between two rounds, one at a time. On the unchanged tree the property holds
// in that domain, so the core scenario is the one that shows sensitivity; the
// full workload additionally races GrainOf, PoisonPill and passivation against
// the senders, where the unchanged tree violates the property in several ways
// (known_findings.jsonl, signature full-workload).
func c30Run(c *Ctx, core bool) {
	n := 2 + c.W.Draw(2)
	st := &c30State{core: core, active: map[string][]int{}, closing: map[string][]int{}, lastVia: map[string][]string{}, errInjected: errors.New("injected OnActivate failure")}
	nid := 1 + c.W.Draw(4)/3 // mostly one identity, sometimes two
	for i := 0; i < nid; i++ {
		name := fmt.Sprintf("g%d", i)
		st.ids = append(st.ids, name)
		st.active[name] = make([]int, n)
		st.closing[name] = make([]int, n)
		st.lastVia[name] = make([]string, n)
	}
	c.state = st
	c.Comp = "grain"
	cl := startCluster(c, n, clusterOpts{Grains: []actor.Grain{&ClusGrain{}}})
	if cl == nil {
		return
	}
	st.cl = cl
	cl.LogRegOps = true

	// ---- fault plan
	st.failPerm = []int{0, 150, 400}[c.F.Draw(3)]
	st.actWork = []time.Duration{0, 0, time.Millisecond, 30 * time.Millisecond}[c.F.Draw(4)]
	st.deactWork = []time.Duration{0, 0, time.Millisecond, 30 * time.Millisecond}[c.F.Draw(4)]
	var reg simcluster.Config
	switch c.F.Draw(6) {
	case 1:
		reg.ErrPerm = 60
	case 2:
		reg.ErrPerm = 200
	case 3:
		reg.SlowPerm, reg.SlowFor = 200, time.Duration(1+c.F.Draw(40))*time.Millisecond
	case 4:
		reg.SlowPerm, reg.SlowFor = 100, 1500*time.Millisecond // beyond the 1 s read/write timeout: the caller gives up
	case 5:
		reg.ErrPerm, reg.SlowPerm, reg.SlowFor = 80, 150, time.Duration(1+c.F.Draw(200))*time.Millisecond
	}
	if reg.ErrPerm+reg.SlowPerm > 0 {
		switch c.F.Draw(5) {
		case 1:
			reg.OnlyOps = map[string]bool{"putnx": true}
		case 2:
			reg.OnlyOps = map[string]bool{"put": true}
		case 3:
			reg.OnlyOps = map[string]bool{"delete": true}
		case 4:
			reg.OnlyOps = map[string]bool{"get": true}
		}
	}
	faulty := reg.ErrPerm+reg.SlowPerm > 0
	c.Note("nodes", n)
	c.Note("identities", nid)
	c.Note("registry_faults", fmt.Sprintf("%+v", reg))
	c.Note("onactivate_fail_permille", st.failPerm)

	// passivation: per run one idle time, used by GrainOf callers
	idle := []time.Duration{0, 40 * time.Millisecond, 150 * time.Millisecond, 600 * time.Millisecond}[c.W.Draw(4)] // 0 = default (2 min)
	c.Note("deactivate_after", idle.String())
	grid := func() time.Duration {
		d := idle
		if d == 0 {
			d = 50 * time.Millisecond
		}
		return max(0, []time.Duration{0, time.Millisecond, d - 100*time.Millisecond, d - time.Nanosecond, d, d + time.Nanosecond, d + 100*time.Millisecond, 2 * d}[c.W.Draw(8)])
	}
	kind := &ClusGrain{}
	strategies := []actor.ActivationStrategy{actor.LocalActivation, actor.LocalActivation, actor.RoundRobinActivation, actor.RandomActivation, actor.LeastLoadActivation}

	rounds := 1 + c.W.Draw(4)
	for round := 0; round < rounds && !cl.Failed(); round++ {
		if faulty {
			cl.RegistryFaults(reg)
		}
		var fns []func()
		for i := 0; i < n; i++ {
			nthreads := 1 + c.W.Draw(2)
			for t := 0; t < nthreads; t++ {
				nops := 1 + c.W.Draw(5)
				thread := i*10 + t
				fns = append(fns, cl.On(i, func(nd *clusterNode) {
					for k := 0; k < nops && !cl.Failed(); k++ {
						name := st.ids[c.W.Draw(len(st.ids))]
						id := actor.VerifGrainIdentity(kind, name)
						ctx, cancel := context.WithTimeout(nd.Ctx, 20*time.Second)
						tag := c.Seq()
						c.Ops++
						var err error
						op := c.W.Draw(10)
						if core && op >= 5 && op <= 7 {
							op -= 5 // no GrainOf / PoisonPill while others send: Tell or Ask instead
						}
						switch {
						case op <= 2:
							cl.Ev(Ev{Actor: name, Inc: nd.Idx, Kind: "tell-call", Tag: tag, From: thread})
							err = nd.Sys.Sys.TellGrain(ctx, id, rmsg(tag, thread, k, ""))
							cl.Ev(Ev{Actor: name, Inc: nd.Idx, Kind: "tell-ret", Tag: tag, From: thread, Aux: err})
						case op <= 4:
							cl.Ev(Ev{Actor: name, Inc: nd.Idx, Kind: "ask-call", Tag: tag, From: thread})
							_, err = nd.Sys.Sys.AskGrain(ctx, id, rmsg(tag, thread, k, "r"), time.Duration(1+c.W.Draw(3))*time.Second)
							cl.Ev(Ev{Actor: name, Inc: nd.Idx, Kind: "ask-ret", Tag: tag, From: thread, Aux: err})
						case op <= 6:
							var opts []actor.GrainOption
							if idle > 0 {
								opts = append(opts, actor.WithGrainDeactivateAfter(idle))
							}
							s := strategies[c.W.Draw(len(strategies))]
							if s != actor.LocalActivation {
								opts = append(opts, actor.WithActivationStrategy(s))
							}
							cl.Ev(Ev{Actor: name, Inc: nd.Idx, Kind: "grainof-call", Tag: tag, From: thread, Aux: int(s)})
							_, err = actor.GrainOf[*ClusGrain](ctx, nd.Sys.Sys, name, opts...)
							cl.Ev(Ev{Actor: name, Inc: nd.Idx, Kind: "grainof-ret", Tag: tag, From: thread, Aux: err})
						case op == 7:
							cl.Ev(Ev{Actor: name, Inc: nd.Idx, Kind: "poison-call", Tag: tag, From: thread})
							err = nd.Sys.Sys.TellGrain(ctx, id, new(actor.PoisonPill))
							cl.Ev(Ev{Actor: name, Inc: nd.Idx, Kind: "poison-ret", Tag: tag, From: thread, Aux: err})
							if err == nil {
								c.Probe("poisonpill-ok")
							}
						default:
							Sleep(grid())
						}
						cancel()
						if err != nil {
							c.Probe("op-error")
						}
					}
				}))
			}
		}
		Join(fns...)
		cl.RegistryFaultsOff()
		c30Quiesce(c, st, round)
		if core && !cl.Failed() {
			// one deactivation / placement at a time, nobody else sending
			name := st.ids[c.W.Draw(len(st.ids))]
			id := actor.VerifGrainIdentity(kind, name)
			nd := cl.Nodes[c.W.Draw(n)]
			switch c.W.Draw(4) {
			case 1: // explicit deactivation
				Join(cl.On(nd.Idx, func(nd *clusterNode) {
					ctx, cancel := context.WithTimeout(nd.Ctx, 20*time.Second)
					err := nd.Sys.Sys.TellGrain(ctx, id, new(actor.PoisonPill))
					cancel()
					cl.Ev(Ev{Actor: name, Inc: nd.Idx, Kind: "quiescent-poison", Aux: err})
				}))
			case 2: // (re)placement with a short idle time, then passivation
				d := 40 * time.Millisecond
				Join(cl.On(nd.Idx, func(nd *clusterNode) {
					ctx, cancel := context.WithTimeout(nd.Ctx, 20*time.Second)
					_, err := actor.GrainOf[*ClusGrain](ctx, nd.Sys.Sys, name, actor.WithGrainDeactivateAfter(d), actor.WithActivationStrategy(strategies[c.W.Draw(len(strategies))]))
					cancel()
					cl.Ev(Ev{Actor: name, Inc: nd.Idx, Kind: "quiescent-grainof", Aux: err})
				}))
				// always wait the idle time out: a passivation must not race the next round's senders in this domain
				Sleep(d + 200*time.Millisecond)
			case 3:
				Sleep(grid())
			}
			c30Quiesce(c, st, round)
		}
	}
	cl.Stop()
	// after a graceful stop of every node nothing may be left active
	for _, name := range st.ids {
		if h, _ := c30Holders(st, name); len(h) > 0 && !cl.Failed() {
			c.Probe("instance-left-after-system-stop")
		}
	}
}

func init() {
	Register(&Scenario{Prop: "C30", Name: "grain-single-activation-core", Quick: 400, Thorough: 40000,
		EstSteps: 30000, MaxSteps: 6000000, MaxIdle: time.Hour, Real: clusReal, Stub: clusStub,
		Run: c30RunCore, OnStep: c30OnStep, Finish: clusterFinish})
	Register(&Scenario{Prop: "C30", Name: "grain-single-activation", Quick: 200, Thorough: 20000,
		EstSteps: 30000, MaxSteps: 6000000, MaxIdle: time.Hour, Real: clusReal, Stub: clusStub,
		Run: c30RunFull, OnStep: c30OnStep, Finish: clusterFinish})
}

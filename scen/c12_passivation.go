package scen

// C12 — passivation only removes actors that are truly idle.
//
// Engine C. 1–3 probe actors, each with a time-based (T), message-count (N) or
// long-lived strategy. Every driver action has an absolute instant on the fake
// clock that is computed before the run from a grid around the deadlines
// (T−100ms, T−1ns, T, T+1ns … after a message / after the spawn), so that a
// message, a pause, a fault or a stop lands on the very instant at which the
// passivation manager's timer fires; the seeded scheduler then decides who goes
// first. One pacer thread per actor plus one chaos thread (pause / resume /
// fault → suspension / reinstate / resume-directive fault / stop / extra
// messages).
//
// Oracle (Finish), written from the statement:
//   - long-lived actors are never passivated;
//   - a passivated actor ran PostStop exactly once, produced one ActorPassivated
//     event and is not running afterwards;
//   - time-based: p − (instant the last message was handed to Receive) ≥ T − 100ms
//     (100ms = passivationTouchInterval, the documented coalescing slack; for
//     T ≤ 100ms the clause is vacuous);
//   - never inside [pause confirmed, resume sent) and never inside
//     [suspension observed, reinstate called);
//   - message-count: at least N messages were handed to Receive before.
//
// "Handled" is taken at the weakest reading: the instant Receive was entered
// (goakt stamps activity before calling the behaviour).

import (
	"fmt"
	"sort"
	"time"

	"github.com/tochemey/goakt/v4/actor"
	"github.com/tochemey/goakt/v4/passivation"
	"github.com/tochemey/goakt/v4/supervisor"
)

const c12Slack = 100 * time.Millisecond // actor/pid.go passivationTouchInterval

type c12Actor struct {
	name   string
	kind   string // "time", "count", "long"
	T      time.Duration
	N      int
	pid    *actor.PID
	probe  *Probe
	times  []time.Duration // pacer instants (relative to t0)
	stopBy string
	mb     *sysMailbox
	viaOpt bool // long-lived through WithLongLived() instead of the strategy
}

type c12Item struct {
	at   time.Duration
	ord  int
	a    *c12Actor
	kind string
	cmd  *Cmd
}

type c12State struct {
	s          *Sys
	acts       []*c12Actor
	passivated map[string]int
	stoppedEv  map[string]int
	running    map[string]bool // IsRunning() at the end of the run
	exists     map[string]bool
}

// c12Grid draws an offset from the deadline grid of timeout T.
func c12Grid(c *Ctx, T time.Duration) time.Duration {
	var d time.Duration
	switch c.W.Draw(13) {
	case 0:
		d = time.Millisecond
	case 1:
		d = T / 2
	case 2:
		d = T - c12Slack
	case 3:
		d = T - c12Slack - 1
	case 4:
		d = T - c12Slack + 1
	case 5:
		d = T - 1
	case 6:
		d = T
	case 7:
		d = T + 1
	case 8:
		d = c12Slack - time.Millisecond
	case 9:
		d = c12Slack
	case 10:
		d = c12Slack + time.Millisecond
	case 11:
		d = T + 50*time.Millisecond
	case 12:
		d = 0
	}
	if d < 0 {
		d = 0
	}
	return d
}

func c12Cmd(c *Ctx, from, seq int, T time.Duration) *Cmd {
	cmd := &Cmd{Tag: c.Seq(), From: from, Seq: seq}
	switch c.W.Draw(10) {
	case 6:
		cmd.Ops = []Op{{K: OpYield, N: 1 + c.W.Draw(3)}}
	case 7:
		cmd.Ops = []Op{{K: OpWork, D: time.Millisecond}}
	case 8:
		cmd.Ops = []Op{{K: OpWork, D: T / 2}}
	case 9:
		cmd.Ops = []Op{{K: OpWork, D: T - c12Slack/2}}
	}
	return cmd
}

func c12Run(c *Ctx) {
	s := StartSys(c, "c12", sysOpts(c)...)
	c.Comp = "passivation"
	st := &c12State{s: s, passivated: map[string]int{}, stoppedEv: map[string]int{}, running: map[string]bool{}, exists: map[string]bool{}}
	c.state = st
	sub, err := s.Sys.Subscribe()
	if err != nil {
		c.Fail("subscribe-failed", "passivation", "%v", err)
		_ = s.Stop()
		return
	}
	// ErrA: resume directive (sets the skip-next guard); ErrB: no directive => suspension
	sup := supervisor.NewSupervisor(supervisor.WithStrategy(supervisor.OneForOneStrategy),
		supervisor.WithDirective(&ErrA{}, supervisor.ResumeDirective))
	timeouts := []time.Duration{200 * time.Millisecond, 150 * time.Millisecond, 500 * time.Millisecond, 2 * time.Second, 101 * time.Millisecond, 50 * time.Millisecond, 5 * time.Millisecond}
	nact := 1 + c.W.Draw(3)
	var descr []string
	mbs := sysMailboxesStoppable()
	for i := 0; i < nact; i++ {
		a := &c12Actor{name: fmt.Sprintf("a%d", i), T: timeouts[c.W.Draw(len(timeouts))], N: 1 + c.W.Draw(5)}
		switch c.W.Draw(5) {
		case 0, 1, 2:
			a.kind = "time"
		case 3:
			a.kind = "count"
		case 4:
			a.kind = "long"
			a.viaOpt = c.W.Draw(2) == 0
		}
		if c.W.Draw(4) == 3 {
			a.mb = &mbs[c.W.Draw(len(mbs))]
		}
		st.acts = append(st.acts, a)
		descr = append(descr, fmt.Sprintf("%s:%s:T=%v:N=%d", a.name, a.kind, a.T, a.N))
	}
	c.Note("actors", descr)

	// ---- the plan: absolute instants, drawn before anything runs
	var plan [][]c12Item // one slice per driver thread
	ord := 0
	for i, a := range st.acts {
		var items []c12Item
		cur := time.Duration(0)
		n := 2 + c.W.Draw(6)
		for k := 0; k < n; k++ {
			cur += c12Grid(c, a.T)
			a.times = append(a.times, cur)
			items = append(items, c12Item{at: cur, ord: ord, a: a, kind: "msg", cmd: c12Cmd(c, i, k, a.T)})
			ord++
		}
		plan = append(plan, items)
	}
	var chaos []c12Item
	nchaos := c.W.Draw(6)
	// weighted: pairs (pause→resume, suspend→reinstate) are what reaches the guarded states
	kinds := []string{"msg", "pause+resume", "suspend+reinstate", "pause+resume", "suspend+reinstate", "fault-resume", "pause", "stop-shutdown", "stop-poison", "stop-kill", "resume", "reinstate", "fault-suspend"}
	add := func(a *c12Actor, at time.Duration, kind string, k int) {
		it := c12Item{at: at, ord: ord, a: a, kind: kind}
		ord++
		switch kind {
		case "msg":
			it.cmd = c12Cmd(c, 9, k, a.T)
		case "fault-suspend":
			it.cmd = &Cmd{Tag: c.Seq(), From: 9, Seq: k, Ops: []Op{{K: OpErr, N: 1}}}
		case "fault-resume":
			it.cmd = &Cmd{Tag: c.Seq(), From: 9, Seq: k, Ops: []Op{{K: OpErr, N: 0}}}
		}
		chaos = append(chaos, it)
	}
	for k := 0; k < nchaos; k++ {
		a := st.acts[c.W.Draw(len(st.acts))]
		anchor := time.Duration(0)
		if j := c.W.Draw(len(a.times) + 1); j > 0 {
			anchor = a.times[j-1]
		}
		at := anchor + c12Grid(c, a.T)
		switch kind := kinds[c.W.Draw(len(kinds))]; kind {
		case "pause+resume":
			add(a, at, "pause", k)
			add(a, at+c12Grid(c, a.T), "resume", k)
		case "suspend+reinstate":
			add(a, at, "fault-suspend", k)
			add(a, at+c12Grid(c, a.T), "reinstate", k)
		default:
			add(a, at, kind, k)
		}
	}
	sort.SliceStable(chaos, func(i, j int) bool { return chaos[i].at < chaos[j].at })
	plan = append(plan, chaos)

	// ---- spawn, then run the plan
	for _, a := range st.acts {
		opts := []actor.SpawnOption{actor.WithSupervisor(sup)}
		switch a.kind {
		case "time":
			opts = append(opts, actor.WithPassivationStrategy(passivation.NewTimeBasedStrategy(a.T)))
		case "count":
			opts = append(opts, actor.WithPassivationStrategy(passivation.NewMessageCountBasedStrategy(a.N)))
		case "long":
			if a.viaOpt {
				opts = append(opts, actor.WithLongLived())
			} else {
				opts = append(opts, actor.WithPassivationStrategy(passivation.NewLongLivedStrategy()))
			}
		}
		if a.mb != nil {
			opts = append(opts, a.mb.Opt()...)
		}
		p, pid, err := s.Spawn(a.name, opts...)
		if err != nil {
			c.Fail("spawn-failed", a.name, "%v", err)
			_ = s.Stop()
			return
		}
		a.pid, a.probe = pid, p
	}
	t0 := Now()
	var fns []func()
	for ti, items := range plan {
		fns = append(fns, func() {
			for _, it := range items {
				if d := t0 + it.at - Now(); d > 0 {
					Sleep(d)
				}
				c12Do(c, st, ti, it)
			}
		})
	}
	Join(fns...)

	// ---- tail: let every pending deadline expire
	tail := 300 * time.Millisecond
	for _, a := range st.acts {
		if a.T+300*time.Millisecond > tail {
			tail = a.T + 300*time.Millisecond
		}
	}
	longTail := c.W.Draw(8) == 7
	Sleep(tail)
	drain := func() {
		for m := range sub.Iterator() {
			switch e := m.Payload().(type) {
			case *actor.ActorPassivated:
				st.passivated[e.ActorPath().Name()]++
			case *actor.ActorStopped:
				st.stoppedEv[e.ActorPath().Name()]++
			}
		}
	}
	drain()
	var tailState []string
	for _, a := range st.acts {
		st.running[a.name] = a.pid.IsRunning()
		tailState = append(tailState, fmt.Sprintf("%s:running=%v,pausedFlag=%v,suspended=%v", a.name, st.running[a.name], actor.VerifPassivationPaused(a.pid), a.pid.IsSuspended()))
	}
	c.Note("tail_state", tailState)
	if longTail {
		// Past the system default timeout: a long-lived actor that silently fell
		// back to the default strategy would go now. The other actors are stopped
		// first: two minutes of fake time are free, but an actor whose declined
		// passivation attempt is retried every T (e.g. T=5ms with the paused flag
		// set and the manager entry scheduled, which a PausePassivation racing a
		// Reinstate leaves behind) costs ~16 steps per retry and hits the step cap.
		c.Probe("tail-past-default-timeout")
		for _, a := range st.acts {
			if a.kind != "long" && (a.pid.IsRunning() || a.pid.IsSuspended()) {
				s.Ev(Ev{Actor: a.name, Kind: "stop-issued", Aux: "stop-before-long-tail"})
				err := a.pid.Shutdown(s.Ctx)
				s.Ev(Ev{Actor: a.name, Kind: "stop-returned", Aux: err})
			}
		}
		Sleep(actor.DefaultPassivationTimeout + time.Second)
		drain()
		for _, a := range st.acts {
			if a.kind == "long" {
				st.running[a.name] = a.pid.IsRunning()
			}
		}
	}
	for _, a := range st.acts {
		if st.passivated[a.name] > 0 {
			c.Probe("passivated:" + a.kind)
		}
	}
	s.Ev(Ev{Kind: "sys-stop"})
	_ = s.Stop()
}

// c12Do performs one planned action.
func c12Do(c *Ctx, st *c12State, thread int, it c12Item) {
	s, a := st.s, it.a
	ctx := s.Ctx
	switch it.kind {
	case "msg", "fault-resume":
		if it.kind == "fault-resume" {
			c.Fault("resume-directive-fault")
		}
		_ = s.Tell(a.pid, it.cmd)
	case "pause":
		c.Ops++
		// The flag can only confirm THIS pause when it was clear before the send:
		// it may still be set by an earlier pause whose ResumePassivation is
		// queued behind a busy handler (system messages wait for the turn), or by
		// a suspension.
		stale := actor.VerifPassivationPaused(a.pid)
		if err := actor.Tell(ctx, a.pid, new(actor.PausePassivation)); err != nil {
			s.Ev(Ev{Actor: a.name, Kind: "pause-rejected", Aux: err})
			return
		}
		s.Ev(Ev{Actor: a.name, Kind: "pause-sent"})
		if a.kind == "long" {
			return
		}
		if stale {
			c.Probe("pause-unconfirmable")
			return
		}
		ok := false
		for i := 0; i < 40 && !ok; i++ {
			Yield()
			ok = actor.VerifPassivationPaused(a.pid)
		}
		if !ok {
			ok = WaitUntil(time.Millisecond, 20*time.Millisecond, func() bool { return actor.VerifPassivationPaused(a.pid) })
		}
		if ok && !a.pid.IsSuspended() {
			c.Fault("pause")
			s.Ev(Ev{Actor: a.name, Kind: "pause-confirmed"})
		}
	case "resume":
		c.Ops++
		s.Ev(Ev{Actor: a.name, Kind: "resume-send"})
		_ = actor.Tell(ctx, a.pid, new(actor.ResumePassivation))
	case "fault-suspend":
		if s.Tell(a.pid, it.cmd) != nil {
			return
		}
		ok := false
		for i := 0; i < 60 && !ok; i++ {
			Yield()
			ok = a.pid.IsSuspended()
		}
		if !ok {
			ok = WaitUntil(time.Millisecond, 20*time.Millisecond, func() bool { return a.pid.IsSuspended() })
		}
		if ok {
			c.Fault("suspend")
			s.Ev(Ev{Actor: a.name, Kind: "suspended-seen"})
		}
	case "reinstate":
		c.Ops++
		if a.pid.IsSuspended() {
			c.Fault("reinstate")
		}
		s.Ev(Ev{Actor: a.name, Kind: "reinstate-call"})
		err := s.Sys.NoSender().Reinstate(a.pid)
		s.Ev(Ev{Actor: a.name, Kind: "reinstate-ret", Aux: err})
	case "stop-shutdown", "stop-poison", "stop-kill":
		c.Ops++
		c.Fault(it.kind)
		if a.stopBy == "" {
			a.stopBy = it.kind
		}
		s.Ev(Ev{Actor: a.name, Kind: "stop-issued", Aux: it.kind})
		var err error
		switch it.kind {
		case "stop-shutdown":
			err = a.pid.Shutdown(ctx)
		case "stop-poison":
			err = actor.Tell(ctx, a.pid, new(actor.PoisonPill))
		case "stop-kill":
			err = s.Sys.Kill(ctx, a.name)
		}
		s.Ev(Ev{Actor: a.name, Kind: "stop-returned", Aux: err})
	}
}

func c12Finish(c *Ctx) {
	st, _ := c.state.(*c12State)
	if st == nil || c.Failed() {
		return
	}
	log := st.s.Log
	sysStop := len(log)
	for _, e := range log {
		if e.Kind == "sys-stop" {
			sysStop = e.Seq
		}
	}
	hist := func(a *c12Actor, upto int) string {
		var b []string
		for _, e := range log {
			if e.Seq > upto {
				break
			}
			if e.Actor != a.name {
				continue
			}
			switch e.Kind {
			case "tell-ok", "tell-err", "recv-exit", "prestart-enter", "prestart-exit", "poststop-exit":
				continue
			}
			b = append(b, fmt.Sprintf("%v:%s#%d", e.T, e.Kind, e.Tag))
		}
		if len(b) > 24 {
			b = b[len(b)-24:]
		}
		return fmt.Sprint(b)
	}
	for _, a := range st.acts {
		var posts []Ev
		for _, e := range log {
			if e.Actor == a.name && e.Kind == "poststop-enter" {
				posts = append(posts, e)
			}
		}
		npass := st.passivated[a.name]
		descr := fmt.Sprintf("%s(%s T=%v N=%d)", a.name, a.kind, a.T, a.N)
		if len(posts) > 1 {
			// Which stop competed with the passivation? Only a stop issued before
			// the second PostStop can have. A ResumePassivation / Reinstate that
			// is processed while (or after) the actor stops registers the stopped
			// actor with the passivation manager again: the second PostStop then
			// comes from a passivation of an actor that is not running.
			comp, stopKind, resumeSeen := "passivation", "", false
			for _, e := range log {
				if e.Actor != a.name || e.Seq >= posts[1].Seq {
					continue
				}
				switch e.Kind {
				case "stop-issued":
					if stopKind == "" {
						stopKind = fmt.Sprint(e.Aux)
					}
				case "resume-send", "reinstate-call":
					// it may be processed long after it was sent when the turn is busy
					resumeSeen = true
				}
			}
			switch {
			case resumeSeen && (npass >= 2 || posts[1].T > posts[0].T):
				// two passivations of one incarnation, or a second stop at a later
				// instant than the first, need a fresh registration in between
				comp = "reregistered-by-resume"
			case stopKind != "":
				comp = "passivation+" + stopKind
			}
			c.Fail("poststop-twice", comp, "%s: PostStop ran %d times (ActorPassivated events: %d, ActorStopped events: %d); history: %s", descr, len(posts), npass, st.stoppedEv[a.name], hist(a, len(log)))
			return
		}
		if npass == 0 {
			continue
		}
		if a.kind == "long" {
			c.Fail("passivated-long-lived", "long-lived", "%s was passivated; history: %s", descr, hist(a, len(log)))
			return
		}
		if npass > 1 {
			c.Fail("passivated-twice", a.kind, "%s: %d ActorPassivated events; history: %s", descr, npass, hist(a, len(log)))
			return
		}
		if st.stoppedEv[a.name] > 0 {
			c.Fail("passivated-while-stopping", "passivation+"+a.stopBy, "%s: both ActorStopped and ActorPassivated were published; history: %s", descr, hist(a, len(log)))
			return
		}
		if len(posts) != 1 || posts[0].Seq > sysStop {
			c.Fail("passivated-without-poststop", a.kind, "%s: ActorPassivated was published but PostStop ran %d times before the system stopped; history: %s", descr, len(posts), hist(a, len(log)))
			return
		}
		if st.running[a.name] {
			c.Fail("running-after-passivation", a.kind, "%s: IsRunning() is still true after ActorPassivated; history: %s", descr, hist(a, len(log)))
			return
		}
		p := posts[0]
		// walk the actor's history up to the passivation
		paused, reinstatedInPause, suspended := false, false, false
		var pausedAt, suspendedAt time.Duration
		nrecv := 0
		last := Ev{Seq: -1}
		slowBefore := false // an earlier handler of the same burst took simulated time
		for _, e := range log {
			if e.Seq >= p.Seq {
				break
			}
			if e.Actor != a.name {
				continue
			}
			switch e.Kind {
			case "pause-confirmed":
				paused, reinstatedInPause, pausedAt = true, false, e.T
			case "resume-send":
				paused = false
			case "suspended-seen":
				suspended, suspendedAt = true, e.T
			case "reinstate-call":
				suspended = false
				if paused {
					reinstatedInPause = true
				}
			case "poststart":
				last = e
			case "recv-enter":
				nrecv++
				last = e
			}
		}
		// did the last message start at the very instant at which an earlier,
		// time-consuming handler of the same actor ended (same dispatcher turn)?
		enterT := map[int]time.Duration{}
		for _, e := range log {
			if e.Seq >= last.Seq {
				break
			}
			if e.Actor != a.name {
				continue
			}
			if e.Kind == "recv-enter" {
				enterT[e.Tag] = e.T
			}
			if e.Kind == "recv-exit" && e.T == last.T && enterT[e.Tag] < e.T {
				slowBefore = true
			}
		}
		if suspended {
			comp := a.kind
			if suspendedAt == p.T {
				comp += ":same-instant"
			}
			c.Fail("passivated-while-suspended", comp, "%s passivated at %v between the observed suspension and the Reinstate call; history: %s", descr, p.T, hist(a, p.Seq))
			return
		}
		if paused {
			comp := a.kind
			switch {
			case reinstatedInPause:
				comp += ":pause-cleared-by-reinstate"
			case pausedAt == p.T:
				comp += ":same-instant"
			}
			c.Fail("passivated-while-paused", comp, "%s passivated at %v although PausePassivation had taken effect at %v and no ResumePassivation was sent; history: %s", descr, p.T, pausedAt, hist(a, p.Seq))
			return
		}
		switch a.kind {
		case "time":
			if last.Seq >= 0 && a.T > c12Slack && p.T-last.T < a.T-c12Slack {
				comp := "time-based"
				switch {
				case p.T == last.T:
					comp = "time-based:message-at-passivation-instant"
				case slowBefore:
					comp = "time-based:after-slow-handler"
				}
				c.Fail("passivated-within-timeout", comp, "%s passivated at %v, only %v after a message was handed to Receive at %v (tag %d); allowed: >= T-100ms = %v; history: %s", descr, p.T, p.T-last.T, last.T, last.Tag, a.T-c12Slack, hist(a, p.Seq))
				return
			}
		case "count":
			// goakt counts a message when it dispatches it, right before the
			// behaviour is called (pid.go handleReceived), and the manager stops
			// the actor from its own goroutine: PostStop can be entered before the
			// Receive of the N-th, already dispatched message (that ordering is
			// C06's receive-after-poststop|passivation). Messages handed to
			// Receive at the very instant of the passivation are therefore counted.
			inflight := 0
			for _, e := range log {
				if e.Seq > p.Seq && e.Actor == a.name && e.Kind == "recv-enter" && e.T == p.T {
					inflight++
				}
			}
			if inflight > 0 && nrecv < a.N && nrecv+inflight >= a.N {
				c.Probe("count-reached-by-inflight-message")
			}
			nrecv += inflight
			if nrecv < a.N {
				c.Fail("passivated-before-count", "message-count", "%s passivated at %v after only %d of %d messages; history: %s", descr, p.T, nrecv, a.N, hist(a, p.Seq))
				return
			}
		}
	}
}

func init() {
	Register(&Scenario{Prop: "C12", Name: "passivation-idle", Variants: []string{"stock"}, Quick: 4000, Thorough: 300000,
		EstSteps: 6000, MaxSteps: 400000, MaxIdle: time.Hour, Real: sysReal, Stub: sysStub, Run: c12Run, Finish: c12Finish})
}

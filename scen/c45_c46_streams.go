package scen

// Engine C: reactive-stream pipelines (package stream) materialised into a real
// actor system; every stage actor, parallel-map worker and junction hub runs on
// the simulated dispatcher, so demand, element, completion and error messages
// interleave under the seeded scheduler.
//
//	C45  linear pipelines  = list semantics, completion exactly once, stage error ends the stream
//	C46  junctions         = per-junction reference semantics (Merge, Concat, Zip, Combine,
//	                         Broadcast, Balance, Partition)
//
// The reference models are written from the operator documentation
// (/repo/docs/advanced/streams.mdx and the doc comments in stream/flow.go,
// stream/source.go), not from the stage actors.

import (
	"errors"
	"fmt"
	"sort"
	"strings"
	"time"

	"github.com/tochemey/goakt/v4/actor"
	"github.com/tochemey/goakt/v4/stream"
)

var strmReal = []string{"stream (sources Of/Unfold/FromChannel/FromActor, flows, sinks, stage fusion, materializer, stream coordinator, parallel-map workers, junction sources and hubs)", "actor (actor system, dispatcher, workers, ready queue, bounded mailboxes, scheduler used by Batch/Throttle, PipeTo/Ask used by FromActor)", "internal/queue, internal/ticker, internal/timer, internal/xsync", "github.com/reugn/go-quartz (instrumented copy)"}
var strmStub = []string{"remoting and clustering off (no SourceRef/SinkRef, no sockets)", "logger: discard", "stage functions: small pure integer functions from a table, optionally taking simulated time", "wall clock: testing/synctest fake clock"}

// ------------------------------------------------------------------ stage table

type strmKind int

const (
	skMap strmKind = iota // int -> int
	skFilter
	skTryMap
	skFlatMap
	skScan
	skDedup
	skBuffer
	skOrdPar
	skPar
	skBatch   // int -> []int
	skToSlice // Map int -> []int
	skThrottle
	skWithCtx
	// stages over []int
	skFlatten     // []int -> int
	skSliceSum    // Map []int -> int
	skSliceFilter // Filter []int
	skSliceBuffer // Buffer []int
)

var strmKindName = map[strmKind]string{skMap: "Map", skFilter: "Filter", skTryMap: "TryMap", skFlatMap: "FlatMap", skScan: "Scan", skDedup: "Deduplicate", skBuffer: "Buffer", skOrdPar: "OrderedParallelMap", skPar: "ParallelMap", skBatch: "Batch", skToSlice: "Map(int->[]int)", skThrottle: "Throttle", skWithCtx: "WithContext", skFlatten: "Flatten", skSliceSum: "Map([]int->int)", skSliceFilter: "Filter([]int)", skSliceBuffer: "Buffer([]int)"}

// strmIsFlowActor: the stage is served by the generic flowActor (honours downstream
// demand through its output queue and reports to a Tracer).
func strmIsFlowActor(k strmKind) bool {
	switch k {
	case skBatch, skThrottle, skOrdPar, skPar:
		return false
	}
	return true
}

var strmIntFns = []func(int) int{
	func(x int) int { return x + 1 },
	func(x int) int { return x * 2 },
	func(x int) int { return x % 3 },
	func(x int) int { return -x },
	func(x int) int { return x },
}

var strmPreds = []func(int) bool{
	func(x int) bool { return x%2 == 0 },
	func(x int) bool { return x%3 != 0 },
	func(x int) bool { return x > 2 },
	func(int) bool { return true },
	func(int) bool { return false },
}

var strmExpand = []func(int) []int{
	func(x int) []int { return []int{x} },
	func(x int) []int { return []int{x, x} },
	func(x int) []int { return make([]int, strmMod(x, 3)) }, // 0..2 zeros
	func(int) []int { return nil },
	func(x int) []int {
		if x%2 == 0 {
			return []int{x, x + 1, x + 2}
		}
		return []int{}
	},
}

var strmScans = []func(acc, x int) int{
	func(acc, x int) int { return acc + x },
	func(acc, x int) int { return max(acc, x) },
	func(acc, x int) int { return (acc*31 + x) % 1009 }, // order-sensitive
}

func strmMod(x, m int) int { return ((x % m) + m) % m }

type strmErr struct{ Stage, Val int }

func (e *strmErr) Error() string {
	return fmt.Sprintf("strm: stage %d failed on element %d", e.Stage, e.Val)
}

type strmStage struct {
	Idx   int
	K     strmKind
	Fn    int
	N     int              // batch size, buffer size, workers
	Wait  time.Duration    // Batch maxWait / Throttle per-element interval
	Delay [4]time.Duration // the stage function takes Delay[x mod 4] of simulated time (1 ns = one yield)
	// failing element (TryMap: returned error; ParallelMap: panic(error))
	Fail  int // input value that fails; -1 = none
	Strat stream.ErrorStrategy
	Retry int // RetryConfig.MaxAttempts
	Flaky int // the failing element fails this many consecutive attempts, then succeeds; 0 = always fails
	Err   *strmErr
	cnt   int // consecutive failed attempts (Flaky)
}

func (st *strmStage) String() string {
	s := strmKindName[st.K]
	switch st.K {
	case skMap, skFilter, skTryMap, skFlatMap, skScan, skToSlice, skSliceSum, skSliceFilter:
		s += fmt.Sprintf("#%d", st.Fn)
	case skBuffer, skSliceBuffer:
		s += fmt.Sprintf("(%d)", st.N)
	case skOrdPar, skPar:
		s += fmt.Sprintf("(%d)#%d", st.N, st.Fn)
	case skBatch:
		s += fmt.Sprintf("(%d,%v)", st.N, st.Wait)
	case skThrottle:
		s += fmt.Sprintf("(%v)", st.Wait)
	}
	if st.Fail >= 0 {
		s += fmt.Sprintf("!fail(%d,%s", st.Fail, []string{"FailFast", "Resume", "Retry", "Supervise"}[st.Strat])
		if st.Strat == stream.Retry {
			s += fmt.Sprintf(":%d", st.Retry)
		}
		if st.Flaky > 0 {
			s += fmt.Sprintf(",flaky%d", st.Flaky)
		}
		s += ")"
	}
	if st.Delay != [4]time.Duration{} {
		s += fmt.Sprintf("~%v", st.Delay)
	}
	return s
}

func (st *strmStage) delay(x int) {
	switch d := st.Delay[strmMod(x, 4)]; {
	case d <= 0:
	case d == 1:
		Yield()
	default:
		Sleep(d)
	}
}

// fatal reports whether an error of this stage ends the stream.
func (st *strmStage) fatal() bool {
	if st.Fail < 0 {
		return false
	}
	if st.K == skPar || st.K == skOrdPar {
		return true
	}
	switch st.Strat {
	case stream.Resume:
		return false
	case stream.Retry:
		return st.Flaky == 0
	}
	return true // FailFast, Supervise ("currently equivalent to FailFast")
}

// ref applies the documented list semantics of the stage to in.
// ordered=false: the input order is not determined (an unordered ParallelMap
// is upstream), a fatal failure then only removes the failing element (the
// result is an upper bound as a multiset); ordered=true: a fatal failure cuts
// the list at the failing element (the result is an upper bound as a prefix).
func (st *strmStage) ref(in []any, ordered bool) (out []any, failed bool) {
	out = []any{}
	acc, last, hasLast := 0, 0, false
	var window []int
	for _, e := range in {
		if x, isInt := e.(int); isInt && st.Fail >= 0 && x == st.Fail {
			if st.fatal() {
				failed = true
				if ordered {
					break
				}
				continue
			}
			if st.Strat == stream.Resume {
				continue // "Skip the failed element"
			}
			// Retry that eventually succeeds: the element is processed normally
		}
		switch st.K {
		case skMap, skTryMap, skOrdPar, skPar:
			out = append(out, strmIntFns[st.Fn](e.(int)))
		case skFilter:
			if strmPreds[st.Fn](e.(int)) {
				out = append(out, e)
			}
		case skFlatMap:
			for _, y := range strmExpand[st.Fn](e.(int)) {
				out = append(out, y)
			}
		case skToSlice:
			out = append(out, append([]int{}, strmExpand[st.Fn](e.(int))...))
		case skScan:
			acc = strmScans[st.Fn](acc, e.(int))
			out = append(out, acc)
		case skDedup:
			if x := e.(int); !hasLast || x != last {
				out = append(out, x)
				last, hasLast = x, true
			}
		case skBuffer, skSliceBuffer, skThrottle, skWithCtx:
			out = append(out, e)
		case skBatch:
			window = append(window, e.(int))
			if len(window) == st.N {
				out = append(out, window)
				window = nil
			}
		case skFlatten:
			for _, y := range e.([]int) {
				out = append(out, y)
			}
		case skSliceSum:
			out = append(out, strmSliceFn(st.Fn, e.([]int)))
		case skSliceFilter:
			if strmSlicePred(st.Fn, e.([]int)) {
				out = append(out, e)
			}
		}
	}
	if st.K == skBatch && len(window) > 0 {
		out = append(out, window)
	}
	return out, failed
}

func strmSliceFn(fn int, s []int) int {
	if fn%2 == 1 {
		return len(s)
	}
	t := 0
	for _, v := range s {
		t += v
	}
	return t
}

func strmSlicePred(fn int, s []int) bool {
	if fn%2 == 1 {
		return len(s)%2 == 0
	}
	return len(s) > 0
}

func strmKey(v any) string { return fmt.Sprint(v) }

func strmKeys(l []any) []string {
	out := make([]string, len(l))
	for i, v := range l {
		out[i] = strmKey(v)
	}
	return out
}

// ------------------------------------------------------------------ tracer (completion count per stage, demand ledger)

// strmStageTr is attached to one flow stage of one materialisation. (The stage
// name the stream package passes to a Tracer is empty for flows configured
// with a With* builder, so stages are told apart by tracer instance.)
type strmStageTr struct {
	c        *Ctx
	run, idx int
	kind     strmKind
	upKind   string // what sits upstream of this stage
	complete int
	demand   int64        // total demand this stage has signalled upstream
	emitted  int64        // elements this stage has emitted downstream
	next     *strmStageTr // the downstream stage, when it is a demand-driven flow stage of an unfused graph
	desc     *string
}

func (t *strmStageTr) OnElement(string, uint64, int64) {
	t.emitted++
	if n := t.next; n != nil && t.emitted > n.demand {
		t.c.Fail("emit-exceeds-demand", strmKindName[t.kind], "run%d: stage %d (%s) emitted element #%d to stage %d (%s), which has signalled a total demand of %d so far; %s", t.run, t.idx, strmKindName[t.kind], t.emitted, n.idx, strmKindName[n.kind], n.demand, *t.desc)
	}
}
func (t *strmStageTr) OnDemand(_ string, n int64) { t.demand += n }
func (t *strmStageTr) OnError(string, error)      {}
func (t *strmStageTr) OnComplete(string)          { t.complete++ }

// ------------------------------------------------------------------ pipeline builder

type strmPipe struct {
	slice bool
	si    stream.Source[int]
	ss    stream.Source[[]int]
}

func strmCfg[In, Out any](f stream.Flow[In, Out], st *strmStage, tr stream.Tracer) stream.Flow[In, Out] {
	if st.Fail >= 0 && st.K == skTryMap {
		if st.Strat != stream.FailFast {
			f = f.WithErrorStrategy(st.Strat)
		}
		if st.Strat == stream.Retry {
			f = f.WithRetryConfig(stream.RetryConfig{MaxAttempts: st.Retry})
		}
	}
	if tr != nil {
		f = f.WithTracer(tr)
	}
	return f
}

func (p *strmPipe) add(st *strmStage, tr stream.Tracer) {
	intFn := func(x int) int { st.delay(x); return strmIntFns[st.Fn](x) }
	switch st.K {
	case skMap:
		p.si = stream.Via(p.si, strmCfg(stream.Map(intFn), st, tr))
	case skTryMap:
		p.si = stream.Via(p.si, strmCfg(stream.TryMap(func(x int) (int, error) {
			st.delay(x)
			if st.Fail >= 0 && x == st.Fail {
				if st.Flaky == 0 {
					return 0, st.Err
				}
				if st.cnt < st.Flaky {
					st.cnt++
					return 0, st.Err
				}
				st.cnt = 0
			}
			return strmIntFns[st.Fn](x), nil
		}), st, tr))
	case skFilter:
		p.si = stream.Via(p.si, strmCfg(stream.Filter(func(x int) bool { st.delay(x); return strmPreds[st.Fn](x) }), st, tr))
	case skFlatMap:
		p.si = stream.Via(p.si, strmCfg(stream.FlatMap(func(x int) []int { st.delay(x); return strmExpand[st.Fn](x) }), st, tr))
	case skScan:
		p.si = stream.Via(p.si, strmCfg(stream.Scan(0, func(acc, x int) int { st.delay(x); return strmScans[st.Fn](acc, x) }), st, tr))
	case skDedup:
		p.si = stream.Via(p.si, strmCfg(stream.Deduplicate[int](), st, tr))
	case skBuffer:
		p.si = stream.Via(p.si, strmCfg(stream.Buffer[int](st.N, stream.BackpressureSource), st, tr))
	case skOrdPar, skPar:
		fn := func(x int) int {
			st.delay(x)
			if st.Fail >= 0 && x == st.Fail {
				panic(st.Err)
			}
			return strmIntFns[st.Fn](x)
		}
		if st.K == skOrdPar {
			p.si = stream.Via(p.si, strmCfg(stream.OrderedParallelMap(st.N, fn), st, tr))
		} else {
			p.si = stream.Via(p.si, strmCfg(stream.ParallelMap(st.N, fn), st, tr))
		}
	case skBatch:
		p.ss = stream.Via(p.si, strmCfg(stream.Batch[int](st.N, st.Wait), st, tr))
		p.slice = true
	case skToSlice:
		p.ss = stream.Via(p.si, strmCfg(stream.Map(func(x int) []int { st.delay(x); return append([]int{}, strmExpand[st.Fn](x)...) }), st, tr))
		p.slice = true
	case skThrottle:
		p.si = stream.Via(p.si, strmCfg(stream.Throttle[int](1, st.Wait), st, tr))
	case skWithCtx:
		p.si = stream.Via(p.si, strmCfg(stream.WithContext[int]("k", "v"), st, tr))
	case skFlatten:
		p.si = stream.Via(p.ss, strmCfg(stream.Flatten[int](), st, tr))
		p.slice = false
	case skSliceSum:
		p.si = stream.Via(p.ss, strmCfg(stream.Map(func(s []int) int { st.delay(len(s)); return strmSliceFn(st.Fn, s) }), st, tr))
		p.slice = false
	case skSliceFilter:
		p.ss = stream.Via(p.ss, strmCfg(stream.Filter(func(s []int) bool { st.delay(len(s)); return strmSlicePred(st.Fn, s) }), st, tr))
	case skSliceBuffer:
		p.ss = stream.Via(p.ss, strmCfg(stream.Buffer[[]int](st.N, stream.BackpressureSource), st, tr))
	}
}

// strmRunRec is one materialisation of a graph.
type strmRunRec struct {
	name      string
	h         stream.StreamHandle
	runErr    error
	got       []string // what the sink saw, in order
	sizes     []int    // batch sizes when the sink element type is []int
	items     func() ([]string, []int)
	done      bool
	lateElems int // elements handed to the sink function after Done() was observed closed
	termErr   error
	atDone    []string
}

func strmSink[T any](r *strmRunRec, kind int) stream.Sink[T] {
	size := func(v T) int {
		if s, ok := any(v).([]int); ok {
			return len(s)
		}
		return -1
	}
	switch kind {
	case 1: // Collect
		col, sink := stream.Collect[T]()
		r.items = func() ([]string, []int) {
			var ks []string
			var sz []int
			for _, v := range col.Items() {
				ks = append(ks, strmKey(v))
				sz = append(sz, size(v))
			}
			return ks, sz
		}
		return sink
	case 2: // Fold into a list
		type accT struct {
			ks []string
			sz []int
		}
		res, sink := stream.Fold(accT{}, func(a accT, v T) accT {
			return accT{append(a.ks, strmKey(v)), append(a.sz, size(v))}
		})
		r.items = func() ([]string, []int) { a := res.Value(); return a.ks, a.sz }
		return sink
	default: // ForEach
		return stream.ForEach(func(v T) {
			if r.done {
				r.lateElems++
			}
			r.got = append(r.got, strmKey(v))
			r.sizes = append(r.sizes, size(v))
		})
	}
}

func strmIsDone(h stream.StreamHandle) bool {
	select {
	case <-h.Done():
		return true
	default:
		return false
	}
}

// strmAwait waits (bounded, simulated time) for the handle to signal completion.
func strmAwait(h stream.StreamHandle, max time.Duration) bool {
	step := 200 * time.Microsecond
	for waited := time.Duration(0); ; waited += step {
		if strmIsDone(h) {
			return true
		}
		if waited >= max {
			return false
		}
		Sleep(step)
		if step < 50*time.Millisecond {
			step = step * 3 / 2
		}
	}
}

// strmWaitCond polls cond with a growing interval (bounded, simulated time).
func strmWaitCond(max time.Duration, cond func() bool) bool {
	step := 100 * time.Microsecond
	for waited := time.Duration(0); ; waited += step {
		if cond() {
			return true
		}
		if waited >= max {
			return false
		}
		Sleep(step)
		if step < 20*time.Millisecond {
			step = step * 3 / 2
		}
	}
}

// strmCollect finishes a run record after Done() closed (or the wait timed out).
func (r *strmRunRec) collect() (hung bool) {
	r.done = true
	r.termErr = r.h.Err()
	if r.items != nil {
		if !CallTimeout(time.Second, func() { r.got, r.sizes = r.items() }) {
			return true
		}
	}
	r.atDone = append([]string{}, r.got...)
	return false
}

// ------------------------------------------------------------------ sources for C45

type strmPullActor struct {
	vals  []int
	chunk int
	wait  time.Duration
	gate  func() bool // nil or: no reply before it holds
}

func (a *strmPullActor) PreStart(*actor.Context) error { return nil }
func (a *strmPullActor) PostStop(*actor.Context) error { return nil }
func (a *strmPullActor) Receive(rc *actor.ReceiveContext) {
	switch m := rc.Message().(type) {
	case *stream.PullRequest:
		n := min(int(m.N), a.chunk, len(a.vals))
		if a.gate != nil {
			strmWaitCond(2*time.Second, a.gate)
		}
		if a.wait > 0 {
			Sleep(a.wait)
		}
		out := append([]int{}, a.vals[:n]...)
		a.vals = a.vals[n:]
		rc.Response(&stream.PullResponse[int]{Elements: out})
	default:
		rc.Unhandled()
	}
}

// ------------------------------------------------------------------ C45

type c45State struct {
	s        *Sys
	input    []int
	stages   []*strmStage
	ideal    []string // list-semantics result (upper bound when a failure is expected)
	ordered  bool
	wantErr  *strmErr // the stream must end with this error
	looseN   int      // >0: the sink receives batches whose boundaries are not determined; each must have 1..looseN elements
	runs     []*strmRunRec
	traced   bool
	racy     bool // a self-starting stage behind an ungated source: elements may flow before Run has wired every stage
	tracers  []*strmStageTr
	fusion   stream.FusionMode
	desc     string
	finished bool
}

func c45Gen(c *Ctx, st *c45State) {
	// input: 0..40 small integers (small range: duplicates, also consecutive ones)
	n := c.W.Draw(41)
	if c.W.Draw(3) != 0 {
		n %= 9
	}
	rng := 2 + c.W.Draw(6)
	for i := 0; i < n; i++ {
		st.input = append(st.input, c.W.Draw(rng))
	}
	cur := make([]any, len(st.input))
	for i, v := range st.input {
		cur[i] = v
	}
	depth := c.W.Draw(6) // 0..5
	if depth == 0 && c.W.Draw(4) != 0 {
		depth = 1 + c.W.Draw(5)
	}
	slice := false
	st.ordered = true
	failPlaced := false
	intKinds := []strmKind{skMap, skFilter, skTryMap, skFlatMap, skScan, skDedup, skBuffer, skOrdPar, skPar, skBatch, skToSlice, skThrottle, skWithCtx}
	sliceKinds := []strmKind{skFlatten, skSliceSum, skSliceFilter, skSliceBuffer}
	for len(st.stages) < depth {
		sg := &strmStage{Idx: len(st.stages), Fail: -1}
		last := len(st.stages) == depth-1
		if slice {
			sg.K = sliceKinds[c.W.Draw(len(sliceKinds))]
		} else {
			sg.K = intKinds[c.W.Draw(len(intKinds))]
			if !st.ordered && (sg.K == skScan || sg.K == skDedup || sg.K == skBatch) {
				sg.K = skMap // order-sensitive stages have no determined result behind an unordered ParallelMap
			}
			if c.Variant == "small" && sg.K == skBatch {
				// small variant (stream demand window 8/2): every consumer signals demand in small portions, so the
				// known Batch-ignores-demand defect (lost window, oversize batches, stall) would surface under many
				// class/component pairs; Batch stays a stock-variant subject
				sg.K = skFilter
			}
		}
		timed := false
		switch sg.K {
		case skMap, skTryMap, skOrdPar, skPar:
			sg.Fn = c.W.Draw(len(strmIntFns))
			timed = true
		case skFilter:
			sg.Fn = c.W.Draw(len(strmPreds))
			timed = true
		case skFlatMap, skToSlice:
			sg.Fn = c.W.Draw(len(strmExpand))
			timed = true
		case skScan:
			sg.Fn = c.W.Draw(len(strmScans))
			timed = true
		case skSliceSum, skSliceFilter:
			sg.Fn = c.W.Draw(2)
			timed = true
		}
		switch sg.K {
		case skBuffer, skSliceBuffer:
			sg.N = []int{1, 2, 4, 16}[c.W.Draw(4)]
		case skOrdPar, skPar:
			sg.N = 1 + c.W.Draw(4)
		case skBatch:
			sg.N = 1 + c.W.Draw(5)
			sg.Wait = []time.Duration{time.Hour, time.Millisecond, 100 * time.Microsecond, 20 * time.Millisecond}[c.W.Draw(4)]
		case skThrottle:
			sg.Wait = []time.Duration{time.Millisecond, 4 * time.Millisecond}[c.W.Draw(2)]
		}
		if timed {
			switch c.W.Draw(5) {
			case 1:
				sg.Delay = [4]time.Duration{1, 0, 1, 1}
			case 2: // later residues take longer
				sg.Delay = [4]time.Duration{0, 300 * time.Microsecond, time.Millisecond, 3 * time.Millisecond}
			case 3: // earlier residues take longer: a ParallelMap finishes out of order
				sg.Delay = [4]time.Duration{3 * time.Millisecond, time.Millisecond, 1, 0}
			case 4:
				sg.Delay = [4]time.Duration{time.Millisecond, time.Millisecond, time.Millisecond, time.Millisecond}
			}
		}
		// optional failing element: an element of this stage's (reference) input, or a value that never arrives
		if !failPlaced && (sg.K == skTryMap || sg.K == skPar || sg.K == skOrdPar) && c.W.Draw(2) == 1 {
			failPlaced = true
			var ints []int
			for _, e := range cur {
				ints = append(ints, e.(int))
			}
			if len(ints) > 0 && c.W.Draw(5) != 0 {
				sg.Fail = ints[c.W.Draw(len(ints))]
			} else {
				sg.Fail = 7777
			}
			sg.Err = &strmErr{Stage: sg.Idx, Val: sg.Fail}
			if sg.K == skTryMap {
				sg.Strat = stream.ErrorStrategy(c.W.Draw(4))
				if sg.Strat == stream.Retry {
					sg.Retry = 1 + c.W.Draw(3)
					// transient failures only where both readings of MaxAttempts ("attempts" / "re-attempts") agree
					if sg.Retry >= 2 && c.W.Draw(2) == 1 {
						sg.Flaky = 1 + c.W.Draw(sg.Retry-1)
					}
				}
			}
		}
		st.stages = append(st.stages, sg)
		var failed bool
		if sg.K == skPar {
			// results are emitted in completion order: also elements behind a failing one may get through
			st.ordered = false
		}
		cur, failed = sg.ref(cur, st.ordered)
		if failed {
			st.wantErr = sg.Err
		}
		switch sg.K {
		case skBatch, skToSlice:
			slice = true
		case skFlatten, skSliceSum:
			slice = false
		}
		if sg.K == skBatch && sg.Wait < time.Hour {
			// the timer may flush early: boundaries are not determined, so only Flatten (or the sink) may follow
			if last {
				st.looseN = sg.N
			} else {
				fl := &strmStage{Idx: len(st.stages), K: skFlatten, Fail: -1}
				st.stages = append(st.stages, fl)
				cur, _ = fl.ref(cur, st.ordered)
				slice = false
			}
		}
	}
	if st.looseN > 0 {
		// compare flattened
		fl := &strmStage{K: skFlatten}
		cur, _ = fl.ref(cur, st.ordered)
	}
	st.ideal = strmKeys(cur)
	var ds []string
	for _, sg := range st.stages {
		ds = append(ds, sg.String())
	}
	st.desc = fmt.Sprintf("input=%v stages=[%s]", st.input, strings.Join(ds, " -> "))
}

func c45Run(c *Ctx) {
	stream.VerifResetStreamSeq()
	s := StartSys(c, "c45", sysOpts(c)...)
	st := &c45State{s: s}
	c.state = st
	c45Gen(c, st)
	c.Note("pipeline", st.desc)
	c.Ops += len(st.input) * (1 + len(st.stages))

	st.fusion = []stream.FusionMode{stream.FuseStateless, stream.FuseNone, stream.FuseAggressive}[c.W.Draw(3)]
	c.Note("fusion", []string{"FuseStateless", "FuseNone", "FuseAggressive"}[st.fusion])
	st.traced = c.W.Draw(2) == 1
	if st.traced {
		c.Probe("tracer-attached")
	}
	flaky := false
	for _, sg := range st.stages {
		if sg.Flaky > 0 {
			flaky = true
		}
	}

	// source. Stages that signal demand on their own stageWire (fused flows, ParallelMap) start pulling
	// before the materializer has wired the stages downstream of them; unless this run is meant to
	// explore that window (racy), the source is gated: nothing is emitted before Run has returned.
	selfStart := c45SelfStarter(st) == "self-starting-stage"
	srcKind := c.W.Draw(4)
	gated := c.W.Draw(2) == 1
	if selfStart {
		if c.W.Draw(8) == 7 {
			st.racy = true
			gated = false
			c.Probe("racy-unwired-start")
		} else {
			gated = true
			if srcKind < 2 {
				srcKind = 2 + srcKind
			}
		}
	}
	if srcKind == 2 && !gated && len(st.input) == 0 && !st.racy {
		// a channel source completes as soon as its (empty) channel is closed, demand or not: completion
		// may reach flow stages the materializer has not wired yet - same window as a self-starting stage
		st.racy = true
		c.Probe("racy-unwired-start")
	}
	opened := func() bool {
		for _, r := range st.runs {
			if r.h == nil && r.runErr == nil {
				return false
			}
		}
		return true
	}
	var feeder func()
	reusable := false
	input := st.input
	var mkSource func() stream.Source[int]
	switch {
	case srcKind == 1 && len(input) > 0: // Unfold always emits at least one element
		mkSource = func() stream.Source[int] {
			return stream.Unfold(0, func(i int) (int, int, bool) { return i + 1, input[i], i+1 < len(input) })
		}
		reusable = true
		c.Note("source", "Unfold")
	case srcKind == 2:
		ch := make(chan int, len(input)+1)
		pace := []time.Duration{0, 50 * time.Microsecond, time.Millisecond}[c.W.Draw(3)]
		feeder = func() {
			if gated {
				strmWaitCond(20*time.Second, opened)
			}
			for i, v := range input {
				Send(ch, v)
				if pace > 0 && i%3 == 2 {
					Sleep(pace)
				}
			}
			close(ch)
			Yield()
		}
		mkSource = func() stream.Source[int] { return stream.FromChannel(ch) }
		c.Note("source", fmt.Sprintf("FromChannel pace=%v gated=%v", pace, gated))
	case srcKind == 3:
		pa := &strmPullActor{vals: append([]int{}, input...), chunk: 1 + c.W.Draw(8), wait: []time.Duration{0, 0, 200 * time.Microsecond}[c.W.Draw(3)]}
		if gated {
			pa.gate = opened
		}
		pid, err := s.Sys.Spawn(s.Ctx, "pull-source", pa, actor.WithLongLived())
		if err != nil {
			c.Fail("spawn-failed", "pull-source", "%v", err)
			_ = s.Stop()
			return
		}
		mkSource = func() stream.Source[int] { return stream.FromActor[int](pid) }
		c.Note("source", fmt.Sprintf("FromActor chunk=%d wait=%v gated=%v", pa.chunk, pa.wait, gated))
	default:
		mkSource = func() stream.Source[int] { return stream.Of(input...) }
		reusable = true
		c.Note("source", "Of")
	}
	// build assembles source + flows; with a tracer every materialisation gets its own blueprint
	// (own tracer instances), otherwise one blueprint is Run several times (graphs are reusable values)
	build := func(run int) *strmPipe {
		p := &strmPipe{si: mkSource()}
		var prev *strmStageTr
		for i, sg := range st.stages {
			var tr stream.Tracer
			// only the first With* builder applied to a flow takes effect (each builder's actor factory
			// ignores the configuration handed down by the next one), so a stage that needs an error
			// strategy gets no tracer
			if st.traced && !(sg.K == skTryMap && sg.Fail >= 0 && sg.Strat != stream.FailFast) {
				t := &strmStageTr{c: c, run: run, idx: i, kind: sg.K, desc: &st.desc, upKind: "source"}
				if i > 0 {
					t.upKind = c45Impl(st, i-1)
				}
				if prev != nil && prev.idx == i-1 && st.fusion == stream.FuseNone && strmIsFlowActor(sg.K) && strmIsFlowActor(prev.kind) {
					prev.next = t
				}
				prev = t
				st.tracers = append(st.tracers, t)
				tr = t
			}
			p.add(sg, tr)
		}
		if p.slice {
			p.ss = stream.VerifSourceDefaultMailbox(p.ss)
		} else {
			p.si = stream.VerifSourceDefaultMailbox(p.si)
		}
		return p
	}
	// one to three concurrent materialisations
	nrun := 1
	if reusable && !flaky {
		nrun = 1 + []int{0, 0, 1, 2}[c.W.Draw(4)]
	}
	var shared *strmPipe
	if !st.traced {
		shared = build(0)
	}
	var fns []func()
	for i := 0; i < nrun; i++ {
		r := &strmRunRec{name: fmt.Sprintf("run%d", i)}
		st.runs = append(st.runs, r)
		sinkKind := c.W.Draw(3)
		p := shared
		if p == nil {
			p = build(i)
		}
		var g stream.RunnableGraph
		if p.slice {
			g = p.ss.To(stream.VerifSinkDefaultMailbox(strmSink[[]int](r, sinkKind)))
		} else {
			g = p.si.To(stream.VerifSinkDefaultMailbox(strmSink[int](r, sinkKind)))
		}
		g = g.WithFusion(st.fusion)
		startAfter := time.Duration(c.W.Draw(3)) * 100 * time.Microsecond
		fns = append(fns, func() {
			if startAfter > 0 {
				Sleep(startAfter)
			}
			ok := CallTimeout(10*time.Second, func() { r.h, r.runErr = g.Run(s.Ctx, s.Sys) })
			if !ok || r.runErr != nil || r.h == nil {
				c.Fail("run-failed", c45Blame(st), "%s: Run returned=%v err=%v; %s fusion=%d", r.name, ok, r.runErr, st.desc, st.fusion)
				return
			}
			if !strmAwait(r.h, 5*time.Second) {
				r.done = true
				c.Fail("stream-never-completes", c45Blame(st), "%s: Done() not closed 5 s (simulated) after Run; sink saw %d of %d expected elements %v; %s fusion=%d", r.name, len(r.got), len(st.ideal), r.got, st.desc, st.fusion)
				return
			}
			if r.collect() {
				c.Fail("sink-result-never-ready", c45Blame(st), "%s: Done() closed but the sink's result handle (Collector.Items / FoldResult.Value) still blocks 1 s later; %s", r.name, st.desc)
			}
		})
	}
	if feeder != nil {
		fns = append(fns, feeder)
	}
	Join(fns...)
	if !c.Failed() {
		Sleep(5 * time.Millisecond) // anything delivered after completion shows up now
	}
	st.finished = true
	strmCollapseRacy(c)
	_ = s.Stop()
}

// strmCollapseRacy: a run that deliberately lets the pipeline start before the
// materializer has wired every stage can go wrong in many ways (Run fails, the
// stream hangs, a crashed sink is reported as normal completion with elements
// or the stage error missing ...). They share one root cause, so they are
// reported under one signature; the observed anomaly stays in the detail.
func strmCollapseRacy(c *Ctx) {
	if v := c.Viol; v != nil && v.Component == "unwired-start" {
		v.Detail = "[" + v.Class + "] " + v.Detail
		v.Class, v.Component = "anomaly-after-unwired-start", "materializer"
	}
}

// c45Impl names the stage actor implementation serving stage i after fusion.
func c45Impl(st *c45State, i int) string {
	k := st.stages[i].K
	switch k {
	case skBatch:
		return "batchFlowActor"
	case skThrottle:
		return "throttleActor"
	case skOrdPar, skPar:
		return "parallelMapActor"
	}
	if st.fusion != stream.FuseNone && c45Fusable(k) &&
		((i > 0 && c45Fusable(st.stages[i-1].K)) || (i+1 < len(st.stages) && c45Fusable(st.stages[i+1].K))) {
		return "fusedFlowActor"
	}
	return "flowActor"
}

// c45SelfStarter: stages that signal demand on their own stageWire (fused flows,
// ParallelMap) start the pipeline before the materializer has wired the stages
// downstream of them.
func c45SelfStarter(st *c45State) string {
	for i := range st.stages {
		switch c45Impl(st, i) {
		case "fusedFlowActor", "parallelMapActor":
			return "self-starting-stage"
		}
	}
	return "materializer"
}

// c45Blame names the component for a violation: the kind of the most "special"
// stage of the pipeline (keeps signatures of different defects apart).
func c45Blame(st *c45State) string {
	for i := 0; i+1 < len(st.stages); i++ {
		if st.stages[i].K == skBatch && st.stages[i+1].K == skSliceBuffer {
			// the only consumer of batches in the table that signals demand in small portions
			return "Batch-before-small-demand"
		}
	}
	if st.racy {
		return "unwired-start"
	}
	var ks []string
	seen := map[string]bool{}
	for _, sg := range st.stages {
		n := strmKindName[sg.K]
		switch sg.K {
		case skMap, skFilter, skTryMap:
			continue // named only if nothing else is there
		}
		if !seen[n] {
			seen[n] = true
			ks = append(ks, n)
		}
	}
	if len(ks) == 0 {
		if st.fusion != stream.FuseNone && c45HasFusedRun(st) {
			return "fused-stateless"
		}
		return "stateless"
	}
	sort.Strings(ks)
	return strings.Join(ks, "+")
}

func c45Fusable(k strmKind) bool {
	switch k {
	case skMap, skFilter, skTryMap, skToSlice, skSliceSum, skSliceFilter:
		return true
	}
	return false
}

func c45HasFusedRun(st *c45State) bool {
	for i := 0; i+1 < len(st.stages); i++ {
		if c45Fusable(st.stages[i].K) && c45Fusable(st.stages[i+1].K) {
			return true
		}
	}
	return false
}

// c45FailFused: the failing TryMap sits in a run of >= 2 fusable stages.
func c45FailFused(st *c45State) bool {
	if st.fusion == stream.FuseNone {
		return false
	}
	for i, sg := range st.stages {
		if sg.Fail >= 0 && sg.K == skTryMap {
			return (i > 0 && c45Fusable(st.stages[i-1].K)) || (i+1 < len(st.stages) && c45Fusable(st.stages[i+1].K))
		}
	}
	return false
}

func strmIsPrefix(got, want []string) bool {
	if len(got) > len(want) {
		return false
	}
	for i := range got {
		if got[i] != want[i] {
			return false
		}
	}
	return true
}

// strmSubMultiset: every element of got occurs in want at least as often; missing = want minus got.
func strmSubMultiset(got, want []string) (ok bool, extra, missing []string) {
	cnt := map[string]int{}
	for _, w := range want {
		cnt[w]++
	}
	for _, g := range got {
		if cnt[g] == 0 {
			extra = append(extra, g)
		} else {
			cnt[g]--
		}
	}
	for _, k := range sortedKeys(cnt) {
		for i := 0; i < cnt[k]; i++ {
			missing = append(missing, k)
		}
	}
	return len(extra) == 0, extra, missing
}

func c45Finish(c *Ctx) {
	st, _ := c.state.(*c45State)
	if st == nil || !st.finished {
		return
	}
	defer strmCollapseRacy(c)
	comp := c45Blame(st)
	for _, r := range st.runs {
		if r.h == nil {
			continue
		}
		where := fmt.Sprintf("%s (stream %s, fusion=%d): %s", r.name, r.h.ID(), st.fusion, st.desc)
		// completion exactly once: nothing reaches the sink after completion was signalled
		if r.lateElems > 0 || len(r.got) != len(r.atDone) {
			c.Fail("element-after-completion", comp, "%d element(s) reached the sink after Done() was closed (at completion %v, finally %v); %s", max(r.lateElems, len(r.got)-len(r.atDone)), r.atDone, r.got, where)
			return
		}
		// batches with undetermined boundaries: 1..n elements each, compare flattened
		got := r.got
		if st.looseN > 0 {
			got = nil
			for i, k := range r.got {
				if r.sizes[i] < 1 || r.sizes[i] > st.looseN {
					c.Fail("batch-size-out-of-range", "Batch", "batch #%d %s has %d elements, Batch(%d, maxWait) promises 1..%d; %s", i, k, r.sizes[i], st.looseN, st.looseN, where)
					return
				}
				for _, f := range strings.Fields(strings.Trim(k, "[]")) {
					got = append(got, f)
				}
			}
		}
		// terminal error
		if st.wantErr != nil {
			if r.termErr == nil {
				cls, cmp := "stage-error-not-reported", comp
				if c45FailFused(st) {
					cmp = "fused-stateless"
				}
				c.Fail(cls, cmp, "stage %d fails on element %d (%v) but the stream completed with Err()=nil; sink saw %v; %s", st.wantErr.Stage, st.wantErr.Val, st.wantErr, got, where)
				return
			}
			if !errors.Is(r.termErr, st.wantErr) {
				c.Fail("stage-error-replaced", comp, "stream ended with %q, the failing stage's error is %q; %s", r.termErr, st.wantErr, where)
				return
			}
			if st.ordered {
				if !strmIsPrefix(got, st.ideal) {
					c.Fail("elements-not-a-prefix-before-error", comp, "stream failed as expected, but the sink saw %v which is not a prefix of the list result %v; %s", got, st.ideal, where)
				}
			} else if ok, extra, _ := strmSubMultiset(got, st.ideal); !ok {
				c.Fail("elements-not-from-list-before-error", comp, "stream failed as expected, but the sink saw %v containing %v that the list computation %v does not produce; %s", got, extra, st.ideal, where)
			}
			if c.Failed() {
				return
			}
			continue
		}
		if r.termErr != nil {
			cls, cmp := "spurious-stream-error", comp
			var se *strmErr
			if errors.As(r.termErr, &se) {
				// an element-level error that the stage's ErrorStrategy promises to absorb (Resume / successful Retry)
				cls = "error-strategy-ignored"
				cmp = strings.ToLower([]string{"FailFast", "Resume", "Retry", "Supervise"}[st.stages[se.Stage].Strat])
				if c45FailFused(st) {
					cmp += "-in-fused-stage"
				} else if st.stages[se.Stage].Strat == stream.Retry {
					// WithErrorStrategy(Retry).WithRetryConfig(...): the second builder's setting is dropped
					cls, cmp = "retry-config-ignored", "chained-with-builders"
				}
			}
			c.Fail(cls, cmp, "no stage error ends this stream in list semantics, but it ended with %q; sink saw %v, list result %v; %s", r.termErr, got, st.ideal, where)
			return
		}
		if st.ordered {
			if len(got) != len(st.ideal) || !strmIsPrefix(got, st.ideal) {
				cls := "sink-result-differs"
				if strmIsPrefix(got, st.ideal) {
					cls = "elements-lost-at-completion"
				} else if ok, _, missing := strmSubMultiset(got, st.ideal); ok && len(missing) == 0 {
					cls = "elements-reordered"
				} else if ok && len(missing) > 0 {
					cls = "elements-lost"
				}
				c.Fail(cls, comp, "sink saw %v, list semantics give %v; %s", got, st.ideal, where)
				return
			}
		} else {
			ok, extra, missing := strmSubMultiset(got, st.ideal)
			if !ok || len(missing) > 0 {
				cls := "sink-result-differs"
				if ok {
					cls = "elements-lost"
				}
				c.Fail(cls, comp, "sink saw %v, list semantics give the multiset %v (extra %v, missing %v); %s", got, st.ideal, extra, missing, where)
				return
			}
		}
	}
	for _, t := range st.tracers {
		if t.complete > 1 {
			c.Fail("completion-signalled-twice", "after-"+t.upKind, "run%d: stage %d (%s, downstream of a %s) received the completion signal %d times (Tracer.OnComplete); %s fusion=%d", t.run, t.idx, strmKindName[t.kind], t.upKind, t.complete, st.desc, st.fusion)
			return
		}
	}
}

// ------------------------------------------------------------------ C46

// Junction-internal actors (the sinks that feed a Merge/Concat/Zip source and the
// Broadcast/Balance/Partition hubs) always get the blocking BoundedMailbox, so the
// generated domain keeps every message away from them once they have stopped
// (see harness/stream/zz_verif_c45_streams.go): sub-sources end in a stage that
// signals completion once, and a fan-out whose branches keep refilling demand is
// fed from a channel that is closed only after the branches have drained.

type c46State struct {
	s        *Sys
	racy     bool // every input is empty and starts on its own: the junction completes while Run is still wiring
	kind     string
	srcs     [][]int // fan-in: one list per input; fan-out: srcs[0] is the shared input
	nbr      int
	partFn   int
	runs     []*strmRunRec
	desc     string
	finished bool
}

var c46Kinds = []string{"Merge", "Concat", "Zip", "Broadcast", "Balance", "Partition", "Combine", "MergePreferred", "ZipWith"}

func c46Comp(st *c46State) string {
	if st.racy {
		return "unwired-start"
	}
	if k := st.kind; (k == "Balance" || k == "Broadcast" || k == "Partition") && strings.Contains(strings.SplitN(st.desc, " | ", 2)[0], "ParallelMap") {
		// the shared upstream ends in a stage that emits without regard to downstream demand
		return k + "-behind-ParallelMap"
	}
	return st.kind
}

func c46Part(fn, n, x int) int {
	switch fn {
	case 1:
		return x % (n + 1) // n is out of range: dropped silently
	case 2:
		return 0
	case 3:
		return (x / 3) % n
	case 4:
		if x%5 == 4 {
			return -1 // out of range
		}
		return (x + 1) % n
	}
	return x % n
}

func c46Delay(c *Ctx) [4]time.Duration {
	switch c.W.Draw(4) {
	case 1:
		return [4]time.Duration{1, 0, 1, 1}
	case 2:
		return [4]time.Duration{0, 200 * time.Microsecond, time.Millisecond, 2 * time.Millisecond}
	case 3:
		return [4]time.Duration{2 * time.Millisecond, time.Millisecond, 1, 0}
	}
	return [4]time.Duration{}
}

func c46Id(d [4]time.Duration) func(int) int {
	st := &strmStage{Delay: d}
	return func(x int) int { st.delay(x); return x }
}

// c46Input builds an input pipeline that emits vals unchanged and whose last
// stage signals completion exactly once. Channel sources are fed by a feeder
// thread that starts once gate holds (every outer Run has returned) plus 1 ms,
// i.e. when all internal sub-pipelines are wired; stages that start pulling on
// their own (OrderedParallelMap) are generated only behind such a source.
// chanOnly: the caller has a self-starting stage elsewhere in the topology.
func c46Input(c *Ctx, vals []int, feeders *[]func(), gate func() bool, chanOnly, noSelfStart bool, startWhen, lateClose func() bool, onSent func(), settle time.Duration, desc *[]string) stream.Source[int] {
	var src stream.Source[int]
	shape := c.W.Draw(7)
	if noSelfStart && (shape == 1 || shape == 2) {
		shape = 0
	}
	if chanOnly && shape != 1 && shape != 2 {
		shape = 6
	}
	if lateClose != nil && shape != 1 && shape != 2 {
		shape = 6
	}
	if len(vals) == 0 && shape == 6 && !chanOnly && lateClose == nil && startWhen == nil {
		// an empty channel source completes the moment its channel is closed, which may be before the
		// sub-pipeline it belongs to has been wired
		shape = 0
	}
	name := ""
	mkChan := func() stream.Source[int] {
		ch := make(chan int, len(vals)+1)
		pace := []time.Duration{0, 50 * time.Microsecond, 500 * time.Microsecond}[c.W.Draw(3)]
		gated := chanOnly || shape != 6 || lateClose != nil || c.W.Draw(2) == 1
		*feeders = append(*feeders, func() {
			if gated {
				strmWaitCond(20*time.Second, gate)
				Sleep(time.Millisecond)
			}
			if startWhen != nil {
				strmWaitCond(20*time.Second, startWhen)
				Sleep(settle)
			}
			for i, v := range vals {
				Send(ch, v)
				if pace > 0 && i%2 == 1 {
					Sleep(pace)
				}
			}
			if onSent != nil {
				onSent()
			}
			if lateClose != nil {
				strmWaitCond(2*time.Second, lateClose)
				Sleep(settle)
			}
			close(ch)
			Yield()
		})
		name = fmt.Sprintf("FromChannel(pace=%v,gated=%v,lateClose=%v)", pace, gated, lateClose != nil)
		return stream.FromChannel(ch)
	}
	switch shape {
	case 1:
		k := 1 + c.W.Draw(3)
		src = stream.Via(mkChan(), stream.OrderedParallelMap(k, c46Id(c46Delay(c))))
		name += fmt.Sprintf("->OrderedParallelMap(%d)", k)
	case 2:
		src = stream.Via(stream.Via(mkChan(), stream.Map(c46Id(c46Delay(c)))), stream.OrderedParallelMap(1, c46Id([4]time.Duration{})))
		name += "->Map->OrderedParallelMap(1)"
	case 3:
		src = stream.Via(stream.Of(vals...), stream.Throttle[int](1, 2*time.Millisecond))
		name = "Of->Throttle"
	case 4:
		n := []int{1, 2, 8}[c.W.Draw(3)]
		src = stream.Via(stream.Via(stream.Of(vals...), stream.Buffer[int](n, stream.BackpressureSource)), stream.Throttle[int](1, 2*time.Millisecond))
		name = fmt.Sprintf("Of->Buffer(%d)->Throttle", n)
	case 5:
		if len(vals) > 0 {
			src = stream.Unfold(0, func(i int) (int, int, bool) { return i + 1, vals[i], i+1 < len(vals) })
			name = "Unfold"
		} else {
			src = stream.Of(vals...)
			name = "Of"
		}
	case 6:
		src = mkChan()
	default:
		src = stream.Of(vals...)
		name = "Of"
	}
	*desc = append(*desc, fmt.Sprintf("%s%v", name, vals))
	return stream.VerifSourceDefaultMailbox(src)
}

// c46Tail optionally appends value-preserving stages (all on harness-controlled mailboxes).
// refills reports whether the first appended stage keeps sending demand upstream in small portions.
func c46TailShape(c *Ctx, allowRefill bool) int {
	shape := c.W.Draw(6)
	if !allowRefill && (shape == 1 || shape == 2 || shape == 5) {
		shape = 3
	}
	return shape
}

func c46Tail(c *Ctx, src stream.Source[int], shape int) (out stream.Source[int], name string, refills bool) {
	switch shape {
	case 1:
		n := []int{1, 2, 4}[c.W.Draw(3)]
		return stream.Via(src, stream.Buffer[int](n, stream.BackpressureSource)), fmt.Sprintf("->Buffer(%d)", n), true
	case 2:
		k := 1 + c.W.Draw(3)
		return stream.Via(src, stream.OrderedParallelMap(k, c46Id(c46Delay(c)))), fmt.Sprintf("->OrderedParallelMap(%d)", k), true
	case 3:
		return stream.Via(src, stream.Map(c46Id(c46Delay(c)))), "->Map", false
	case 4:
		n := []int{1, 2, 4}[c.W.Draw(3)]
		return stream.Via(stream.Via(src, stream.Map(c46Id(c46Delay(c)))), stream.Buffer[int](n, stream.BackpressureSource)), fmt.Sprintf("->Map->Buffer(%d)", n), false
	case 5:
		n := []int{1, 2}[c.W.Draw(2)]
		return stream.Via(stream.Via(src, stream.Buffer[int](n, stream.BackpressureSource)), stream.Map(c46Id(c46Delay(c)))), fmt.Sprintf("->Buffer(%d)->Map", n), true
	}
	return src, "", false
}

func c46Run(c *Ctx) {
	stream.VerifResetStreamSeq()
	s := StartSys(c, "c46", sysOpts(c)...)
	st := &c46State{s: s}
	c.state = st
	st.kind = c46Kinds[c.W.Draw(len(c46Kinds))]
	c.Comp = st.kind
	var feeders []func()
	var desc []string
	type job struct {
		g     stream.RunnableGraph
		r     *strmRunRec
		after time.Duration
	}
	var jobs []job
	genLen := func() int {
		n := c.W.Draw(21)
		if c.W.Draw(3) == 0 {
			n %= 4
		}
		return n
	}
	switch st.kind {
	case "Broadcast", "Balance", "Partition":
		st.nbr = 1 + c.W.Draw(4)
		n := genLen()
		vals := make([]int, n)
		for i := range vals {
			vals[i] = i
		}
		st.srcs = [][]int{vals}
		st.partFn = c.W.Draw(5)
		// branch tails first: they decide whether the shared source must be closed late
		refillAllowed := c.W.Draw(4) != 0
		expect := 0
		switch st.kind {
		case "Broadcast":
			expect = n * st.nbr
		case "Balance":
			expect = n
		case "Partition":
			for _, v := range vals {
				if b := c46Part(st.partFn, st.nbr, v); b >= 0 && b < st.nbr {
					expect++
				}
			}
		}
		var late func() bool
		if refillAllowed {
			late = func() bool {
				got := 0
				for _, r := range st.runs {
					got += len(r.got)
				}
				return got >= expect
			}
		}
		gate := func() bool {
			for _, r := range st.runs {
				if r.h == nil && r.runErr == nil {
					return false
				}
			}
			return len(st.runs) == st.nbr
		}
		shared := c46Input(c, vals, &feeders, gate, true, false, nil, late, nil, 5*time.Millisecond, &desc)
		var branches []stream.Source[int]
		switch st.kind {
		case "Broadcast":
			branches = stream.Broadcast(shared, st.nbr)
		case "Balance":
			branches = stream.Balance(shared, st.nbr)
		default:
			fn, nb := st.partFn, st.nbr
			branches = stream.Partition(shared, st.nbr, func(x int) int { return c46Part(fn, nb, x) })
			desc = append(desc, fmt.Sprintf("partFn#%d", fn))
		}
		for i, b := range branches {
			r := &strmRunRec{name: fmt.Sprintf("branch%d", i)}
			st.runs = append(st.runs, r)
			tail, tn, _ := c46Tail(c, stream.VerifSourceDefaultMailbox(b), c46TailShape(c, refillAllowed))
			desc = append(desc, fmt.Sprintf("branch%d%s", i, tn))
			g := stream.VerifSourceDefaultMailbox(tail).To(stream.VerifSinkDefaultMailbox(strmSink[int](r, 0)))
			jobs = append(jobs, job{g, r, time.Duration(c.W.Draw(4)) * 200 * time.Microsecond})
		}
	default:
		nsrc := 1 + c.W.Draw(4)
		if st.kind == "Combine" {
			nsrc = 2
		}
		gate := func() bool { return len(st.runs) == 1 && (st.runs[0].h != nil || st.runs[0].runErr != nil) }
		tailShape := 0
		if st.kind != "Zip" {
			tailShape = c46TailShape(c, true)
		}
		if st.kind == "Concat" && tailShape == 2 {
			tailShape = 3 // Concat materialises later inputs on the fly: they cannot all be gated channels
		}
		chanOnly := tailShape == 2 // an OrderedParallelMap behind the junction starts pulling before the sink is wired
		zipLike := st.kind == "Zip" || st.kind == "ZipWith" || st.kind == "Combine"
		sent := 0
		for i := 0; i < nsrc; i++ {
			n := genLen()
			vals := make([]int, n)
			for j := range vals {
				vals[j] = i*100 + j
			}
			st.srcs = append(st.srcs, vals)
		}
		minLen, nLong := len(st.srcs[0]), 0
		for _, l := range st.srcs {
			minLen = min(minLen, len(l))
		}
		for _, l := range st.srcs {
			if len(l) > minLen {
				nLong++
			}
		}
		outDone := func() bool { return len(st.runs) == 1 && st.runs[0].done }
		shortImmediate := 0
		var ins []stream.Source[int]
		for _, vals := range st.srcs {
			switch {
			case zipLike && len(vals) > minLen:
				// A Zip/Combine source stops as soon as a shortest input is exhausted; the sinks feeding it from
				// longer inputs would then fail and stop while their upstream is still emitting (a message left in
				// their BoundedMailbox). Keep that window out of the domain: longer inputs are channels that
				// deliver everything first and are closed only after the zipped stream has completed ...
				ins = append(ins, c46Input(c, vals, &feeders, gate, true, false, nil, outDone, func() { sent++ }, time.Millisecond, &desc))
			case zipLike:
				// ... and the shortest inputs start once the longer ones have been delivered; their completion
				// follows their last element immediately (or late, for variety)
				var late func() bool
				if c.W.Draw(3) == 0 && shortImmediate > 0 { // at least one shortest input completes on its own
					late = outDone
				} else {
					shortImmediate++
				}
				ins = append(ins, c46Input(c, vals, &feeders, gate, true, false, func() bool { return sent == nLong }, late, nil, 50*time.Millisecond, &desc))
			default:
				ins = append(ins, c46Input(c, vals, &feeders, gate, chanOnly, st.kind == "Concat" || chanOnly, nil, nil, nil, 0, &desc))
			}
		}
		r := &strmRunRec{name: "out"}
		st.runs = append(st.runs, r)
		sinkKind := c.W.Draw(3)
		var g stream.RunnableGraph
		switch st.kind {
		case "Zip":
			j := stream.VerifSourceDefaultMailbox(stream.Zip(ins...))
			if c.W.Draw(2) == 1 {
				j = stream.VerifSourceDefaultMailbox(stream.Via(j, stream.Buffer[[]int]([]int{1, 2}[c.W.Draw(2)], stream.BackpressureSource)))
				desc = append(desc, "->Buffer")
			}
			g = j.To(stream.VerifSinkDefaultMailbox(strmSink[[]int](r, sinkKind)))
		default:
			var j stream.Source[int]
			switch st.kind {
			case "Merge":
				j = stream.Merge(ins...)
			case "Concat":
				j = stream.Concat(ins...)
			case "MergePreferred":
				pref := c.W.Draw(nsrc)
				j = stream.MergePreferred(pref, ins...)
				desc = append(desc, fmt.Sprintf("preferred=%d", pref))
			case "Combine":
				j = stream.Combine(ins[0], ins[1], func(l, r int) int { return l*1000 + r })
			case "ZipWith":
				j = stream.ZipWith(func(p []int) int {
					t := 0
					for _, v := range p {
						t = t*1000 + v
					}
					return t
				}, ins...)
			}
			tail, tn, _ := c46Tail(c, stream.VerifSourceDefaultMailbox(j), tailShape)
			desc = append(desc, "out"+tn)
			g = stream.VerifSourceDefaultMailbox(tail).To(stream.VerifSinkDefaultMailbox(strmSink[int](r, sinkKind)))
		}
		jobs = append(jobs, job{g, r, 0})
	}
	st.desc = fmt.Sprintf("%s(%d) %s", st.kind, max(st.nbr, len(st.srcs)), strings.Join(desc, " | "))
	if st.nbr == 0 && !strings.Contains(st.desc, "gated=true") {
		st.racy = true
		for _, l := range st.srcs {
			if len(l) > 0 {
				st.racy = false
			}
		}
		if st.racy {
			c.Probe("racy-unwired-start")
		}
	}
	c.Note("junction", st.desc)
	for _, l := range st.srcs {
		c.Ops += len(l)
	}
	var fns []func()
	for _, j := range jobs {
		fns = append(fns, func() {
			if j.after > 0 {
				Sleep(j.after)
			}
			r := j.r
			ok := CallTimeout(10*time.Second, func() { r.h, r.runErr = j.g.Run(s.Ctx, s.Sys) })
			if !ok || r.runErr != nil || r.h == nil {
				c.Fail("run-failed", c46Comp(st), "%s: Run returned=%v err=%v; %s", r.name, ok, r.runErr, st.desc)
				return
			}
			if !strmAwait(r.h, 5*time.Second) {
				r.done = true
				c.Fail("stream-never-completes", c46Comp(st), "%s: Done() not closed 5 s (simulated) after Run; sink saw %v; %s", r.name, r.got, st.desc)
				return
			}
			if r.collect() {
				c.Fail("sink-result-never-ready", st.kind, "%s: Done() closed but the sink's result handle still blocks 1 s later; %s", r.name, st.desc)
			}
		})
	}
	fns = append(fns, feeders...)
	Join(fns...)
	if !c.Failed() {
		Sleep(5 * time.Millisecond)
	}
	st.finished = true
	strmCollapseRacy(c)
	_ = s.Stop()
}

func c46Strs(l []int) []string {
	out := make([]string, len(l))
	for i, v := range l {
		out[i] = fmt.Sprint(v)
	}
	return out
}

// c46IsSubsequence: got occurs in want in the same relative order.
func c46IsSubsequence(got, want []string) bool {
	i := 0
	for _, w := range want {
		if i < len(got) && got[i] == w {
			i++
		}
	}
	return i == len(got)
}

func c46Finish(c *Ctx) {
	st, _ := c.state.(*c46State)
	if st == nil || !st.finished {
		return
	}
	defer strmCollapseRacy(c)
	k := c46Comp(st)
	for _, r := range st.runs {
		if r.h == nil {
			return
		}
		if r.lateElems > 0 || len(r.got) != len(r.atDone) {
			c.Fail("element-after-completion", k, "%s: elements reached the sink after Done() was closed (at completion %v, finally %v); %s", r.name, r.atDone, r.got, st.desc)
			return
		}
		if r.termErr != nil {
			c.Fail("spurious-stream-error", k, "%s ended with %q although no stage fails; sink saw %v; %s", r.name, r.termErr, r.got, st.desc)
			return
		}
	}
	k = st.kind
	comp := c46Comp(st)
	fail := func(cls, format string, a ...any) {
		c.Fail(cls, comp, "%s; %s", fmt.Sprintf(format, a...), st.desc)
	}
	switch k {
	case "Merge", "MergePreferred":
		got := st.runs[0].got
		var all []string
		for _, l := range st.srcs {
			all = append(all, c46Strs(l)...)
		}
		if ok, extra, missing := strmSubMultiset(got, all); !ok || len(missing) > 0 {
			fail("merge-not-the-union", "merged output %v; extra %v, missing %v", got, extra, missing)
			return
		}
		for i, l := range st.srcs {
			var sub []string
			for _, g := range got {
				var v int
				fmt.Sscan(g, &v)
				if v/100 == i {
					sub = append(sub, g)
				}
			}
			if strings.Join(sub, " ") != strings.Join(c46Strs(l), " ") {
				fail("merge-source-order-broken", "elements of input %d arrive as %v, emitted as %v (merged output %v)", i, sub, l, got)
				return
			}
		}
	case "Concat":
		var all []string
		for _, l := range st.srcs {
			all = append(all, c46Strs(l)...)
		}
		if got := st.runs[0].got; strings.Join(got, " ") != strings.Join(all, " ") {
			fail("concat-differs", "output %v, concatenation of the inputs %v", got, all)
		}
	case "Zip", "ZipWith", "Combine":
		m := len(st.srcs[0])
		for _, l := range st.srcs {
			m = min(m, len(l))
		}
		var want []string
		for j := 0; j < m; j++ {
			tup := make([]int, len(st.srcs))
			for i := range st.srcs {
				tup[i] = st.srcs[i][j]
			}
			switch k {
			case "Zip":
				want = append(want, strmKey(tup))
			case "Combine":
				want = append(want, fmt.Sprint(tup[0]*1000+tup[1]))
			default:
				t := 0
				for _, v := range tup {
					t = t*1000 + v
				}
				want = append(want, fmt.Sprint(t))
			}
		}
		if got := st.runs[0].got; strings.Join(got, "|") != strings.Join(want, "|") {
			fail("zip-differs", "output %v, positional tuples up to the shortest input %v", got, want)
		}
	case "Broadcast":
		want := c46Strs(st.srcs[0])
		for _, r := range st.runs {
			if strings.Join(r.got, " ") != strings.Join(want, " ") {
				fail("broadcast-branch-differs", "%s received %v, the source emits %v", r.name, r.got, want)
				return
			}
		}
	case "Balance":
		want := c46Strs(st.srcs[0])
		var all []string
		for _, r := range st.runs {
			all = append(all, r.got...)
			if !c46IsSubsequence(r.got, want) {
				fail("balance-branch-order-broken", "%s received %v, not in source order %v", r.name, r.got, want)
				return
			}
		}
		if ok, extra, missing := strmSubMultiset(all, want); !ok || len(missing) > 0 {
			cls := "balance-element-lost"
			if !ok {
				cls = "balance-element-duplicated"
			}
			var per []string
			for _, r := range st.runs {
				per = append(per, fmt.Sprintf("%s=%v", r.name, r.got))
			}
			fail(cls, "branches %v; delivered twice %v, to no branch %v", per, extra, missing)
		}
	case "Partition":
		for b, r := range st.runs {
			var want []string
			for _, v := range st.srcs[0] {
				if c46Part(st.partFn, st.nbr, v) == b {
					want = append(want, fmt.Sprint(v))
				}
			}
			if strings.Join(r.got, " ") != strings.Join(want, " ") {
				cls := "partition-branch-differs"
				if strmIsPrefix(r.got, want) {
					cls = "partition-element-lost"
				}
				fail(cls, "%s received %v, the partition function routes %v to it", r.name, r.got, want)
				return
			}
		}
	}
}

func init() {
	Register(&Scenario{Prop: "C45", Name: "linear-pipelines", Variants: []string{"stock", "small"}, Quick: 1200, Thorough: 120000,
		EstSteps: 6000, MaxSteps: 1500000, MaxIdle: 2 * time.Hour,
		Real: strmReal, Stub: strmStub, Run: c45Run, Finish: c45Finish})
	Register(&Scenario{Prop: "C46", Name: "junctions", Quick: 2500, Thorough: 250000,
		EstSteps: 9000, MaxSteps: 1500000, MaxIdle: 2 * time.Hour,
		Real: strmReal, Stub: strmStub, Run: c46Run, Finish: c46Finish})
}

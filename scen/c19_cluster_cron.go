package scen

// C19 (cluster part): "In cluster mode a cron schedule delivers each tick at
// most once across all nodes."
//
// Engine E (scen/cluster.go): 2–3 real cluster-enabled actor systems share the
// simulated registry and ONE fake clock (no skew: every node's quartz timer
// fires at exactly the tick instant; which node's claim reaches the registry
// first is the seeded interleaving). Every node calls
// ScheduleWithCron(msg, pid, expr, WithReference(ref)) for the same 1–2
// references ("* * * * * *" or "*/2 * * * * *"), towards its own local target
// actor or towards a target on another node (PID resolved by name with ActorOf:
// a remote PID, delivery over simnet). Per node and reference a short program of
// CancelSchedule / PauseSchedule+ResumeSchedule / cancel+schedule-again follows,
// at instants drawn on a grid around the tick instants (−500 ms, −1 ns, 0, +1 ns,
// +300 ms). The run lasts 4–10 ticks of simulated time.
//
// Only cron schedules are arbitrated cluster-wide (scheduler.go: "Interval and
// one-shot schedules never claim: they stay node-local by design"), so Schedule
// and ScheduleOnce are not part of this scenario (the single-node half,
// sched-local, owns them).
//
// Faults (fault tape): the tick claim is a put-if-absent with TTL on the
// simulated registry; claims fail (ErrInjected) and/or are slow by 0.5 – 1.5
// ticks (500 ms, 1 s − 1 ns, 1 s, 1 s + 1 ns, 1.5 s: a slow claim arrives after
// the next tick has been claimed; with the default registry write timeout of
// 1 s the longer ones end in a deadline error after 1 s, with the drawn write
// timeout of 3 s they complete); one node leaves gracefully or crashes in
// mid-run, at an instant that is NOT a tick instant (see the determinism note in
// c19_scheduler.go; −1 ns / +1 ns / +300 ms / −500 ms around a tick). Faults are
// restricted to put-if-absent operations and no actor is spawned while they are
// on, so the only operation they hit is the claim. The network is healthy.
//
// The registry seam cannot see the TTL inside an olric.PutOption; the helper
// harness/actor/zz_verif_c19_cron.go copies the TTL goakt really asks for into
// the seam before every claim, so that the simulated registry expires claims
// when the real one would.
//
// Oracle (after the run, over the shared log; written from the statement):
//  1. cron-tick-delivered-twice: per reference, the deliveries (all nodes, all
//     targets) can be assigned to pairwise different ticks. A delivery seen at
//     fake time t by a target may belong to a tick T of the expression with
//     T ≤ t ≤ T + L, where L is the slowness injected into claims in this run
//     plus 50 ms (the simulator advances the clock by microseconds while all
//     runnable threads poll, so a remote delivery can trail its fire instant;
//     without slow faults t must lie within 50 ms after a tick instant), T not before the
//     ScheduleWithCron call of the schedule that sent it and not after the
//     return of its successful CancelSchedule. Maximum bipartite matching; when
//     not all deliveries can be matched, some tick was delivered twice.
//     component = two-nodes | same-node (who sent the colliding deliveries).
//  2. cron-off-tick: a delivery for which no such tick exists at all.
//  3. cron-tick-missing (documented: "delivered exactly once per trigger tick
//     across the cluster"; demanded only where nothing was injected): in runs
//     without registry faults, every tick strictly inside an active period of
//     some node's schedule (after ScheduleWithCron / ResumeSchedule returned,
//     before PauseSchedule / CancelSchedule was called) and before the instant
//     a node starts leaving / crashes is delivered.
//
// What the statement does not say is not demanded: with claim errors a tick may
// be lost (the claim fails open on no node); after a node left, ticks claimed by
// a node whose target lived there are lost.

import (
	"fmt"
	"sort"
	"strconv"
	"strings"
	"time"

	"github.com/tochemey/goakt/v4/actor"
	"github.com/tochemey/goakt/v4/zzverif/simcluster"
)

type c19cOp struct {
	Idx     int
	Node    int
	API     string
	Ref     int
	Inst    int
	CallSeq int
	RetSeq  int
	CallT   time.Duration
	RetT    time.Duration
	Err     error
}

func (o *c19cOp) String() string {
	return fmt.Sprintf("[node%d %s call@%v ret@%v err=%v]", o.Node, o.API, o.CallT, o.RetT, o.Err)
}

// c19cInst is one ScheduleWithCron call and the control calls that followed it on the same node.
type c19cInst struct {
	ID     int
	Node   int
	Ref    int
	Target string
	TNode  int
	Ops    []*c19cOp
}

type c19cStep struct {
	J   int
	Off time.Duration
	API string
	Ref int
}

type c19cRef struct {
	Name   string
	Expr   string
	Period time.Duration
}

type c19cClaim struct {
	Node  int
	Key   string
	CallT time.Duration
	RetT  time.Duration
	Done  bool
	Err   error
}

type c19cDel struct {
	Seq    int
	T      time.Duration
	Inst   int
	From   int // node whose schedule sent it
	At     int // node of the target that received it
	Target string
	cand   []int64
}

type c19cState struct {
	cl       *simCluster
	base     int64 // wall-clock nanoseconds at simulated time 0
	t0       time.Duration
	refs     []c19cRef
	insts    []*c19cInst
	ops      []*c19cOp
	claims   []*c19cClaim
	regMode  int
	slowFor  time.Duration
	chaos    int // 0 none, 1 leave, 2 crash
	chaosAt  time.Duration
	chaosNod int
	chaosT   time.Duration // instant the chaos began (0: not yet / never)
	endSeq   int
	endT     time.Duration
	ttl      time.Duration
}

func (st *c19cState) call(o *c19cOp, f func() error) {
	o.Idx = len(st.ops)
	st.ops = append(st.ops, o)
	st.cl.C.Ops++
	o.CallSeq = st.cl.Ev(Ev{Actor: st.refs[o.Ref].Name, Inc: o.Node, Kind: "op-call", Tag: o.Idx, Aux: o.API})
	o.CallT = Now()
	err := f()
	o.Err = err
	o.RetT = Now()
	o.RetSeq = st.cl.Ev(Ev{Actor: st.refs[o.Ref].Name, Inc: o.Node, Kind: "op-ret", Tag: o.Idx, Aux: fmt.Sprintf("%s %v", o.API, err)})
}

func c19cSleepTo(t time.Duration) {
	if d := t - Now(); d > 0 {
		Sleep(d)
	}
}

const c19cSlack = 50 * time.Millisecond

var c19cOffs = []time.Duration{-500 * time.Millisecond, -1, 0, 1, 300 * time.Millisecond}

func c19cRun(c *Ctx) {
	n := 2 + c.W.Draw(2)
	st := &c19cState{}
	c.state = st
	c.Comp = "cluster-cron"
	actor.VerifResetClaimTTL()
	// registry write timeout of every node: the default (1 s: a claim that is slow
	// for longer fails with a deadline error after 1 s) or 3 s (slow claims do
	// complete after 1 - 1.5 ticks)
	wt := []time.Duration{time.Second, 3 * time.Second}[c.W.Draw(2)]
	cl := startCluster(c, n, clusterOpts{Cluster: func(_ int, cc *actor.ClusterConfig) *actor.ClusterConfig {
		if wt != time.Second {
			cc = cc.WithWriteTimeout(wt)
		}
		return cc
	}})
	if cl == nil {
		return
	}
	defer actor.VerifResetClaimTTL()
	st.cl = cl
	st.base = time.Now().UnixNano() - int64(Now())

	// ---- the generated case (everything is drawn before the threads start)
	nref := 1
	if c.W.Draw(3) == 2 {
		nref = 2
	}
	for r := 0; r < nref; r++ {
		ref := c19cRef{Name: fmt.Sprintf("cron%c", 'A'+r), Expr: "* * * * * *", Period: time.Second}
		if c.W.Draw(4) == 3 {
			ref.Expr, ref.Period = "*/2 * * * * *", 2*time.Second
		}
		st.refs = append(st.refs, ref)
	}
	nticks := 4 + c.W.Draw(7)
	tnode := make([]int, n) // node that hosts the target of node i's schedules
	for i := range tnode {
		tnode[i] = i
		if c.W.Draw(2) == 1 {
			tnode[i] = c.W.Draw(n)
		}
	}
	progs := make([][]c19cStep, n)
	for i := 0; i < n; i++ {
		for r := 0; r < nref; r++ {
			if !(r == 0 && i < 2) && c.W.Draw(4) == 3 {
				continue // this node does not run the reference
			}
			j := []int{0, 0, 1, 2}[c.W.Draw(4)]
			progs[i] = append(progs[i], c19cStep{J: j, Off: c19cOffs[c.W.Draw(len(c19cOffs))], API: "ScheduleWithCron", Ref: r})
			var follow []string
			switch c.W.Draw(6) {
			case 2:
				follow = []string{"CancelSchedule"}
			case 3:
				follow = []string{"PauseSchedule", "ResumeSchedule"}
			case 4:
				follow = []string{"CancelSchedule", "ScheduleWithCron"}
			case 5:
				follow = []string{"PauseSchedule"}
			}
			for _, api := range follow {
				j += 1 + c.W.Draw(3)
				if j >= nticks {
					break
				}
				progs[i] = append(progs[i], c19cStep{J: j, Off: c19cOffs[c.W.Draw(len(c19cOffs))], API: api, Ref: r})
			}
		}
		sort.SliceStable(progs[i], func(a, b int) bool {
			x, y := progs[i][a], progs[i][b]
			return time.Duration(x.J)*time.Second+x.Off < time.Duration(y.J)*time.Second+y.Off
		})
	}
	// faults
	var reg simcluster.Config
	profile := c.F.Draw(4) // 0 healthy, 1 registry faults, 2 a node leaves/crashes, 3 both
	if profile == 1 || profile == 3 {
		st.regMode = 1 + c.F.Draw(3)
		slow := []time.Duration{500 * time.Millisecond, time.Second - 1, time.Second, time.Second + 1, 1500 * time.Millisecond}[c.F.Draw(5)]
		if slow == wt {
			// timer and deadline of the registry call would fire at the same instant:
			// which of two ready select cases the (uninstrumented) backend takes is not reproducible
			slow = 1500 * time.Millisecond
		}
		switch st.regMode {
		case 1:
			reg.ErrPerm = 200
		case 2:
			reg.SlowPerm, reg.SlowFor = 300, slow
		case 3:
			reg.ErrPerm, reg.SlowPerm, reg.SlowFor = 120, 250, slow
		}
		reg.OnlyOps = map[string]bool{"putnx": true}
		st.slowFor = reg.SlowFor
	}
	if profile >= 2 {
		st.chaos = 1 + c.F.Draw(2)
		st.chaosNod = c.F.Draw(n)
		off := []time.Duration{300 * time.Millisecond, 1, -1, -500 * time.Millisecond}[c.F.Draw(4)]
		st.chaosAt = time.Duration(1+c.F.Draw(nticks-1))*time.Second + off
	}
	c.Note("nodes", n)
	c.Note("refs", fmt.Sprintf("%+v", st.refs))
	c.Note("ticks", nticks)
	c.Note("target_nodes", fmt.Sprint(tnode))
	c.Note("registry_faults", fmt.Sprintf("err=%d slow=%d for=%v write-timeout=%v", reg.ErrPerm, reg.SlowPerm, reg.SlowFor, wt))
	c.Note("chaos", fmt.Sprintf("%s node%d at tick0+%v", []string{"none", "leave", "crash"}[st.chaos], st.chaosNod, st.chaosAt))

	// ---- targets: one ClusActor per node, resolved by name from the scheduling node
	for i := 0; i < n; i++ {
		nd := cl.Nodes[i]
		if _, err := nd.Sys.Sys.Spawn(nd.Ctx, fmt.Sprintf("tgt%d", i), &ClusActor{}, actor.WithLongLived(), actor.WithRelocationDisabled()); err != nil {
			c.Fail("c19c-spawn-failed", "Spawn", "tgt%d: %v", i, err)
			cl.Stop()
			return
		}
	}
	pids := make([]*actor.PID, n)
	var fns []func()
	for i := 0; i < n; i++ {
		fns = append(fns, cl.On(i, func(nd *clusterNode) {
			name := fmt.Sprintf("tgt%d", tnode[nd.Idx])
			var err error
			WaitUntil(5*time.Millisecond, 2*time.Second, func() bool {
				pids[nd.Idx], err = nd.Sys.Sys.ActorOf(nd.Ctx, name)
				return err == nil
			})
			if err != nil {
				c.Fail("c19c-actorof-failed", "ActorOf", "node%d %s: %v", nd.Idx, name, err)
			}
		}))
	}
	Join(fns...)
	if c.Failed() {
		cl.Stop()
		return
	}
	for i := 0; i < n; i++ {
		if pids[i].IsRemote() {
			c.Probe("remote-target")
		} else {
			c.Probe("local-target")
		}
		node := i
		open := map[string]*c19cClaim{}
		ok := actor.VerifObserveScheduleClaims(cl.Nodes[i].Sys.Sys, func(phase, key string, ttl time.Duration, err error) {
			st.ttl = ttl
			if phase == "call" {
				cm := &c19cClaim{Node: node, Key: key, CallT: Now()}
				open[key] = cm
				st.claims = append(st.claims, cm)
				cl.Ev(Ev{Actor: key, Inc: node, Kind: "claim-call"})
				return
			}
			if cm := open[key]; cm != nil {
				cm.RetT, cm.Done, cm.Err = Now(), true, err
			}
			cl.Ev(Ev{Actor: key, Inc: node, Kind: "claim-ret", Aux: err})
		})
		if !ok {
			c.Fail("c19c-observer-failed", "harness", "node%d", i)
			cl.Stop()
			return
		}
	}

	// ---- tick 0 = the first whole wall-clock second at least 700 ms from now
	w := st.base + int64(Now()+700*time.Millisecond)
	w += (int64(time.Second) - w%int64(time.Second)) % int64(time.Second)
	st.t0 = time.Duration(w - st.base)
	at := func(j int, off time.Duration) time.Duration { return st.t0 + time.Duration(j)*time.Second + off }
	c19cSleepTo(at(0, -600*time.Millisecond))
	if st.regMode > 0 {
		cl.RegistryFaults(reg)
	}

	// ---- drivers: one thread per node + the chaos thread
	live := make([][]*c19cInst, n) // per node: the latest instance per reference
	for i := range live {
		live[i] = make([]*c19cInst, nref)
	}
	fns = fns[:0]
	for i := 0; i < n; i++ {
		fns = append(fns, cl.On(i, func(nd *clusterNode) {
			for _, sp := range progs[nd.Idx] {
				c19cSleepTo(at(sp.J, sp.Off))
				if !nd.Up() || cl.Failed() {
					return
				}
				ref := st.refs[sp.Ref]
				op := &c19cOp{Node: nd.Idx, API: sp.API, Ref: sp.Ref, Inst: -1}
				if sp.API == "ScheduleWithCron" {
					in := &c19cInst{ID: len(st.insts), Node: nd.Idx, Ref: sp.Ref, Target: pids[nd.Idx].Name(), TNode: tnode[nd.Idx]}
					st.insts = append(st.insts, in)
					live[nd.Idx][sp.Ref] = in
					op.Inst = in.ID
					in.Ops = append(in.Ops, op)
					msg := rmsg(in.ID, nd.Idx, sp.Ref, "")
					st.call(op, func() error {
						return nd.Sys.Sys.ScheduleWithCron(nd.Ctx, msg, pids[nd.Idx], ref.Expr, actor.WithReference(ref.Name))
					})
					continue
				}
				in := live[nd.Idx][sp.Ref]
				if in == nil {
					continue
				}
				op.Inst = in.ID
				in.Ops = append(in.Ops, op)
				st.call(op, func() error {
					switch sp.API {
					case "PauseSchedule":
						return nd.Sys.Sys.PauseSchedule(ref.Name)
					case "ResumeSchedule":
						return nd.Sys.Sys.ResumeSchedule(ref.Name)
					default:
						return nd.Sys.Sys.CancelSchedule(ref.Name)
					}
				})
			}
		}))
	}
	if st.chaos > 0 {
		fns = append(fns, func() {
			c19cSleepTo(st.t0 + st.chaosAt)
			st.chaosT = Now()
			if st.chaos == 1 {
				c.Fault("node-leaves")
				cl.Nodes[st.chaosNod].Bind()
				_ = cl.Leave(st.chaosNod)
			} else {
				cl.Crash(st.chaosNod, c.F.Draw(2) == 0)
			}
		})
	}
	Join(fns...)

	// ---- end: at an instant without a fire, cancel every schedule that is still
	// there (so that no quartz loop has a fire pending when the systems stop), let
	// the slow claims in flight finish, mark the end.
	c19cSleepTo(at(nticks-1, 400*time.Millisecond))
	fns = fns[:0]
	for i := 0; i < n; i++ {
		fns = append(fns, cl.On(i, func(nd *clusterNode) {
			if nd.Left || nd.Stopped {
				return // (a crashed node lives on as a zombie: its schedules are cancelled too)
			}
			for r, in := range live[nd.Idx] {
				if in == nil {
					continue
				}
				op := &c19cOp{Node: nd.Idx, API: "CancelSchedule", Ref: r, Inst: in.ID}
				in.Ops = append(in.Ops, op)
				st.call(op, func() error { return nd.Sys.Sys.CancelSchedule(st.refs[r].Name) })
			}
		}))
	}
	Join(fns...)
	cl.RegistryFaultsOff()
	Sleep(2*time.Second + 100*time.Millisecond)
	st.endT = Now()
	st.endSeq = cl.Ev(Ev{Kind: "end"})
	cl.Stop()
}

// ---- oracle

func (st *c19cState) hist(r int, dels []*c19cDel) string {
	ref := st.refs[r]
	var b strings.Builder
	fmt.Fprintf(&b, "reference %s expr %q, tick0 at %v, registry faults mode %d slow-for %v, claim ttl %v, chaos %s node%d at %v; schedules:", ref.Name, ref.Expr, st.t0, st.regMode, st.slowFor, st.ttl,
		[]string{"none", "leave", "crash"}[st.chaos], st.chaosNod, st.chaosT)
	for _, in := range st.insts {
		if in.Ref != r {
			continue
		}
		fmt.Fprintf(&b, " {#%d node%d -> %s@node%d:", in.ID, in.Node, in.Target, in.TNode)
		for _, o := range in.Ops {
			b.WriteString(" " + o.String())
		}
		b.WriteString("}")
	}
	b.WriteString(" deliveries:")
	for _, d := range dels {
		fmt.Fprintf(&b, " [%v by #%d(node%d) at node%d]", d.T, d.Inst, d.From, d.At)
	}
	b.WriteString(" claims:")
	for _, cm := range st.claims {
		if cm.Key == ref.Name || strings.HasPrefix(cm.Key, ref.Name+"@") {
			res := "in-flight"
			if cm.Done {
				res = fmt.Sprintf("ret@%v %v", cm.RetT, cm.Err)
			}
			fmt.Fprintf(&b, " [node%d %s call@%v %s]", cm.Node, st.tickOfKey(cm.Key), cm.CallT, res)
		}
	}
	return b.String()
}

// tickOfKey renders the tick of a claim key "<ref>@<unix nanos>" as simulated time.
func (st *c19cState) tickOfKey(key string) string {
	if i := strings.LastIndex(key, "@"); i >= 0 {
		if w, err := strconv.ParseInt(key[i+1:], 10, 64); err == nil {
			return fmt.Sprintf("tick@%v", time.Duration(w-st.base))
		}
	}
	return key
}

func c19cFinish(c *Ctx) {
	clusterFinish(c)
	st, _ := c.state.(*c19cState)
	if st == nil || st.cl == nil || st.endSeq == 0 || c.Failed() {
		return
	}
	log := st.cl.Log()
	perRef := make([][]*c19cDel, len(st.refs))
	for _, e := range log {
		if e.Kind != "recv" || !strings.HasPrefix(e.Actor, "tgt") || e.Seq >= st.endSeq {
			continue
		}
		if e.Tag < 0 || e.Tag >= len(st.insts) {
			c.Fail("c19c-unknown-delivery", "harness", "%v", e)
			return
		}
		in := st.insts[e.Tag]
		perRef[in.Ref] = append(perRef[in.Ref], &c19cDel{Seq: e.Seq, T: e.T, Inst: in.ID, From: in.Node, At: e.Inc, Target: e.Actor})
	}
	// claim statistics (probes only: the mechanism is not the property)
	type keyStat struct{ calls, wins, lost, errs int }
	ks := map[string]*keyStat{}
	for _, cm := range st.claims {
		s := ks[cm.Key]
		if s == nil {
			s = &keyStat{}
			ks[cm.Key] = s
		}
		s.calls++
		switch {
		case !cm.Done:
		case cm.Err == nil:
			s.wins++
		case actor.VerifIsClaimLost(cm.Err):
			s.lost++
		default:
			s.errs++
		}
		if cm.Done && cm.RetT-cm.CallT >= time.Second {
			c.Probe("claim-slow-past-next-tick")
		}
	}
	for _, k := range sortedKeys(ks) {
		s := ks[k]
		c.Probes["claims"] += s.calls
		c.Probes["claims-lost"] += s.lost
		c.Probes["claims-error"] += s.errs
		if s.calls >= 2 {
			c.Probe("tick-contended")
		}
		if s.wins >= 2 {
			c.Probe("tick-claim-won-twice")
		}
		if s.wins == 0 && s.errs > 0 && s.lost == 0 {
			c.Probe("tick-lost-to-claim-errors")
		}
	}

	for r, ref := range st.refs {
		dels := perRef[r]
		sort.SliceStable(dels, func(i, j int) bool { return dels[i].Seq < dels[j].Seq })
		c.Probes["cron-deliveries"] += len(dels)
		P := int64(ref.Period)
		// c19cSlack: the simulator lets microseconds to a millisecond of simulated
		// time pass whenever every runnable thread is polling (simrt spin quantum),
		// e.g. while a job goroutine waits for the first connection to a remote
		// target: a delivery may trail its fire instant by that much. 50 ms is far
		// below the tick period and off every instant the workload uses.
		L := int64(st.slowFor + c19cSlack)
		// candidate ticks per delivery
		for _, d := range dels {
			in := st.insts[d.Inst]
			w := st.base + int64(d.T)
			lo := max(w-L, st.base+int64(in.Ops[0].CallT))
			hi := w
			for _, o := range in.Ops {
				if o.API == "CancelSchedule" && o.Err == nil {
					hi = min(hi, st.base+int64(o.RetT))
					break
				}
			}
			first := lo + (P-lo%P)%P
			for T := first; T <= hi; T += P {
				d.cand = append(d.cand, T)
			}
			if len(d.cand) == 0 {
				comp := "no-slow-faults"
				if st.slowFor > 0 {
					comp = "slow-registry"
				}
				c.Fail("cron-off-tick", comp, "delivery at %v (by schedule #%d of node%d, received on node%d) matches no tick of the expression in [t-%v, t] within the life of that schedule; %s",
					d.T, d.Inst, d.From, d.At, time.Duration(L), st.hist(r, dels))
				return
			}
		}
		// maximum matching deliveries -> ticks (Kuhn)
		owner := map[int64]int{}
		var try func(i int, seen map[int64]bool) bool
		try = func(i int, seen map[int64]bool) bool {
			for _, T := range dels[i].cand {
				if seen[T] {
					continue
				}
				seen[T] = true
				if j, taken := owner[T]; !taken || try(j, seen) {
					owner[T] = i
					return true
				}
			}
			return false
		}
		for i, d := range dels {
			seen := map[int64]bool{}
			if try(i, seen) {
				continue
			}
			// the deliveries competing for the ticks reachable from d: more deliveries than ticks
			var ticks []int64
			for T := range seen {
				ticks = append(ticks, T)
			}
			sort.Slice(ticks, func(a, b int) bool { return ticks[a] < ticks[b] })
			group := []*c19cDel{d}
			nodes := map[int]bool{d.From: true}
			var ts []string
			for _, T := range ticks {
				group = append(group, dels[owner[T]])
				nodes[dels[owner[T]].From] = true
				ts = append(ts, time.Duration(T-st.base).String())
			}
			comp := "same-node"
			if len(nodes) > 1 {
				comp = "two-nodes"
			}
			var gs []string
			for _, g := range group {
				gs = append(gs, fmt.Sprintf("%v by #%d(node%d)", g.T, g.Inst, g.From))
			}
			c.Fail("cron-tick-delivered-twice", comp, "%d deliveries [%s] for only %d tick(s) [%s] (a delivery at t can belong to a tick in [t-%v, t]): some tick was delivered more than once cluster-wide; %s",
				len(group), strings.Join(gs, ", "), len(ticks), strings.Join(ts, ", "), time.Duration(L), st.hist(r, dels))
			return
		}
		// exactly once where nothing was injected
		if st.regMode != 0 {
			continue
		}
		type span struct{ a, b time.Duration }
		var spans []span
		for _, in := range st.insts {
			if in.Ref != r || in.Ops[0].Err != nil {
				continue
			}
			limit := st.endT
			if st.chaosT > 0 {
				limit = min(limit, st.chaosT) // after a node has started to go, nothing is demanded
			}
			start, active := in.Ops[0].RetT, true
			for _, o := range in.Ops[1:] {
				switch o.API {
				case "PauseSchedule", "CancelSchedule":
					if active {
						spans = append(spans, span{start, min(o.CallT, limit)})
						active = false
					}
				case "ResumeSchedule":
					if !active && o.Err == nil {
						start, active = o.RetT, true
					}
				}
				if o.API == "CancelSchedule" {
					break
				}
			}
			if active {
				spans = append(spans, span{start, limit})
			}
		}
		got := map[int64]bool{} // no slow faults here: a delivery belongs to the tick at most c19cSlack before it
		for _, d := range dels {
			w := st.base + int64(d.T)
			if T := w - w%P; w-T <= int64(c19cSlack) {
				got[T] = true
			}
		}
		firstW := st.base + int64(st.t0) - 2*P
		firstW += (P - firstW%P) % P
		for T := firstW; T < st.base+int64(st.endT); T += P {
			t := time.Duration(T - st.base)
			due := false
			for _, s := range spans {
				due = due || (s.a < t && t+c19cSlack < s.b)
			}
			if due && !got[T] {
				c.Fail("cron-tick-missing", "healthy-registry", "no delivery for the tick at %v although a schedule of the reference was active on a live node, the registry was healthy and no node had started to leave; %s", t, st.hist(r, dels))
				return
			}
			if due {
				c.Probe("tick-due-and-delivered")
			}
		}
	}
}

func init() {
	Register(&Scenario{Prop: "C19", Name: "sched-cluster", Quick: 600, Thorough: 60000,
		EstSteps: 8000, MaxSteps: 8000000, MaxIdle: time.Hour, Real: clusReal, Stub: clusStub,
		Run: c19cRun, Finish: c19cFinish})
}

package scen

// C31 — grain activations are ordered and single-threaded.
//
// Engine C, single node without a cluster (grains are served by localSend).
// 1–2 grain identities of a probe grain kind, each with a short
// deactivate-after D; 2–4 driver threads send TellGrain / AskGrain (both are
// synchronous for the caller), re-resolve the identity with GrainOf (the
// documented way to get the configured options onto a re-activation), send
// PoisonPill (the explicit deactivation the repo's own tests use) and, in some
// runs, stop the actor system while traffic is still flowing. The probe grain's
// hooks take simulated time drawn on a grid around D, so the passivation
// manager's deadline falls inside / exactly at the end of a handler.
//
// The probe records activate/receive/deactivate enter+exit with an activation
// id that is assigned by OnActivate (every OnActivate call is one activation
// attempt). Oracle, from the statement:
//   - OnActivate completed (without error) before the first OnReceive of that
//     activation;                                   receive-before-activate
//   - OnDeactivate never starts while an OnReceive of that activation is in
//     progress and no OnReceive starts while OnDeactivate runs;
//                                                   deactivate-overlaps-receive
//   - no OnReceive of an activation starts after its OnDeactivate started;
//                                                   receive-after-deactivate
//   - at most one OnDeactivate per activation, and once the system has
//     stopped exactly one;                          deactivate-twice / deactivate-missing
//   - a send issued after OnDeactivate returned (and before the system stop
//     began) is handled, by a later activation;     send-after-deactivation-lost
//   - (Grain interface doc: "Only one call is active at a time per grain
//     instance")                                    receive-overlap
// An activation is one OnActivate call ("fresh" = a later OnActivate; the
// framework may re-activate the same Go object, initialisation belongs in
// OnActivate).

import (
	"context"
	"errors"
	"fmt"
	"runtime"
	"strings"
	"time"

	"github.com/tochemey/goakt/v4/actor"
	gerrors "github.com/tochemey/goakt/v4/errors"
	"github.com/tochemey/goakt/v4/reentrancy"
	"github.com/tochemey/goakt/v4/zzverif/simrt"
)

type c31Msg struct {
	Tag, From, Seq int
	Work           time.Duration
	Yields         int
	Ask            bool
}

type c31Send struct {
	tag      int
	grain    string
	kind     string
	callSeq  int
	retSeq   int
	err      error
	returned bool
}

type c31State struct {
	c         *Ctx
	s         *Sys
	nact      int
	names     []string
	D         map[string]time.Duration
	reentrant map[string]bool
	actWork   time.Duration
	deactWork time.Duration
	failAct   map[int]bool
	poison    map[string]int // PoisonPill sends in flight per grain
	stopping  bool
	sends     []*c31Send
}

// c31Cur is the state of the run in progress (grains are instantiated by the
// framework as zero values, so they cannot carry a pointer to it). Runs are
// strictly sequential within a worker process.
var c31Cur *c31State

// c31Grain is the probe grain.
type c31Grain struct {
	act       int
	name      string
	inRecv    string
	inDeact   string
	deacts    int
	deactPath string // path of the (first) OnDeactivate of this activation
}

// c31Path names the way OnDeactivate was reached, from the call stack:
// passivation-direct (passivation manager goroutine calls deactivate),
// passivation-pill (decision taken on the grain's turn), poison-pill (explicit
// PoisonPill), shutdown (PoisonPill sent by the stopping actor system),
// activation-rollback.
func (st *c31State) c31Path() string {
	pcs := make([]uintptr, 48)
	n := runtime.Callers(2, pcs)
	frames := runtime.CallersFrames(pcs[:n])
	for {
		f, more := frames.Next()
		switch {
		case strings.HasSuffix(f.Function, ".passivationTry"):
			return "passivation-direct"
		case strings.HasSuffix(f.Function, ".handlePassivationPill"):
			return "passivation-pill"
		case strings.HasSuffix(f.Function, ".handlePoisonPill"):
			if st.stopping {
				return "shutdown"
			}
			return "poison-pill"
		case strings.HasSuffix(f.Function, ".finalizeGrainActivation"):
			return "activation-rollback"
		}
		if !more {
			return "other"
		}
	}
}

func (g *c31Grain) OnActivate(_ context.Context, props *actor.GrainProps) error {
	st := c31Cur
	if g.deacts > 0 {
		// The Go object of a completed activation is activated again (GrainOf
		// racing the end of a deactivation re-activates the existing process).
		// Not a violation: the documented contract is that initialisation
		// belongs in OnActivate; "fresh" is judged per OnActivate call.
		st.c.Probe("activation-reused-go-object")
	}
	st.nact++
	g.act, g.inRecv, g.inDeact, g.deacts, g.deactPath = st.nact, "", "", 0, ""
	g.name = props.Identity().Name()
	st.s.Ev(Ev{Actor: g.name, Inc: g.act, Kind: "activate-enter"})
	simrt.Yield(-300)
	if st.actWork > 0 {
		simrt.Sleep(-301, st.actWork)
	}
	var err error
	if st.failAct[g.act] {
		err = errors.New("activation refused")
		st.c.Fault("activation-failure")
	}
	st.s.Ev(Ev{Actor: g.name, Inc: g.act, Kind: "activate-exit", Aux: err})
	return err
}

func (g *c31Grain) OnReceive(gc *actor.GrainContext) {
	st := c31Cur
	m, ok := gc.Message().(*c31Msg)
	if !ok {
		gc.Unhandled()
		return
	}
	me := simrt.ThreadID()
	name, act := gc.Self().Name(), g.act
	st.s.Ev(Ev{Actor: name, Inc: act, Kind: "recv-enter", Tag: m.Tag, From: m.From, MSeq: m.Seq})
	switch {
	case act == 0:
		st.c.Fail("receive-before-activate", "grain", "grain %s: OnReceive (tag %d) on an instance whose OnActivate never ran; log tail: %s", name, m.Tag, st.s.Tail(14))
	case g.inDeact != "":
		st.c.Fail("deactivate-overlaps-receive", g.deactPath, "grain %s activation %d: OnReceive (tag %d) entered on goroutine %s while OnDeactivate (%s) is in progress on goroutine %s; log tail: %s", name, act, m.Tag, me, g.deactPath, g.inDeact, st.s.Tail(14))
	case g.deacts > 0:
		st.c.Fail("receive-after-deactivate", g.deactPath, "grain %s activation %d: OnReceive (tag %d) entered after OnDeactivate (%s) of the same activation completed; log tail: %s", name, act, m.Tag, g.deactPath, st.s.Tail(14))
	case g.inRecv != "":
		st.c.Fail("receive-overlap", "grain", "grain %s activation %d: OnReceive (tag %d) entered on goroutine %s while another OnReceive is in progress on goroutine %s; log tail: %s", name, act, m.Tag, me, g.inRecv, st.s.Tail(14))
	}
	g.inRecv = me
	simrt.Yield(-302)
	for i := 0; i < m.Yields; i++ {
		simrt.Yield(-303)
	}
	if m.Work > 0 {
		simrt.Sleep(-304, m.Work)
	}
	g.inRecv = ""
	st.s.Ev(Ev{Actor: name, Inc: act, Kind: "recv-exit", Tag: m.Tag, From: m.From, MSeq: m.Seq})
	if m.Ask {
		gc.Response(&Reply{Tag: m.Tag, From: name, Inc: act})
	} else {
		gc.NoErr()
	}
}

func (g *c31Grain) OnDeactivate(_ context.Context, props *actor.GrainProps) error {
	st := c31Cur
	me := simrt.ThreadID()
	name, act := props.Identity().Name(), g.act
	comp := st.c31Path()
	st.s.Ev(Ev{Actor: name, Inc: act, Kind: "deactivate-enter", Aux: comp})
	switch {
	case g.deacts > 0 || g.inDeact != "":
		st.c.Fail("deactivate-twice", g.deactPath+"+"+comp, "grain %s activation %d: OnDeactivate (%s) entered on goroutine %s although OnDeactivate (%s) already ran or is running (goroutine %q); log tail: %s", name, act, comp, me, g.deactPath, g.inDeact, st.s.Tail(14))
	case g.inRecv != "":
		st.c.Fail("deactivate-overlaps-receive", comp, "grain %s activation %d: OnDeactivate (%s) entered on goroutine %s while OnReceive is in progress on goroutine %s; log tail: %s", name, act, comp, me, g.inRecv, st.s.Tail(14))
	}
	if g.deactPath == "" {
		g.deactPath = comp
	}
	g.inDeact = me
	simrt.Yield(-305)
	simrt.Yield(-305)
	if st.deactWork > 0 {
		simrt.Sleep(-306, st.deactWork)
	}
	g.inDeact = ""
	g.deacts++
	st.s.Ev(Ev{Actor: name, Inc: act, Kind: "deactivate-exit"})
	return nil
}

// c31Grid draws a duration on the grid around the deactivate-after D.
func c31Grid(c *Ctx, D time.Duration) time.Duration {
	switch c.W.Draw(10) {
	case 0, 1:
		return 0
	case 2:
		return time.Millisecond
	case 3:
		return D / 2
	case 4:
		return D - 1
	case 5:
		return D
	case 6:
		return D + 1
	case 7:
		return D + time.Millisecond
	case 8:
		return 2 * D
	default:
		return D - time.Millisecond
	}
}

// c31Work draws a handler duration: mostly shorter than D (a handler that
// outlives D meets the known passivation-direct overlap in every run).
func c31Work(c *Ctx, D time.Duration) time.Duration {
	switch c.W.Draw(12) {
	case 0, 1, 2, 3, 4:
		return 0
	case 5:
		return time.Millisecond
	case 6:
		return D / 2
	case 7:
		return D - time.Millisecond
	case 8:
		return D - 1
	case 9:
		return D
	case 10:
		return D + 1
	default:
		return 2 * D
	}
}

func c31Run(c *Ctx) {
	s := StartSys(c, "c31", sysOpts(c)...)
	st := &c31State{c: c, s: s, D: map[string]time.Duration{}, reentrant: map[string]bool{}, failAct: map[int]bool{}, poison: map[string]int{}}
	c31Cur = st
	c.state = st
	c.Comp = "grain"
	ds := []time.Duration{20 * time.Millisecond, 5 * time.Millisecond, 50 * time.Millisecond, 200 * time.Millisecond}
	ngr := 1 + c.W.Draw(2)
	var descr []string
	for i := 0; i < ngr; i++ {
		n := fmt.Sprintf("g%d", i)
		st.names = append(st.names, n)
		st.D[n] = ds[c.W.Draw(len(ds))]
		st.reentrant[n] = c.W.Draw(3) == 2
		descr = append(descr, fmt.Sprintf("%s:D=%v:reentrant=%v", n, st.D[n], st.reentrant[n]))
	}
	c.Note("grains", descr)
	st.actWork = []time.Duration{0, 0, time.Millisecond, 10 * time.Millisecond}[c.W.Draw(4)]
	st.deactWork = []time.Duration{0, 0, time.Millisecond, 10 * time.Millisecond}[c.W.Draw(4)]
	if c.F.Draw(6) == 5 {
		st.failAct[1+c.F.Draw(4)] = true
	}
	opts := func(n string) []actor.GrainOption {
		o := []actor.GrainOption{actor.WithGrainDeactivateAfter(st.D[n])}
		if st.reentrant[n] {
			o = append(o, actor.WithGrainReentrancy(reentrancy.New(reentrancy.WithMode(reentrancy.AllowAll))))
		}
		return o
	}
	resolve := func(n string) (*actor.GrainIdentity, error) {
		s.Ev(Ev{Actor: n, Kind: "grainof-call"})
		id, err := actor.GrainOf[*c31Grain](s.Ctx, s.Sys, n, opts(n)...)
		s.Ev(Ev{Actor: n, Kind: "grainof-ret", Aux: err})
		return id, err
	}
	ids := map[string]*actor.GrainIdentity{}
	for _, n := range st.names {
		id, err := resolve(n)
		if err != nil {
			// the injected activation failure may hit the very first activation
			// (the retrier makes further attempts; only a give-up lands here)
			c.Probe("initial-activation-failed")
			id, err = resolve(n)
			if err != nil {
				c.Fail("activation-failed", "grain", "GrainOf(%s) failed twice: %v", n, err)
				_ = s.Stop()
				return
			}
		}
		ids[n] = id
	}
	send := func(thread, k int, n string, kind string, m *c31Msg) {
		c.Ops++
		rec := &c31Send{grain: n, kind: kind}
		if m != nil {
			rec.tag = m.Tag
		}
		st.sends = append(st.sends, rec)
		rec.callSeq = s.Ev(Ev{Actor: n, Kind: kind + "-call", Tag: rec.tag, From: thread, MSeq: k})
		var err error
		switch kind {
		case "tell":
			err = s.Sys.TellGrain(s.Ctx, ids[n], m)
		case "ask":
			_, err = s.Sys.AskGrain(s.Ctx, ids[n], m, 5*time.Second)
		case "poison":
			st.poison[n]++
			err = s.Sys.TellGrain(s.Ctx, ids[n], new(actor.PoisonPill))
			st.poison[n]--
		}
		rec.err, rec.returned = err, true
		rec.retSeq = s.Ev(Ev{Actor: n, Kind: kind + "-ret", Tag: rec.tag, From: thread, MSeq: k, Aux: err})
	}
	nthreads := 2 + c.W.Draw(3)
	var fns []func()
	for t := 0; t < nthreads; t++ {
		nops := 3 + c.W.Draw(5)
		fns = append(fns, func() {
			lastWork := time.Duration(0)
			for k := 0; k < nops; k++ {
				n := st.names[c.W.Draw(len(st.names))]
				D := st.D[n]
				gap := c31Grid(c, D)
				if c.W.Draw(4) == 3 && lastWork < D {
					gap = D - lastWork // lands on the deadline that the last handler start armed
				}
				if gap > 0 {
					Sleep(gap)
				}
				if st.stopping {
					return
				}
				switch c.W.Draw(10) {
				case 0, 1, 2, 3, 4, 5:
					m := &c31Msg{Tag: c.Seq(), From: t, Seq: k, Work: c31Work(c, D), Yields: c.W.Draw(3)}
					lastWork = m.Work
					send(t, k, n, "tell", m)
				case 6, 7:
					m := &c31Msg{Tag: c.Seq(), From: t, Seq: k, Work: c31Work(c, D), Yields: c.W.Draw(3), Ask: true}
					lastWork = m.Work
					send(t, k, n, "ask", m)
				case 8:
					c.Fault("poison-pill")
					send(t, k, n, "poison", nil)
				case 9:
					c.Ops++
					_, _ = resolve(n)
				}
			}
		})
	}
	stopEarly := c.W.Draw(4) == 3
	stopDone := false
	if stopEarly {
		delay := time.Duration(c.W.Draw(8)) * 10 * time.Millisecond
		fns = append(fns, func() {
			Sleep(delay)
			c.Fault("stop-during-traffic")
			st.stopping = true
			s.Ev(Ev{Kind: "sys-stop-begin"})
			stopDone = CallTimeout(60*time.Second, func() { _ = s.Stop() })
			s.Ev(Ev{Kind: "sys-stop-end", Aux: stopDone})
		})
	}
	Join(fns...)
	if !stopEarly {
		// let the last deadlines expire, then (sometimes) one more send each: it
		// must reach a fresh activation
		Sleep(250 * time.Millisecond)
		if c.W.Draw(2) == 0 {
			for i, n := range st.names {
				send(9, i, n, "tell", &c31Msg{Tag: c.Seq(), From: 9, Seq: i})
			}
		}
		st.stopping = true
		s.Ev(Ev{Kind: "sys-stop-begin"})
		stopDone = CallTimeout(60*time.Second, func() { _ = s.Stop() })
		s.Ev(Ev{Kind: "sys-stop-end", Aux: stopDone})
	}
	if !stopDone {
		c.Fail("shutdown-stuck", "grain", "ActorSystem.Stop did not return within 60s (simulated) with grains active; log tail: %s", s.Tail(14))
	}
}

// c31Window renders log entries [from, to].
func c31Window(s *Sys, from, to int) string {
	var b strings.Builder
	for _, e := range s.Log {
		if e.Seq >= from && e.Seq <= to {
			b.WriteString(e.String())
			b.WriteString(" | ")
		}
	}
	return b.String()
}

func c31Finish(c *Ctx) {
	st, _ := c.state.(*c31State)
	if st == nil || c.Failed() {
		return
	}
	log := st.s.Log
	type actv struct {
		name                          string
		id                            int
		actExit, actErr               int
		firstRecv, deactEnter         int
		deactExit, deacts, openRecv   int
		failed                        bool
		deactPath                     string
	}
	acts := map[int]*actv{}
	var order []int
	get := func(e Ev) *actv {
		a := acts[e.Inc]
		if a == nil {
			a = &actv{name: e.Actor, id: e.Inc, actExit: -1, firstRecv: -1, deactEnter: -1, deactExit: -1}
			acts[e.Inc] = a
			order = append(order, e.Inc)
		}
		return a
	}
	stopBegin, stopEnd := len(log)+1, len(log)+1
	lastDeactExit := map[string]int{} // grain -> Seq of the latest deactivate-exit so far
	lastDeactAct := map[string]int{}
	type sendInfo struct{ afterDeact, act int }
	sinfo := map[int]*sendInfo{} // by call Seq
	handledBy := map[int]int{}   // tag -> activation
	for _, e := range log {
		comp := ""
		if s, ok := e.Aux.(string); ok {
			comp = s
		}
		switch e.Kind {
		case "sys-stop-begin":
			stopBegin = e.Seq
		case "sys-stop-end":
			stopEnd = e.Seq
		case "activate-exit":
			a := get(e)
			a.actExit = e.Seq
			err, isErr := e.Aux.(error)
			a.failed = isErr && err != nil
		case "recv-enter":
			a := get(e)
			handledBy[e.Tag] = e.Inc
			if a.actExit < 0 || a.failed {
				comp := "during-activation" // OnActivate of this activation has started and not returned
				if a.failed {
					comp = "after-failed-activation"
				}
				c.Fail("receive-before-activate", comp, "grain %s activation %d: OnReceive (tag %d, event #%d) before OnActivate completed successfully; log around it: %s", e.Actor, e.Inc, e.Tag, e.Seq, c31Window(st.s, e.Seq-16, e.Seq+6))
				return
			}
			if a.deactEnter >= 0 {
				cl := "receive-after-deactivate"
				if a.deactExit < 0 {
					cl = "deactivate-overlaps-receive"
				}
				c.Fail(cl, a.deactPath, "grain %s activation %d: OnReceive (tag %d, event #%d) after OnDeactivate (%s) started (event #%d)", e.Actor, e.Inc, e.Tag, e.Seq, a.deactPath, a.deactEnter)
				return
			}
			a.openRecv++
			if a.firstRecv < 0 {
				a.firstRecv = e.Seq
			}
		case "recv-exit":
			get(e).openRecv--
		case "deactivate-enter":
			a := get(e)
			a.deacts++
			if a.deacts > 1 {
				c.Fail("deactivate-twice", a.deactPath+"+"+comp, "grain %s activation %d: OnDeactivate ran %d times", e.Actor, e.Inc, a.deacts)
				return
			}
			if a.openRecv > 0 {
				c.Fail("deactivate-overlaps-receive", comp, "grain %s activation %d: OnDeactivate started (event #%d) while %d OnReceive in progress", e.Actor, e.Inc, e.Seq, a.openRecv)
				return
			}
			a.deactEnter, a.deactPath = e.Seq, comp
		case "deactivate-exit":
			get(e).deactExit = e.Seq
			lastDeactExit[e.Actor] = e.Seq
			lastDeactAct[e.Actor] = e.Inc
		case "tell-call", "ask-call":
			if d, ok := lastDeactExit[e.Actor]; ok {
				sinfo[e.Seq] = &sendInfo{afterDeact: d, act: lastDeactAct[e.Actor]}
			}
		}
	}
	// exactly one OnDeactivate once the system has stopped
	if stopEnd <= len(log) {
		for _, id := range order {
			a := acts[id]
			if a.actExit >= 0 && !a.failed && a.deacts == 0 {
				comp := "grain"
				if a.actExit > stopBegin {
					comp = "activated-during-shutdown"
				}
				c.Fail("deactivate-missing", comp, "grain %s activation %d was activated (event #%d) but OnDeactivate never ran although the actor system has stopped (stop began at event #%d); log tail: %s", a.name, a.id, a.actExit, stopBegin, st.s.Tail(14))
				return
			}
		}
	}
	// sends issued after a completed deactivation reach a fresh activation
	for _, sd := range st.sends {
		if sd.kind == "poison" {
			continue
		}
		info := sinfo[sd.callSeq]
		if info == nil || sd.callSeq > stopBegin || (sd.returned && sd.retSeq > stopBegin) || !sd.returned {
			if sd.err != nil {
				c.Probe("send-failed-outside-clause")
			}
			continue
		}
		// the injected activation failure excuses the sends that ran into it
		// (concurrent senders share one activation attempt)
		excused := sd.err != nil && strings.Contains(sd.err.Error(), "activation refused")
		by, handled := handledBy[sd.tag]
		if handled && by <= info.act {
			c.Fail("receive-after-deactivate", "stale-activation", "send tag %d to %s was issued (event #%d) after OnDeactivate of activation %d returned (event #%d) but was handled by activation %d", sd.tag, sd.grain, sd.callSeq, info.act, info.afterDeact, by)
			return
		}
		if (!handled || sd.err != nil) && !excused {
			ec := "no-error"
			switch {
			case sd.err == nil:
			case errors.Is(sd.err, gerrors.ErrRequestTimeout):
				ec = "timeout"
			case errors.Is(sd.err, gerrors.ErrDead):
				ec = "dead"
			default:
				ec = "other-error"
			}
			// did the send race the deactivation of a later activation?
			for _, id := range order {
				a := acts[id]
				if a.name == sd.grain && a.id > info.act && a.deactEnter >= 0 && a.deactEnter < sd.retSeq && (a.deactExit < 0 || a.deactExit > sd.callSeq) {
					ec += ":raced-next-deactivation"
					break
				}
			}
			if !strings.Contains(ec, ":raced") && log[sd.callSeq].T == log[info.afterDeact].T {
				// issued at the very instant OnDeactivate returned: the tail of
				// deactivate() (map removal, activated=false) was still running
				ec += ":deactivation-tail"
			}
			c.Fail("send-after-deactivation-lost", sd.kind+":"+ec, "send tag %d to %s was issued (event #%d) after OnDeactivate of activation %d returned (event #%d) and before the system stop began, but handled=%v err=%v; log around the send: %s", sd.tag, sd.grain, sd.callSeq, info.act, info.afterDeact, handled, sd.err, c31Window(st.s, sd.callSeq-10, sd.callSeq+12))
			return
		}
		c.Probe("send-after-deactivation-fresh")
	}
}

var c31Real = append([]string{"actor: grain engine (GrainOf, TellGrain/AskGrain local path, activation single-flight), grainPID turn loop, grain mailbox, PoisonPill / passivation pill, passivation manager, poisonAllGrains on system stop"}, sysReal...)

func init() {
	Register(&Scenario{Prop: "C31", Name: "grain-lifecycle", Variants: []string{"stock"}, Quick: 4000, Thorough: 300000,
		EstSteps: 6000, MaxSteps: 400000, MaxIdle: time.Hour, Real: c31Real, Stub: sysStub, Run: c31Run, Finish: c31Finish})
}

package scen

// C34 — membership events are emitted once and only after rebalancing settles.
// The real event machinery of internal/cluster (consume loop, epoch gating,
// de-duplication filters, the 30 s overdue timer) is started over the simulated
// backend and fed generated notification histories; what it emits is compared
// with the clauses of the property statement.

import (
	"context"
	"fmt"
	"time"

	"github.com/tochemey/goakt/v4/zzverif/simcluster"
	"github.com/tochemey/goakt/v4/zzverif/simglue"
)

var c34Real = []string{"internal/cluster.cluster: Start/consume loop, handleClusterEvent, join/left tracking, rebalance-epoch gating, de-duplication filters, overdue NodeLeft timer, Events channel"}
var c34Stub = []string{"olric + memberlist: simulated single-copy backend behind hook H2 publishing the same JSON cluster-event payloads", "wall clock: fake"}

type c34Notif struct {
	At    time.Duration
	Kind  string // join | left | start | complete
	Node  string
	Epoch uint64
	Why   string
}

func c34Run(c *Ctx) {
	b := simglue.EnableCluster(c.F, simcluster.Config{})
	defer simglue.DisableCluster()
	b.AutoEvents = false
	ctx := context.Background()
	self, err := simglue.NewEventNode(ctx, b, "127.0.0.1", 8001)
	if err != nil {
		c.Fail("cluster-start-failed", "cluster", "%v", err)
		return
	}
	npeers := 1 + c.W.Draw(3)
	peers := []string{self.Addr}
	for i := 0; i < npeers; i++ {
		peers = append(peers, fmt.Sprintf("127.0.0.1:%d", 8002+i))
	}
	n := 3 + c.W.Draw(14)
	var hist []c34Notif
	type emitted struct {
		At   time.Duration
		Type string
		Addr string
	}
	var out []emitted
	collect := func() {
		for _, e := range self.Drain() {
			out = append(out, emitted{Now(), e.Type, e.Addr})
		}
	}
	epochs := uint64(1 + c.W.Draw(3))
	for i := 0; i < n; i++ {
		var ev c34Notif
		node := peers[c.W.Draw(len(peers))] // index 0 = the local node itself
		e := 1 + uint64(c.W.Draw(int(epochs)))
		switch c.W.Draw(4) {
		case 0:
			ev = c34Notif{Kind: "left", Node: node}
		case 1:
			ev = c34Notif{Kind: "join", Node: node}
		case 2:
			ev = c34Notif{Kind: "start", Epoch: e, Node: node, Why: []string{"node-left", "node-join"}[c.W.Draw(2)]}
		case 3:
			ev = c34Notif{Kind: "complete", Epoch: e}
		}
		reps := 1
		if c.W.Draw(5) == 4 {
			reps = 2 // duplicate notification
			c.Fault("duplicate-notification")
		}
		for r := 0; r < reps; r++ {
			ev.At = Now()
			hist = append(hist, ev)
			c.Ops++
			switch ev.Kind {
			case "left":
				b.Publish(self.Addr, simcluster.NodeLeft(ev.Node))
			case "join":
				b.Publish(self.Addr, simcluster.NodeJoin(ev.Node))
			case "start":
				b.Publish(self.Addr, simcluster.RebalanceStart(ev.Epoch, ev.Why, ev.Node))
			case "complete":
				b.Publish(self.Addr, simcluster.RebalanceComplete(ev.Epoch))
			}
		}
		switch c.W.Draw(6) {
		case 0:
		case 1, 2:
			Sleep(time.Duration(1+c.W.Draw(50)) * time.Millisecond)
		case 3:
			Sleep(time.Duration(1+c.W.Draw(20)) * time.Second)
		case 4:
			Sleep(31 * time.Second) // across the overdue timeout
			c.Fault("clock-advance-past-overdue-timeout")
		case 5:
			Yield()
		}
		collect()
	}
	Sleep(100 * time.Millisecond)
	collect()
	if c.W.Draw(2) == 1 {
		Sleep(31 * time.Second)
		collect()
	}
	_ = self.Stop(ctx)
	c.Note("peers", peers[1:])
	c.Note("history", fmt.Sprintf("%+v", hist))

	// ---- oracle
	lastType := map[string]string{}
	for _, e := range out {
		if e.Type != "NodeJoined" && e.Type != "NodeLeft" {
			continue
		}
		if e.Addr == self.Addr {
			c.Fail("self-membership-event", e.Type, "the local node %s reported itself as %s at %v; history %+v", self.Addr, e.Type, e.At, hist)
			return
		}
		if lastType[e.Addr] == e.Type {
			c.Fail("membership-event-twice", e.Type, "%s emitted twice for %s without the opposite event in between (second at %v); history %+v emitted %+v", e.Type, e.Addr, e.At, hist, out)
			return
		}
		lastType[e.Addr] = e.Type
		if e.Type == "NodeLeft" {
			// justified by a node-left notification for that node before the emission …
			var leftAt time.Duration = -1
			for _, h := range hist {
				if h.Kind == "left" && h.Node == e.Addr && h.At <= e.At && leftAt < 0 {
					leftAt = h.At
				}
			}
			if leftAt < 0 {
				c.Fail("nodeleft-without-departure", "NodeLeft", "NodeLeft for %s emitted at %v but no node-left notification for it had been received; history %+v", e.Addr, e.At, hist)
				return
			}
			// … and by a completed node-left rebalance epoch, or by the timeout
			started, done := map[uint64]bool{}, false
			for _, h := range hist {
				if h.At > e.At {
					break
				}
				if h.Kind == "start" && h.Why == "node-left" {
					started[h.Epoch] = true
				}
			}
			for _, h := range hist {
				if h.At > e.At {
					break
				}
				if h.Kind == "complete" && started[h.Epoch] {
					done = true
				}
			}
			overdue := false
			for _, h := range hist {
				if h.Kind == "left" && h.Node == e.Addr && e.At-h.At >= 30*time.Second {
					overdue = true
				}
			}
			if !done && !overdue {
				c.Fail("nodeleft-before-rebalance-complete", "NodeLeft", "NodeLeft for %s emitted at %v although no node-left rebalance epoch had both started and completed and the departure (notified at %v) was younger than 30s; history %+v", e.Addr, e.At, leftAt, hist)
				return
			}
			c.Probe("nodeleft-emitted")
			if overdue && !done {
				c.Probe("nodeleft-by-overdue-timeout")
			}
		} else {
			c.Probe("nodejoined-emitted")
		}
	}
}

func init() {
	Register(&Scenario{Prop: "C34", Name: "membership-events", Quick: 4000, Thorough: 400000,
		EstSteps: 1500, MaxSteps: 400000, MaxIdle: time.Hour, Real: c34Real, Stub: c34Stub, Run: c34Run})
}

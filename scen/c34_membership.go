package scen

// C34 — membership events are emitted once and only after rebalancing settles.
//
// The real event machinery of internal/cluster (Start, the consume loop,
// handleClusterEvent, join/left tracking, rebalance-epoch gating, the
// de-duplication filters, the 30 s overdue NodeLeft timer and its AfterFunc
// callback thread, the Events channel) runs over the simulated backend and is
// fed generated notification histories by 1–3 concurrent publisher threads;
// a collector thread reads Events() and stamps every emission with the fake
// clock. The oracle is a reference model written from the property statement.
//
// Generated domain (and why):
//   * 1–3 peers, 1–3 rebalance epochs. An epoch id is bound to one reason and
//     one node for the whole run: olric publishes exactly one start event per
//     routing-table signature, so every copy of a start notification is an
//     identical duplicate (a start for the same epoch with two different
//     reasons cannot exist).
//   * join / left / rebalance-start / rebalance-complete in any order, with
//     immediate and late duplicates (olric: every member publishes its own
//     copy of a join/left observation, asynchronously), completions without
//     starts, starts without completions, re-joins after leaving.
//   * self-addressed join and node-join rebalance notifications (olric really
//     delivers them to the joining node; the code filters them).
//   * self-addressed node-LEFT notifications only in a quarter of the runs
//     (selfLeft below): a member's own routing table never publishes them
//     (olric internal/discovery/events.go:handleEvent skips the local member)
//     and a peer publishes NodeLeft(X) only to the members alive in its
//     memberlist, which normally excludes X. It is still reachable: a false
//     failure detection of X that X refutes (memberlist flap) while the
//     peer's routing-table event loop is lagging (listenClusterEvents handles
//     events one by one and pushes routing tables in between) makes the
//     asynchronous publishNodeLeftEvent(X) take its member snapshot when X is
//     alive again, so X receives NodeLeft(X). goakt has no self filter on that
//     path (it has one for joins) — see known_findings.jsonl.
//   * clock advances on a grid that contains every overdue deadline
//     (first notification of a departure + 30 s) −1 ns, +0, +1 ns, so that a
//     publisher thread, the consume loop and the AfterFunc callback race at
//     the timeout instant.
//
// Reading of the statement used by the oracle ("never more than the
// statement"): "until the opposite event" is taken in the most permissive
// sense — the budget of one NodeJoined per arrival is renewed by a node-left
// NOTIFICATION for that node as well as by an EMITTED NodeLeft for it (and
// symmetrically for NodeLeft). Strict alternation of the emitted stream is not
// demanded: NodeLeft is deferred by design, so "NodeJoined, NodeJoined" with a
// departure notified in between is legal output.
// "The rebalance epoch covering it": olric runs one rebalance epoch at a time
// and a newer start supersedes the older one (which then never completes), so
// the epoch covering a pending departure is the node-left epoch started most
// recently at the time of the emission (cluster.go assignLeftEpochLocked:
// "avoid emitting on superseded epochs"). "Its timeout": 30 s after the first
// notification of that departure.

import (
	"context"
	"fmt"
	"sort"
	"strings"
	"time"

	"github.com/tochemey/goakt/v4/zzverif/simcluster"
	"github.com/tochemey/goakt/v4/zzverif/simglue"
)

var c34Real = []string{"internal/cluster.cluster: Start/Stop, consume loop, handleClusterEvent (JSON decoding), join/left tracking, rebalance-epoch assignment and gating, de-duplication filters, overdue NodeLeft timer (time.AfterFunc callback thread), Events channel"}
var c34Stub = []string{"olric + memberlist: simulated backend behind hook H2 delivering the same JSON cluster-event payloads (events.NodeJoinEvent/NodeLeftEvent/RebalanceStartEvent/RebalanceCompleteEvent) on the cluster.events channel", "the notification history itself: generated, not produced by a real membership protocol", "wall clock: fake"}

const c34Timeout = 30 * time.Second // the documented overdue bound (cluster.go nodeLeftEmitTimeout)

type c34Notif struct {
	At     time.Duration
	Kind   string // join | left | start | complete
	Node   string
	Epoch  uint64
	Why    string
	Thread int
}

func (n c34Notif) String() string {
	switch n.Kind {
	case "start":
		return fmt.Sprintf("%v start(e%d,%s,%s)", n.At, n.Epoch, n.Why, c34Short(n.Node))
	case "complete":
		return fmt.Sprintf("%v complete(e%d)", n.At, n.Epoch)
	}
	return fmt.Sprintf("%v %s(%s)", n.At, n.Kind, c34Short(n.Node))
}

type c34Emit struct {
	At   time.Duration
	Type string
	Addr string
}

func (e c34Emit) String() string { return fmt.Sprintf("%v %s(%s)", e.At, e.Type, c34Short(e.Addr)) }

func c34Short(addr string) string {
	if i := strings.LastIndexByte(addr, ':'); i >= 0 {
		return addr[i+1:]
	}
	return addr
}

func c34Hist(h []c34Notif) string {
	s := make([]string, len(h))
	for i := range h {
		s[i] = h[i].String()
	}
	return "[" + strings.Join(s, "; ") + "]"
}

func c34Out(o []c34Emit) string {
	s := make([]string, len(o))
	for i := range o {
		s[i] = o[i].String()
	}
	return "[" + strings.Join(s, "; ") + "]"
}

type c34Item struct {
	At     time.Duration
	Thread int
	Reps   int
	N      c34Notif
}

func c34Run(c *Ctx) {
	c.Comp = "cluster-events"
	b := simglue.EnableCluster(c.F, simcluster.Config{})
	defer simglue.DisableCluster()
	b.AutoEvents = false
	ctx := context.Background()
	self, err := simglue.NewEventNode(ctx, b, "127.0.0.1", 8001)
	if err != nil {
		c.Fail("cluster-start-failed", "cluster", "%v", err)
		return
	}

	// ---- collector thread: every emission with the simulated instant it was emitted at
	var out []c34Emit
	collDone := false
	next := self.EventStream()
	Go(func() {
		for {
			e, ok := next()
			if !ok {
				collDone = true
				return
			}
			out = append(out, c34Emit{At: Now(), Type: e.Type, Addr: e.Addr})
		}
	})

	// ---- the generated case
	npeers := 1 + c.W.Draw(3)
	nep := 1 + c.W.Draw(3)
	nthreads := 1 + c.W.Draw(3)
	selfLeft := c.W.Draw(4) == 3  // self-addressed node-left notifications (see the header)
	selfOther := c.W.Draw(3) == 2 // self-addressed join / rebalance-start notifications
	var peers []string
	for i := 0; i < npeers; i++ {
		peers = append(peers, fmt.Sprintf("127.0.0.1:%d", 8002+i))
	}
	pickNode := func(allowSelf bool) string {
		n := peers[c.W.Draw(npeers)]
		if allowSelf && c.W.Draw(4) == 3 {
			n = self.Addr
		}
		return n
	}
	type epochDef struct {
		why  string
		node string
	}
	epochs := make([]epochDef, nep)
	for i := range epochs {
		epochs[i].why = []string{"node-left", "node-join"}[c.W.Draw(2)]
		epochs[i].node = pickNode(selfOther)
	}
	nitems := 3 + c.W.Draw(18)
	var plan []c34Item
	var deadlines []time.Duration // first notification of each departure + 30 s
	lastKind := map[string]string{}
	t := time.Duration(0)
	forceGrid := false // the next free-standing notification goes to an overdue deadline
	// add appends one notification (1–3 copies) to the plan; inEpisode keeps it
	// close to the previous one, otherwise the gap comes from a grid that
	// contains the overdue deadlines.
	add := func(n c34Notif, inEpisode bool) {
		it := c34Item{Thread: c.W.Draw(nthreads), Reps: 1, N: n}
		switch r := c.W.Draw(6); r {
		case 4:
			it.Reps = 2
		case 5:
			it.Reps = 3
		}
		g := c.W.Draw(12)
		if inEpisode {
			g %= 7
		} else if forceGrid {
			g, forceGrid = 9, false
		}
		switch g {
		case 0, 1, 2: // same instant as the previous notification (races between publisher threads)
		case 3, 4, 5:
			t += time.Duration(1+c.W.Draw(50)) * time.Millisecond
		case 6:
			t++ // 1 ns
		case 7, 8:
			t += time.Duration(1+c.W.Draw(20)) * time.Second
		case 9, 10: // an overdue deadline −1 ns / +0 / +1 ns
			var cands []time.Duration
			for _, d := range deadlines {
				if d+1 >= t {
					cands = append(cands, d)
				}
			}
			if len(cands) == 0 {
				t += c34Timeout
				break
			}
			target := cands[c.W.Draw(len(cands))] + []time.Duration{0, -1, 1}[c.W.Draw(3)]
			if target > t {
				t = target
			}
			c.Fault("notification-at-overdue-deadline")
		case 11:
			t += c34Timeout + time.Duration(c.W.Draw(2))*time.Second
			c.Fault("clock-advance-past-overdue-timeout")
		}
		it.At = t
		if n.Kind == "left" && lastKind[n.Node] != "left" {
			deadlines = append(deadlines, t+c34Timeout)
		}
		if n.Kind == "left" || n.Kind == "join" {
			lastKind[n.Node] = n.Kind
		}
		plan = append(plan, it)
	}
	startOf := func(e int) c34Notif {
		return c34Notif{Kind: "start", Epoch: uint64(e + 1), Why: epochs[e].why, Node: epochs[e].node}
	}
	// epochFor draws an epoch, preferring one bound to the wanted reason
	epochFor := func(why string) int {
		var m []int
		for i := range epochs {
			if epochs[i].why == why {
				m = append(m, i)
			}
		}
		if len(m) == 0 {
			return c.W.Draw(nep)
		}
		return m[c.W.Draw(len(m))]
	}
	for len(plan) < nitems {
		switch k := c.W.Draw(13); {
		case k <= 2:
			add(c34Notif{Kind: "left", Node: pickNode(selfLeft)}, false)
		case k <= 4:
			add(c34Notif{Kind: "join", Node: pickNode(selfOther)}, false)
		case k <= 6:
			add(startOf(c.W.Draw(nep)), false)
		case k <= 8:
			add(c34Notif{Kind: "complete", Epoch: uint64(c.W.Draw(nep) + 1)}, false)
		case k == 9: // late duplicate / reordered copy of an earlier notification
			if len(plan) == 0 {
				add(c34Notif{Kind: "left", Node: peers[0]}, false)
			} else {
				add(plan[c.W.Draw(len(plan))].N, false)
				c.Fault("late-duplicate-notification")
			}
		case k == 12: // a node that left comes back and leaves again, a new node-left epoch starts; next stop: an overdue deadline
			var gone []string
			for _, p := range peers {
				if lastKind[p] == "left" {
					gone = append(gone, p)
				}
			}
			if len(gone) == 0 {
				add(c34Notif{Kind: "left", Node: pickNode(false)}, false)
				break
			}
			x := gone[c.W.Draw(len(gone))]
			add(c34Notif{Kind: "join", Node: x}, false)
			if c.W.Draw(2) == 0 {
				add(startOf(epochFor("node-left")), true)
			}
			add(c34Notif{Kind: "left", Node: x}, true)
			forceGrid = true
			c.Probe("episode-bounce")
		default: // an episode as olric produces it: membership change, rebalance start, (mostly) its completion
			kind, why := "left", "node-left"
			if k == 11 {
				kind, why = "join", "node-join"
			}
			e := epochFor(why)
			seq := []c34Notif{{Kind: kind, Node: pickNode(false)}, startOf(e)}
			if c.W.Draw(3) != 2 {
				seq = append(seq, c34Notif{Kind: "complete", Epoch: uint64(e + 1)})
			}
			if c.W.Draw(4) == 3 { // the asynchronous publications overtake each other
				i := c.W.Draw(len(seq))
				seq[0], seq[i] = seq[i], seq[0]
			}
			for i, n := range seq {
				add(n, i > 0)
			}
			c.Probe("episode-" + kind)
		}
	}

	// ---- publisher threads
	var hist []c34Notif
	publish := func(th int, n c34Notif) {
		n.At, n.Thread = Now(), th
		hist = append(hist, n)
		c.Ops++
		switch n.Kind {
		case "left":
			b.Publish(self.Addr, simcluster.NodeLeft(n.Node))
		case "join":
			b.Publish(self.Addr, simcluster.NodeJoin(n.Node))
		case "start":
			b.Publish(self.Addr, simcluster.RebalanceStart(n.Epoch, n.Why, n.Node))
		case "complete":
			b.Publish(self.Addr, simcluster.RebalanceComplete(n.Epoch))
		}
	}
	var drivers []func()
	for th := 0; th < nthreads; th++ {
		drivers = append(drivers, func() {
			for _, it := range plan {
				if it.Thread != th {
					continue
				}
				if d := it.At - Now(); d > 0 {
					Sleep(d)
				} else {
					Yield()
				}
				for r := 0; r < it.Reps; r++ {
					if r > 0 {
						c.Fault("duplicate-notification")
						Yield()
					}
					publish(th, it.N)
				}
			}
		})
	}
	Join(drivers...)

	// ---- tail: let the consume loop drain; optionally run every pending overdue timer
	Sleep(time.Millisecond)
	switch c.W.Draw(3) {
	case 1:
		var last time.Duration
		for _, d := range deadlines {
			if d > last {
				last = d
			}
		}
		if d := last + 1 - Now(); d > 0 {
			Sleep(d)
		}
	case 2:
		Sleep(c34Timeout + time.Second)
	}
	_ = self.Stop(ctx)
	if !WaitUntil(time.Millisecond, time.Second, func() bool { return collDone }) {
		c.Fail("events-channel-not-closed", "cluster", "Stop returned but the Events() channel was not closed")
		return
	}
	c.Note("peers", peers)
	c.Note("history", c34Hist(hist))
	c.Note("emitted", c34Out(out))
	c34Oracle(c, self.Addr, peers, hist, out)
}

// c34Covered reports, for the first n notifications of the history, whether the
// node-left rebalance epoch started most recently has completed (covered) and
// whether any node-left epoch has both started and completed (some).
func c34Covered(hist []c34Notif, n int) (covered, some bool) {
	started := map[uint64]bool{}
	var latest uint64
	for _, h := range hist[:n] {
		if h.Kind == "start" && h.Why == "node-left" && !started[h.Epoch] {
			started[h.Epoch] = true
			latest = h.Epoch
		}
	}
	for _, h := range hist[:n] {
		if h.Kind == "complete" && started[h.Epoch] {
			some = true
			if h.Epoch == latest {
				covered = true
			}
		}
	}
	return
}

// c34Oracle is the reference model. Time comparisons are inclusive wherever the
// order of two things inside one simulated instant cannot be observed from
// outside, so every tie is resolved in favour of the implementation.
func c34Oracle(c *Ctx, self string, peers []string, hist []c34Notif, out []c34Emit) {
	known := map[string]bool{self: true}
	for _, p := range peers {
		known[p] = true
	}
	for _, p := range peers {
		// "occurrences" of one side: notifications of kind `kind` for p that open a
		// new arrival/departure, i.e. the first one, or one with an opposite event
		// (an opposite notification or an opposite emission) since the previous
		// notification of the same kind.
		occurrences := func(kind, oppositeKind, oppositeType string) []time.Duration {
			var occ []time.Duration
			prev := -1
			for i, h := range hist {
				if h.Kind != kind || h.Node != p {
					continue
				}
				renewed := prev < 0
				if !renewed {
					for _, m := range hist[prev+1 : i] {
						if m.Kind == oppositeKind && m.Node == p {
							renewed = true
						}
					}
					for _, e := range out {
						if e.Type == oppositeType && e.Addr == p && e.At >= hist[prev].At && e.At <= h.At {
							renewed = true
						}
					}
				}
				if renewed {
					occ = append(occ, h.At)
				}
				prev = i
			}
			return occ
		}
		arrivals := occurrences("join", "left", "NodeLeft")
		departures := occurrences("left", "join", "NodeJoined")
		countUpTo := func(ts []time.Duration, t time.Duration) int {
			n := 0
			for _, x := range ts {
				if x <= t {
					n++
				}
			}
			return n
		}

		// at most one NodeJoined per arrival, one NodeLeft per departure
		nj, nl := 0, 0
		type leftEm struct {
			at      time.Duration
			thresh  time.Duration // latest first-notification time of a departure that justifies this emission
			covered bool
			some    bool
		}
		var lefts []leftEm
		for _, e := range out {
			if e.Addr != p {
				continue
			}
			switch e.Type {
			case "NodeJoined":
				nj++
				c.Probe("nodejoined-emitted")
				if nj > 1 {
					c.Probe("nodejoined-again-for-a-later-arrival")
				}
				if have := countUpTo(arrivals, e.At); nj > have {
					if have == 0 {
						c.Fail("nodejoined-without-arrival", "NodeJoined", "NodeJoined for %s emitted at %v but no node-join notification for it had been delivered; history %s emitted %s", p, e.At, c34Hist(hist), c34Out(out))
					} else {
						c.Fail("membership-event-twice", "NodeJoined", "NodeJoined #%d for %s emitted at %v, but only %d arrival(s) of it had been notified by then (no node-left notification and no emitted NodeLeft for it since the previous node-join notification); history %s emitted %s", nj, p, e.At, have, c34Hist(hist), c34Out(out))
					}
					return
				}
			case "NodeLeft":
				nl++
				c.Probe("nodeleft-emitted")
				if have := countUpTo(departures, e.At); nl > have {
					if have == 0 {
						c.Fail("nodeleft-without-departure", "NodeLeft", "NodeLeft for %s emitted at %v but no node-left notification for it had been delivered; history %s emitted %s", p, e.At, c34Hist(hist), c34Out(out))
					} else {
						c.Fail("membership-event-twice", "NodeLeft", "NodeLeft #%d for %s emitted at %v, but only %d departure(s) of it had been notified by then (no node-join notification and no emitted NodeJoined for it since the previous node-left notification); history %s emitted %s", nl, p, e.At, have, c34Hist(hist), c34Out(out))
					}
					return
				}
				// which notifications had been handled when this was emitted: every one
				// delivered before the instant, and some prefix of those delivered in it
				lo, hi := 0, 0
				for _, h := range hist {
					if h.At < e.At {
						lo++
					}
					if h.At <= e.At {
						hi++
					}
				}
				le := leftEm{at: e.At}
				for n := lo; n <= hi; n++ {
					cov, some := c34Covered(hist, n)
					le.covered = le.covered || cov
					le.some = le.some || some
				}
				if le.covered {
					le.thresh = e.At
					c.Probe("nodeleft-after-epoch-complete")
				} else {
					le.thresh = e.At - c34Timeout
					c.Probe("nodeleft-without-covering-epoch")
				}
				lefts = append(lefts, le)
			}
		}
		// epoch gating: match every NodeLeft with its own departure (smallest
		// threshold takes the earliest departure — acceptance sets are nested, so
		// this finds a matching whenever one exists)
		sorted := append([]leftEm(nil), lefts...)
		sort.SliceStable(sorted, func(i, j int) bool { return sorted[i].thresh < sorted[j].thresh })
		feasible := true
		for j, le := range sorted {
			if j >= len(departures) {
				break // already reported by the counting clause
			}
			if departures[j] > le.thresh {
				feasible = false
				break
			}
			if !le.covered {
				c.Probe("nodeleft-by-overdue-timeout")
				if le.at-departures[j] == c34Timeout {
					c.Probe("nodeleft-exactly-at-overdue-deadline")
				}
			}
		}
		if !feasible {
			// no assignment of departures justifies every NodeLeft; blame the first
			// emission that the in-order assignment (k-th NodeLeft, k-th departure)
			// cannot justify
			blame, dep := sorted[0], departures[0]
			for j, le := range lefts {
				if j < len(departures) && departures[j] > le.thresh {
					blame, dep = le, departures[j]
					break
				}
			}
			if blame.some {
				c.Fail("nodeleft-while-newer-epoch-pending", "NodeLeft", "NodeLeft for %s emitted at %v: the node-left rebalance epoch started most recently had not completed (only a superseded one had) and the departure it belongs to (first notified at %v) was only %v old (< 30s); departures of it first notified at %v; history %s emitted %s", p, blame.at, dep, blame.at-dep, departures, c34Hist(hist), c34Out(out))
			} else {
				c.Fail("nodeleft-before-rebalance-complete", "NodeLeft", "NodeLeft for %s emitted at %v although no node-left rebalance epoch had both started and completed and the departure it belongs to (first notified at %v) was only %v old (< 30s); departures of it first notified at %v; history %s emitted %s", p, blame.at, dep, blame.at-dep, departures, c34Hist(hist), c34Out(out))
			}
			return
		}
	}
	// the local node never reports itself; nothing about nodes nobody mentioned
	for _, e := range out {
		if e.Type != "NodeJoined" && e.Type != "NodeLeft" {
			continue
		}
		if !known[e.Addr] {
			c.Fail("membership-event-unknown-node", e.Type, "%s emitted for %q which no notification named; history %s emitted %s", e.Type, e.Addr, c34Hist(hist), c34Out(out))
			return
		}
		if e.Addr == self {
			c.Fail("self-membership-event", e.Type, "the local node %s reported itself as %s at %v; history %s emitted %s", self, e.Type, e.At, c34Hist(hist), c34Out(out))
			return
		}
	}
}

func init() {
	Register(&Scenario{Prop: "C34", Name: "membership-events", Quick: 8000, Thorough: 800000,
		EstSteps: 200, MaxSteps: 400000, MaxIdle: time.Hour, Real: c34Real, Stub: c34Stub, Run: c34Run})
}

package scen

// C47 — the circuit breaker follows its state machine (engine F: the real
// breaker.CircuitBreaker on the fake clock, driven by harness caller threads).
//
// Every Execute contributes two operations to the history (DESIGN.md §7 C47):
// *admit* (Execute invoked … user function entered, or Execute returned ErrOpen)
// and *record* (user function returned … Execute returned). Nested calls (the
// user function calls Execute again) and other threads' calls in between are
// how probes overlap. Every operation carries the fake time at which it ran
// (the clock cannot move inside admit or record: they never sleep).
//
// Reference state machine, from the property statement and the option docs:
//   - closed: every call is admitted;
//   - open: every call is rejected while now < openUntil (= time of the opening
//     record + open timeout); the first call at or after openUntil turns the
//     breaker half-open (fresh window) and is treated as a half-open call;
//   - half-open: a call is admitted iff fewer than HalfOpenMaxCalls admitted
//     probes are still running;
//   - a record adds the outcome to the rolling window (n buckets of
//     window/n, aligned at the last reset) and then: total ≥ MinRequests and
//     failures/total ≥ FailureRate opens the breaker (unless already open);
//     otherwise total ≥ MinRequests closes a half-open breaker (fresh window);
//     a call cancelled by its caller records nothing (documented at Execute).
//
// One caller thread: the history is sequential and is replayed against the
// model operation by operation (exact verdict, precise class). Several threads:
// the history is checked with porcupine against the same model.

import (
	"context"
	"errors"
	"fmt"
	"sort"
	"strings"
	"time"

	"github.com/anishathalye/porcupine"

	"github.com/tochemey/goakt/v4/breaker"
)

const (
	brClosed = iota
	brOpen
	brHalf
)

var brStateNames = []string{"closed", "open", "half-open"}

const (
	brAdmit = iota
	brRecord
	brStateOp
	brMetricsOp
	brAdmitPart
	brRecPart
)

const (
	brNone = iota // nothing recorded (caller cancelled)
	brSucc
	brFail
)

type brIn struct {
	Op      int
	Call    int32
	Outcome int
	Now     int64
	Stage   int8 // step of a split operation (brAdmitPart, brRecPart)
}

type brOut struct {
	Admitted   bool
	State      int
	Succ, Fail uint64
}

type brCfg struct {
	thrP, thrQ uint64 // failure-rate threshold as a fraction
	minReq     uint64
	timeout    int64
	window     int64
	buckets    int
	bucketDur  int64
	maxProbes  int
	seq        bool // single caller thread: Metrics().State is read atomically with the counts
}

type brBucket struct {
	Start int64
	S, F  uint32
}

// brSt is the (comparable) model state.
type brSt struct {
	St        int8
	OpenUntil int64
	NP        int8
	Probes    [8]int32 // ids of admitted probes still running, ascending
	Last      int64    // start of the current bucket
	NW        int8
	Win       [8]brBucket // non-empty buckets inside the window, ascending start
	NPend     int8
	Pend      [8]brPendDec // split operations whose first half has happened
}

type brPendDec struct {
	Id   int32
	Dec  int8
	Next int8
}

func (s *brSt) resetWindow(now int64) { s.NW, s.Win, s.Last = 0, [8]brBucket{}, now }

// advance moves the window to now: whole buckets that slid out are dropped; a
// window that went completely stale is re-aligned at now.
func (s *brSt) advance(cfg *brCfg, now int64) (realigned bool) {
	el := now - s.Last
	if el < cfg.bucketDur {
		return false
	}
	steps := el / cfg.bucketDur
	if steps >= int64(cfg.buckets) {
		s.resetWindow(now)
		return true
	}
	s.Last += steps * cfg.bucketDur
	oldest := s.Last - int64(cfg.buckets-1)*cfg.bucketDur
	var w [8]brBucket
	n := int8(0)
	for i := int8(0); i < s.NW; i++ {
		if s.Win[i].Start >= oldest {
			w[n] = s.Win[i]
			n++
		}
	}
	s.Win, s.NW = w, n
	return false
}

func (s *brSt) add(succ bool) {
	if s.NW == 0 || s.Win[s.NW-1].Start != s.Last {
		s.Win[s.NW] = brBucket{Start: s.Last}
		s.NW++
	}
	if succ {
		s.Win[s.NW-1].S++
	} else {
		s.Win[s.NW-1].F++
	}
}

func (s *brSt) totals() (succ, fail uint64) {
	for i := int8(0); i < s.NW; i++ {
		succ += uint64(s.Win[i].S)
		fail += uint64(s.Win[i].F)
	}
	return
}

func (s *brSt) addProbe(id int32) {
	if int(s.NP) >= len(s.Probes) {
		return
	}
	i := s.NP
	for i > 0 && s.Probes[i-1] > id {
		s.Probes[i] = s.Probes[i-1]
		i--
	}
	s.Probes[i] = id
	s.NP++
}

func (s *brSt) dropProbe(id int32) {
	for i := int8(0); i < s.NP; i++ {
		if s.Probes[i] == id {
			copy(s.Probes[i:], s.Probes[i+1:s.NP])
			s.NP--
			s.Probes[s.NP] = 0
			return
		}
	}
}

func (s brSt) String() string {
	su, fa := s.totals()
	str := fmt.Sprintf("%s window=%d/%d(s/f) probes-running=%d", brStateNames[s.St], su, fa, s.NP)
	if s.St == brOpen {
		str += fmt.Sprintf(" openUntil=%d", s.OpenUntil)
	}
	return str
}

// decisions carried between the steps of an operation
const (
	brDNone        = iota
	brDAdmit       // admit: the breaker was seen closed
	brDSawOpen     // admit: the breaker was seen open (openUntil not compared yet)
	brDReject      // admit: ... and now < openUntil
	brDGoHalf      // admit: ... and now ≥ openUntil
	brDGoHalfStore // admit: window reset for the switch to half-open, state not stored yet
	brDSem         // admit: the breaker was seen half-open
	brDSemFresh    // admit: this call switched the breaker to half-open
	brDOpen        // record: the window reached the threshold
	brDOpenStore   // record: openUntil set, state not stored yet
	brDCloseIf     // record: enough samples below the threshold (closes the breaker if it is seen half-open)
	brDCloseNow    // record: ... and it was seen half-open
	brDCloseStore  // record: window reset for closing, state not stored yet
	brDNoChange    // record: nothing (more) to change
)

const (
	brAdmitStages = 5
	brRecStages   = 5
)

func (s *brSt) pendIdx(id int32) int {
	for i := 0; i < int(s.NPend); i++ {
		if s.Pend[i].Id == id {
			return i
		}
	}
	return -1
}

func (s *brSt) dropPend(i int) {
	copy(s.Pend[i:], s.Pend[i+1:s.NPend])
	s.NPend--
	s.Pend[s.NPend] = brPendDec{}
}

// admitStage runs one step of an admission: 0 read the state; 1 compare
// openUntil; 2 reset the window for the switch to half-open; 3 store half-open;
// 4 take a probe slot and judge the observed output.
func (s *brSt) admitStage(cfg *brCfg, stage, dec int8, in brIn, out brOut, relax string) (ndec int8, class, why, ev string) {
	switch stage {
	case 0:
		switch s.St {
		case brClosed:
			return brDAdmit, "", "", ""
		case brOpen:
			return brDSawOpen, "", "", ""
		}
		return brDSem, "", "", ""
	case 1:
		if dec == brDSawOpen {
			if in.Now < s.OpenUntil {
				ev = "rejected-open"
				if s.OpenUntil-in.Now == 1 {
					ev = "rejected-1ns-before-open-until"
				}
				return brDReject, "", "", ev
			}
			ev = "half-open-entered"
			if in.Now == s.OpenUntil {
				ev = "half-open-entered-at-open-until"
			}
			return brDGoHalf, "", "", ev
		}
		return dec, "", "", ""
	case 2:
		if dec == brDGoHalf {
			if s.St == brHalf {
				return brDSem, "", "", ""
			}
			s.resetWindow(in.Now)
			return brDGoHalfStore, "", "", ""
		}
		return dec, "", "", ""
	case 3:
		if dec == brDGoHalfStore {
			s.St = brHalf
			return brDSemFresh, "", "", ""
		}
		return dec, "", "", ""
	}
	tolerated := func() bool { return relax == class }
	switch dec {
	case brDAdmit:
		if !out.Admitted {
			class, why = "rejected-while-closed", fmt.Sprintf("call %d was rejected with ErrOpen at t=%d while the breaker was closed (%s)", in.Call, in.Now, *s)
			if !tolerated() {
				return dec, class, why, ""
			}
		}
		return dec, "", "", ""
	case brDReject:
		if !out.Admitted {
			return dec, "", "", ""
		}
		class, why = "admitted-while-open", fmt.Sprintf("call %d was admitted at t=%d while the breaker was open until t=%d (%dns early)", in.Call, in.Now, s.OpenUntil, s.OpenUntil-in.Now)
		if !tolerated() {
			return dec, class, why, ""
		}
		// tolerated: continue as if the timeout had passed
		if s.St != brHalf {
			s.St = brHalf
			s.resetWindow(in.Now)
		}
	}
	free := int(s.NP) < cfg.maxProbes
	switch {
	case out.Admitted && !free:
		class, why = "probe-quota-exceeded", fmt.Sprintf("call %d was admitted at t=%d while half-open with %d probes still running (HalfOpenMaxCalls=%d)", in.Call, in.Now, s.NP, cfg.maxProbes)
		if !tolerated() {
			return dec, class, why, ""
		}
		s.addProbe(in.Call)
	case out.Admitted:
		s.addProbe(in.Call)
		ev = "probe-admitted"
	case free:
		class = "probe-rejected-with-free-quota"
		if dec == brDSemFresh {
			class = "rejected-after-open-timeout"
		}
		why = fmt.Sprintf("call %d was rejected with ErrOpen at t=%d although the breaker was half-open with %d of %d probes running (open timeout just over: %v)", in.Call, in.Now, s.NP, cfg.maxProbes, dec == brDSemFresh)
		if !tolerated() {
			return dec, class, why, ""
		}
	default:
		ev = "rejected-probe-quota"
	}
	return dec, "", "", ev
}

// recStage runs one step of a record: 0 the outcome enters the window and the
// totals are evaluated; 1 a record that found enough samples below the
// threshold reads the state (it closes only a half-open breaker); 2 openUntil is
// set / the window is reset for closing; 3 the new state is stored; 4 the probe
// slot is freed.
func (s *brSt) recStage(cfg *brCfg, stage, dec int8, in brIn) (ndec int8, ev string) {
	switch stage {
	case 0:
		if in.Outcome == brNone {
			return brDNoChange, "cancelled-call-not-recorded"
		}
		el := in.Now - s.Last
		if s.advance(cfg, in.Now) {
			ev = "window-stale-realigned"
			if el == int64(cfg.buckets)*cfg.bucketDur {
				ev = "window-stale-realigned-at-exact-instant"
			}
		} else if el >= cfg.bucketDur && el%cfg.bucketDur == 0 {
			ev = "record-at-bucket-boundary"
		} else if el%cfg.bucketDur == cfg.bucketDur-1 {
			ev = "record-1ns-before-bucket-boundary"
		}
		s.add(in.Outcome == brSucc)
		su, fa := s.totals()
		tot := su + fa
		switch {
		case tot < cfg.minReq:
			return brDNoChange, ev
		case fa*cfg.thrQ >= cfg.thrP*tot:
			return brDOpen, ev
		}
		return brDCloseIf, ev
	case 1:
		if dec == brDCloseIf {
			if s.St == brHalf {
				return brDCloseNow, ""
			}
			return brDNoChange, ""
		}
	case 2:
		switch dec {
		case brDOpen:
			if s.St == brOpen {
				return brDNoChange, "failure-recorded-while-open"
			}
			s.OpenUntil = in.Now + cfg.timeout
			return brDOpenStore, []string{"opened", "", "reopened-from-half-open"}[s.St]
		case brDCloseNow:
			if s.St == brClosed {
				return brDNoChange, ""
			}
			s.resetWindow(in.Now)
			return brDCloseStore, "closed-from-half-open"
		}
	case 3:
		switch dec {
		case brDOpenStore:
			s.St = brOpen
			return brDNoChange, ""
		case brDCloseStore:
			s.St = brClosed
			return brDNoChange, ""
		}
	case 4:
		s.dropProbe(in.Call)
	}
	return dec, ""
}

// brStep applies one operation to the model. class == "" when the observed
// output is what the state machine demands; relax names one class whose
// mismatches are tolerated (used only to name a concurrent failure, never to
// accept one). ev lists the model events, for coverage probes.
//
// brAdmit and brRecord are the atomic operations of the reference state machine:
// all their steps run back to back on one state. brAdmitPart / brRecPart are
// single steps of the same operations, cut where the implementation leaves its
// critical sections; they serve only to name a history that the atomic model
// rejects: a decision taken on what a caller saw, applied after other callers
// moved on.
func brStep(cfg *brCfg, s brSt, in brIn, out brOut, relax string) (next brSt, class, why, ev string) {
	addEv := func(e string) {
		if e != "" {
			if ev != "" {
				ev += ","
			}
			ev += e
		}
	}
	switch in.Op {
	case brAdmit:
		dec := int8(brDNone)
		for st := int8(0); st < brAdmitStages; st++ {
			var e string
			dec, class, why, e = s.admitStage(cfg, st, dec, in, out, relax)
			addEv(e)
			if class != "" {
				return s, class, why, ""
			}
		}
		return s, "", "", ev
	case brRecord:
		dec := int8(brDNone)
		for st := int8(0); st < brRecStages; st++ {
			var e string
			dec, e = s.recStage(cfg, st, dec, in)
			addEv(e)
		}
		return s, "", "", ev
	case brAdmitPart, brRecPart:
		i := s.pendIdx(in.Call)
		if in.Stage == 0 {
			if i >= 0 || int(s.NPend) >= len(s.Pend) {
				return s, "order", "", ""
			}
			s.Pend[s.NPend] = brPendDec{Id: in.Call}
			i = int(s.NPend)
			s.NPend++
		} else if i < 0 || s.Pend[i].Next != in.Stage {
			return s, "order", "", "" // the steps of one operation happen in order
		}
		s.Pend[i].Next++
		last := false
		if in.Op == brAdmitPart {
			s.Pend[i].Dec, class, why, _ = s.admitStage(cfg, in.Stage, s.Pend[i].Dec, in, out, relax)
			last = in.Stage == brAdmitStages-1
		} else {
			s.Pend[i].Dec, _ = s.recStage(cfg, in.Stage, s.Pend[i].Dec, in)
			last = in.Stage == brRecStages-1
		}
		if last {
			s.dropPend(i)
		}
		return s, class, why, ""
	case brStateOp:
		ok := out.State == int(s.St)
		if s.St == brOpen && in.Now >= s.OpenUntil && out.State == brHalf {
			ok = true // the switch to half-open may be lazy or eager: both are within the statement
		}
		if !ok {
			class, why = "state-mismatch", fmt.Sprintf("State() at t=%d returned %s, the state machine is %s", in.Now, brStateNames[out.State], s)
			if relax != class {
				return s, class, why, ""
			}
		}
		return s, "", "", ""
	case brMetricsOp:
		if s.advance(cfg, in.Now) {
			ev = "window-stale-realigned"
		}
		su, fa := s.totals()
		if cfg.seq && out.State != int(s.St) {
			return s, "state-mismatch", fmt.Sprintf("Metrics() at t=%d reported state %s, the state machine is %s", in.Now, brStateNames[out.State], s), ""
		}
		// The counts are judged in sequential runs only. Metrics is an observation
		// aid, not part of the property statement, and it is documented as a
		// snapshot of the rolling counts: under concurrency it may see a record
		// between its add and the window reset of the transition it causes, which
		// says nothing about admissions. The operation still moves the model's
		// window (snapshot re-aligns a stale window exactly like a record does).
		if cfg.seq && (su != out.Succ || fa != out.Fail) {
			class, why = "window-count-mismatch", fmt.Sprintf("Metrics() at t=%d reported %d successes / %d failures in the window, the model has %d / %d (%s)", in.Now, out.Succ, out.Fail, su, fa, s)
			if relax != class {
				return s, class, why, ""
			}
		}
		return s, "", "", ev
	}
	return s, "", "", ""
}

// brSplit cuts the admit and/or record operations of a history into their
// steps; all steps share the interval of the original operation.
func brSplit(h []porcupine.Operation, admit, record bool) []porcupine.Operation {
	var out []porcupine.Operation
	for i, op := range h {
		in := op.Input.(brIn)
		n := 0
		// the steps of an operation that overlaps no operation of another thread
		// run back to back anyway: it stays whole (keeps the search small)
		alone := true
		for j, o := range h {
			if j != i && o.ClientId != op.ClientId && o.Call < op.Return && op.Call < o.Return {
				alone = false
				break
			}
		}
		switch {
		case alone:
			out = append(out, op)
		case in.Op == brAdmit && admit:
			in.Op, n = brAdmitPart, brAdmitStages
		case in.Op == brRecord && record:
			in.Op, n = brRecPart, brRecStages
		default:
			out = append(out, op)
		}
		for k := 0; k < n; k++ {
			part := op
			in.Stage = int8(k)
			part.Input = in
			out = append(out, part)
		}
	}
	return out
}

var brClasses = []string{"admitted-while-open", "rejected-while-closed", "probe-quota-exceeded", "probe-rejected-with-free-quota", "rejected-after-open-timeout", "state-mismatch", "window-count-mismatch"}

func brDescribe(in brIn, out brOut) string {
	switch in.Op {
	case brAdmit:
		if out.Admitted {
			return fmt.Sprintf("t=%d admit(#%d)=ok", in.Now, in.Call)
		}
		return fmt.Sprintf("t=%d admit(#%d)=ErrOpen", in.Now, in.Call)
	case brRecord:
		return fmt.Sprintf("t=%d record(#%d,%s)", in.Now, in.Call, []string{"cancelled", "success", "failure"}[in.Outcome])
	case brStateOp:
		return fmt.Sprintf("t=%d State=%s", in.Now, brStateNames[out.State])
	}
	return fmt.Sprintf("t=%d Metrics=%ds/%df", in.Now, out.Succ, out.Fail)
}

// ---- workload

const (
	brKCall = iota
	brKSleep
	brKState
	brKMetrics
	brKToDeadline
	brKToBucket
)

const (
	brOSucc = iota
	brOFail
	brOPanic
	brOCancel      // caller cancels while fn runs, fn returns ctx.Err(): nothing is recorded
	brODeadline    // deadline expires while fn runs, fn returns the error: failure
	brOPreCancel   // ctx done before Execute: the breaker is not touched
	brONilCanceled // ctx cancelled but fn returns nil: success
)

type brStepW struct {
	kind    int
	outcome int
	d       time.Duration
	delta   int64
	origin  int
	inner   []brStepW
}

type brCtx struct{ err error }

func (x *brCtx) Deadline() (time.Time, bool) { return time.Time{}, false }
func (x *brCtx) Done() <-chan struct{}       { return nil }
func (x *brCtx) Err() error                  { return x.err }
func (x *brCtx) Value(any) any               { return nil }

type brRun struct {
	c        *Ctx
	cfg      brCfg
	b        *breaker.CircuitBreaker
	comp     string
	threads  int
	hist     []porcupine.Operation
	nextCall int32
	trip     int64 // time of the most recent failing return (the breaker opens at such an instant)
	lastSucc int64
	failW    int
	grid     []time.Duration
	pend     map[int32]brPending
}

func (r *brRun) gen(depth, n int) []brStepW {
	c := r.c
	var out []brStepW
	for i := 0; i < n; i++ {
		var s brStepW
		switch x := c.W.Draw(20); {
		case x < 12:
			s.kind = brKCall
			if c.W.Draw(10) < r.failW {
				s.outcome = brOFail
			}
			if c.W.Draw(8) == 7 {
				s.outcome = []int{brOPanic, brOCancel, brODeadline, brOPreCancel, brONilCanceled}[c.W.Draw(5)]
			}
			if depth < 2 && c.W.Draw(4) == 3 {
				s.inner = r.gen(depth+1, 1+c.W.Draw(3)) // slow call: other steps (sleeps, nested calls) run inside the user function
			}
		case x < 15:
			s.kind, s.d = brKSleep, r.grid[c.W.Draw(len(r.grid))]
		case x < 16:
			s.kind = brKState
		case x < 17:
			s.kind = brKMetrics
		case x < 19:
			s.kind, s.delta = brKToDeadline, int64(c.W.Draw(3))-1
		default:
			s.kind, s.delta, s.origin = brKToBucket, int64(c.W.Draw(3))-1, c.W.Draw(3)
		}
		out = append(out, s)
	}
	return out
}

var errBrBoom = errors.New("downstream failed")

func (r *brRun) exec(th int, steps []brStepW) {
	c := r.c
	for _, s := range steps {
		if c.Failed() {
			return
		}
		switch s.kind {
		case brKSleep:
			Sleep(s.d)
		case brKToDeadline:
			d := r.trip + r.cfg.timeout + s.delta - int64(Now())
			if d <= 0 {
				d = 1
			} else {
				c.Fault("clock-to-open-timeout")
			}
			Sleep(time.Duration(d))
		case brKToBucket:
			origin := []int64{0, r.trip + r.cfg.timeout, r.lastSucc}[s.origin]
			now := int64(Now())
			k := (now-origin)/r.cfg.bucketDur + 1
			d := origin + k*r.cfg.bucketDur + s.delta - now
			if d <= 0 {
				d = 1
			} else {
				c.Fault("clock-to-bucket-boundary")
			}
			Sleep(time.Duration(d))
		case brKState:
			in := brIn{Op: brStateOp, Now: int64(Now())}
			call := c.Stamp()
			st := r.b.State()
			ret := c.Stamp()
			r.hist = append(r.hist, porcupine.Operation{ClientId: th, Input: in, Call: call, Output: brOut{State: int(st)}, Return: ret})
		case brKMetrics:
			in := brIn{Op: brMetricsOp, Now: int64(Now())}
			wall := time.Now()
			call := c.Stamp()
			m := r.b.Metrics()
			ret := c.Stamp()
			r.hist = append(r.hist, porcupine.Operation{ClientId: th, Input: in, Call: call, Output: brOut{Succ: m.Successes, Fail: m.Failures, State: int(m.State)}, Return: ret})
			if m.Total != m.Successes+m.Failures || m.Window != time.Duration(r.cfg.window) || !m.WindowEnd.Equal(wall) || m.WindowEnd.Sub(m.WindowStart) != time.Duration(r.cfg.window) {
				c.Fail("metrics-inconsistent", r.comp, "Metrics() at t=%d: %+v (window %v, now %v)", in.Now, m, time.Duration(r.cfg.window), wall)
			}
			if r.threads == 1 && m.Total > 0 && m.FailureRate != float64(m.Failures)/float64(m.Total) {
				c.Fail("metrics-inconsistent", r.comp, "Metrics() failure rate %v with %d failures of %d", m.FailureRate, m.Failures, m.Total)
			}
		case brKCall:
			r.call(th, s)
		}
	}
}

func (r *brRun) call(th int, s brStepW) {
	c := r.c
	r.nextCall++
	id := r.nextCall
	c.Ops++
	ctx := &brCtx{}
	if s.outcome == brOPreCancel {
		ctx.err = context.Canceled
	}
	entered := false
	var fnRet int64
	var recIn brIn
	want := fmt.Sprintf("value-%d", id)
	fn := func(context.Context) (any, error) {
		entered = true
		enter := c.Stamp()
		r.hist = append(r.hist, porcupine.Operation{ClientId: th, Input: brIn{Op: brAdmit, Call: id, Now: r.admitNow(id)}, Call: r.admitCall(id), Output: brOut{Admitted: true}, Return: enter})
		r.exec(th, s.inner)
		now := int64(Now())
		recIn = brIn{Op: brRecord, Call: id, Now: now}
		fnRet = c.Stamp()
		switch s.outcome {
		case brOSucc:
			recIn.Outcome = brSucc
			r.lastSucc = now
			return want, nil
		case brONilCanceled:
			ctx.err = context.Canceled
			recIn.Outcome = brSucc
			r.lastSucc = now
			return want, nil
		case brOCancel:
			ctx.err = context.Canceled
			recIn.Outcome = brNone
			return nil, ctx.err
		case brODeadline:
			ctx.err = context.DeadlineExceeded
			recIn.Outcome = brFail
			r.trip = now
			return nil, ctx.err
		case brOPanic:
			recIn.Outcome = brFail
			r.trip = now
			panic(errBrBoom)
		}
		recIn.Outcome = brFail
		r.trip = now
		return nil, errBrBoom
	}
	r.pending(id, int64(Now()), c.Stamp())
	v, err := r.b.Execute(ctx, fn)
	ret := c.Stamp()
	var be *breaker.Error
	switch {
	case s.outcome == brOPreCancel:
		if entered || !errors.As(err, &be) || be.Type != breaker.ErrorTypeTimeout {
			c.Fail("execute-contract", r.comp, "Execute with a context that was already cancelled: fn entered=%v, returned (%v, %v)", entered, v, err)
		}
		return
	case !entered:
		now, call := r.admitNow(id), r.admitCall(id)
		if !errors.Is(err, breaker.ErrOpen) {
			c.Fail("execute-contract", r.comp, "Execute #%d did not invoke fn and returned (%v, %v) instead of ErrOpen", id, v, err)
			return
		}
		if after := int64(Now()); after != now {
			c.Fail("clock-moved-inside-operation", r.comp, "harness assumption broken: rejected Execute started at t=%d and returned at t=%d", now, after)
		}
		r.hist = append(r.hist, porcupine.Operation{ClientId: th, Input: brIn{Op: brAdmit, Call: id, Now: now}, Call: call, Output: brOut{Admitted: false}, Return: ret})
		return
	}
	if after := int64(Now()); after != recIn.Now {
		c.Fail("clock-moved-inside-operation", r.comp, "harness assumption broken: fn of call %d returned at t=%d and Execute at t=%d", id, recIn.Now, after)
	}
	r.hist = append(r.hist, porcupine.Operation{ClientId: th, Input: recIn, Call: fnRet, Output: brOut{}, Return: ret})
	switch s.outcome {
	case brOSucc, brONilCanceled:
		if err != nil || v != any(want) {
			c.Fail("execute-contract", r.comp, "Execute #%d: fn returned (%q, nil), Execute returned (%v, %v)", id, want, v, err)
		}
	case brOPanic:
		if !errors.As(err, &be) || be.Type != breaker.ErrorTypePanic {
			c.Fail("execute-contract", r.comp, "Execute #%d: fn panicked, Execute returned (%v, %v)", id, v, err)
		}
	case brOFail:
		if err != errBrBoom {
			c.Fail("execute-contract", r.comp, "Execute #%d: fn returned %v, Execute returned (%v, %v)", id, errBrBoom, v, err)
		}
	default:
		if err == nil {
			c.Fail("execute-contract", r.comp, "Execute #%d: fn returned a context error, Execute returned (%v, nil)", id, v)
		}
	}
}

// invocation instant and stamp of the calls in progress (a call is pending from
// Execute's invocation until fn is entered or Execute returns)
type brPending struct{ now, call int64 }

func (r *brRun) pending(id int32, now, call int64) {
	if r.pend == nil {
		r.pend = map[int32]brPending{}
	}
	r.pend[id] = brPending{now, call}
}
func (r *brRun) admitNow(id int32) int64  { return r.pend[id].now }
func (r *brRun) admitCall(id int32) int64 { return r.pend[id].call }

var (
	brThresholds = [][2]uint64{{1, 2}, {1, 4}, {3, 5}, {1, 1}, {1, 3}, {2, 3}}
	brTimeouts   = []time.Duration{50 * time.Millisecond, 20 * time.Millisecond, 100 * time.Millisecond}
	brWindows    = []time.Duration{100 * time.Millisecond, 60 * time.Millisecond, 40 * time.Millisecond}
)

func c47Run(c *Ctx, threads int) {
	r := &brRun{c: c, threads: threads}
	thr := brThresholds[c.W.Draw(len(brThresholds))]
	to := brTimeouts[c.W.Draw(len(brTimeouts))]
	win := brWindows[c.W.Draw(len(brWindows))]
	nb := 1 + c.W.Draw(4)
	r.cfg = brCfg{thrP: thr[0], thrQ: thr[1], minReq: uint64(1 + c.W.Draw(5)), timeout: int64(to), window: int64(win), buckets: nb, bucketDur: int64(win) / int64(nb), maxProbes: 1 + c.W.Draw(3)}
	r.failW = []int{5, 3, 7}[c.W.Draw(3)]
	bd := time.Duration(r.cfg.bucketDur)
	r.grid = []time.Duration{time.Nanosecond, bd, bd - 1, bd + 1, win - 1, win, win + 1, time.Duration(nb)*bd - 1, time.Duration(nb) * bd, to - 1, to, to + 1, 2 * win}
	r.comp, r.cfg.seq = "breaker/sequential", threads == 1
	if threads > 1 {
		r.comp = "breaker/concurrent"
	}
	c.Comp = r.comp
	c.Note("config", fmt.Sprintf("failureRate=%d/%d minRequests=%d openTimeout=%v window=%v/%d halfOpenMaxCalls=%d", thr[0], thr[1], r.cfg.minReq, to, win, nb, r.cfg.maxProbes))
	c.Note("threads", threads)
	scripts := make([][]brStepW, threads)
	for t := range scripts {
		n := 4 + c.W.Draw(16)
		if threads == 1 {
			n = 10 + c.W.Draw(50)
		}
		scripts[t] = r.gen(0, n)
	}
	opts := []breaker.Option{
		breaker.WithFailureRate(float64(thr[0]) / float64(thr[1])), breaker.WithMinRequests(int(r.cfg.minReq)), breaker.WithOpenTimeout(to),
		breaker.WithWindow(win, nb), breaker.WithHalfOpenMaxCalls(r.cfg.maxProbes),
	}
	if c.W.Draw(2) == 1 {
		opts = append(opts, breaker.WithClock(func() time.Time { return time.Now() }))
	}
	r.b = breaker.NewCircuitBreaker(opts...)
	c.state = r
	if threads == 1 {
		r.exec(0, scripts[0])
		return
	}
	var fns []func()
	for t := range scripts {
		fns = append(fns, func() { r.exec(t, scripts[t]) })
	}
	Join(fns...)
}

func brHistory(h []porcupine.Operation, max int) string {
	ops := append([]porcupine.Operation(nil), h...)
	sort.SliceStable(ops, func(i, j int) bool { return ops[i].Call < ops[j].Call })
	if max > 0 && len(ops) > max {
		ops = ops[len(ops)-max:]
	}
	var sb strings.Builder
	for _, op := range ops {
		fmt.Fprintf(&sb, "c%d:%s[%d-%d] ", op.ClientId, brDescribe(op.Input.(brIn), op.Output.(brOut)), op.Call, op.Return)
	}
	return sb.String()
}

func c47Finish(c *Ctx) {
	r, _ := c.state.(*brRun)
	if r == nil {
		return
	}
	cfgs := c.Sample["config"]
	if r.threads == 1 {
		// sequential: nested calls only, so call order is the only linearization
		ops := append([]porcupine.Operation(nil), r.hist...)
		sort.SliceStable(ops, func(i, j int) bool { return ops[i].Call < ops[j].Call })
		var s brSt
		for i, op := range ops {
			next, class, why, ev := brStep(&r.cfg, s, op.Input.(brIn), op.Output.(brOut), "")
			if class != "" {
				c.Fail(class, r.comp, "%s; %v; history up to the failing operation: %s", why, cfgs, brHistory(ops[:i+1], 50))
				return
			}
			if ev != "" {
				for _, e := range strings.Split(ev, ",") {
					c.Probe(e)
				}
			}
			s = next
		}
		return
	}
	rej := 0
	for _, op := range r.hist {
		if in := op.Input.(brIn); in.Op == brAdmit && !op.Output.(brOut).Admitted {
			rej++
		}
	}
	if rej > 0 {
		c.Probe("run-with-rejections")
	}
	for i, a := range r.hist {
		if a.Input.(brIn).Op != brAdmit {
			continue
		}
		for j, b := range r.hist {
			if i != j && b.Input.(brIn).Op <= brRecord && a.Call < b.Return && b.Call < a.Return {
				c.Probe("admit-overlaps-admit-or-record")
				break
			}
		}
	}
	chk := func(relax string, splitAdmit, splitRecord bool) (res porcupine.CheckResult) {
		model := porcupine.Model{
			Init: func() any { return brSt{} },
			Step: func(st, in, out any) (bool, any) {
				next, class, _, _ := brStep(&r.cfg, st.(brSt), in.(brIn), out.(brOut), relax)
				return class == "", next
			},
			DescribeOperation: func(in, out any) string { return brDescribe(in.(brIn), out.(brOut)) },
		}
		h := r.hist
		if splitAdmit || splitRecord {
			h = brSplit(h, splitAdmit, splitRecord)
		}
		OffBubble(func() { res = porcupine.CheckOperationsTimeout(model, h, 20*time.Second) })
		return res
	}
	switch chk("", false, false) {
	case porcupine.Ok:
		return
	case porcupine.Unknown:
		c.Probe("porcupine-unknown")
		return
	}
	// name the failure: first the non-atomicities of the implementation (a
	// decision taken on what a caller saw, applied after other callers moved on),
	// then single tolerated mismatch classes
	class, how := "not-linearizable", "nor under any single tolerated mismatch class"
	timedOut := false
	ok := func(relax string, splitAdmit, splitRecord bool) bool {
		if timedOut {
			return false
		}
		res := chk(relax, splitAdmit, splitRecord)
		timedOut = res == porcupine.Unknown
		return res == porcupine.Ok
	}
	switch {
	case ok("", false, true):
		class, how = "record-decision-applied-late", "it has one when every record that overlaps another thread's operation is cut into the steps add-and-evaluate / read state / set openUntil or reset the window / store the state decided on those totals / free the probe slot, with other callers in between"
	case ok("", true, false):
		class, how = "admit-decision-applied-late", "it has one when every admission that overlaps another thread's operation is cut into the steps read state / compare openUntil / reset the window / store half-open / take a probe slot, with other callers in between"
	case ok("", true, true):
		class, how = "admit-and-record-decisions-applied-late", "it has one when admissions and records are both cut into their read/evaluate and apply steps, with other callers in between"
	default:
		for _, k := range brClasses {
			if ok(k, false, false) {
				class, how = k, fmt.Sprintf("it has one when %q mismatches are tolerated", k)
				break
			}
		}
	}
	if timedOut {
		// the verdict (no linearization of the atomic model) stands; only the name is missing
		c.Probe("classification-timeout")
		class, how = "not-linearizable-unclassified", "the searches that name the failure timed out"
	}
	c.Fail(class, r.comp, "the concurrent history has no linearization against the atomic breaker state machine (%s); %v; history: %s", how, cfgs, brHistory(r.hist, 0))
}

var (
	c47Real = []string{"breaker.CircuitBreaker: Execute, tryAcquire, record, transitionTo, half-open semaphore, rolling bucket window, Metrics, State"}
	c47Stub = []string{"wall clock: fake (synctest bubble); the protected function is a scripted harness function (success, error, panic, slow, caller-cancelled, deadline, nested Execute)"}
)

func init() {
	Register(&Scenario{
		Prop: "C47", Name: "breaker-seq", Quick: 5000, Thorough: 400000, EstSteps: 1500, MaxSteps: 200000, MaxIdle: time.Hour,
		Real: c47Real, Stub: c47Stub, Run: func(c *Ctx) { c47Run(c, 1) }, Finish: c47Finish,
	})
	Register(&Scenario{
		Prop: "C47", Name: "breaker-conc", Quick: 5000, Thorough: 400000, EstSteps: 2000, MaxSteps: 200000, MaxIdle: time.Hour,
		Real: c47Real, Stub: c47Stub, Run: func(c *Ctx) { c47Run(c, 2+c.W.Draw(3)) }, Finish: c47Finish,
	})
}

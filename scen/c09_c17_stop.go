package scen

// C09 (stopping an actor stops its whole subtree, children first) and
// C17 (ActorSystem.Stop tears every actor and grain down exactly once).
//
// Both scenarios build a random actor tree (depth <= 3, width <= 3) of scripted
// probes on a real single-node system and keep a *model* of the tree (who is
// whose descendant, when each spawn was called and when it returned). Everything
// that happens is appended to the one event log of engine C; the oracles are
// functions over that log, written from the property statements:
//
//   - order:   at the moment an actor's PostStop is entered, every descendant
//              whose spawn had already returned successfully has completed its
//              own PostStop (C09 "children first", C17 "children before parents");
//   - return:  after a synchronous stop call returned nil, no actor of the stopped
//              subtree (spawned before the call, not re-incarnated since) is
//              running, and ActorOf(name) fails for each (C09);
//   - tree:    at quiescence every live actor's parent is live and registered,
//              no stopped actor is registered, Children() = live children (C09);
//   - system:  PostStop exactly once per user actor that ran when Stop began,
//              OnDeactivate exactly once per active grain, no handler entry after
//              Stop returned, sends issued after Stop returned (or after the
//              receiver's PostStop) fail or are dead-lettered (C17).
//
// What is deliberately NOT checked here: overlap/precedence of PostStop and a
// running Receive of the *same* actor (C06 owns that, and it is a known finding),
// and the fate of messages accepted before the receiver stopped (C02/C18).

import (
	"context"
	"fmt"
	"os"
	"sort"
	"strings"
	"time"

	"github.com/tochemey/goakt/v4/actor"
	"github.com/tochemey/goakt/v4/log"
	"github.com/tochemey/goakt/v4/supervisor"
)

// ------------------------------------------------------------------ tree model

type stNode struct {
	name      string
	parent    *stNode
	kids      []*stNode
	probe     *Probe
	pid       *actor.PID
	depth     int
	spawnCall int  // log seq of the spawn call
	spawnRet  int  // log seq of the successful return; -1 in flight, -2 failed
	dyn       bool // spawned by a driver while the run was under way
}

func (n *stNode) ok() bool { return n.spawnRet >= 0 }

type stTree struct {
	c     *Ctx
	s     *Sys
	nodes map[string]*stNode
	list  []*stNode
	sup   *supervisor.Supervisor
	mbs   []sysMailbox
	next  int
}

func newStTree(c *Ctx, s *Sys) *stTree {
	return &stTree{c: c, s: s, nodes: map[string]*stNode{}, mbs: sysMailboxesStoppable(),
		sup: supervisor.NewSupervisor(
			supervisor.WithStrategy(supervisor.OneForOneStrategy),
			supervisor.WithDirective(&ErrA{}, supervisor.RestartDirective),
			supervisor.WithDirective(&ErrB{}, supervisor.StopDirective),
		)}
}

func (t *stTree) opts() []actor.SpawnOption {
	mb := t.mbs[t.c.W.Draw(len(t.mbs))]
	return append(mb.Opt(), actor.WithLongLived(), actor.WithSupervisor(t.sup))
}

// add registers the node in the model *before* the spawn call is made, so that
// the oracles know the ancestry of every probe that can possibly log an event.
func (t *stTree) add(parent *stNode, name string, dyn bool) *stNode {
	n := &stNode{name: name, parent: parent, probe: t.s.NewProbe(name), spawnRet: -1, dyn: dyn, depth: 1}
	if parent != nil {
		n.depth = parent.depth + 1
		parent.kids = append(parent.kids, n)
	}
	t.nodes[name] = n
	t.list = append(t.list, n)
	pn := ""
	if parent != nil {
		pn = parent.name
	}
	n.spawnCall = t.s.Ev(Ev{Actor: name, Kind: "spawn-call", Aux: pn})
	return n
}

func (t *stTree) done(n *stNode, pid *actor.PID, err error) {
	if err != nil || pid == nil {
		n.spawnRet = -2
		t.s.Ev(Ev{Actor: n.name, Kind: "spawn-ret", Aux: fmt.Sprint(err)})
		return
	}
	n.pid = pid
	n.spawnRet = t.s.Ev(Ev{Actor: n.name, Kind: "spawn-ret"})
}

func (t *stTree) spawnRoot(name string) *stNode {
	o := t.opts()
	n := t.add(nil, name, false)
	pid, err := t.s.Sys.Spawn(t.s.Ctx, name, n.probe, o...)
	t.done(n, pid, err)
	return n
}

// spawnChild spawns under parent through PID.SpawnChild on the calling goroutine
// (a driver thread, or the parent's own turn when called from an OpFunc).
func (t *stTree) spawnChild(parent *stNode, dyn bool) *stNode {
	o := t.opts()
	t.next++
	name := fmt.Sprintf("%s-%d", parent.name, t.next)
	n := t.add(parent, name, dyn)
	pid, err := parent.pid.SpawnChild(t.s.Ctx, name, n.probe, o...)
	t.done(n, pid, err)
	return n
}

// build creates the static forest: 1-2 roots, every level 0-3 children, depth <= 3.
func (t *stTree) build(maxNodes int) bool {
	nroots := 1 + t.c.W.Draw(2)
	for r := 0; r < nroots; r++ {
		root := t.spawnRoot(fmt.Sprintf("n%d", r))
		if !root.ok() {
			t.c.Fail("spawn-failed", root.name, "static tree")
			return false
		}
		w1 := t.c.W.Draw(4)
		if r == 0 && w1 == 0 {
			w1 = 1 // at least one parent/child pair per run
		}
		for i := 0; i < w1 && len(t.list) < maxNodes; i++ {
			ch := t.spawnChild(root, false)
			if !ch.ok() {
				t.c.Fail("spawn-failed", ch.name, "static tree")
				return false
			}
			w2 := t.c.W.Draw(4)
			for j := 0; j < w2 && len(t.list) < maxNodes; j++ {
				if g := t.spawnChild(ch, false); !g.ok() {
					t.c.Fail("spawn-failed", g.name, "static tree")
					return false
				}
			}
		}
	}
	var shape []string
	for _, n := range t.list {
		shape = append(shape, n.name)
	}
	t.c.Note("tree", shape)
	return true
}

func (t *stTree) subtree(n *stNode) []*stNode {
	out := []*stNode{n}
	for _, k := range n.kids {
		out = append(out, t.subtree(k)...)
	}
	return out
}

// pick draws a successfully spawned node satisfying pred (nil if none).
func (t *stTree) pick(pred func(*stNode) bool) *stNode {
	var l []*stNode
	for _, n := range t.list {
		if n.ok() && (pred == nil || pred(n)) {
			l = append(l, n)
		}
	}
	if len(l) == 0 {
		return nil
	}
	return l[t.c.W.Draw(len(l))]
}

// ------------------------------------------------------------------ log indexes

type stopIndex struct {
	log      []Ev
	prestart map[string]map[int]int // actor -> incarnation -> seq of prestart-enter
	stopInit map[string][]int       // actor -> seqs of events that initiate a stop/restart of that actor
	stopCall map[string][]int       // actor -> seqs of stop-call events (stops proper, not restarts or failures)
}

func indexLog(log []Ev) *stopIndex {
	ix := &stopIndex{log: log, prestart: map[string]map[int]int{}, stopInit: map[string][]int{}}
	for _, e := range log {
		switch e.Kind {
		case "prestart-enter":
			if ix.prestart[e.Actor] == nil {
				ix.prestart[e.Actor] = map[int]int{}
			}
			ix.prestart[e.Actor][e.Inc] = e.Seq
		case "stop-call", "restart-call", "panic-sent", "sysstop-call":
			if e.Kind == "stop-call" || e.Kind == "panic-sent" && e.Aux == 1 { // a stop, or a failure answered by the stop directive
				if ix.stopCall == nil {
					ix.stopCall = map[string][]int{}
				}
				ix.stopCall[e.Actor] = append(ix.stopCall[e.Actor], e.Seq)
			}
			ix.stopInit[e.Actor] = append(ix.stopInit[e.Actor], e.Seq)
		}
	}
	return ix
}

// firstStopInit is the earliest stop/restart initiation aimed at n or one of its
// ancestors after seq `after` (-1 if none): the start of "n is being stopped".
func (ix *stopIndex) firstStopInit(n *stNode, after int) int {
	best := -1
	for p := n; p != nil; p = p.parent {
		for _, s := range ix.stopInit[p.name] {
			if s > after && (best < 0 || s < best) {
				best = s
			}
		}
	}
	for _, s := range ix.stopInit["*system*"] {
		if s > after && (best < 0 || s < best) {
			best = s
		}
	}
	return best
}

// raceKind says how descendant d (incarnation dInc) relates to the stop of its
// ancestor x whose PostStop was entered at seq p: the component of a violation
// (distinct defects get distinct signatures).
//
//	descendant-restart-racing-stop  d was re-incarnated by a Restart / restart directive
//	spawn-racing-stop               d's spawn call overlapped the stop of x
//	overlapping-stop-of-descendant  a stop aimed at d (or at an actor between x and d) was initiated before p
//	settled-descendant              none of these: d was spawned and left alone before x was stopped
func (ix *stopIndex) raceKind(x, d *stNode, dInc, p int) string {
	// a re-incarnation (Restart / restart directive) of d, of x or of an actor between them before p
	if dInc > 1 {
		return "descendant-restart-racing-stop"
	}
	// d hangs below an actor that was re-initialised by a Restart while another goroutine was
	// stopping that same actor: the death watch deletes the restarted actor's tree node when it
	// handles the Terminated of the interleaved stop, so the actor runs unregistered and nothing
	// spawned under it is registered or reachable by a stop (recorded defect, not the spawn race)
	if ix.underRestartedDuringItsStop(d, p) {
		return "under-actor-restarted-during-its-stop"
	}
	for q := d.parent; q != nil; q = q.parent {
		for inc, ps := range ix.prestart[q.name] {
			if inc > 1 && ps < p {
				return "descendant-restart-racing-stop"
			}
		}
		if q == x {
			break
		}
	}
	// d hangs below an actor that itself escaped the stop of its parent (recorded defect):
	// that actor is no longer in the tree, so nothing registers or stops what is spawned under it
	if ix.escaped(d.parent) { // escaped() walks up the ancestors itself
		return "under-escaped-actor"
	}
	t0 := ix.firstStopInit(x, ix.prestart[x.name][1])
	if d.dyn && t0 >= 0 && d.spawnCall < p && (d.spawnRet < 0 || d.spawnRet > t0) {
		return "spawn-racing-stop"
	}
	for q := d; q != nil && q != x; q = q.parent {
		for _, s := range ix.stopInit[q.name] {
			if s < p {
				return "overlapping-stop-of-descendant"
			}
		}
	}
	// ActorSystem.Stop under way while user code stops x or an ancestor of x itself
	sysStop := false
	for _, s := range ix.stopInit["*system*"] {
		sysStop = sysStop || s < p
	}
	if sysStop {
		for q := x; q != nil; q = q.parent {
			for _, s := range ix.stopInit[q.name] {
				if s < p {
					return "stop-of-ancestor-overlapping-system-stop"
				}
			}
		}
	}
	return "settled-descendant"
}

// restartedDuringItsStop: a new incarnation of q started before p, and a stop call aimed at q
// or an ancestor of q was issued during the life of the previous incarnation's restart, i.e.
// between the previous PreStart and the new one (the Restart and the stop overlapped).
func (ix *stopIndex) restartedDuringItsStop(q *stNode, p int) bool {
	for inc, ps := range ix.prestart[q.name] {
		if inc < 2 || ps >= p {
			continue
		}
		prev := ix.prestart[q.name][inc-1]
		for a := q; a != nil; a = a.parent {
			for _, sc := range ix.stopCall[a.name] {
				if sc > prev && sc < ps {
					return true
				}
			}
		}
	}
	return false
}

func (ix *stopIndex) underRestartedDuringItsStop(d *stNode, p int) bool {
	for q := d.parent; q != nil; q = q.parent {
		if ix.restartedDuringItsStop(q, p) {
			return true
		}
	}
	return false
}

// escaped: q (or an ancestor of q) was spawned by a call that overlapped the stop of its parent.
func (ix *stopIndex) escaped(q *stNode) bool {
	for ; q != nil && q.parent != nil; q = q.parent {
		if !q.dyn {
			continue
		}
		p := lastPostStop(ix.log, q.parent.name)
		t0 := ix.firstStopInit(q.parent, ix.prestart[q.parent.name][1])
		if p < len(ix.log) && t0 >= 0 && q.spawnCall < p && (q.spawnRet < 0 || q.spawnRet > t0) {
			return true
		}
	}
	return false
}

// lastPostStop is the seq of the last poststop-enter of actor name (or the end of the log).
func lastPostStop(log []Ev, name string) int {
	p := len(log)
	for _, e := range log {
		if e.Kind == "poststop-enter" && e.Actor == name {
			p = e.Seq
		}
	}
	return p
}

// vioSet collects every violation the oracles of a run find; report hands the
// framework the first one whose signature is not in `recorded` (the defects already
// written up in known_findings.jsonl), so that a recorded defect firing in the same
// run never hides a new one.
type vioSet struct {
	list []Violation
	seen map[string]bool
}

func (v *vioSet) add(class, comp, format string, args ...any) {
	if v.seen == nil {
		v.seen = map[string]bool{}
	}
	if v.seen[class+"|"+comp] {
		return
	}
	v.seen[class+"|"+comp] = true
	v.list = append(v.list, Violation{Class: class, Component: comp, Detail: fmt.Sprintf(format, args...)})
}

func (v *vioSet) report(c *Ctx, recorded map[string]bool) {
	if c.Failed() || len(v.list) == 0 {
		return
	}
	pick := v.list[0]
	for _, x := range v.list {
		if !recorded[x.Sig()] {
			pick = x
			break
		}
	}
	others := ""
	if len(v.list) > 1 {
		var sigs []string
		for _, x := range v.list {
			if x.Sig() != pick.Sig() {
				sigs = append(sigs, x.Sig())
			}
		}
		others = " [also in this run: " + strings.Join(sigs, ", ") + "]"
	}
	c.Fail(pick.Class, pick.Component, "%s%s", pick.Detail, others)
}

// dumpLog writes the whole event log when VERIF_DUMPLOG names a file (triage aid for replays).
func dumpLog(log []Ev) {
	f := os.Getenv("VERIF_DUMPLOG")
	if f == "" {
		return
	}
	var b strings.Builder
	for _, e := range log {
		b.WriteString(e.String())
		b.WriteString("\n")
	}
	_ = os.WriteFile(f, []byte(b.String()), 0o644)
}

// orderOracle: when PostStop of x is entered, every descendant whose spawn had
// returned successfully and whose PreStart succeeded must have left its PostStop.
func orderOracle(v *vioSet, t *stTree, log []Ev, ix *stopIndex, prefix string) {
	alive := map[string]int{} // actor -> incarnation that is started and not yet through PostStop
	for _, e := range log {
		switch e.Kind {
		case "prestart-exit":
			if e.Aux == nil {
				alive[e.Actor] = e.Inc
			}
		case "poststop-exit":
			if alive[e.Actor] == e.Inc {
				delete(alive, e.Actor)
			}
		case "poststop-enter":
			x := t.nodes[e.Actor]
			if x == nil {
				continue
			}
			for _, d := range t.subtree(x)[1:] {
				inc, isAlive := alive[d.name]
				if !isAlive || !d.ok() || d.spawnRet > e.Seq {
					continue
				}
				v.add("ancestor-poststop-before-descendant", prefix+ix.raceKind(x, d, inc, e.Seq),
					"PostStop of %s/%d entered (event #%d, goroutine %s) while its descendant %s/%d (spawn returned at #%d) has not completed PostStop; history: %s",
					x.name, e.Inc, e.Seq, e.G, d.name, inc, d.spawnRet, lifeHistory(log, x.name, d.name))
			}
		}
	}
}

// lifeHistory renders the lifecycle / stop events of the named actors.
func lifeHistory(log []Ev, names ...string) string {
	want := map[string]bool{"*system*": true}
	for _, n := range names {
		want[n] = true
	}
	var b strings.Builder
	n := 0
	for _, e := range log {
		if !want[e.Actor] {
			continue
		}
		switch e.Kind {
		case "recv-enter", "recv-exit", "tell-ok", "tell-err", "poststart", "send-call", "send-ret":
			continue
		}
		if n++; n > 60 {
			b.WriteString("...")
			break
		}
		fmt.Fprintf(&b, "#%d %s %s/%d %s %v | ", e.Seq, e.G, e.Actor, e.Inc, e.Kind, e.Aux)
	}
	return b.String()
}

// ------------------------------------------------------------------ C09

type chkObs struct {
	API        string
	Target     string
	CallSeq    int
	Running    bool
	IncRun     int // probe incarnation read together with Running
	Resolvable bool
	IncRes     int // probe incarnation read together with Resolvable
}

type c09Final struct {
	PostStopped                    bool // PostStop of the current incarnation has run
	Running, Suspended, Resolvable bool
	Parent                         string
	Children                       []string
}

type c09State struct {
	t       *stTree
	final   map[string]*c09Final
	noQuiet string // why the end state is not a quiescent one (a Restart call never returned)
	stops   int
	hot     *stNode
	touched map[string]bool // a stop, failure or restart has been aimed at this actor
	logged  *[]string       // warnings and errors goakt logged
}

// untouched: no stop, failure or restart has been aimed at n or an ancestor so far.
// Restarts (explicit and by directive) are only aimed at such actors: restarting an
// actor that the harness itself has already stopped is not a race but a misuse the
// docs do not cover (PID.Restart on a dead PID re-initialises it outside the tree);
// a stop that arrives *while* the restart is under way is the race that is wanted.
func (st *c09State) untouched(n *stNode) bool {
	for p := n; p != nil; p = p.parent {
		if st.touched[p.name] {
			return false
		}
	}
	return true
}

// afterStop records, for every actor of target's subtree whose spawn had returned
// before the stop was called, whether it is still running / resolvable now that
// the synchronous stop call has returned nil.
func (st *c09State) afterStop(target *stNode, api string, callSeq int) {
	s := st.t.s
	for _, d := range st.t.subtree(target) {
		if !d.ok() || d.spawnRet > callSeq {
			continue
		}
		o := chkObs{API: api, Target: target.name, CallSeq: callSeq}
		o.Running = d.pid.IsRunning()
		o.IncRun = d.probe.Inc
		err := st.guarded("ActorSystem.ActorOf", d.name, func() error { _, e := s.Sys.ActorOf(s.Ctx, d.name); return e })
		o.Resolvable = err == nil
		o.IncRes = d.probe.Inc
		s.Ev(Ev{Actor: d.name, Kind: "chk", Aux: o})
	}
}

// c09CapLogger is the discard logger plus a memory of the warnings and errors goakt
// logs: they name the system actor that failed when the system shuts itself down.
// It adds no scheduling point (plain harness state), so schedules are unaffected.
type c09CapLogger struct {
	log.Logger
	lines *[]string
}

func (l c09CapLogger) keep(s string) {
	if len(*l.lines) < 400 {
		*l.lines = append(*l.lines, s)
	}
}
func (l c09CapLogger) Enabled(level log.Level) bool {
	return level == log.WarningLevel || level == log.ErrorLevel
}
func (l c09CapLogger) Warn(v ...any)             { l.keep("W " + fmt.Sprint(v...)) }
func (l c09CapLogger) Warnf(f string, v ...any)  { l.keep("W " + fmt.Sprintf(f, v...)) }
func (l c09CapLogger) Error(v ...any)            { l.keep("E " + fmt.Sprint(v...)) }
func (l c09CapLogger) Errorf(f string, v ...any) { l.keep("E " + fmt.Sprintf(f, v...)) }

// guarded runs a goakt call that has been seen to dereference a nil PID (a tree node
// cleared by a concurrent deleteNode) and turns the runtime panic into a log entry
// instead of a crashed worker process.
func (st *c09State) guarded(api, name string, f func() error) (err error) {
	defer func() {
		if r := recover(); r != nil {
			st.t.s.Ev(Ev{Actor: name, Kind: "api-panic", Aux: api + ": " + fmt.Sprint(r)})
			err = fmt.Errorf("panic: %v", r)
		}
	}()
	return f()
}

var c09StopAPIs = []string{"PID.Shutdown", "ActorSystem.Kill", "PID.Stop(child)", "PoisonPill", "ctx.Shutdown", "ctx.Stop(child)"}

func (st *c09State) stopOp(thread int, target *stNode) {
	c, s := st.t.c, st.t.s
	api := c09StopAPIs[c.W.Draw(len(c09StopAPIs))]
	if (api == "PID.Stop(child)" || api == "ctx.Stop(child)") && target.parent == nil {
		api = "ActorSystem.Kill"
	}
	c.Fault("stop:" + api)
	c.Ops++
	st.stops++
	st.touched[target.name] = true
	callSeq := s.Ev(Ev{Actor: target.name, Kind: "stop-call", Aux: api})
	var err error
	returned := true
	// synchronous stop APIs: the call, the log entry of its return and the check of
	// the subtree run back to back on one thread (CallTimeout only bounds the wait)
	syncStop := func(f func() error) {
		returned = CallTimeout(time.Minute, func() {
			e := f()
			s.Ev(Ev{Actor: target.name, Kind: "stop-ret", Aux: fmt.Sprint(e)})
			if e == nil {
				st.afterStop(target, api, callSeq)
			}
		})
	}
	switch api {
	case "PID.Shutdown":
		syncStop(func() error { return target.pid.Shutdown(s.Ctx) })
	case "ActorSystem.Kill":
		syncStop(func() error {
			return st.guarded("ActorSystem.Kill", target.name, func() error { return s.Sys.Kill(s.Ctx, target.name) })
		})
	case "PID.Stop(child)":
		syncStop(func() error { return target.parent.pid.Stop(s.Ctx, target.pid) })
	case "PoisonPill":
		err = actor.Tell(s.Ctx, target.pid, new(actor.PoisonPill))
		s.Ev(Ev{Actor: target.name, Kind: "stop-sent", Aux: fmt.Sprint(err)})
	case "ctx.Shutdown":
		err = actor.Tell(s.Ctx, target.pid, &Cmd{Tag: c.Seq(), From: thread, Ops: []Op{{K: OpYield, N: 1 + c.W.Draw(2)}, {K: OpShutdown}}})
		s.Ev(Ev{Actor: target.name, Kind: "stop-sent", Aux: fmt.Sprint(err)})
	case "ctx.Stop(child)":
		// the parent stops the child from inside its own turn; the check runs there too
		err = actor.Tell(s.Ctx, target.parent.pid, &Cmd{Tag: c.Seq(), From: thread, Ops: []Op{{K: OpFunc, F: func(rc *actor.ReceiveContext, _ *Probe) {
			cs := s.Ev(Ev{Actor: target.name, Kind: "stop-call", Aux: api + ":in-turn"})
			e := rc.Self().Stop(rc.Context(), target.pid)
			s.Ev(Ev{Actor: target.name, Kind: "stop-ret", Aux: fmt.Sprint(e)})
			if e == nil {
				st.afterStop(target, api, cs)
			}
		}}}})
		s.Ev(Ev{Actor: target.name, Kind: "stop-sent", Aux: fmt.Sprint(err)})
	}
	if !returned {
		c.Fail("stop-call-never-returned", api, "%s of %s did not return within 1 min of simulated time; history: %s", api, target.name, lifeHistory(s.Log, target.name))
	}
}

func (st *c09State) spawnOp(thread int, parent *stNode) {
	c, s := st.t.c, st.t.s
	c.Ops++
	if c.W.Draw(3) == 0 {
		// from the parent's own turn
		c.Fault("spawn:in-turn")
		_ = actor.Tell(s.Ctx, parent.pid, &Cmd{Tag: c.Seq(), From: thread, Ops: []Op{{K: OpYield, N: c.W.Draw(3)}, {K: OpFunc, F: func(*actor.ReceiveContext, *Probe) {
			st.t.spawnChild(parent, true)
		}}}})
		return
	}
	c.Fault("spawn:external")
	st.t.spawnChild(parent, true)
}

func c09Run(c *Ctx) {
	var logged []string
	s := StartSys(c, "c09", append(sysOpts(c), actor.WithLogger(c09CapLogger{log.DiscardLogger, &logged}))...)
	t := newStTree(c, s)
	st := &c09State{t: t, final: map[string]*c09Final{}, touched: map[string]bool{}, logged: &logged}
	c.state = st
	c.Comp = "subtree-stop"
	if !t.build(9) {
		_ = s.Stop()
		return
	}
	// the hot node: stops and spawns concentrate on it so that they overlap
	st.hot = t.pick(func(n *stNode) bool { return len(n.kids) > 0 })
	c.Note("hot", st.hot.name)
	restarts := c.W.Draw(3) == 2 // a third of the runs also restart inner nodes
	c.Note("restarts", restarts)
	nthreads := 2 + c.W.Draw(3)
	var fns []func()
	for th := 0; th < nthreads; th++ {
		nops := 2 + c.W.Draw(4)
		fns = append(fns, func() {
			for k := 0; k < nops; k++ {
				switch c.W.Draw(4) {
				case 1:
					Sleep(time.Duration(c.W.Draw(3)) * time.Millisecond)
				case 2:
					for i := c.W.Draw(6); i > 0; i-- {
						Yield()
					}
				}
				target := st.hot
				if c.W.Draw(2) == 1 {
					target = t.pick(nil)
				}
				kind := c.W.Draw(10)
				switch {
				case kind <= 2:
					st.stopOp(th, target)
				case kind <= 5:
					if target.depth < 3 && len(target.kids) < 3 && len(t.list) < 14 {
						st.spawnOp(th, target)
					} else {
						st.stopOp(th, target)
					}
				case kind == 6 && restarts && st.untouched(target):
					c.Fault("restart")
					c.Ops++
					st.touched[target.name] = true
					s.Ev(Ev{Actor: target.name, Kind: "restart-call"})
					var err error
					if !CallTimeout(10*time.Second, func() { err = target.pid.Restart(s.Ctx) }) {
						c.Probe("restart-call-hung") // Restart racing another restart of the same actor can wait forever (DESIGN.md, observations)
						st.noQuiet = "Restart(" + target.name + ") never returned"
					}
					s.Ev(Ev{Actor: target.name, Kind: "restart-ret", Aux: fmt.Sprint(err)})
				case kind == 7:
					// failure handled by the supervisor: ErrA restarts, ErrB stops the actor
					ek := 1 - c.W.Draw(2)
					if !restarts || !st.untouched(target) {
						ek = 1
					}
					st.touched[target.name] = true
					c.Fault([]string{"panic:restart-directive", "panic:stop-directive"}[ek])
					s.Ev(Ev{Actor: target.name, Kind: "panic-sent", Aux: ek})
					_ = s.Tell(target.pid, &Cmd{Tag: c.Seq(), From: th, Ops: []Op{{K: OpPanic, N: ek}}})
				default:
					_ = s.Tell(target.pid, genCmd(c, th, k, false))
				}
			}
		})
	}
	Join(fns...)
	// quiescence: nothing is runnable any more once simulated time has passed
	Sleep(300 * time.Millisecond)
	for _, n := range t.list {
		if !n.ok() {
			continue
		}
		f := &c09Final{Running: n.pid.IsRunning(), Suspended: n.pid.IsSuspended(), PostStopped: n.probe.Stopped}
		if st.guarded("ActorSystem.ActorOf", n.name, func() error { _, e := s.Sys.ActorOf(s.Ctx, n.name); return e }) == nil {
			f.Resolvable = true
		}
		if pp := n.pid.Parent(); pp != nil {
			f.Parent = pp.Name()
		}
		for _, ch := range n.pid.Children() {
			f.Children = append(f.Children, ch.Name())
		}
		sort.Strings(f.Children)
		st.final[n.name] = f
	}
	s.Ev(Ev{Actor: "*system*", Kind: "quiescent-snapshot", Aux: s.Sys.Running()})
	c.Note("stops", st.stops)
	c.Note("nodes", len(t.list))
	_ = s.Stop()
}

// c09Recorded: signatures of the defects of the unchanged tree that are written
// up in known_findings.jsonl. They are only used to choose which violation of a
// run is reported when a run has several (an unrecorded one goes first).
var c09Recorded = map[string]bool{}

func init() {
	for _, api := range []string{"PID.Shutdown", "ActorSystem.Kill", "PID.Stop(child)", "ctx.Stop(child)"} {
		c09Recorded["resolvable-after-stop-returned|"+api] = true
	}
	c09Recorded["api-call-panics|ActorSystem.ActorOf"] = true
	c09Recorded["api-call-panics|ActorSystem.Kill"] = true
	c09Recorded["actor-system-stopped-itself|after-stop-directive"] = true
	c09Recorded["live-actor-with-dead-parent|suspended:overlapping-stop-of-descendant"] = true
	for _, k := range []string{"spawn-racing-stop", "descendant-restart-racing-stop", "overlapping-stop-of-descendant", "under-escaped-actor", "under-actor-restarted-during-its-stop"} {
		c09Recorded["ancestor-poststop-before-descendant|"+k] = true
		c09Recorded["live-actor-with-dead-parent|"+k] = true
		c09Recorded["live-actor-parent-not-registered|"+k] = true
		c09Recorded["running-after-stop-returned|"+k] = true
		c09Recorded["children-mismatch|"+k] = true
	}
}

func c09Finish(c *Ctx) {
	st, _ := c.state.(*c09State)
	if st == nil || len(st.final) == 0 && st.stops == 0 {
		return
	}
	t, log := st.t, st.t.s.Log
	dumpLog(log)
	ix := indexLog(log)
	v := &vioSet{}

	// 0. a stop racing a lookup must not crash the process
	for _, e := range log {
		if e.Kind == "api-panic" {
			api, _, _ := strings.Cut(fmt.Sprint(e.Aux), ":")
			v.add("api-call-panics", api, "%s(%q) panicked at event #%d: %v; history: %s", api, e.Actor, e.Seq, e.Aux, lifeHistory(log, e.Actor))
		}
	}

	// 0b. stopping actors must not take the whole actor system down
	for _, e := range log {
		if up, isBool := e.Aux.(bool); e.Kind == "quiescent-snapshot" && isBool && !up {
			comp := "no-stop-directive-in-run"
			first := ""
			for _, x := range log {
				if x.Kind == "panic-sent" && x.Aux == 1 {
					comp = "after-stop-directive"
				}
				if first == "" && (x.Kind == "stop-ret" || x.Kind == "spawn-ret" || x.Kind == "tell-err") && strings.Contains(fmt.Sprint(x.Aux), "actor system is not running") {
					first = x.String()
				}
			}
			var why []string
			for _, l := range *st.logged {
				if strings.Contains(l, "going to shutdown") || strings.Contains(l, "GoAkt") || strings.Contains(l, "panic") || strings.Contains(l, "nil pointer") {
					why = append(why, l)
				}
			}
			if len(why) > 8 {
				why = why[:8]
			}
			v.add("actor-system-stopped-itself", comp, "ActorSystem.Running() is false at quiescence although nobody called ActorSystem.Stop (first API call refused with 'actor system is not running': %s); goakt logged: %q; log tail: %s", first, why, st.t.s.Tail(12))
		}
	}

	// 1. children first
	orderOracle(v, t, log, ix, "")

	// 2. nothing of the subtree is running once the stop call has returned
	for _, e := range log {
		o, isChk := e.Aux.(chkObs)
		if e.Kind != "chk" || !isChk || !o.Running {
			continue
		}
		if ps, known := ix.prestart[e.Actor][o.IncRun]; known && ps > o.CallSeq {
			c.Probe("chk-skipped:reincarnated-since-stop-call")
			continue
		}
		d, x := t.nodes[e.Actor], t.nodes[o.Target]
		kind := "stop-target"
		if d != x {
			kind = ix.raceKind(x, d, o.IncRun, lastPostStop(log, x.name))
		}
		v.add("running-after-stop-returned", kind, "%s/%d (started at #%d) is running at event #%d although %s of %s (called at #%d) has returned nil; history: %s",
			e.Actor, o.IncRun, ix.prestart[e.Actor][o.IncRun], e.Seq, o.API, o.Target, o.CallSeq, lifeHistory(log, o.Target, e.Actor))
	}

	// 3. tree consistency at quiescence
	if st.noQuiet != "" {
		c.Probe("quiescence-skipped:restart-hung")
	} else if len(st.final) > 0 {
		live := func(n *stNode) bool {
			f := st.final[n.name]
			// a suspended actor awaits its supervisor's verdict: not stopped. (A handler that
			// fails after its actor was stopped from outside leaves the suspended flag on a
			// dead PID - PostStop has run - which does not make it live.)
			return f != nil && (f.Running || f.Suspended && !f.PostStopped)
		}
		for _, n := range t.list {
			f := st.final[n.name]
			if f == nil {
				continue
			}
			if live(n) && n.parent != nil {
				pf := st.final[n.parent.name]
				kind := ix.raceKind(n.parent, n, n.probe.Inc, lastPostStop(log, n.parent.name))
				if live(n.parent) && n.probe.Inc == 1 && ix.underRestartedDuringItsStop(n, len(log)) {
					kind = "under-actor-restarted-during-its-stop" // the parent lives on: restarts up to now count
				}
				if f.Suspended && !f.Running && (kind == "overlapping-stop-of-descendant" || kind == "settled-descendant") {
					// failed, waiting for a verdict that its stopped parent will never give (for the
					// kinds that are consequences of another recorded race the flag adds nothing)
					kind = "suspended:" + kind
				}
				if !live(n.parent) {
					v.add("live-actor-with-dead-parent", kind,
						"at quiescence %s/%d is live (running=%v suspended=%v, registered=%v, Parent()=%q) while its parent %s is stopped (running=%v registered=%v); history: %s",
						n.name, n.probe.Inc, f.Running, f.Suspended, f.Resolvable, f.Parent, n.parent.name, pf.Running, pf.Resolvable, lifeHistory(log, n.parent.name, n.name))
				} else if !pf.Resolvable || f.Parent != n.parent.name {
					v.add("live-actor-parent-not-registered", kind,
						"at quiescence %s/%d is live, its parent %s is live, but the tree says: parent registered=%v, %s.Parent()=%q; history: %s",
						n.name, n.probe.Inc, n.parent.name, pf.Resolvable, n.name, f.Parent, lifeHistory(log, n.parent.name, n.name))
				}
			}
			if live(n) {
				// compared over the children whose spawn returned nil: a child whose SpawnChild
				// returned an error has no PID the harness could ask (it can still exist: a
				// Restart of an ancestor snapshots it, stops it - SpawnChild then reports ErrDead -
				// and starts it again; that is a spawn-contract matter, not tree consistency)
				var want, got []string
				okKid := map[string]bool{}
				for _, k := range n.kids {
					okKid[k.name] = k.ok()
					if kf := st.final[k.name]; kf != nil && kf.Running {
						want = append(want, k.name)
					}
				}
				for _, g := range f.Children {
					if isKid, known := okKid[g]; known && !isKid {
						c.Probe("child-of-failed-spawn-is-running")
						continue
					}
					got = append(got, g)
				}
				sort.Strings(want)
				if strings.Join(want, ",") != strings.Join(got, ",") {
					kind := "quiescence"
					inGot := map[string]bool{}
					for _, g := range f.Children {
						inGot[g] = true
					}
					for _, k := range n.kids {
						if kf := st.final[k.name]; kf != nil && kf.Running && !inGot[k.name] {
							kind = ix.raceKind(n, k, k.probe.Inc, lastPostStop(log, n.name))
							if k.probe.Inc == 1 && ix.underRestartedDuringItsStop(k, len(log)) {
								kind = "under-actor-restarted-during-its-stop"
							}
							break
						}
					}
					if ix.escaped(n) {
						kind = "under-escaped-actor"
					}
					v.add("children-mismatch", kind, "at quiescence %s.Children()=%v but its running children are %v; history: %s", n.name, f.Children, want, lifeHistory(log, append([]string{n.name}, want...)...))
				}
			}
		}
		for _, n := range t.list {
			if f := st.final[n.name]; f != nil && !live(n) && f.Resolvable {
				v.add("stopped-actor-still-registered", "quiescence", "at quiescence %s is stopped (PostStop done=%v) but ActorOf(%q) still resolves it; history: %s", n.name, n.probe.Stopped, n.name, lifeHistory(log, n.name))
			}
		}
	}

	// 4. not resolvable by name once the stop call has returned
	for _, e := range log {
		o, isChk := e.Aux.(chkObs)
		if e.Kind != "chk" || !isChk || !o.Resolvable {
			continue
		}
		if ps, known := ix.prestart[e.Actor][o.IncRes]; known && ps > o.CallSeq {
			continue
		}
		v.add("resolvable-after-stop-returned", o.API, "ActorOf(%q) succeeded at event #%d (IsRunning=%v) although %s of %s (called at #%d) has returned nil; history: %s",
			e.Actor, e.Seq, o.Running, o.API, o.Target, o.CallSeq, lifeHistory(log, o.Target, e.Actor))
	}
	v.report(c, c09Recorded)
}

// ------------------------------------------------------------------ C17

// c17Cur is the state of the run in progress: grains re-created by goakt from its
// type registry are zero values and find their run through it.
var c17Cur *c17State

type c17Grain struct {
	name     string
	identity *actor.GrainIdentity
}

type c17State struct {
	t        *stTree
	grains   []*c17Grain
	dead     map[int]bool // tags seen on the dead-letter topic
	stopRet  bool
	stopCall bool
	sends    map[int]string // tag -> target
}

// GProbe is the scripted grain.
type GProbe struct {
	Name string
}

func (g *GProbe) OnActivate(_ context.Context, props *actor.GrainProps) error {
	g.Name = props.Identity().Name()
	st := c17Cur
	st.t.s.Ev(Ev{Actor: g.Name, Kind: "grain-activate-enter"})
	Yield()
	st.t.s.Ev(Ev{Actor: g.Name, Kind: "grain-activate-exit"})
	return nil
}

func (g *GProbe) OnDeactivate(context.Context, *actor.GrainProps) error {
	st := c17Cur
	st.t.s.Ev(Ev{Actor: g.Name, Kind: "grain-deactivate-enter"})
	Yield()
	Yield()
	st.t.s.Ev(Ev{Actor: g.Name, Kind: "grain-deactivate-exit"})
	return nil
}

func (g *GProbe) OnReceive(gc *actor.GrainContext) {
	st := c17Cur
	m, isCmd := gc.Message().(*Cmd)
	if !isCmd {
		gc.Unhandled()
		return
	}
	st.t.s.Ev(Ev{Actor: g.Name, Kind: "grain-recv-enter", Tag: m.Tag, From: m.From})
	respond := false
	for _, op := range m.Ops {
		switch op.K {
		case OpWork:
			Sleep(op.D)
		case OpYield:
			for i := 0; i < max(op.N, 1); i++ {
				Yield()
			}
		case OpRespond:
			respond = true
		}
	}
	st.t.s.Ev(Ev{Actor: g.Name, Kind: "grain-recv-exit", Tag: m.Tag, From: m.From})
	if respond {
		gc.Response(&Reply{Tag: m.Tag, From: g.Name})
	} else {
		gc.NoErr()
	}
}

func c17Run(c *Ctx) {
	actor.VerifDrainGrainContextPool() // every run starts with the same (empty) pool: see the helper
	s := StartSys(c, "c17", sysOpts(c)...)
	t := newStTree(c, s)
	st := &c17State{t: t, dead: map[int]bool{}, sends: map[int]string{}}
	c.state = st
	c17Cur = st
	c.Comp = "system-stop"
	// dead letters
	sub, err := s.Sys.Subscribe()
	if err != nil {
		c.Fail("subscribe-failed", "events", "%v", err)
		return
	}
	drain := func() {
		for m := range sub.Iterator() {
			if dl, isDL := m.Payload().(*actor.Deadletter); isDL {
				if cm, isCmd := dl.Message().(*Cmd); isCmd {
					st.dead[cm.Tag] = true
					s.Ev(Ev{Actor: dl.Receiver().Name(), Kind: "deadletter", Tag: cm.Tag})
				}
			}
		}
	}
	// No polling collector thread: the subscriber's queue is unbounded and keeps what was
	// published before the stream is closed, so it is drained right after Stop returned
	// and once more at the end of the run.
	if !t.build(8) {
		_ = s.Stop()
		return
	}
	ng := c.W.Draw(4)
	for i := 0; i < ng; i++ {
		name := fmt.Sprintf("g%d", i)
		id, err := s.Sys.GrainIdentity(s.Ctx, name, func(context.Context) (actor.Grain, error) { return &GProbe{}, nil },
			actor.WithGrainDeactivateAfter(30*time.Minute))
		if err != nil {
			c.Fail("grain-activation-failed", name, "%v", err)
			_ = s.Stop()
			return
		}
		st.grains = append(st.grains, &c17Grain{name: name, identity: id})
	}
	c.Note("grains", ng)
	spawnsDuringStop := c.W.Draw(4) == 3
	c.Note("spawns_during_stop", spawnsDuringStop)
	killsDuringStop := c.W.Draw(4) == 2 // user code stopping actors of its own while the system shuts down
	c.Note("kills_during_stop", killsDuringStop)

	send := func(th, k int) {
		cmd := &Cmd{Tag: c.Seq(), From: th, Seq: k}
		switch c.W.Draw(6) {
		case 1, 2:
			cmd.Ops = []Op{{K: OpYield, N: 1 + c.W.Draw(3)}}
		case 3:
			cmd.Ops = []Op{{K: OpWork, D: time.Duration(1+c.W.Draw(3)) * time.Millisecond}}
		}
		c.Ops++
		if len(st.grains) > 0 && c.W.Draw(3) == 0 {
			g := st.grains[c.W.Draw(len(st.grains))]
			st.sends[cmd.Tag] = g.name
			if c.W.Draw(3) == 0 {
				cmd.Ops = append(cmd.Ops, Op{K: OpRespond})
				s.Ev(Ev{Actor: g.name, Kind: "send-call", Tag: cmd.Tag, From: th, Aux: "AskGrain"})
				_, err := s.Sys.AskGrain(s.Ctx, g.identity, cmd, 2*time.Second)
				s.Ev(Ev{Actor: g.name, Kind: "send-ret", Tag: cmd.Tag, From: th, Aux: fmt.Sprint(err)})
				return
			}
			s.Ev(Ev{Actor: g.name, Kind: "send-call", Tag: cmd.Tag, From: th, Aux: "TellGrain"})
			err := s.Sys.TellGrain(s.Ctx, g.identity, cmd)
			s.Ev(Ev{Actor: g.name, Kind: "send-ret", Tag: cmd.Tag, From: th, Aux: fmt.Sprint(err)})
			return
		}
		n := t.pick(nil)
		st.sends[cmd.Tag] = n.name
		s.Ev(Ev{Actor: n.name, Kind: "send-call", Tag: cmd.Tag, From: th, Aux: "Tell"})
		err := actor.Tell(s.Ctx, n.pid, cmd)
		s.Ev(Ev{Actor: n.name, Kind: "send-ret", Tag: cmd.Tag, From: th, Aux: fmt.Sprint(err)})
	}

	nthreads := 2 + c.W.Draw(2)
	var fns []func()
	for th := 0; th < nthreads; th++ {
		nsend := 4 + c.W.Draw(12)
		fns = append(fns, func() {
			for k := 0; k < nsend && !st.stopRet; k++ {
				send(th, k)
				if st.stopCall {
					// Stop is under way: simulated time stands still while it is runnable,
					// so pace with scheduling points to spread the sends over the shutdown
					for i := c.W.Draw(40); i > 0; i-- {
						Yield()
					}
				} else {
					switch c.W.Draw(5) {
					case 1:
						Sleep(time.Duration(c.W.Draw(3)) * time.Millisecond)
					case 2:
						Yield()
					}
				}
				if killsDuringStop && st.stopCall && !st.stopRet && c.W.Draw(3) == 0 {
					n := t.pick(nil)
					c.Fault("kill-near-system-stop")
					s.Ev(Ev{Actor: n.name, Kind: "stop-call", Aux: "ActorSystem.Kill"})
					CallTimeout(time.Minute, func() {
						// Kill has been seen to dereference a nil PID (tree node cleared by a
						// concurrent deleteNode): log it instead of crashing the worker
						defer func() {
							if r := recover(); r != nil {
								s.Ev(Ev{Actor: n.name, Kind: "api-panic", Aux: "ActorSystem.Kill: " + fmt.Sprint(r)})
							}
						}()
						e := s.Sys.Kill(s.Ctx, n.name)
						s.Ev(Ev{Actor: n.name, Kind: "stop-ret", Aux: fmt.Sprint(e)})
					})
				}
				if spawnsDuringStop && !st.stopRet && c.W.Draw(4) == 0 && len(t.list) < 12 {
					if p := t.pick(func(n *stNode) bool { return n.depth < 3 && len(n.kids) < 3 }); p != nil {
						c.Fault("spawn-near-system-stop")
						t.spawnChild(p, true)
					}
				}
			}
			// keep sending until Stop has returned, then a few sends more
			WaitUntil(time.Millisecond, time.Minute, func() bool { return st.stopRet })
			for k, late := 0, 1+c.W.Draw(2); k < late; k++ {
				c.Fault("send-after-system-stop")
				send(th, 1000+k)
			}
		})
	}
	fns = append(fns, func() {
		switch c.W.Draw(3) {
		case 0:
			for i := c.W.Draw(40); i > 0; i-- {
				Yield()
			}
		case 1:
			Sleep(time.Duration(c.W.Draw(4)) * time.Millisecond)
		case 2:
			Sleep(time.Duration(c.W.Draw(3)) * time.Millisecond)
			for i := c.W.Draw(20); i > 0; i-- {
				Yield()
			}
		}
		s.Stopped = true
		st.stopCall = true
		s.Ev(Ev{Actor: "*system*", Kind: "sysstop-call"})
		var err error
		if !CallTimeout(10*time.Minute, func() { err = s.Sys.Stop(s.Ctx) }) {
			c.Fail("system-stop-never-returned", "ActorSystem.Stop", "Stop did not return within 10 min of simulated time; log tail: %s", s.Tail(20))
		}
		s.Ev(Ev{Actor: "*system*", Kind: "sysstop-ret", Aux: fmt.Sprint(err)})
		st.stopRet = true
		drain()
	})
	Join(fns...)
	Sleep(100 * time.Millisecond) // whatever is still inside a dispatcher turn runs now
	drain()
	s.Ev(Ev{Actor: "*system*", Kind: "run-end"})
}

// c17Taint names the recorded race an actor was exposed to (component suffix, so that
// the consequences of a recorded defect do not share a signature with anything else):
// its own spawn (or an ancestor's) overlapped the shutdown, or user code was stopping
// it or an ancestor while ActorSystem.Stop ran.
func c17Taint(n *stNode, ix *stopIndex, stopCall, stopRet int) string {
	for q := n; q != nil; q = q.parent {
		if q.dyn && (q.spawnRet < 0 || q.spawnRet > stopCall) {
			return "actor-spawned-during-stop"
		}
	}
	for q := n; q != nil; q = q.parent {
		for _, s := range ix.stopInit[q.name] {
			if s < stopRet {
				return "stop-of-ancestor-overlapping-system-stop"
			}
		}
	}
	return ""
}

// c17Recorded: see c09Recorded.
var c17Recorded = map[string]bool{
	"ancestor-poststop-before-descendant|system-stop:spawn-racing-stop":                        true,
	"ancestor-poststop-before-descendant|system-stop:overlapping-stop-of-descendant":           true,
	"ancestor-poststop-before-descendant|system-stop:stop-of-ancestor-overlapping-system-stop": true,
	"poststop-never-ran|actor-spawned-during-stop":                                             true,
	"poststop-never-ran|stop-of-ancestor-overlapping-system-stop":                              true,
	"poststop-after-stop-returned|stop-of-ancestor-overlapping-system-stop":                    true,
	"send-accepted-after-system-stop|Tell:to-actor-spawned-during-stop":                        true,
	"send-accepted-after-system-stop|Tell:to-stop-of-ancestor-overlapping-system-stop":         true,
	"handler-entry-after-stop-returned|start-hook:actor-spawned-during-stop":                   true,
	"handler-entry-after-stop-returned|actor:actor-spawned-during-stop":                        true,
	"ancestor-poststop-before-descendant|system-stop:under-escaped-actor":                      true,
	"api-call-panics|ActorSystem.Kill":                                                         true,
}

func c17Finish(c *Ctx) {
	st, _ := c.state.(*c17State)
	if st == nil || !st.stopRet {
		return
	}
	t, log := st.t, st.t.s.Log
	dumpLog(log)
	ix := indexLog(log)
	stopCall, stopRet := -1, -1
	for _, e := range log {
		switch e.Kind {
		case "sysstop-call":
			stopCall = e.Seq
		case "sysstop-ret":
			stopRet = e.Seq
		}
	}
	if stopCall < 0 || stopRet < 0 {
		return
	}
	v := &vioSet{}

	// 0. a stop racing the shutdown must not crash the process
	for _, e := range log {
		if e.Kind == "api-panic" {
			api, _, _ := strings.Cut(fmt.Sprint(e.Aux), ":")
			v.add("api-call-panics", api, "%s(%q) panicked at event #%d: %v; history: %s", api, e.Actor, e.Seq, e.Aux, lifeHistory(log, e.Actor))
		}
	}

	// 1. children before parents
	orderOracle(v, t, log, ix, "system-stop:")

	// 2. PostStop exactly once per user actor, all of them by the time Stop returns
	stopsBefore, stopsAfter := map[string]int{}, map[string]int{}
	firstAfter := map[string]int{}
	for _, e := range log {
		if e.Kind == "poststop-enter" {
			if e.Seq < stopRet {
				stopsBefore[e.Actor]++
			} else {
				stopsAfter[e.Actor]++
				if _, seen := firstAfter[e.Actor]; !seen {
					firstAfter[e.Actor] = e.Seq
				}
			}
		}
	}
	for _, n := range t.list {
		if !n.ok() {
			continue
		}
		comp := c17Taint(n, ix, stopCall, stopRet)
		if comp == "" {
			comp = "actor-running-when-stop-began"
		}
		total := stopsBefore[n.name] + stopsAfter[n.name]
		switch {
		case total > 1:
			v.add("poststop-more-than-once", comp, "PostStop of %s ran %d times; history: %s", n.name, total, lifeHistory(log, n.name))
		case total == 0:
			v.add("poststop-never-ran", comp, "%s (spawn returned nil at #%d; Stop called at #%d, returned at #%d) never had its PostStop run; running now=%v; history: %s",
				n.name, n.spawnRet, stopCall, stopRet, n.pid.IsRunning(), lifeHistory(log, n.name, parentName(n)))
		case stopsAfter[n.name] == 1 && n.spawnRet < stopRet:
			v.add("poststop-after-stop-returned", comp, "PostStop of %s ran at #%d, after ActorSystem.Stop had returned at #%d; history: %s", n.name, firstAfter[n.name], stopRet, lifeHistory(log, n.name))
		}
	}

	// 3. every active grain deactivated exactly once
	act, deact := map[string]int{}, map[string]int{}
	actAtCall, deactAtCall := map[string]int{}, map[string]int{}
	deactAtRet := map[string]int{}
	for _, e := range log {
		switch e.Kind {
		case "grain-activate-exit":
			act[e.Actor]++
			if e.Seq < stopCall {
				actAtCall[e.Actor]++
			}
		case "grain-deactivate-enter":
			deact[e.Actor]++
			if e.Seq < stopCall {
				deactAtCall[e.Actor]++
			}
			if e.Seq < stopRet {
				deactAtRet[e.Actor]++
			}
		}
	}
	for _, g := range st.grains {
		activeAtCall := actAtCall[g.name] - deactAtCall[g.name]
		during := deactAtRet[g.name] - deactAtCall[g.name]
		reactivated := act[g.name] > actAtCall[g.name]
		switch {
		case activeAtCall == 1 && during == 0:
			v.add("grain-not-deactivated", "active-when-stop-began", "grain %s was active when Stop was called (#%d) but OnDeactivate had not run when Stop returned (#%d); history: %s", g.name, stopCall, stopRet, lifeHistory(log, g.name))
		case deact[g.name] > act[g.name] || (!reactivated && during > 1):
			v.add("grain-deactivated-twice", "active-when-stop-began", "grain %s: %d activations, %d deactivations (%d while Stop ran); history: %s", g.name, act[g.name], deact[g.name], during, lifeHistory(log, g.name))
		case act[g.name] > deact[g.name]:
			v.add("grain-active-after-stop", "activated-during-stop", "grain %s: %d activations but %d deactivations at the end of the run (activated again while Stop ran and never deactivated); history: %s", g.name, act[g.name], deact[g.name], lifeHistory(log, g.name))
		}
	}

	// 4. no handler entry after Stop returned
	for _, e := range log {
		if e.Seq <= stopRet {
			if e.Seq > stopCall && (e.Kind == "recv-enter" || e.Kind == "grain-recv-enter") {
				c.Probe("handler-entry-while-stop-runs")
			}
			continue
		}
		switch e.Kind {
		case "recv-enter":
			comp := "actor"
			if n := t.nodes[e.Actor]; n != nil && c17Taint(n, ix, stopCall, stopRet) != "" {
				comp += ":" + c17Taint(n, ix, stopCall, stopRet)
			}
			v.add("handler-entry-after-stop-returned", comp, "Receive of %s entered at #%d (tag %d, goroutine %s) after ActorSystem.Stop returned at #%d; history: %s", e.Actor, e.Seq, e.Tag, e.G, stopRet, lifeHistory(log, e.Actor))
		case "grain-recv-enter":
			v.add("handler-entry-after-stop-returned", "grain", "OnReceive of grain %s entered at #%d (tag %d, goroutine %s) after ActorSystem.Stop returned at #%d; history: %s", e.Actor, e.Seq, e.Tag, e.G, stopRet, lifeHistory(log, e.Actor))
		case "prestart-enter", "grain-activate-enter":
			comp := "start-hook"
			if n := t.nodes[e.Actor]; n != nil && c17Taint(n, ix, stopCall, stopRet) != "" {
				comp += ":" + c17Taint(n, ix, stopCall, stopRet)
			}
			v.add("handler-entry-after-stop-returned", comp, "%s of %s entered at #%d after ActorSystem.Stop returned at #%d; history: %s", e.Kind, e.Actor, e.Seq, stopRet, lifeHistory(log, e.Actor, parentName(t.nodes[e.Actor])))
		}
	}

	// 5. sends to stopped actors fail or go to dead letters
	postStopExit := map[string]int{}
	for _, e := range log {
		if e.Kind == "poststop-exit" {
			postStopExit[e.Actor] = e.Seq
		}
	}
	handled := map[int]bool{}
	for _, e := range log {
		if e.Kind == "recv-enter" || e.Kind == "grain-recv-enter" {
			handled[e.Tag] = true
		}
	}
	calls := map[int]Ev{}
	for _, e := range log {
		switch e.Kind {
		case "send-call":
			calls[e.Tag] = e
			if e.Seq > stopCall && e.Seq < stopRet {
				c.Probe("send-while-stop-runs")
			}
		case "send-ret":
			call := calls[e.Tag]
			if e.Aux != "<nil>" || st.dead[e.Tag] {
				continue
			}
			api := fmt.Sprint(call.Aux)
			if n := t.nodes[e.Actor]; n != nil && c17Taint(n, ix, stopCall, stopRet) != "" {
				api += ":to-" + c17Taint(n, ix, stopCall, stopRet)
			}
			if call.Seq > stopRet {
				v.add("send-accepted-after-system-stop", api, "%s to %s (tag %d) called at #%d, after ActorSystem.Stop returned at #%d, returned nil and the message is not among the dead letters (handled=%v)", api, e.Actor, e.Tag, call.Seq, stopRet, handled[e.Tag])
			} else if pe, stopped := postStopExit[e.Actor]; stopped && call.Seq > pe && !handled[e.Tag] {
				v.add("send-to-stopped-actor-accepted", api, "%s to %s (tag %d) called at #%d, after its PostStop completed at #%d, returned nil and the message is not among the dead letters", api, e.Actor, e.Tag, call.Seq, pe)
			}
		}
	}
	v.report(c, c17Recorded)
}

func parentName(n *stNode) string {
	if n == nil || n.parent == nil {
		return ""
	}
	return n.parent.name
}

func init() {
	Register(&Scenario{Prop: "C09", Name: "subtree-stop", Variants: []string{"stock"}, Quick: 2500, Thorough: 200000,
		EstSteps: 6000, MaxSteps: 600000, MaxIdle: time.Hour, Real: sysReal, Stub: sysStub, Run: c09Run, Finish: c09Finish})
	Register(&Scenario{Prop: "C17", Name: "system-stop", Variants: []string{"stock"}, Quick: 2500, Thorough: 200000,
		EstSteps: 6000, MaxSteps: 600000, MaxIdle: time.Hour, Real: append([]string{"actor grains (grain engine, grain PID, grain mailbox, PoisonPill deactivation)"}, sysReal...), Stub: sysStub, Run: c17Run, Finish: c17Finish})
}

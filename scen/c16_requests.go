package scen

// C16 — every reentrant request completes exactly once, on the requester's turn.
//
// Statement (properties.jsonl): each Request/RequestName completes exactly once
// with a reply, an error, a timeout or a cancellation, and its continuation runs
// on the requesting actor's turn. In StashNonReentrant mode no ordinary message is
// handled while a blocking request is outstanding and the held messages are
// handled afterwards in arrival order; the in-flight limit is never exceeded and
// the in-flight counters return to zero.
//
// Workload: 1–2 requester probes spawned WithReentrancy (AllowAll or
// StashNonReentrant, MaxInFlight 0–3, per-call mode overrides) receive, from 2–4
// driver threads, "issue" commands (1–3 Request/RequestName calls each, every one
// followed by Then inside the handler), ordinary commands, and external Cancel() calls. Targets reply at
// once, after simulated work (around / after the request timeout, which is drawn
// on the same grid ±1 ns), never, or stop themselves; a chaos thread may shut a
// target or a requester down mid-flight.
//
// Oracle — online (in the continuation / handler) and over the log:
//  1. at most one continuation per request; a "reply" completion carries the
//     reply to that very request and the target did issue it; "timeout" only with
//     a timeout set and not before issue+timeout; "canceled" only after Cancel()
//     or a requester shutdown;
//  2. at quiescence every admitted request of a requester that is still alive
//     has completed if the target answered it, it had a timeout, or Cancel() was
//     called on it;
//  3. the continuation never overlaps a Receive / another continuation of the same
//     requester on another goroutine, and (when not nested in the issuing
//     handler) runs while a dispatcher worker holds the requester's turn;
//  4. stash mode: no command is handled by the requester between the admission of a
//     blocking request and its continuation; commands that arrived in that window
//     are afterwards handled in arrival order (a before b when a's Tell returned
//     before b's Tell began, or same sender), and none is lost;
//  5. outstanding requests never exceed MaxInFlight (model at every admission,
//     real counter at every scheduler step); a rejection with
//     ErrReentrancyInFlightLimit happens only at the limit; at quiescence both
//     counters equal the number of requests still legitimately outstanding (0 when
//     everything completed).

import (
	"errors"
	"fmt"
	"os"
	"runtime"
	"sort"
	"strings"
	"time"

	"github.com/tochemey/goakt/v4/actor"
	gerrors "github.com/tochemey/goakt/v4/errors"
	"github.com/tochemey/goakt/v4/log"
	"github.com/tochemey/goakt/v4/reentrancy"
	"github.com/tochemey/goakt/v4/supervisor"
	"github.com/tochemey/goakt/v4/zzverif/simrt"
)

type c16Spec struct {
	tag      int
	target   int
	byName   bool
	ops      []Op            // what the target does with the request
	replies  bool            // the script contains OpRespond
	timeout  time.Duration   // 0 = none
	override reentrancy.Mode // 0 (Off) = no per-call override
	cancelIn bool            // Cancel() right after Then, still inside the issuing handler
}

type c16Req struct {
	spec      *c16Spec
	q         *c16Q
	inc       int
	mode      reentrancy.Mode // effective mode
	issueSeq  int
	issueT    time.Duration
	admitted  bool
	admitSeq  int
	rejErr    error
	call      actor.RequestCall
	doneN     int
	doneSeq   int
	doneT     time.Duration
	kind      string
	cancelSeq int // log seq of the first Cancel() call, -1 if none
	abandoned bool
}

func (r *c16Req) String() string {
	return fmt.Sprintf("request{tag=%d by=%s/%d mode=%s target=t%d timeout=%v issued=#%d@%v admitted=%v completions=%d kind=%q done=#%d@%v cancel=#%d}",
		r.spec.tag, r.q.name, r.inc, c16Mode(r.mode), r.spec.target, r.spec.timeout, r.issueSeq, r.issueT, r.admitted, r.doneN, r.kind, r.doneSeq, r.doneT, r.cancelSeq)
}

func c16Mode(m reentrancy.Mode) string {
	switch m {
	case reentrancy.AllowAll:
		return "AllowAll"
	case reentrancy.StashNonReentrant:
		return "StashNonReentrant"
	}
	return "Off"
}

type c16Q struct {
	name    string
	pid     *actor.PID
	probe   *Probe
	mode    reentrancy.Mode
	max     int
	inCont  string
	stopSeq int // log seq at which a shutdown of this requester was issued, -1 if never
	reqs    []*c16Req
}

type c16State struct {
	c       *Ctx
	s       *Sys
	qs      []*c16Q
	targets []c15Target
	deaths  int
	reqs    []*c16Req
}

// outstanding counts the admitted, not yet completed requests of q (all / blocking).
func (q *c16Q) outstanding() (all, blocking int) {
	for _, r := range q.reqs {
		if r.admitted && r.doneN == 0 && !r.abandoned {
			all++
			if r.mode == reentrancy.StashNonReentrant {
				blocking++
			}
		}
	}
	return
}

func (st *c16State) targetScript() (ops []Op, d time.Duration, replies bool) {
	c := st.c
	switch c.W.Draw(8) {
	case 0, 1, 2:
		return []Op{{K: OpRespond}}, 0, true
	case 3, 4:
		d = c15Grid[c.W.Draw(len(c15Grid))]
		return []Op{{K: OpWork, D: d}, {K: OpRespond}}, d, true
	case 5:
		return nil, 0, false
	case 6:
		d = c15Grid[c.W.Draw(len(c15Grid))]
		return []Op{{K: OpWork, D: d}}, d, false
	default:
		if st.deaths > 0 {
			// at most one target stops itself per run (afterwards requests to it are rejected with ErrDead)
			st.deaths--
			c.Fault("target-self-shutdown")
			return []Op{{K: OpShutdown}}, 0, false
		}
		return []Op{{K: OpYield, N: 2}, {K: OpRespond}}, 0, true
	}
}

func (st *c16State) genSpec() *c16Spec {
	c := st.c
	sp := &c16Spec{tag: c.Seq(), target: c.W.Draw(len(st.targets)), byName: c.W.Draw(3) == 1}
	var d time.Duration
	sp.ops, d, sp.replies = st.targetScript()
	base := d
	if base == 0 {
		base = time.Millisecond
	}
	switch sel := c.W.Draw(8); sel {
	case 0:
		sp.timeout = 20 * time.Millisecond
	case 1, 2, 3:
		sp.timeout = base + time.Duration(sel-2)
	case 4, 5:
		sp.timeout = base + time.Millisecond + time.Duration(sel-4)
	case 6:
		sp.timeout = 4 * time.Millisecond
	case 7:
		if sp.replies {
			sp.timeout = 0 // no timeout: only the reply (or a Cancel) completes it
		} else {
			sp.timeout = 2 * time.Millisecond
		}
	}
	switch c.W.Draw(6) {
	case 1:
		sp.override = reentrancy.StashNonReentrant
	case 2:
		sp.override = reentrancy.AllowAll
	}
	sp.cancelIn = c.W.Draw(8) == 1
	return sp
}

// issue runs on the requester's turn (inside a handler or a continuation).
func (st *c16State) issue(rc *actor.ReceiveContext, q *c16Q, sp *c16Spec) {
	s, c := st.s, st.c
	r := &c16Req{spec: sp, q: q, inc: q.probe.Inc, mode: q.mode, cancelSeq: -1}
	var opts []actor.RequestOption
	if sp.override != reentrancy.Off {
		r.mode = sp.override
		opts = append(opts, actor.WithReentrancyMode(sp.override))
	}
	if sp.timeout > 0 {
		opts = append(opts, actor.WithRequestTimeout(sp.timeout))
	}
	st.reqs = append(st.reqs, r)
	q.reqs = append(q.reqs, r)
	before, _ := q.outstanding()
	c.Ops++
	r.issueT = Now()
	r.issueSeq = s.Ev(Ev{Actor: q.name, Inc: r.inc, Kind: "req-issue", Tag: sp.tag, Aux: fmt.Sprintf("%s target=t%d timeout=%v byName=%v script=%s", c16Mode(r.mode), sp.target, sp.timeout, sp.byName, c16Ops(sp.ops))})
	tg := st.targets[sp.target]
	msg := &Cmd{Tag: sp.tag, From: 100, Ops: sp.ops}
	var call actor.RequestCall
	if sp.byName {
		call = rc.RequestName(tg.name, msg, opts...)
	} else {
		call = rc.Request(tg.pid, msg, opts...)
	}
	err := actor.VerifRCErr(rc)
	rc.Err(nil)
	if call == nil {
		r.rejErr = err
		s.Ev(Ev{Actor: q.name, Inc: r.inc, Kind: "req-rejected", Tag: sp.tag, Aux: err})
		if errors.Is(err, gerrors.ErrReentrancyInFlightLimit) {
			c.Probe("rejected-inflight-limit")
			// (no claim once a shutdown of the requester has begun: it resets the counters
			// while the handler may still be running)
			if q.stopSeq < 0 && (q.max <= 0 || before < q.max) {
				c.Fail("inflight-spurious-rejection", c16Mode(q.mode), "%s was rejected with ErrReentrancyInFlightLimit although only %d request(s) of %s were outstanding (MaxInFlight=%d): the in-flight counter has drifted; outstanding: %s; log tail: %s", r, before, q.name, q.max, st.pending(q), s.Tail(14))
			}
		} else {
			c.Probe("rejected-other")
		}
		return
	}
	r.admitted = true
	r.call = call
	r.admitSeq = s.Ev(Ev{Actor: q.name, Inc: r.inc, Kind: "req-admitted", Tag: sp.tag})
	if q.stopSeq < 0 && q.max > 0 && before+1 > q.max {
		c.Fail("inflight-limit-exceeded", c16Mode(q.mode), "%s was admitted as outstanding request number %d of %s, MaxInFlight=%d; outstanding: %s", r, before+1, q.name, q.max, st.pending(q))
	}
	call.Then(func(resp any, err error) { st.onDone(r, resp, err) })
	if sp.cancelIn {
		st.cancel(r, "in-handler")
	}
}

func (st *c16State) pending(q *c16Q) string {
	var l []string
	for _, r := range q.reqs {
		if r.admitted && r.doneN == 0 && !r.abandoned {
			l = append(l, fmt.Sprintf("tag %d (%s, admitted #%d)", r.spec.tag, c16Mode(r.mode), r.admitSeq))
		}
	}
	return "[" + strings.Join(l, ", ") + "]"
}

func (st *c16State) cancel(r *c16Req, where string) {
	seq := st.s.Ev(Ev{Actor: r.q.name, Inc: r.inc, Kind: "req-cancel-call", Tag: r.spec.tag, Aux: where})
	if r.cancelSeq < 0 && r.doneN == 0 {
		r.cancelSeq = seq
	}
	st.c.Fault("cancel:" + where)
	call := r.call
	_ = call.Cancel()
}

// onDone is the continuation of every request.
func (st *c16State) onDone(r *c16Req, resp any, err error) {
	s, c, q := st.s, st.c, r.q
	g := simrt.ThreadID()
	r.doneN++
	kind := "reply"
	switch {
	case err == nil:
	case errors.Is(err, gerrors.ErrRequestTimeout):
		kind = "timeout"
	case errors.Is(err, gerrors.ErrRequestCanceled):
		kind = "canceled"
	default:
		kind = "error:" + err.Error()
	}
	seq := s.Ev(Ev{Actor: q.name, Inc: r.inc, Kind: "req-done", Tag: r.spec.tag, Aux: fmt.Sprintf("%s resp=%s", kind, c15Render([]any{resp}))})
	if r.doneN > 1 {
		c.Fail("request-completed-twice", c16Mode(r.mode), "continuation of %s ran again (now %q, event #%d); log tail: %s", r, kind, seq, s.Tail(14))
		return
	}
	r.kind, r.doneSeq, r.doneT = kind, seq, Now()
	c.Probe("done:" + strings.SplitN(kind, ":", 2)[0])
	nested := q.probe.inHandler == g
	if q.probe.inHandler != "" && !nested {
		c.Fail("continuation-overlaps-receive", c16Mode(r.mode), "continuation of %s runs on goroutine %s while Receive of %s is in progress on goroutine %s; log tail: %s", r, g, q.name, q.probe.inHandler, s.Tail(14))
		return
	}
	if q.inCont != "" && q.inCont != g {
		c.Fail("continuation-overlaps-continuation", c16Mode(r.mode), "continuation of %s runs on goroutine %s while another continuation of %s is in progress on goroutine %s; log tail: %s", r, g, q.name, q.inCont, s.Tail(14))
		return
	}
	if !nested && q.inCont == "" && !actor.VerifTurnHeld(q.pid) {
		c.Fail("continuation-off-turn", c16Mode(r.mode), "continuation of %s (%s) runs on goroutine %s while no dispatcher worker holds the turn of %s; log tail: %s", r, kind, g, q.name, s.Tail(14))
		return
	}
	if nested {
		c.Probe("continuation-nested-in-handler")
	}
	switch kind {
	case "reply":
		rep, ok := resp.(*Reply)
		if !ok || rep == nil {
			c.Fail("request-wrong-reply", c16Mode(r.mode), "%s completed without error with %T %v, which no target sent", r, resp, resp)
			return
		}
		if rep.Tag != r.spec.tag {
			c.Fail("request-wrong-reply", c16Mode(r.mode), "%s completed with the reply to request tag %d; log tail: %s", r, rep.Tag, s.Tail(14))
			return
		}
	case "timeout":
		if r.spec.timeout == 0 {
			c.Fail("request-timeout-without-timeout", c16Mode(r.mode), "%s completed with ErrRequestTimeout although no timeout was set", r)
			return
		}
		if r.doneT < r.issueT+r.spec.timeout {
			c.Fail("request-timeout-early", c16Mode(r.mode), "%s timed out at %v, before issue+timeout=%v", r, r.doneT, r.issueT+r.spec.timeout)
			return
		}
	case "canceled":
		if r.cancelSeq < 0 && q.stopSeq < 0 {
			c.Fail("request-canceled-without-cancel", c16Mode(r.mode), "%s completed with ErrRequestCanceled although Cancel() was never called and %s was not shut down; log tail: %s", r, q.name, s.Tail(14))
			return
		}
	}
	prev := q.inCont
	q.inCont = g
	simrt.Yield(-260)
	simrt.Yield(-260)
	q.inCont = prev
}

// c16Check is the first op of every command a requester handles.
func (st *c16State) check(q *c16Q) Op {
	return Op{K: OpFunc, F: func(rc *actor.ReceiveContext, p *Probe) {
		g := simrt.ThreadID()
		if q.inCont != "" && q.inCont != g {
			st.c.Fail("continuation-overlaps-receive", c16Mode(q.mode), "Receive of %s entered on goroutine %s while a continuation is in progress on goroutine %s; log tail: %s", q.name, g, q.inCont, st.s.Tail(14))
		}
	}}
}

func c16Run(c *Ctx) {
	st := &c16State{c: c}
	opts := sysOpts(c)
	if os.Getenv("VERIF_DUMPLOG") != "" {
		opts = append(opts, actor.WithLogger(c16Logger{log.DiscardLogger, st}))
	}
	s := StartSys(c, "c16", opts...)
	st.s = s
	c.state = st
	// Let the system actors handle their PostStart first: a top-level actor that
	// terminates before the user guardian has processed PostStart makes the guardian
	// dereference its nil logger (actor/user_guardian.go Receive, *Terminated case),
	// the panic escalates to the root guardian and the actor system stops itself.
	// Genuine, but outside C16 (reported separately); finalChecks still notices it.
	Sleep(time.Millisecond)
	resume := supervisor.NewSupervisor(supervisor.WithAnyErrorDirective(supervisor.ResumeDirective))
	ntg := 1 + c.W.Draw(2)
	for i := 0; i < ntg; i++ {
		name := fmt.Sprintf("t%d", i)
		_, pid, err := s.Spawn(name, actor.WithLongLived(), actor.WithSupervisor(resume))
		if err != nil {
			c.Fail("spawn-failed", name, "%v", err)
			return
		}
		st.targets = append(st.targets, c15Target{name, pid})
	}
	if c.F.Draw(3) == 1 {
		st.deaths = 1
	}
	nq := 1 + c.W.Draw(2)
	var desc []string
	for i := 0; i < nq; i++ {
		q := &c16Q{name: fmt.Sprintf("q%d", i), mode: reentrancy.AllowAll, stopSeq: -1}
		if c.W.Draw(2) == 1 {
			q.mode = reentrancy.StashNonReentrant
		}
		q.max = c.W.Draw(4)
		cfg := reentrancy.New(reentrancy.WithMode(q.mode), reentrancy.WithMaxInFlight(q.max))
		p, pid, err := s.Spawn(q.name, actor.WithLongLived(), actor.WithSupervisor(resume), actor.WithReentrancy(cfg))
		if err != nil {
			c.Fail("spawn-failed", q.name, "%v", err)
			return
		}
		q.pid, q.probe = pid, p
		st.qs = append(st.qs, q)
		desc = append(desc, fmt.Sprintf("%s:%s/max=%d", q.name, c16Mode(q.mode), q.max))
	}
	c.Note("requesters", desc)
	c.Comp = c16Mode(st.qs[0].mode)
	if os.Getenv("VERIF_DUMPLOG") != "" {
		// triage aid (replay only): who runs PostStop
		for _, name := range sortedKeys(s.Probes) {
			p := s.Probes[name]
			p.PostStopErr = func(int) error {
				s.Ev(Ev{Actor: p.Name, Inc: p.Inc, Kind: "poststop-stack", Aux: c16AllStacks()})
				return nil
			}
		}
	}
	nthreads := 2 + c.W.Draw(3)
	var fns []func()
	for t := 0; t < nthreads; t++ {
		n := 3 + c.W.Draw(5)
		seqs := make([]int, nq)
		fns = append(fns, func() {
			for k := 0; k < n; k++ {
				qi := c.W.Draw(nq)
				q := st.qs[qi]
				act := c.W.Draw(6)
				if act == 4 {
					// external Cancel() of a request that is still outstanding
					var cand []*c16Req
					for _, r := range q.reqs {
						if r.admitted && r.doneN == 0 && !r.abandoned {
							cand = append(cand, r)
						}
					}
					if len(cand) > 0 {
						st.cancel(cand[c.W.Draw(len(cand))], "external")
						continue
					}
					act = 2
				}
				switch act {
				case 0, 1:
					cmd := &Cmd{Tag: c.Seq(), From: t, Seq: seqs[qi], Ops: []Op{st.check(q)}}
					seqs[qi]++
					nreq := 1 + c.W.Draw(3)
					var specs []*c16Spec
					for j := 0; j < nreq; j++ {
						specs = append(specs, st.genSpec())
					}
					cmd.Ops = append(cmd.Ops, Op{K: OpFunc, F: func(rc *actor.ReceiveContext, _ *Probe) {
						for _, sp := range specs {
							st.issue(rc, q, sp)
						}
					}})
					if c.W.Draw(3) == 1 {
						cmd.Ops = append(cmd.Ops, Op{K: OpWork, D: time.Millisecond})
					}
					s.Ev(Ev{Actor: q.name, Kind: "tell-start", Tag: cmd.Tag, From: t, MSeq: cmd.Seq})
					_ = s.Tell(q.pid, cmd)
				case 2, 3:
					cmd := &Cmd{Tag: c.Seq(), From: t, Seq: seqs[qi], Ops: []Op{st.check(q)}}
					seqs[qi]++
					if c.W.Draw(3) == 1 {
						cmd.Ops = append(cmd.Ops, Op{K: OpYield, N: 1 + c.W.Draw(2)})
					}
					s.Ev(Ev{Actor: q.name, Kind: "tell-start", Tag: cmd.Tag, From: t, MSeq: cmd.Seq})
					_ = s.Tell(q.pid, cmd)
				case 5:
					Sleep(time.Duration(1+c.W.Draw(3))*time.Millisecond + time.Duration(c.W.Draw(3)-1))
				}
				if c.W.Draw(4) == 1 {
					Sleep(time.Millisecond)
				}
			}
		})
	}
	// chaos: a target or a requester is shut down while requests are in flight
	switch c.F.Draw(4) {
	case 1:
		ti := c.F.Draw(ntg)
		at := time.Duration(c.F.Draw(6)) * time.Millisecond
		fns = append(fns, func() {
			Sleep(at)
			c.Fault("target-shutdown")
			s.Ev(Ev{Actor: st.targets[ti].name, Kind: "chaos-shutdown"})
			CallTimeout(time.Second, func() { _ = st.targets[ti].pid.Shutdown(s.Ctx) })
		})
	case 2:
		qi := c.F.Draw(nq)
		at := time.Duration(c.F.Draw(6)) * time.Millisecond
		fns = append(fns, func() {
			Sleep(at)
			q := st.qs[qi]
			c.Fault("requester-shutdown")
			q.stopSeq = s.Ev(Ev{Actor: q.name, Kind: "chaos-shutdown"})
			CallTimeout(time.Second, func() { _ = q.pid.Shutdown(s.Ctx) })
		})
	}
	Join(fns...)
	// quiescence: every timeout is <= 20 ms and every handler logs at least every
	// 3 ms, so 25 ms without a new log entry means nothing more will happen.
	last := -1
	WaitUntil(25*time.Millisecond, 2*time.Second, func() bool {
		n := len(s.Log)
		quiet := n == last
		last = n
		return quiet
	})
	st.finalChecks()
	c16Dump(c, s)
	_ = s.Stop()
}

// finalChecks runs at quiescence, before the system stops (Stop cancels what is pending).
func (st *c16State) finalChecks() {
	c, s := st.c, st.s
	if c.Failed() {
		return
	}
	if !s.Sys.Running() {
		c.Fail("actor-system-stopped-itself", "c16", "the actor system is no longer running at quiescence although nobody stopped it; log tail: %s", s.Tail(14))
		return
	}
	respSeq := map[int]int{}
	handled := map[int]bool{}
	for _, e := range s.Log {
		switch e.Kind {
		case "respond":
			if _, dup := respSeq[e.Tag]; !dup {
				respSeq[e.Tag] = e.Seq
			}
		case "recv-enter":
			handled[e.Tag] = true
		}
	}
	for _, q := range st.qs {
		if q.stopSeq >= 0 {
			// requests of a requester that was shut down are cancelled without a
			// continuation (actor/pid.go cancelInFlightRequests); only "at most once"
			// and the overlap rules apply to them. Its counters must read zero.
			for _, r := range q.reqs {
				if r.doneN == 0 {
					r.abandoned = true
				}
			}
			if in, bl, ok := actor.VerifReentrancyCounters(q.pid); ok && !q.pid.IsRunning() && (in != 0 || bl != 0) {
				c.Probe("counters-nonzero-after-requester-stop")
			}
			continue
		}
		for _, r := range q.reqs {
			if !r.admitted || r.doneN > 0 {
				continue
			}
			_, answered := respSeq[r.spec.tag]
			why := ""
			switch {
			case r.spec.timeout > 0:
				why = fmt.Sprintf("it had a timeout of %v", r.spec.timeout)
			case r.cancelSeq >= 0:
				why = fmt.Sprintf("Cancel() was called on it (event #%d)", r.cancelSeq)
			case answered:
				why = fmt.Sprintf("the target answered it (event #%d)", respSeq[r.spec.tag])
			}
			if why != "" {
				c.Fail("request-never-completed", c16Mode(r.mode), "%s has not completed at quiescence (t=%v) although %s; log tail: %s", r, Now(), why, s.Tail(14))
				return
			}
			c.Probe("request-legitimately-pending")
		}
		all, blocking := q.outstanding()
		if in, bl, ok := actor.VerifReentrancyCounters(q.pid); ok && (int(in) != all || int(bl) != blocking) {
			c.Fail("inflight-counters-wrong", c16Mode(q.mode), "at quiescence %s has inFlightCount=%d blockingCount=%d but %d request(s) are outstanding (%d blocking): %s; log tail: %s", q.name, in, bl, all, blocking, st.pending(q), s.Tail(14))
			return
		}
		if blocking == 0 {
			// nothing holds commands back any more: every accepted command was handled
			for _, e := range s.Log {
				if e.Kind == "tell-ok" && e.Actor == q.name && !handled[e.Tag] {
					c.Fail("request-held-message-lost", c16Mode(q.mode), "command tag %d (sender %d seq %d) accepted by %s at event #%d was never handled although no blocking request is outstanding; log tail: %s", e.Tag, e.From, e.MSeq, q.name, e.Seq, s.Tail(14))
					return
				}
			}
		}
	}
}

// c16Step: the real in-flight counter never exceeds MaxInFlight (scheduler goroutine: plain atomic loads only).
func c16Step(c *Ctx) {
	st, _ := c.state.(*c16State)
	if st == nil {
		return
	}
	if c.Viol != nil {
		c16Dump(c, st.s) // the run is aborted right after this step
		return
	}
	for _, q := range st.qs {
		if q.max > 0 && q.pid != nil {
			if in, _, ok := actor.VerifReentrancyCounters(q.pid); ok && int(in) > q.max {
				c.Fail("inflight-limit-exceeded", c16Mode(q.mode), "inFlightCount of %s is %d, MaxInFlight=%d; log tail: %s", q.name, in, q.max, st.s.Tail(10))
			}
		}
	}
}

// c16Dump writes the whole event log of the run to $VERIF_DUMPLOG-<seed>.txt (triage aid, replay only).
func c16Dump(c *Ctx, s *Sys) {
	if f := os.Getenv("VERIF_DUMPLOG"); f != "" && c.Seed != 999999 {
		var b strings.Builder
		for _, e := range s.Log {
			b.WriteString(e.String())
			b.WriteByte('\n')
		}
		_ = os.WriteFile(fmt.Sprintf("%s-%d.txt", f, c.Seed), []byte(b.String()), 0o644)
	}
}

func c16Finish(c *Ctx) {
	st, _ := c.state.(*c16State)
	if st == nil {
		return
	}
	log := st.s.Log
	respSeq := map[int]int{}
	for _, e := range log {
		if e.Kind == "respond" {
			if _, dup := respSeq[e.Tag]; !dup {
				respSeq[e.Tag] = e.Seq
			}
		}
	}
	var known string // reported last: anything else found in the run takes precedence
	for _, q := range st.qs {
		// blocking windows of q: [admission, continuation) of every stash-mode request
		type win struct {
			from, to int
			r        *c16Req
		}
		var wins []win
		for _, r := range q.reqs {
			if !r.admitted || r.mode != reentrancy.StashNonReentrant {
				continue
			}
			to := len(log)
			if r.doneN > 0 {
				to = r.doneSeq
			}
			if q.stopSeq >= 0 {
				// a shutdown cancels every in-flight request and zeroes the counters
				// (cancelInFlightRequests): the window ends no later than the shutdown call
				to = min(to, q.stopSeq)
			}
			if to > r.admitSeq {
				wins = append(wins, win{r.admitSeq, to, r})
			}
		}
		if len(wins) == 0 {
			continue
		}
		inWin := func(seq int) *c16Req {
			for _, w := range wins {
				if seq > w.from && seq < w.to {
					return w.r
				}
			}
			return nil
		}
		type held struct {
			tag, from, mseq     int
			start, ok, handleAt int
			okT                 time.Duration
		}
		cm := map[int]*held{}
		var all []*held
		starts := map[int]int{}
		for _, e := range log {
			if e.Actor != q.name {
				continue
			}
			switch e.Kind {
			case "tell-start":
				starts[e.Tag] = e.Seq
			case "tell-ok":
				if q.stopSeq < 0 || e.Seq < q.stopSeq {
					h := &held{tag: e.Tag, from: e.From, mseq: e.MSeq, start: starts[e.Tag], ok: e.Seq, okT: e.T, handleAt: -1}
					cm[e.Tag] = h
					all = append(all, h)
				}
			case "recv-enter":
				if r := inWin(e.Seq); r != nil && e.Inc == r.inc {
					c.Fail("stash-exclusion-violated", c16Mode(q.mode), "%s handled command tag %d (event #%d) while blocking %s was outstanding (admitted #%d); log tail: %s", q.name, e.Tag, e.Seq, r, r.admitSeq, c16Around(log, e.Seq))
					return
				}
				if h := cm[e.Tag]; h != nil && h.handleAt < 0 {
					h.handleAt = e.Seq
				}
			}
		}
		if q.stopSeq >= 0 {
			continue // a requester that was shut down drops what it held
		}
		// held commands: pending (arrived, not yet handled) at some point of a blocking window
		var hl []*held
		for _, h := range all {
			for _, w := range wins {
				if h.ok < w.to && (h.handleAt < 0 || h.handleAt > w.from) {
					hl = append(hl, h)
					break
				}
			}
		}
		c.Probe(fmt.Sprintf("held-commands:%d", min(len(hl), 3)))
		// releases: completions after which no blocking request of q is outstanding
		type release struct {
			seq int
			r   *c16Req
		}
		var rels []release
		{
			type pt struct {
				seq, d int
				r      *c16Req
			}
			var pts []pt
			for _, w := range wins {
				pts = append(pts, pt{w.from, +1, w.r})
				if w.r.doneN > 0 {
					pts = append(pts, pt{w.to, -1, w.r})
				}
			}
			sort.Slice(pts, func(i, j int) bool { return pts[i].seq < pts[j].seq })
			n := 0
			for _, p := range pts {
				n += p.d
				if p.d < 0 && n == 0 {
					rels = append(rels, release{p.seq, p.r})
				}
			}
		}
		// behindSignal: b may have entered the mailbox behind the completion envelope
		// (reply / timeout / cancel) that caused release rl, and before the release
		// re-enqueued the stashed commands: it is then never stashed and the stashed
		// commands land behind it (known finding, see known_findings.jsonl).
		behindSignal := func(a, b *held, rl release) bool {
			if !(a.ok < rl.seq && rl.seq < a.handleAt && b.start < rl.seq && rl.seq < b.handleAt) {
				return false
			}
			r := rl.r
			switch r.kind {
			case "reply":
				rs, ok := respSeq[r.spec.tag]
				return ok && b.ok > rs
			case "timeout":
				return b.okT >= r.issueT+r.spec.timeout
			case "canceled":
				return r.cancelSeq >= 0 && b.ok > r.cancelSeq
			}
			return false
		}
		sort.Slice(hl, func(i, j int) bool { return hl[i].ok < hl[j].ok })
		for i, a := range hl {
			for _, b := range hl[i+1:] {
				before := a.ok < b.start || (a.from == b.from && a.mseq < b.mseq)
				if before && a.handleAt >= 0 && b.handleAt >= 0 && b.handleAt < a.handleAt {
					rel := "cross-sender"
					if a.from == b.from {
						rel = "same-sender"
					}
					detail := fmt.Sprintf("%s (%s) handled held command tag %d (sender %d seq %d, arrived #%d@%v) at event #%d before held command tag %d (sender %d seq %d, arrived #%d@%v, i.e. earlier) which it handled at event #%d; log around the release: %s", q.name, c16Mode(q.mode), b.tag, b.from, b.mseq, b.ok, b.okT, b.handleAt, a.tag, a.from, a.mseq, a.ok, a.okT, a.handleAt, c16Around(log, b.handleAt))
					explained := false
					for _, rl := range rels {
						if behindSignal(a, b, rl) {
							explained = true
							break
						}
					}
					if !explained {
						c.Fail("stash-order-violated", "among-stashed:"+rel, "%s", detail)
						return
					}
					if known == "" || rel == "same-sender" {
						known = rel + "|" + detail
					}
				}
			}
		}
	}
	if known != "" {
		rel, detail, _ := strings.Cut(known, "|")
		c.Fail("stash-order-violated", "arrival-behind-completion-signal:"+rel, "%s", detail)
	}
}

// c16Logger routes goakt's log lines into the event log (triage aid, replay only).
type c16Logger struct {
	log.Logger
	st *c16State
}

func (l c16Logger) put(m string) {
	if l.st.s != nil {
		l.st.s.Ev(Ev{Kind: "LOG", Aux: m})
	}
}
func (l c16Logger) Enabled(log.Level) bool    { return true }
func (l c16Logger) LogLevel() log.Level       { return log.DebugLevel }
func (l c16Logger) With(...any) log.Logger    { return l }
func (l c16Logger) Debug(v ...any)            { l.put(fmt.Sprint(v...)) }
func (l c16Logger) Debugf(f string, v ...any) { l.put(fmt.Sprintf(f, v...)) }
func (l c16Logger) Info(v ...any)             { l.put(fmt.Sprint(v...)) }
func (l c16Logger) Infof(f string, v ...any)  { l.put(fmt.Sprintf(f, v...)) }
func (l c16Logger) Warn(v ...any)             { l.put(fmt.Sprint(v...)) }
func (l c16Logger) Warnf(f string, v ...any)  { l.put(fmt.Sprintf(f, v...)) }
func (l c16Logger) Error(v ...any)            { l.put(fmt.Sprint(v...)) }
func (l c16Logger) Errorf(f string, v ...any) { l.put(fmt.Sprintf(f, v...)) }

func c16AllStacks() string {
	buf := make([]byte, 4<<20)
	return string(buf[:runtime.Stack(buf, true)])
}

func c16Ops(ops []Op) string {
	var l []string
	for _, o := range ops {
		switch o.K {
		case OpWork:
			l = append(l, fmt.Sprintf("work(%v)", o.D))
		case OpRespond:
			l = append(l, "respond")
		case OpYield:
			l = append(l, "yield")
		case OpShutdown:
			l = append(l, "shutdown-self")
		}
	}
	return "[" + strings.Join(l, ",") + "]"
}

func c16Around(log []Ev, seq int) string {
	var b strings.Builder
	for i := max(0, seq-16); i < min(len(log), seq+4); i++ {
		b.WriteString(log[i].String())
		b.WriteString(" | ")
	}
	return b.String()
}

func init() {
	Register(&Scenario{Prop: "C16", Name: "reentrant-requests", Variants: []string{"stock"}, Quick: 3000, Thorough: 250000,
		EstSteps: 3000, MaxSteps: 400000, MaxIdle: time.Hour, Real: sysReal, Stub: sysStub, Run: c16Run, OnStep: c16Step, Finish: c16Finish})
}

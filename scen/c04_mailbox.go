package scen

import (
	"errors"
	"fmt"
	"os"
	"time"

	"github.com/anishathalye/porcupine"

	"github.com/tochemey/goakt/v4/actor"
	gerrors "github.com/tochemey/goakt/v4/errors"
)

// C04 — every mailbox implementation is linearizable to its sequential
// specification (engine A: mailbox micro-sim + porcupine).

type mbKind struct {
	name                                  string
	mk                                    func(cap int, pf actor.PriorityFunc) actor.Mailbox
	bounded, blocking, prio, stable, fair bool
	caps                                  []int // generated capacities (ring-based mailboxes round up to a power of two, so only powers of two are generated for them)
}

var mbKinds = []mbKind{
	{name: "UnboundedMailbox", mk: func(int, actor.PriorityFunc) actor.Mailbox { return actor.NewUnboundedMailbox() }},
	{name: "UnboundedSegmentedMailbox", mk: func(int, actor.PriorityFunc) actor.Mailbox { return actor.NewUnboundedSegmentedMailbox() }},
	{name: "UnboundedFairMailbox", fair: true, mk: func(int, actor.PriorityFunc) actor.Mailbox { return actor.NewUnboundedFairMailbox() }},
	{name: "NonBlockingBoundedMailbox", caps: []int{2, 4}, bounded: true, mk: func(c int, _ actor.PriorityFunc) actor.Mailbox { return actor.NewNonBlockingBoundedMailbox(c) }},
	{name: "BoundedMailbox", caps: []int{2, 4}, bounded: true, blocking: true, mk: func(c int, _ actor.PriorityFunc) actor.Mailbox { return actor.NewBoundedMailbox(c) }},
	{name: "UnboundedPriorityMailBox", prio: true, mk: func(_ int, pf actor.PriorityFunc) actor.Mailbox { return actor.NewUnboundedPriorityMailBox(pf) }},
	{name: "UnboundedStablePriorityMailbox", prio: true, stable: true, mk: func(_ int, pf actor.PriorityFunc) actor.Mailbox { return actor.NewUnboundedStablePriorityMailbox(pf) }},
	{name: "BoundedPriorityMailbox", bounded: true, prio: true, mk: func(c int, pf actor.PriorityFunc) actor.Mailbox { return actor.NewBoundedPriorityMailbox(c, pf) }},
	{name: "BoundedStablePriorityMailbox", bounded: true, prio: true, stable: true, mk: func(c int, pf actor.PriorityFunc) actor.Mailbox { return actor.NewBoundedStablePriorityMailbox(c, pf) }},
}

const (
	opEnq = iota
	opDeq
	opEmpty
)

type mbIn struct {
	Op int
	V  int // value: mailbox*1000 + producer*100 + k + 1
}

type mbOut struct {
	V     int  // dequeued value, 0 = nil
	Full  bool // enqueue rejected
	Empty bool // IsEmpty result
}

type mbSpec struct {
	kind  mbKind
	cap   int
	nprio int
	ident []int // producer -> sender identity (several goroutines may share one, e.g. NoSender)
}

func (s mbSpec) prio(v int) int   { return (v % 100) % s.nprio }
func (s mbSpec) sender(v int) int {
	p := (v / 100) % 10
	if p < len(s.ident) {
		return s.ident[p]
	}
	return p
}

// model state: values in arrival order, encoded as a string of runes.
//
// rank (optional) maps each value to the position at which the consumer took
// it out (absent = never dequeued). It only prunes the search: the dequeues of
// one mailbox are issued by a single thread, hence totally ordered in real
// time, so a linearization that queues b behind a in the same FIFO lane (whole
// queue, sender sub-queue, or priority class of a stable priority mailbox)
// although b was dequeued first cannot be completed. Rejecting it at the
// enqueue instead of at the dequeue changes no verdict; it keeps porcupine from
// enumerating the orders of many overlapping enqueues (measured: a 36-operation
// history went from a 5 s timeout to milliseconds).
func (s mbSpec) model(relaxEmpty, relaxFull bool, rank map[int]int) porcupine.Model {
	rk := func(v int) int {
		if r, ok := rank[v]; ok {
			return r
		}
		return int(^uint(0) >> 1)
	}
	sameLane := func(a, b int) bool {
		switch {
		case s.kind.prio:
			return s.prio(a) == s.prio(b)
		case s.kind.fair:
			return s.sender(a) == s.sender(b)
		}
		return true
	}
	return porcupine.Model{
		Init: func() any { return "" },
		Step: func(st, in, out any) (bool, any) {
			q := []rune(st.(string))
			i, o := in.(mbIn), out.(mbOut)
			switch i.Op {
			case opEnq:
				if o.Full && relaxFull && s.kind.bounded {
					return true, st // rejections are justified separately (reservation count)
				}
				if s.kind.bounded && len(q) >= s.cap {
					if s.kind.blocking {
						return false, st // a blocking enqueue takes effect only when there is room
					}
					return o.Full, st // rejected only when full
				}
				if o.Full {
					return false, st
				}
				if rank != nil && (!s.kind.prio || s.kind.stable) {
					for k := len(q) - 1; k >= 0; k-- {
						if w := int(q[k]); sameLane(w, i.V) {
							if rk(w) > rk(i.V) {
								return false, st // doomed: i.V left the mailbox before w
							}
							break
						}
					}
				}
				return true, string(append(q, rune(i.V)))
			case opDeq:
				if o.V == 0 {
					return relaxEmpty || len(q) == 0, st
				}
				idx := -1
				switch {
				case s.kind.prio:
					best := -1
					for _, v := range q {
						if p := s.prio(int(v)); p > best {
							best = p
						}
					}
					for k, v := range q {
						if int(v) == o.V {
							if s.prio(o.V) != best {
								return false, st
							}
							if s.kind.stable {
								for _, w := range q[:k] {
									if s.prio(int(w)) == best {
										return false, st // an earlier arrival of the same priority is still queued
									}
								}
							}
							idx = k
							break
						}
					}
				case s.kind.fair:
					for k, v := range q {
						if s.sender(int(v)) == s.sender(o.V) {
							if int(v) == o.V {
								idx = k
							}
							break // only the oldest message of that sender may come out
						}
					}
				default:
					if len(q) > 0 && int(q[0]) == o.V {
						idx = 0
					}
				}
				if idx < 0 {
					return false, st
				}
				nq := append(append([]rune(nil), q[:idx]...), q[idx+1:]...)
				return true, string(nq)
			case opEmpty:
				if o.Empty {
					return relaxEmpty || len(q) == 0, st
				}
				return true, st // "not empty" is a conservative hint and always admissible
			}
			return false, st
		},
		DescribeOperation: func(in, out any) string { return fmt.Sprintf("%+v -> %+v", in, out) },
	}
}

func c04Run(c *Ctx) {
	ki := c.W.Draw(len(mbKinds))
	kind := mbKinds[ki]
	spec := mbSpec{kind: kind, cap: 1 + c.W.Draw(4), nprio: 1 + c.W.Draw(3)}
	if len(kind.caps) > 0 {
		spec.cap = kind.caps[c.W.Draw(len(kind.caps))]
	}
	if kind.blocking && spec.cap < 2 {
		spec.cap = 2 // documented: capacities below two are raised to two
		c.Probe("bounded-mailbox-capacity-raised")
	}
	nmb := 1
	if c.W.Draw(4) == 3 {
		nmb = 2 // two mailboxes of the same type share the package-level pools
	}
	np := 2 + c.W.Draw(3)
	per := make([]int, np)
	total := 0
	for p := range per {
		per[p] = 1 + c.W.Draw(4)
		total += per[p]
	}
	target := make([]int, np)
	for p := range target {
		target[p] = c.W.Draw(nmb)
	}
	extraOps := c.W.Draw(6)
	pf := func(a, b any) bool { return spec.prio(a.(int)) > spec.prio(b.(int)) }
	mbs := make([]actor.Mailbox, nmb)
	reqCap := spec.cap
	if kind.blocking && c.W.Draw(4) == 3 {
		reqCap = 1
	}
	for i := range mbs {
		mbs[i] = kind.mk(reqCap, pf)
	}
	c.Comp = kind.name
	c.Note("mailbox", kind.name)
	c.Note("capacity", spec.cap)
	c.Note("priority_classes", spec.nprio)
	c.Note("producers", per)
	c.Note("mailboxes", nmb)
	c.Note("producer_target", target)
	senders := make([]*actor.PID, np)
	spec.ident = make([]int, np)
	share := c.W.Draw(3) == 2 // goroutines sharing one sender identity (what NoSender callers do)
	for p := range senders {
		spec.ident[p] = p
		if share {
			spec.ident[p] = c.W.Draw(2)
		}
		senders[p] = actor.VerifFakePID(fmt.Sprintf("s%d", spec.ident[p]))
	}
	c.Note("sender_identity", spec.ident)
	hist := make([][]porcupine.Operation, nmb)
	accepted := make([]int, nmb)
	dequeued := make([]int, nmb)
	producersDone := 0
	seen := map[int]int{}
	var fns []func()
	for p := 0; p < np; p++ {
		fns = append(fns, func() {
			m := target[p]
			for k := 0; k < per[p]; k++ {
				v := m*1000 + p*100 + k + 1
				rc := actor.VerifNewRC(v, senders[p])
				call := c.Stamp()
				err := mbs[m].Enqueue(rc)
				ret := c.Stamp()
				c.Ops++
				out := mbOut{}
				switch {
				case err == nil:
					accepted[m]++
				case errors.Is(err, gerrors.ErrMailboxFull):
					out.Full = true
					c.Probe("enqueue-rejected-full")
				default:
					c.Fail("enqueue-error", kind.name, "Enqueue(%d) returned %v", v, err)
				}
				hist[m] = append(hist[m], porcupine.Operation{ClientId: p, Input: mbIn{opEnq, v}, Call: call, Output: out, Return: ret})
			}
			producersDone++
		})
	}
	for m := 0; m < nmb; m++ {
		fns = append(fns, func() {
			mb := mbs[m]
			nils := 0
			ops := 0
			empties := 0
			for {
				allIn := producersDone == np
				if allIn && dequeued[m] >= accepted[m] && ops >= extraOps {
					return
				}
				ops++
				c.Ops++
				if ops%3 == 0 {
					call := c.Stamp()
					e := mb.IsEmpty()
					ret := c.Stamp()
					hist[m] = append(hist[m], porcupine.Operation{ClientId: 10 + m, Input: mbIn{Op: opEmpty}, Call: call, Output: mbOut{Empty: e}, Return: ret})
					continue
				}
				call := c.Stamp()
				rc := mb.Dequeue()
				ret := c.Stamp()
				out := mbOut{}
				if rc != nil {
					v, ok := rc.Message().(int)
					if !ok {
						c.Fail("garbage-dequeued", kind.name, "Dequeue returned a context carrying %T %v", rc.Message(), rc.Message())
						return
					}
					out.V = v
					nils = 0
					dequeued[m]++
					seen[v]++
					if seen[v] > 1 {
						c.Fail("dequeued-twice", kind.name, "value %d dequeued %d times", v, seen[v])
					}
					if v/1000 != m {
						c.Fail("wrong-mailbox", kind.name, "value %d enqueued into mailbox %d came out of mailbox %d", v, v/1000, m)
					}
				} else {
					// consecutive nils seen with every producer finished: one of
					// them is a false empty report (classified from the history
					// afterwards), a row of them is a message that never comes out
					if allIn && dequeued[m] < accepted[m] {
						nils++
					} else {
						nils = 0
					}
					if nils > 3 {
						c.Fail("message-lost", kind.name, "mailbox %d: %d accepted, %d dequeued, Dequeue keeps returning nil after all producers finished; history: %s", m, accepted[m], dequeued[m], c04Describe(hist[m]))
						return
					}
				}
				hist[m] = append(hist[m], porcupine.Operation{ClientId: 10 + m, Input: mbIn{Op: opDeq}, Call: call, Output: out, Return: ret})
				if rc == nil {
					empties++
					if empties >= 3 {
						// bound the history: after three empty reports in a row the consumer
						// waits (simulated time) until the stalled producers have moved on
						empties = 0
						Sleep(time.Microsecond)
					}
				} else {
					empties = 0
				}
			}
		})
	}
	Join(fns...)
	c.state = &c04State{spec: spec, hist: hist}
}

// c04Describe renders a history compactly, collapsing repeated empty reports.
func c04Describe(h []porcupine.Operation) string {
	desc := ""
	lastEmpty := 0
	for _, op := range h {
		i, o := op.Input.(mbIn), op.Output.(mbOut)
		var s string
		switch i.Op {
		case opEnq:
			s = fmt.Sprintf("p%d:Enq(%d)", op.ClientId, i.V)
			if o.Full {
				s += "=FULL"
			}
		case opDeq:
			if o.V == 0 {
				s = "c:Deq=nil"
			} else {
				s = fmt.Sprintf("c:Deq=%d", o.V)
			}
		case opEmpty:
			s = fmt.Sprintf("c:IsEmpty=%v", o.Empty)
		}
		if (i.Op == opDeq && o.V == 0) || (i.Op == opEmpty && o.Empty) {
			lastEmpty++
			if lastEmpty > 2 {
				continue
			}
		} else {
			lastEmpty = 0
		}
		desc += fmt.Sprintf("%s[%d-%d] ", s, op.Call, op.Return)
	}
	return desc
}

type c04State struct {
	spec mbSpec
	hist [][]porcupine.Operation
}

func c04Finish(c *Ctx) {
	st, _ := c.state.(*c04State)
	if st == nil {
		return
	}
	for m, h := range st.hist {
		if os.Getenv("VERIF_DEBUG") != "" {
			fmt.Fprintf(os.Stderr, "history mailbox %d: %s\n", m, c04Describe(h))
		}
		class, why := c04Classify(st.spec, h)
		switch class {
		case "":
		case "unknown":
			c.Probe("porcupine-unknown")
		default:
			c.Fail(class, st.spec.kind.name, "mailbox %d (cap %d, %d priority classes): %s; history: %s", m, st.spec.cap, st.spec.nprio, why, c04Describe(h))
		}
	}
}

// c04Classify checks a history against the strict sequential model and, when
// that fails, names the narrowest relaxation under which it still has a
// linearization, so that distinct defects get distinct classes.
func c04Classify(spec mbSpec, h []porcupine.Operation) (class, why string) {
	// where does each value leave the mailbox?
	deqCall, deqRet, rank := map[int]int64{}, map[int]int64{}, map[int]int{}
	for _, op := range h {
		if i, o := op.Input.(mbIn), op.Output.(mbOut); i.Op == opDeq && o.V != 0 {
			deqCall[o.V], deqRet[o.V] = op.Call, op.Return
			if _, dup := rank[o.V]; !dup {
				rank[o.V] = len(rank)
			}
		}
	}
	chk := func(re, rf bool) (res porcupine.CheckResult) {
		OffBubble(func() { res = porcupine.CheckOperationsTimeout(spec.model(re, rf, rank), h, 5*time.Second) })
		return res
	}
	switch chk(false, false) {
	case porcupine.Ok:
		return "", ""
	case porcupine.Unknown:
		return "unknown", ""
	}
	fullClass := func() (string, string) {
		for _, f := range h {
			fi, fo := f.Input.(mbIn), f.Output.(mbOut)
			if fi.Op != opEnq || !fo.Full {
				continue
			}
			justified := false
			for t := f.Call; t <= f.Return && !justified; t++ {
				held := 0
				for _, e := range h {
					ei, eo := e.Input.(mbIn), e.Output.(mbOut)
					if ei.Op != opEnq || eo.Full || e.Call >= t {
						continue
					}
					if r, ok := deqRet[ei.V]; ok && r <= t {
						continue
					}
					held++
				}
				justified = held >= spec.cap
			}
			if !justified {
				return "spurious-full", fmt.Sprintf("Enqueue(%d) was rejected although fewer than %d accepted messages (completed or in flight, dequeues counted until they return) were held at any instant of the call", fi.V, spec.cap)
			}
		}
		return "full-by-inflight-reservation", "a rejection is explained only by capacity reserved by enqueues still in flight (or released late by a dequeue in progress); no single linearization point exists"
	}
	hasFull := false
	for _, op := range h {
		if op.Output.(mbOut).Full {
			hasFull = true
		}
	}
	// empty reports read directly off the history (no search involved): was a
	// completed, not yet dequeued enqueue pending, and was any enqueue in flight?
	alone, behind := "", ""
	for _, r := range h {
		ri, ro := r.Input.(mbIn), r.Output.(mbOut)
		if !((ri.Op == opDeq && ro.V == 0) || (ri.Op == opEmpty && ro.Empty)) {
			continue
		}
		pending, inflight := 0, false
		for _, e := range h {
			ei, eo := e.Input.(mbIn), e.Output.(mbOut)
			if ei.Op != opEnq {
				continue
			}
			if e.Call < r.Return && e.Return > r.Call {
				inflight = true
			}
			if eo.Full || e.Return >= r.Call {
				continue
			}
			if dc, ok := deqCall[ei.V]; ok && dc < r.Return {
				continue
			}
			pending = ei.V
		}
		if pending == 0 {
			continue
		}
		if !inflight && alone == "" {
			alone = fmt.Sprintf("reported empty at [%d-%d] although Enqueue(%d) had completed, was not dequeued, and no enqueue was in flight", r.Call, r.Return, pending)
		}
		if inflight && behind == "" {
			behind = fmt.Sprintf("reported empty at [%d-%d] while the completed Enqueue(%d) had not been dequeued (another enqueue was in flight)", r.Call, r.Return, pending)
		}
	}
	switch chk(true, false) {
	case porcupine.Ok:
		if alone != "" {
			return "empty-with-completed-enqueue", alone
		}
		if behind != "" {
			return "empty-behind-inflight", behind
		}
		if hasFull {
			return fullClass()
		}
		return "empty-nonlinearizable", "an empty report contradicts every linearization although no completed enqueue was pending"
	case porcupine.Unknown:
		// the classifying search timed out; what can be read off the history
		// without a search is still reported, the rest is inconclusive
		if alone != "" {
			return "empty-with-completed-enqueue", alone
		}
		return "unknown", ""
	}
	if hasFull {
		switch chk(true, true) {
		case porcupine.Ok:
			return fullClass()
		case porcupine.Unknown:
			return "unknown", ""
		}
	}
	return "not-linearizable", "no linearization exists even with empty reports and rejections unconstrained (order, duplication or loss)"
}

func init() {
	Register(&Scenario{
		Prop: "C04", Name: "mailbox-lin", Variants: []string{"stock", "small"},
		Quick: 40000, Thorough: 2000000, EstSteps: 300, MaxSteps: 200000, MaxIdle: time.Minute,
		StuckClass: "mailbox-stuck",
		Real:       []string{"actor: all nine Mailbox implementations, priority intake, context pool", "github.com/Workiva/go-datastructures/queue (ring buffer behind BoundedMailbox, instrumented copy)"},
		Stub:       []string{"no actor system: producers and the consumer are harness threads calling the Mailbox interface directly"},
		Run:        c04Run, Finish: c04Finish,
	})
}

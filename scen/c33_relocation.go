package scen

// C33 — relocation accounts for every item and runs once per departure.
//
// Engine E (scen/cluster.go): 3 real cluster-enabled actor systems. One node
// (drawn: the coordinator or a follower) hosts 1–6 relocatable ClusActor actors
// (some role-constrained), 0–2 non-relocatable ones and sometimes the cluster
// singleton; the survivors host a few actors of their own (uneven loads). The
// node then departs: gracefully (ActorSystem.Stop: snapshot replicated to the
// peers, registry records withdrawn, membership left) or by a crash (black-holed
// network, registry refusal; the new/old coordinator reconstructs the relocation
// set from the registry). The departure reaches the survivors through the real
// event path (olric-style NodeLeft + rebalance start/complete notifications ->
// internal/cluster event machinery -> cluster-events loop -> handleNodeLeftEvent
// -> relocator -> relocation worker -> RelocateBatch RPCs over simnet).
//
// Faults (fault tape), placed inside the relocation:
//   - duplicate departure notifications: (a) at the olric level (NodeLeft +
//     a fresh rebalance epoch published again, the rebalance-complete of a crash
//     re-delivered late) and (b) at the boundary between the cluster engine and
//     the actor system (one more NodeLeft queued on Events(), consumed by the
//     real cluster-events loop) — (b) is what reaches beginRelocation, because
//     the engine's own once-per-address filter swallows (a). The duplicates are
//     fired at the k-th registry operation / the k-th PreStart of a relocated
//     actor while a relocation job is registered, i.e. while it is in flight.
//   - a surviving peer made unreachable during the relocation batch: the link
//     coordinator<->peer cut (simnet partition) and/or the peer cut off from the
//     registry, from the k-th in-flight registry operation on, healed after a
//     drawn time (50 ms … 70 s: around the 30 s RelocateBatch attempt timeout);
//   - transient registry errors / slow answers for every node during relocation;
//   - network latency (so that a relocation spans simulated time).
//
// Oracle, written from the statement:
//   online (every scheduler step)
//     actor-runs-twice        one actor name has more than one running instance
//                             on the nodes that are part of the cluster (not
//                             crashed, Stop not returned)
//     second-relocation       a second relocation worker is spawned for the
//                             departure while the first relocation is in flight
//                             (job registered), a worker is spawned with no job
//                             registered, or two survivors have a relocation of
//                             the same departure in flight at once
//   at quiescence (50 s of simulated time without relocation activity, faults
//   healed)
//     relocated-actor-lost    a relocatable actor that ran on the departed node
//                             runs on no survivor and is named in no
//                             RelocationFailed event for the departure
//     actor-runs-twice        … runs on two survivors / twice on one
//     relocation-failed-twice more RelocationFailed events for the departure
//                             than relocation runs (one run = one event at most)
//
// A duplicate notification that is *handled after* the first relocation has
// completed legitimately starts a new run (actor_system.go: "a node address that
// departs again after a completed relocation is rebalanced again"); the oracle
// therefore counts runs, and only forbids overlap. Actors spawned concurrently
// with the departure ("late") are only subject to actor-runs-twice: whether
// they belong to the departed node's set is undefined.
//
// Harness note: supervisor.Supervisor embeds its sync.Mutex and calls the
// promoted s.Lock(); the instrumenter does not rewrite promoted mutex methods,
// so that lock is a real one, and AnyErrorDirective holds it across an
// instrumented xsync.Map.Get (a scheduling point). Two concurrent Spawns that
// serialise the *same* Supervisor object (the system's default one) can then
// hang the bubble (watchdog). Every actor spawned here therefore gets its own
// Supervisor; relocated actors get a freshly decoded one from goakt itself.

import (
	"fmt"
	"os"
	"sort"
	"strings"
	"time"

	"github.com/tochemey/goakt/v4/actor"
	"github.com/tochemey/goakt/v4/eventstream"
	"github.com/tochemey/goakt/v4/log"
	sup "github.com/tochemey/goakt/v4/supervisor"
	"github.com/tochemey/goakt/v4/zzverif/simcluster"
	"github.com/tochemey/goakt/v4/zzverif/simnet"
)

type c33Trigger struct {
	kind  string // "regop" | "prestart"
	at    int    // fire at the at-th such event while a relocation is in flight
	what  string // "dup-events" | "dup-olric" | "peer-cut"
	fired bool
}

type c33State struct {
	cl      *simCluster
	d       int    // departing node
	addr    string // its peers address (relocation key)
	kind    int    // 0 graceful, 1 crash (rebalance completes), 2 crash (rebalance epoch never completes -> overdue NodeLeft)
	leader  int    // coordinator among the survivors
	peer    int    // the other survivor
	watch   []string
	must    []string
	flavour map[string]string // name -> plain | role | role-unplaceable | singleton
	// fault plan
	trig       []*c33Trigger
	dupTarget  int // 0 leader only, 1 both survivors
	cutNet     bool
	cutReg     bool
	cutFor     time.Duration
	cutOn      bool
	regFaults  simcluster.Config
	regFor     time.Duration
	regArmed   bool          // registry faults start with the first relocation job (graceful departure)
	regOnAt    time.Duration // when they started (0 = not yet)
	regDone    bool
	finished   bool
	departed   bool
	departedAt time.Duration
	// relocation accounting (OnStep)
	inFlight       []bool
	seen           []map[string]bool // relocation workers for the departure seen so far, per node
	spawnsInPeriod []int
	runs           int // relocation periods begun (all survivors)
	workers        int // relocation workers spawned after the departure
	regOps         int // registry ops seen while in flight
	prestarts      int // PreStarts of must-actors on survivors while in flight
	dups           int
	lastActivity   time.Duration
	trace          []string
	notLeader      int      // survivors that handled the departure's NodeLeft as "not leader"
	warn           []string // goakt warnings / errors that mention relocation (diagnosis only)
	subs           []eventstream.Subscriber
}

// c33Log keeps goakt's warnings and errors (and, with VERIF_C33_DEBUG, the
// info/debug lines about relocation) for the detail text of a violation.
type c33Log struct {
	log.Logger
	st    *c33State
	debug bool
}

func (l c33Log) rec(s string) {
	if len(l.st.warn) < 60 {
		l.st.warn = append(l.st.warn, fmt.Sprintf("t=%v %s", Now(), s))
	}
}
func (l c33Log) low(s string) {
	if strings.Contains(s, "not leader; cleaning up node="+l.st.addr) {
		l.st.notLeader++
	}
	if l.debug && (strings.Contains(s, "reloc") || strings.Contains(s, "rebalanc") || strings.Contains(s, "node left") || strings.Contains(s, "leader")) {
		l.rec(s)
	}
}
func (l c33Log) Warn(v ...any)                 { l.rec(fmt.Sprint(v...)) }
func (l c33Log) Warnf(f string, v ...any)      { l.rec(fmt.Sprintf(f, v...)) }
func (l c33Log) Error(v ...any)                { l.rec(fmt.Sprint(v...)) }
func (l c33Log) Errorf(f string, v ...any)     { l.rec(fmt.Sprintf(f, v...)) }
func (l c33Log) Info(v ...any)                 { l.low(fmt.Sprint(v...)) }
func (l c33Log) Infof(f string, v ...any)      { l.low(fmt.Sprintf(f, v...)) }
func (l c33Log) Debug(v ...any)                { l.low(fmt.Sprint(v...)) }
func (l c33Log) Debugf(f string, v ...any)     { l.low(fmt.Sprintf(f, v...)) }
func (l c33Log) With(keyValues ...any) log.Logger { return l }

func (st *c33State) note(format string, args ...any) {
	if len(st.trace) < 200 {
		st.trace = append(st.trace, fmt.Sprintf("t=%v ", Now())+fmt.Sprintf(format, args...))
	}
}

func (st *c33State) survivors() []int {
	var s []int
	for i := range st.cl.Nodes {
		if i != st.d {
			s = append(s, i)
		}
	}
	return s
}

func (st *c33State) anyInFlight() bool {
	for _, f := range st.inFlight {
		if f {
			return true
		}
	}
	return false
}

// survivorDown reports whether a survivor is shutting down or has stopped by
// itself (goakt's system guardian stops the whole node when a system actor
// fails, e.g. the death watch on a failed registry delete): a second departure.
// The quiescence oracle is restricted to histories with one departure.
func (st *c33State) survivorDown() bool {
	for _, i := range st.survivors() {
		if started, stopping := actor.VerifSysState(st.cl.Nodes[i].Sys.Sys); !started || stopping {
			return true
		}
	}
	return false
}

// c33Live: the node is part of the cluster at this instant (an instance on it
// counts for the runs-twice invariant).
func c33Live(n *clusterNode) bool { return !n.Crashed && !n.Gone }

func c33DepartureName(k int) string {
	return []string{"graceful", "crash", "crash-overdue"}[k]
}

func (st *c33State) comp(name string) string {
	return c33DepartureName(st.kind) + "," + st.flavour[name]
}

// c33OnStep: the online invariants.
func c33OnStep(c *Ctx) {
	st, _ := c.state.(*c33State)
	if st == nil || st.cl == nil || st.inFlight == nil || st.cl.Failed() || st.cl.stopped {
		return
	}
	cl := st.cl
	// --- no name runs twice
	for _, name := range st.watch {
		r := cl.Running[name]
		total := 0
		for i, n := range cl.Nodes {
			if i < len(r) && c33Live(n) {
				total += r[i]
			}
		}
		if total > 1 {
			cl.Fail("actor-runs-twice", st.comp(name)+",online", "actor %q has %d running instances at once (per node %v; crashed/stopped nodes not counted; departed node %d %s); relocation trace: %s; log tail: %s",
				name, total, r, st.d, c33DepartureName(st.kind), strings.Join(st.trace, " ; ")+" ; goakt: "+strings.Join(st.warn, " ; "), cl.Tail(40))
			return
		}
	}
	if !st.departed {
		return
	}
	// --- at most one relocation of the departure in flight
	flying := 0
	for _, i := range st.survivors() {
		n := cl.Nodes[i]
		if started, stopping := actor.VerifSysState(n.Sys.Sys); !n.Up() || !started || stopping {
			st.inFlight[i] = false
			continue
		}
		fl, names := actor.VerifRelocationState(n.Sys.Sys, st.addr)
		was := st.inFlight[i]
		if fl && !was {
			st.runs++
			st.spawnsInPeriod[i] = 0
			st.note("node%d: relocation job registered (run %d)", i, st.runs)
			if st.regArmed && st.regOnAt == 0 {
				cl.Reg.Cfg, cl.Reg.FaultsOn = st.regFaults, true
				st.regOnAt = Now() + 1
			}
		}
		for _, w := range names {
			if st.seen[i][w] {
				continue
			}
			st.seen[i][w] = true
			st.workers++
			st.note("node%d: relocation worker %s spawned (job registered: %v)", i, w, fl || was)
			if !fl && !was {
				cl.Fail("second-relocation", "worker-without-job", "node%d spawned relocation worker %s for departed %s while no relocation job is registered; trace: %s; log tail: %s", i, w, st.addr, strings.Join(st.trace, " ; ")+" ; goakt: "+strings.Join(st.warn, " ; "), cl.Tail(30))
				return
			}
			st.spawnsInPeriod[i]++
			if st.spawnsInPeriod[i] > 1 {
				cl.Fail("second-relocation", "worker-in-flight", "node%d spawned relocation worker %s for departed %s while the relocation started earlier is still in flight (%d workers for one registered job; %d duplicate NodeLeft injected); trace: %s; log tail: %s",
					i, w, st.addr, st.spawnsInPeriod[i], st.dups, strings.Join(st.trace, " ; ")+" ; goakt: "+strings.Join(st.warn, " ; "), cl.Tail(30))
				return
			}
		}
		if !fl && was {
			st.note("node%d: relocation job released", i)
		}
		if fl || was {
			st.lastActivity = Now()
		}
		if fl {
			flying++
		}
		st.inFlight[i] = fl
	}
	if flying > 1 {
		cl.Fail("second-relocation", "two-nodes", "two survivors have a relocation of departed %s in flight at once; trace: %s; log tail: %s", st.addr, strings.Join(st.trace, " ; ")+" ; goakt: "+strings.Join(st.warn, " ; "), cl.Tail(30))
	}
}

// fire runs the triggers that are due (called from controlled threads only).
func (st *c33State) fire(kind string, count int) {
	for _, t := range st.trig {
		if t.fired || t.kind != kind || t.at != count {
			continue
		}
		t.fired = true
		st.apply(t.what)
	}
}

func (st *c33State) apply(what string) {
	cl, c := st.cl, st.cl.C
	switch what {
	case "dup-events":
		targets := []int{st.leader}
		if st.dupTarget == 1 {
			targets = append(targets, st.peer)
		}
		for _, i := range targets {
			if n := cl.Nodes[i]; n.Up() && actor.VerifInjectNodeLeft(n.Sys.Sys, st.addr, time.Now()) {
				st.dups++
				c.Fault("duplicate-nodeleft-event")
				cl.Ev(Ev{Actor: n.Sys.Sys.Name(), Inc: i, Kind: "dup-nodeleft-queued", Aux: st.addr})
				st.note("duplicate NodeLeft queued on node%d (in flight: %v)", i, st.anyInFlight())
			}
		}
		st.lastActivity = Now()
	case "dup-olric":
		// what olric would publish for the same departure once more
		cl.Reg.Epoch++
		cl.Reg.Publish("", simcluster.NodeLeft(st.addr))
		cl.Reg.Publish("", simcluster.RebalanceStart(cl.Reg.Epoch, "node-left", st.addr))
		cl.Reg.Publish("", simcluster.RebalanceComplete(cl.Reg.Epoch))
		c.Fault("duplicate-olric-notification")
		cl.Ev(Ev{Actor: st.addr, Kind: "dup-olric-published"})
		st.lastActivity = Now()
	case "peer-cut":
		if st.cutOn {
			return
		}
		st.cutOn = true
		if st.cutNet {
			cl.Net.Partition(cl.Nodes[st.leader].RemotingAddr(), cl.Nodes[st.peer].RemotingAddr(), true)
			c.Fault("survivor-partitioned")
		}
		if st.cutReg {
			cl.Reg.SetDown(cl.Nodes[st.peer].PeersAddr(), true)
			c.Fault("survivor-registry-down")
		}
		cl.Ev(Ev{Actor: cl.Nodes[st.peer].Sys.Sys.Name(), Inc: st.peer, Kind: "peer-cut", Aux: fmt.Sprintf("net=%v reg=%v for=%v", st.cutNet, st.cutReg, st.cutFor)})
		st.note("peer node%d cut (net=%v reg=%v) for %v", st.peer, st.cutNet, st.cutReg, st.cutFor)
		healAfter := st.cutFor
		Go(func() {
			Sleep(healAfter)
			st.heal()
		})
	}
}

func (st *c33State) heal() {
	if !st.cutOn {
		return
	}
	st.cutOn = false
	cl := st.cl
	if st.cutNet {
		cl.Net.Partition(cl.Nodes[st.leader].RemotingAddr(), cl.Nodes[st.peer].RemotingAddr(), false)
	}
	if st.cutReg {
		cl.Reg.SetDown(cl.Nodes[st.peer].PeersAddr(), false)
	}
	cl.Ev(Ev{Actor: cl.Nodes[st.peer].Sys.Sys.Name(), Inc: st.peer, Kind: "peer-healed"})
	st.note("peer node%d healed", st.peer)
	st.lastActivity = Now()
}

func c33Run(c *Ctx) {
	st := &c33State{flavour: map[string]string{}}
	c.state = st
	c.Comp = "relocation"

	// ---- the generated case (workload tape)
	st.d = c.W.Draw(3)
	st.kind = c.W.Draw(3)
	nReloc := 1 + c.W.Draw(6)
	nNon := c.W.Draw(3)
	withSingleton := c.W.Draw(3) == 1
	roleMode := c.W.Draw(4) // 0,1 none; 2 role on the departing node and one survivor; 3 role on the departing node only
	preload := c.W.Draw(4)
	late := c.W.Draw(3) == 2
	latency := []time.Duration{0, 2 * time.Millisecond, 20 * time.Millisecond, 0}[c.W.Draw(4)]

	// ---- the fault plan (fault tape)
	dupMode := c.F.Draw(4)  // 0 none, 1 duplicate on Events(), 2 olric-level duplicate, 3 both
	peerMode := c.F.Draw(5) // 0 none, 1 net cut, 2 registry cut, 3 both, 4 registry faults for everybody
	addTrig := func(what string) {
		k := "regop"
		if c.F.Draw(3) == 2 {
			k = "prestart"
		}
		at := 1 + c.F.Draw(24)
		if k == "prestart" {
			at = 1 + c.F.Draw(4)
		}
		st.trig = append(st.trig, &c33Trigger{kind: k, at: at, what: what})
	}
	if dupMode == 1 || dupMode == 3 {
		for i, n := 0, 1+c.F.Draw(3); i < n; i++ {
			addTrig("dup-events")
		}
		st.dupTarget = c.F.Draw(2)
	}
	if dupMode == 2 || dupMode == 3 {
		addTrig("dup-olric")
	}
	cutAtDeparture := false
	if peerMode >= 1 && peerMode <= 3 {
		st.cutNet = peerMode != 2
		st.cutReg = peerMode != 1
		st.cutFor = []time.Duration{50 * time.Millisecond, time.Second, 29 * time.Second, 35 * time.Second, 70 * time.Second}[c.F.Draw(5)]
		if c.F.Draw(4) == 3 {
			cutAtDeparture = true
		} else {
			addTrig("peer-cut")
		}
	}
	if peerMode == 4 {
		switch c.F.Draw(3) {
		case 0:
			st.regFaults.ErrPerm = 80
		case 1:
			st.regFaults.SlowPerm, st.regFaults.SlowFor = 200, time.Duration(1+c.F.Draw(40))*time.Millisecond
		case 2:
			st.regFaults.ErrPerm, st.regFaults.SlowPerm, st.regFaults.SlowFor = 40, 80, 1500*time.Millisecond
		}
		st.regFor = []time.Duration{200 * time.Millisecond, 2 * time.Second, 10 * time.Second}[c.F.Draw(3)]
	}

	surv := []int{}
	for i := 0; i < 3; i++ {
		if i != st.d {
			surv = append(surv, i)
		}
	}
	st.leader, st.peer = surv[0], surv[1]
	roleSurvivor := surv[c.W.Draw(2)]

	c.Note("departing_node", st.d)
	c.Note("departure", c33DepartureName(st.kind))
	c.Note("relocatable", nReloc)
	c.Note("non_relocatable", nNon)
	c.Note("singleton", withSingleton)
	c.Note("role_mode", roleMode)
	c.Note("latency", latency.String())
	c.Note("dup_mode", []string{"none", "events", "olric", "both"}[dupMode])
	c.Note("peer_mode", []string{"none", "net-cut", "registry-cut", "net+registry-cut", "registry-faults"}[peerMode])
	c.Note("cut_for", st.cutFor.String())

	cl := startCluster(c, 3, clusterOpts{
		Net: simnet.Config{LatencyMax: latency},
		Sys: []actor.Option{actor.WithLogger(c33Log{Logger: log.DiscardLogger, st: st, debug: os.Getenv("VERIF_C33_DEBUG") != ""})},
		Cluster: func(i int, cc *actor.ClusterConfig) *actor.ClusterConfig {
			if roleMode >= 2 && (i == st.d || (roleMode == 2 && i == roleSurvivor)) {
				return cc.WithRoles("r1")
			}
			return cc
		},
	})
	if cl == nil {
		return
	}
	st.cl = cl
	st.addr = cl.Nodes[st.d].PeersAddr()

	for _, n := range cl.Nodes {
		sub, err := n.Sys.Sys.Subscribe()
		if err != nil {
			c.Fail("c33-subscribe-failed", "harness", "%v", err)
			cl.Stop()
			return
		}
		st.subs = append(st.subs, sub)
	}

	// ---- the population
	type spawnReq struct {
		name string
		opts []actor.SpawnOption
	}
	var reqs []spawnReq
	var relocNames, nonNames []string
	for i := 0; i < nReloc; i++ {
		name := fmt.Sprintf("a%d", i)
		opts := []actor.SpawnOption{actor.WithLongLived()}
		st.flavour[name] = "plain"
		if roleMode >= 2 && i%2 == 0 {
			opts = append(opts, actor.WithRole("r1"))
			st.flavour[name] = "role"
			if roleMode == 3 {
				st.flavour[name] = "role-unplaceable"
			}
		}
		reqs = append(reqs, spawnReq{name, opts})
		relocNames = append(relocNames, name)
	}
	for i := 0; i < nNon; i++ {
		name := fmt.Sprintf("n%d", i)
		st.flavour[name] = "non-relocatable"
		reqs = append(reqs, spawnReq{name, []actor.SpawnOption{actor.WithLongLived(), actor.WithRelocationDisabled()}})
		nonNames = append(nonNames, name)
	}
	st.watch = append(append([]string{}, relocNames...), nonNames...)
	if withSingleton {
		st.flavour["sing"] = "singleton"
		st.watch = append(st.watch, "sing")
	}
	if late {
		st.flavour["late0"] = "late"
		st.watch = append(st.watch, "late0")
	}
	spawnOK := map[string]bool{}
	// two threads on the departing node spawn its actors, one thread per survivor preloads it
	var fns []func()
	for t := 0; t < 2; t++ {
		fns = append(fns, cl.On(st.d, func(nd *clusterNode) {
			for k := t; k < len(reqs); k += 2 {
				r := reqs[k]
				// one Supervisor object per actor: see the note on sup.Supervisor below
				_, err := nd.Sys.Sys.Spawn(nd.Ctx, r.name, &ClusActor{}, append(r.opts, actor.WithSupervisor(sup.NewSupervisor()))...)
				cl.Ev(Ev{Actor: r.name, Inc: nd.Idx, Kind: "spawn-ret", Aux: err})
				if err == nil {
					spawnOK[r.name] = true
				}
				c.Ops++
			}
		}))
	}
	for si, s := range surv {
		n := 0
		if si == 0 {
			n = preload
		} else if preload == 3 {
			n = 1
		}
		fns = append(fns, cl.On(s, func(nd *clusterNode) {
			for k := 0; k < n; k++ {
				_, err := nd.Sys.Sys.Spawn(nd.Ctx, fmt.Sprintf("s%d-%d", nd.Idx, k), &ClusActor{}, actor.WithLongLived(), actor.WithSupervisor(sup.NewSupervisor()))
				if err != nil {
					c.Probe("preload-spawn-error")
				}
				c.Ops++
			}
		}))
	}
	if withSingleton {
		fns = append(fns, cl.On(st.d, func(nd *clusterNode) {
			_, err := nd.Sys.Sys.SpawnSingleton(nd.Ctx, "sing", &ClusActor{}, actor.WithSingletonSupervisor(sup.NewSupervisor()))
			cl.Ev(Ev{Actor: "sing", Inc: nd.Idx, Kind: "spawnsingleton-ret", Aux: err})
			c.Ops++
		}))
	}
	Join(fns...)
	Sleep(100 * time.Millisecond)
	if cl.Failed() {
		cl.Stop()
		return
	}

	// the departed node's relocatable actors: spawned successfully and running there now
	for _, name := range relocNames {
		if r := cl.Running[name]; spawnOK[name] && r != nil && r[st.d] == 1 {
			st.must = append(st.must, name)
		} else {
			c.Probe("relocatable-not-running-at-departure")
		}
	}
	if withSingleton {
		if r := cl.Running["sing"]; r != nil && r[st.d] == 1 {
			st.must = append(st.must, "sing")
			c.Probe("singleton-on-departing-node")
		}
	}
	sort.Strings(st.must)

	// ---- hooks that place the faults inside the relocation
	prevOnOp := cl.Reg.OnOp
	cl.Reg.OnOp = func(node, op, key string) {
		if prevOnOp != nil {
			prevOnOp(node, op, key)
		}
		if st.departed && !cl.stopped && st.anyInFlight() {
			st.regOps++
			st.fire("regop", st.regOps)
		}
	}
	isMust := map[string]bool{}
	for _, m := range st.must {
		isMust[m] = true
	}
	cl.OnActorStart = func(name string, node *clusterNode) {
		if st.departed && isMust[name] && node.Idx != st.d {
			c.Probe("relocated-prestart")
			st.lastActivity = Now()
			if st.anyInFlight() {
				st.prestarts++
				st.fire("prestart", st.prestarts)
			}
		}
	}

	// ---- the departure
	st.inFlight = make([]bool, 3)
	st.seen = []map[string]bool{{}, {}, {}}
	st.spawnsInPeriod = make([]int, 3)
	st.departed = true
	st.departedAt = Now()
	st.lastActivity = Now()
	if cutAtDeparture {
		st.apply("peer-cut")
	}
	if st.regFaults.ErrPerm+st.regFaults.SlowPerm > 0 {
		// Registry faults hit the survivors' relocation, not the departing node's own
		// shutdown: after a crash they start at once (the crashed node is cut off
		// anyway); for a graceful departure they start when the relocation job is
		// registered (c33OnStep). Domain restriction: a registry error inside the
		// departing node's Stop makes it skip the snapshot replication and still
		// withdraw its registry records (shutdownCluster runs its chain WithRunAll),
		// which loses its actors silently — a weakness of the graceful shutdown, not
		// of the relocation the statement quantifies over ("peer failures during
		// relocation").
		if st.kind != 0 {
			cl.RegistryFaults(st.regFaults)
			st.regOnAt = Now() + 1
		} else {
			st.regArmed = true
		}
		off := st.regFor
		Go(func() {
			WaitUntil(50*time.Millisecond, 10*time.Minute, func() bool { return st.regOnAt > 0 || st.finished })
			if st.regOnAt > 0 {
				Sleep(off)
			}
			st.regArmed = false
			cl.RegistryFaultsOff()
			st.regDone = true
			st.lastActivity = Now()
		})
	} else {
		st.regDone = true
	}
	var dep []func()
	dep = append(dep, func() {
		switch st.kind {
		case 0:
			c.Fault("node-leaves")
			_ = cl.Leave(st.d)
		case 1:
			cl.Crash(st.d, true)
		case 2:
			cl.Crash(st.d, false)
			if c.F.Draw(2) == 1 {
				// the rebalance-complete notification of the crash arrives late
				Sleep([]time.Duration{time.Second, 10 * time.Second, 31 * time.Second}[c.F.Draw(3)])
				cl.Reg.Publish("", simcluster.RebalanceComplete(cl.Reg.Epoch))
				c.Fault("late-rebalance-complete")
				st.lastActivity = Now()
			}
		}
	})
	if late {
		dep = append(dep, cl.On(st.d, func(nd *clusterNode) {
			_, err := nd.Sys.Sys.Spawn(nd.Ctx, "late0", &ClusActor{}, actor.WithLongLived(), actor.WithSupervisor(sup.NewSupervisor()))
			cl.Ev(Ev{Actor: "late0", Inc: nd.Idx, Kind: "spawn-ret", Aux: err})
			c.Ops++
		}))
	}
	Join(dep...)

	// ---- quiescence: no relocation activity for 50 s, faults healed
	const settle = 50 * time.Second
	WaitUntil(time.Second, 10*time.Minute, func() bool {
		return cl.Failed() || (st.survivorDown() && !st.cutOn && !cl.Reg.FaultsOn) || (!st.cutOn && !cl.Reg.FaultsOn && (st.regDone || st.regOnAt == 0) && !st.anyInFlight() && Now()-st.lastActivity >= settle)
	})
	st.heal()
	st.finished = true
	st.regArmed = false
	cl.RegistryFaultsOff()
	WaitUntil(50*time.Millisecond, time.Minute, func() bool { return st.regDone })
	switch {
	case cl.Failed():
	case st.survivorDown():
		// out of the checked domain (see survivorDown); the online invariants applied
		c.Probe("survivor-shut-itself-down:final-oracle-skipped")
	default:
		c33Final(c, st)
	}
	if os.Getenv("VERIF_C33_DEBUG") != "" {
		c.Note("trace", strings.Join(st.trace, " ; "))
		c.Note("goakt_log", strings.Join(st.warn, " ; "))
		c.Note("log", cl.Tail(120))
	}
	cl.Stop()
}

// c33Final: the quiescence oracle.
func c33Final(c *Ctx, st *c33State) {
	cl := st.cl
	// the relocation events the survivors published for this departure
	listed := map[string]int{}
	nFailed, nStarted, nStartedExact := 0, 0, 0
	var evs []string
	for _, i := range st.survivors() {
		for m := range st.subs[i].Iterator() {
			switch e := m.Payload().(type) {
			case *actor.RelocationFailed:
				if e.Address() != st.addr {
					continue
				}
				nFailed++
				var names []string
				for _, a := range e.Actors() {
					name := a[strings.LastIndex(a, "/")+1:]
					listed[name]++
					names = append(names, name)
				}
				sort.Strings(names)
				evs = append(evs, fmt.Sprintf("node%d RelocationFailed%v err=%v", i, names, e.Error()))
			case *actor.RelocationStarted:
				if e.Address() != st.addr {
					continue
				}
				nStarted++
				if !e.BestEffort() {
					nStartedExact++
				}
				names := append([]string{}, e.Actors()...)
				sort.Strings(names)
				evs = append(evs, fmt.Sprintf("node%d RelocationStarted%v bestEffort=%v", i, names, e.BestEffort()))
			case *actor.NodeLeft:
				if e.Address() == st.addr {
					evs = append(evs, fmt.Sprintf("node%d NodeLeft", i))
				}
			}
		}
	}
	history := func() string {
		return fmt.Sprintf("departed node%d (%s, %s); its relocatable actors %v; coordinator node%d; relocation runs=%d workers=%d duplicate NodeLeft injected=%d; events: %v; trace: %s; goakt warnings: %s; log tail: %s",
			st.d, st.addr, c33DepartureName(st.kind), st.must, st.leader, st.runs, st.workers, st.dups, evs, strings.Join(st.trace, " ; "), strings.Join(st.warn, " ; "), cl.Tail(40))
	}
	c.Note("relocation_runs", st.runs)
	if st.runs > 0 {
		c.Probe("relocation-ran")
	}
	if st.runs > 1 {
		c.Probe("relocation-ran-again-after-completion")
	}
	if nFailed > 0 {
		c.Probe("relocation-failed-event")
	}
	for _, name := range st.must {
		r := cl.Running[name]
		total := 0
		var where []int
		for _, i := range st.survivors() {
			if cl.Nodes[i].Up() && r[i] > 0 {
				total += r[i]
				where = append(where, i)
			}
		}
		switch {
		case total > 1:
			cl.Fail("actor-runs-twice", st.comp(name)+",quiescence", "actor %q runs %d times on the survivors %v after the relocation; %s", name, total, where, history())
			return
		case total == 0 && listed[name] == 0:
			comp := st.comp(name)
			if st.runs == 0 && st.notLeader >= len(st.survivors()) {
				// every survivor decided it is not the coordinator: nobody relocates
				comp = "no-relocation-run:every-survivor-not-leader"
			} else if st.runs == 0 {
				comp = "no-relocation-run," + comp
			}
			cl.Fail("relocated-actor-lost", comp, "actor %q of the departed node runs on no survivor (per node %v) and no RelocationFailed event for %s names it; %s", name, r, st.addr, history())
			return
		case total == 1 && listed[name] == 0:
			c.Probe("relocated:" + st.flavour[name])
			if where[0] == st.leader {
				c.Probe("relocated-on-coordinator")
			} else {
				c.Probe("relocated-on-peer")
			}
		case total == 0:
			c.Probe("listed-failed:" + st.flavour[name])
		default:
			c.Probe("relocated-and-listed-failed")
		}
	}
	if nFailed > max(st.runs, 1) {
		cl.Fail("relocation-failed-twice", c33DepartureName(st.kind), "%d RelocationFailed events for departed %s but only %d relocation run(s); %s", nFailed, st.addr, st.runs, history())
		return
	}
	if st.kind == 0 && nStartedExact > max(st.runs, 1) {
		c.Probe("relocation-started-more-than-runs")
	}
	// not demanded by the statement: only counted
	for name, f := range st.flavour {
		if f != "non-relocatable" {
			continue
		}
		for _, i := range st.survivors() {
			if r := cl.Running[name]; r != nil && r[i] > 0 {
				c.Probe("non-relocatable-actor-relocated")
			}
		}
	}
	_ = nStarted
}

func init() {
	Register(&Scenario{Prop: "C33", Name: "relocation-accounting", Quick: 200, Thorough: 20000,
		EstSteps: 60000, MaxSteps: 8000000, MaxIdle: time.Hour, Real: clusReal, Stub: clusStub,
		Run: c33Run, OnStep: c33OnStep, Finish: clusterFinish})
}

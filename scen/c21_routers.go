package scen

// C21 — routers distribute messages according to their strategy.
//
// Engine C. One run = one router (pool 1–5, one of round-robin / fan-out /
// random / consistent-hash, one routee-failure directive) fed by 1–3 concurrent
// sender threads with at most 60 Broadcast messages, in batches:
//
//	stable batch        membership is settled: the strict clauses apply
//	transitional batch  sent while one routee panics (fault in flight)
//
// The oracle (c21Finish) is written from the property statement and the router
// documentation (docs/actor/routers.mdx, actor/routing_strategy.go), not from
// router.go. See the clause list at c21Finish.

import (
	"fmt"
	"os"
	"sort"
	"strings"
	"time"

	"github.com/tochemey/goakt/v4/actor"
	"github.com/tochemey/goakt/v4/log"
)

const (
	c21RR = iota
	c21FanOut
	c21Random
	c21Hash
)

const (
	c21Stop = iota
	c21Restart
	c21Resume
)

var c21StratName = []string{"round-robin", "fan-out", "random", "consistent-hash"}
var c21DirName = []string{"stop", "restart", "resume"}

// c21Cur is the Sys of the current run: routees are created by the router from
// a kind (reflect.New), so they cannot carry a pointer to the run's state.
// Reset at the start of every run.
var c21Cur *c21State

var c21Debug = os.Getenv("C21_DEBUG") != ""

type c21Msg struct {
	Tag, From, Seq int
	Key            string
	Panic          bool
	Yields         int
	Work           time.Duration
}

type c21Deliv struct {
	Routee string
	Inc    int
	At     int // log sequence number
}

// c21Routee is the routee kind handed to SpawnRouter.
type c21Routee struct {
	name string
	inc  int
}

func (r *c21Routee) PreStart(ctx *actor.Context) error {
	st := c21Cur
	r.name = ctx.ActorName()
	r.inc++
	if st != nil {
		st.incs[r.name] = r.inc
		st.s.Ev(Ev{Actor: r.name, Inc: r.inc, Kind: "prestart"})
	}
	return nil
}

func (r *c21Routee) PostStop(*actor.Context) error {
	if st := c21Cur; st != nil {
		st.stopped[r.name] = true
		st.s.Ev(Ev{Actor: r.name, Inc: r.inc, Kind: "poststop"})
	}
	return nil
}

func (r *c21Routee) Receive(rc *actor.ReceiveContext) {
	st := c21Cur
	if st == nil {
		return
	}
	switch m := rc.Message().(type) {
	case *actor.PostStart:
		st.pids[r.name] = rc.Self()
		st.s.Ev(Ev{Actor: r.name, Inc: r.inc, Kind: "poststart"})
	case *c21Msg:
		at := st.s.Ev(Ev{Actor: r.name, Inc: r.inc, Kind: "recv", Tag: m.Tag, From: m.From, MSeq: m.Seq, Aux: m.Key})
		if m.Panic {
			st.s.Ev(Ev{Actor: r.name, Inc: r.inc, Kind: "fail", Tag: m.Tag})
			panic(&ErrA{m.Tag})
		}
		st.deliv[m.Tag] = append(st.deliv[m.Tag], c21Deliv{r.name, r.inc, at})
		for i := 0; i < m.Yields; i++ {
			Yield()
		}
		if m.Work > 0 {
			Sleep(m.Work)
		}
	default:
		rc.Unhandled()
	}
}

type c21Rec struct {
	m        *c21Msg
	pause    int  // 0 none, 1 a few yields, 2 sleep 1ms (after the send)
	accepted bool // Tell to the router returned nil
	after    bool // transitional batch: the Tell was invoked after the victim was seen suspended / stopping
}

type c21Batch struct {
	idx       int
	trans     bool
	live      []string // routees expected alive when the batch starts (transitional: before the fault)
	victim    string
	ctx       string // initial | after-<dir> | during-<dir>
	recs      [][]*c21Rec
	marker    bool // transitional: victim seen suspended / stopping (set by the step hook)
	epoch     int  // membership epoch: changes when a routee is removed
	seg       int  // round-robin segment: changes at every fault
	kBefore   int  // Broadcasts accepted by the router before this batch
	mapAt     []string
	nAcc      int
	routerErr string // a stable batch: the router refused a Broadcast although routees should be alive
}

type c21State struct {
	s         *Sys
	c         *Ctx
	strat     int
	dir       int
	pool      int
	nsend     int
	preset    uint32
	router    *actor.PID
	names     []string
	pids      map[string]*actor.PID
	incs      map[string]int
	stopped   map[string]bool
	deliv     map[int][]c21Deliv
	batches   []*c21Batch
	watch     *actor.PID // victim whose suspension the step hook waits for
	watchB    *c21Batch
	unsettled bool
	orphan    map[string]bool
	ready     bool
}

func c21Extract(msg any) string {
	if m, ok := msg.(*c21Msg); ok {
		return m.Key
	}
	return ""
}

// c21OnStep runs on the scheduler goroutine after every step: it marks the
// first step at which the victim of the fault in flight is no longer running
// (VerifPIDFlags is a plain atomic load in a non-instrumented file).
func c21OnStep(c *Ctx) {
	st, _ := c.state.(*c21State)
	if st == nil || st.watch == nil {
		return
	}
	running, suspended, stopping := actor.VerifPIDFlags(st.watch)
	if suspended || stopping || !running {
		st.watchB.marker = true
		st.watch = nil
	}
}

func c21Run(c *Ctx) {
	c21Cur = nil
	sopts := sysOpts(c)
	dl := &c21Logger{Logger: log.DiscardLogger}
	if os.Getenv("C21_DEBUG") == "2" {
		sopts = append(sopts, actor.WithLogger(dl))
	}
	s := StartSys(c, "c21", sopts...)
	dl.s = s
	st := &c21State{s: s, c: c, pids: map[string]*actor.PID{}, incs: map[string]int{}, stopped: map[string]bool{}, deliv: map[int][]c21Deliv{}}
	c.state = st
	c21Cur = st
	defer func() { _ = s.Stop() }()

	st.strat = c.W.Draw(4)
	st.pool = 1 + c.W.Draw(5)
	st.dir = c.W.Draw(3)
	st.nsend = 1 + c.W.Draw(3)
	c.Comp = c21StratName[st.strat]
	var opts []actor.RouterOption
	switch st.strat {
	case c21RR:
		opts = append(opts, actor.WithRoutingStrategy(actor.RoundRobinRouting))
		st.preset = []uint32{0, 1<<32 - 3, 1<<31 - 2}[c.W.Draw(3)]
	case c21FanOut:
		if c.W.Draw(2) == 1 { // fan-out is also the default
			opts = append(opts, actor.WithRoutingStrategy(actor.FanOutRouting))
		}
	case c21Random:
		opts = append(opts, actor.WithRoutingStrategy(actor.RandomRouting))
	case c21Hash:
		opts = append(opts, actor.WithConsistentHashRouter(c21Extract))
		if vn := []int{0, 1, 8}[c.W.Draw(3)]; vn > 0 {
			opts = append(opts, actor.WithConsistentHashVirtualNodes(vn))
			c.Note("vnodes", vn)
		}
	}
	switch st.dir {
	case c21Stop:
		if c.W.Draw(2) == 1 { // stop is also the default
			opts = append(opts, actor.WithStopRouteeOnFailure())
		}
	case c21Restart:
		retries := []uint32{3, 0, 1}[c.W.Draw(3)]
		within := []time.Duration{time.Second, 10 * time.Millisecond}[c.W.Draw(2)]
		opts = append(opts, actor.WithRestartRouteeOnFailure(retries, within))
	case c21Resume:
		opts = append(opts, actor.WithResumeRouteeOnFailure())
	}
	c.Note("strategy", c21StratName[st.strat])
	c.Note("pool", st.pool)
	c.Note("directive", c21DirName[st.dir])
	c.Note("senders", st.nsend)
	c.Probe("strategy:" + c21StratName[st.strat])

	router, err := s.Sys.SpawnRouter(s.Ctx, "rt", st.pool, &c21Routee{}, opts...)
	if err != nil {
		c.Fail("spawn-failed", "router", "%v", err)
		return
	}
	st.router = router
	if st.strat == c21RR {
		if !actor.VerifSetRouterRR(router, st.preset) {
			c.Fail("spawn-failed", "router", "PID returned by SpawnRouter is not a router")
			return
		}
		c.Note("rr_preset", st.preset)
	}
	if !WaitUntil(time.Millisecond, time.Second, func() bool { return len(st.pids) == st.pool }) {
		c.Fail("spawn-failed", "router", "only %d of %d routees started within 1s", len(st.pids), st.pool)
		return
	}
	st.names = sortedKeys(st.pids)
	st.ready = true
	// A routee spawned by the router's PostStart handler before SpawnRouter has
	// attached the router to the actor tree is never attached itself (the
	// "parent pid does not exist" error of tree.addNode is ignored): it has no
	// parent, so no directive is ever applied to it. Outside C21; such a routee
	// is not used as a victim's settle condition (see below).
	st.orphan = map[string]bool{}
	for _, n := range st.names {
		if st.pids[n].Parent() == nil {
			st.orphan[n] = true
			c.Probe("routee-orphan-after-spawn")
		}
	}
	live := append([]string(nil), st.names...)

	rounds := 1 + c.W.Draw(3)
	epoch, seg, faults := 0, 0, 0
	for r := 0; r < rounds && len(live) > 0; r++ {
		if r > 0 && c.F.Draw(3) != 0 {
			// ---- fault round: one routee panics while a transitional batch is sent
			// victims are drawn among the routees that are attached to the actor
			// tree (see the orphan note above): no directive can reach the others
			var cand []string
			for _, n := range live {
				if !st.orphan[n] {
					cand = append(cand, n)
				}
			}
			if len(cand) == 0 {
				c.Probe("fault-on-orphan:all-routees-orphan")
				cand = live
			}
			victim := cand[c.F.Draw(len(cand))]
			b := st.newBatch(true, live, "during-"+c21DirName[st.dir], epoch, seg)
			b.victim = victim
			per := make([]int, st.nsend)
			for t := range per {
				per[t] = c.W.Draw(4)
			}
			st.gen(b, per)
			vpid := st.pids[victim]
			incBefore := st.incs[victim]
			preYields := c.F.Draw(6)
			ptag := c.Seq()
			st.watchB, st.watch = b, vpid
			fns := st.senders(b)
			fns = append(fns, func() {
				for i := 0; i < preYields; i++ {
					Yield()
				}
				s.Ev(Ev{Actor: victim, Kind: "inject-panic", Tag: ptag})
				_ = actor.Tell(s.Ctx, vpid, &c21Msg{Tag: ptag, From: -1, Panic: true})
			})
			c.Fault("routee-panic:" + c21DirName[st.dir])
			Join(fns...)
			faults++
			// settle: the directive has been applied
			ok := c21Wait(3*time.Second, func() bool {
				running, suspended, stopping := actor.VerifPIDFlags(vpid)
				switch st.dir {
				case c21Stop:
					return st.stopped[victim]
				case c21Restart:
					return st.incs[victim] > incBefore && running && !suspended && !stopping
				default:
					return b.marker && running && !suspended && !stopping
				}
			})
			st.watch = nil
			if !ok {
				// the directive never completed: outside C21 (supervision properties); stop checking here
				rrun, _, rstop := actor.VerifPIDFlags(router)
				switch {
				case st.orphan[victim]:
					c.Probe("fault-not-settled:orphan-routee")
				case st.dir != c21Stop && (!rrun || rstop):
					// the router shut itself down instead of applying the directive
					b.routerErr = fmt.Sprintf("the router is no longer running %v after routee %s panicked (batch %d), the %s directive was never applied (routee stopped=%v, incarnation %d)", 3*time.Second, victim, b.idx, c21DirName[st.dir], st.stopped[victim], st.incs[victim])
					c.Probe("router-died-during-" + c21DirName[st.dir])
				default:
					c.Probe("fault-not-settled:" + c21DirName[st.dir])
				}
				st.unsettled = true
				b.mapAt = actor.VerifRouterMembers(router)
				if c21Debug && !st.orphan[victim] && b.routerErr == "" {
					r, su, sp := actor.VerifPIDFlags(vpid)
					c.Fail("debug-not-settled", c21DirName[st.dir], "victim %s running=%v suspended=%v stopping=%v marker=%v map=%v log: %s", victim, r, su, sp, b.marker, actor.VerifRouterMembers(router), s.Tail(60))
				}
				break
			}
			Sleep(5 * time.Millisecond)
			st.drain(b, 300*time.Millisecond)
			b.mapAt = actor.VerifRouterMembers(router)
			if b.marker {
				c.Probe("victim-suspension-observed")
			}
			seg++
			if st.dir == c21Stop {
				epoch++
				var nl []string
				for _, n := range live {
					if n != victim {
						nl = append(nl, n)
					}
				}
				live = nl
				if len(live) == 0 {
					c.Probe("pool-emptied")
					break
				}
			}
		}
		// ---- stable batch
		ctx := "initial"
		if faults > 0 {
			ctx = "after-" + c21DirName[st.dir]
		}
		b := st.newBatch(false, live, ctx, epoch, seg)
		per := make([]int, st.nsend)
		for t := range per {
			if r == 0 {
				per[t] = 1 + c.W.Draw(8)
			} else {
				per[t] = 1 + c.W.Draw(3)
			}
		}
		st.gen(b, per)
		Join(st.senders(b)...)
		st.drain(b, 500*time.Millisecond)
		b.mapAt = actor.VerifRouterMembers(router)
	}
	Sleep(10 * time.Millisecond)
}

func (st *c21State) newBatch(trans bool, live []string, ctx string, epoch, seg int) *c21Batch {
	k := 0
	for _, pb := range st.batches {
		k += pb.nAcc
	}
	b := &c21Batch{idx: len(st.batches), trans: trans, live: append([]string(nil), live...), ctx: ctx, epoch: epoch, seg: seg, kBefore: k}
	st.batches = append(st.batches, b)
	return b
}

// gen draws the messages of a batch (before the sender threads start, so the
// workload tape does not depend on the schedule).
func (st *c21State) gen(b *c21Batch, per []int) {
	c := st.c
	b.recs = make([][]*c21Rec, len(per))
	for t, n := range per {
		for k := 0; k < n; k++ {
			m := &c21Msg{Tag: c.Seq(), From: t, Seq: k}
			m.Key = fmt.Sprintf("k%d", c.W.Draw(8))
			switch c.W.Draw(6) {
			case 3, 4:
				m.Yields = 1 + c.W.Draw(2)
			case 5:
				m.Work = time.Millisecond
			}
			rec := &c21Rec{m: m}
			switch c.W.Draw(8) {
			case 6:
				rec.pause = 1
			case 7:
				rec.pause = 2
			}
			b.recs[t] = append(b.recs[t], rec)
		}
	}
}

func (st *c21State) senders(b *c21Batch) []func() {
	var fns []func()
	for t := range b.recs {
		recs := b.recs[t]
		fns = append(fns, func() {
			for _, rec := range recs {
				rec.after = b.marker
				st.c.Ops++
				err := actor.Tell(st.s.Ctx, st.router, actor.NewBroadcast(rec.m))
				if err == nil {
					rec.accepted = true
					b.nAcc++
				} else if !b.trans && b.routerErr == "" {
					b.routerErr = fmt.Sprintf("batch %d (%s): Tell of message tag %d to the router returned %v", b.idx, b.ctx, rec.m.Tag, err)
				}
				switch rec.pause {
				case 1:
					Yield()
					Yield()
				case 2:
					Sleep(time.Millisecond)
				}
			}
		})
	}
	return fns
}

// want is the number of deliveries a message of batch b should get when nothing is lost.
func (st *c21State) want(b *c21Batch) int {
	if st.strat == c21FanOut {
		return len(b.live)
	}
	return 1
}

// drain waits (simulated time) until every accepted message of b has all its
// deliveries, at most max.
func (st *c21State) drain(b *c21Batch, max time.Duration) {
	c21Wait(max, func() bool {
		w := st.want(b)
		for _, rs := range b.recs {
			for _, rec := range rs {
				if rec.accepted && len(st.deliv[rec.m.Tag]) < w {
					return false
				}
			}
		}
		return true
	})
}

// c21Wait polls cond with growing simulated sleeps (few scheduling steps even for long waits).
func c21Wait(max time.Duration, cond func() bool) bool {
	step := time.Millisecond
	for waited := time.Duration(0); ; waited += step {
		if cond() {
			return true
		}
		if waited >= max {
			return false
		}
		if waited >= 10*time.Millisecond {
			step = 20 * time.Millisecond
		}
		Sleep(step)
	}
}

// ------------------------------------------------------------------ oracle

// c21Finish evaluates (a run reports one violation): clause A over the whole
// run, then B and C batch by batch in the order of the run (the earliest
// manifestation is reported), then D, then E (round-robin order last, because
// the known map-iteration finding makes it fail in most round-robin runs and
// would otherwise hide lost messages):
//
//	A  no message is delivered twice to the same routee (all batches);
//	B  transitional batches: fan-out still delivers every message exactly once
//	   to every routee other than the panicking one; round-robin / random /
//	   consistent-hash do not lose a message whose Tell was invoked after the
//	   victim was already suspended, as long as another routee is alive
//	   ("dead routees leave the rotation", "no message dropped while a routee
//	   is alive");
//	C  stable batches: the router accepts the message, every message reaches
//	   exactly one live routee (fan-out: every live routee exactly once); a
//	   routee kept by the restart / resume directive is still a routee;
//	D  consistent hash: equal keys go to the same routee while membership is
//	   unchanged; after a routee was removed only keys it owned move;
//	E  round-robin: there is ONE fixed enumeration of the live routees and one
//	   linearisation of the senders' messages (per-sender order kept, batches in
//	   order) in which message k goes to routee (k-1) mod n, across the counter
//	   wrap as well.
//
// Restart/resume: a router that shuts itself down while its only routee is
// suspended ("no routees available") instead of applying the directive is
// reported as router-stopped (docs/actor/routers.mdx: the router shuts down
// when all routees are *stopped*).
// Not judged: messages sent while the victim is panicking but before it was
// seen suspended (they may sit in the victim's mailbox when it dies: at-most-
// once delivery), a directive that never completes for a routee that is not
// attached to the actor tree (spawn race, see the orphan note in c21Run).
func c21Finish(c *Ctx) {
	st, _ := c.state.(*c21State)
	if st == nil || !st.ready {
		return
	}
	strat := c21StratName[st.strat]
	wrapAt := 0 // 1-based index of the routed message that makes the uint32 counter wrap to 0
	if st.strat == c21RR && st.preset > 1<<31 {
		wrapAt = int(uint64(1<<32) - uint64(st.preset))
	}
	wrapIn := func(b *c21Batch) bool { return wrapAt > b.kBefore && wrapAt <= b.kBefore+b.nAcc }
	for _, b := range st.batches {
		if wrapIn(b) {
			c.Probe("wrap-reached")
		}
	}
	inSet := func(l []string, n string) bool {
		for _, x := range l {
			if x == n {
				return true
			}
		}
		return false
	}
	per := func(tag int) map[string]int {
		m := map[string]int{}
		for _, d := range st.deliv[tag] {
			m[d.Routee]++
		}
		return m
	}
	each := func(b *c21Batch, f func(rec *c21Rec) bool) {
		for _, rs := range b.recs {
			for _, rec := range rs {
				if rec.accepted && !f(rec) {
					return
				}
			}
		}
	}
	// A: duplicates
	for _, b := range st.batches {
		each(b, func(rec *c21Rec) bool {
			cnt := per(rec.m.Tag)
			for _, n := range sortedKeys(cnt) {
				if cnt[n] > 1 {
					st.fail("delivered-twice", strat, "message tag %d was delivered %d times to routee %s; %s", rec.m.Tag, cnt[n], n, st.describe(b))
					return false
				}
			}
			if st.strat != c21FanOut && len(st.deliv[rec.m.Tag]) > 1 {
				st.fail("delivered-twice", strat, "message tag %d was delivered to %d routees %v by a %s router; %s", rec.m.Tag, len(st.deliv[rec.m.Tag]), st.deliv[rec.m.Tag], strat, st.describe(b))
				return false
			}
			return true
		})
		if c.Failed() {
			return
		}
	}
	// B and C, batch by batch in the order of the run
	for _, b := range st.batches {
		if !b.trans {
			st.checkStable(b, strat, wrapIn(b), per, inSet)
			if c.Failed() {
				return
			}
			continue
		}
		if b.routerErr != "" {
			st.fail("router-stopped", "during-"+c21DirName[st.dir], "%s; live routees before the fault %v, router map %v; %s", b.routerErr, b.live, b.mapAt, st.describe(b))
			return
		}
		others := 0
		for _, n := range b.live {
			if n != b.victim {
				others++
			}
		}
		each(b, func(rec *c21Rec) bool {
			if rec.after {
				c.Probe("sent-after-victim-suspended")
			}
			if st.strat == c21FanOut {
				cnt := per(rec.m.Tag)
				for _, n := range b.live {
					if n != b.victim && cnt[n] != 1 {
						st.fail("fanout-missed-routee", strat+":"+b.ctx, "fan-out message tag %d (accepted by the router) was delivered %d times to live routee %s, which is not the panicking routee %s; %s", rec.m.Tag, cnt[n], n, b.victim, st.describe(b))
						return false
					}
				}
				return true
			}
			if rec.after && others > 0 && len(st.deliv[rec.m.Tag]) == 0 {
				comp := strat + ":routee-suspended"
				if wrapIn(b) {
					comp = strat + ":counter-wrap"
				}
				st.fail("message-dropped", comp, "message tag %d was sent to the router after routee %s was already suspended/stopping (panic, directive %s) and was never delivered although %d other routee(s) were alive; router map after settling %v; %s", rec.m.Tag, b.victim, c21DirName[st.dir], others, b.mapAt, st.describe(b))
				return false
			}
			if !rec.after && len(st.deliv[rec.m.Tag]) == 0 {
				c.Probe("transitional-loss-unattributed") // may have been queued at the victim when it died: at-most-once delivery
			}
			return true
		})
		if c.Failed() {
			return
		}
	}
	// D: consistent hash
	if st.strat == c21Hash {
		type own struct {
			routee string
			tag    int
			batch  *c21Batch
		}
		owner := map[string]own{} // key -> owner within the current epoch
		prev := map[string]own{}  // owners in the previous epoch
		epoch := 0
		var removed []string
		for _, b := range st.batches {
			if b.trans {
				if st.dir == c21Stop {
					removed = append(removed, b.victim)
				}
				continue
			}
			if b.epoch != epoch {
				epoch = b.epoch
				for k, o := range owner {
					prev[k] = o
				}
				owner = map[string]own{}
			}
			each(b, func(rec *c21Rec) bool {
				if rec.m.Key == "" || len(st.deliv[rec.m.Tag]) != 1 {
					return true
				}
				to := st.deliv[rec.m.Tag][0].Routee
				if o, ok := owner[rec.m.Key]; ok {
					if o.routee != to {
						st.fail("hash-key-split", strat+":"+b.ctx, "key %q went to %s (message tag %d, batch %d %s) and to %s (message tag %d, batch %d %s) although no routee was removed in between; live routees %v, router map %v; %s", rec.m.Key, o.routee, o.tag, o.batch.idx, o.batch.ctx, to, rec.m.Tag, b.idx, b.ctx, b.live, b.mapAt, st.describe(b))
						return false
					}
					return true
				}
				if o, ok := prev[rec.m.Key]; ok && o.routee != to && inSet(b.live, o.routee) {
					st.fail("hash-key-moved", strat+":"+b.ctx, "key %q was owned by %s (message tag %d) which is still a routee, but after routee(s) %v were removed it went to %s (message tag %d): a key not owned by the removed routee moved; %s", rec.m.Key, o.routee, o.tag, removed, to, rec.m.Tag, st.describe(b))
					return false
				}
				owner[rec.m.Key] = own{to, rec.m.Tag, b}
				return true
			})
			if c.Failed() {
				return
			}
		}
	}
	// E: round-robin cyclic order, per segment of consecutive stable batches
	if st.strat == c21RR {
		i := 0
		for i < len(st.batches) {
			if st.batches[i].trans {
				i++
				continue
			}
			j := i
			for j+1 < len(st.batches) && !st.batches[j+1].trans && st.batches[j+1].seg == st.batches[i].seg {
				j++
			}
			st.checkCyclic(st.batches[i:j+1], wrapAt)
			if c.Failed() {
				return
			}
			i = j + 1
		}
	}
}

// checkStable is clause C for one stable batch.
func (st *c21State) checkStable(b *c21Batch, strat string, wrap bool, per func(int) map[string]int, inSet func([]string, string) bool) {
	if b.routerErr != "" {
		st.fail("router-stopped", "after-"+c21DirName[st.dir], "%s although routees %v should be alive; routee incarnations %v, stopped %v, router map %v", b.routerErr, b.live, st.incs, sortedKeys(st.stopped), b.mapAt)
		return
	}
	each := func(b *c21Batch, f func(rec *c21Rec) bool) {
		for _, rs := range b.recs {
			for _, rec := range rs {
				if rec.accepted && !f(rec) {
					return
				}
			}
		}
	}
	each(b, func(rec *c21Rec) bool {
		cnt := per(rec.m.Tag)
		if st.strat == c21FanOut {
			for _, n := range b.live {
				if cnt[n] != 1 {
					st.fail("fanout-missed-routee", strat+":"+b.ctx, "fan-out message tag %d was delivered %d times to routee %s (expected live routees %v; router map after the batch %v); %s", rec.m.Tag, cnt[n], n, b.live, b.mapAt, st.describe(b))
					return false
				}
			}
			return true
		}
		if len(st.deliv[rec.m.Tag]) == 0 {
			comp := strat + ":" + b.ctx
			if wrap {
				comp = strat + ":counter-wrap"
			}
			st.fail("message-dropped", comp, "message tag %d (sender %d seq %d) was accepted by the router and never delivered to any routee; live routees %v, router map after the batch %v, %d Broadcasts accepted before this batch, counter preset %d; %s", rec.m.Tag, rec.m.From, rec.m.Seq, b.live, b.mapAt, b.kBefore, st.preset, st.describe(b))
			return false
		}
		if d := st.deliv[rec.m.Tag][0]; !inSet(b.live, d.Routee) {
			st.fail("delivered-to-nonmember", strat, "message tag %d was delivered to %s which is not among the expected live routees %v", rec.m.Tag, d.Routee, b.live)
			return false
		}
		return true
	})
}

// checkCyclic decides whether the recipients of a segment are explained by one
// fixed enumeration of the live routees visited cyclically.
func (st *c21State) checkCyclic(seg []*c21Batch, wrapAt int) {
	live := seg[0].live
	n := len(live)
	total := 0
	// recipients per batch per sender, as indexes into live
	idx := map[string]int{}
	for i, nm := range live {
		idx[nm] = i
	}
	var rec [][][]int
	for _, b := range seg {
		var pb [][]int
		for _, rs := range b.recs {
			var ps []int
			for _, r := range rs {
				if !r.accepted {
					continue
				}
				ps = append(ps, idx[st.deliv[r.m.Tag][0].Routee])
				total++
			}
			pb = append(pb, ps)
		}
		rec = append(rec, pb)
	}
	if n < 2 || total < 2 {
		return
	}
	st.c.Probe("rr-segment-checked")
	feasible := func(perm []int, start int) bool {
		pos := 0
		for _, pb := range rec {
			size := 0
			radix := make([]int, len(pb))
			for t, ps := range pb {
				radix[t] = len(ps) + 1
				size += len(ps)
			}
			enc := func(v []int) int {
				e := 0
				for t := range v {
					e = e*radix[t] + v[t]
				}
				return e
			}
			cur := map[int][]int{0: make([]int, len(pb))}
			for k := 0; k < size; k++ {
				want := perm[(start+pos+k)%n]
				next := map[int][]int{}
				for _, v := range cur {
					for t, ps := range pb {
						if v[t] < len(ps) && ps[v[t]] == want {
							nv := append([]int(nil), v...)
							nv[t]++
							next[enc(nv)] = nv
						}
					}
				}
				if len(next) == 0 {
					return false
				}
				cur = next
			}
			pos += size
		}
		return true
	}
	// all cyclic orders: permutations with element 0 first, times the start offset
	perm := make([]int, n)
	for i := range perm {
		perm[i] = i
	}
	found := false
	var rec2 func(k int)
	rec2 = func(k int) {
		if found {
			return
		}
		if k == n {
			for s := 0; s < n && !found; s++ {
				if feasible(perm, s) {
					found = true
				}
			}
			return
		}
		for i := k; i < n; i++ {
			perm[k], perm[i] = perm[i], perm[k]
			rec2(k + 1)
			perm[k], perm[i] = perm[i], perm[k]
		}
	}
	rec2(1)
	if found {
		return
	}
	comp := "round-robin"
	last := seg[len(seg)-1]
	where := seg[0].ctx
	if wrapAt > seg[0].kBefore && wrapAt <= last.kBefore+last.nAcc {
		where += ", the counter wraps inside this segment"
	}
	var sb strings.Builder
	for bi, pb := range rec {
		fmt.Fprintf(&sb, " batch %d:", seg[bi].idx)
		for t, ps := range pb {
			fmt.Fprintf(&sb, " sender%d->%v", t, ps)
		}
	}
	st.fail("round-robin-not-cyclic", comp, "no fixed enumeration of the %d live routees %v explains the recipients as a cycle (message k to routee (k-1) mod n), for any interleaving of the senders (%s); recipients by sender, in send order (index into the routee list):%s; counter preset %d, %d Broadcasts before the segment", n, live, where, sb.String(), st.preset, seg[0].kBefore)
}

// describe renders the run parameters and the deliveries of a batch.
func (st *c21State) describe(b *c21Batch) string {
	var sb strings.Builder
	fmt.Fprintf(&sb, "run: %s pool=%d directive=%s senders=%d; batch %d (%s) live=%v victim=%q marker=%v:", c21StratName[st.strat], st.pool, c21DirName[st.dir], st.nsend, b.idx, b.ctx, b.live, b.victim, b.marker)
	for t, rs := range b.recs {
		fmt.Fprintf(&sb, " sender%d[", t)
		for _, r := range rs {
			var to []string
			for _, d := range st.deliv[r.m.Tag] {
				to = append(to, strings.TrimPrefix(d.Routee, "rtRoutee"))
			}
			sort.Strings(to)
			flag := ""
			if !r.accepted {
				flag = "!rejected"
			} else if r.after {
				flag = "+"
			}
			fmt.Fprintf(&sb, "%d%s:%s>%s ", r.m.Tag, flag, r.m.Key, strings.Join(to, ","))
		}
		sb.WriteString("]")
	}
	return sb.String()
}

func init() {
	Register(&Scenario{Prop: "C21", Name: "routers", Variants: []string{"stock"}, Quick: 2500, Thorough: 250000,
		EstSteps: 6000, MaxSteps: 400000, MaxIdle: time.Hour, Real: sysReal,
		Stub: append([]string{"routee actor: harness type c21Routee (logs deliveries, panics on request)"}, sysStub...),
		Run:  c21Run, OnStep: c21OnStep, Finish: c21Finish})
}

// fail reports a violation; with C21_DEBUG set the event log is appended.
func (st *c21State) fail(class, comp, format string, args ...any) {
	if c21Debug {
		format += "; LOG: " + strings.ReplaceAll(st.s.Tail(120), "%", "%%")
	}
	st.c.Fail(class, comp, format, args...)
}

// c21Logger copies goakt's log lines into the event log (C21_DEBUG only).
type c21Logger struct {
	log.Logger
	s *Sys
}

func (l *c21Logger) put(v string) {
	if l.s != nil {
		l.s.Ev(Ev{Kind: "LOG", Aux: v})
	}
}
func (l *c21Logger) Enabled(log.Level) bool    { return true }
func (l *c21Logger) LogLevel() log.Level       { return log.DebugLevel }
func (l *c21Logger) With(...any) log.Logger    { return l }
func (l *c21Logger) Debug(v ...any)            { l.put(fmt.Sprint(v...)) }
func (l *c21Logger) Debugf(f string, v ...any) { l.put(fmt.Sprintf(f, v...)) }
func (l *c21Logger) Info(v ...any)             { l.put(fmt.Sprint(v...)) }
func (l *c21Logger) Infof(f string, v ...any)  { l.put(fmt.Sprintf(f, v...)) }
func (l *c21Logger) Warn(v ...any)             { l.put(fmt.Sprint(v...)) }
func (l *c21Logger) Warnf(f string, v ...any)  { l.put(fmt.Sprintf(f, v...)) }
func (l *c21Logger) Error(v ...any)            { l.put(fmt.Sprint(v...)) }
func (l *c21Logger) Errorf(f string, v ...any) { l.put(fmt.Sprintf(f, v...)) }

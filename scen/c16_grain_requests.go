package scen

// C16 (grain requester side) — every reentrant request of a grain completes
// exactly once, on the grain's turn; stash-mode exclusion; counters back to zero.
//
// Single node (StartSys). 1–2 probe grains with reentrancy (AllowAll or
// StashNonReentrant, per-call WithReentrancyMode overrides) receive, from 2–4
// driver threads, TellGrain / AskGrain commands; a command may make the grain
// issue 1–2 RequestActor / RequestGrain calls (each followed by Then inside
// OnReceive) and may call DisableReentrancy afterwards. Responder actors reply
// at once, after 1–3 ms of simulated work, or never (the request timeout, drawn on
// the same grid ±1 ns, completes it); in some runs a responder is suspended by a
// failure (an error without a supervisor directive) so that the delivery Tell of
// a later RequestActor fails after the request was admitted.
//
// Oracle, from the statement only:
//  1. the continuation of a request runs at most once, and by quiescence exactly
//     once (every grain request has a timeout);        request-completed-twice / request-never-completed
//  2. it never overlaps an OnReceive or another continuation of the same grain on
//     another goroutine;                                continuation-overlaps-receive / -continuation
//  3. while a StashNonReentrant request is outstanding (Then returned, continuation
//     not yet started) the grain handles no ordinary command;   stash-exclusion-violated
//  4. at quiescence every ordinary command that was sent has been handled (a grain
//     that stays paused shows here);                    grain-message-never-handled
//  5. at quiescence inFlightCount and blockingCount are zero.    grain-counters-not-zero
// The arrival-order clause is not checked here: TellGrain/AskGrain are synchronous
// for the caller, so a sender's commands cannot overtake each other.

import (
	"context"
	"errors"
	"fmt"
	"time"

	"github.com/tochemey/goakt/v4/actor"
	gerrors "github.com/tochemey/goakt/v4/errors"
	"github.com/tochemey/goakt/v4/reentrancy"
	"github.com/tochemey/goakt/v4/supervisor"
	"github.com/tochemey/goakt/v4/zzverif/simrt"
)

type c16gSpec struct {
	tag      int
	toGrain  string // "" = RequestActor
	toActor  string
	ops      []Op
	work     time.Duration
	reply    bool
	timeout  time.Duration
	override reentrancy.Mode
}

type c16gMsg struct {
	Tag, From, Seq int
	Ask            bool
	Reqs           []*c16gSpec
	Disable        bool
	// envelope payload sent grain -> grain
	Inner bool
	Work  time.Duration
	Reply bool
}

type c16gReq struct {
	sp       *c16gSpec
	grain    string
	mode     reentrancy.Mode
	issueSeq int
	openSeq  int // Then returned without the continuation having run: the request is outstanding
	doneN    int
	doneSeq  int
	kind     string
}

type c16gState struct {
	c      *Ctx
	s      *Sys
	names  []string
	ids    map[string]*actor.GrainIdentity
	mode   map[string]reentrancy.Mode
	inRecv map[string]string
	inCont map[string]string
	reqs   []*c16gReq
	sent   map[int]string // ordinary command tag -> grain
	tnames []string
}

var c16gCur *c16gState

type c16gGrain struct{ name string }

func (g *c16gGrain) OnActivate(_ context.Context, props *actor.GrainProps) error {
	g.name = props.Identity().Name()
	c16gCur.s.Ev(Ev{Actor: g.name, Kind: "activate"})
	return nil
}

func (g *c16gGrain) OnDeactivate(context.Context, *actor.GrainProps) error {
	c16gCur.s.Ev(Ev{Actor: g.name, Kind: "deactivate"})
	return nil
}

func (g *c16gGrain) OnReceive(gc *actor.GrainContext) {
	st := c16gCur
	m, ok := gc.Message().(*c16gMsg)
	if !ok {
		gc.Unhandled()
		return
	}
	me := simrt.ThreadID()
	name := gc.Self().Name()
	kind := "recv-enter"
	if m.Inner {
		kind = "inner-enter" // a request from another grain, not an ordinary command of a driver
	}
	st.s.Ev(Ev{Actor: name, Kind: kind, Tag: m.Tag, From: m.From, MSeq: m.Seq})
	if st.inRecv[name] != "" {
		st.c.Fail("receive-overlap", "grain", "grain %s: OnReceive (tag %d) entered on goroutine %s while another OnReceive runs on %s; log tail: %s", name, m.Tag, me, st.inRecv[name], st.s.Tail(14))
	}
	if st.inCont[name] != "" && st.inCont[name] != me {
		st.c.Fail("continuation-overlaps-receive", "grain", "grain %s: OnReceive (tag %d) entered on goroutine %s while a continuation runs on %s; log tail: %s", name, m.Tag, me, st.inCont[name], st.s.Tail(14))
	}
	st.inRecv[name] = me
	simrt.Yield(-320)
	if m.Work > 0 {
		simrt.Sleep(-321, m.Work)
	}
	for _, sp := range m.Reqs {
		st.issue(gc, name, sp)
	}
	if m.Disable {
		st.c.Fault("disable-reentrancy")
		st.s.Ev(Ev{Actor: name, Kind: "disable-reentrancy", Tag: m.Tag})
		gc.DisableReentrancy()
		st.mode[name] = reentrancy.Off
	}
	simrt.Yield(-320)
	st.inRecv[name] = ""
	st.s.Ev(Ev{Actor: name, Kind: "recv-exit", Tag: m.Tag, From: m.From, MSeq: m.Seq})
	switch {
	case m.Inner && !m.Reply:
		// a requested grain that never answers (the requester's timeout completes the request)
	case m.Ask || m.Inner:
		gc.Response(&Reply{Tag: m.Tag, From: name})
	default:
		gc.NoErr()
	}
}

func (st *c16gState) issue(gc *actor.GrainContext, name string, sp *c16gSpec) {
	s, c := st.s, st.c
	r := &c16gReq{sp: sp, grain: name, mode: st.mode[name], openSeq: -1}
	opts := []actor.RequestOption{actor.WithRequestTimeout(sp.timeout)}
	if sp.override != reentrancy.Off {
		r.mode = sp.override
		opts = append(opts, actor.WithReentrancyMode(sp.override))
	}
	st.reqs = append(st.reqs, r)
	c.Ops++
	r.issueSeq = s.Ev(Ev{Actor: name, Kind: "req-issue", Tag: sp.tag, Aux: fmt.Sprintf("%s actor=%s grain=%s timeout=%v", c16Mode(r.mode), sp.toActor, sp.toGrain, sp.timeout)})
	var call actor.RequestCall
	if sp.toGrain != "" {
		call = gc.RequestGrain(st.ids[sp.toGrain], &c16gMsg{Tag: sp.tag, From: 100, Inner: true, Work: sp.work, Reply: sp.reply}, opts...)
	} else {
		call = gc.RequestActor(sp.toActor, &Cmd{Tag: sp.tag, From: 100, Ops: sp.ops}, opts...)
	}
	if call == nil {
		s.Ev(Ev{Actor: name, Kind: "req-nil-call", Tag: sp.tag})
		r.doneN, r.kind = 1, "nil-call"
		return
	}
	call.Then(func(resp any, err error) { st.onDone(r, resp, err) })
	if r.doneN == 0 {
		r.openSeq = s.Ev(Ev{Actor: name, Kind: "req-open", Tag: sp.tag})
	}
}

func (st *c16gState) onDone(r *c16gReq, resp any, err error) {
	s, c := st.s, st.c
	g := simrt.ThreadID()
	r.doneN++
	kind := "reply"
	switch {
	case err == nil:
	case errors.Is(err, gerrors.ErrRequestTimeout):
		kind = "timeout"
	case errors.Is(err, gerrors.ErrRequestCanceled):
		kind = "canceled"
	default:
		kind = "error"
	}
	seq := s.Ev(Ev{Actor: r.grain, Kind: "req-done", Tag: r.sp.tag, Aux: fmt.Sprintf("%s resp=%s err=%v", kind, c15Render([]any{resp}), err)})
	if r.doneN > 1 {
		c.Fail("request-completed-twice", "grain:"+c16Mode(r.mode), "continuation of grain request tag %d of %s ran again (%s, event #%d); log tail: %s", r.sp.tag, r.grain, kind, seq, s.Tail(14))
		return
	}
	r.kind, r.doneSeq = kind, seq
	c.Probe("grain-done:" + kind)
	if in := st.inRecv[r.grain]; in != "" && in != g {
		c.Fail("continuation-overlaps-receive", "grain", "continuation of request tag %d of grain %s runs on goroutine %s while OnReceive is in progress on %s; log tail: %s", r.sp.tag, r.grain, g, in, s.Tail(14))
		return
	}
	if in := st.inCont[r.grain]; in != "" && in != g {
		c.Fail("continuation-overlaps-continuation", "grain", "continuation of request tag %d of grain %s runs on goroutine %s while another continuation runs on %s; log tail: %s", r.sp.tag, r.grain, g, in, s.Tail(14))
		return
	}
	if kind == "reply" {
		if rep, ok := resp.(*Reply); !ok || rep == nil || rep.Tag != r.sp.tag {
			c.Fail("request-wrong-reply", "grain:"+c16Mode(r.mode), "grain request tag %d of %s completed with %s; log tail: %s", r.sp.tag, r.grain, c15Render([]any{resp}), s.Tail(14))
			return
		}
	}
	prev := st.inCont[r.grain]
	st.inCont[r.grain] = g
	simrt.Yield(-322)
	st.inCont[r.grain] = prev
}

func c16gRun(c *Ctx) {
	s := StartSys(c, "c16g", sysOpts(c)...)
	st := &c16gState{c: c, s: s, ids: map[string]*actor.GrainIdentity{}, mode: map[string]reentrancy.Mode{}, inRecv: map[string]string{}, inCont: map[string]string{}, sent: map[int]string{}}
	c.state = st
	c16gCur = st
	Sleep(time.Millisecond) // system actors settle
	ntg := 1 + c.W.Draw(2)
	var tpids []*actor.PID
	for i := 0; i < ntg; i++ {
		name := fmt.Sprintf("t%d", i)
		// default supervisor: an error without a directive suspends the actor
		_, pid, err := s.Spawn(name, actor.WithLongLived(), actor.WithSupervisor(supervisor.NewSupervisor()))
		if err != nil {
			c.Fail("spawn-failed", name, "%v", err)
			return
		}
		st.tnames = append(st.tnames, name)
		tpids = append(tpids, pid)
	}
	ng := 1 + c.W.Draw(2)
	var desc []string
	for i := 0; i < ng; i++ {
		name := fmt.Sprintf("g%d", i)
		mode := reentrancy.AllowAll
		if c.W.Draw(2) == 1 {
			mode = reentrancy.StashNonReentrant
		}
		id, err := actor.GrainOf[*c16gGrain](s.Ctx, s.Sys, name, actor.WithGrainDeactivateAfter(time.Hour),
			actor.WithGrainReentrancy(reentrancy.New(reentrancy.WithMode(mode))))
		if err != nil {
			c.Fail("grain-activation-failed", name, "%v", err)
			return
		}
		st.names = append(st.names, name)
		st.ids[name], st.mode[name] = id, mode
		desc = append(desc, name+":"+c16Mode(mode))
	}
	c.Note("grains", desc)
	c.Comp = "grain"
	genSpec := func(from string) *c16gSpec {
		sp := &c16gSpec{tag: c.Seq(), toActor: st.tnames[c.W.Draw(ntg)]}
		switch c.W.Draw(6) {
		case 0, 1:
			sp.ops, sp.reply = []Op{{K: OpRespond}}, true
		case 2, 3:
			sp.work = c15Grid[c.W.Draw(len(c15Grid))]
			sp.ops, sp.reply = []Op{{K: OpWork, D: sp.work}, {K: OpRespond}}, true
		case 4:
		case 5:
			sp.work = c15Grid[c.W.Draw(len(c15Grid))]
			sp.ops = []Op{{K: OpWork, D: sp.work}}
		}
		if ng > 1 && c.W.Draw(4) == 1 {
			for _, n := range st.names {
				if n != from {
					sp.toGrain = n
				}
			}
		}
		base := sp.work
		if base == 0 {
			base = time.Millisecond
		}
		switch sel := c.W.Draw(6); sel {
		case 0:
			sp.timeout = 20 * time.Millisecond
		case 1, 2, 3:
			sp.timeout = base + time.Duration(sel-2)
		default:
			sp.timeout = base + time.Millisecond + time.Duration(sel-4)
		}
		switch c.W.Draw(5) {
		case 1:
			sp.override = reentrancy.StashNonReentrant
		case 2:
			sp.override = reentrancy.AllowAll
		}
		return sp
	}
	nthreads := 2 + c.W.Draw(3)
	disable := c.F.Draw(5) == 1
	var fns []func()
	for t := 0; t < nthreads; t++ {
		n := 3 + c.W.Draw(4)
		fns = append(fns, func() {
			for k := 0; k < n; k++ {
				gname := st.names[c.W.Draw(ng)]
				m := &c16gMsg{Tag: c.Seq(), From: t, Seq: k, Ask: c.W.Draw(3) == 1}
				if c.W.Draw(2) == 0 {
					for j := 0; j < 1+c.W.Draw(2); j++ {
						m.Reqs = append(m.Reqs, genSpec(gname))
					}
					if disable && c.W.Draw(4) == 1 {
						m.Disable = true
					}
				}
				if c.W.Draw(4) == 1 {
					m.Work = time.Millisecond
				}
				st.sent[m.Tag] = gname
				s.Ev(Ev{Actor: gname, Kind: "send", Tag: m.Tag, From: t, MSeq: k, Aux: m.Ask})
				var err error
				if m.Ask {
					_, err = s.Sys.AskGrain(s.Ctx, st.ids[gname], m, 50*time.Millisecond)
				} else {
					err = s.Sys.TellGrain(s.Ctx, st.ids[gname], m)
				}
				s.Ev(Ev{Actor: gname, Kind: "send-ret", Tag: m.Tag, From: t, MSeq: k, Aux: err})
				if c.W.Draw(4) == 1 {
					Sleep(time.Millisecond + time.Duration(c.W.Draw(3)-1))
				}
			}
		})
	}
	if c.F.Draw(3) == 1 {
		ti := c.F.Draw(ntg)
		at := time.Duration(c.F.Draw(4)) * time.Millisecond
		fns = append(fns, func() {
			Sleep(at)
			c.Fault("target-suspended")
			s.Ev(Ev{Actor: st.tnames[ti], Kind: "chaos-suspend"})
			_ = actor.Tell(s.Ctx, tpids[ti], &Cmd{Tag: c.Seq(), From: 98, Ops: []Op{{K: OpErr, N: 0}}})
		})
	}
	Join(fns...)
	last := -1
	WaitUntil(25*time.Millisecond, 10*time.Second, func() bool {
		n := len(s.Log)
		quiet := n == last
		last = n
		return quiet
	})
	st.finalChecks()
	_ = s.Stop()
}

func (st *c16gState) finalChecks() {
	c, s := st.c, st.s
	if c.Failed() {
		return
	}
	if !s.Sys.Running() {
		c.Fail("actor-system-stopped-itself", "c16g", "the actor system is no longer running at quiescence; log tail: %s", s.Tail(14))
		return
	}
	handled := map[int]bool{}
	for _, e := range s.Log {
		if e.Kind == "recv-enter" {
			handled[e.Tag] = true
		}
	}
	for _, r := range st.reqs {
		if r.doneN == 0 {
			c.Fail("request-never-completed", "grain:"+c16Mode(r.mode), "grain request tag %d of %s (timeout %v, issued #%d) has not completed at quiescence (t=%v); log tail: %s", r.sp.tag, r.grain, r.sp.timeout, r.issueSeq, Now(), s.Tail(14))
			return
		}
	}
	for _, e := range s.Log {
		if e.Kind == "send" && !handled[e.Tag] {
			in, bl, _ := actor.VerifGrainCounters(s.Sys, st.ids[e.Actor].String())
			c.Fail("grain-message-never-handled", "grain", "command tag %d (sender %d seq %d) sent to grain %s at event #%d was never handled although every request has completed (inFlightCount=%d blockingCount=%d at quiescence, t=%v); log tail: %s", e.Tag, e.From, e.MSeq, e.Actor, e.Seq, in, bl, Now(), s.Tail(14))
			return
		}
	}
	for _, n := range st.names {
		if in, bl, ok := actor.VerifGrainCounters(s.Sys, st.ids[n].String()); ok && (in != 0 || bl != 0) {
			c.Fail("grain-counters-not-zero", "grain", "grain %s has inFlightCount=%d blockingCount=%d at quiescence although every request completed; log tail: %s", n, in, bl, s.Tail(14))
			return
		}
	}
}

func c16gFinish(c *Ctx) {
	st, _ := c.state.(*c16gState)
	if st == nil {
		return
	}
	log := st.s.Log
	for _, r := range st.reqs {
		if r.mode != reentrancy.StashNonReentrant || r.openSeq < 0 {
			continue
		}
		to := len(log)
		if r.doneN > 0 && r.doneSeq > 0 {
			to = r.doneSeq
		}
		for _, e := range log[r.openSeq:to] {
			if e.Kind == "recv-enter" && e.Actor == r.grain {
				c.Fail("stash-exclusion-violated", "grain", "grain %s handled command tag %d (event #%d) while its blocking request tag %d was outstanding (open #%d, done #%d %s); log: %s", r.grain, e.Tag, e.Seq, r.sp.tag, r.openSeq, r.doneSeq, r.kind, c16Around(log, e.Seq))
				return
			}
		}
	}
}

func init() {
	Register(&Scenario{Prop: "C16", Name: "grain-requests", Variants: []string{"stock"}, Quick: 1500, Thorough: 150000,
		EstSteps: 3000, MaxSteps: 400000, MaxIdle: time.Hour, Real: sysReal, Stub: sysStub, Run: c16gRun, Finish: c16gFinish})
}

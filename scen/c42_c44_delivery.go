package scen

// C42 / C43 / C44: reliable delivery (point-to-point and work-pulling) under
// loss, duplication and delay (=> reordering) of the messages the controllers
// exchange. Engine C (one real actor system); the real producer, consumer and
// work-pulling controllers run next to scripted endpoint actors that follow the
// documented endpoint contracts (docs/clustering/reliable-delivery). Hook H3
// (actor.ReliableSimFabric) hands every message a controller is about to send to
// the fabric below, which observes all of them and faults only
// controller-to-controller traffic (RegisterConsumer, RegistrationAck, Request,
// Ack, SequencedMessage), with a fault budget that stops at a drawn instant.
//
// Domain restrictions (stated, not guessed): no durable queue, no chunking, no
// controller restart (C42 excludes it), single node. In the work-pulling runs at
// least one worker (the "survivor") is never stopped, so that redelivery is
// possible at all.

import (
	"context"
	"fmt"
	"os"
	"strings"
	"time"

	"github.com/tochemey/goakt/v4/actor"
	"github.com/tochemey/goakt/v4/eventstream"
	"github.com/tochemey/goakt/v4/test/data/testpb"
)

var rdReal = []string{"actor: reliable_delivery_producer_controller, reliable_delivery_consumer_controller, reliable_delivery_work_pulling_controller, reliable_delivery_protocol/companion/config (real controllers, registration fencing, ticks through the real scheduler)", "internal/commands (delivery commands)", "internal/remoteclient (payload serializer dispatch only)", "actor system, dispatcher, mailboxes, death watch, scheduler (go-quartz instrumented copy)"}
var rdStub = []string{"controller-to-controller transport: in-process Tell behind hook H3 (the fabric drops/duplicates/delays whole messages; no sockets, no cluster registry)", "endpoint actors: scripted producer/consumer/worker following the documented contracts", "durable queues: none (volatile flows)", "logger: discard", "wall clock: testing/synctest fake clock"}

// rdEv is one entry of the run's totally ordered observation log.
type rdEv struct {
	T    time.Duration
	K    string // x:<kind> = controller traffic seen at the fabric (at emission, before the fault decision); cc:delivery = Delivery emitted by a consumer controller; p:* producer endpoint; c:* consumer/worker endpoint; w:* membership; m:* run milestones
	Who  string // flow = name of the consumer controller (one per consumer/worker incarnation)
	Seq  int64
	A, B int64
	Msg  string
	Aux  string
}

func (e rdEv) String() string {
	s := fmt.Sprintf("t=%v %s", e.T, e.K)
	if e.Who != "" {
		s += " flow=" + rdShort(e.Who)
	}
	if e.Seq != 0 {
		s += fmt.Sprintf(" seq=%d", e.Seq)
	}
	switch e.K {
	case "x:request":
		s += fmt.Sprintf(" confirmed=%d upTo=%d", e.A, e.B)
	case "x:ack":
		s += fmt.Sprintf(" confirmed=%d", e.A)
	}
	if e.Msg != "" {
		s += " msg=" + e.Msg
	}
	if e.Aux != "" {
		s += " [" + e.Aux + "]"
	}
	return s
}

// rdShort abbreviates a controller name (reserved prefix + incarnation uuid).
func rdShort(n string) string {
	if len(n) > 8 {
		return "…" + n[len(n)-6:]
	}
	return n
}

type rdJob struct{ Idx int }

type rdConfirmNow struct {
	d    *actor.Delivery
	ctrl *actor.PID
}

type rdState struct {
	c    *Ctx
	s    *Sys
	prop string // which property's oracles this run evaluates
	comp string // "p2p" | "work-pulling"
	wp   bool

	ri, pi         time.Duration
	window         int
	n              int
	gaps           []time.Duration // feed gap before job i
	cdel           []time.Duration // processing time of job i at whoever handles it
	cmode          int             // 0 confirm inside the handler (after the processing time), 1 confirm later through a self message
	maxGap, maxDel time.Duration

	log []rdEv

	// fabric
	pDrop, pDup, pDelay int
	kindMask            int
	budget              int
	stopAt              time.Duration
	off, closed         bool
	inflight            int
	delays              []time.Duration
	maxUpTo             map[string]int64 // consumer controller -> highest requestUpTo it has issued
	ccPID               map[string]*actor.PID
	ccOrder             []string
	ccH                 []*actor.VerifRDConsumer
	ccHName             []string
	pcPID               *actor.PID
	incOf               map[string]int    // endpoint name -> current incarnation number
	ccOf                map[string]string // "name#inc" -> consumer controller name
	labelOf             map[string]string // consumer controller name -> "name#inc"
	unwatched           map[string]bool   // work-pulling: the producer-side controller acknowledged the registration of this consumer controller without being its watcher

	prod     *rdProducer
	prodPID  *actor.PID
	sub      eventstream.Subscriber
	failed   []string  // ReliableDeliveryFailed events seen on the event stream
	liveFail [3]string // class, component, detail: verdict of the bounded-liveness wait, reported after the safety oracles
	status   string    // controller status at the liveness deadline (before the system is stopped)
}

func (st *rdState) ev(e rdEv) {
	e.T = Now()
	st.log = append(st.log, e)
}

func (st *rdState) tail(n int) string {
	from := max(0, len(st.log)-n)
	var b strings.Builder
	for _, e := range st.log[from:] {
		b.WriteString(e.String())
		b.WriteString(" | ")
	}
	return b.String()
}

// history renders the events that concern one flow / message (for violation details).
func (st *rdState) history(limit int, keep func(e rdEv) bool) string {
	var l []string
	for _, e := range st.log {
		if keep(e) {
			l = append(l, e.String())
		}
	}
	if len(l) > limit {
		l = append([]string{fmt.Sprintf("(… %d earlier)", len(l)-limit)}, l[len(l)-limit:]...)
	}
	return strings.Join(l, " | ")
}

// ------------------------------------------------------------------ fabric (hook H3)

var rdKinds = map[string]int{"register": 0, "regack": 1, "request": 2, "ack": 3, "sequenced": 4}

func (st *rdState) faultsOn() bool {
	return !st.off && !st.closed && st.budget > 0 && Now() < st.stopAt
}

func (st *rdState) seeCC(pid *actor.PID) {
	name := pid.Name()
	if _, ok := st.ccPID[name]; ok {
		return
	}
	st.ccPID[name] = pid
	st.ccOrder = append(st.ccOrder, name)
	if h := actor.VerifRDConsumerOf(pid); h != nil {
		st.ccH = append(st.ccH, h)
		st.ccHName = append(st.ccHName, name)
	}
	ep, _ := actor.VerifRDOwner(pid)
	label := fmt.Sprintf("%s#%d", ep, st.incOf[ep])
	st.ccOf[label] = name
	st.labelOf[name] = label
}

func (st *rdState) intercept(self, to *actor.PID, message any) bool {
	if st.closed || self == nil || to == nil {
		return false
	}
	c := st.c
	m := actor.VerifRDClassify(message)
	if m.Kind == "delivery" {
		// never faulted; the emission is recorded for the re-presentation oracle
		st.ev(rdEv{K: "cc:delivery", Who: self.Name(), Seq: m.Seq, Msg: m.MessageID})
		return false
	}
	ki, ok := rdKinds[m.Kind]
	if !ok {
		return false // RequestNext, Stored, DeliveryConfirmed ...: user endpoint traffic
	}
	_, role := actor.VerifRDOwner(self)
	cc := to
	if role == "consumer" {
		cc = self
		st.seeCC(self)
	} else if st.pcPID == nil {
		st.pcPID = self
	}
	flow := cc.Name()
	e := rdEv{K: "x:" + m.Kind, Who: flow, Seq: m.Seq, A: m.Confirmed, B: m.UpTo, Msg: m.MessageID}
	switch m.Kind {
	case "regack":
		// label for findings only: a work-pulling binding whose controller the producer side does not watch
		if st.wp && !st.unwatched[flow] && !actor.VerifRDWatched(to, self) {
			st.unwatched[flow] = true
			c.Probe("wp-regack-without-watch")
		} else if st.wp && st.unwatched[flow] && actor.VerifRDWatched(to, self) {
			delete(st.unwatched, flow)
		}
	case "request":
		if m.UpTo > st.maxUpTo[flow] {
			st.maxUpTo[flow] = m.UpTo
		}
		if m.ViaTimeout {
			e.Aux = "viaTimeout "
		}
	case "sequenced":
		// C43, online: the producer side never emits beyond the demand the consumer controller has issued so far
		if st.prop == "C43" && m.Seq > st.maxUpTo[flow] {
			c.Fail("demand-exceeded", st.comp, "producer-side controller emitted SequencedMessage seq=%d to consumer controller %s (%s) whose highest issued requestUpTo so far is %d (window %d); traffic of that flow: %s",
				m.Seq, rdShort(flow), st.labelOf[flow], st.maxUpTo[flow], st.window,
				st.history(30, func(x rdEv) bool { return x.Who == flow && strings.HasPrefix(x.K, "x:") }))
		}
	}
	dec := "pass"
	if st.faultsOn() && st.kindMask&(1<<ki) != 0 {
		r := c.F.Draw(100)
		switch {
		case r >= 100-st.pDrop:
			dec = "drop"
		case r >= 100-st.pDrop-st.pDup:
			dec = "dup"
		case r >= 100-st.pDrop-st.pDup-st.pDelay:
			dec = "delay"
		}
	}
	switch dec {
	case "drop":
		st.budget--
		c.Fault("rd-drop:" + m.Kind)
		e.Aux += "DROP"
		st.ev(e)
		return true
	case "dup":
		st.budget--
		c.Fault("rd-dup:" + m.Kind)
		d := time.Duration(0)
		if k := c.F.Draw(len(st.delays) + 1); k > 0 {
			d = st.delays[k-1]
		}
		e.Aux += fmt.Sprintf("DUP+%v", d)
		st.ev(e)
		st.later(d, self, to, message)
		return false
	case "delay":
		st.budget--
		c.Fault("rd-delay:" + m.Kind)
		d := st.delays[c.F.Draw(len(st.delays))]
		e.Aux += fmt.Sprintf("DELAY %v", d)
		st.ev(e)
		st.later(d, self, to, message)
		return true
	}
	st.ev(e)
	return false
}

// later re-injects message after d of simulated time (d = 0: right away, i.e. twice in a row).
func (st *rdState) later(d time.Duration, self, to *actor.PID, message any) {
	if d <= 0 {
		_ = self.Tell(context.Background(), to, message)
		return
	}
	st.inflight++
	Go(func() {
		Sleep(d)
		st.inflight--
		if !st.closed {
			_ = self.Tell(context.Background(), to, message)
		}
	})
}

// ------------------------------------------------------------------ endpoint actors

// rdProducer follows "The producer contract" of the documentation: hold a grant
// until there is something to send, answer a grant with exactly one Produced,
// answer a retried grant of an answered token with the same Produced, acknowledge Stored.
type rdProducer struct {
	st           *rdState
	ctrl         *actor.PID
	grant        *actor.RequestNext
	pending      []int
	lastToken    string
	lastProduced *actor.Produced
	produced     int
	stored       map[string]int64
}

func (p *rdProducer) PreStart(*actor.Context) error { return nil }
func (p *rdProducer) PostStop(*actor.Context) error { return nil }

func (p *rdProducer) Receive(rc *actor.ReceiveContext) {
	st := p.st
	switch m := rc.Message().(type) {
	case *actor.PostStart:
	case *rdJob:
		p.pending = append(p.pending, m.Idx)
		p.flush(rc)
	case *actor.RequestNext:
		if !m.IsAuthorizedFor(rc.Self(), rc.Sender()) {
			st.c.Probe("producer-unauthorized-grant")
			return
		}
		p.ctrl = rc.Sender()
		if m.Token() == p.lastToken && p.lastProduced != nil {
			st.c.Probe("producer-regrant-answered-token")
			_ = rc.Self().Tell(rc.Context(), p.ctrl, p.lastProduced)
			return
		}
		p.grant = m
		p.flush(rc)
	case *actor.Stored:
		if !m.IsAuthorizedFor(rc.Self(), rc.Sender()) {
			return
		}
		if _, ok := p.stored[m.MessageID()]; !ok {
			p.stored[m.MessageID()] = m.Seq()
			st.ev(rdEv{K: "p:stored", Seq: m.Seq(), Msg: m.MessageID()})
		}
		if ack, err := actor.NewStoredAck(m); err == nil {
			_ = rc.Self().Tell(rc.Context(), rc.Sender(), ack)
		}
	case *actor.DeliveryConfirmed:
		if !m.IsAuthorizedFor(rc.Self(), rc.Sender()) {
			return
		}
		st.ev(rdEv{K: "p:confirmed", Seq: m.Seq(), Msg: m.MessageID()})
	default:
		rc.Unhandled()
	}
}

func (p *rdProducer) flush(rc *actor.ReceiveContext) {
	if p.grant == nil || len(p.pending) == 0 {
		return
	}
	idx := p.pending[0]
	id := fmt.Sprintf("m-%d", idx)
	produced, err := actor.NewProduced(p.grant, id, &testpb.Reply{Content: id})
	if err != nil {
		p.st.c.Probe("newproduced-error")
		return
	}
	p.pending = p.pending[1:]
	p.lastToken = p.grant.Token()
	p.lastProduced = produced
	p.grant = nil
	p.produced++
	p.st.ev(rdEv{K: "p:produced", Msg: id})
	_ = rc.Self().Tell(rc.Context(), p.ctrl, produced)
}

// rdConsumer follows "The consumer contract": process each Delivery
// idempotently (keyed by MessageID), confirm to the sender after processing,
// confirm a duplicate of an already processed message again.
type rdConsumer struct {
	st    *rdState
	label string
	self  *actor.PID
	seen  map[string]int // 1 = processing, 2 = processed and confirmed
}

func (k *rdConsumer) PreStart(*actor.Context) error { return nil }
func (k *rdConsumer) PostStop(*actor.Context) error { return nil }

func (k *rdConsumer) Receive(rc *actor.ReceiveContext) {
	st := k.st
	switch m := rc.Message().(type) {
	case *actor.PostStart:
		k.self = rc.Self()
	case *actor.Delivery:
		if !m.IsAuthorizedFor(rc.Self(), rc.Sender()) {
			st.c.Probe("consumer-unauthorized-delivery")
			return
		}
		ctrl := rc.Sender()
		content := ""
		if r, ok := m.Payload().(*testpb.Reply); ok {
			content = r.GetContent()
		}
		st.ev(rdEv{K: "c:delivery", Who: ctrl.Name(), Seq: m.Seq(), Msg: m.MessageID(), Aux: k.label + " payload=" + content})
		switch k.seen[m.MessageID()] {
		case 0:
			k.seen[m.MessageID()] = 1
			d := time.Duration(0)
			var idx int
			if _, err := fmt.Sscanf(m.MessageID(), "m-%d", &idx); err == nil && idx >= 0 && idx < len(st.cdel) {
				d = st.cdel[idx]
			}
			if st.cmode == 1 && d > 0 {
				self := rc.Self()
				Go(func() {
					Sleep(d)
					_ = actor.Tell(context.Background(), self, &rdConfirmNow{d: m, ctrl: ctrl})
				})
				return
			}
			if d > 0 {
				Sleep(d)
			}
			k.confirm(rc, m, ctrl)
		case 1:
			st.c.Probe("redelivery-while-processing") // the pending confirmation answers it
		case 2:
			st.c.Probe("redelivery-after-confirm")
			k.confirm(rc, m, ctrl) // "skip the effect, confirm again"
		}
	case *rdConfirmNow:
		k.confirm(rc, m.d, m.ctrl)
	default:
		rc.Unhandled()
	}
}

func (k *rdConsumer) confirm(rc *actor.ReceiveContext, d *actor.Delivery, ctrl *actor.PID) {
	confirmed, err := actor.NewConfirmed(d)
	if err != nil {
		k.st.c.Probe("newconfirmed-error")
		return
	}
	k.seen[d.MessageID()] = 2
	k.st.ev(rdEv{K: "c:confirm", Who: ctrl.Name(), Seq: d.Seq(), Msg: d.MessageID(), Aux: k.label})
	_ = rc.Self().Tell(rc.Context(), ctrl, confirmed)
}

// ------------------------------------------------------------------ generation

func rdGrid(ri time.Duration) []time.Duration {
	return []time.Duration{0, time.Millisecond, ri / 2, ri - time.Nanosecond, ri, ri + time.Nanosecond, 2*ri + time.Millisecond}
}

func rdStart(c *Ctx, prop string, wp bool) *rdState {
	st := &rdState{c: c, prop: prop, wp: wp, comp: "p2p",
		maxUpTo: map[string]int64{}, ccPID: map[string]*actor.PID{}, incOf: map[string]int{}, ccOf: map[string]string{}, labelOf: map[string]string{}, unwatched: map[string]bool{}}
	if wp {
		st.comp = "work-pulling"
	}
	c.Comp = st.comp
	c.state = st
	st.s = StartSys(c, "rd", sysOpts(c)...)
	w, f := c.W, c.F
	st.ri = []time.Duration{50 * time.Millisecond, 20 * time.Millisecond, 100 * time.Millisecond}[w.Draw(3)]
	// The controllers' ticks are interval jobs of the one quartz scheduler. Two jobs due at the
	// same instant make its loop select between an already expired timer and its interrupt
	// channel, and which of the two the Go runtime reports ready first is not under the
	// simulator's control (measured: same seed, different schedules). Tick phases are therefore
	// kept apart by co-prime microsecond offsets (producer side +37us per period, consumer /
	// worker i started at +11us+i*101us); message delays and stop times stay on the exact grid.
	st.pi = []time.Duration{100 * time.Millisecond, 50 * time.Millisecond, 250 * time.Millisecond}[w.Draw(3)] + 37*time.Microsecond
	st.window = 1 + w.Draw(8)
	if w.Draw(8) == 7 {
		st.window = actor.MaxReliableFlowControlWindow // the legal maximum (boundary of the demand-range check)
	}
	st.n = 5 + w.Draw(36)
	if w.Draw(3) != 0 { // most runs small: steps are the budget
		st.n = 5 + st.n%12
	}
	grid := rdGrid(st.ri)
	gmax, dmax := 1+w.Draw(len(grid)), 1+w.Draw(len(grid))
	st.cmode = w.Draw(2)
	for i := 0; i < st.n; i++ {
		g, d := grid[w.Draw(gmax)], grid[w.Draw(dmax)]
		st.gaps, st.cdel = append(st.gaps, g), append(st.cdel, d)
		st.maxGap, st.maxDel = max(st.maxGap, g), max(st.maxDel, d)
	}
	// fault plan: 0 = no faults
	st.pDrop = []int{0, 5, 15, 30}[f.Draw(4)]
	st.pDup = []int{0, 5, 10, 20}[f.Draw(4)]
	st.pDelay = []int{0, 10, 25, 40}[f.Draw(4)]
	st.kindMask = 31
	if f.Draw(3) == 2 {
		st.kindMask = 1 + f.Draw(31)
	}
	st.budget = []int{0, 1, 2, 3, 6, 12, 30, 100}[f.Draw(8)]
	st.stopAt = time.Duration([]int{0, 2, 5, 10, 20, 50, 100}[f.Draw(7)]) * st.ri
	st.delays = []time.Duration{time.Microsecond, st.ri / 2, st.ri - time.Nanosecond, st.ri, st.ri + time.Nanosecond, 2 * st.ri, 3 * st.ri}
	c.Note("resend_interval", st.ri.String())
	c.Note("producer_retry_interval", st.pi.String())
	c.Note("window", st.window)
	c.Note("messages", st.n)
	c.Note("confirm_mode", []string{"in-handler", "deferred"}[st.cmode])
	c.Note("max_feed_gap", st.maxGap.String())
	c.Note("max_processing", st.maxDel.String())
	c.Note("fault_plan", fmt.Sprintf("drop=%d%% dup=%d%% delay=%d%% kinds=%05b budget=%d stop_at=%v", st.pDrop, st.pDup, st.pDelay, st.kindMask, st.budget, st.stopAt))
	st.sub, _ = st.s.Sys.Subscribe()
	actor.ReliableSimFabric = st.intercept
	return st
}

// flowFailures drains the event stream and returns the terminal flow failures published so far.
func (st *rdState) flowFailures() []string {
	if st.sub != nil {
		for m := range st.sub.Iterator() {
			if f, ok := m.Payload().(*actor.ReliableDeliveryFailed); ok {
				st.failed = append(st.failed, fmt.Sprintf("ReliableDeliveryFailed{endpoint=%s role=%s stage=%s err=%v}", f.EndpointName(), f.ControllerRole(), f.Stage(), f.Err()))
			}
		}
	}
	return st.failed
}

func (st *rdState) finishRun() {
	st.closed = true
	actor.ReliableSimFabric = nil
	_ = st.s.Stop()
}

func (st *rdState) spawnProducer(name string, opt actor.SpawnOption) bool {
	st.prod = &rdProducer{st: st, stored: map[string]int64{}}
	pid, err := st.s.Sys.Spawn(st.s.Ctx, name, st.prod, opt)
	if err != nil {
		st.c.Fail("spawn-failed", name, "%v", err)
		return false
	}
	st.prodPID = pid
	return true
}

func (st *rdState) spawnConsumer(name, producer string) (*actor.PID, error) {
	st.incOf[name]++
	k := &rdConsumer{st: st, label: fmt.Sprintf("%s#%d", name, st.incOf[name]), seen: map[string]int{}}
	copts := []actor.ReliableConsumerOption{actor.WithReliableFlowControlWindow(st.window), actor.WithReliableResendInterval(st.ri)}
	var opt actor.SpawnOption
	if st.wp {
		opt = actor.AsReliableWorkPullingWorker(producer, copts...)
	} else {
		opt = actor.AsReliableConsumer(producer, copts...)
	}
	pid, err := st.s.Sys.Spawn(st.s.Ctx, name, k, opt)
	if err != nil {
		st.incOf[name]--
	}
	return pid, err
}

func (st *rdState) feed() {
	for i := 0; i < st.n && !st.c.Failed(); i++ {
		if st.gaps[i] > 0 {
			Sleep(st.gaps[i])
		}
		st.c.Ops++
		st.ev(rdEv{K: "m:feed", Msg: fmt.Sprintf("m-%d", i)})
		_ = actor.Tell(st.s.Ctx, st.prodPID, &rdJob{Idx: i})
	}
}

func (st *rdState) confirmedCount() (n int, missing []string) {
	got := map[string]bool{}
	for _, e := range st.log {
		if e.K == "p:confirmed" {
			got[e.Msg] = true
		}
	}
	for i := 0; i < st.n; i++ {
		if id := fmt.Sprintf("m-%d", i); !got[id] {
			missing = append(missing, id)
		}
	}
	return st.n - len(missing), missing
}

// settle: wait until the fault window is over (or everything is confirmed),
// until every delayed message has landed, and then make the bounded-liveness
// demand: K resend intervals plus the generated processing time.
func (st *rdState) settle() {
	c := st.c
	done := func() bool { _, miss := st.confirmedCount(); return len(miss) == 0 }
	for !c.Failed() && st.faultsOn() && !done() {
		Sleep(min(st.ri, max(st.stopAt-Now(), time.Millisecond)))
	}
	st.off = true
	WaitUntil(st.ri/2, 4*st.ri, func() bool { return st.inflight == 0 || c.Failed() })
	st.ev(rdEv{K: "m:quiet", Aux: "faults stopped, delayed messages landed, feeding and membership changes over"})
	const K = 12
	bound := K*st.ri + 2*st.pi + time.Duration(st.n)*(st.maxDel+st.maxGap+2*st.ri)
	if !WaitUntil(st.ri/2, bound, func() bool { return c.Failed() || done() }) {
		_, miss := st.confirmedCount()
		st.ev(rdEv{K: "m:deadline", Aux: fmt.Sprintf("%d unconfirmed", len(miss))})
		st.liveVerdict(miss, bound)
	} else {
		// a little more simulated time so that late duplicates / stale re-presentations would show
		Sleep(2*st.ri + time.Millisecond)
	}
}

func (st *rdState) ctrlStatus() string {
	var l []string
	if st.pcPID != nil {
		l = append(l, fmt.Sprintf("producer-side controller running=%v %s", st.pcPID.IsRunning(), actor.VerifRDProducerState(st.pcPID)))
	} else {
		l = append(l, "producer-side controller never sent anything")
	}
	for _, n := range st.ccOrder {
		l = append(l, fmt.Sprintf("consumer controller %s (%s) running=%v", rdShort(n), st.labelOf[n], st.ccPID[n].IsRunning()))
	}
	if f := st.flowFailures(); len(f) > 0 {
		l = append(l, "event stream: "+strings.Join(f, ", "))
	}
	return strings.Join(l, "; ")
}

func (st *rdState) liveVerdict(miss []string, bound time.Duration) {
	produced := map[string]bool{}
	delivered := map[string]bool{}
	lastFlow := map[string]string{} // job -> consumer controller it was last dispatched to
	for _, e := range st.log {
		switch e.K {
		case "p:produced":
			produced[e.Msg] = true
		case "c:delivery":
			delivered[e.Msg] = true
		case "x:sequenced":
			lastFlow[e.Msg] = e.Who
		}
	}
	st.status = st.ctrlStatus()
	ctx := fmt.Sprintf("bound %v (12 resend intervals of %v + generated pace) after the last fault; %s", bound, st.ri, st.status)
	var unprod, undeliv, unconf []string
	for _, id := range miss {
		switch {
		case !produced[id]:
			unprod = append(unprod, id)
		case !delivered[id]:
			undeliv = append(undeliv, id)
		default:
			unconf = append(unconf, id)
		}
		// C44, third clause: the job's last holder is a worker that has stopped
		if flow := lastFlow[id]; st.wp && produced[id] && flow != "" && st.ccPID[flow] != nil && !st.ccPID[flow].IsRunning() {
			comp := st.comp
			if st.unwatched[flow] {
				comp += ":binding-never-watched"
			}
			st.liveFail = [3]string{"held-job-not-redelivered", comp, fmt.Sprintf("job %s was last dispatched to worker %s (consumer controller %s), which has stopped, and was neither confirmed to the producer nor dispatched to another worker within the %s; history of the job and of the membership: %s",
				id, st.labelOf[flow], rdShort(flow), ctx, st.history(40, func(x rdEv) bool {
					return x.Msg == id || strings.HasPrefix(x.K, "w:") || (x.Who == flow && (x.K == "x:register" || x.K == "x:regack"))
				}))}
			return
		}
	}
	ctx += "; log tail: " + st.tail(30)
	switch {
	case st.wp && len(undeliv) > 0:
		st.liveFail = [3]string{"job-never-delivered", st.comp, fmt.Sprintf("jobs %v were produced (handed to the work-pulling controller) but reached no worker within the %s", undeliv, ctx)}
	case len(undeliv)+len(unconf) > 0:
		cls := "not-confirmed-after-faults-stop"
		if st.wp {
			cls = "job-not-confirmed"
		}
		st.liveFail = [3]string{cls, st.comp, fmt.Sprintf("produced messages %v were not confirmed to the producer (never delivered: %v) within the %s", append(undeliv, unconf...), undeliv, ctx)}
	default:
		st.liveFail = [3]string{"producer-starved-after-faults-stop", st.comp, fmt.Sprintf("the producer still holds %v without a RequestNext grant (everything it produced is confirmed) within the %s", unprod, ctx)}
	}
}

// ------------------------------------------------------------------ runs

func rdRunP2P(c *Ctx, prop string) {
	st := rdStart(c, prop, false)
	defer st.finishRun()
	if !st.spawnProducer("rd-producer", actor.AsReliableProducer("rd-consumer", actor.WithReliableDeliveryConfirmation(), actor.WithReliableRetryInterval(st.pi))) {
		return
	}
	startConsumer := func() {
		if _, err := st.spawnConsumer("rd-consumer", "rd-producer"); err != nil {
			c.Fail("spawn-failed", "rd-consumer", "%v", err)
		}
	}
	// either side may come up first; the late one joins while jobs are already queued at the producer
	late := []time.Duration{0, 0, st.ri / 2, st.ri + time.Nanosecond, 3 * st.ri}[c.W.Draw(5)]
	Join(st.feed, func() {
		Sleep(late + 11*time.Microsecond)
		startConsumer()
	})
	if c.Failed() {
		return
	}
	st.settle()
}

func c42Run(c *Ctx)    { rdRunP2P(c, "C42") }
func c43RunP2P(c *Ctx) { rdRunP2P(c, "C43") }

type rdWorkerPlan struct {
	name            string
	join, life, gap time.Duration // life = 0: never stops; gap = 0: no respawn
	poison          bool
}

func rdRunWP(c *Ctx, prop string) {
	st := rdStart(c, prop, true)
	defer st.finishRun()
	if !st.spawnProducer("rd-wpp", actor.AsReliableWorkPullingProducer(actor.WithReliableDeliveryConfirmation(), actor.WithReliableRetryInterval(st.pi))) {
		return
	}
	w := c.W
	nw := 1 + w.Draw(4)
	survivor := w.Draw(nw)
	ri := st.ri
	joins := []time.Duration{0, 0, ri / 2, ri, 3 * ri, 8 * ri}
	lives := []time.Duration{ri / 2, ri, 2 * ri, 5 * ri, 10 * ri, 20 * ri, time.Millisecond}
	var plans []rdWorkerPlan
	var desc []string
	for i := 0; i < nw; i++ {
		p := rdWorkerPlan{name: fmt.Sprintf("rd-w%d", i), join: joins[w.Draw(len(joins))] + 11*time.Microsecond + time.Duration(i)*101*time.Microsecond}
		if i != survivor && w.Draw(3) != 0 {
			p.life = lives[w.Draw(len(lives))]
			p.poison = w.Draw(2) == 1
			if w.Draw(3) == 0 {
				p.gap = []time.Duration{time.Millisecond, ri, 3 * ri}[w.Draw(3)]
			}
		}
		plans = append(plans, p)
		desc = append(desc, fmt.Sprintf("%s join=%v life=%v respawn_after=%v", p.name, p.join, p.life, p.gap))
	}
	c.Note("workers_plan", desc)
	fns := []func(){st.feed}
	for _, p := range plans {
		fns = append(fns, func() { st.workerLife(p) })
	}
	Join(fns...)
	if c.Failed() {
		return
	}
	st.settle()
}

func (st *rdState) workerLife(p rdWorkerPlan) {
	c := st.c
	if p.join > 0 {
		Sleep(p.join)
	}
	spawn := func() *actor.PID {
		var pid *actor.PID
		ok := WaitUntil(time.Millisecond, 2*time.Second, func() bool {
			var err error
			pid, err = st.spawnConsumer(p.name, "rd-wpp")
			return err == nil || c.Failed()
		})
		if !ok || pid == nil {
			c.Probe("worker-respawn-failed")
			return nil
		}
		st.ev(rdEv{K: "w:spawn", Aux: fmt.Sprintf("%s#%d", p.name, st.incOf[p.name])})
		return pid
	}
	pid := spawn()
	if pid == nil || p.life == 0 {
		return
	}
	Sleep(p.life)
	label := fmt.Sprintf("%s#%d", p.name, st.incOf[p.name])
	st.ev(rdEv{K: "w:stop-issued", Who: st.ccOf[label], Aux: label})
	c.Fault("worker-stop")
	if p.poison {
		_ = actor.Tell(st.s.Ctx, pid, new(actor.PoisonPill))
		WaitUntil(time.Millisecond, 2*time.Second, func() bool { return !pid.IsRunning() })
	} else if !CallTimeout(5*time.Second, func() { _ = st.s.Sys.Kill(st.s.Ctx, p.name) }) {
		c.Probe("worker-kill-hung")
	}
	st.ev(rdEv{K: "w:stopped", Who: st.ccOf[label], Aux: label})
	if p.gap > 0 {
		Sleep(p.gap)
		c.Fault("worker-respawn")
		spawn()
	}
}

func c44Run(c *Ctx)   { rdRunWP(c, "C44") }
func c43RunWP(c *Ctx) { rdRunWP(c, "C43") }

// ------------------------------------------------------------------ oracles

// rdOnStep (C43): the consumer-side receive buffer never exceeds the configured window.
func rdOnStep(c *Ctx) {
	st, _ := c.state.(*rdState)
	if st == nil || st.closed {
		return
	}
	for i, h := range st.ccH {
		if n := h.BufLen(); n > h.Window() {
			name := st.ccHName[i]
			c.Fail("buffer-exceeds-window", st.comp, "consumer controller %s (%s) buffers %d sequenced messages, flow-control window is %d; traffic of that flow: %s", rdShort(name), st.labelOf[name], n, h.Window(),
				st.history(30, func(x rdEv) bool { return x.Who == name && strings.HasPrefix(x.K, "x:") }))
			return
		}
	}
}

func rdFinish(c *Ctx) {
	st, _ := c.state.(*rdState)
	if st == nil {
		return
	}
	if f := os.Getenv("VERIF_RD_DUMP"); f != "" { // debugging aid: the complete observation log of the run
		var b strings.Builder
		for _, e := range st.log {
			b.WriteString(e.String() + "\n")
		}
		_ = os.WriteFile(f, []byte(b.String()), 0o644)
	}
	switch {
	case st.prop == "C42":
		st.checkP2P()
	case st.prop == "C44":
		st.checkWP()
	}
	if !c.Failed() && st.liveFail[0] != "" {
		// C43 has no liveness clause of its own: a stalled flow in a C43 run is the business of the C42/C44 runs over the same seeds
		if st.prop != "C43" {
			c.Fail(st.liveFail[0], st.liveFail[1], "%s", st.liveFail[2])
		} else {
			c.Probe("c43-run-stalled:" + st.liveFail[0])
		}
	}
}

// checkP2P (C42, safety): what the consumer endpoint is handed, in the order it is handed.
func (st *rdState) checkP2P() {
	c := st.c
	var cur int64                     // highest sequence handed to the consumer so far
	confirmedSeq := map[int64]bool{}  // the consumer has sent Confirmed for it
	confirmedMsg := map[string]bool{} // ... by message id
	reported := map[string]int64{}    // consumer controller -> highest confirmation watermark it has reported
	emitted := map[string]int64{}     // consumer controller -> highest seq it has emitted a Delivery for
	hist := func(flow string) string {
		return st.history(40, func(x rdEv) bool {
			return x.K == "c:delivery" || x.K == "c:confirm" || x.K == "cc:delivery" || (x.Who == flow && (x.K == "x:request" || x.K == "x:ack"))
		})
	}
	for _, e := range st.log {
		switch e.K {
		case "c:delivery":
			switch {
			case e.Seq == cur+1:
				if cur > 0 && !confirmedSeq[cur] {
					c.Fail("next-before-confirm", st.comp, "the consumer was handed seq=%d (%s) although it has not confirmed seq=%d yet: more than one unconfirmed message in flight; history: %s", e.Seq, e.Msg, cur, hist(e.Who))
					return
				}
				cur = e.Seq
				if want := fmt.Sprintf("m-%d", cur-1); e.Msg != want || !strings.HasSuffix(e.Aux, "payload="+want) {
					c.Fail("delivery-wrong-message", st.comp, "the consumer was handed %s [%s] as seq=%d; the %d-th produced message is %s: not production order; history: %s", e.Msg, e.Aux, e.Seq, e.Seq, want, hist(e.Who))
					return
				}
			case e.Seq == cur:
				c.Probe("re-presentation-of-current")
			case e.Seq > cur+1:
				c.Fail("delivery-gap", st.comp, "the consumer was handed seq=%d (%s) right after seq=%d: gap; history: %s", e.Seq, e.Msg, cur, hist(e.Who))
				return
			default:
				c.Fail("represented-when-not-in-flight", st.comp, "the consumer was handed seq=%d (%s) again after it had already been handed seq=%d: a superseded message was re-presented; history: %s", e.Seq, e.Msg, cur, hist(e.Who))
				return
			}
		case "c:confirm":
			confirmedSeq[e.Seq] = true
			confirmedMsg[e.Msg] = true
		case "x:request", "x:ack":
			if e.A > reported[e.Who] {
				reported[e.Who] = e.A
			}
		case "cc:delivery":
			if e.Seq <= reported[e.Who] || e.Seq < emitted[e.Who] {
				c.Fail("represented-when-not-in-flight", st.comp, "consumer controller %s emitted Delivery seq=%d (%s) after it had reported confirmation watermark %d / emitted Delivery seq=%d: re-presentation of a message that is no longer the unconfirmed one in flight; history: %s", rdShort(e.Who), e.Seq, e.Msg, reported[e.Who], emitted[e.Who], hist(e.Who))
				return
			}
			if e.Seq > emitted[e.Who] {
				emitted[e.Who] = e.Seq
			}
		case "p:confirmed":
			if !confirmedMsg[e.Msg] {
				c.Fail("confirmed-without-consumer-confirm", st.comp, "the producer was told DeliveryConfirmed for %s (seq=%d) before the consumer confirmed it; history: %s", e.Msg, e.Seq,
					st.history(30, func(x rdEv) bool { return x.Msg == e.Msg || x.K == "x:request" || x.K == "x:ack" }))
				return
			}
		}
	}
}

// checkWP (C44, safety part): a job is confirmed at the producer at most once and
// only after a worker confirmed it. The eventual clauses (reaches a worker,
// confirmed, redelivered when its holder stopped) are decided by liveVerdict.
func (st *rdState) checkWP() {
	c := st.c
	workerConfirmed := map[string]bool{}
	pconf := map[string]int{}
	jobHist := func(id string) string {
		return st.history(40, func(x rdEv) bool { return x.Msg == id || strings.HasPrefix(x.K, "w:") })
	}
	for _, e := range st.log {
		switch e.K {
		case "c:confirm":
			workerConfirmed[e.Msg] = true
		case "p:confirmed":
			if !workerConfirmed[e.Msg] {
				c.Fail("confirmed-without-worker-confirm", st.comp, "the producer was told DeliveryConfirmed for job %s before any worker confirmed it; history: %s", e.Msg, jobHist(e.Msg))
				return
			}
			pconf[e.Msg]++
			if pconf[e.Msg] > 1 {
				c.Fail("job-confirmed-twice", st.comp, "the producer was told DeliveryConfirmed for job %s %d times; history: %s", e.Msg, pconf[e.Msg], jobHist(e.Msg))
				return
			}
		}
	}
}

func init() {
	Register(&Scenario{Prop: "C42", Name: "p2p-delivery", Variants: []string{"stock"}, Quick: 1500, Thorough: 150000,
		EstSteps: 10000, MaxSteps: 400000, MaxIdle: time.Hour, Real: rdReal, Stub: rdStub, Run: c42Run, Finish: rdFinish})
	Register(&Scenario{Prop: "C43", Name: "p2p-demand", Variants: []string{"stock"}, Quick: 800, Thorough: 80000,
		EstSteps: 10000, MaxSteps: 400000, MaxIdle: time.Hour, Real: rdReal, Stub: rdStub, Run: c43RunP2P, OnStep: rdOnStep, Finish: rdFinish})
	Register(&Scenario{Prop: "C43", Name: "work-pulling-demand", Variants: []string{"stock"}, Quick: 400, Thorough: 40000,
		EstSteps: 15000, MaxSteps: 400000, MaxIdle: time.Hour, Real: rdReal, Stub: rdStub, Run: c43RunWP, OnStep: rdOnStep, Finish: rdFinish})
	Register(&Scenario{Prop: "C44", Name: "work-pulling", Variants: []string{"stock"}, Quick: 1000, Thorough: 100000,
		EstSteps: 15000, MaxSteps: 400000, MaxIdle: time.Hour, Real: rdReal, Stub: rdStub, Run: c44Run, Finish: rdFinish})
}

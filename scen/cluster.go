package scen

// Engine E: 2–3 real cluster-enabled actor systems in one run, over the
// simulated network (simnet, hook H1) and the simulated registry / membership
// backend (simcluster, hook H2). Real: package actor in cluster mode (grain
// engine, singleton spawn, relocation, cluster event loop, remoting handlers),
// internal/cluster.cluster (key namespaces, codecs, PutGrainIfAbsent /
// PutActorIfAbsent, Members / IsLeader, rebalance-epoch event machinery),
// internal/remoteclient, internal/net. Stub: sockets (simnet) and olric +
// memberlist (one single-copy linearizable KV + one membership view whose
// coordinator is the oldest live member; every registry operation is a
// scheduling point and a fault point).
//
// API (keep it small; C30/C33/C35/C36/C19-cluster build on it):
//
//	cl := startCluster(c, n, clusterOpts{...})   // n nodes started one after the other (node 0 is the oldest = coordinator)
//	cl.Nodes[i].Sys                               // *Sys of node i (all nodes log into one shared, totally ordered log: cl.Log())
//	cl.Nodes[i].RemotingAddr() / PeersAddr()      // "127.0.0.1:9001" (simnet address) / "127.0.0.1:8001" (membership + registry address)
//	cl.Nodes[i].Bind()                            // call first in a driver thread that acts for node i (attributes its dials to the node)
//	cl.On(i, f) func()                            // f wrapped so that it runs bound to node i (for Join / Go)
//	cl.Crash(i, completeRebalance)                // black-hole node i + registry refusal + NodeLeft / rebalance events to the survivors
//	cl.Leave(i)                                   // graceful: stops node i's actor system (deregisters, leaves the membership)
//	cl.RegistryFaults(cfg) / cl.RegistryFaultsOff() // make registry operations fail / be slow from now on (simcluster.Config)
//	cl.FreezeView(i, on)                          // node i keeps seeing the current member list (leadership lag)
//	cl.Reg, cl.Net                                // the backend / network themselves for anything finer (SetDown, Publish, Partition, Snapshot ...)
//	cl.NodeOf(sys), cl.NodeAt(host, port)         // map an ActorSystem / a registry record back to a node
//	cl.Fail(class, comp, fmt, ...) / cl.Failed()   // record a violation WITHOUT aborting the run; needs Finish: clusterFinish in the Scenario
//	cl.Stop()                                     // stops every system, folds fault counters into c.Faults, DisableNet/DisableCluster
//
// ClusActor is a remote-spawnable (zero-value constructible) probe actor kind
// that is registered on every node; it keeps per-name running-instance counters
// (cl.Running) that online oracles may read from OnStep, calls cl.OnActorStart
// after every successful PreStart and, for names listed in cl.SlowStop, takes
// that much simulated time in PostStop. cl.LogRegOps = true records every keyed
// registry operation (with the goakt function it runs for) in the shared log.
//
// Every cluster run resets two process-level caches at its start (the
// GrainContext pool and the proto serializer's message-type cache): without that
// the same seed takes a different schedule depending on what ran earlier in the
// worker process. VERIF_TRACE_DIR=<dir> writes one "step thread@site" line per
// scheduler step (diff two executions of one seed to hunt a divergence).

import (
	"bufio"
	"fmt"
	"os"
	"runtime"
	"runtime/debug"
	"sort"
	"strings"
	"sync"
	"time"

	"github.com/tochemey/goakt/v4/actor"
	"github.com/tochemey/goakt/v4/discovery/static"
	"github.com/tochemey/goakt/v4/remote"
	"github.com/tochemey/goakt/v4/test/data/testpb"
	"github.com/tochemey/goakt/v4/zzverif/simcluster"
	"github.com/tochemey/goakt/v4/zzverif/simglue"
	"github.com/tochemey/goakt/v4/zzverif/simnet"
	"github.com/tochemey/goakt/v4/zzverif/simrt"
)

var clusReal = []string{"actor (2-3 cluster-enabled actor systems: grain engine, singleton spawn, relocation, cluster event loop, remoting server handlers)", "internal/cluster.cluster (key namespaces, codecs, PutGrainIfAbsent/PutActorIfAbsent, Members/IsLeader, rebalance-epoch event machinery)", "internal/remoteclient", "internal/net (connection pool, frame codec, TCP server worker pool, proto server)"}
var clusStub = []string{"olric + memberlist: one single-copy linearizable KV with TTL on the fake clock and one membership view (coordinator = oldest live member) behind hook H2; every registry operation is a scheduling and fault point; olric replication/quorum/partition ownership not modelled", "sockets: simnet in-memory byte streams behind hook H1", "discovery provider: never started", "logger: discard", "wall clock: testing/synctest fake clock (shared by all nodes: no skew)"}

// clusterOpts configures startCluster. The zero value is a healthy network, a
// healthy registry and the ClusActor kind only.
type clusterOpts struct {
	Net    simnet.Config     // network fault kinds (active from the start)
	Reg    simcluster.Config // registry fault kinds; NOT active until RegistryFaults/FaultsOn (nodes boot on a healthy registry)
	Kinds  []actor.Actor     // extra actor kinds registered on every node (ClusActor is always registered)
	Grains []actor.Grain     // grain kinds registered on every node
	Sys    []actor.Option    // extra actor-system options for every node
	Remote []remote.Option   // remoting options for every node
	// Cluster, when set, may adjust the ClusterConfig of node i before it starts.
	Cluster func(i int, cc *actor.ClusterConfig) *actor.ClusterConfig
}

// clusterNode is one actor system of the simulated cluster.
type clusterNode struct {
	*Sys
	Idx           int
	Host          string
	RemotingPort  int
	PeersPort     int
	DiscoveryPort int
	Crashed       bool // Crash was called
	Left          bool // Leave was called (graceful stop has begun)
	Gone          bool // the node's ActorSystem.Stop has returned
	cl            *simCluster
}

// RemotingAddr is the node's simnet address (what registry records carry as host:port).
func (n *clusterNode) RemotingAddr() string { return fmt.Sprintf("%s:%d", n.Host, n.RemotingPort) }

// PeersAddr is the node's membership / registry-client address.
func (n *clusterNode) PeersAddr() string { return fmt.Sprintf("%s:%d", n.Host, n.PeersPort) }

// Bind attributes the calling driver thread (and its descendants) to the node,
// so that simnet treats its dials as coming from the node (partition, crash).
func (n *clusterNode) Bind() { n.cl.Net.RegisterNode(n.RemotingAddr()) }

// Up reports whether the node is neither crashed nor stopped.
func (n *clusterNode) Up() bool { return !n.Crashed && !n.Left && !n.Stopped }

type simCluster struct {
	C     *Ctx
	Net   *simnet.Network
	Reg   *simcluster.Backend
	Nodes []*clusterNode
	// Running[name][node index] = number of ClusActor instances of that name
	// between PreStart success and PostStop entry on that node. Plain harness
	// counters: safe to read from OnStep.
	Running map[string][]int
	// LogRegOps, when set, records every registry operation that carries a key
	// (node index in Inc, kind "reg:<op>", key in Aux) in the shared log.
	LogRegOps bool
	// OnActorStart, when set, runs at the end of every successful ClusActor
	// PreStart (after Running was incremented), on the actor's goroutine.
	OnActorStart func(name string, node *clusterNode)
	// SlowStop[name] makes the PostStop of ClusActor instances of that name take
	// that much simulated time (a shutdown that is genuinely in progress).
	SlowStop map[string]time.Duration
	pending      *Violation // first violation found by an online oracle, reported by Stop
	stopped      bool
}

// clusterGCTuning: every node's TCP server allocates a 20 MB GC ballast
// (internal/net.NewTCPServer) that is never touched. Fresh address space comes
// zeroed from the OS and costs nothing, but once the collector has recycled a
// ballast the next one must be cleared by hand — 60 MB of page faults per run,
// 70 % of the CPU time of a cluster run (measured). So worker processes that run
// cluster scenarios collect only when the (mostly virtual) heap reaches 3 GiB:
// 3–4× more runs per second for the first ~45 runs of a process, never slower.
// VERIF_CLUSTER_GC=stock keeps the default collector settings.
func clusterGCTuning() {
	if os.Getenv("VERIF_CLUSTER_GC") == "stock" {
		return
	}
	debug.SetGCPercent(-1)
	debug.SetMemoryLimit(3 << 30)
}

var clusterGCOnce sync.Once

var clusterTraceClose func()

// curCluster is the cluster of the current run (probe kinds are constructed as
// zero values by goakt and find their harness through it).
var curCluster *simCluster

// startCluster starts n cluster-enabled systems sysN0.. on 127.0.0.1 with
// remoting ports 9001.., peers ports 8001.., discovery ports 7001... Node 0 is
// the oldest member, i.e. the coordinator. It returns nil after c.Fail when a
// node cannot start.
func startCluster(c *Ctx, n int, o clusterOpts) *simCluster {
	clusterGCOnce.Do(clusterGCTuning)
	actor.VerifDrainGrainContexts() // process-level pool: a run must not depend on what ran before it
	simglue.ResetProcessCaches()    // same for the proto serializer's message-type cache
	if dir := os.Getenv("VERIF_TRACE_DIR"); dir != "" {
		// determinism hunts: one "step thread@site" line per scheduler step
		f, err := os.Create(fmt.Sprintf("%s/%d-%d.trace", dir, c.Seed, os.Getpid()))
		if err == nil {
			w := bufio.NewWriter(f)
			clusterTraceClose = func() { w.Flush(); f.Close(); simrt.TraceHook = nil }
			simrt.TraceHook = func(step int, th string, site int32) { fmt.Fprintf(w, "%d %s@%d\n", step, th, site) }
		}
	}
	cl := &simCluster{C: c, Running: map[string][]int{}}
	cl.Net = simglue.EnableNet(c.F, o.Net)
	cl.Reg = simglue.EnableCluster(c.F, o.Reg)
	curCluster = cl
	cl.Reg.OnOp = func(node, op, key string) {
		if !cl.LogRegOps || key == "" || len(cl.Nodes) == 0 {
			return
		}
		idx := -1
		for _, n := range cl.Nodes {
			if n.PeersAddr() == node {
				idx = n.Idx
			}
		}
		cl.Ev(Ev{Actor: key, Inc: idx, Kind: "reg:" + op, Aux: regCaller()})
	}
	base := sysOpts(c)
	var hosts []string
	for i := 0; i < n; i++ {
		hosts = append(hosts, fmt.Sprintf("127.0.0.1:%d", 7001+i))
	}
	for i := 0; i < n; i++ {
		nd := &clusterNode{Idx: i, Host: "127.0.0.1", RemotingPort: 9001 + i, PeersPort: 8001 + i, DiscoveryPort: 7001 + i, cl: cl}
		kinds := append([]actor.Actor{&ClusActor{}}, o.Kinds...)
		cc := actor.NewClusterConfig().
			WithDiscovery(static.NewDiscovery(&static.Config{Hosts: hosts})).
			WithDiscoveryPort(nd.DiscoveryPort).WithPeersPort(nd.PeersPort).
			WithKinds(kinds...)
		if len(o.Grains) > 0 {
			cc = cc.WithGrains(o.Grains...)
		}
		if o.Cluster != nil {
			cc = o.Cluster(i, cc)
		}
		opts := append([]actor.Option{actor.WithRemote(remote.NewConfig(nd.Host, nd.RemotingPort, o.Remote...)), actor.WithCluster(cc)}, base...)
		opts = append(opts, o.Sys...)
		// every node boots on its own thread: all goroutines of the system descend
		// from it, which is how simnet attributes dials to nodes
		var failed any
		Join(func() {
			nd.Bind()
			defer func() {
				if r := recover(); r != nil {
					failed = r
				}
			}()
			nd.Sys = StartSys(c, fmt.Sprintf("sysN%d", i), opts...)
		})
		if failed != nil || nd.Sys == nil {
			c.Fail("cluster-start-failed", fmt.Sprintf("node%d", i), "%v", failed)
			cl.Stop()
			return nil
		}
		if i > 0 {
			nd.Sys.Log = nil
			nd.Sys.shared = cl.Nodes[0].Sys
		}
		cl.Nodes = append(cl.Nodes, nd)
	}
	return cl
}

// regCaller names the function of package actor on whose behalf the current
// registry operation runs (e.g. "tryPeerActivation", "(*grainPID).deactivate").
func regCaller() string {
	pcs := make([]uintptr, 32)
	n := runtime.Callers(3, pcs)
	fr := runtime.CallersFrames(pcs[:n])
	const pkg = "github.com/tochemey/goakt/v4/actor."
	first := ""
	for {
		f, more := fr.Next()
		if strings.HasPrefix(f.Function, pkg) {
			name := strings.TrimPrefix(f.Function, pkg)
			name = strings.TrimPrefix(name, "(*actorSystem).")
			if i := strings.Index(name, ".func"); i > 0 {
				name = name[:i]
			}
			// skip the thin registry wrappers: the interesting frame is their caller
			switch name {
			case "tryClaimGrain", "getGrainOwner", "putGrainOnCluster", "putActorOnCluster", "ensureGrainOwnership", "resolveGrainOwner", "publishSpawnedActor":
				if first == "" {
					first = name
				}
			default:
				return name
			}
		}
		if !more {
			return first
		}
	}
}

// Log is the shared event log of all nodes.
func (cl *simCluster) Log() []Ev { return cl.Nodes[0].Sys.Log }

// Ev appends to the shared log.
func (cl *simCluster) Ev(e Ev) int { return cl.Nodes[0].Sys.Ev(e) }

// Tail renders the last n entries of the shared log.
func (cl *simCluster) Tail(n int) string { return cl.Nodes[0].Sys.Tail(n) }

// TailAt renders the n log entries that end at index end (exclusive).
func (cl *simCluster) TailAt(end, n int) string {
	log := cl.Log()
	end = min(max(end, 0), len(log))
	var b strings.Builder
	for _, e := range log[max(0, end-n):end] {
		b.WriteString(e.String())
		b.WriteString(" | ")
	}
	return b.String()
}

// On wraps f so that it runs bound to node i.
func (cl *simCluster) On(i int, f func(n *clusterNode)) func() {
	return func() {
		cl.Nodes[i].Bind()
		f(cl.Nodes[i])
	}
}

// NodeOf maps an actor system back to its node (nil if unknown).
func (cl *simCluster) NodeOf(sys actor.ActorSystem) *clusterNode {
	for _, n := range cl.Nodes {
		if n.Sys != nil && n.Sys.Sys == sys {
			return n
		}
	}
	return nil
}

// NodeAt maps a remoting host:port (as found in registry records) to its node.
func (cl *simCluster) NodeAt(host string, port int) *clusterNode {
	for _, n := range cl.Nodes {
		if n.Host == host && n.RemotingPort == port {
			return n
		}
	}
	return nil
}

// Fail records the first violation found while the cluster is running WITHOUT
// aborting the simulation: the drivers see cl.Failed() and wind down, Stop
// tears the systems down and clusterFinish (the scenario's Finish) hands the
// violation to c.Fail when the simulation is over. (Aborting
// a multi-node run in mid-flight leaves pooled channels and timers of the dead
// bubble behind; a worker whose warm-up run was aborted that way crashed with
// "select on synctest channel from outside bubble" in its next run.)
func (cl *simCluster) Fail(class, component, format string, args ...any) {
	if cl.pending == nil && !cl.C.Failed() {
		cl.pending = &Violation{Class: class, Component: component, Detail: fmt.Sprintf(format, args...)}
	}
}

// clusterFinish is the Scenario.Finish of every scenario that uses cl.Fail: it
// hands the recorded violation to c.Fail after the simulation has ended
// normally (so the worker's end-of-run clean-up of pooled objects still runs).
func clusterFinish(c *Ctx) {
	if cl := lastCluster; cl != nil && cl.C == c && cl.pending != nil {
		c.Fail(cl.pending.Class, cl.pending.Component, "%s", cl.pending.Detail)
	}
}

var lastCluster *simCluster

// Failed reports whether a violation has been recorded (drivers should return).
func (cl *simCluster) Failed() bool { return cl.pending != nil || cl.C.Failed() }

// RegistryFaults switches registry faults on with the given kinds.
func (cl *simCluster) RegistryFaults(cfg simcluster.Config) {
	cl.Reg.Cfg = cfg
	cl.Reg.FaultsOn = true
}

// RegistryFaultsOff makes the registry healthy again (crashed nodes stay refused).
func (cl *simCluster) RegistryFaultsOff() { cl.Reg.FaultsOn = false }

// FreezeView makes node i keep seeing the member list of this instant.
func (cl *simCluster) FreezeView(i int, on bool) { cl.Reg.FreezeView(cl.Nodes[i].PeersAddr(), on) }

// Crash makes node i vanish without its cooperation: its network address is
// black-holed in both directions, its registry calls fail, it is removed from
// the membership and the survivors receive NodeLeft + RebalanceStart (and
// RebalanceComplete when completeRebalance). The node's actor system keeps
// running in the simulator as an isolated zombie (its actors are NOT stopped)
// until cl.Stop.
func (cl *simCluster) Crash(i int, completeRebalance bool) {
	n := cl.Nodes[i]
	if n.Crashed {
		return
	}
	n.Crashed = true
	cl.Ev(Ev{Actor: n.Sys.Sys.Name(), Kind: "node-crash", Aux: n.RemotingAddr()})
	cl.Net.Blackhole(n.RemotingAddr(), true)
	cl.Reg.Crash(n.PeersAddr(), completeRebalance)
}

// Leave stops node i gracefully (ActorSystem.Stop: actors and grains stop,
// registry records are withdrawn, the node leaves the membership and the
// survivors get NodeLeft + rebalance events).
func (cl *simCluster) Leave(i int) error {
	n := cl.Nodes[i]
	if n.Left || n.Stopped {
		return nil
	}
	n.Left = true
	cl.Ev(Ev{Actor: n.Sys.Sys.Name(), Kind: "node-leave", Aux: n.RemotingAddr()})
	err := n.Sys.Stop()
	n.Gone = true
	cl.Ev(Ev{Actor: n.Sys.Sys.Name(), Kind: "node-left", Aux: err})
	return err
}

// Stop stops every system that is still running (youngest first), folds the
// network / registry fault counters into c.Faults and removes the simulated
// network and registry. Idempotent.
func (cl *simCluster) Stop() {
	if cl.stopped {
		return
	}
	cl.stopped = true
	cl.Reg.FaultsOn = false
	for i := len(cl.Nodes) - 1; i >= 0; i-- {
		n := cl.Nodes[i]
		if n.Sys == nil || n.Stopped {
			continue
		}
		// bounded: a crashed node's shutdown talks to a black-holed network
		if !CallTimeout(10*time.Minute, func() { n.Bind(); _ = n.Sys.Stop(); n.Gone = true }) {
			cl.C.Probe("node-stop-timeout")
		}
	}
	for _, k := range cl.Net.SortedStats() {
		if strings.HasPrefix(k, "fault:") {
			cl.C.Faults[strings.TrimPrefix(k, "fault:")] += cl.Net.Stats[k]
		}
	}
	for _, k := range sortedKeys(cl.Reg.Faults) {
		cl.C.Faults[k] += cl.Reg.Faults[k]
	}
	simglue.DisableNet()
	simglue.DisableCluster()
	actor.VerifDrainGrainContexts()
	lastCluster = cl // clusterFinish reports cl.pending once the simulation is over
	if clusterTraceClose != nil {
		clusterTraceClose()
		clusterTraceClose = nil
	}
	curCluster = nil
}

// RegistryKeys lists the live registry keys (sorted) — for quiescence oracles and debugging.
func (cl *simCluster) RegistryKeys() []string {
	snap := cl.Reg.Snapshot()
	ks := make([]string, 0, len(snap))
	for k := range snap {
		ks = append(ks, k)
	}
	sort.Strings(ks)
	return ks
}

// ------------------------------------------------------------------ ClusActor

// ClusActor is a probe actor kind that goakt can construct as a zero value on
// any node (RemoteSpawn, singleton placement, relocation). It finds its node
// through curCluster, logs prestart / poststop / recv events (Actor = actor
// name, Inc = node index) into the shared log and maintains cl.Running.
// Messages: testpb.Reply carrying rmsg text; op 'r' answers with the same text.
type ClusActor struct {
	node *clusterNode
	name string
	up   bool
}

func (a *ClusActor) PreStart(ctx *actor.Context) error {
	cl := curCluster
	if cl == nil {
		return nil
	}
	a.node = cl.NodeOf(ctx.ActorSystem())
	a.name = ctx.ActorName()
	if a.node == nil {
		return nil
	}
	r := cl.Running[a.name]
	if r == nil {
		r = make([]int, len(cl.Nodes)+1)
		cl.Running[a.name] = r
	}
	r[a.node.Idx]++
	a.up = true
	cl.Ev(Ev{Actor: a.name, Inc: a.node.Idx, Kind: "prestart"})
	if cl.OnActorStart != nil {
		cl.OnActorStart(a.name, a.node)
	}
	return nil
}

func (a *ClusActor) PostStop(*actor.Context) error {
	cl := curCluster
	if cl == nil || a.node == nil || !a.up {
		return nil
	}
	a.up = false
	cl.Running[a.name][a.node.Idx]--
	cl.Ev(Ev{Actor: a.name, Inc: a.node.Idx, Kind: "poststop"})
	if d := cl.SlowStop[a.name]; d > 0 {
		Sleep(d)
		cl.Ev(Ev{Actor: a.name, Inc: a.node.Idx, Kind: "poststop-exit"})
	}
	return nil
}

func (a *ClusActor) Receive(rc *actor.ReceiveContext) {
	m, ok := rc.Message().(*testpb.Reply)
	if !ok {
		if _, isStart := rc.Message().(*actor.PostStart); !isStart {
			rc.Unhandled()
		}
		return
	}
	tag, from, seq, ops, ok := parseRmsg(m.GetContent())
	if !ok || curCluster == nil || a.node == nil {
		rc.Unhandled()
		return
	}
	curCluster.Ev(Ev{Actor: a.name, Inc: a.node.Idx, Kind: "recv", Tag: tag, From: from, MSeq: seq})
	if strings.Contains(ops, "r") {
		rc.Response(&testpb.Reply{Content: m.GetContent()})
	}
}

// runningTotal sums the running ClusActor instances of a name over all nodes
// (excluding the nodes for which skip returns true).
func (cl *simCluster) runningTotal(name string, skip func(*clusterNode) bool) (total int, where []int) {
	r := cl.Running[name]
	for i, n := range cl.Nodes {
		if i < len(r) && r[i] > 0 && (skip == nil || !skip(n)) {
			total += r[i]
			where = append(where, i)
		}
	}
	return
}

// ------------------------------------------------------------------ smoke scenario (determinism self-test of engine E)

// clusterSmokeRun boots 2–3 nodes, resolves an actor across nodes, spawns a
// ClusActor remotely through the singleton path, optionally crashes or stops a
// node, and stops everything. It asserts only that the engine works.
func clusterSmokeRun(c *Ctx) {
	n := 2 + c.W.Draw(2)
	cl := startCluster(c, n, clusterOpts{})
	if cl == nil {
		return
	}
	c.state = cl
	a := cl.Nodes[0]
	if _, err := a.Sys.Sys.Spawn(a.Ctx, "act0", &ClusActor{}, actor.WithLongLived()); err != nil {
		c.Fail("smoke-spawn-failed", "Spawn", "%v", err)
	}
	Join(cl.On(n-1, func(nd *clusterNode) {
		var pid *actor.PID
		var err error
		WaitUntil(5*time.Millisecond, time.Second, func() bool {
			pid, err = nd.Sys.Sys.ActorOf(nd.Ctx, "act0")
			return err == nil
		})
		if err != nil {
			c.Fail("smoke-actorof-failed", "ActorOf", "%v", err)
			return
		}
		r, err := actor.Ask(nd.Ctx, pid, rmsg(c.Seq(), 0, 0, "r"), time.Second)
		if err != nil {
			c.Fail("smoke-ask-failed", "Ask", "remote=%v err=%v", pid.IsRemote(), err)
			return
		}
		_ = r
		c.Probe("cross-node-ask-ok")
	}), cl.On(n-1, func(nd *clusterNode) {
		if _, err := nd.Sys.Sys.SpawnSingleton(nd.Ctx, "single0", &ClusActor{}); err != nil {
			c.Probe("smoke-singleton-error")
		} else {
			c.Probe("singleton-ok")
		}
	}))
	c.Ops += 3
	switch c.W.Draw(3) {
	case 1:
		cl.Crash(n-1, true)
		Sleep(200 * time.Millisecond)
	case 2:
		_ = cl.Leave(n - 1)
		Sleep(200 * time.Millisecond)
	}
	Sleep(50 * time.Millisecond)
	cl.Stop()
}

func init() {
	Register(&Scenario{Prop: "E00", Name: "cluster-smoke", Quick: 50, Thorough: 500,
		EstSteps: 30000, MaxSteps: 4000000, MaxIdle: time.Hour, Real: clusReal, Stub: clusStub, Run: clusterSmokeRun, Finish: clusterFinish})
}

package scen

// C20 — event stream: every event published on a topic reaches each subscriber
// that was subscribed and active when it was published exactly once, in publish
// order per publisher, and never a subscriber that had unsubscribed or been
// removed; concurrent publishing and consumption never lose events.
//
// Two micro-simulations (engine F, no actor system):
//
//   - "stream": the real eventstream.EventsStream driven by 1–3 publisher
//     threads, one controller thread per subscriber (Subscribe / Unsubscribe /
//     RemoveSubscriber / Shutdown while publishing is under way), an optional
//     Close, and 1–2 threads draining each subscriber through Iterator().
//   - "queue-lin": the real internal/queue.Queue (the queue behind a
//     subscriber) driven by 2–4 threads issuing Enqueue / Dequeue / Length,
//     checked with porcupine against a FIFO queue.
//
// Violations carry the concurrency shape of the failing subscriber / queue as
// their component (how many publishers could reach it, how many threads drained
// it), so that a defect which needs two concurrent producers or two concurrent
// consumers never hides one that shows with one of each.

import (
	"fmt"
	"os"
	"sort"
	"strings"
	"time"

	"github.com/anishathalye/porcupine"

	"github.com/tochemey/goakt/v4/eventstream"
	"github.com/tochemey/goakt/v4/zzverif/simglue"
)

// c20Live detects calls that never return: the loops of the queue have no
// blocking point, so a permanent livelock shows only as a run that keeps taking
// scheduling steps. Counted by the OnStep hook (a normal run takes a few hundred
// steps, a starved compare-and-swap loop is demoted after a few thousand).
type c20Live struct {
	steps    int
	inflight map[string]string
	comp     string
	describe func() string
}

const c20StepLimit = 25000

func newC20Live(comp string) *c20Live { return &c20Live{inflight: map[string]string{}, comp: comp} }

func (l *c20Live) begin(who, what string) { l.inflight[who] = what }
func (l *c20Live) end(who string)         { delete(l.inflight, who) }

func (l *c20Live) onStep(c *Ctx) {
	l.steps++
	if l.steps != c20StepLimit {
		return
	}
	var calls []string
	for _, who := range sortedKeys(l.inflight) {
		calls = append(calls, who+":"+l.inflight[who])
	}
	c.Fail("livelock", l.comp, "after %d scheduling steps these calls have still not returned: %v; %s", l.steps, calls, l.describe())
}

func c20OnStep(c *Ctx) {
	switch st := c.state.(type) {
	case *c20StreamState:
		st.live.onStep(c)
	case *c20QueueState:
		st.live.onStep(c)
	}
}

// ---------------------------------------------------------------- scenario "stream"

type c20Key struct {
	ID    int
	Topic string
}

func (k c20Key) String() string { return fmt.Sprintf("%d@%s", k.ID, k.Topic) }

// c20Pub is one Publish (one topic) or Broadcast (several topics, in order).
type c20Pub struct {
	Pub, ID, Ord int
	Topics       []string
	Inv, Ret     int64
}

// c20Op is one subscription-changing call that affects a subscriber.
type c20Op struct {
	Kind     string // Subscribe | Unsubscribe | RemoveSubscriber | Shutdown | Close
	Topic    string
	Inv, Ret int64
}

func (o c20Op) permanent() bool { return o.Kind != "Subscribe" && o.Kind != "Unsubscribe" }

type c20Drain struct {
	Drainer  int // -1 = the final drain by the main thread
	Inv, Ret int64
	Items    []c20Key
}

type c20Sub struct {
	idx      int
	sub      eventstream.Subscriber
	ops      []c20Op
	drains   []c20Drain
	drainers int
	panicked string
	garbage  string
	live     *c20Live
}

type c20StreamState struct {
	subs []*c20Sub
	pubs []*c20Pub
	npub int
	live *c20Live
}

// iterate performs one Iterator() call and records what it returned. A panic
// inside Iterator is a violation of its own (the caller's goroutine would die);
// it is reported by Finish, when the shape of the run is known.
func (s *c20Sub) iterate(c *Ctx, drainer int) int {
	d := c20Drain{Drainer: drainer}
	var ch chan *eventstream.Message
	panicked := ""
	d.Inv = c.Stamp()
	who := fmt.Sprintf("sub%d/d%d", s.idx, drainer)
	s.live.begin(who, fmt.Sprintf("Iterator()[%d-", d.Inv))
	func() {
		defer func() {
			if r := recover(); r != nil {
				panicked = fmt.Sprint(r)
			}
		}()
		ch = s.sub.Iterator()
	}()
	s.live.end(who)
	d.Ret = c.Stamp()
	c.Ops++
	if panicked != "" {
		if s.panicked == "" {
			s.panicked = fmt.Sprintf("Iterator() called at [%d-%d] panicked: %s", d.Inv, d.Ret, panicked)
		}
		return 0
	}
	for m := range ch { // closed, buffered: never blocks
		if m == nil {
			s.garbage = "Iterator() yielded a nil message"
			continue
		}
		id, ok := m.Payload().(int)
		if !ok {
			s.garbage = fmt.Sprintf("Iterator() yielded payload %T %v", m.Payload(), m.Payload())
			continue
		}
		d.Items = append(d.Items, c20Key{id, m.Topic()})
	}
	s.drains = append(s.drains, d)
	return len(d.Items)
}

// shape names the concurrency the subscriber's queue was exposed to: how many
// publisher threads could reach it and how many threads drained it.
func (s *c20Sub) shape(st *c20StreamState) string {
	reach := map[int]bool{}
	for _, p := range st.pubs {
		for _, t := range p.Topics {
			if s.may(p, t) {
				reach[p.Pub] = true
			}
		}
	}
	sh := "1pub"
	if len(reach) > 1 {
		sh = "Npub"
	}
	if s.drainers > 1 {
		return sh + "-2drain"
	}
	return sh + "-1drain"
}

// may: the subscriber was possibly subscribed to t and active at some instant
// of the publish call. must: it definitely was during the whole call.
// Subscription calls on one subscriber are issued by one thread (sequential);
// Close runs on its own thread and is permanent.
func (s *c20Sub) may(p *c20Pub, t string) bool {
	for _, q := range s.ops {
		if q.permanent() && q.Ret < p.Inv {
			return false // shut down / removed / closed before the publish was invoked
		}
	}
	for _, x := range s.ops {
		if x.Kind != "Subscribe" || x.Topic != t || x.Inv > p.Ret {
			continue
		}
		dead := false
		for _, q := range s.ops {
			if q.permanent() && q.Ret < x.Inv {
				dead = true // Subscribe on an inactive subscriber is a no-op
			}
			if q.Kind == "Unsubscribe" && q.Topic == t && q.Inv > x.Ret && q.Ret < p.Inv {
				dead = true // undone before the publish was invoked
			}
		}
		if !dead {
			return true
		}
	}
	return false
}

func (s *c20Sub) must(p *c20Pub, t string) bool {
	for _, q := range s.ops {
		if q.permanent() && q.Inv < p.Ret {
			return false
		}
	}
	for _, x := range s.ops {
		if x.Kind != "Subscribe" || x.Topic != t || x.Ret > p.Inv {
			continue
		}
		ok := true
		for _, q := range s.ops {
			if q.Kind == "Unsubscribe" && q.Topic == t && !(q.Ret < x.Inv || q.Inv > p.Ret) {
				ok = false
			}
		}
		if ok {
			return true
		}
	}
	return false
}

// why names the reason a delivery was not admissible.
func (s *c20Sub) why(p *c20Pub, t string) string {
	var perm, unsub *c20Op
	for i := range s.ops {
		q := &s.ops[i]
		if q.Ret > p.Inv {
			continue
		}
		if q.permanent() && (perm == nil || q.Ret < perm.Ret) {
			perm = q
		}
		if q.Kind == "Unsubscribe" && q.Topic == t {
			unsub = q
		}
	}
	switch {
	case perm != nil:
		return "after-" + perm.Kind
	case unsub != nil:
		return "after-Unsubscribe"
	}
	return "never-subscribed"
}

func c20StreamRun(c *Ctx) {
	c.Comp = "eventstream"
	topics := []string{"t0", "t1"}[:1+c.W.Draw(2)]
	npub := 1 + c.W.Draw(3)
	nsub := 1 + c.W.Draw(3)
	type pubStep struct {
		topics []string
		yields int
	}
	pscript := make([][]pubStep, npub)
	for p := range pscript {
		n := 1 + c.W.Draw(6)
		for k := 0; k < n; k++ {
			st := pubStep{topics: []string{topics[c.W.Draw(len(topics))]}, yields: c.W.Draw(3)}
			if len(topics) == 2 && c.W.Draw(6) == 5 {
				st.topics = []string{"t0", "t1"} // Broadcast
				if c.W.Draw(2) == 1 {
					st.topics = []string{"t1", "t0"}
				}
			}
			pscript[p] = append(pscript[p], st)
		}
	}
	type subStep struct {
		kind   int // 0 pause (simulated time), 1 Unsubscribe, 2 Subscribe, 3 RemoveSubscriber, 4 Shutdown
		topic  string
		yields int
	}
	type drainStep struct {
		yields int
		sleep  bool
	}
	stream := eventstream.New()
	st := &c20StreamState{npub: npub, live: newC20Live("")}
	sscript := make([][]subStep, nsub)
	dscript := make([][][]drainStep, nsub)
	var descr []string
	for i := 0; i < nsub; i++ {
		s := &c20Sub{idx: i, sub: stream.AddSubscriber(), live: st.live}
		st.subs = append(st.subs, s)
		for _, t := range topics {
			if c.W.Draw(3) < 2 { // initially subscribed, before any publisher starts
				inv := c.Stamp()
				stream.Subscribe(s.sub, t)
				s.ops = append(s.ops, c20Op{Kind: "Subscribe", Topic: t, Inv: inv, Ret: c.Stamp()})
			}
		}
		n := c.W.Draw(5)
		for k := 0; k < n; k++ {
			sscript[i] = append(sscript[i], subStep{kind: c.W.Draw(5), topic: topics[c.W.Draw(len(topics))], yields: c.W.Draw(4)})
		}
		s.drainers = 1 + c.W.Draw(2)
		dscript[i] = make([][]drainStep, s.drainers)
		for d := range dscript[i] {
			m := 1 + c.W.Draw(4)
			for k := 0; k < m; k++ {
				dscript[i][d] = append(dscript[i][d], drainStep{yields: c.W.Draw(4), sleep: c.W.Draw(5) == 4})
			}
		}
		descr = append(descr, fmt.Sprintf("sub%d: %d initial topic(s), %d control op(s), %d drainer(s)", i, len(s.ops), n, s.drainers))
	}
	closeAfter := -1
	if c.W.Draw(8) == 7 {
		closeAfter = c.W.Draw(12)
	}
	c.Note("topics", len(topics))
	c.Note("publishers", npub)
	c.Note("subscribers", descr)
	c.Note("close", closeAfter >= 0)
	// component of a livelock: the static shape of the run
	st.live.comp = "1pub"
	if npub > 1 {
		st.live.comp = "Npub"
	}
	two := false
	for _, s := range st.subs {
		two = two || s.drainers > 1
	}
	if two {
		st.live.comp += "-2drain"
	} else {
		st.live.comp += "-1drain"
	}
	st.live.describe = func() string {
		var parts []string
		for _, s := range st.subs {
			parts = append(parts, c20DescribeSub(st, s))
		}
		return strings.Join(parts, " || ")
	}
	c.state = st

	var fns []func()
	for p := 0; p < npub; p++ {
		fns = append(fns, func() {
			for k, step := range pscript[p] {
				for y := 0; y < step.yields; y++ {
					Yield()
				}
				rec := &c20Pub{Pub: p, ID: p*100 + k + 1, Ord: k, Topics: step.topics}
				rec.Inv = c.Stamp()
				who := fmt.Sprintf("p%d", p)
				st.live.begin(who, fmt.Sprintf("Publish(%d@%s)[%d-", rec.ID, strings.Join(step.topics, "+"), rec.Inv))
				if len(step.topics) == 1 {
					stream.Publish(step.topics[0], rec.ID)
				} else {
					stream.Broadcast(rec.ID, step.topics)
					c.Probe("broadcast")
				}
				st.live.end(who)
				rec.Ret = c.Stamp()
				st.pubs = append(st.pubs, rec)
				c.Ops++
			}
		})
	}
	for i := 0; i < nsub; i++ {
		s := st.subs[i]
		if len(sscript[i]) > 0 {
			fns = append(fns, func() {
				for _, step := range sscript[i] {
					for y := 0; y < step.yields; y++ {
						Yield()
					}
					op := c20Op{Topic: step.topic}
					op.Inv = c.Stamp()
					switch step.kind {
					case 0:
						Sleep(time.Microsecond)
						continue
					case 1:
						op.Kind = "Unsubscribe"
						stream.Unsubscribe(s.sub, step.topic)
					case 2:
						op.Kind = "Subscribe"
						stream.Subscribe(s.sub, step.topic)
					case 3:
						op.Kind, op.Topic = "RemoveSubscriber", ""
						stream.RemoveSubscriber(s.sub)
					case 4:
						op.Kind, op.Topic = "Shutdown", ""
						s.sub.Shutdown()
					}
					op.Ret = c.Stamp()
					s.ops = append(s.ops, op)
					c.Probe("op-" + op.Kind)
					c.Ops++
				}
			})
		}
		for d := 0; d < s.drainers; d++ {
			fns = append(fns, func() {
				for _, step := range dscript[i][d] {
					if step.sleep {
						Sleep(time.Microsecond)
					}
					for y := 0; y < step.yields; y++ {
						Yield()
					}
					if s.iterate(c, d) > 0 {
						c.Probe("drained-during-run")
					}
				}
			})
		}
	}
	if closeAfter >= 0 {
		fns = append(fns, func() {
			for y := 0; y < closeAfter; y++ {
				Yield()
			}
			op := c20Op{Kind: "Close"}
			op.Inv = c.Stamp()
			stream.Close()
			op.Ret = c.Stamp()
			for _, s := range st.subs {
				s.ops = append(s.ops, op)
			}
			c.Probe("op-Close")
			c.Ops++
		})
	}
	Join(fns...)
	// everything has returned: whatever is still queued must come out now
	for _, s := range st.subs {
		empty := 0
		for k := 0; k < 12 && empty < 2 && !c.Failed(); k++ {
			if s.iterate(c, -1) == 0 {
				empty++
			} else {
				empty = 0
			}
		}
	}
}

func c20DescribeSub(st *c20StreamState, s *c20Sub) string {
	var b strings.Builder
	fmt.Fprintf(&b, "subscriber %d ops:", s.idx)
	for _, o := range s.ops {
		fmt.Fprintf(&b, " %s(%s)[%d-%d]", o.Kind, o.Topic, o.Inv, o.Ret)
	}
	b.WriteString("; publishes:")
	pubs := append([]*c20Pub(nil), st.pubs...)
	sort.Slice(pubs, func(i, j int) bool { return pubs[i].Inv < pubs[j].Inv })
	for _, p := range pubs {
		fmt.Fprintf(&b, " p%d:%d@%s[%d-%d]", p.Pub, p.ID, strings.Join(p.Topics, "+"), p.Inv, p.Ret)
	}
	b.WriteString("; drains:")
	for _, d := range s.drains {
		who := fmt.Sprintf("d%d", d.Drainer)
		if d.Drainer < 0 {
			who = "final"
		}
		fmt.Fprintf(&b, " %s[%d-%d]=%v", who, d.Inv, d.Ret, d.Items)
	}
	fmt.Fprintf(&b, "; queue now: %s", eventstream.VerifQueueDump(s.sub))
	return b.String()
}

func c20StreamFinish(c *Ctx) {
	st, _ := c.state.(*c20StreamState)
	if st == nil {
		return
	}
	byKey := map[c20Key]*c20Pub{}
	pos := map[c20Key]int{} // position in the publisher's own publish order
	for _, p := range st.pubs {
		for i, t := range p.Topics {
			byKey[c20Key{p.ID, t}] = p
			pos[c20Key{p.ID, t}] = p.Ord*4 + i
		}
	}
	for _, s := range st.subs {
		if os.Getenv("VERIF_DEBUG") != "" {
			fmt.Fprintln(os.Stderr, c20DescribeSub(st, s))
		}
		shape := s.shape(st)
		if s.panicked != "" {
			c.Fail("iterator-panic", shape, "subscriber %d: %s; %s", s.idx, s.panicked, c20DescribeSub(st, s))
			return
		}
		if s.garbage != "" {
			c.Fail("garbage-delivered", shape, "subscriber %d: %s; %s", s.idx, s.garbage, c20DescribeSub(st, s))
			return
		}
		got := map[c20Key]int{}
		for _, d := range s.drains {
			for _, k := range d.Items {
				p := byKey[k]
				if p == nil {
					c.Fail("garbage-delivered", shape, "subscriber %d received %v, which was never published; %s", s.idx, k, c20DescribeSub(st, s))
					return
				}
				got[k]++
				if got[k] == 2 {
					c.Fail("delivered-twice", shape, "subscriber %d received %v twice; %s", s.idx, k, c20DescribeSub(st, s))
					return
				}
				if !s.may(p, k.Topic) {
					c.Fail("delivered-while-unsubscribed", s.why(p, k.Topic), "subscriber %d received %v published at [%d-%d] although it was not subscribed to %s (or not active) at any instant of that call; %s", s.idx, k, p.Inv, p.Ret, k.Topic, c20DescribeSub(st, s))
					return
				}
			}
		}
		// publish order per publisher: inside one Iterator result, and between two
		// Iterator calls of which the first returned before the second was invoked
		for i, a := range s.drains {
			for j, b := range s.drains {
				if !(i == j || a.Ret < b.Inv) {
					continue
				}
				for x, ka := range a.Items {
					for y, kb := range b.Items {
						if i == j && x >= y {
							continue
						}
						if byKey[ka].Pub == byKey[kb].Pub && pos[ka] > pos[kb] {
							c.Fail("publish-order", shape, "subscriber %d received %v before %v, publisher %d published them in the opposite order; %s", s.idx, ka, kb, byKey[ka].Pub, c20DescribeSub(st, s))
							return
						}
					}
				}
			}
		}
		for _, p := range st.pubs {
			for _, t := range p.Topics {
				if got[c20Key{p.ID, t}] == 0 && s.must(p, t) {
					c.Fail("event-lost", shape, "subscriber %d never received %v published at [%d-%d] although it was subscribed to %s and active during the whole call; %s", s.idx, c20Key{p.ID, t}, p.Inv, p.Ret, t, c20DescribeSub(st, s))
					return
				}
			}
		}
	}
}

// ---------------------------------------------------------------- scenario "queue-lin"

const (
	c20Enq = iota
	c20Deq
	c20Len
)

type c20QIn struct{ Op, V int }

type c20QOut struct {
	V int   // dequeued value, 0 = nil
	N int64 // Length()
}

// c20QueueModel is a FIFO queue; state = values in arrival order (runes).
// Length() is a counter maintained after the linearization points and is not
// constrained here (implausible values are read off the history directly).
// first/last (optional) prune: a linearization that queues v behind w although
// v's dequeue returned before w's was invoked (or w never came out) is doomed.
func c20QueueModel(relaxEmpty bool, deqCall, deqRet map[int]int64) porcupine.Model {
	return porcupine.Model{
		Init: func() any { return "" },
		Step: func(st, in, out any) (bool, any) {
			q := []rune(st.(string))
			i, o := in.(c20QIn), out.(c20QOut)
			switch i.Op {
			case c20Enq:
				if rv, ok := deqRet[i.V]; ok {
					for _, w := range q {
						if cw, ok := deqCall[int(w)]; !ok || rv < cw {
							return false, st
						}
					}
				}
				return true, string(append(q, rune(i.V)))
			case c20Deq:
				if o.V == 0 {
					return relaxEmpty || len(q) == 0, st
				}
				if len(q) == 0 || int(q[0]) != o.V {
					return false, st
				}
				return true, string(q[1:])
			case c20Len:
				return true, st
			}
			return false, st
		},
		DescribeOperation: func(in, out any) string { return fmt.Sprintf("%+v -> %+v", in, out) },
	}
}

type c20QueueState struct {
	hist  []porcupine.Operation
	shape string
	enqs  int
	live  *c20Live
	q     *simglue.Queue
}

func c20QueueRun(c *Ctx) {
	c.Comp = "queue"
	q := simglue.NewQueue()
	nth := 2 + c.W.Draw(3)
	type step struct{ op, yields int }
	scripts := make([][]step, nth)
	prod, cons := 0, 0
	for t := range scripts {
		// role 0: mixed, 1: producer only, 2: consumer only
		role := c.W.Draw(3)
		n := 2 + c.W.Draw(5)
		e, d := false, false
		for k := 0; k < n; k++ {
			var op int
			switch role {
			case 1:
				op = c20Enq
			case 2:
				op = c20Deq
			default:
				op = []int{c20Enq, c20Deq, c20Enq, c20Deq, c20Len}[c.W.Draw(5)]
			}
			if role == 2 && c.W.Draw(6) == 5 {
				op = c20Len
			}
			e, d = e || op == c20Enq, d || op == c20Deq
			scripts[t] = append(scripts[t], step{op, c.W.Draw(3)})
		}
		if e {
			prod++
		}
		if d {
			cons++
		}
	}
	shape := func(n int) string {
		if n > 1 {
			return "M"
		}
		return "S"
	}
	st := &c20QueueState{shape: shape(prod) + "P" + shape(cons) + "C"}
	st.live = newC20Live(st.shape)
	st.live.describe = func() string { return "queue now: " + q.VerifDump() + "; completed calls: " + c20DescribeQ(st.hist) }
	st.q = q
	c.state = st
	c.Note("threads", nth)
	c.Note("shape", st.shape)
	var fns []func()
	for t := 0; t < nth; t++ {
		fns = append(fns, func() {
			nv := 0
			for _, s := range scripts[t] {
				for y := 0; y < s.yields; y++ {
					Yield()
				}
				c.Ops++
				switch s.op {
				case c20Enq:
					nv++
					v := (t+1)*100 + nv
					call := c.Stamp()
					who := fmt.Sprintf("t%d", t)
					st.live.begin(who, fmt.Sprintf("Enq(%d)[%d-", v, call))
					q.Enqueue(v)
					st.live.end(who)
					ret := c.Stamp()
					st.enqs++
					st.hist = append(st.hist, porcupine.Operation{ClientId: t, Input: c20QIn{c20Enq, v}, Call: call, Output: c20QOut{}, Return: ret})
				case c20Deq:
					call := c.Stamp()
					who := fmt.Sprintf("t%d", t)
					st.live.begin(who, fmt.Sprintf("Deq[%d-", call))
					x := q.Dequeue()
					st.live.end(who)
					ret := c.Stamp()
					st.hist = append(st.hist, porcupine.Operation{ClientId: t, Input: c20QIn{Op: c20Deq}, Call: call, Output: c20QOut{V: c20QVal(c, st, x)}, Return: ret})
				case c20Len:
					call := c.Stamp()
					n := q.Length()
					ret := c.Stamp()
					st.hist = append(st.hist, porcupine.Operation{ClientId: t, Input: c20QIn{Op: c20Len}, Call: call, Output: c20QOut{N: int64(n)}, Return: ret})
				}
			}
		})
	}
	Join(fns...)
	// quiescent: drain until two empty reports in a row
	for k, nils := 0, 0; k < st.enqs+6 && nils < 2 && !c.Failed(); k++ {
		call := c.Stamp()
		st.live.begin("t9", fmt.Sprintf("Deq[%d-", call))
		x := q.Dequeue()
		st.live.end("t9")
		ret := c.Stamp()
		v := c20QVal(c, st, x)
		if v == 0 {
			nils++
		} else {
			nils = 0
		}
		st.hist = append(st.hist, porcupine.Operation{ClientId: 9, Input: c20QIn{Op: c20Deq}, Call: call, Output: c20QOut{V: v}, Return: ret})
	}
	call := c.Stamp()
	n := q.Length()
	st.hist = append(st.hist, porcupine.Operation{ClientId: 9, Input: c20QIn{Op: c20Len}, Call: call, Output: c20QOut{N: int64(n)}, Return: c.Stamp()})
}

func c20QVal(c *Ctx, st *c20QueueState, x any) int {
	if x == nil {
		return 0
	}
	v, ok := x.(int)
	if !ok || v <= 0 {
		c.Fail("garbage-dequeued", st.shape, "Dequeue returned %T %v", x, x)
		return 0
	}
	return v
}

func c20DescribeQ(h []porcupine.Operation) string {
	var b strings.Builder
	for _, op := range h {
		i, o := op.Input.(c20QIn), op.Output.(c20QOut)
		switch i.Op {
		case c20Enq:
			fmt.Fprintf(&b, "t%d:Enq(%d)", op.ClientId, i.V)
		case c20Deq:
			if o.V == 0 {
				fmt.Fprintf(&b, "t%d:Deq=nil", op.ClientId)
			} else {
				fmt.Fprintf(&b, "t%d:Deq=%d", op.ClientId, o.V)
			}
		case c20Len:
			fmt.Fprintf(&b, "t%d:Len=%d", op.ClientId, o.N)
		}
		fmt.Fprintf(&b, "[%d-%d] ", op.Call, op.Return)
	}
	return b.String()
}

func c20QueueFinish(c *Ctx) {
	st, _ := c.state.(*c20QueueState)
	if st == nil {
		return
	}
	h := st.hist
	if os.Getenv("VERIF_DEBUG") != "" {
		fmt.Fprintln(os.Stderr, "history:", c20DescribeQ(h))
	}
	fail := func(class, format string, args ...any) {
		c.Fail(class, st.shape, "%s; history (t9 = quiescent drain): %s", fmt.Sprintf(format, args...), c20DescribeQ(h))
	}
	enqCall, enqRet := map[int]int64{}, map[int]int64{}
	deqCall, deqRet := map[int]int64{}, map[int]int64{}
	for _, op := range h {
		i, o := op.Input.(c20QIn), op.Output.(c20QOut)
		switch {
		case i.Op == c20Enq:
			enqCall[i.V], enqRet[i.V] = op.Call, op.Return
		case i.Op == c20Len:
			// the counter may lag either way by the operations in flight, never beyond
			if o.N < 0 {
				fail("length-negative", "Length() returned %d (as uint64: %d)", o.N, uint64(o.N))
				return
			}
			if o.N > int64(st.enqs) {
				fail("length-out-of-range", "Length() returned %d with %d enqueues in total", o.N, st.enqs)
				return
			}
		}
	}
	for _, op := range h {
		i, o := op.Input.(c20QIn), op.Output.(c20QOut)
		if i.Op != c20Deq || o.V == 0 {
			continue
		}
		if _, ok := enqCall[o.V]; !ok {
			fail("garbage-dequeued", "value %d was dequeued but never enqueued", o.V)
			return
		}
		if _, dup := deqCall[o.V]; dup {
			fail("dequeued-twice", "value %d was dequeued twice", o.V)
			return
		}
		deqCall[o.V], deqRet[o.V] = op.Call, op.Return
	}
	var lost []int
	for v := range enqCall {
		if _, ok := deqCall[v]; !ok {
			lost = append(lost, v)
		}
	}
	if len(lost) > 0 {
		sort.Ints(lost)
		fail("value-lost", "enqueued value(s) %v never came out although the queue was drained at quiescence; queue now: %s", lost, st.q.VerifDump())
		return
	}
	chk := func(relaxEmpty bool) (res porcupine.CheckResult) {
		OffBubble(func() {
			res = porcupine.CheckOperationsTimeout(c20QueueModel(relaxEmpty, deqCall, deqRet), h, 5*time.Second)
		})
		return res
	}
	switch chk(false) {
	case porcupine.Ok:
		return
	case porcupine.Unknown:
		c.Probe("porcupine-unknown")
		return
	}
	// name the narrowest thing that is wrong
	var vals []int
	for v := range enqCall {
		vals = append(vals, v)
	}
	sort.Ints(vals)
	for _, a := range vals {
		for _, b := range vals {
			if enqRet[a] < enqCall[b] && deqRet[b] < deqCall[a] {
				fail("fifo-order", "Enqueue(%d) returned before Enqueue(%d) was invoked, yet %d was dequeued [%d-%d] entirely before %d [%d-%d]", a, b, b, deqCall[b], deqRet[b], a, deqCall[a], deqRet[a])
				return
			}
		}
	}
	switch chk(true) {
	case porcupine.Ok:
		for _, r := range h {
			if ri, ro := r.Input.(c20QIn), r.Output.(c20QOut); ri.Op == c20Deq && ro.V == 0 {
				for _, v := range vals {
					if enqRet[v] < r.Call && deqCall[v] > r.Return {
						fail("false-empty", "Dequeue()=nil at [%d-%d] although Enqueue(%d) had returned at %d and %d was dequeued only at [%d-%d]", r.Call, r.Return, v, enqRet[v], v, deqCall[v], deqRet[v])
						return
					}
				}
			}
		}
		fail("false-empty", "a nil Dequeue contradicts every linearization although no completed enqueue was pending during it")
	case porcupine.Unknown:
		c.Probe("porcupine-unknown")
	default:
		fail("not-linearizable", "no FIFO linearization exists even with nil dequeues unconstrained")
	}
}

var c20RealStream = []string{"eventstream.EventsStream (AddSubscriber, Subscribe, Unsubscribe, RemoveSubscriber, Publish, Broadcast, Close)", "eventstream.subscriber (signal, Iterator, Shutdown)", "internal/queue.Queue with its node pool (pool policy LIFO / FIFO / GC drops per run)"}

func init() {
	Register(&Scenario{
		Prop: "C20", Name: "stream", Variants: []string{"stock"},
		Quick: 10000, Thorough: 1000000, EstSteps: 600, MaxSteps: 60000, MaxIdle: time.Minute,
		OnStep: c20OnStep,
		Real:   c20RealStream,
		Stub:   []string{"no actor system: publishers, subscription controllers and drainers are harness threads calling the Stream / Subscriber API directly"},
		Run:    c20StreamRun, Finish: c20StreamFinish,
	})
	Register(&Scenario{
		Prop: "C20", Name: "queue-lin", Variants: []string{"stock"},
		Quick: 10000, Thorough: 1000000, EstSteps: 300, MaxSteps: 60000, MaxIdle: time.Minute,
		OnStep: c20OnStep,
		Real:   []string{"internal/queue.Queue (Enqueue, Dequeue, Length, node pool; pool policy LIFO / FIFO / GC drops per run)"},
		Stub:   []string{"no event stream: 2–4 harness threads call the queue directly"},
		Run:    c20QueueRun, Finish: c20QueueFinish,
	})
}

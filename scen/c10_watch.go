package scen

// C10 — death watch: every watcher that is still running and did not unwatch a
// watched local actor receives exactly one Terminated naming it when it
// terminates (by any path); a watcher that unwatched before the termination
// receives none.
//
// Engine C. 1–3 watcher probes (never a parent of a watchee, so the implicit
// parent→child and death-watch→actor watches are excluded by identity), 1–2
// watchees (top-level or children of "par"), each with its own termination path.
// Watch/UnWatch are issued from the watcher's own turn (ctx.Watch) and from
// driver threads (pid.Watch), concurrently with the termination, with a watcher
// Restart / Kill as extra disturbance.
//
// The oracle is written from the statement over the totally ordered event log:
// every Watch/UnWatch is an interval [call, ret]; tb(v) is a point before which
// the termination of v certainly had not begun (the stop request was not yet
// issued; for passivation: simulated time < registration + timeout). Only
// operations that completed before tb are "before termination"; everything that
// overlaps tb or comes later is the racy middle and admits 0 or 1.

import (
	"fmt"
	"sort"
	"strings"
	"time"

	"github.com/tochemey/goakt/v4/actor"
	"github.com/tochemey/goakt/v4/log"
	"github.com/tochemey/goakt/v4/passivation"
	"github.com/tochemey/goakt/v4/supervisor"
	"github.com/tochemey/goakt/v4/zzverif/simrt"
)

var c10Paths = []string{"kill-external", "poison-pill", "self-shutdown", "supervisor-stop", "parent-stop", "stop-by-parent", "passivation", "shutdown-from-watcher-turn"}

type c10Watchee struct {
	name    string
	path    string // pid.Path().String(): what Terminated carries
	kind    string // termination path
	pid     *actor.PID
	child   bool
	passT   time.Duration
	spawnT  time.Duration
	restart bool // fails once and is restarted by its supervisor before the termination path is taken
}

type c10Op struct {
	w, v   int
	watch  bool
	viaCtx bool
	wait   int // 0 none, 1 yields, 2 sleep d, 3 sleep until the passivation deadline of v + d
	n      int
	d      time.Duration
}

type c10State struct {
	s        *Sys
	watchers []string
	wpids    []*actor.PID
	watchees []*c10Watchee
	sysStop  int // log index at which the system stop began
	lg       *capLogger
}

const c10Inf = int(^uint(0) >> 1)

func c10Run(c *Ctx) {
	lg := newCapLogger()
	s := StartSys(c, "c10", append(sysOpts(c), actor.WithLogger(lg))...)
	st := &c10State{s: s, sysStop: c10Inf, lg: lg}
	c.state = st
	mbs := sysMailboxesStoppable()
	nw := 1 + c.W.Draw(3)
	nv := 1 + c.W.Draw(2)
	sup := supervisor.NewSupervisor(supervisor.WithAnyErrorDirective(supervisor.StopDirective))
	// watchees that first go through a supervised restart: ErrB restarts, ErrA (the supervisor-stop path) stops
	// (a handler error ErrB restarts; a panic is a PanicError, which the default directives stop)
	supRestart := supervisor.NewSupervisor(
		supervisor.WithStrategy(supervisor.OneForOneStrategy),
		supervisor.WithDirective(&ErrB{}, supervisor.RestartDirective),
	)

	_, ppid, err := s.Spawn("par", actor.WithLongLived())
	if err != nil {
		c.Fail("spawn-failed", "par", "%v", err)
		return
	}
	var desc []string
	for i := 0; i < nw; i++ {
		mb := mbs[c.W.Draw(len(mbs))]
		name := fmt.Sprintf("w%d", i)
		_, pid, err := s.Spawn(name, append(mb.Opt(), actor.WithLongLived())...)
		if err != nil {
			c.Fail("spawn-failed", name, "%v", err)
			return
		}
		st.watchers = append(st.watchers, name)
		st.wpids = append(st.wpids, pid)
		desc = append(desc, name+":"+mb.Name)
	}
	for i := 0; i < nv; i++ {
		v := &c10Watchee{name: fmt.Sprintf("v%d", i), kind: c10Paths[c.W.Draw(len(c10Paths))]}
		mb := mbs[c.W.Draw(len(mbs))]
		// A failed (suspended) watchee restarted by its supervisor is re-initialised and re-attached to
		// the tree without a Shutdown: it has not terminated, nobody gets a Terminated, and whoever
		// watched it before still watches it afterwards.
		v.restart = v.kind != "passivation" && c.W.Draw(3) == 2
		opts := mb.Opt()
		if v.restart {
			opts = append(opts, actor.WithSupervisor(supRestart))
			c.Probe("watchee-with-supervised-restart")
		} else {
			opts = append(opts, actor.WithSupervisor(sup))
		}
		if v.kind == "passivation" {
			v.passT = time.Duration(2+c.W.Draw(6)) * time.Millisecond
			opts = append(opts, actor.WithPassivationStrategy(passivation.NewTimeBasedStrategy(v.passT)))
		} else {
			opts = append(opts, actor.WithLongLived())
		}
		v.child = v.kind == "parent-stop" || v.kind == "stop-by-parent" || c.W.Draw(3) == 1
		v.spawnT = Now()
		if v.child {
			v.pid, err = ppid.SpawnChild(s.Ctx, v.name, s.NewProbe(v.name), opts...)
		} else {
			_, v.pid, err = s.Spawn(v.name, opts...)
		}
		if err != nil {
			c.Fail("spawn-failed", v.name, "%v", err)
			return
		}
		v.path = v.pid.Path().String()
		st.watchees = append(st.watchees, v)
		desc = append(desc, fmt.Sprintf("%s:%s:%s:child=%v:T=%v", v.name, mb.Name, v.kind, v.child, v.passT))
		c.Probe("path:" + v.kind)
	}
	c.Note("actors", desc)
	c.Comp = st.watchees[0].kind

	// --- plan (drawn up front: the threads only execute)
	grid := []time.Duration{-time.Millisecond, -1, 0, 1, time.Millisecond}
	plans := make([][]c10Op, nw)
	for w := 0; w < nw; w++ {
		n := 1 + c.W.Draw(4)
		for k := 0; k < n; k++ {
			op := c10Op{w: w, v: c.W.Draw(nv)}
			op.watch = c.W.Draw(3) != 2 // 0,1 watch; 2 unwatch
			if k == 0 {
				op.watch = true
			}
			op.viaCtx = c.W.Draw(2) == 0
			op.wait = c.W.Draw(4)
			op.n = 1 + c.W.Draw(4)
			op.d = time.Duration(c.W.Draw(3)) * time.Millisecond
			if op.wait == 3 {
				op.d = grid[c.W.Draw(len(grid))]
			}
			plans[w] = append(plans[w], op)
		}
	}
	type stopPlan struct {
		rwait int // before the supervised restart: 0 none, 1 yields, 2 1ms, 3 3ms
		rn    int
		wait  int
		n     int
		d     time.Duration
	}
	stops := make([]stopPlan, nv)
	for i := range stops {
		stops[i] = stopPlan{rwait: c.W.Draw(4), rn: 1 + c.W.Draw(12), wait: c.W.Draw(4), n: 1 + c.W.Draw(12), d: []time.Duration{0, time.Millisecond, 3 * time.Millisecond, 20 * time.Millisecond}[c.W.Draw(4)]}
	}
	disturb := c.W.Draw(4) // 0,1 none; 2 watcher restart; 3 watcher kill
	dw := c.W.Draw(nw)
	dwait := time.Duration(c.W.Draw(4)) * time.Millisecond
	dyield := c.W.Draw(8)

	opID := 0
	doOp := func(t int, k int, op c10Op) {
		v := st.watchees[op.v]
		wname := st.watchers[op.w]
		wpid := st.wpids[op.w]
		switch op.wait {
		case 1:
			for i := 0; i < op.n; i++ {
				Yield()
			}
		case 2:
			Sleep(op.d)
		case 3:
			if v.passT > 0 {
				if d := v.spawnT + v.passT + op.d - Now(); d > 0 {
					Sleep(d)
				}
				c.Probe("op-on-passivation-grid")
			} else {
				Sleep(time.Millisecond)
			}
		}
		opID++
		id := opID
		kind := "unwatch"
		if op.watch {
			kind = "watch"
		}
		c.Ops++
		if op.viaCtx {
			mid := Op{K: OpUnwatch, To: v.pid}
			if op.watch {
				mid = Op{K: OpWatch, To: v.pid}
			}
			cmd := &Cmd{Tag: c.Seq(), From: t, Seq: k, Ops: []Op{
				{K: OpFunc, F: func(rc *actor.ReceiveContext, p *Probe) {
					s.Ev(Ev{Actor: wname, Kind: kind + "-call", Tag: id, Aux: v.name})
				}},
				mid,
				{K: OpFunc, F: func(rc *actor.ReceiveContext, p *Probe) {
					s.Ev(Ev{Actor: wname, Kind: kind + "-ret", Tag: id, Aux: v.name})
				}},
			}}
			_ = s.Tell(wpid, cmd)
			return
		}
		s.Ev(Ev{Actor: wname, Kind: kind + "-call", Tag: id, Aux: v.name})
		if op.watch {
			wpid.Watch(v.pid)
		} else {
			wpid.UnWatch(v.pid)
		}
		s.Ev(Ev{Actor: wname, Kind: kind + "-ret", Tag: id, Aux: v.name})
	}

	var fns []func()
	for w := 0; w < nw; w++ {
		fns = append(fns, func() {
			for k, op := range plans[w] {
				doOp(w, k, op)
			}
		})
	}
	for i, v := range st.watchees {
		sp := stops[i]
		fns = append(fns, func() {
			if v.restart {
				switch sp.rwait {
				case 1:
					for k := 0; k < sp.rn; k++ {
						Yield()
					}
				case 2:
					Sleep(time.Millisecond)
				case 3:
					Sleep(3 * time.Millisecond)
				}
				c.Fault("watchee-supervised-restart")
				s.Ev(Ev{Actor: v.name, Kind: "vrestart-issued"})
				_ = s.Tell(v.pid, &Cmd{Tag: c.Seq(), From: 200 + i, Ops: []Op{{K: OpErr, N: 1}}})
				p := s.Probes[v.name]
				if WaitUntil(time.Millisecond, 2*time.Second, func() bool { return p.Inc >= 2 && v.pid.IsRunning() }) {
					Sleep(time.Millisecond) // let restartSubtree finish re-attaching the node
					s.Ev(Ev{Actor: v.name, Kind: "vrestart-done"})
					c.Probe("watchee-restart-completed")
				} else {
					c.Probe("watchee-restart-timeout")
				}
			}
			switch sp.wait {
			case 0, 1:
				for k := 0; k < sp.n; k++ {
					Yield()
				}
			default:
				Sleep(sp.d)
			}
			issued := func(names ...string) {
				for _, n := range names {
					s.Ev(Ev{Actor: n, Kind: "stop-issued", Aux: v.kind})
				}
				c.Fault("stop:" + v.kind)
			}
			from := 100 + i
			switch v.kind {
			case "kill-external":
				issued(v.name)
				_ = s.Sys.Kill(s.Ctx, v.name)
			case "poison-pill":
				issued(v.name)
				_ = actor.Tell(s.Ctx, v.pid, new(actor.PoisonPill))
			case "self-shutdown":
				issued(v.name)
				_ = s.Tell(v.pid, &Cmd{Tag: c.Seq(), From: from, Ops: []Op{{K: OpShutdown}}})
			case "supervisor-stop":
				issued(v.name)
				_ = s.Tell(v.pid, &Cmd{Tag: c.Seq(), From: from, Ops: []Op{{K: OpPanic, N: 0}}})
			case "parent-stop":
				var all []string
				for _, x := range st.watchees {
					if x.child {
						all = append(all, x.name)
					}
				}
				issued(append(all, "par")...)
				_ = s.Sys.Kill(s.Ctx, "par")
			case "stop-by-parent":
				issued(v.name)
				_ = ppid.Stop(s.Ctx, v.pid)
			case "passivation":
				// the passivation manager stops it once idle for passT
			case "shutdown-from-watcher-turn":
				_ = s.Tell(st.wpids[0], &Cmd{Tag: c.Seq(), From: from, Ops: []Op{{K: OpFunc, F: func(rc *actor.ReceiveContext, p *Probe) {
					issued(v.name)
					_ = v.pid.Shutdown(rc.Context())
				}}}})
			}
		})
	}
	if disturb >= 2 {
		fns = append(fns, func() {
			for k := 0; k < dyield; k++ {
				Yield()
			}
			Sleep(dwait)
			name, pid := st.watchers[dw], st.wpids[dw]
			if disturb == 2 {
				c.Fault("watcher-restart")
				s.Ev(Ev{Actor: name, Kind: "wdisturb-call", Aux: "restart"})
				if CallTimeout(5*time.Second, func() { _ = pid.Restart(s.Ctx) }) {
					s.Ev(Ev{Actor: name, Kind: "wdisturb-ret", Aux: "restart"})
				} else {
					c.Probe("restart-call-hung")
				}
			} else {
				c.Fault("watcher-kill")
				s.Ev(Ev{Actor: name, Kind: "wdisturb-call", Aux: "kill"})
				_ = s.Sys.Kill(s.Ctx, name)
			}
		})
	}
	Join(fns...)
	Sleep(100 * time.Millisecond)
	c.Note("steps_at_system_stop", simrt.Step())
	st.sysStop = s.Ev(Ev{Kind: "sys-stop"})
	_ = s.Stop()
}

type c10Ival struct{ call, ret int }

// capLogger is the discard logger that keeps the first warning/error lines of a run, so that a
// violation caused by a failing system actor can name the failure.
type capLogger struct {
	log.Logger
	lines []string
}

func newCapLogger() *capLogger { return &capLogger{Logger: log.DiscardLogger} }

func (l *capLogger) keep(s string) {
	if len(l.lines) < 12 {
		l.lines = append(l.lines, s)
	}
}

// cause names the first failing system actor reported by goakt ("panic-in:<actor>"), or "unknown".
func (l *capLogger) cause() string {
	for _, ln := range l.lines {
		// failures of the scenario's own probes (supervisor-stop path) are expected: only system actors count
		if i := strings.Index(ln, " child=GoAkt"); i >= 0 && strings.Contains(ln, " failing") {
			rest := ln[i+len(" child="):]
			if j := strings.IndexByte(rest, ' '); j > 0 {
				return "panic-in:" + rest[:j]
			}
		}
	}
	return "unknown"
}

func (l *capLogger) Enabled(level log.Level) bool {
	return level == log.WarningLevel || level == log.ErrorLevel || l.Logger.Enabled(level)
}
func (l *capLogger) Warn(v ...any)                    { l.keep("W " + fmt.Sprint(v...)) }
func (l *capLogger) Warnf(f string, v ...any)         { l.keep("W " + fmt.Sprintf(f, v...)) }
func (l *capLogger) Error(v ...any)                   { l.keep("E " + fmt.Sprint(v...)) }
func (l *capLogger) Errorf(f string, v ...any)        { l.keep("E " + fmt.Sprintf(f, v...)) }
func (l *capLogger) With(keyValues ...any) log.Logger { return l }

func c10Tail(evs []Ev, upto, n int) string {
	out := ""
	for _, e := range evs[max(0, upto-n) : upto+1] {
		out += fmt.Sprintf("#%d %v %s %s/%d %s %d %v | ", e.Seq, e.T, e.G, e.Actor, e.Inc, e.Kind, e.Tag, e.Aux)
	}
	return out
}

func c10Finish(c *Ctx) {
	st, _ := c.state.(*c10State)
	if st == nil || len(st.watchees) == 0 {
		return
	}
	evs := st.s.Log
	byName := map[string]*c10Watchee{}
	for _, v := range st.watchees {
		byName[v.name] = v
	}
	// tb(v): first log index at which the termination of v may have begun
	tb := map[string]int{}
	stopped := map[string]bool{} // PostStop of v completed before the system stop
	for _, v := range st.watchees {
		tb[v.name] = st.sysStop
	}
	// premise of the scenario: before the system stop nothing stops unless the scenario asked
	// for it (a stop request, a watcher restart/kill, an elapsed passivation timeout). When an
	// actor's PostStop runs unrequested, something outside the death-watch machinery took the
	// system down; say so instead of blaming the watch bookkeeping.
	requested := map[string]bool{}
	lastStop := "none"
	isActor := map[string]bool{"par": true}
	for _, w := range st.watchers {
		isActor[w] = true
	}
	for _, e := range evs {
		if e.Seq >= st.sysStop {
			break
		}
		switch e.Kind {
		case "stop-issued":
			requested[e.Actor] = true
			lastStop = fmt.Sprint(e.Aux)
		case "wdisturb-call":
			requested[e.Actor] = true
		case "poststop-enter":
			v := byName[e.Actor]
			if v == nil && !isActor[e.Actor] {
				continue
			}
			if requested[e.Actor] || (v != nil && v.passT > 0 && e.T >= v.spawnT+v.passT) {
				continue
			}
			c.Fail("stopped-without-request", st.lg.cause(), "PostStop of %s ran at #%d although no stop, restart or passivation of it was due (last stop request of the run: %s); goakt warnings/errors: %q; log tail up to there: %s", e.Actor, e.Seq, lastStop, st.lg.lines, c10Tail(evs, min(len(evs)-1, e.Seq+30), 40))
			return
		}
	}
	for _, e := range evs {
		if e.Seq >= st.sysStop {
			break
		}
		if e.Kind == "stop-issued" && e.Seq < tb[e.Actor] {
			tb[e.Actor] = e.Seq
		}
		if e.Kind == "poststop-enter" && byName[e.Actor] != nil && e.Seq < tb[e.Actor] {
			tb[e.Actor] = e.Seq // PostStop running proves the termination has begun
		}
		if e.Kind == "poststop-exit" && byName[e.Actor] != nil {
			stopped[e.Actor] = true
		}
		for _, v := range st.watchees {
			if v.passT > 0 && e.T >= v.spawnT+v.passT && e.Seq < tb[v.name] {
				tb[v.name] = e.Seq
			}
		}
	}
	type pair struct {
		watches, unwatches []c10Ival
		terms              []int
	}
	pairs := map[string]*pair{}
	get := func(w, v string) *pair {
		k := w + ">" + v
		if pairs[k] == nil {
			pairs[k] = &pair{}
		}
		return pairs[k]
	}
	pathOf := map[string]string{}
	for _, v := range st.watchees {
		pathOf[v.path] = v.name
	}
	isWatcher := map[string]bool{}
	for _, w := range st.watchers {
		isWatcher[w] = true
	}
	type opRec struct {
		w, v  string
		watch bool
		iv    c10Ival
	}
	ops := map[int]*opRec{}
	var opIDs []int
	disturbed := map[string][]c10Ival{}
	for _, e := range evs {
		switch e.Kind {
		case "watch-call", "unwatch-call":
			ops[e.Tag] = &opRec{w: e.Actor, v: e.Aux.(string), watch: e.Kind == "watch-call", iv: c10Ival{e.Seq, c10Inf}}
			opIDs = append(opIDs, e.Tag)
		case "watch-ret", "unwatch-ret":
			ops[e.Tag].iv.ret = e.Seq
		case "wdisturb-call":
			disturbed[e.Actor] = append(disturbed[e.Actor], c10Ival{e.Seq, c10Inf})
		case "wdisturb-ret":
			d := disturbed[e.Actor]
			d[len(d)-1].ret = e.Seq
		case "terminated":
			if !isWatcher[e.Actor] {
				continue // "par" is the implicit watcher of its children
			}
			vn, ok := pathOf[fmt.Sprint(e.Aux)]
			if !ok {
				c.Fail("terminated-unknown-actor", "any", "watcher %s received Terminated(%v), which names no watchee of this run; log tail: %s", e.Actor, e.Aux, st.s.Tail(16))
				return
			}
			p := get(e.Actor, vn)
			p.terms = append(p.terms, e.Seq)
		}
	}
	for _, id := range opIDs {
		o := ops[id]
		p := get(o.w, o.v)
		if o.watch {
			p.watches = append(p.watches, o.iv)
		} else {
			p.unwatches = append(p.unwatches, o.iv)
		}
	}
	keys := make([]string, 0, len(pairs))
	for k := range pairs {
		keys = append(keys, k)
	}
	sort.Strings(keys)
	history := func(w, vn string) (out string) {
		defer func() {
			if len(evs) <= 160 {
				out += " || full log: "
				for _, e := range evs {
					out += fmt.Sprintf("#%d %v %s %s/%d %s %d %v | ", e.Seq, e.T, e.G, e.Actor, e.Inc, e.Kind, e.Tag, e.Aux)
				}
			}
		}()
		for _, e := range evs {
			rel := false
			switch e.Kind {
			case "watch-call", "watch-ret", "unwatch-call", "unwatch-ret":
				rel = e.Actor == w && e.Aux == any(vn)
			case "terminated":
				rel = e.Actor == w
			case "wdisturb-call", "wdisturb-ret":
				rel = e.Actor == w
			case "stop-issued", "poststop-enter", "poststop-exit", "vrestart-issued", "vrestart-done", "prestart-exit":
				rel = e.Actor == vn
			case "sys-stop":
				rel = true
			}
			if rel {
				out += fmt.Sprintf("#%d t=%v g=%s %s %s %v | ", e.Seq, e.T, e.G, e.Actor, e.Kind, e.Aux)
			}
		}
		return out
	}
	for _, w := range st.watchers {
		for _, v := range st.watchees {
			p := get(w, v.name)
			t := tb[v.name]
			n := len(p.terms)
			comp := v.kind
			if n > 1 {
				c.Fail("terminated-twice", comp, "watcher %s handled %d Terminated(%s) for one termination of %s; history: %s", w, n, v.path, v.name, history(w, v.name))
				return
			}
			if n > 0 && p.terms[0] < t {
				c.Fail("terminated-before-stop", comp, "watcher %s handled Terminated(%s) at #%d, before the termination of %s can have begun (#%d); history: %s", w, v.path, p.terms[0], v.name, t, history(w, v.name))
				return
			}
			if len(p.watches) == 0 {
				if n > 0 {
					c.Fail("terminated-unwatched", comp+":never-watched", "watcher %s never watched %s but handled Terminated(%s); history: %s", w, v.name, v.path, history(w, v.name))
					return
				}
				continue
			}
			// definitely not watching at tb: some UnWatch completed before tb and every Watch completed before that UnWatch began
			defNot := false
			for _, u := range p.unwatches {
				if u.ret >= t {
					continue
				}
				ok := true
				for _, x := range p.watches {
					if x.ret >= u.call {
						ok = false
					}
				}
				if ok {
					defNot = true
				}
			}
			if defNot {
				c.Probe("pair-definitely-unwatched")
				if n > 0 {
					c.Fail("terminated-after-unwatch", comp, "watcher %s completed UnWatch(%s) before the termination began (#%d) and did not watch again, but handled Terminated(%s) at #%d; history: %s", w, v.name, t, v.path, p.terms[0], history(w, v.name))
					return
				}
				continue
			}
			// definitely watching at tb and able to receive: some Watch completed before tb, every
			// UnWatch and every disturbance of the watcher (restart, kill) completed before that Watch began
			defYes := false
			for _, x := range p.watches {
				if x.ret >= t {
					continue
				}
				ok := true
				for _, u := range p.unwatches {
					if u.ret >= x.call {
						ok = false
					}
				}
				for _, d := range disturbed[w] {
					if d.ret >= x.call {
						ok = false
					}
				}
				if ok {
					defYes = true
				}
			}
			if defYes && t < st.sysStop && stopped[v.name] {
				c.Probe("pair-definitely-watching")
				if n != 1 {
					c.Fail("terminated-missing", comp, "watcher %s completed Watch(%s) before the termination began (#%d), never unwatched, stayed running, but handled %d Terminated(%s) within 100ms after; history: %s", w, v.name, t, n, v.path, history(w, v.name))
					return
				}
				continue
			}
			c.Probe("pair-racy")
			if n == 1 {
				c.Probe("pair-racy-got-1")
			}
		}
	}
	for _, v := range st.watchees {
		if !stopped[v.name] {
			c.Probe("watchee-not-terminated:" + v.kind)
		}
	}
	_ = keys
}

func init() {
	Register(&Scenario{Prop: "C10", Name: "watch-terminated", Variants: []string{"stock"}, Quick: 1500, Thorough: 150000,
		EstSteps: 5000, MaxSteps: 400000, MaxIdle: time.Hour, Real: sysReal, Stub: sysStub, Run: c10Run, Finish: c10Finish})
}

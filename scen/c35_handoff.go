package scen

// C35 — relocation handoff masking respects caller deadlines.
//
// Statement: a synchronous name-based send that hits a relocating endpoint
// returns within the caller's timeout, and an asynchronous name-based send never
// blocks or sleeps; both return a retryable error when the target cannot be
// resolved in time. (actor/relocation_handoff.go deliverAcrossHandoff /
// sleepWithinHandoff / deliverBypassingHandoff, actor/pid.go SendSync/SendAsync,
// docs/actor/relocation.mdx "Message handoff".)
//
// Engine E (scen/cluster.go): 2–3 real cluster-enabled actor systems. A named
// ClusActor ("tgt", sometimes a second one, sometimes not relocatable) runs on a
// victim node. The victim crashes (NodeLeft at once, or only after the 30 s
// overdue timer when the rebalance epoch never completes) or leaves gracefully.
// The real relocation machinery then recreates the actor on a survivor: quickly,
// slowly (the PreStart of the recreated instance takes 0.3–4 s of simulated time,
// during which the registry still names the departed endpoint or nothing) or
// never (actor spawned WithRelocationDisabled). Meanwhile 2–4 caller threads on
// the survivors issue PID.SendSync / PID.SendAsync through the system's NoSender
// PID and ReceiveContext.SendSync / SendAsync from inside the handler of a local
// actor, at instants drawn on a grid around the departure and around the 3 s
// handoff window, with timeouts from 1 ms to 10 s drawn on a grid around the
// loop's constants (50/100/200/300 ms backoff sums, 500 ms not-found mask, 3 s
// window, the instant at which the window closes; each −1 ns / 0 / +1 ns).
//
// Oracle, per call (written from the statement and the documentation):
//   D  SendSync returns at simulated time ≤ t0 + timeout (the fake clock has no
//      jitter and the docs promise "never beyond its own timeout").
//   R  a successful SendSync reply carries the request's tag.
//   A  SendAsync returns with the fake clock unchanged. The clock only advances
//      when every thread is durably blocked, so a SendAsync that slept or waited
//      for a relocation shows up as elapsed > 0. One documented exception: a
//      name that still resolves to the departed endpoint while this node does
//      NOT mask that endpoint (before it saw the departure, or after the window
//      closed) is dialled like any other remote actor; such calls are exempt
//      when the simulated network reports that a black-holed dial / write
//      happened during the call.
//   E  the error when the target could not be resolved: if the registry record
//      named the departed endpoint and this node masked that endpoint both
//      before and after the call (hence throughout), the call must fail with
//      ErrRelocationInProgress; a name that never existed must fail with
//      ErrActorNotFound; a name without a record before and after the call while
//      a handoff window was open must fail with one of those two (the documented
//      pair). Errors of a delivery to an endpoint this node does not mask (a
//      leaving node that still answers) are outside the statement: probes only.
//
// Scenario handoff-deadlines keeps the registry healthy (every name lookup takes
// zero simulated time), so that the only waiting a caller can meet is the
// handoff masking itself. Scenario handoff-slow-registry is the same workload
// with registry operations that take simulated time (reads directly; writes and
// scans delay the reads of the same node through the cluster engine's RWMutex,
// which is held across the registry round trip). There a lookup takes up to the
// cluster read timeout (1 s by default) whatever the caller's timeout is; clause
// A is not evaluated (a SendAsync has to resolve the name), clause D is, with
// component "...,slow-registry".

import (
	"context"
	"errors"
	"fmt"
	"net"
	"os"
	"strings"
	"syscall"
	"time"

	"github.com/tochemey/goakt/v4/actor"
	gerrors "github.com/tochemey/goakt/v4/errors"
	"github.com/tochemey/goakt/v4/test/data/testpb"
	"github.com/tochemey/goakt/v4/zzverif/simcluster"
)

const (
	c35Window   = 3 * time.Second        // relocationHandoffWindow
	c35NotFound = 500 * time.Millisecond // relocationNotFoundMaskWindow
)

// c35View is what a caller's node believes about a name at one instant.
type c35View struct {
	Rec      string // "none" | "dead" (record names the departed endpoint) | "live:<host:port>"
	Masked   bool   // this node masks the departed endpoint (handoff window open for it)
	InFlight bool   // some handoff window is open on this node
}

func (v c35View) String() string {
	return fmt.Sprintf("{rec=%s masked=%v inflight=%v}", v.Rec, v.Masked, v.InFlight)
}

type c35Call struct {
	Thread  int
	Node    int
	API     string // "NoSender" | "ReceiveContext"
	Sync    bool
	Name    string
	Tag     int
	Timeout time.Duration
	T0, T1  time.Duration
	Err     error
	Reply   string
	Pre     c35View
	Post    c35View
	BH0     int // black-holed dials+writes seen by the network before / after
	BH1     int
}

func (k *c35Call) String() string {
	op := "SendAsync"
	to := ""
	if k.Sync {
		op = "SendSync"
		to = fmt.Sprintf(", timeout=%v", k.Timeout)
	}
	return fmt.Sprintf("%s.%s(%q, tag=%d%s) on node%d thread %d: called at t=%v, returned at t=%v (elapsed %v), err=%v, reply=%q, view before %v, view after %v, black-holed network ops during the call: %d",
		k.API, op, k.Name, k.Tag, to, k.Node, k.Thread, k.T0, k.T1, k.T1-k.T0, k.Err, k.Reply, k.Pre, k.Post, k.BH1-k.BH0)
}

type c35St struct {
	c          *Ctx
	cl         *simCluster
	victim     int
	deadHP     string
	slowReg bool
	mode       string
	tmark      time.Duration // when the survivors are expected to see the departure
	calls      []*c35Call
}

// c35Cmd is handled by the local caller actor: it runs f with the actor's ReceiveContext.
type c35Cmd struct{ f func(rc *actor.ReceiveContext) }

type c35Caller struct{}

func (*c35Caller) PreStart(*actor.Context) error { return nil }
func (*c35Caller) PostStop(*actor.Context) error { return nil }
func (*c35Caller) Receive(rc *actor.ReceiveContext) {
	if m, ok := rc.Message().(*c35Cmd); ok {
		m.f(rc)
		rc.Response(&testpb.Reply{Content: "done"})
	}
}

func (st *c35St) view(nd *clusterNode, name string) c35View {
	v := c35View{Rec: "none"}
	if val, ok := st.cl.Reg.Snapshot()["actors::"+name]; ok {
		if hp, ok := actor.VerifActorRecordHostPort(val); ok {
			if hp == st.deadHP {
				v.Rec = "dead"
			} else {
				v.Rec = "live:" + hp
			}
		} else {
			v.Rec = "undecodable"
		}
	}
	v.Masked, v.InFlight = actor.VerifHandoffState(nd.Sys.Sys, st.deadHP)
	return v
}

func (st *c35St) blackholed() int {
	return st.cl.Net.Stats["fault:dial-blackholed"] + st.cl.Net.Stats["fault:bytes-blackholed"]
}

// c35ErrClass maps an error to the small set of kinds the documentation names.
func c35ErrClass(err error) string {
	var ne net.Error
	switch {
	case err == nil:
		return "ok"
	case errors.Is(err, gerrors.ErrRelocationInProgress):
		return "relocating"
	case errors.Is(err, gerrors.ErrActorNotFound):
		return "notfound"
	case errors.Is(err, gerrors.ErrAddressNotFound):
		return "addr-notfound" // answered by a live node that no longer hosts the actor (a leaving node before the departure is seen)
	case errors.Is(err, gerrors.ErrRequestTimeout), errors.Is(err, context.DeadlineExceeded), errors.Is(err, os.ErrDeadlineExceeded):
		return "timeout"
	case errors.As(err, &ne) && ne.Timeout():
		return "timeout"
	case errors.Is(err, gerrors.ErrRemoteSendFailure), errors.Is(err, syscall.ECONNREFUSED), errors.Is(err, syscall.ECONNRESET):
		return "conn"
	case errors.Is(err, gerrors.ErrDead):
		return "dead"
	case errors.Is(err, simcluster.ErrInjected):
		return "registry"
	}
	return "other"
}

// check evaluates the per-call oracle clauses.
func (st *c35St) check(k *c35Call) {
	c, cl := st.c, st.cl
	if cl.Failed() {
		return
	}
	comp := k.API
	if st.slowReg {
		comp += ",slow-registry"
	}
	elapsed := k.T1 - k.T0
	ec := c35ErrClass(k.Err)
	pinned := k.Pre.Rec == "dead" && k.Post.Rec == "dead" && k.Pre.Masked && k.Post.Masked
	fail := func(class, format string, args ...any) {
		cl.Fail(class, comp, "%s — %s; mode %s, departure seen at t≈%v (window closes ≈%v); registry faults fired %v; log tail: %s",
			fmt.Sprintf(format, args...), k, st.mode, st.tmark, st.tmark+c35Window, cl.Reg.Faults, cl.Tail(25))
	}
	if k.Sync {
		c.Probe("sync:" + ec)
		if k.Err == nil && elapsed > 0 {
			c.Probe("sync:reply-after-masking")
		}
		if elapsed > k.Timeout {
			fail("sendsync-exceeds-timeout", "SendSync returned %v after its %v timeout", elapsed-k.Timeout, k.Timeout)
			return
		}
		if k.Err == nil {
			want := rmsg(k.Tag, k.Thread, 0, "r").GetContent()
			if k.Reply != want {
				fail("sendsync-wrong-reply", "SendSync succeeded with reply %q, want %q", k.Reply, want)
				return
			}
		}
	} else {
		c.Probe("async:" + ec)
		if elapsed != 0 && st.slowReg {
			c.Probe("async:took-time-on-slow-registry")
		} else if elapsed != 0 {
			deadDial := k.BH1 > k.BH0 && ((k.Pre.Rec == "dead" && !k.Pre.Masked) || (k.Post.Rec == "dead" && !k.Post.Masked))
			if deadDial {
				c.Probe("async:dialled-unmasked-dead-endpoint")
			} else {
				fail("sendasync-blocked", "SendAsync let %v of simulated time pass (it slept or waited)", elapsed)
				return
			}
		}
	}
	// E: the error
	switch {
	case k.Name == "ghost":
		if ec != "notfound" && !(st.slowReg && (ec == "timeout" || ec == "other")) {
			fail("handoff-wrong-error", "a name that never existed must fail with ErrActorNotFound, got class %s", ec)
		}
	case pinned:
		c.Probe("pinned-throughout")
		if ec != "relocating" && !(st.slowReg && (ec == "timeout" || ec == "other")) {
			fail("handoff-wrong-error", "the record named the departed endpoint and this node masked it before and after the call, so the call must fail with ErrRelocationInProgress, got class %s", ec)
		}
	case k.Pre.Rec == "none" && k.Post.Rec == "none" && k.Pre.InFlight && k.Post.InFlight && k.Err != nil:
		c.Probe("unregistered-during-handoff")
		if ec != "notfound" && ec != "relocating" && !(st.slowReg && (ec == "timeout" || ec == "other")) {
			fail("handoff-wrong-error", "no record for the name before and after the call while a handoff window was open: the documented errors are ErrActorNotFound / ErrRelocationInProgress, got class %s", ec)
		}
	case ec == "dead" || ec == "other":
		// the name resolved to an endpoint this node did not mask (a leaving node
		// that still answers, a half-stopped node): delivery errors against it are
		// outside the statement
		c.Probe("delivery-error-outside-handoff:" + ec)
	}
}

// doCall issues one name-based send and records it.
func (st *c35St) doCall(nd *clusterNode, caller *actor.PID, thread int, api int, name string, timeout time.Duration) {
	c := st.c
	k := &c35Call{Thread: thread, Node: nd.Idx, Sync: api%2 == 0, Name: name, Tag: c.Seq(), Timeout: timeout, API: "NoSender"}
	msg := rmsg(k.Tag, thread, 0, "r")
	c.Ops++
	run := func(sync func() (any, error), async func() error) {
		k.Pre = st.view(nd, name)
		k.BH0 = st.blackholed()
		k.T0 = Now()
		if k.Sync {
			var r any
			r, k.Err = sync()
			k.T1 = Now()
			if rep, ok := r.(*testpb.Reply); ok && rep != nil {
				k.Reply = rep.GetContent()
			} else if r != nil {
				k.Reply = fmt.Sprintf("%T", r)
			}
		} else {
			k.Err = async()
			k.T1 = Now()
		}
		k.BH1 = st.blackholed()
		k.Post = st.view(nd, name)
	}
	st.cl.Ev(Ev{Actor: name, Inc: nd.Idx, Kind: "call", Tag: k.Tag, From: thread, Aux: fmt.Sprintf("api=%d timeout=%v", api, timeout)})
	if api < 2 {
		ns := nd.Sys.Sys.NoSender()
		run(func() (any, error) { return ns.SendSync(nd.Ctx, name, msg, timeout) },
			func() error { return ns.SendAsync(nd.Ctx, name, msg) })
	} else {
		k.API = "ReceiveContext"
		cmd := &c35Cmd{f: func(rc *actor.ReceiveContext) {
			run(func() (any, error) {
				r := rc.SendSync(name, msg, timeout)
				return r, actor.VerifRCTakeErr(rc)
			}, func() error {
				rc.SendAsync(name, msg)
				return actor.VerifRCTakeErr(rc)
			})
		}}
		if _, err := actor.Ask(nd.Ctx, caller, cmd, time.Hour); err != nil {
			if started, stopping := actor.VerifSysState(nd.Sys.Sys); st.slowReg && (!started || stopping || !caller.IsRunning()) {
				// a slow registry can make a system actor of the caller's node fail, upon
				// which the node shuts itself down (seen in C36 too): no call was made
				c.Probe("caller-node-shut-down")
				return
			}
			st.cl.Fail("c35-caller-actor-failed", "harness", "local Ask of the caller actor failed: %v (call %s)", err, k)
			return
		}
	}
	st.cl.Ev(Ev{Actor: name, Inc: nd.Idx, Kind: "ret", Tag: k.Tag, From: thread, Aux: fmt.Sprintf("elapsed=%v err=%v", k.T1-k.T0, k.Err)})
	st.calls = append(st.calls, k)
	st.check(k)
}

func c35RunWith(c *Ctx, slowReg bool) {
	n := 2 + c.W.Draw(2)
	st := &c35St{c: c, slowReg: slowReg}
	c.state = st
	c.Comp = "handoff"
	cl := startCluster(c, n, clusterOpts{Kinds: []actor.Actor{&c35Caller{}}})
	if cl == nil {
		return
	}
	st.cl = cl
	st.victim = n - 1 - c.W.Draw(n)
	vic := cl.Nodes[st.victim]
	st.deadHP = vic.RemotingAddr()

	// ---- how the victim departs and how the relocation goes
	depart := c.F.Draw(3) // 0 crash (NodeLeft at once), 1 graceful leave, 2 crash whose rebalance epoch never completes (NodeLeft after 30 s)
	reloc := c.F.Draw(3)  // 0 quick, 1 slow start of the recreated instance, 2 never (relocation disabled for the actor)
	st.mode = []string{"crash", "leave", "crash-rebalance-incomplete"}[depart] + "/" + []string{"quick", "slow-start", "never"}[reloc]
	var slowStart time.Duration
	if reloc == 1 {
		slowStart = []time.Duration{300 * time.Millisecond, 900 * time.Millisecond, 2 * time.Second, 4 * time.Second}[c.F.Draw(4)]
		c.Note("slow_start", slowStart.String())
	}
	var reg simcluster.Config
	if slowReg {
		st.mode += ",slow-registry"
		reg.SlowPerm = []int{1000, 300, 600}[c.F.Draw(3)]
		reg.SlowFor = []time.Duration{100 * time.Millisecond, 20 * time.Millisecond, 400 * time.Millisecond, 900 * time.Millisecond, 2500 * time.Millisecond}[c.F.Draw(5)]
		switch c.F.Draw(3) {
		case 1: // writes and scans only: lookups wait behind them on the cluster engine's lock
			reg.OnlyOps = map[string]bool{"put": true, "putnx": true, "delete": true, "keys": true, "incr": true, "members": true}
		case 2: // reads only
			reg.OnlyOps = map[string]bool{"get": true}
		}
	}
	c.Note("nodes", n)
	c.Note("victim", st.victim)
	c.Note("mode", st.mode)
	c.Note("registry_faults", fmt.Sprintf("%+v", reg))

	// ---- targets on the victim
	names := []string{"tgt"}
	spawn := func(name string, relocatable bool) bool {
		opts := []actor.SpawnOption{actor.WithLongLived(), actor.WithInitTimeout(6 * time.Second)}
		if !relocatable {
			opts = append(opts, actor.WithRelocationDisabled())
		}
		ok := true
		Join(cl.On(st.victim, func(nd *clusterNode) {
			if _, err := nd.Sys.Sys.Spawn(nd.Ctx, name, &ClusActor{}, opts...); err != nil {
				c.Fail("c35-setup-failed", "harness", "spawn %s on the victim: %v", name, err)
				ok = false
			}
		}))
		return ok
	}
	if !spawn("tgt", reloc != 2) {
		cl.Stop()
		return
	}
	if c.W.Draw(3) == 2 {
		names = append(names, "tgt2")
		if !spawn("tgt2", reloc == 2) { // the opposite relocatability
			cl.Stop()
			return
		}
	}
	names = append(names, "ghost") // never existed
	if slowStart > 0 {
		cl.OnActorStart = func(name string, node *clusterNode) {
			if node.Idx != st.victim && strings.HasPrefix(name, "tgt") {
				Sleep(slowStart) // the recreated instance takes a while to start
			}
		}
	}

	// ---- callers on the survivors
	var survivors []*clusterNode
	for _, nd := range cl.Nodes {
		if nd.Idx != st.victim {
			survivors = append(survivors, nd)
		}
	}
	nthreads := 2 + c.W.Draw(3)
	callers := make([]*actor.PID, nthreads)
	for t := 0; t < nthreads; t++ {
		nd := survivors[t%len(survivors)]
		t := t
		Join(cl.On(nd.Idx, func(nd *clusterNode) {
			pid, err := nd.Sys.Sys.Spawn(nd.Ctx, fmt.Sprintf("caller%d", t), &c35Caller{}, actor.WithLongLived(), actor.WithRelocationDisabled())
			if err != nil {
				c.Fail("c35-setup-failed", "harness", "spawn caller%d: %v", t, err)
				return
			}
			callers[t] = pid
		}))
		if c.Failed() {
			cl.Stop()
			return
		}
	}
	// every survivor can resolve the target before anything happens
	for _, nd := range survivors {
		Join(cl.On(nd.Idx, func(nd *clusterNode) {
			WaitUntil(5*time.Millisecond, time.Second, func() bool {
				_, err := nd.Sys.Sys.ActorOf(nd.Ctx, "tgt")
				return err == nil
			})
		}))
	}

	tc := Now() + 100*time.Millisecond // the departure instant
	st.tmark = tc
	if depart == 2 {
		st.tmark = tc + 30*time.Second
	}
	offs := []time.Duration{0, time.Millisecond, -20 * time.Millisecond, 1, 40 * time.Millisecond, 300 * time.Millisecond, time.Second, 2 * time.Second,
		2500 * time.Millisecond, 2900 * time.Millisecond, c35Window - 1, c35Window, c35Window + 1, c35Window + 100*time.Millisecond, c35Window + 300*time.Millisecond, 4 * time.Second, 6 * time.Second}
	touts := []time.Duration{time.Second, time.Millisecond, 10 * time.Millisecond, 50*time.Millisecond - 1, 50 * time.Millisecond, 50*time.Millisecond + 1,
		100 * time.Millisecond, 150 * time.Millisecond, 150*time.Millisecond + 1, 350*time.Millisecond - 1, 350 * time.Millisecond, c35NotFound - 1, c35NotFound, c35NotFound + 1,
		650 * time.Millisecond, 2 * time.Second, c35Window - 1, c35Window, c35Window + 1, c35Window + 50*time.Millisecond, 5 * time.Second, 10 * time.Second}

	var fns []func()
	for t := 0; t < nthreads; t++ {
		t := t
		nd := survivors[t%len(survivors)]
		ncalls := 2 + c.W.Draw(3)
		fns = append(fns, cl.On(nd.Idx, func(nd *clusterNode) {
			for k := 0; k < ncalls && !cl.Failed(); k++ {
				at := st.tmark + offs[c.W.Draw(len(offs))]
				if d := at - Now(); d > 0 {
					Sleep(d)
				}
				api := c.W.Draw(4)
				name := names[0]
				if c.W.Draw(4) == 3 {
					name = names[1+c.W.Draw(len(names)-1)]
				}
				var timeout time.Duration
				if td := c.W.Draw(len(touts) + 3); td < len(touts) {
					timeout = touts[td]
				} else {
					// a timeout that ends exactly where this node's handoff window closes (−1 ns, 0, +1 ns)
					timeout = st.tmark + c35Window - Now() + time.Duration(td-len(touts)-1)
					if timeout < time.Millisecond {
						timeout = 3*time.Millisecond + time.Duration(td-len(touts)-1)
					}
				}
				st.doCall(nd, callers[t], t, api, name, timeout)
			}
		}))
	}
	// the departure
	fns = append(fns, func() {
		if d := tc - Now(); d > 0 {
			Sleep(d)
		}
		if reg.SlowPerm > 0 {
			cl.RegistryFaults(reg)
		}
		switch depart {
		case 0:
			cl.Crash(st.victim, true)
		case 1:
			c.Fault("victim-leaves")
			Join(cl.On(st.victim, func(*clusterNode) { _ = cl.Leave(st.victim) }))
		case 2:
			cl.Crash(st.victim, false)
		}
	})
	Join(fns...)
	cl.RegistryFaultsOff()
	Sleep(time.Second)
	for _, name := range names[:len(names)-1] {
		total, _ := cl.runningTotal(name, func(nd *clusterNode) bool { return nd.Idx == st.victim })
		if total > 0 {
			c.Probe("relocated-by-end:" + name)
		} else {
			c.Probe("not-relocated-by-end:" + name)
		}
	}
	if os.Getenv("VERIF_C35_DEBUG") != "" {
		var b strings.Builder
		for _, k := range st.calls {
			b.WriteString(k.String())
			b.WriteString("\n")
		}
		c.Note("calls", b.String())
		c.Note("log", cl.Tail(120))
	}
	cl.Stop()
}

func c35Run(c *Ctx)           { c35RunWith(c, false) }
func c35RunSlowRegistry(c *Ctx) { c35RunWith(c, true) }

func init() {
	Register(&Scenario{Prop: "C35", Name: "handoff-deadlines", Quick: 600, Thorough: 60000,
		EstSteps: 40000, MaxSteps: 8000000, MaxIdle: time.Hour, Real: clusReal, Stub: clusStub,
		Run: c35Run, Finish: clusterFinish})
	Register(&Scenario{Prop: "C35", Name: "handoff-slow-registry", Quick: 150, Thorough: 15000,
		EstSteps: 40000, MaxSteps: 8000000, MaxIdle: time.Hour, Real: clusReal, Stub: clusStub,
		Run: c35RunSlowRegistry, Finish: clusterFinish})
}

package scen

// C48 — the TTL map of internal/xsync behaves like a map with per-key expiry
// (engine F: the real xsync.TTLMap[string,int] on the fake clock, no actor
// system).
//
// Reference model, written from the property statement and the doc comments of
// ttlmap.go: a key maps to (value, time of its last Set); it is visible to Get
// exactly while now − setAt < ttl and no later Delete/Reset intervened. "Less
// than the TTL ago" is what the statement says and what NewTTLMap documents for
// the boundary ("a non-positive ttl yields a map whose entries expire
// immediately": elapsed == ttl is already expired), so the exact expiry instant
// is demanded to be absent. Len is documented as "entries currently retained,
// including any that have expired but not yet been evicted": only the bounds
// live ≤ Len ≤ retained are demanded, where retained drops a key on Delete,
// Reset and on the documented lazy removals (Get / ActiveLen / Active of an
// expired key). ActiveLen / Active are documented as the exact live count.

import (
	"fmt"
	"sort"
	"strings"
	"time"

	"github.com/anishathalye/porcupine"

	"github.com/tochemey/goakt/v4/zzverif/simglue"
)

const (
	ttlSet = iota
	ttlGet
	ttlDelete
	ttlReset
	ttlLen
	ttlActiveLen
	ttlActive
)

var ttlOpNames = []string{"Set", "Get", "Delete", "Reset", "Len", "ActiveLen", "Active"}

type ttlIn struct {
	Op  int
	K   string
	V   int
	Now int64 // fake clock (ns since the start of the run) at which the operation ran
}

type ttlOut struct {
	V  int
	Ok bool
	N  int
}

type ttlEnt struct {
	K  string
	V  int
	At int64
}

// ttlModel is the reference map-with-expiry. ents is kept sorted by key.
type ttlModel struct {
	ttl  int64
	ents []ttlEnt
}

func (m *ttlModel) find(k string) int {
	for i := range m.ents {
		if m.ents[i].K == k {
			return i
		}
	}
	return -1
}

func (m *ttlModel) live(e ttlEnt, now int64) bool { return now-e.At < m.ttl }

func (m *ttlModel) liveCount(now int64) int {
	n := 0
	for _, e := range m.ents {
		if m.live(e, now) {
			n++
		}
	}
	return n
}

func (m *ttlModel) dropExpired(now int64) {
	out := m.ents[:0]
	for _, e := range m.ents {
		if m.live(e, now) {
			out = append(out, e)
		}
	}
	m.ents = out
}

// relaxations used only to name a failure (never to accept one)
const (
	ttlStrict = iota
	ttlAllowLost
	ttlAllowRevived
	ttlAllowCounts
)

// step applies one operation; class is "" when the output is what the model demands.
func (m *ttlModel) step(in ttlIn, out ttlOut, relax int) (class, why string) {
	switch in.Op {
	case ttlSet:
		if i := m.find(in.K); i >= 0 {
			m.ents[i].V, m.ents[i].At = in.V, in.Now
		} else {
			m.ents = append(m.ents, ttlEnt{in.K, in.V, in.Now})
			sort.Slice(m.ents, func(a, b int) bool { return m.ents[a].K < m.ents[b].K })
		}
	case ttlGet:
		i := m.find(in.K)
		switch {
		case i >= 0 && m.live(m.ents[i], in.Now):
			e := m.ents[i]
			if !out.Ok {
				if relax == ttlAllowLost {
					return "", ""
				}
				return "live-entry-lost", fmt.Sprintf("Get(%s) at t=%d reported absent although Set(%s,%d) happened at t=%d, %dns ago (ttl %dns), with no Delete/Reset since", in.K, in.Now, e.K, e.V, e.At, in.Now-e.At, m.ttl)
			}
			if out.V != e.V {
				return "stale-value", fmt.Sprintf("Get(%s) at t=%d returned %d, the last Set stored %d at t=%d", in.K, in.Now, out.V, e.V, e.At)
			}
		default:
			if out.Ok {
				if relax == ttlAllowRevived {
					return "", ""
				}
				if i >= 0 {
					e := m.ents[i]
					return "expired-entry-visible", fmt.Sprintf("Get(%s) at t=%d returned %d although its last Set happened at t=%d, %dns ago (ttl %dns)", in.K, in.Now, out.V, e.At, in.Now-e.At, m.ttl)
				}
				return "removed-entry-visible", fmt.Sprintf("Get(%s) at t=%d returned %d although the key was deleted, reset or evicted as expired and not set since", in.K, in.Now, out.V)
			}
			if out.V != 0 {
				return "stale-value", fmt.Sprintf("Get(%s) reported absent but returned the non-zero value %d", in.K, out.V)
			}
			if i >= 0 {
				m.ents = append(m.ents[:i], m.ents[i+1:]...) // documented lazy removal
			}
		}
	case ttlDelete:
		if i := m.find(in.K); i >= 0 {
			m.ents = append(m.ents[:i], m.ents[i+1:]...)
		}
	case ttlReset:
		m.ents = m.ents[:0]
	case ttlLen:
		lo, hi := m.liveCount(in.Now), len(m.ents)
		if (out.N < lo || out.N > hi) && relax != ttlAllowCounts {
			return "len-out-of-bounds", fmt.Sprintf("Len() at t=%d returned %d; %d entries are live and at most %d can still be retained", in.Now, out.N, lo, hi)
		}
	case ttlActiveLen:
		if n := m.liveCount(in.Now); out.N != n && relax != ttlAllowCounts {
			return "activelen-mismatch", fmt.Sprintf("ActiveLen() at t=%d returned %d, %d entries are live", in.Now, out.N, n)
		}
		m.dropExpired(in.Now)
	case ttlActive:
		if n := m.liveCount(in.Now); out.Ok != (n > 0) && relax != ttlAllowCounts {
			return "activelen-mismatch", fmt.Sprintf("Active() at t=%d returned %v, %d entries are live", in.Now, out.Ok, n)
		}
		m.dropExpired(in.Now)
	}
	return "", ""
}

func (m *ttlModel) encode() string {
	var sb strings.Builder
	for _, e := range m.ents {
		fmt.Fprintf(&sb, "%s,%d,%d;", e.K, e.V, e.At)
	}
	return sb.String()
}

func ttlDecode(ttl int64, s string) *ttlModel {
	m := &ttlModel{ttl: ttl}
	for _, f := range strings.Split(s, ";") {
		if f == "" {
			continue
		}
		var e ttlEnt
		p := strings.Split(f, ",")
		e.K = p[0]
		fmt.Sscan(p[1], &e.V)
		fmt.Sscan(p[2], &e.At)
		m.ents = append(m.ents, e)
	}
	return m
}

func ttlPorcupine(ttl int64, relax int) porcupine.Model {
	return porcupine.Model{
		Init: func() any { return "" },
		Step: func(st, in, out any) (bool, any) {
			m := ttlDecode(ttl, st.(string))
			class, _ := m.step(in.(ttlIn), out.(ttlOut), relax)
			return class == "", m.encode()
		},
		DescribeOperation: func(in, out any) string { return ttlDescribe(in.(ttlIn), out.(ttlOut)) },
	}
}

func ttlDescribe(i ttlIn, o ttlOut) string {
	switch i.Op {
	case ttlSet:
		return fmt.Sprintf("t=%d Set(%s,%d)", i.Now, i.K, i.V)
	case ttlGet:
		if o.Ok {
			return fmt.Sprintf("t=%d Get(%s)=%d", i.Now, i.K, o.V)
		}
		return fmt.Sprintf("t=%d Get(%s)=absent", i.Now, i.K)
	case ttlDelete:
		return fmt.Sprintf("t=%d Delete(%s)", i.Now, i.K)
	case ttlReset:
		return fmt.Sprintf("t=%d Reset", i.Now)
	case ttlActive:
		return fmt.Sprintf("t=%d Active=%v", i.Now, o.Ok)
	}
	return fmt.Sprintf("t=%d %s=%d", i.Now, ttlOpNames[i.Op], o.N)
}

// ttlApply runs one operation on the real map.
func ttlApply(m *simglue.TTLMap, in ttlIn) (out ttlOut) {
	switch in.Op {
	case ttlSet:
		m.Set(in.K, in.V)
	case ttlGet:
		out.V, out.Ok = m.Get(in.K)
	case ttlDelete:
		m.Delete(in.K)
	case ttlReset:
		m.Reset()
	case ttlLen:
		out.N = m.Len()
	case ttlActiveLen:
		out.N = m.ActiveLen()
	case ttlActive:
		out.Ok = m.Active()
	}
	return out
}

var ttlTTLs = []time.Duration{10 * time.Millisecond, time.Millisecond, 50 * time.Millisecond, time.Second, 7 * time.Nanosecond}

func ttlDrawTTL(c *Ctx) time.Duration {
	if c.W.Draw(24) == 23 {
		c.Probe("non-positive-ttl")
		return []time.Duration{0, -time.Millisecond}[c.W.Draw(2)]
	}
	return ttlTTLs[c.W.Draw(len(ttlTTLs))]
}

// ttlDrawOp draws an operation kind: 0 (the simplest choice) is Get.
func ttlDrawOp(c *Ctx) int {
	switch x := c.W.Draw(32); {
	case x < 7:
		return ttlGet
	case x < 21:
		return ttlSet
	case x < 24:
		return ttlDelete
	case x < 25:
		return ttlReset
	case x < 28:
		return ttlLen
	case x < 31:
		return ttlActiveLen
	}
	return ttlActive
}

// ---- sequential histories

func c48SeqRun(c *Ctx) {
	ttl := ttlDrawTTL(c)
	nkeys := 2 + c.W.Draw(15)
	nops := 20 + c.W.Draw(160)
	fresh := c.W.Draw(3) == 2 // write-once style: keys are mostly taken in sequence (what the map is optimised for)
	c.Note("ttl", ttl.String())
	c.Note("keys", nkeys)
	c.Note("ops", nops)
	c.Comp = "TTLMap/sequential"
	m := simglue.NewTTLMap(ttl)
	model := &ttlModel{ttl: int64(ttl)}
	var hist []string
	nextKey, val := 0, 0
	tail := func() string {
		h := hist
		if len(h) > 40 {
			h = h[len(h)-40:]
		}
		return strings.Join(h, " ")
	}
	for n := 0; n < nops && !c.Failed(); n++ {
		if c.W.Draw(6) == 5 {
			// clock advance on a grid that contains the expiry instants
			var d time.Duration
			now := int64(Now())
			switch c.W.Draw(8) {
			case 0:
				d = ttl / 4
			case 1, 2, 3:
				// to the expiry instant of a live entry: −1 ns, 0, +1 ns
				var live []ttlEnt
				for _, e := range model.ents {
					if model.live(e, now) {
						live = append(live, e)
					}
				}
				if len(live) > 0 {
					e := live[c.W.Draw(len(live))]
					d = time.Duration(e.At + int64(ttl) - now + int64(c.W.Draw(3)) - 1)
					c.Fault("clock-to-expiry-instant")
				}
			case 4:
				d = ttl
			case 5:
				d = ttl - 1
			case 6:
				d = ttl + 1
			case 7:
				d = 3 * ttl
			}
			if d <= 0 {
				d = time.Nanosecond
			}
			Sleep(d)
			hist = append(hist, fmt.Sprintf("+%v", d))
			continue
		}
		in := ttlIn{Op: ttlDrawOp(c)}
		switch in.Op {
		case ttlSet, ttlGet, ttlDelete:
			k := c.W.Draw(nkeys)
			if fresh && in.Op == ttlSet && c.W.Draw(4) != 0 {
				k = nextKey % nkeys
				nextKey++
			}
			in.K = fmt.Sprintf("k%02d", k)
			if in.Op == ttlSet {
				val++
				in.V = val
			}
		}
		in.Now = int64(Now())
		h0, o0, i0 := m.Shape()
		out := ttlApply(m, in)
		c.Ops++
		if in.Op == ttlSet {
			h1, o1, _ := m.Shape()
			if h1 > h0 {
				c.Probe("evict")
			}
			if h1 == 0 && o1 <= o0 && (h0 > 0 || o1 < o0) {
				c.Probe("compact")
				if o0-h0 > i0 {
					c.Probe("compact-with-holes")
				}
			}
		}
		if in.Op == ttlGet {
			if i := model.find(in.K); i >= 0 {
				switch in.Now - model.ents[i].At - model.ttl {
				case -1:
					c.Probe("get-1ns-before-expiry")
				case 0:
					c.Probe("get-at-expiry-instant")
				case 1:
					c.Probe("get-1ns-after-expiry")
				}
			}
		}
		hist = append(hist, ttlDescribe(in, out))
		if class, why := model.step(in, out, ttlStrict); class != "" {
			c.Fail(class, "TTLMap/sequential", "%s; ttl=%v; history tail: %s", why, ttl, tail())
		}
	}
}

// ---- concurrent clients, checked with porcupine

type c48Step struct {
	sleep time.Duration
	in    ttlIn
}

type c48State struct {
	ttl  time.Duration
	hist []porcupine.Operation
}

func c48LinRun(c *Ctx) {
	ttl := ttlDrawTTL(c)
	ncl := 2 + c.W.Draw(2)
	nkeys := 1 + c.W.Draw(5)
	c.Note("ttl", ttl.String())
	c.Note("clients", ncl)
	c.Note("keys", nkeys)
	c.Comp = "TTLMap/concurrent"
	grid := []time.Duration{0, 0, 0, time.Nanosecond, ttl / 2, ttl - 1, ttl, ttl + 1, ttl - ttl/2}
	scripts := make([][]c48Step, ncl)
	val := 0
	for cl := range scripts {
		n := 3 + c.W.Draw(12)
		for k := 0; k < n; k++ {
			st := c48Step{sleep: grid[c.W.Draw(len(grid))], in: ttlIn{Op: ttlDrawOp(c)}}
			if st.sleep < 0 {
				st.sleep = 0
			}
			switch st.in.Op {
			case ttlSet, ttlGet, ttlDelete:
				st.in.K = fmt.Sprintf("k%d", c.W.Draw(nkeys))
				if st.in.Op == ttlSet {
					val++
					st.in.V = val
				}
			}
			scripts[cl] = append(scripts[cl], st)
		}
	}
	m := simglue.NewTTLMap(ttl)
	st := &c48State{ttl: ttl}
	var fns []func()
	for cl := range scripts {
		fns = append(fns, func() {
			for _, s := range scripts[cl] {
				if s.sleep > 0 {
					Sleep(s.sleep)
				}
				in := s.in
				in.Now = int64(Now())
				call := c.Stamp()
				out := ttlApply(m, in)
				ret := c.Stamp()
				c.Ops++
				if after := int64(Now()); after != in.Now {
					c.Fail("clock-moved-inside-operation", "TTLMap/concurrent", "harness assumption broken: %s started at t=%d and returned at t=%d", ttlOpNames[in.Op], in.Now, after)
				}
				st.hist = append(st.hist, porcupine.Operation{ClientId: cl, Input: in, Call: call, Output: out, Return: ret})
			}
		})
	}
	Join(fns...)
	c.state = st
}

func c48LinFinish(c *Ctx) {
	st, _ := c.state.(*c48State)
	if st == nil {
		return
	}
	chk := func(relax int) (res porcupine.CheckResult) {
		OffBubble(func() {
			res = porcupine.CheckOperationsTimeout(ttlPorcupine(int64(st.ttl), relax), st.hist, 5*time.Second)
		})
		return res
	}
	switch chk(ttlStrict) {
	case porcupine.Ok:
		return
	case porcupine.Unknown:
		c.Probe("porcupine-unknown")
		return
	}
	class := "not-linearizable"
	for _, r := range []struct {
		relax int
		class string
	}{{ttlAllowLost, "live-entry-lost"}, {ttlAllowRevived, "expired-entry-visible"}, {ttlAllowCounts, "count-mismatch"}} {
		if chk(r.relax) == porcupine.Ok {
			class = r.class
			break
		}
	}
	var sb strings.Builder
	for _, op := range st.hist {
		fmt.Fprintf(&sb, "c%d:%s[%d-%d] ", op.ClientId, ttlDescribe(op.Input.(ttlIn), op.Output.(ttlOut)), op.Call, op.Return)
	}
	c.Fail(class, "TTLMap/concurrent", "no linearization of the concurrent history against the map-with-expiry model (ttl %v); history: %s", st.ttl, sb.String())
}

var (
	c48Real = []string{"internal/xsync.TTLMap[string,int]: Set, Get, Delete, Reset, Len, ActiveLen, Active, evict, maybeCompact (fast and filtering path)"}
	c48Stub = []string{"wall clock: fake (synctest bubble); no actor system: clients are harness threads calling the map directly"}
)

func init() {
	Register(&Scenario{
		Prop: "C48", Name: "ttlmap-seq", Quick: 6000, Thorough: 400000, EstSteps: 300, MaxSteps: 100000, MaxIdle: time.Hour,
		Real: c48Real, Stub: c48Stub, Run: c48SeqRun,
	})
	Register(&Scenario{
		Prop: "C48", Name: "ttlmap-lin", Quick: 6000, Thorough: 400000, EstSteps: 200, MaxSteps: 100000, MaxIdle: time.Hour,
		Real: c48Real, Stub: c48Stub, Run: c48LinRun, Finish: c48LinFinish,
	})
}

package scen

import (
	"bufio"
	"encoding/json"
	"fmt"
	"math/rand/v2"
	"os"
	"runtime"
	"strconv"
	"strings"
	"sync"
	"testing"
	"testing/synctest"
	"time"

	"github.com/google/uuid"

	"github.com/tochemey/goakt/v4/actor"
	"github.com/tochemey/goakt/v4/zzverif/simrt"
)

var out = bufio.NewWriter(os.Stdout)

func emit(kind string, v any) {
	b, _ := json.Marshal(v)
	fmt.Fprintf(out, "%s %s\n", kind, b)
	out.Flush()
}

type rngReader struct {
	mu sync.Mutex
	r  *rand.Rand
}

func (r *rngReader) Read(p []byte) (int, error) {
	r.mu.Lock()
	defer r.mu.Unlock()
	for i := range p {
		p[i] = byte(r.r.Uint32())
	}
	return len(p), nil
}

func find(prop, name string) []*Scenario {
	var l []*Scenario
	for _, s := range registry {
		if s.Prop == prop && (name == "" || s.Name == name) {
			l = append(l, s)
		}
	}
	return l
}

// runOne executes one simulated run in its own bubble and reports it.
func runOne(t *testing.T, sc *Scenario, seed uint64, variant, tier string, rep *Replay, wantTapes bool) (res RunResult) {
	res = RunResult{Prop: sc.Prop, Scen: sc.Name, Variant: variant, Seed: seed}
	t0 := time.Now()
	emitted := false
	wd := time.AfterFunc(watchdog(), func() {
		buf := make([]byte, 1<<20)
		n := runtime.Stack(buf, true)
		f := fmt.Sprintf("%s/watchdog-%s-%s-%d.txt", os.TempDir(), sc.Prop, sc.Name, seed)
		_ = os.WriteFile(f, buf[:n], 0o644)
		if !emitted {
			res.Harness = "watchdog: run exceeded the wall-clock limit; goroutine dump in " + f
			emit("R", &res)
		}
		emit("X", map[string]any{"reason": "watchdog", "seed": seed})
		os.Exit(0)
	})
	defer wd.Stop()
	func() {
		defer func() {
			if r := recover(); r != nil {
				if s := fmt.Sprint(r); !strings.HasPrefix(s, "deadlock") {
					if !emitted {
						res.Harness = "panic: " + s
						res.Dirty = true
						emit("R", &res)
						emitted = true
					}
				}
			}
		}()
		synctest.Test(t, func(t *testing.T) {
			c := &Ctx{Seed: seed, Variant: variant, Tier: tier, Faults: map[string]int{}, Probes: map[string]int{}, Sample: map[string]any{}}
			cfg := simrt.Config{Seed: seed, MaxSteps: sc.MaxSteps, EstSteps: sc.EstSteps, Stalls: -1, PoolPolicy: -1, MaxIdle: sc.MaxIdle}
			if rep != nil {
				c.W = simrt.NewTape(seed, 0x3001, rep.Work, true)
				c.F = simrt.NewTape(seed, 0x3002, rep.Fault, true)
				cfg.Replay, cfg.IsReplay, cfg.Strategy = rep.Sched, true, rep.Strategy
			} else {
				c.W = simrt.NewTape(seed, 0x3001, nil, false)
				c.F = simrt.NewTape(seed, 0x3002, nil, false)
			}
			if sc.OnStep != nil {
				cfg.OnStep = func(int) error {
					sc.OnStep(c)
					if c.Viol != nil {
						return fmt.Errorf("violation")
					}
					return nil
				}
			}
			if sc.OnIdle != nil {
				cfg.OnIdle = func() error {
					sc.OnIdle(c)
					if c.Viol != nil {
						return fmt.Errorf("violation")
					}
					return nil
				}
			}
			uuid.SetRand(&rngReader{r: rand.New(rand.NewPCG(seed, 0x1d))})
			traceClose := func() {}
			if dir := os.Getenv("VERIF_TRACE_DIR"); dir != "" && simrt.TraceHook == nil {
				// determinism hunts: one "step thread@site" line per scheduler step
				if f, err := os.Create(fmt.Sprintf("%s/%s-%d-%d.trace", dir, sc.Name, seed, os.Getpid())); err == nil {
					w := bufio.NewWriter(f)
					simrt.TraceHook = func(step int, th string, site int32) { fmt.Fprintf(w, "%d %s@%d\n", step, th, site) }
					traceClose = func() { simrt.TraceHook = nil; w.Flush(); f.Close() }
				}
			}
			sim := simrt.Run(cfg, func() { sc.Run(c) })
			traceClose()
			uuid.SetRand(nil)
			c.Sim = sim
			aborted := sim.Err != nil
			if len(sim.ThreadPanics) > 0 {
				detail := sim.ThreadPanics[0]
				if len(detail) > 1500 {
					detail = detail[:1500]
				}
				if sc.PanicClass != "" {
					comp := c.Comp
					if comp == "" {
						comp = "goroutine"
					}
					if c.Viol == nil {
						c.Fail(sc.PanicClass, comp, "a goroutine of the system under test panicked (it would crash the process): %s", detail)
					}
				} else if res.Harness == "" {
					res.Harness = "unrecovered panic in a controlled goroutine: " + detail
				}
				aborted = true
			}
			if sim.Stuck || sim.StepCap {
				if c.Viol == nil {
					if sc.StuckClass != "" {
						comp := c.Comp
						if comp == "" {
							comp = sc.Name
						}
						c.Fail(sc.StuckClass, comp, "%v", sim.Err)
					} else {
						res.Harness = sim.Err.Error()
					}
				}
			}
			if !aborted && c.Viol == nil && sc.Finish != nil {
				sc.Finish(c)
			}
			res.Strategy = sim.Strategy
			res.Steps, res.SimNs, res.Switches = sim.Steps, int64(sim.SimTime), sim.Stats["switches"]
			res.SchedHash = fmt.Sprintf("%016x", sim.Hash())
			res.WorkHash, res.FaultHash = hashU32(c.W.Rec), hashU32(c.F.Rec)
			res.Ops = c.Ops
			for k, v := range sim.Stats {
				if strings.HasPrefix(k, "fault:") {
					c.Faults[strings.TrimPrefix(k, "fault:")] += v
				}
			}
			res.Faults, res.Probes, res.Stats, res.Viol, res.Sample = c.Faults, c.Probes, sim.Stats, c.Viol, c.Sample
			res.Dirty = aborted
			if c.Viol != nil || wantTapes {
				res.Work, res.Fault, res.Sched = c.W.Rec, c.F.Rec, sim.Sched
			}
			res.WallUs = time.Since(t0).Microseconds()
			emit("R", &res)
			emitted = true
			if !aborted {
				actor.VerifDrainPools()
			}
		})
	}()
	simrt.ClearZombie()
	return res
}

func watchdog() time.Duration {
	if v, err := strconv.Atoi(os.Getenv("VERIF_WATCHDOG_S")); err == nil && v > 0 {
		return time.Duration(v) * time.Second
	}
	return 120 * time.Second
}

// TestWorker is the entry point the driver (cmd/vcheck) runs in worker processes.
//
//	VERIF_LIST=1                      print the scenario table
//	VERIF_PROP, VERIF_SCEN            what to run
//	VERIF_SEEDS=a,b,c | start:count:stride
//	VERIF_REPLAY=<file>               replay one recorded run
func TestWorker(t *testing.T) {
	StartOffBubble()
	if os.Getenv("VERIF_LIST") != "" {
		type row struct {
			Prop, Name         string
			Variants           []string
			Quick, Thorough    int
			Real, Stub         []string
			StuckClass         string
			EstSteps, MaxSteps int
		}
		var rows []row
		for _, s := range registry {
			rows = append(rows, row{s.Prop, s.Name, s.Variants, s.Quick, s.Thorough, s.Real, s.Stub, s.StuckClass, s.EstSteps, s.MaxSteps})
		}
		emit("L", rows)
		return
	}
	variant := os.Getenv("VERIF_VARIANT")
	tier := os.Getenv("VERIF_TIER")
	if f := os.Getenv("VERIF_REPLAY"); f != "" {
		b, err := os.ReadFile(f)
		if err != nil {
			emit("X", map[string]any{"reason": "cannot read replay: " + err.Error()})
			return
		}
		var rep Replay
		if err := json.Unmarshal(b, &rep); err != nil {
			emit("X", map[string]any{"reason": "bad replay: " + err.Error()})
			return
		}
		scs := find(rep.Property, rep.Scenario)
		if len(scs) != 1 {
			emit("X", map[string]any{"reason": "unknown scenario " + rep.Property + "/" + rep.Scenario})
			return
		}
		runOne(t, scs[0], 999999, variant, tier, nil, false) // warm-up
		emit("W", map[string]any{"warmup": true})
		runOne(t, scs[0], rep.Seed, variant, tier, &rep, os.Getenv("VERIF_TAPES") != "")
		emit("X", map[string]any{"reason": "done"})
		return
	}
	scs := find(os.Getenv("VERIF_PROP"), os.Getenv("VERIF_SCEN"))
	if len(scs) != 1 {
		emit("X", map[string]any{"reason": "scenario not found: " + os.Getenv("VERIF_PROP") + "/" + os.Getenv("VERIF_SCEN")})
		return
	}
	sc := scs[0]
	var seeds []uint64
	spec := os.Getenv("VERIF_SEEDS")
	if strings.Contains(spec, ":") {
		p := strings.Split(spec, ":")
		a, _ := strconv.ParseUint(p[0], 10, 64)
		n, _ := strconv.Atoi(p[1])
		st, _ := strconv.ParseUint(p[2], 10, 64)
		for i := 0; i < n; i++ {
			seeds = append(seeds, a+uint64(i)*st)
		}
	} else {
		for _, x := range strings.Split(spec, ",") {
			if v, err := strconv.ParseUint(strings.TrimSpace(x), 10, 64); err == nil {
				seeds = append(seeds, v)
			}
		}
	}
	deadline := time.Time{}
	if v, err := strconv.Atoi(os.Getenv("VERIF_BUDGET_S")); err == nil && v > 0 {
		deadline = time.Now().Add(time.Duration(v) * time.Second)
	}
	wu := runOne(t, sc, 999999, variant, tier, nil, false) // discarded warm-up: one-time initialisation never lands in a measured run
	_ = wu
	emit("W", map[string]any{"warmup": true})
	wantTapes := os.Getenv("VERIF_TAPES") != ""
	for i, sd := range seeds {
		if !deadline.IsZero() && time.Now().After(deadline) {
			emit("X", map[string]any{"reason": "budget", "next": i})
			return
		}
		r := runOne(t, sc, sd, variant, tier, nil, wantTapes)
		if r.Dirty {
			emit("X", map[string]any{"reason": "dirty", "next": i + 1})
			return
		}
	}
	pairs := make([]uint64, 0, len(simrt.Pairs))
	for k := range simrt.Pairs {
		pairs = append(pairs, k)
	}
	emit("P", pairs)
	emit("X", map[string]any{"reason": "done", "next": len(seeds)})
}

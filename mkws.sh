#!/bin/bash
# mkws.sh <name>: private copy of /verif for one scenario author (shares the Go build cache,
# the dependency copies and the runtime overlay of /verif; own build dir, evidence, replays).
set -e
W=/root/w/$1
[ -n "$1" ] || { echo "usage: mkws.sh <name>" >&2; exit 2; }
mkdir -p "$W"
rsync -a --delete --exclude .cache --exclude .git /verif/ "$W"/
mkdir -p "$W/.cache/build" "$W/.cache/tmp"
rsync -a /verif/.cache/bin /verif/.cache/rt "$W/.cache/"
echo "$W"
# scenario authors share the machine: fewer worker processes per check
grep -q VERIF_PAR "$W/env.sh" || echo 'export VERIF_PAR="${VERIF_PAR:-6}"' >> "$W/env.sh"

#!/bin/bash
# runall.sh [tier]: runs every registered check once, sequentially; prints one line per check. Exit 1 if any check did not exit 0.
cd "$(dirname "$0")"
TIER=${1:-quick}
rc=0
for p in $(python3 -c "import json;print(' '.join(c['property_id'] for c in json.load(open('MANIFEST.json'))['checks']))"); do
  out=$(./check $p --tier $TIER 2>&1); e=$?
  echo "$p exit=$e $(echo "$out" | grep -E "^$p $TIER:" | tail -1)"
  if [ $e -ne 0 ]; then rc=1; echo "$out" | grep -E "^violation|VIOLATION|harness error" | head -5; fi
done
exit $rc

// Package simrt is the runtime half of the deterministic scheduler: instrumented
// code calls into it before (and after) every synchronisation operation.
// Exactly one controlled goroutine runs at a time; all others are parked on
// their own resume channel. The scheduler goroutine (Run) uses synctest.Wait as
// the quiescence barrier, so the fake clock of the bubble only advances when
// nothing is runnable. Std-only on purpose: instrumented dependencies import it.
//
// Every choice comes from tapes derived from one seed: the schedule tape
// (which thread runs next), the aux PRNG (cond wake-up choice, map order, pool
// policy) and the tapes handed to the scenario (workload, faults). A recorded
// run is replayed by feeding the recorded tapes back.
package simrt

import (
	"cmp"
	"fmt"
	"math/rand/v2"
	"runtime/debug"
	"slices"
	"strings"
	"sync"
	"sync/atomic"
	"testing/synctest"
	"time"
	_ "unsafe"
)

//go:linkname simGoid runtime.simGoid
func simGoid() (goid, parent uint64)

//go:linkname simSetSelectMode runtime.simSetSelectMode
func simSetSelectMode(m uint32)

type state int32

const (
	stRunning state = iota
	stParked        // at a yield point, eligible
	stBlocked       // waiting for a sim mutex / cond / key, not eligible
	stDone
)

type thread struct {
	id      []int // deterministic path id
	idStr   string
	goid    uint64
	resume  chan struct{}
	st      state
	site    int32
	waitOn  any  // mutex / cond / key the thread is blocked on
	spin    bool // parked at a spin-wait yield (runtime.Gosched in a polling loop)
	kids    int
	adopted int
	prio    float64 // PCT priority
	frozen  int     // stall fault: not picked until step >= frozen (unless alone)
}

// SchedRun is one run-length-encoded stretch of the schedule tape.
type SchedRun struct {
	T string `json:"t"`
	N int    `json:"n"`
}

// Tape is a recorded / replayable sequence of bounded draws.
type Tape struct {
	mu     sync.Mutex
	rng    *rand.Rand
	replay []uint32
	isRep  bool
	pos    int
	Rec    []uint32
}

func NewTape(seed, stream uint64, replay []uint32, isReplay bool) *Tape {
	return &Tape{rng: rand.New(rand.NewPCG(seed, stream)), replay: replay, isRep: isReplay}
}

// Draw returns a value in [0,n). In replay mode values come from the tape
// (reduced mod n; 0 when the tape is exhausted), which is what makes shrinking
// by "make entries smaller / drop the tail" meaningful.
func (t *Tape) Draw(n int) int {
	if n <= 1 {
		return 0
	}
	t.mu.Lock()
	defer t.mu.Unlock()
	var v int
	if t.isRep {
		if t.pos < len(t.replay) {
			v = int(t.replay[t.pos]) % n
		}
		t.pos++
	} else {
		v = t.rng.IntN(n)
	}
	t.Rec = append(t.Rec, uint32(v))
	return v
}

// Bool draws true with probability num/den.
func (t *Tape) Bool(num, den int) bool { return t.Draw(den) < num }

// TraceHook, when set, is called by the scheduler goroutine for every step
// with the thread it releases and the site that thread is parked at (debugging
// aid for determinism hunts: diff the traces of two executions of one seed).
var TraceHook func(step int, thread string, site int32)

// Config of one simulated run.
type Config struct {
	Seed     uint64
	MaxSteps int
	EstSteps int    // rough step count of the scenario (PCT change points, stalls)
	Strategy string // "" = drawn from the seed; uniform|sticky50|sticky90|sticky99|pct1|pct2|pct3
	Stalls   int    // -1 = drawn from the seed
	Replay   []SchedRun
	IsReplay bool
	OnStep   func(step int) error
	OnIdle   func() error
	// PoolPolicy: 0 LIFO, 1 FIFO, 2 LIFO with PRNG drops; -1 drawn from the seed.
	PoolPolicy int
	MaxIdle    time.Duration // how long nothing may be eligible before the run is declared stuck
}

type Sim struct {
	// ThreadPanics holds the panics (value + stack) of controlled goroutines that ended by an unrecovered panic.
	ThreadPanics []string
	mu           sync.Mutex // protects everything below; never held across a park
	cfg          Config
	threads      map[uint64]*thread
	order        []*thread
	arrive       chan struct{}
	rng          *rand.Rand // aux choices
	schedRng     *rand.Rand
	Strategy     string
	rep          []SchedRun
	repPos       int
	repLeft      int
	Sched        []SchedRun
	Steps        int
	last         *thread
	runLen       int // consecutive steps given to last
	conds        map[*sync.Cond][]*thread
	keys         map[any]*thread
	pools        map[*sync.Pool][]any
	poolPolicy   int
	root         *thread
	Stats        map[string]int
	hash         uint64
	Err          error
	Stuck        bool
	StepCap      bool
	start        time.Time
	SimTime      time.Duration
	pctChange    []int
	pctLow       float64
	stallAt      []int
	stallLen     []int
	pairs        map[uint64]struct{}
	lastSite     int32
	mainDone     atomic.Bool
	recent       [48]string
	recentN      int
}

var (
	active atomic.Bool
	zombie atomic.Pointer[Sim]
	cur    *Sim
	// Pairs accumulates, per process, the distinct (site→site) context-switch pairs seen.
	Pairs = map[uint64]struct{}{}
)

func Active() bool { return active.Load() }

// Cur returns the running simulation (nil outside Run).
func Cur() *Sim {
	if !active.Load() {
		return nil
	}
	return cur
}

// Step is the global event sequence number (number of scheduling decisions so
// far); used to stamp history entries.
func Step() int {
	if !active.Load() {
		return 0
	}
	cur.mu.Lock()
	defer cur.mu.Unlock()
	return cur.Steps
}

// Now is the simulated time elapsed since the run started.
func Now() time.Duration {
	if !active.Load() {
		return 0
	}
	return time.Since(cur.start)
}

// Hash returns a running hash of the schedule (thread ids and sites).
func (s *Sim) Hash() uint64 { return s.hash }

func (s *Sim) Stat(k string, d int) {
	s.mu.Lock()
	s.Stats[k] += d
	s.mu.Unlock()
}

// Stat bumps a counter of the running simulation.
func Stat(k string) {
	if active.Load() {
		cur.Stat(k, 1)
	}
}

func (s *Sim) newThread(parent *thread, adopted bool) *thread {
	t := &thread{resume: make(chan struct{})}
	switch {
	case parent == nil:
		t.id = []int{0}
	case adopted:
		parent.adopted++
		t.id = append(slices.Clone(parent.id), 1000000+parent.adopted)
	default:
		parent.kids++
		t.id = append(slices.Clone(parent.id), parent.kids)
	}
	var b strings.Builder
	for i, v := range t.id {
		if i > 0 {
			b.WriteByte('.')
		}
		fmt.Fprint(&b, v)
	}
	t.idStr = b.String()
	t.prio = s.schedRng.Float64()
	return t
}

func (s *Sim) me() *thread {
	g, parent := simGoid()
	s.mu.Lock()
	t := s.threads[g]
	if t == nil {
		// adoption of a goroutine started by uninstrumented code
		p := s.threads[parent]
		if p == nil {
			p = s.root
		}
		t = s.newThread(p, true)
		t.goid = g
		t.st = stRunning
		s.threads[g] = t
		s.order = append(s.order, t)
		s.Stats["adopted"]++
	}
	s.mu.Unlock()
	return t
}

// ThreadID returns the deterministic id of the calling controlled thread.
func ThreadID() string {
	if !active.Load() {
		return ""
	}
	return cur.me().idStr
}

func (s *Sim) park(t *thread, st state, site int32, on any) {
	s.mu.Lock()
	t.st = st
	t.site = site
	t.waitOn = on
	s.mu.Unlock()
	select {
	case s.arrive <- struct{}{}:
	default:
	}
	<-t.resume
}

// Yield is a scheduling point.
func Yield(site int32) {
	if !active.Load() {
		zombieCheck()
		return
	}
	s := cur
	s.park(s.me(), stParked, site, nil)
}

// zombieCheck parks a goroutine of a finished run for good.
func zombieCheck() {
	z := zombie.Load()
	if z == nil {
		return
	}
	g, parent := simGoid()
	z.mu.Lock()
	_, mine := z.threads[g]
	if !mine {
		_, mine = z.threads[parent]
		if mine {
			z.threads[g] = z.root
		}
	}
	z.mu.Unlock()
	if mine {
		select {}
	}
}

// ClearZombie forgets the finished run (call once its bubble is gone).
func ClearZombie() { zombie.Store(nil) }

// SpinYield is the replacement of runtime.Gosched inside polling loops: the
// thread stays eligible, but when only spinning threads are eligible the
// scheduler lets the fake clock advance, as real time would.
func SpinYield(site int32) {
	if !active.Load() {
		zombieCheck()
		return
	}
	s := cur
	t := s.me()
	s.mu.Lock()
	t.spin = true
	s.mu.Unlock()
	s.park(t, stParked, site, nil)
	s.mu.Lock()
	t.spin = false
	s.mu.Unlock()
}

// Pre yields and returns v; used to put a scheduling point immediately
// before a synchronisation operation without restructuring statements.
func Pre[T any](site int32, v T) T {
	if active.Load() {
		Yield(site)
	}
	return v
}

func (s *Sim) startThread(t *thread, site int32, f func()) {
	g, _ := simGoid()
	s.mu.Lock()
	t.goid = g
	s.threads[g] = t
	s.order = append(s.order, t)
	s.mu.Unlock()
	s.park(t, stParked, site, nil)
	defer func() {
		// A panic in a controlled goroutine that nobody recovers would take the whole
		// worker process down (as it would the real process). It is recorded instead,
		// so that the run can report it - as a violation where the property says
		// "never panics", as a harness error elsewhere - and the batch goes on.
		if r := recover(); r != nil {
			s.mu.Lock()
			s.ThreadPanics = append(s.ThreadPanics, fmt.Sprintf("%v\n%s", r, debug.Stack()))
			s.mu.Unlock()
		}
		s.mu.Lock()
		t.st = stDone
		delete(s.threads, g)
		s.mu.Unlock()
		select {
		case s.arrive <- struct{}{}:
		default:
		}
	}()
	f()
}

// Go starts f as a controlled thread.
func Go(site int32, f func()) {
	if !active.Load() {
		go f()
		return
	}
	s := cur
	p := s.me()
	s.mu.Lock()
	t := s.newThread(p, false)
	s.mu.Unlock()
	go s.startThread(t, site, f)
}

func (s *Sim) wake(on any) {
	s.mu.Lock()
	for _, t := range s.order {
		if t.st == stBlocked && t.waitOn == on {
			t.st = stParked
			t.waitOn = nil
		}
	}
	s.mu.Unlock()
}

func lockLoop(site int32, key any, try func() bool) {
	s := cur
	t := s.me()
	s.park(t, stParked, site, nil)
	for !try() {
		s.Stat("lock-contended", 1)
		s.park(t, stBlocked, site, key)
	}
}

func Lock(site int32, mu *sync.Mutex) {
	if !active.Load() {
		mu.Lock()
		return
	}
	lockLoop(site, mu, mu.TryLock)
}

func Unlock(mu *sync.Mutex) {
	mu.Unlock()
	if active.Load() {
		cur.wake(mu)
	}
}

func TryLock(site int32, mu *sync.Mutex) bool {
	Yield(site)
	return mu.TryLock()
}

func LockRW(site int32, mu *sync.RWMutex) {
	if !active.Load() {
		mu.Lock()
		return
	}
	lockLoop(site, mu, mu.TryLock)
}

func UnlockRW(mu *sync.RWMutex) {
	mu.Unlock()
	if active.Load() {
		cur.wake(mu)
	}
}

func RLockRW(site int32, mu *sync.RWMutex) {
	if !active.Load() {
		mu.RLock()
		return
	}
	lockLoop(site, mu, mu.TryRLock)
}

func RUnlockRW(mu *sync.RWMutex) {
	mu.RUnlock()
	if active.Load() {
		cur.wake(mu)
	}
}

func TryLockRW(site int32, mu *sync.RWMutex) bool  { Yield(site); return mu.TryLock() }
func TryRLockRW(site int32, mu *sync.RWMutex) bool { Yield(site); return mu.TryRLock() }

// LockLocker handles sync.Locker values (cond.L).
func LockLocker(site int32, l sync.Locker) {
	switch m := l.(type) {
	case *sync.Mutex:
		Lock(site, m)
	case *sync.RWMutex:
		LockRW(site, m)
	default:
		l.Lock()
	}
}

func UnlockLocker(l sync.Locker) {
	switch m := l.(type) {
	case *sync.Mutex:
		Unlock(m)
	case *sync.RWMutex:
		UnlockRW(m)
	default:
		l.Unlock()
	}
}

// CondWait replaces (*sync.Cond).Wait.
func CondWait(site int32, c *sync.Cond) {
	if !active.Load() {
		c.Wait()
		return
	}
	s := cur
	t := s.me()
	s.mu.Lock()
	s.conds[c] = append(s.conds[c], t)
	s.mu.Unlock()
	UnlockLocker(c.L)
	s.park(t, stBlocked, site, c)
	LockLocker(site, c.L)
}

func CondSignal(c *sync.Cond) {
	if !active.Load() {
		c.Signal()
		return
	}
	s := cur
	s.mu.Lock()
	if w := s.conds[c]; len(w) > 0 {
		i := 0
		if len(w) > 1 {
			i = s.rng.IntN(len(w))
		}
		t := w[i]
		s.conds[c] = slices.Delete(w, i, i+1)
		t.st = stParked
		t.waitOn = nil
	}
	s.mu.Unlock()
}

func CondBroadcast(c *sync.Cond) {
	if !active.Load() {
		c.Broadcast()
		return
	}
	s := cur
	s.mu.Lock()
	for _, t := range s.conds[c] {
		t.st = stParked
		t.waitOn = nil
	}
	delete(s.conds, c)
	s.mu.Unlock()
}

// keyed sim-level lock used around uninstrumented critical sections that
// call back into instrumented code (sync.Once).
func lockKey(site int32, key any) {
	s := cur
	t := s.me()
	s.park(t, stParked, site, nil)
	for {
		s.mu.Lock()
		if s.keys[key] == nil {
			s.keys[key] = t
			s.mu.Unlock()
			return
		}
		s.mu.Unlock()
		s.park(t, stBlocked, site, key)
	}
}

func unlockKey(key any) {
	s := cur
	s.mu.Lock()
	delete(s.keys, key)
	s.mu.Unlock()
	s.wake(key)
}

func OnceDo(site int32, o *sync.Once, f func()) {
	if !active.Load() {
		o.Do(f)
		return
	}
	lockKey(site, o)
	defer unlockKey(o)
	o.Do(f)
}

func WgWait(site int32, wg *sync.WaitGroup) {
	Yield(site)
	wg.Wait()
	Yield(site) // re-enter scheduler control after a real block
}

func WgGo(site int32, wg *sync.WaitGroup, f func()) {
	wg.Add(1)
	Go(site, func() {
		defer wg.Done()
		f()
	})
}

func Sleep(site int32, d time.Duration) {
	Yield(site)
	time.Sleep(d)
	Yield(site) // several sleepers may wake at the same fake instant
}

// Block runs a durably blocking operation with a scheduling point on both sides.
func Block(site int32, f func()) {
	Yield(site)
	f()
	Yield(site)
}

func AfterFunc(site int32, d time.Duration, f func()) *time.Timer {
	if !active.Load() {
		return time.AfterFunc(d, f)
	}
	s := cur
	p := s.me()
	s.mu.Lock()
	t := s.newThread(p, false)
	s.mu.Unlock()
	return time.AfterFunc(d, func() {
		if !active.Load() || cur != s {
			f()
			return
		}
		s.startThread(t, site, f)
	})
}

func Recv[T any](site int32, ch <-chan T) T {
	Yield(site)
	v := <-ch
	Yield(site)
	return v
}

func Recv2[T any](site int32, ch <-chan T) (T, bool) {
	Yield(site)
	v, ok := <-ch
	Yield(site)
	return v, ok
}

// MapKeys returns the keys of m sorted and then permuted by the run's PRNG.
func MapKeys[M ~map[K]V, K cmp.Ordered, V any](m M) []K {
	keys := make([]K, 0, len(m))
	for k := range m {
		keys = append(keys, k)
	}
	if !active.Load() {
		return keys
	}
	slices.Sort(keys)
	s := cur
	s.mu.Lock()
	s.rng.Shuffle(len(keys), func(i, j int) { keys[i], keys[j] = keys[j], keys[i] })
	s.mu.Unlock()
	return keys
}

// MapKeysAny is MapKeys for key types without a native order: keys are sorted
// by kind-specific comparison where possible, else by their printed form.
func MapKeysAny[M ~map[K]V, K comparable, V any](m M) []K {
	keys := make([]K, 0, len(m))
	for k := range m {
		keys = append(keys, k)
	}
	if !active.Load() || len(keys) < 2 {
		return keys
	}
	type sk struct {
		s string
		k K
	}
	tmp := make([]sk, len(keys))
	for i, k := range keys {
		switch v := any(k).(type) {
		case string:
			tmp[i] = sk{v, k}
		case fmt.Stringer:
			tmp[i] = sk{v.String(), k}
		default:
			tmp[i] = sk{fmt.Sprintf("%020v", v), k}
		}
	}
	slices.SortFunc(tmp, func(a, b sk) int { return strings.Compare(a.s, b.s) })
	for i := range tmp {
		keys[i] = tmp[i].k
	}
	s := cur
	s.mu.Lock()
	s.Stats["map-range-anykey"]++
	s.rng.Shuffle(len(keys), func(i, j int) { keys[i], keys[j] = keys[j], keys[i] })
	s.mu.Unlock()
	return keys
}

// PoolGet/PoolPut make sync.Pool deterministic: a per-pool free list owned by
// the simulation (sync.Pool itself depends on P affinity and GC timing).
func PoolGet(p *sync.Pool) any {
	if !active.Load() {
		return p.Get()
	}
	s := cur
	s.mu.Lock()
	l := s.pools[p]
	if n := len(l); n > 0 {
		var v any
		switch s.poolPolicy {
		case 1: // FIFO
			v = l[0]
			s.pools[p] = l[1:]
		default:
			v = l[n-1]
			s.pools[p] = l[:n-1]
		}
		s.Stats["pool-reuse"]++
		s.mu.Unlock()
		return v
	}
	s.mu.Unlock()
	if p.New != nil {
		return p.New()
	}
	return nil
}

func PoolPut(p *sync.Pool, v any) {
	if !active.Load() {
		p.Put(v)
		return
	}
	s := cur
	s.mu.Lock()
	if s.poolPolicy == 2 && s.rng.IntN(4) == 0 {
		s.Stats["pool-drop"]++ // as if the GC had cleared it
	} else {
		s.pools[p] = append(s.pools[p], v)
	}
	s.mu.Unlock()
}

func RandIntN(n int) int {
	if !active.Load() {
		return rand.IntN(n)
	}
	s := cur
	s.mu.Lock()
	defer s.mu.Unlock()
	return s.rng.IntN(n)
}

func RandShuffle(n int, swap func(i, j int)) {
	if !active.Load() {
		rand.Shuffle(n, swap)
		return
	}
	s := cur
	s.mu.Lock()
	r := rand.New(rand.NewPCG(s.rng.Uint64(), 1))
	s.mu.Unlock()
	r.Shuffle(n, swap)
}

func RandUint64() uint64 {
	if !active.Load() {
		return rand.Uint64()
	}
	s := cur
	s.mu.Lock()
	defer s.mu.Unlock()
	return s.rng.Uint64()
}

func RandFloat64() float64 {
	if !active.Load() {
		return rand.Float64()
	}
	s := cur
	s.mu.Lock()
	defer s.mu.Unlock()
	return s.rng.Float64()
}

func (s *Sim) eligible(buf []*thread) []*thread {
	buf = buf[:0]
	s.mu.Lock()
	for _, t := range s.order {
		if t.st == stParked {
			buf = append(buf, t)
		}
	}
	// compact the order list now and then
	if len(s.order) > 64 {
		live := s.order[:0]
		for _, t := range s.order {
			if t.st != stDone {
				live = append(live, t)
			}
		}
		clear(s.order[len(live):])
		s.order = live
	}
	s.mu.Unlock()
	return buf
}

// Recent lists the last scheduling decisions (thread@site), oldest first.
func (s *Sim) Recent() string {
	var b strings.Builder
	n := len(s.recent)
	for i := max(0, s.recentN-n); i < s.recentN; i++ {
		b.WriteString(s.recent[i%n])
		b.WriteByte(' ')
	}
	return b.String()
}

// Dump describes every live thread (for "stuck" diagnostics).
func (s *Sim) Dump() string {
	s.mu.Lock()
	defer s.mu.Unlock()
	var b strings.Builder
	for _, t := range s.order {
		if t.st == stDone {
			continue
		}
		fmt.Fprintf(&b, "[%s st=%d site=%d spin=%v wait=%T]", t.idStr, t.st, t.site, t.spin, t.waitOn)
	}
	return b.String()
}

func (s *Sim) pick(elig []*thread, ci int) int {
	n := len(elig)
	// replay: follow the tape by thread id; otherwise continue current, else lowest id
	if s.cfg.IsReplay {
		for s.repPos < len(s.rep) && s.repLeft == 0 {
			s.repLeft = s.rep[s.repPos].N
			if s.repLeft == 0 {
				s.repPos++
			}
		}
		if s.repPos < len(s.rep) {
			want := s.rep[s.repPos].T
			s.repLeft--
			if s.repLeft == 0 {
				s.repPos++
			}
			for i, t := range elig {
				if t.idStr == want {
					return i
				}
			}
			s.Stats["replay-miss"]++
		}
		if ci >= 0 && !elig[ci].spin {
			return ci
		}
		// the current thread is spinning (or gone): round-robin, so that the
		// default policy starves nobody
		return (ci + 1) % n
	}
	// stall fault: frozen threads are skipped unless nothing else is eligible
	cand := make([]int, 0, n)
	for i, t := range elig {
		if t.frozen <= s.Steps {
			cand = append(cand, i)
		}
	}
	if len(cand) == 0 {
		for i := range elig {
			cand = append(cand, i)
		}
	}
	// a thread parked at a spin-wait yield usually cannot make progress until
	// someone else acts: most of the time it gives way to non-spinning threads
	// (always would starve a spinner whose condition has already come true)
	if s.schedRng.IntN(8) != 0 {
		if ns := slices.DeleteFunc(slices.Clone(cand), func(i int) bool { return elig[i].spin }); len(ns) > 0 {
			cand = ns
		}
	}
	inCand := func(i int) bool { return i >= 0 && slices.Contains(cand, i) }
	var idx int
	switch {
	case strings.HasPrefix(s.Strategy, "pct"):
		if ci >= 0 && elig[ci].spin {
			elig[ci].prio = s.pctLow // a yielding thread drops below everyone (PCT's treatment of yield)
			s.pctLow--
		}
		// weak fairness: strict priorities let the top thread run for ever, which
		// turns a retry loop that waits for another thread's next store (a CAS
		// retried on a stale ticket, with no runtime.Gosched in it) into an
		// endless run that no fair scheduler produces. A thread that has had far
		// more consecutive steps than a whole run is expected to take is treated
		// like one that yielded.
		if ci >= 0 && len(cand) > 1 && s.runLen >= max(1000, 4*s.cfg.EstSteps) {
			elig[ci].prio = s.pctLow
			s.pctLow--
			s.runLen = 0
			s.Stats["pct-fairness-demotion"]++
		}
		best := cand[0]
		for _, i := range cand {
			if elig[i].prio > elig[best].prio {
				best = i
			}
		}
		idx = best
	case strings.HasPrefix(s.Strategy, "sticky"):
		p := 0.5
		switch s.Strategy {
		case "sticky90":
			p = 0.9
		case "sticky99":
			p = 0.99
		}
		if inCand(ci) && s.schedRng.Float64() < p {
			idx = ci
		} else {
			idx = cand[s.schedRng.IntN(len(cand))]
		}
	default:
		idx = cand[s.schedRng.IntN(len(cand))]
	}
	return idx
}

var strategies = []string{"uniform", "sticky50", "sticky90", "sticky99", "pct1", "pct2", "pct3", "sticky90"}

// Run executes main as thread 0 under the scheduler until main has returned
// and no thread is eligible, or MaxSteps is hit. Must be called inside a
// synctest bubble.
func Run(cfg Config, main func()) *Sim {
	if cfg.MaxSteps == 0 {
		cfg.MaxSteps = 400000
	}
	if cfg.EstSteps == 0 {
		cfg.EstSteps = 2000
	}
	if cfg.MaxIdle == 0 {
		cfg.MaxIdle = time.Hour
	}
	s := &Sim{
		cfg:      cfg,
		threads:  map[uint64]*thread{},
		arrive:   make(chan struct{}, 1),
		rng:      rand.New(rand.NewPCG(cfg.Seed, 0x5eed)),
		schedRng: rand.New(rand.NewPCG(cfg.Seed, 0x5c4ed)),
		conds:    map[*sync.Cond][]*thread{},
		keys:     map[any]*thread{},
		pools:    map[*sync.Pool][]any{},
		Stats:    map[string]int{},
		pairs:    map[uint64]struct{}{},
		rep:      cfg.Replay,
		start:    time.Now(),
		pctLow:   -1,
		lastSite: -1000,
	}
	knob := rand.New(rand.NewPCG(cfg.Seed, 0x6b0b))
	// every knob is drawn unconditionally, so that overriding one (replay fixes
	// the strategy) does not shift the others
	s.Strategy = strategies[knob.IntN(len(strategies))]
	if cfg.Strategy != "" {
		s.Strategy = cfg.Strategy
	}
	s.poolPolicy = knob.IntN(3)
	if cfg.PoolPolicy >= 0 {
		s.poolPolicy = cfg.PoolPolicy
	}
	selMode := uint32(1 + knob.IntN(4))
	if strings.HasPrefix(s.Strategy, "pct") {
		d := int(s.Strategy[3] - '0')
		for i := 0; i < d-1; i++ {
			s.pctChange = append(s.pctChange, knob.IntN(cfg.EstSteps))
		}
	}
	nStalls := knob.IntN(4)
	if cfg.Stalls >= 0 {
		nStalls = cfg.Stalls
	}
	for i := 0; i < nStalls; i++ {
		s.stallAt = append(s.stallAt, knob.IntN(cfg.EstSteps))
		s.stallLen = append(s.stallLen, []int{5, 20, 100, 500}[knob.IntN(4)])
	}
	g, _ := simGoid()
	s.root = s.newThread(nil, false)
	s.root.goid = g
	s.root.st = stDone // the scheduler goroutine itself is never scheduled
	cur = s
	simSetSelectMode(selMode)
	active.Store(true)
	// thread for main
	s.mu.Lock()
	s.threads[g] = s.root
	s.mu.Unlock()
	Go(-1, func() { main(); s.mainDone.Store(true) })
	s.mu.Lock()
	delete(s.threads, g)
	s.mu.Unlock()

	var elig []*thread
	spinQuantum := time.Microsecond
	for {
		synctest.Wait()
		if s.cfg.OnStep != nil {
			if err := s.cfg.OnStep(s.Steps); err != nil {
				s.Err = err
				break
			}
		}
		elig = s.eligible(elig)
		if len(elig) == 0 {
			if s.cfg.OnIdle != nil {
				if err := s.cfg.OnIdle(); err != nil {
					s.Err = err
					break
				}
			}
			if s.mainDone.Load() {
				break
			}
			// nothing runnable: block durably so the fake clock can advance
			select {
			case <-s.arrive:
			case <-time.After(s.cfg.MaxIdle):
				s.Stuck = true
				s.Err = fmt.Errorf("stuck: no eligible thread for %v simulated, main not done: %s", s.cfg.MaxIdle, s.Dump())
			}
			if s.Err != nil {
				break
			}
			continue
		}
		if s.Steps >= s.cfg.MaxSteps {
			s.StepCap = true
			s.Err = fmt.Errorf("step cap %d reached: %s recent: %s", s.cfg.MaxSteps, s.Dump(), s.Recent())
			break
		}
		onlySpin := true
		for _, t := range elig {
			if !t.spin {
				onlySpin = false
				break
			}
		}
		if onlySpin {
			// every runnable thread is polling: let simulated time pass
			if spinQuantum < time.Millisecond {
				spinQuantum *= 2
			}
			s.Stats["spin-time-advance"]++
			time.Sleep(spinQuantum)
			synctest.Wait()
			// a spinner runs next; whoever the time advance woke is considered at the following step
		} else {
			spinQuantum = time.Microsecond
		}
		slices.SortFunc(elig, func(a, b *thread) int { return slices.Compare(a.id, b.id) })
		ci := -1
		for i, t := range elig {
			if t == s.last {
				ci = i
			}
		}
		idx := s.pick(elig, ci)
		t := elig[idx]
		// PCT change points and stall faults apply to the thread that is about to run
		if !s.cfg.IsReplay {
			for _, cp := range s.pctChange {
				if cp == s.Steps {
					t.prio = s.pctLow
					s.pctLow--
					s.Stats["pct-change"]++
				}
			}
			for i, at := range s.stallAt {
				if at == s.Steps && len(elig) > 1 {
					t.frozen = s.Steps + s.stallLen[i]
					s.Stats["fault:stall"]++
				}
			}
		}
		if n := len(s.Sched); n > 0 && s.Sched[n-1].T == t.idStr {
			s.Sched[n-1].N++
		} else {
			s.Sched = append(s.Sched, SchedRun{t.idStr, 1})
		}
		for _, b := range []byte(t.idStr) {
			s.hash = (s.hash ^ uint64(b)) * 1099511628211
		}
		s.hash = (s.hash ^ uint64(uint32(t.site))) * 1099511628211
		if t != s.last && s.last != nil {
			s.Stats["switches"]++
			s.pairs[uint64(uint32(s.lastSite))<<32|uint64(uint32(t.site))] = struct{}{}
		}
		if t == s.last {
			s.runLen++
		} else {
			s.runLen = 0
		}
		s.last = t
		s.lastSite = t.site
		s.recent[s.recentN%len(s.recent)] = fmt.Sprintf("%s@%d", t.idStr, t.site)
		s.recentN++
		if TraceHook != nil {
			TraceHook(s.Steps, t.idStr, t.site)
		}
		s.Steps++
		s.mu.Lock()
		t.st = stRunning
		s.mu.Unlock()
		t.resume <- struct{}{}
	}
	s.SimTime = time.Since(s.start)
	// The run is over. Nothing is released: every controlled goroutine stays
	// parked (durably blocked) and any goroutine of this run that reaches a
	// scheduling point later (a ticker firing while the bubble winds down)
	// blocks for good, so nothing runs uncontrolled after the verdict.
	zombie.Store(s)
	active.Store(false)
	simSetSelectMode(0)
	for k := range s.pairs {
		Pairs[k] = struct{}{}
	}
	return s
}

// NPairs is the number of distinct context-switch site pairs of this run.
func (s *Sim) NPairs() int { return len(s.pairs) }

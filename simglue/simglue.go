// Package simglue wires the simulated network and registry into the guarded
// seams of goakt's internal packages (hooks H1 and H2). It lives under the
// goakt module path (overlay only) because internal packages cannot be imported
// from the harness module.
package simglue

import (
	"context"
	"net"

	"github.com/tochemey/goakt/v4/discovery"
	"github.com/tochemey/goakt/v4/internal/cluster"
	inet "github.com/tochemey/goakt/v4/internal/net"
	"github.com/tochemey/goakt/v4/zzverif/simcluster"
	"github.com/tochemey/goakt/v4/zzverif/simnet"
	"github.com/tochemey/goakt/v4/zzverif/simrt"
)

// EnableNet installs a simulated network for the run.
func EnableNet(f *simrt.Tape, cfg simnet.Config) *simnet.Network {
	n := simnet.Enable(f, cfg)
	inet.SimDial = func(ctx context.Context, addr string) (net.Conn, error) { return simnet.Dial(ctx, addr) }
	inet.SimListen = func(addr string) (inet.SimListener, error) { return simnet.Listen(addr) }
	return n
}

// DisableNet restores the real sockets.
func DisableNet() {
	inet.SimDial, inet.SimListen = nil, nil
	simnet.Disable()
}

// EnableCluster installs a simulated registry/membership backend shared by all nodes of the run.
func EnableCluster(f *simrt.Tape, cfg simcluster.Config) *simcluster.Backend {
	b := simcluster.New(f, cfg)
	cluster.SimBackendFor = func(*discovery.Node) cluster.SimBackend { return b }
	return b
}

func DisableCluster() { cluster.SimBackendFor = nil }

// Package simglue wires the simulated network and registry into the guarded
// seams of goakt's internal packages (hooks H1 and H2). It lives under the
// goakt module path (overlay only) because internal packages cannot be imported
// from the harness module.
package simglue

import (
	"context"
	"net"

	"github.com/tochemey/goakt/v4/discovery"
	"github.com/tochemey/goakt/v4/internal/cluster"
	inet "github.com/tochemey/goakt/v4/internal/net"
	"github.com/tochemey/goakt/v4/zzverif/simcluster"
	"github.com/tochemey/goakt/v4/zzverif/simnet"
	"github.com/tochemey/goakt/v4/zzverif/simrt"
)

// EnableNet installs a simulated network for the run.
func EnableNet(f *simrt.Tape, cfg simnet.Config) *simnet.Network {
	n := simnet.Enable(f, cfg)
	inet.SimDial = func(ctx context.Context, addr string) (net.Conn, error) { return simnet.Dial(ctx, addr) }
	inet.SimListen = func(addr string) (inet.SimListener, error) { return simnet.Listen(addr) }
	return n
}

// DisableNet restores the real sockets.
func DisableNet() {
	inet.SimDial, inet.SimListen = nil, nil
	simnet.Disable()
}

// EnableCluster installs a simulated registry/membership backend shared by all nodes of the run.
func EnableCluster(f *simrt.Tape, cfg simcluster.Config) *simcluster.Backend {
	b := simcluster.New(f, cfg)
	cluster.SimBackendFor = func(*discovery.Node) cluster.SimBackend { return b }
	return b
}

func DisableCluster() { cluster.SimBackendFor = nil }

// ResetProcessCaches clears process-level caches of goakt's internal packages
// whose hit/miss state changes the number of scheduling points of a run (the
// proto serializer's message-type cache). Call it at the start of a run that
// uses remoting with a varying mix of message types.
func ResetProcessCaches() { inet.VerifResetProtoTypeCache() }

// ---- C34: the real membership-event machinery of internal/cluster fed with scripted notifications

// EventNode is one real *cluster started over the simulated backend.
type EventNode struct {
	C    cluster.Cluster
	B    *simcluster.Backend
	Addr string
}

// EmittedEvent is a cluster event read from Events().
type EmittedEvent struct {
	Type string // NodeJoined | NodeLeft | LeaderChanged
	Addr string
}

// NewEventNode starts a real cluster engine for one node on the shared simulated backend.
func NewEventNode(ctx context.Context, b *simcluster.Backend, host string, peersPort int) (*EventNode, error) {
	node := &discovery.Node{Name: "n", Host: host, DiscoveryPort: peersPort + 1000, PeersPort: peersPort, RemotingPort: peersPort + 2000}
	c := cluster.New("verif", nil, node)
	if err := c.Start(ctx); err != nil {
		return nil, err
	}
	return &EventNode{C: c, B: b, Addr: node.PeersAddress()}, nil
}

// Drain reads, without blocking, every event emitted so far.
func (n *EventNode) Drain() []EmittedEvent {
	var out []EmittedEvent
	for {
		select {
		case e, ok := <-n.C.Events():
			if !ok || e == nil {
				return out
			}
			ev := EmittedEvent{Type: e.Type.String()}
			switch p := e.Payload.(type) {
			case *cluster.NodeJoinedEvent:
				ev.Addr = p.Address
			case *cluster.NodeLeftEvent:
				ev.Addr = p.Address
			case *cluster.LeaderChangedEvent:
				ev.Addr = p.Address
			}
			out = append(out, ev)
		default:
			return out
		}
	}
}

func (n *EventNode) Stop(ctx context.Context) error { return n.C.Stop(ctx) }

// EventStream captures the node's Events() channel once (call it before Stop,
// which nils the field) and returns a blocking reader for a controlled
// collector thread: next() parks the caller until the next event is emitted and
// reports ok=false once Stop has closed the channel. Reading the fake clock
// right after next() returns gives the simulated instant of the emission (the
// clock cannot advance while the woken collector is runnable).
func (n *EventNode) EventStream() (next func() (EmittedEvent, bool)) {
	ch := n.C.Events()
	return func() (EmittedEvent, bool) {
		e, ok := simrt.Recv2(-105, ch)
		if !ok || e == nil {
			return EmittedEvent{}, false
		}
		ev := EmittedEvent{Type: e.Type.String()}
		switch p := e.Payload.(type) {
		case *cluster.NodeJoinedEvent:
			ev.Addr = p.Address
		case *cluster.NodeLeftEvent:
			ev.Addr = p.Address
		case *cluster.LeaderChangedEvent:
			ev.Addr = p.Address
		}
		return ev, true
	}
}

package simglue

import "github.com/tochemey/goakt/v4/internal/queue"

// C20: package scen cannot import goakt's internal packages; this alias lets it
// drive the real internal/queue.Queue (the node-pooling Michael-Scott queue
// behind every event-stream subscriber) directly.

// Queue is internal/queue.Queue.
type Queue = queue.Queue

// NewQueue returns queue.NewQueue().
func NewQueue() *Queue { return queue.NewQueue() }

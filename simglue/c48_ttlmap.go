package simglue

import (
	"time"

	"github.com/tochemey/goakt/v4/internal/xsync"
)

// ---- C48: the real internal/xsync.TTLMap behind a generic-free facade (package
// scen cannot import internal packages)

// TTLMap wraps xsync.TTLMap[string,int].
type TTLMap struct{ m *xsync.TTLMap[string, int] }

func NewTTLMap(ttl time.Duration) *TTLMap { return &TTLMap{m: xsync.NewTTLMap[string, int](ttl)} }

func (t *TTLMap) Set(k string, v int)             { t.m.Set(k, v) }
func (t *TTLMap) Get(k string) (int, bool)        { return t.m.Get(k) }
func (t *TTLMap) Delete(k string)                 { t.m.Delete(k) }
func (t *TTLMap) Reset()                          { t.m.Reset() }
func (t *TTLMap) Len() int                        { return t.m.Len() }
func (t *TTLMap) Active() bool                    { return t.m.Active() }
func (t *TTLMap) ActiveLen() int                  { return t.m.ActiveLen() }
func (t *TTLMap) Shape() (head, order, items int) { return t.m.VerifShape() }

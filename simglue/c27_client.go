package simglue

import (
	"context"
	"errors"
	"sync"
	"time"

	"google.golang.org/protobuf/proto"
	"google.golang.org/protobuf/reflect/protoreflect"

	"github.com/tochemey/goakt/v4/internal/address"
	"github.com/tochemey/goakt/v4/internal/internalpb"
	inet "github.com/tochemey/goakt/v4/internal/net"
	"github.com/tochemey/goakt/v4/internal/remoteclient"
)

// ---- C27 micro-sim: the real internal/remoteclient.Client (coalescing on) and a
// real internal/net ProtoServer with one RemoteTellRequest handler, behind a
// facade (package scen cannot import internal packages). No actor system.

var warmTellOnce sync.Once

// WarmTellTypes resolves, once per process, every message type this micro-sim
// puts on the wire through inet.FindMessageType, whose process-wide cache makes
// the first lookup of a type cost one more synchronisation operation than later
// ones. The harness's discarded warm-up run pays for it; without this a type
// first seen in a measured run (internalpb.Error needs a rejected batch) shifts
// that run's schedule by one step depending on what ran earlier in the process.
func WarmTellTypes(payloadTypes ...string) {
	warmTellOnce.Do(func() {
		for _, n := range append([]string{"internalpb.RemoteTellRequest", "internalpb.RemoteTellResponse", "internalpb.Error"}, payloadTypes...) {
			_, _ = inet.FindMessageType(protoreflect.FullName(n))
		}
	})
}

// TellMsg is one RemoteMessage of a coalesced batch as seen by the receiving
// handler or by the client's CoalescingErrorHandler.
type TellMsg struct {
	Sender, Receiver string
	Payload          []byte
}

func tellMsgs(ms []*internalpb.RemoteMessage) []TellMsg {
	out := make([]TellMsg, 0, len(ms))
	for _, m := range ms {
		if m == nil {
			continue
		}
		out = append(out, TellMsg{Sender: m.GetSender(), Receiver: m.GetReceiver(), Payload: m.GetMessage()})
	}
	return out
}

// TellAddr is an opaque actor address.
type TellAddr struct{ a *address.Address }

func NewTellAddr(name, system, host string, port int) TellAddr {
	return TellAddr{address.New(name, system, host, port)}
}

// TellClient wraps the real remoting client configured the way the actor system
// configures it for RemoteTell: send coalescing on, batch failures handed to an
// error handler.
type TellClient struct{ c remoteclient.Client }

// NewTellClient builds the client. onFail receives every batch the coalescer
// reports (flush failed); it runs on the coalescer's writer goroutine.
func NewTellClient(maxBatch int, onFail func(dest string, msgs []TellMsg, err error)) *TellClient {
	return &TellClient{remoteclient.NewClient(
		remoteclient.WithSendCoalescing(maxBatch),
		remoteclient.WithCoalescingErrorHandler(func(dest string, ms []*internalpb.RemoteMessage, err error) {
			onFail(dest, tellMsgs(ms), err)
		}),
	)}
}

func (t *TellClient) Tell(ctx context.Context, from, to TellAddr, msg any) error {
	return t.c.RemoteTell(ctx, from.a, to.a, msg)
}

func (t *TellClient) Close() { t.c.Close() }

// Decode turns a RemoteMessage payload back into the message the caller passed to Tell.
func (t *TellClient) Decode(payload []byte) (any, error) {
	return t.c.Serializer(nil).Deserialize(payload)
}

// TellServer is a real ProtoServer with a single handler for RemoteTellRequest.
type TellServer struct{ ps *inet.ProtoServer }

// TellVerdict is what the receiving side does with one batch.
type TellVerdict int

const (
	TellOK     TellVerdict = iota // reply RemoteTellResponse
	TellReject                    // reply a protocol error (internalpb.Error, UNAVAILABLE)
	TellHangUp                    // close the connection without replying
)

// NewTellServer listens on addr (simulated network). handle is called on the
// connection's goroutine once per request with all messages of the batch in wire order.
func NewTellServer(addr string, handle func(msgs []TellMsg) TellVerdict) (*TellServer, error) {
	h := func(_ context.Context, _ inet.Connection, req proto.Message) (proto.Message, error) {
		r, ok := req.(*internalpb.RemoteTellRequest)
		if !ok {
			return &internalpb.Error{Code: internalpb.Code_CODE_INVALID_ARGUMENT, Message: "invalid request type"}, nil
		}
		switch handle(tellMsgs(r.GetRemoteMessages())) {
		case TellReject:
			return &internalpb.Error{Code: internalpb.Code_CODE_UNAVAILABLE, Message: "rejected"}, nil
		case TellHangUp:
			return nil, errors.New("hang up")
		}
		return new(internalpb.RemoteTellResponse), nil
	}
	// the stock construction minus NewTCPServer's 20 MiB ballast (see the helper)
	ps, err := inet.VerifNewProtoServerNoBallast(addr, inet.WithProtoHandler("internalpb.RemoteTellRequest", h))
	if err != nil {
		return nil, err
	}
	if err := ps.Listen(); err != nil {
		return nil, err
	}
	return &TellServer{ps}, nil
}

// Serve blocks until Shutdown.
func (s *TellServer) Serve() error    { return s.ps.Serve() }
func (s *TellServer) Shutdown() error { return s.ps.Shutdown(time.Second) }

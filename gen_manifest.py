#!/usr/bin/env python3
# Generates MANIFEST.json from the table below (kept in one place so that the
# manifest is always valid and in step with the registered scenarios).
import json, subprocess
props = {}
for line in open('/verif/properties.jsonl'):
    p = json.loads(line); props[p['id']] = p

CLAIMED = {
 # id: (engine, technique, level text, level note)
 "C04": ("A", "deterministic simulation of producers/consumer on each Mailbox under a seeded scheduler; porcupine linearizability + conservation oracles",
         "Seeded search over interleavings (uniform/sticky/PCT schedules, stalls, pool policies, small-segment build variant) of 2-4 producers and one consumer on all nine mailbox implementations; every recorded history is checked for linearizability against the mailbox's sequential model, with conservation, same-mailbox and capacity checks. Sampling, not proof.",
         "Trusts the instrumenter to put a scheduling point before every atomic/mutex/channel operation of package actor and the Workiva ring buffer; capacities of ring-based mailboxes are generated as powers of two (rounding up is documented)."),
 "C05": ("B", "deterministic simulation of the real readyQueue with worker/producer threads under a seeded scheduler; conservation, idle-point and exit oracles",
         "Seeded search over interleavings of pushes, local re-pushes, bursts that overflow the local ring, steals, parks and close on 2-3 workers, with stock and tiny ring capacities; conservation (each pushed item taken exactly once), idle-point invariant (no parked worker while the global ring holds work), bounded liveness on the fake clock and exit-after-close are checked. Sampling, not proof.",
         "Workers are harness threads running the real take loop with dummy schedulables; the dispatcher's worker goroutines themselves are exercised by the single-node scenarios."),
 "C01": ("C", "deterministic simulation of a real actor system under a seeded scheduler; online handler-overlap detector in scripted probe actors",
         "Seeded search over interleavings of 2-4 concurrent senders, dispatcher workers (2-4), throughput budgets 1-32, supervisor restarts/resumes, explicit Restart/Reinstate and millisecond passivation on every mailbox type; each probe flags on the spot a second handler invocation entering while one is in progress. Sampling, not proof.",
         "Grains and reentrant replies are covered by the C31/C16 scenarios' own overlap detectors; BoundedMailbox is left out of runs with stops (see DESIGN.md observations)."),
 "C02": ("C", "deterministic simulation of a real actor system; exactly-once and bounded-liveness oracles over the recorded event log",
         "Seeded search over interleavings of concurrent Tell/BatchTell producers with the consumer turn and the drain/idle transition on every mailbox type; accepted-message multiset must equal the handled multiset, nothing handled twice, and everything accepted must be handled within 5 s of simulated time after traffic stops (a run that stops making progress is a violation). Sampling, not proof.",
         "Strict configuration only (actors stay alive, no restarts); stash/unstash multiplicity is checked by C13."),
 "C03": ("C", "deterministic simulation of a real actor system; per-sender order oracle over the event log",
         "Seeded search over interleavings of 2-4 sender goroutines using Tell and BatchTell to actors with every FIFO mailbox type; for each (sender goroutine, receiver incarnation) the handled sequence numbers must be strictly increasing. Sampling, not proof.",
         "Stash/unstash relative order is checked by the C13 scenario."),
 "C06": ("C", "deterministic simulation of a real actor system; lifecycle grammar oracle per incarnation plus online PostStop/Receive overlap detector",
         "Seeded search over interleavings of message traffic (handlers that take simulated time) with nine stop paths issued from external goroutines and from other actors' turns; per incarnation PreStart must finish before the first Receive, PostStop runs at most once, no Receive starts after PostStop started, and PostStop never overlaps Receive on another goroutine. Known deviations of the external stop paths are listed in known_findings.jsonl with one signature per path and class. Sampling, not proof.",
         "BoundedMailbox is left out (see DESIGN.md observations)."),
 "C23": ("S", "deterministic simulation of the real proto client/server over simulated connections that fragment, delay, truncate and corrupt; round-trip and robustness oracles",
         "Seeded search over message kinds of the internal wire schema, metadata maps up to the 65535-byte wire limit, deadlines, batching, fragmentation and latency: what the real server decodes and what the real client gets back must equal what was sent (message, type name, headers, deadline re-based by the transit time, order). Malformed half: truncation at any byte, corrupted and oversized length fields and flipped bytes must end in an error or a closed connection, never a panic (server panic handler, in-memory decoder under recover) and never an allocation beyond the frame limit (TotalAlloc delta). Sampling, not proof.",
         "The algebraic single-frame round trip is exercised only as a by-product; TLS and the real accept loop are not exercised."),
 "C24": ("S", "deterministic simulation of compressed connections over simulated byte streams with fragmentation, resets and early close; prefix/equality oracle",
         "Seeded search over write sizes 0..256 KiB (compressible and random), read buffer sizes, fragmentation and connection endings (clean close, reset mid-stream, close with unread data) for none/gzip/zstd/brotli, with consecutive connections reusing the pooled encoders/decoders: bytes read must be a prefix of bytes written and equal after a clean close. Sampling, not proof.",
         "The compression libraries themselves are third-party code running un-instrumented (single-threaded configuration)."),
 "C27": ("D", "deterministic simulation of two real actor systems with remoting over a simulated network; order / at-most-once / no-silent-drop oracles over the shared event log and the sender's dead letters",
         "Seeded search over interleavings of 1-4 concurrent callers with the per-destination coalescer (stock batch 256 and a build variant with batch 4), connection resets, stalls past the flush timeout, refused dials, latency, fragmentation and the sender's system stopping with messages pending: per caller the delivered tags are an order-preserving duplicate-free subsequence, and every accepted tell is delivered or appears in the sender's dead letters within 30 s of simulated time. Sampling, not proof.",
         "Runs in which the sender's system stops keep the network healthy, because goakt deliberately does not dead-letter batch failures once shutdown has begun."),
 "C28": ("D", "deterministic simulation of two real actor systems with remoting over a simulated network; reply-identity oracle",
         "Seeded search over interleavings of 2-6 concurrent RemoteAsk / RemoteBatchAsk callers over the pooled connections with responder latencies, timeouts drawn around them, latency that reorders pooled connections, resets and stalls: every successful ask returns the reply carrying its own request tag, batch responses come back in request order. Sampling, not proof.",
         "-"),
 "C29": ("D", "deterministic simulation of two real actor systems with remoting over a simulated network; per-message header oracle",
         "Same runs as C28 with a ContextPropagator that injects one unique header per call (asks, tells, coalesced batches mixing callers, stock and batch-4 build variants): the header restored for message tag t on the receiving node must be the one injected for t. Sampling, not proof.",
         "-"),
}
NA = {
 "C22": "pure function of a call count under a mutex: no schedule, clock, I/O or fault can change the answer, so a simulator has nothing to search",
 "C25": "serialise/deserialise of one value and a type-keyed lookup are pure functions; no goroutine, timer or I/O takes part",
 "C26": "Address String/Parse are pure string functions; the no-panic clause is input fuzzing, not simulation",
 "C32": "the relocation plan is a pure function of (departed state, survivors, loads); nothing to schedule or fault",
 "C37": "encode/decode of a spawn configuration is a pure round trip; the simulated wire adds no schedule or fault the statement depends on",
 "C38": "commutativity, associativity and idempotence of Merge are algebraic laws of pure functions over values",
 "C40": "CRDT wire encoding is a pure round trip of a value",
}
NOT_BUILT = "claimed in DESIGN.md but its scenario is not built yet in this revision; no check is registered, so nothing is claimed"

checks = []
for pid in sorted(CLAIMED):
    eng, tech, text, note = CLAIMED[pid]
    checks.append({
        "property_id": pid,
        "quick_cmd": f"./check {pid} --tier quick",
        "thorough_cmd": f"./check {pid} --tier thorough",
        "evidence_file": f"/verif/evidence/{pid}.json",
        "replay_cmd_template": f"./check {pid} --replay {{path}}",
        "engine": eng,
        "level_claimed": {"category": "exploration", "text": text, "design_ref": f"DESIGN.md §7 {pid}"},
        "level_note": note,
        "technique": tech,
    })
na = []
for pid in sorted(props):
    if pid in CLAIMED: continue
    na.append({"property_id": pid, "reason": NA.get(pid, NOT_BUILT)})
hooks = []
try:
    out = subprocess.check_output(["git","-C","/repo","log","--format=%h %s"], text=True)
    hooks = [l.split()[0] for l in out.splitlines() if l.split(' ',1)[1].startswith("verif hook")]
except Exception: pass
m = {
 "version": 1,
 "setup_cmd": "./setup.sh",
 "hooks": {
   "guard": "verif",
   "enable": "go1.26.8 test -tags verif -vet=off -overlay <generated overlay.json> (instrumented copies, harness files and the simrt runtime are generated overlay; only the seams below are committed in /repo)",
   "baseline_off_cmd": "cd /repo && go test -vet=off -count=1 -timeout 25m ./...",
   "source_commits": hooks,
   "add_only": False,
 },
 "engines": [
   {"name": "A", "path": "scen/c04_mailbox.go", "serves_properties": ["C04"], "kind_free_text": "mailbox micro-simulation: harness producer/consumer threads on the real Mailbox implementations under the simrt scheduler inside a synctest bubble"},
   {"name": "B", "path": "harness/actor/zz_verif_rq.go", "serves_properties": ["C05"], "kind_free_text": "ready-queue micro-simulation compiled into package actor through the build overlay"},
   {"name": "S", "path": "scen/c23_c24_stream.go", "serves_properties": ["C23", "C24"], "kind_free_text": "byte-stream simulation: real internal/net client, server, codec and compression wrappers over simnet connections"},
   {"name": "D", "path": "scen/remote.go", "serves_properties": ["C27", "C28", "C29"], "kind_free_text": "two-node remoting simulation: two real actor systems over simnet behind hook H1"},
   {"name": "C", "path": "scen/sys.go", "serves_properties": ["C01", "C02", "C03", "C06"], "kind_free_text": "single-node simulation: a real actor system (dispatcher, mailboxes, supervision, passivation, scheduler) with scripted probe actors, every goroutine under the simrt scheduler, fake clock"},
 ],
 "checks": checks,
 "not_applicable": na,
 "notes": "Deterministic simulation with fault injection; see DESIGN.md. ./check <id> rebuilds (instrumentation + compile, cached by content hash) from /repo's working tree on every call.",
}
json.dump(m, open('/verif/MANIFEST.json','w'), indent=1)
print("claimed", len(checks), "not_applicable", len(na))

#!/usr/bin/env python3
# Generates MANIFEST.json from the table below (kept in one place so that the
# manifest is always valid and in step with the registered scenarios).
import json, subprocess
props = {}
for line in open('/verif/properties.jsonl'):
    p = json.loads(line); props[p['id']] = p

CLAIMED = {k:(v['engine'],v['technique'],v['text'],v['note']) for k,v in json.load(open('/verif/claims.json')).items()}
NA = {
 "C22": "pure function of a call count under a mutex: no schedule, clock, I/O or fault can change the answer, so a simulator has nothing to search",
 "C25": "serialise/deserialise of one value and a type-keyed lookup are pure functions; no goroutine, timer or I/O takes part",
 "C26": "Address String/Parse are pure string functions; the no-panic clause is input fuzzing, not simulation",
 "C32": "the relocation plan is a pure function of (departed state, survivors, loads); nothing to schedule or fault",
 "C37": "encode/decode of a spawn configuration is a pure round trip; the simulated wire adds no schedule or fault the statement depends on",
 "C38": "commutativity, associativity and idempotence of Merge are algebraic laws of pure functions over values",
 "C40": "CRDT wire encoding is a pure round trip of a value",
}
NOT_BUILT = "claimed in DESIGN.md but its scenario is not built yet in this revision; no check is registered, so nothing is claimed"

checks = []
for pid in sorted(CLAIMED):
    eng, tech, text, note = CLAIMED[pid]
    checks.append({
        "property_id": pid,
        "quick_cmd": f"./check {pid} --tier quick",
        "thorough_cmd": f"./check {pid} --tier thorough",
        "evidence_file": f"/verif/evidence/{pid}.json",
        "replay_cmd_template": f"./check {pid} --replay {{path}}",
        "engine": eng,
        "level_claimed": {"category": "exploration", "text": text, "design_ref": f"DESIGN.md §7 {pid}"},
        "level_note": note,
        "technique": tech,
    })
na = []
for pid in sorted(props):
    if pid in CLAIMED: continue
    na.append({"property_id": pid, "reason": NA.get(pid, NOT_BUILT)})
hooks = []
try:
    out = subprocess.check_output(["git","-C","/repo","log","--format=%h %s"], text=True)
    hooks = [l.split()[0] for l in out.splitlines() if l.split(' ',1)[1].startswith("verif hook")]
except Exception: pass
m = {
 "version": 1,
 "setup_cmd": "./setup.sh",
 "hooks": {
   "guard": "verif",
   "enable": "go1.26.8 test -tags verif -vet=off -overlay <generated overlay.json> (instrumented copies, harness files and the simrt runtime are generated overlay; only the seams below are committed in /repo)",
   "baseline_off_cmd": "cd /repo && go test -vet=off -count=1 -timeout 25m ./...",
   "source_commits": hooks,
   "add_only": False,
 },
 "engines": [
   {"name": e, "path": path, "serves_properties": sorted(k for k,v in CLAIMED.items() if v[0]==e), "kind_free_text": txt}
   for e,path,txt in [
    ("A", "scen/c04_mailbox.go", "mailbox micro-simulation: harness producer/consumer threads on the real Mailbox implementations under the simrt scheduler inside a synctest bubble"),
    ("B", "harness/actor/zz_verif_rq.go", "ready-queue micro-simulation compiled into package actor through the build overlay"),
    ("S", "scen/c23_c24_stream.go", "byte-stream simulation: real internal/net client, server, codec and compression wrappers over simnet connections"),
    ("D", "scen/remote.go", "two-node remoting simulation: two real actor systems over simnet behind hook H1"),
    ("C", "scen/sys.go", "single-node simulation: a real actor system (dispatcher, mailboxes, supervision, passivation, scheduler) with scripted probe actors, every goroutine under the simrt scheduler, fake clock"),
    ("E", "simcluster/simcluster.go", "cluster simulation: the real internal/cluster engine (and, for multi-node scenarios, 2-3 real cluster-enabled actor systems over simnet) on a simulated single-copy registry / membership / pub-sub backend behind hook H2"),
    ("F", "scen/core.go", "component micro-simulation: client threads on a real concurrent/timed component (event stream, queue, circuit breaker, TTL map) under the simrt scheduler with the fake clock"),
   ] if any(v[0]==e for v in CLAIMED.values())
 ],
 "checks": checks,
 "not_applicable": na,
 "notes": "Deterministic simulation with fault injection; see DESIGN.md. ./check <id> rebuilds (instrumentation + compile, cached by content hash) from /repo's working tree on every call.",
}
json.dump(m, open('/verif/MANIFEST.json','w'), indent=1)
print("claimed", len(checks), "not_applicable", len(na))

#!/bin/bash
# generate runtime overlay for go1.26.8
set -e
G=/opt/veriftools/go1.26.8
O=${1:?usage: mkrt.sh <outdir>}
mkdir -p $O
grep -q 'j := cheaprandn(uint32(norder + 1))' $G/src/runtime/select.go || { echo "anchor missing" >&2; exit 2; }
sed 's/j := cheaprandn(uint32(norder + 1))/j := selectRandHook(uint32(norder + 1))/' $G/src/runtime/select.go > $O/select.go
cat > $O/zz_sim.go <<'EOT'
package runtime

import _ "unsafe"

var simSelectMode uint32

//go:linkname simSetSelectMode
func simSetSelectMode(m uint32) { simSelectMode = m }

func selectRandHook(n uint32) uint32 {
	if simSelectMode == 1 {
		return n - 1
	}
	return cheaprandn(n)
}

//go:linkname simGoid
func simGoid() (goid, parent uint64) {
	gp := getg()
	return gp.goid, gp.parentGoid
}
EOT
cat > $O/overlay.json <<EOT
{"Replace": {
 "$G/src/runtime/select.go": "$O/select.go",
 "$G/src/runtime/zz_sim.go": "$O/zz_sim.go"
}}
EOT

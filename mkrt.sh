#!/bin/bash
# generate runtime overlay for go1.26.8
set -e
G=/opt/veriftools/go1.26.8
O=${1:?usage: mkrt.sh <outdir>}
mkdir -p $O
grep -q 'j := cheaprandn(uint32(norder + 1))' $G/src/runtime/select.go || { echo "anchor missing" >&2; exit 2; }
sed 's/j := cheaprandn(uint32(norder + 1))/j := selectRandHook(uint32(norder + 1))/' $G/src/runtime/select.go > $O/select.go
cat > $O/zz_sim.go <<'EOT'
package runtime

import _ "unsafe"

var simSelectMode uint32

//go:linkname simSetSelectMode
func simSetSelectMode(m uint32) { simSelectMode = m }

// selectRandHook replaces the random draw of select's poll-order shuffle (an
// inside-out Fisher-Yates: case i goes to position j in [0, i]). In a simulated run
// the order must be a per-run constant, never drawn from the runtime's own PRNG:
// every mode below is a pure function of n, and every resulting order is one the
// unpatched runtime can produce. Mode 0 = simulation off (stock behaviour).
func selectRandHook(n uint32) uint32 {
	switch simSelectMode {
	case 0:
		return cheaprandn(n)
	case 1:
		return n - 1 // source order
	case 2:
		return 0 // reverse source order
	case 3:
		return (n - 1) / 2
	default:
		if n%2 == 0 {
			return 0
		}
		return n - 1
	}
}

//go:linkname simGoid
func simGoid() (goid, parent uint64) {
	gp := getg()
	return gp.goid, gp.parentGoid
}
EOT
cat > $O/overlay.json <<EOT
{"Replace": {
 "$G/src/runtime/select.go": "$O/select.go",
 "$G/src/runtime/zz_sim.go": "$O/zz_sim.go"
}}
EOT

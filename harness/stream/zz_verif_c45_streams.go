package stream

// In-package harness support for the C45/C46 stream scenarios (overlay only;
// never part of /repo; not instrumented).

import "sync/atomic"

// VerifResetStreamSeq resets the process-global stream id counter so that the
// actor names of a run ("stream-<id>-<i>") do not depend on how many runs the
// worker process has executed before (determinism across process layouts).
func VerifResetStreamSeq() { atomic.StoreUint64(&streamSeq, 0) }

// The materializer gives every stage without an explicit mailbox a blocking
// actor.BoundedMailbox(BufferSize*2). A stage actor that stops while a message
// is still in that (then disposed) ring buffer leaves a dispatcher worker
// spinning for ever, which freezes the simulated clock (HARNESS.md, known
// environment facts). The knob setters below clear BufferSize on copies of the
// stage descriptors, so the materializer falls through to the actor system's
// default (unbounded) mailbox. Nothing else reads BufferSize.

func verifNoBounded(in []*stage) []*stage {
	out := make([]*stage, len(in))
	for i, s := range in {
		c := *s
		c.config.BufferSize = 0
		out[i] = &c
	}
	return out
}

// VerifSourceDefaultMailbox returns src with every stage (source and flows) on the default actor mailbox.
func VerifSourceDefaultMailbox[T any](src Source[T]) Source[T] {
	return Source[T]{stages: verifNoBounded(src.stages)}
}

// VerifSinkDefaultMailbox returns sink on the default actor mailbox.
func VerifSinkDefaultMailbox[T any](sink Sink[T]) Sink[T] {
	return Sink[T]{desc: verifNoBounded([]*stage{sink.desc})[0]}
}

package eventstream

// VerifQueueDump renders the queue behind a subscriber (C20 failure reports).
func VerifQueueDump(s Subscriber) string {
	if x, ok := s.(*subscriber); ok {
		return x.messages.VerifDump()
	}
	return ""
}

package actor

// VerifRemoteSendCoalescingMaxBatch is the batch size the actor system passes to
// remoteclient.WithSendCoalescing (256 in the stock build, 4 in the "small"
// variant): the C27 micro-sim configures its bare client the same way.
func VerifRemoteSendCoalescingMaxBatch() int { return remoteSendCoalescingMaxBatch }

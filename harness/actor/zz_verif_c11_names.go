package actor

// VerifNameRegistered reports whether the actors tree holds a node for the actor
// name and whether the PID stored in it is running. Read-only; meant to be called
// at quiescence by the C11 oracle to tell running actors that are not (or no
// longer) registered in the tree from a plain counter error.
func VerifNameRegistered(sys ActorSystem, name string) (exists, running bool) {
	x, ok := sys.(*actorSystem)
	if !ok {
		return false, false
	}
	n, ok := x.actors.nodeByName(name)
	if !ok {
		return false, false
	}
	p := n.value()
	return true, p != nil && p.IsRunning()
}

package actor

// In-package accessors for the C33 (relocation accounting) scenario. Overlay
// only; not instrumented. The readers below touch plain fields without taking
// the (instrumented) locks: they are meant for the scheduler goroutine (OnStep)
// or for a controlled thread, where no other controlled goroutine runs.

import (
	"sort"
	"time"

	"github.com/tochemey/goakt/v4/internal/cluster"
)

// VerifInjectNodeLeft queues a duplicate NodeLeft(peersAddr) cluster event for
// the node's own cluster-events loop (the real consumer handles it like any
// other NodeLeft).
func VerifInjectNodeLeft(sys ActorSystem, peersAddr string, ts time.Time) bool {
	x, ok := sys.(*actorSystem)
	if !ok || x.cluster == nil || x.shuttingDown.Load() || !x.started.Load() {
		return false
	}
	return cluster.VerifEmitNodeLeft(x.cluster, peersAddr, ts)
}

// VerifRelocationState reports, for one node: whether a relocation job for the
// departed peersAddr is registered (in flight) and the names of the relocation
// workers for that address the node's relocator currently tracks (a worker is
// tracked from its spawn until its Terminated has been handled), sorted.
func VerifRelocationState(sys ActorSystem, peersAddr string) (inFlight bool, workers []string) {
	x, ok := sys.(*actorSystem)
	if !ok {
		return false, nil
	}
	_, inFlight = x.relocationJobs[peersAddr]
	if p := x.relocator; p != nil {
		if r, isRelocator := p.actor.(*relocator); isRelocator && r != nil {
			for name, job := range r.workers {
				if job.address == peersAddr {
					workers = append(workers, name)
				}
			}
		}
	}
	sort.Strings(workers)
	return inFlight, workers
}

package actor

// In-package accessors for the C35 (handoff masking respects deadlines)
// scenario. Overlay only; not instrumented.

import (
	"google.golang.org/protobuf/proto"

	"github.com/tochemey/goakt/v4/internal/address"
	"github.com/tochemey/goakt/v4/internal/internalpb"
)

// VerifRCTakeErr returns the error recorded on the receive context by a
// ReceiveContext API (SendSync / SendAsync record their error there) and clears
// it, so that the scenario's caller actor is not failed by its supervisor for an
// error the scenario wants to look at.
func VerifRCTakeErr(rc *ReceiveContext) error {
	err := rc.err
	rc.err = nil
	return err
}

// VerifHandoffState reports whether this node currently masks the remoting
// endpoint hostPort as relocating, and whether any handoff window is open on
// this node. Reads two TTL maps under their own locks: call it from a
// controlled thread, not from OnStep.
func VerifHandoffState(sys ActorSystem, hostPort string) (endpointRelocating, anyInFlight bool) {
	x, ok := sys.(*actorSystem)
	if !ok || x.relocatingEndpoints == nil {
		return false, false
	}
	_, endpointRelocating = x.relocatingEndpoints.Get(hostPort)
	return endpointRelocating, x.relocatingEndpoints.Active()
}

// VerifActorRecordHostPort decodes a cluster registry actor record (the value
// stored under "actors::<name>") into the host:port its address names.
func VerifActorRecordHostPort(value []byte) (string, bool) {
	rec := new(internalpb.Actor)
	if err := proto.Unmarshal(value, rec); err != nil {
		return "", false
	}
	addr, err := address.Parse(rec.GetAddress())
	if err != nil {
		return "", false
	}
	return address.FormatHostPort(addr.Host(), addr.Port()), true
}

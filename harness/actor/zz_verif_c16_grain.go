package actor

// VerifGrainCounters reports the request bookkeeping of the local process of a
// grain identity (C16 grain scenario). One map read under the table's own lock
// plus plain atomic loads: call it from a controlled thread, not from OnStep.
func VerifGrainCounters(sys ActorSystem, identity string) (inFlight, blocking int64, ok bool) {
	x, isSys := sys.(*actorSystem)
	if !isSys {
		return 0, 0, false
	}
	pid, found := x.grains.Get(identity)
	if !found || pid == nil {
		return 0, 0, false
	}
	r := pid.reentrancy.Load()
	if r == nil {
		return 0, 0, false
	}
	return r.inFlightCount.Load(), r.blockingCount.Load(), true
}

package actor

// In-package accessors for the C30 (grain single activation) scenario.
// Overlay only; not instrumented.

import (
	"context"
	"errors"

	"github.com/tochemey/goakt/v4/internal/cluster"
)

// VerifGrainIdentity builds the identity of grain kind/name without touching
// the system (GrainOf would activate the grain as a side effect).
func VerifGrainIdentity(kind Grain, name string) *GrainIdentity {
	return newGrainIdentity(kind, name)
}

// VerifGrainOwner reads the cluster registry record of a grain identity through
// the node's real cluster engine: host and remoting port named as the owner.
func VerifGrainOwner(ctx context.Context, sys ActorSystem, identity string) (host string, port int, found bool, err error) {
	x, ok := sys.(*actorSystem)
	if !ok || x.getCluster() == nil {
		return "", 0, false, errors.New("not a clustered actor system")
	}
	g, err := x.getCluster().GetGrain(ctx, identity)
	if err != nil {
		if errors.Is(err, cluster.ErrGrainNotFound) {
			return "", 0, false, nil
		}
		return "", 0, false, err
	}
	return g.GetHost(), int(g.GetPort()), true, nil
}

// VerifGrainLocal reports whether the node's local grain table holds a process
// for the identity, and whether that process is marked active. It reads one
// map under its own lock and one atomic: call it from a controlled thread, not
// from OnStep.
func VerifGrainLocal(sys ActorSystem, identity string) (present, active bool) {
	x, ok := sys.(*actorSystem)
	if !ok {
		return false, false
	}
	p, ok := x.grains.Get(identity)
	if !ok {
		return false, false
	}
	return true, p.activated.Load()
}

// VerifDrainGrainContexts empties the package-level GrainContext pool
// (grainContextCh). It starts empty in a fresh process and fills up as grains
// handle messages, so without draining it a run's allocation path (and with it
// the number of scheduling points) depends on what ran earlier in the process.
func VerifDrainGrainContexts() {
	for {
		select {
		case <-grainContextCh:
		default:
			return
		}
	}
}

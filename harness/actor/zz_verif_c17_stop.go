package actor

// In-package harness support for the C17 system-stop scenario (overlay only).

// VerifDrainGrainContextPool empties the package-level GrainContext pool. The pool
// starts empty in a fresh process and fills up over the runs of a worker; a hit and
// a miss of getGrainContext take a different number of scheduling steps, so a run's
// schedule would otherwise depend on which runs came before it in the process.
func VerifDrainGrainContextPool() {
	for {
		select {
		case <-grainContextCh:
		default:
			return
		}
	}
}

package actor

// VerifReentrancyCounters reports the in-flight bookkeeping of a reentrant actor.
// Plain atomic loads (this file is not instrumented): safe from any goroutine.
func VerifReentrancyCounters(pid *PID) (inFlight, blocking int64, ok bool) {
	r := pid.reentrancy.Load()
	if r == nil {
		return 0, 0, false
	}
	return r.inFlightCount.Load(), r.blockingCount.Load(), true
}

// VerifTurnHeld reports whether a dispatcher worker currently owns the actor's turn.
func VerifTurnHeld(pid *PID) bool { return pid.schedState.v.Load() == dispatchProcessing }

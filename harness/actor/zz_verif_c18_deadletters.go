package actor

// VerifDeadletterStarted reports whether the system's dead-letter actor has
// handled its PostStart message (it takes its event-stream handle there).
// Plain field read; not instrumented.
func VerifDeadletterStarted(sys ActorSystem) bool {
	x, ok := sys.(*actorSystem)
	if !ok || x.deadletter == nil {
		return false
	}
	dl, ok := x.deadletter.actor.(*deadLetter)
	return ok && dl.eventsStream != nil
}

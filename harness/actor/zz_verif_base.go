package actor

// In-package harness support (overlay only; never part of /repo). Files named
// zz_verif_* are not instrumented: code here runs atomically between the
// scheduling points of the product code it calls.

import (
	"sort"
	"unsafe"

	"github.com/tochemey/goakt/v4/internal/address"
)

// verifSortLocals orders per-worker rings by heap address. localQueue.stealHalf
// locks two rings in address order (lockOrder); the rings are allocated one by
// one, so which of two rings has the lower address varies between executions of
// the same seed, and with it which lock a stealing worker blocks on. After the
// sort, address order equals worker-index order in every execution. Only legal
// while the rings are empty and no worker runs.
func verifSortLocals(rq *readyQueue) {
	l := rq.locals
	sort.Slice(l, func(i, j int) bool { return uintptr(unsafe.Pointer(l[i])) < uintptr(unsafe.Pointer(l[j])) })
}

// VerifSortLocalQueues: call between NewActorSystem and Start (see verifSortLocals).
func VerifSortLocalQueues(sys ActorSystem) {
	if as, ok := sys.(*actorSystem); ok && as.dispatcher != nil && as.dispatcher.readyQueue != nil {
		verifSortLocals(as.dispatcher.readyQueue)
	}
}

// VerifDrainPools empties the package-level channel pools that may hold
// objects owned by a finished synctest bubble.
func VerifDrainPools() {
	for {
		select {
		case <-responseCh:
		case <-errorCh:
		default:
			return
		}
	}
}

// VerifFakePID is a PID that only has a path (sender identity for mailbox micro-sims).
func VerifFakePID(name string) *PID {
	return &PID{path: newPath(address.New(name, "sys", "127.0.0.1", 1))}
}

// VerifNewRC builds a tell-style ReceiveContext carrying msg from sender.
func VerifNewRC(msg any, sender *PID) *ReceiveContext {
	rc := getContext()
	rc.message = msg
	rc.sender = sender
	return rc
}

// VerifContextPoolSize reports the (possibly knob-replaced) context pool size.
func VerifContextPoolSize() int { return contextPoolSize }

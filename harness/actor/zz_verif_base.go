package actor

// In-package harness support (overlay only; never part of /repo). Files named
// zz_verif_* are not instrumented: code here runs atomically between the
// scheduling points of the product code it calls.

import (
	"github.com/tochemey/goakt/v4/internal/address"
)

// VerifDrainPools empties the package-level channel pools that may hold
// objects owned by a finished synctest bubble.
func VerifDrainPools() {
	for {
		select {
		case <-responseCh:
		case <-errorCh:
		default:
			return
		}
	}
}

// VerifFakePID is a PID that only has a path (sender identity for mailbox micro-sims).
func VerifFakePID(name string) *PID {
	return &PID{path: newPath(address.New(name, "sys", "127.0.0.1", 1))}
}

// VerifNewRC builds a tell-style ReceiveContext carrying msg from sender.
func VerifNewRC(msg any, sender *PID) *ReceiveContext {
	rc := getContext()
	rc.message = msg
	rc.sender = sender
	return rc
}

// VerifContextPoolSize reports the (possibly knob-replaced) context pool size.
func VerifContextPoolSize() int { return contextPoolSize }

package actor

// C21 (routers): knob setter and read-only accessors for the router actor
// behind a PID. Overlay only, not instrumented: nothing here is a scheduling
// point, so these may be called from any harness code.

import "sort"

// VerifSetRouterRR pre-sets the unexported round-robin counter of the router
// behind pid, so that the uint32 wrap is reached within a short run. Call it
// before the first Broadcast is sent. False when pid is not a router.
func VerifSetRouterRR(pid *PID, v uint32) bool {
	r, ok := pid.actor.(*router)
	if !ok {
		return false
	}
	r.roundRobinNext = v
	return true
}

// VerifRouterRR reads the round-robin counter.
func VerifRouterRR(pid *PID) (uint32, bool) {
	r, ok := pid.actor.(*router)
	if !ok {
		return 0, false
	}
	return r.roundRobinNext, true
}

// VerifRouterMembers returns the sorted names of the routees currently in the
// router's routee map (diagnostics for violation details only).
func VerifRouterMembers(pid *PID) []string {
	r, ok := pid.actor.(*router)
	if !ok {
		return nil
	}
	names := make([]string, 0, len(r.routeesMap))
	for _, p := range r.routeesMap {
		names = append(names, p.Name())
	}
	sort.Strings(names)
	return names
}

// VerifPIDFlags reads the lifecycle flags of a local PID without a scheduling point.
func VerifPIDFlags(pid *PID) (running, suspended, stopping bool) {
	st := pid.state.Load()
	return st&uint32(runningState) != 0, st&uint32(suspendedState) != 0, st&uint32(stoppingState) != 0
}

package actor

// In-package accessor for the C36 (cluster singleton) scenario. Overlay only;
// not instrumented, so it can be called from the scheduler goroutine (OnStep).

// VerifSysState reports the started / shutting-down flags of an actor system.
func VerifSysState(sys ActorSystem) (started, stopping bool) {
	x, ok := sys.(*actorSystem)
	if !ok {
		return false, false
	}
	return x.started.Load(), x.shuttingDown.Load()
}

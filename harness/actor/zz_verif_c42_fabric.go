package actor

// In-package helpers for the reliable-delivery scenarios (C42-C44): describe a
// message a controller is about to send (hook H3 hands it over as `any`, its
// types live in internal/commands) and expose a consumer controller's receive
// buffer. Overlay only; not instrumented.

import (
	"fmt"

	"github.com/tochemey/goakt/v4/internal/commands"
)

// VerifRDMsg describes one message offered to ReliableSimFabric.
type VerifRDMsg struct {
	// Kind: controller-to-controller traffic is "register", "regack",
	// "request", "ack", "sequenced"; messages to user endpoints are "delivery",
	// "requestnext", "stored", "confirmed-notice"; anything else is "".
	Kind       string
	Seq        int64 // sequenced / delivery / stored / confirmed-notice: seq; regack: nextSeq
	Confirmed  int64 // request / ack: confirmation watermark
	UpTo       int64 // request: requestUpToSeq
	ViaTimeout bool  // request
	MessageID  string
	Nonce      string
}

// VerifRDClassify describes message.
func VerifRDClassify(message any) VerifRDMsg {
	switch m := message.(type) {
	case *commands.RegisterConsumer:
		return VerifRDMsg{Kind: "register", Nonce: m.Nonce()}
	case *commands.RegistrationAck:
		return VerifRDMsg{Kind: "regack", Seq: m.NextSeq(), Nonce: m.Nonce()}
	case *commands.Request:
		return VerifRDMsg{Kind: "request", Confirmed: m.ConfirmedSeq(), UpTo: m.RequestUpToSeq(), ViaTimeout: m.ViaTimeout(), Nonce: m.RegistrationNonce()}
	case *commands.Ack:
		return VerifRDMsg{Kind: "ack", Confirmed: m.ConfirmedSeq(), Nonce: m.RegistrationNonce()}
	case *commands.SequencedMessage:
		return VerifRDMsg{Kind: "sequenced", Seq: m.Seq(), MessageID: m.MessageID()}
	case *Delivery:
		return VerifRDMsg{Kind: "delivery", Seq: m.Seq(), MessageID: m.MessageID()}
	case *RequestNext:
		return VerifRDMsg{Kind: "requestnext"}
	case *Stored:
		return VerifRDMsg{Kind: "stored", Seq: m.Seq(), MessageID: m.MessageID()}
	case *DeliveryConfirmed:
		return VerifRDMsg{Kind: "confirmed-notice", Seq: m.Seq(), MessageID: m.MessageID()}
	}
	return VerifRDMsg{}
}

// VerifRDOwner returns the endpoint name and role ("producer"/"consumer") of a
// reliable-delivery controller PID, or "" when pid is not a controller.
func VerifRDOwner(pid *PID) (endpoint, role string) {
	if pid == nil || pid.reliableCompanion == nil {
		return "", ""
	}
	role = "consumer"
	if pid.reliableCompanion.role == ReliableControllerRoleProducer {
		role = "producer"
	}
	return pid.reliableCompanion.endpointName, role
}

// VerifRDConsumer gives read access to a consumer controller's flow-control state.
type VerifRDConsumer struct{ cc *consumerController }

// VerifRDConsumerOf returns the handle of the consumer controller behind pid (nil if it is none).
func VerifRDConsumerOf(pid *PID) *VerifRDConsumer {
	if pid == nil {
		return nil
	}
	cc, ok := pid.actor.(*consumerController)
	if !ok {
		return nil
	}
	return &VerifRDConsumer{cc}
}

func (h *VerifRDConsumer) BufLen() int { return len(h.cc.buffer) }
func (h *VerifRDConsumer) Window() int { return h.cc.window }

// VerifRDProducerState renders the flow-control state of a producer-side
// controller (point-to-point or work-pulling) for violation details. Call it
// only while nothing else runs (scenario code between scheduling points).
func VerifRDProducerState(pid *PID) string {
	if pid == nil {
		return ""
	}
	switch x := pid.actor.(type) {
	case *producerController:
		return fmt.Sprintf("producerController{currentSeq=%d confirmedSeq=%d demandUpTo=%d unconfirmed=%d handshake=%d registered=%v}", x.currentSeq, x.confirmedSeq, x.demandUpTo, len(x.unconfirmed), x.handshake, x.consumerController != nil)
	case *workPullingProducerController:
		s := fmt.Sprintf("workPullingProducerController{storeSeq=%d pending=%d handshake=%d bindings:", x.storeSeq, len(x.pending), x.handshake)
		for _, name := range x.bindingOrder {
			b := x.bindings[name]
			if b == nil {
				continue
			}
			var ids []string
			for _, u := range b.unconfirmed {
				ids = append(ids, u.messageID)
			}
			s += fmt.Sprintf(" %s{currentSeq=%d confirmedSeq=%d demandUpTo=%d unconfirmed=%v controllerRunning=%v watchersOfController=%d}", name, b.currentSeq, b.confirmedSeq, b.demandUpTo, ids, b.controller.IsRunning(), len(pid.ActorSystem().tree().watchers(b.controller)))
		}
		return s + "}"
	}
	return ""
}

// VerifRDWatched reports whether watcher is registered in the actor tree as a
// watcher of watchee (used to label a finding, not to decide a verdict).
func VerifRDWatched(watchee, watcher *PID) bool {
	if watchee == nil || watcher == nil {
		return false
	}
	for _, w := range watcher.ActorSystem().tree().watchers(watchee) {
		if w == watcher {
			return true
		}
	}
	return false
}

package actor

import (
	"fmt"
	"time"

	"github.com/tochemey/goakt/v4/zzverif/simrt"
)

type rqItem struct {
	long    bool
	pushed  bool
	id      int
	taken   int
	repush  int
	takenBy []int
}

func (it *rqItem) runTurn(w *worker) {}

// VerifRQ drives the real readyQueue (engine B).
type VerifRQ struct {
	rq      *readyQueue
	items   []*rqItem
	NW      int
	Taken   int
	Exited  int
	Closed  bool
	Pushed  int
	Steals  int
	Viol    string
	VClass  string
	Overflw int
}

// VerifRQParams are the generated parameters of one ready-queue run.
type VerifRQParams struct {
	Workers, Producers, PerProducer int
	Repush                          []int  // per item: number of local re-pushes
	Long                            []bool // per item: the turn takes simulated time
	Burst                           []int  // per worker: extra pushLocal burst issued from inside a turn (overflow path)
	CloseEarly                      bool   // close while items may still be queued
	// Rotate pre-positions the (empty) rings' cursors: worker w's local ring starts with
	// head = tail = Rotate[w] mod capacity and the global ring with Rotate[Workers], the state
	// they are in after that many push/take cycles. Without it the wrap-around of a ring of the
	// stock capacity (256) is out of reach of a run of a few dozen operations.
	Rotate []int
}

func VerifLocalQueueCap() int       { return localQueueCap }
func VerifGlobalQueueInitCap() int  { return globalQueueInitialCap }

// VerifRQIdle is the idle-point invariant: nothing is eligible, so every worker
// is parked or inside a long turn; a parked worker with queued global work is a
// lost wake-up.
func (v *VerifRQ) Idle() (class, detail string) {
	if v.Closed {
		return "", ""
	}
	rq := v.rq
	if g, p := rq.global.size, rq.parked; g > 0 && p > 0 {
		return "lost-wakeup", fmt.Sprintf("idle point with %d item(s) in the global ring and %d parked worker(s)", g, p)
	}
	return "", ""
}

// Run executes the workload as the main thread of a simulated run.
func (v *VerifRQ) Run(p VerifRQParams) {
	nw := p.Workers
	v.NW = nw
	rq := newReadyQueue(nw)
	verifSortLocals(rq)
	for w, l := range rq.locals {
		if w < len(p.Rotate) {
			l.head = p.Rotate[w] % len(l.buf)
			l.tail = l.head
		}
	}
	if nw < len(p.Rotate) && len(rq.global.buf) > 0 {
		rq.global.head = p.Rotate[nw] % len(rq.global.buf)
		rq.global.tail = rq.global.head
	}
	v.rq = rq
	total := p.Producers * p.PerProducer
	extra := 0
	for _, b := range p.Burst {
		extra += b
	}
	v.items = make([]*rqItem, total+extra)
	for i := range v.items {
		it := &rqItem{id: i}
		if i < len(p.Repush) {
			it.repush = p.Repush[i]
		}
		if i < len(p.Long) {
			it.long = p.Long[i]
		}
		v.items[i] = it
	}
	nextExtra := total
	burstLeft := append([]int(nil), p.Burst...)
	done := make(chan struct{}, nw+p.Producers)
	for w := 0; w < nw; w++ {
		simrt.Go(-50, func() {
			for {
				s, ok := rq.take(w)
				if !ok {
					v.Exited++
					done <- struct{}{}
					return
				}
				it := s.(*rqItem)
				if it.long {
					simrt.Sleep(-54, time.Millisecond) // a long turn: this worker is busy, not idle
				}
				it.taken++
				it.takenBy = append(it.takenBy, w)
				if w < len(burstLeft) && burstLeft[w] > 0 {
					// a turn that schedules several other actors onto its own ring (overflow path)
					n := burstLeft[w]
					burstLeft[w] = 0
					for k := 0; k < n; k++ {
						it2 := v.items[nextExtra] // claim the item before the push: pushLocal yields
						nextExtra++
						it2.pushed = true
						v.Pushed++
						rq.pushLocal(w, it2)
					}
				}
				if it.repush > 0 {
					it.repush--
					it.taken--
					rq.pushLocal(w, it) // yielding actor goes back to its worker's ring
					continue
				}
				v.Taken++
			}
		})
	}
	for pi := 0; pi < p.Producers; pi++ {
		simrt.Go(-51, func() {
			for k := 0; k < p.PerProducer; k++ {
				v.items[pi*p.PerProducer+k].pushed = true
				v.Pushed++
				rq.push(v.items[pi*p.PerProducer+k])
			}
			done <- struct{}{}
		})
	}
	for pi := 0; pi < p.Producers; pi++ {
		simrt.Recv(-52, done)
	}
	if !p.CloseEarly {
		// bounded liveness: once the producers are done every pushed item (bursts
		// issued from inside turns included) is taken within the budget
		for i := 0; i < 1000 && v.Taken < v.Pushed; i++ {
			simrt.Sleep(-53, time.Millisecond)
		}
		if all := v.Pushed; v.Taken < all {
			v.VClass = "item-not-taken"
			v.Viol = fmt.Sprintf("%d of %d taken 1s (simulated) after the last push (global=%d parked=%d)", v.Taken, all, rq.globalLen(), rq.parkedCount())
			for _, it := range v.items {
				if it.taken != 1 {
					v.Viol += fmt.Sprintf(" item%d{taken=%d repush=%d by=%v}", it.id, it.taken, it.repush, it.takenBy)
				}
			}
		}
	}
	rq.close()
	v.Closed = true
	for w := 0; w < nw; w++ {
		simrt.Recv(-52, done)
	}
}

// Check evaluates the conservation and exit oracles after the run.
func (v *VerifRQ) Check(closeEarly bool) (class, detail string) {
	if v.Viol != "" {
		return v.VClass, v.Viol
	}
	for _, it := range v.items {
		if it.taken > 1 {
			return "item-taken-twice", fmt.Sprintf("item %d taken %d times by workers %v", it.id, it.taken, it.takenBy)
		}
		if it.taken == 0 && it.pushed && !closeEarly {
			return "item-lost", fmt.Sprintf("item %d never taken", it.id)
		}
	}
	if v.Exited != v.NW {
		return "worker-not-exited", fmt.Sprintf("only %d of %d workers exited after close", v.Exited, v.NW)
	}
	return "", ""
}

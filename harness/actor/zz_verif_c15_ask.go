package actor

// VerifRCErr reports the error recorded on a ReceiveContext (what
// ReceiveContext.Ask / SendSync / BatchAsk / Request set through Err).
func VerifRCErr(rc *ReceiveContext) error { return rc.err }

package actor

// In-package accessors for the C12 (passivation) and C31 (grain lifecycle)
// scenarios. Overlay only; not instrumented (no scheduling points).

// VerifPassivationPaused reports whether the PausePassivation command (or a
// suspension) has taken effect on pid: the flag tryPassivation consults.
func VerifPassivationPaused(pid *PID) bool {
	return pid != nil && pid.isStateSet(passivationPausedState)
}

// VerifGrainActive reports whether a local grain process exists for the
// identity and is activated.
func VerifGrainActive(sys ActorSystem, id *GrainIdentity) bool {
	x, ok := sys.(*actorSystem)
	if !ok || id == nil {
		return false
	}
	p, ok := x.grains.Get(id.String())
	return ok && p.isActive()
}

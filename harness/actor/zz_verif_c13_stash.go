package actor

// In-package support for the C13 stash scenarios (overlay only, not instrumented).

// VerifResetContextPool puts the package-level ReceiveContext pool into a
// defined state at the start of a run: full, every pooled context blank. The
// pool outlives a run (it is a package variable), and ReceiveContext.reset()
// leaves responseClosed as the last user set it, so without this the outcome of
// a run could depend on what earlier runs of the same worker process did.
//
// responded=true marks every pooled context the way a context looks after it
// carried an Ask that was answered (Response() won its responseClosed CAS and
// reset() does not clear the flag): the state the pool of any process reaches
// once it has served about contextPoolSize answered Asks. It is produced by
// the product code alone; this helper only saves the 8192 warm-up Asks.
func VerifResetContextPool(responded bool) {
	var keep []*ReceiveContext
drain:
	for {
		select {
		case rc := <-contextCh:
			keep = append(keep, rc)
		default:
			break drain
		}
	}
	for len(keep) < contextPoolSize {
		keep = append(keep, new(ReceiveContext))
	}
	for _, rc := range keep[:contextPoolSize] {
		rc.reset()
		rc.next = nil
		rc.responseClosed.Store(responded)
		select {
		case contextCh <- rc:
		default:
		}
	}
}

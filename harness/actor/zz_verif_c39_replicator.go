package actor

// In-package harness support for C39/C41 (overlay only; never part of /repo,
// not instrumented). The real replicatorActor is only spawned by a clustered
// actor system and publishes through that system's TopicActor; here 2-3 real
// replicatorActor instances run as ordinary actors of ONE non-clustered system
// and their topicActor field points at a harness "fabric" actor, which receives
// exactly the *Publish messages the TopicActor would receive and forwards the
// protobuf payload (the message a subscriber gets) to the peers.

import (
	"context"
	"time"

	"github.com/tochemey/goakt/v4/crdt"
	"github.com/tochemey/goakt/v4/internal/codec"
	"github.com/tochemey/goakt/v4/internal/internalpb"
	sup "github.com/tochemey/goakt/v4/supervisor"
)

// VerifReplHook is called on the replicator's own goroutine right after the
// real Receive returned for msg; pubFrom/pubTo are the values of the publish
// sequence counter before/after (messages pubFrom+1..pubTo were handed to the
// topic actor while handling msg).
type VerifReplHook func(h *VerifReplicator, msg any, pubFrom, pubTo uint64)

// VerifReplicator wraps one real replicatorActor.
type VerifReplicator struct {
	*replicatorActor
	Idx    int
	fabric func() *PID
	hook   VerifReplHook
}

func (v *VerifReplicator) Receive(ctx *ReceiveContext) {
	before := v.msgSeq.Load()
	v.replicatorActor.Receive(ctx)
	if _, ok := ctx.Message().(*PostStart); ok {
		// the system has no TopicActor: dissemination goes to the fabric
		v.topicActor = v.fabric()
	}
	if v.hook != nil {
		v.hook(v, ctx.Message(), before, v.msgSeq.Load())
	}
}

// VerifSpawnReplicator registers the CRDT config extension (once per system)
// and spawns a real replicator under the given name with the supervisor the
// product uses.
func VerifSpawnReplicator(ctx context.Context, sys ActorSystem, name string, idx int, cfg *crdt.Config, fabric func() *PID, hook VerifReplHook) (*VerifReplicator, *PID, error) {
	x := sys.(*actorSystem)
	if _, ok := x.extensions.Get(crdtConfigExtensionID); !ok {
		x.extensions.Set(crdtConfigExtensionID, &crdtConfigExtension{config: cfg})
	}
	v := &VerifReplicator{replicatorActor: newReplicatorActor(), Idx: idx, fabric: fabric, hook: hook}
	pid, err := sys.Spawn(ctx, name, v,
		WithLongLived(),
		WithSupervisor(sup.NewSupervisor(sup.WithStrategy(sup.OneForOneStrategy), sup.WithAnyErrorDirective(sup.RestartDirective))))
	return v, pid, err
}

// accessors below are only valid on the replicator's goroutine (inside the hook)

// VerifStoreGet is what handleGet would answer for keyID at this instant.
func (v *VerifReplicator) VerifStoreGet(keyID string) crdt.ReplicatedData { return v.store[keyID] }

// VerifTombstoned reports whether the replicator currently holds a tombstone.
func (v *VerifReplicator) VerifTombstoned(keyID string) (bool, time.Time) {
	if ts, ok := v.tombstones[keyID]; ok {
		return true, ts.deletedAt
	}
	return false, time.Time{}
}

// VerifNodeID is the replicator's node id (origin of its deltas).
func (v *VerifReplicator) VerifNodeID() string { return v.nodeID }

// messages only the package can build

func VerifPruneTick() any     { return &pruneTick{} }
func VerifDigestRequest() any { return &dataCenterDigestRequest{} } // answered with buildDigest()
func VerifEmptyDigest() any   { return &internalpb.CRDTDigest{} }   // "peer knows nothing": full state of every key

// VerifCRDTMsg classifies a protobuf replication message: kind is one of
// delta, tombstone, digest, fullstate or "" and keys lists the key ids it
// carries (one for delta/tombstone).
func VerifCRDTMsg(msg any) (kind string, keys []string, origin string) {
	switch m := msg.(type) {
	case *internalpb.CRDTDelta:
		k, _, _ := codec.DecodeCRDTKey(m.GetKey())
		return "delta", []string{k}, m.GetOriginNode()
	case *internalpb.CRDTTombstone:
		k, _, _ := codec.DecodeCRDTKey(m.GetKey())
		return "tombstone", []string{k}, m.GetDeletedByNode()
	case *internalpb.CRDTDigest:
		for _, e := range m.GetEntries() {
			k, _, _ := codec.DecodeCRDTKey(e.GetKey())
			keys = append(keys, k)
		}
		return "digest", keys, ""
	case *internalpb.CRDTFullState:
		for _, e := range m.GetEntries() {
			k, _, _ := codec.DecodeCRDTKey(e.GetKey())
			keys = append(keys, k)
		}
		return "fullstate", keys, ""
	case *pruneTick:
		return "prune", nil, ""
	case *dataCenterDigestRequest:
		return "digestreq", nil, ""
	}
	return "", nil, ""
}

package actor

// In-package helper for the C19 cluster scenario (cluster-wide cron single
// fire). Overlay only; not instrumented.
//
// The simulated registry cannot read the TTL out of an olric.PutOption (opaque
// closure over an olric-internal type), so the seam applies cluster.SimClaimTTL
// to every put-if-absent that carries an expiry. VerifObserveScheduleClaims puts
// a thin decorator in front of the system's cluster engine that copies the TTL
// goakt really asks for into cluster.SimClaimTTL right before the claim is made
// (every node of a run uses the same TTL for the same cron expression) and tells
// the scenario about every claim call and its outcome.

import (
	"context"
	"time"

	"github.com/tochemey/goakt/v4/internal/cluster"
)

type verifClaimObserver struct {
	cluster.Cluster
	on func(phase, key string, ttl time.Duration, err error)
}

func (w *verifClaimObserver) ClaimScheduleFire(ctx context.Context, key string, ttl time.Duration) error {
	cluster.SimClaimTTL = ttl
	w.on("call", key, ttl, nil)
	err := w.Cluster.ClaimScheduleFire(ctx, key, ttl)
	w.on("ret", key, ttl, err)
	return err
}

// VerifObserveScheduleClaims wraps the cluster engine of a started,
// cluster-enabled actor system. Call it before any cron schedule exists.
func VerifObserveScheduleClaims(sys ActorSystem, on func(phase, key string, ttl time.Duration, err error)) bool {
	x, ok := sys.(*actorSystem)
	if !ok || x.cluster == nil {
		return false
	}
	if _, done := x.cluster.(*verifClaimObserver); done {
		return true
	}
	x.cluster = &verifClaimObserver{Cluster: x.cluster, on: on}
	return true
}

// VerifResetClaimTTL restores the seam's default claim TTL (process-level state).
func VerifResetClaimTTL() { cluster.SimClaimTTL = time.Minute }

// VerifIsClaimLost reports whether err is the "another node claimed the tick" answer.
func VerifIsClaimLost(err error) bool { return err == cluster.ErrScheduleFireClaimed }

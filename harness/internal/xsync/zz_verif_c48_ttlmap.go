package xsync

// VerifShape exposes the layout of the TTL map for coverage probes of the C48
// scenarios (never for verdicts): head offset, length of the order slice and
// size of the index map. It takes no lock: harness code runs atomically between
// scheduling points and the map has none inside its critical sections.
func (s *TTLMap[K, V]) VerifShape() (head, order, items int) {
	return s.head, len(s.order), len(s.items)
}
